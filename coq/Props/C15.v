(* C15 — IntSet and IntMap are persistent: correct values, never mutated in place.
   Only statements here; each is closed by [exact] of a lemma of DataProofs.v.

   Reading guide.  [run_history grow order ops] runs the heap-level model of data/intset.go and
   data/intmap.go (DataHeap.v, on the Go heap of GoHeap.v) over the history [ops], starting from the
   package's EmptyIntSet (value 0) and EmptyIntMap (value 1); the arguments of an operation are indices
   into the list of all values produced so far.  [grow] is the capacity append chooses when it
   reallocates and [order] the order in which range visits a map: both are universally quantified.
   [arun ainit ops] runs the same history on the abstract machine (pure ascending lists / association
   lists, values only ever added); it is [Some _] exactly when every index of the history refers to an
   existing value of the right kind.  [abs_state st] reads every value of the heap state back. *)
From Coq Require Import List NArith ZArith Permutation.
From Parsley Require Import Base GoHeap DataHeap DataProofs.
Import ListNotations.

(* REFINEMENT, whole histories: for every well-formed history the heap model does not panic and does
   not run out of fuel, and reading all values back gives exactly the abstract machine's values; all
   sets are strictly ascending (so Each iterates ascending, duplicate-free) and all maps have
   strictly ascending (in particular distinct) keys. *)
Theorem C15_refines : forall (grow : nat -> nat) (order : amap -> amap),
  (forall e, Permutation (order e) e) ->
  forall ops avs, arun ainit ops = Some avs ->
  exists st, run_history grow order ops = Ok st /\ abs_state st = avs /\ Forall aval_sorted avs.
Proof. exact history_refines. Qed.
Print Assumptions C15_refines.

(* REFINEMENT, one operation (including the reads Len/Each/Get/Keys/Each): after any well-formed
   history, an operation the abstract machine accepts succeeds on the heap, the values read back
   afterwards are the abstract machine's, and the operation's own result is the abstract one
   (Keys and map Each as bags: Go's map iteration order is unspecified). *)
Theorem C15_step_refines : forall (grow : nat -> nat) (order : amap -> amap),
  (forall e, Permutation (order e) e) ->
  forall ops avs o avs' ar,
  arun ainit ops = Some avs -> astep avs o = Some (avs', ar) ->
  exists st st' r, run_history grow order ops = Ok st /\ abs_state st = avs /\
                   step grow order st o = Ok (st', r) /\ abs_state st' = avs' /\ res_match r ar.
Proof. exact step_refines. Qed.
Print Assumptions C15_step_refines.

(* PERSISTENCE: whatever operations [ops2] follow, every value that existed after [ops1] is still
   there and still reads back as exactly the set / map it was (no operation changes an earlier value;
   this includes the shared EmptyIntSet / EmptyIntMap and values that share a backing array because
   Union returned an operand). *)
Theorem C15_persistent : forall (grow : nat -> nat) (order : amap -> amap),
  (forall e, Permutation (order e) e) ->
  forall ops1 ops2 avs, arun ainit (ops1 ++ ops2) = Some avs ->
  exists st1 st2, run_history grow order ops1 = Ok st1 /\ run_history grow order (ops1 ++ ops2) = Ok st2 /\
    forall i v, nth_error (st_vals st1) i = Some v ->
      nth_error (st_vals st2) i = Some v /\ abs_val (st_heap st2) v = abs_val (st_heap st1) v.
Proof. exact history_persistent. Qed.
Print Assumptions C15_persistent.

(* The mechanism behind persistence: one operation, started in any state satisfying the invariant
   (every value is a well-formed header onto ascending cells / a map with ascending keys), writes
   only into arrays and maps it allocated itself ([grows]: the old heap is a frame of the new one,
   values are only appended), re-establishes the invariant and simulates the abstract step. *)
Theorem C15_step_frame : forall (grow : nat -> nat) (order : amap -> amap),
  (forall e, Permutation (order e) e) ->
  forall st o avs' ar, inv st -> astep (abs_state st) o = Some (avs', ar) ->
  exists st' r, step grow order st o = Ok (st', r) /\ inv st' /\ abs_state st' = avs' /\
                res_match r ar /\ grows st st'.
Proof. exact step_sim. Qed.
Print Assumptions C15_step_frame.

(* NO PANIC: no slice index out of range, no bad slice expression, for every well-formed history. *)
Theorem C15_no_panic : forall (grow : nat -> nat) (order : amap -> amap),
  (forall e, Permutation (order e) e) ->
  forall ops, arun ainit ops <> None -> exists st, run_history grow order ops = Ok st.
Proof. exact history_no_panic. Qed.
Print Assumptions C15_no_panic.

(* SENSITIVITY: with the Insert of the pinned tree (before commit 50f74e9: `i2 := i`, insertValue
   appends into the receiver's spare capacity) persistence is FALSE, for every growth function:
   after NewIntSet(1,1,3) (value 2 = {1,3}, capacity 3), Insert(value 2, 2) rewrites value 2 to {1,2}. *)
Theorem C15_pinned_insert_refuted : forall (grow : nat -> nat) (order : amap -> amap),
  exists st0 st1 st2 v,
    init_state grow = Ok st0 /\
    run_with grow order (set_insert_pinned grow) st0 [OpNewSet [1; 1; 3]%Z] = Ok st1 /\
    run_with grow order (set_insert_pinned grow) st0 [OpNewSet [1; 1; 3]%Z; OpInsert 2 2] = Ok st2 /\
    nth_error (st_vals st1) 2 = Some v /\
    abs_val (st_heap st1) v = ASet [1; 3]%Z /\ abs_val (st_heap st2) v = ASet [1; 2]%Z.
Proof. exact pinned_insert_refuted. Qed.
Print Assumptions C15_pinned_insert_refuted.

(* THE SPECIFICATION IS THE MATHEMATICAL ONE.  Ascending lists are determined by their members
   (so the three set theorems below characterise set_insert / set_union / set_of_list uniquely),
   association lists with ascending keys by their lookups. *)
Theorem C15_spec_sets_extensional : forall a b, asc a -> asc b -> (forall x, In x a <-> In x b) -> a = b.
Proof. exact asc_ext. Qed.
Print Assumptions C15_spec_sets_extensional.
Theorem C15_spec_insert : forall v l x, In x (set_insert v l) <-> x = v \/ In x l.
Proof. exact set_insert_in. Qed.
Print Assumptions C15_spec_insert.
Theorem C15_spec_union : forall a b x, In x (set_union a b) <-> In x a \/ In x b.
Proof. exact set_union_in. Qed.
Print Assumptions C15_spec_union.
Theorem C15_spec_new : forall vals x, In x (set_of_list vals) <-> In x vals.
Proof. exact set_of_list_in. Qed.
Print Assumptions C15_spec_new.
Theorem C15_spec_maps_extensional : forall a b, keys_asc a -> keys_asc b ->
  (forall k, amap_get a k = amap_get b k) -> a = b.
Proof. exact amap_ext. Qed.
Print Assumptions C15_spec_maps_extensional.
Theorem C15_spec_inc : forall m k k',
  amap_get (abs_inc m k) k' =
  if (k =? k')%Z then Some (match amap_get m k with Some v => (v + 1)%Z | None => 1%Z end) else amap_get m k'.
Proof. exact abs_inc_get. Qed.
Print Assumptions C15_spec_inc.
Theorem C15_spec_filter : forall m s k,
  amap_get (abs_filter m s) k = if set_mem k s then amap_get m k else None.
Proof. exact abs_filter_get. Qed.
Print Assumptions C15_spec_filter.
Theorem C15_spec_new_map : forall kvs k v, map_of_list (kvs ++ [(k, v)]) = amap_set (map_of_list kvs) k v.
Proof. exact map_of_list_snoc. Qed.
Print Assumptions C15_spec_new_map.
