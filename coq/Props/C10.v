(* C10 — Whitespace modes are enforced exactly and permitted whitespace is transparent.
   Only statements: each theorem repeats the full statement of a lemma proved in TrimProofs.v and is closed by [exact].
   Vocabulary (coq/Trim.v): [spec_run inp pos] = the maximal run of {space, tab, LF, FF} at pos (start, end, position of
   its first line break); [mode_check m r] = None when run r satisfies mode m, else the mode's error (WsNone: start of the
   run, WsSpaces: first line break, WsSpacesForceNl: end of the run); [spec_tokens]/[spec_parse] = the property as written
   ([code_tokens]/[code_parse] are the same functions since the K3 repair of RightTrim: a whitespace error is no longer
   moved over the whitespace behind it). *)
From Coq Require Import String List NArith ZArith Bool.
From Parsley Require Import Obs Base FileSet Grammar Engine EngineFacts EngineHarness Trim TrimProofs.
From Parsley Require Reader ReaderProofs.
Import ListNotations.
Open Scope N_scope.

(* 1. SkipWhitespaces (model: Grammar.v skip_ws), for every input, base offset >= 1, position in or behind the file and
   mode: it returns the end e of the maximal run of the four whitespace bytes starting at pos (every byte in [pos, e) is
   one of them, the byte at e is not, or e is the end of the file), and no error iff the run satisfies the mode; otherwise
   the mode's error at pos (WsNone), at the first line break (WsSpaces), at e (WsSpacesForceNl). *)
Theorem C10_skip_run :
  forall (inp : input) (pos : N) (m : wsmode),
  1 <= i_offset inp -> i_offset inp <= pos ->
  exists (e : N) (nl : option N),
    is_run inp pos e /\ first_break inp pos e nl /\
    skip_ws inp pos m =
    (e, match m with
        | WsNone => if e =? pos then None else Some (mk_err pos (CWs WsErrNone))
        | WsSpaces => match nl with Some p => Some (mk_err p (CWs WsErrSpaces)) | None => None end
        | WsSpacesNl => None
        | WsSpacesForceNl => match nl with Some _ => None | None => Some (mk_err e (CWs WsErrForceNl)) end
        end).
Proof. exact skip_run. Qed.
Print Assumptions C10_skip_run.

(* The end of the run is determined by the bytes: there is exactly one such e. *)
Theorem C10_run_unique :
  forall (inp : input) (pos e1 e2 : N), is_run inp pos e1 -> is_run inp pos e2 -> e1 = e2.
Proof. exact is_run_unique. Qed.
Print Assumptions C10_run_unique.

(* The same as an equation with the executable specification used by the oracle. *)
Theorem C10_skip_ws_spec :
  forall (inp : input) (pos : N) (m : wsmode),
  1 <= pos -> skip_ws inp pos m = (w_end (spec_run inp pos), mode_check m (spec_run inp pos)).
Proof. exact skip_ws_spec. Qed.
Print Assumptions C10_skip_ws_spec.

(* The engine model's skip_ws and the C09 model of Reader.SkipWhitespaces (Reader.v, with explicit index checks and a
   fuelled loop) are the same function on the positions of the file. *)
Theorem C10_skip_ws_reader :
  forall (inp : input) (pos : N) (m : wsmode),
  1 <= i_offset inp -> ReaderProofs.in_file (reader_of inp) pos ->
  Reader.skip_whitespaces (reader_of inp) pos (rmode m) =
  Ok (fst (skip_ws inp pos m), match snd (skip_ws inp pos m) with Some e => rerr e | None => None end).
Proof. exact skip_ws_reader. Qed.
Print Assumptions C10_skip_ws_reader.

(* 2. LeftTrim(Rune ch, m) at pos; r = the whitespace run at pos, q = its end (where the rune must stand):
     rune at q, r satisfies m   -> the rune's node: start q (its own), end q+1, value ch
     rune at q, r violates m    -> m's whitespace error (start of the run / first line break / end of the run)
     no rune at q, r satisfies m -> "was expecting <ch>" at q (behind the run)
     no rune at q, r violates m  -> "was expecting <ch>" at pos (before the run). *)
Theorem C10_lefttrim_spec :
  forall (inp : input) (rules : list pexpr) (f : nat) (m : wsmode) (ch : N) (c : ctx) (stk : stack) (lrc : intmap) (pos : N),
  (2 <= f)%nat -> 1 <= pos ->
  let r := spec_run inp pos in
  let q := w_end r in
  parse inp rules f (PLeftTrim m (PTerm (TRune ch))) c stk lrc pos =
  Ok (if byte_is inp q ch
      then match mode_check m r with
           | Some w => ([], [], Some w, ltrim_ctx pos q c)
           | None => ([NTerm [ch] (VRune ch) q (q + 1)], [], None, ltrim_ctx pos q c)
           end
      else ([], [], Some (nf_rune match mode_check m r with Some _ => pos | None => q end ch),
            ltrim_ctx pos q (log_fail c q (CNotFound (quote_rune ch))))).
Proof. exact lefttrim_rune. Qed.
Print Assumptions C10_lefttrim_spec.

(* RightTrim(Rune ch, m) at pos; r = the whitespace run behind the rune (at pos+1):
     rune at pos, r satisfies m -> the rune's node: start pos (its own), value ch, END = the end of the run
     rune at pos, r violates m  -> m's whitespace error
     no rune at pos             -> "was expecting <ch>" at the end of the whitespace run that starts at pos. *)
Theorem C10_righttrim_spec :
  forall (inp : input) (rules : list pexpr) (f : nat) (m : wsmode) (ch : N) (c : ctx) (stk : stack) (lrc : intmap) (pos : N),
  (2 <= f)%nat -> 1 <= pos ->
  let r := spec_run inp (pos + 1) in
  parse inp rules f (PRightTrim m (PTerm (TRune ch))) c stk lrc pos =
  Ok (if byte_is inp pos ch
      then match mode_check m r with
           | Some w => ([], [], Some w, c)
           | None => ([NTerm [ch] (VRune ch) pos (w_end r)], [], None, c)
           end
      else ([], [], Some (nf_rune (w_end (spec_run inp pos)) ch), log_fail c pos (CNotFound (quote_rune ch)))).
Proof. exact righttrim_rune. Qed.
Print Assumptions C10_righttrim_spec.

(* Generalisation to ANY operand p (whatever it returns behind the run): LeftTrim's table. *)
Theorem C10_lefttrim_table :
  forall (inp : input) (rules : list pexpr) (rp : ptype) (rs : stype) (m : wsmode) (p : pexpr) (c : ctx) (stk : stack)
         (lrc : intmap) (pos : N) (res : list node) (cp : intset) (err : option perr) (c' : ctx),
  1 <= pos ->
  let r := spec_run inp pos in
  rp p c stk lrc (w_end r) = Ok (res, cp, err, c') ->
  parse_step inp rules rp rs (PLeftTrim m p) c stk lrc pos =
  Ok match err with
     | Some e =>
       match mode_check m r with
       | Some w => if w_end r <? epos e then ([], [], Some w, ltrim_ctx pos (w_end r) c')
                   else if is_notfound e then (res, cp, Some (mk_err pos (ecause e)), ltrim_ctx pos (w_end r) c')
                   else (res, cp, Some e, ltrim_ctx pos (w_end r) c')
       | None => (res, cp, Some e, ltrim_ctx pos (w_end r) c')
       end
     | None =>
       match mode_check m r with
       | Some w => ([], [], Some w, ltrim_ctx pos (w_end r) c')
       | None => (res, cp, None, ltrim_ctx pos (w_end r) c')
       end
     end.
Proof. exact lefttrim_table. Qed.
Print Assumptions C10_lefttrim_table.

(* RightTrim around ANY operand returning one node (not an end-of-input node): only the node's end moves, to the end of
   the run behind it; a forbidden run gives the mode's error. *)
Theorem C10_righttrim_table_node :
  forall (inp : input) (rules : list pexpr) (rp : ptype) (rs : stype) (m : wsmode) (p : pexpr) (c : ctx) (stk : stack)
         (lrc : intmap) (pos : N) (n : node) (cp : intset) (c' : ctx),
  1 <= node_rpos n -> (forall q : N, n <> NEnd q) ->
  rp p c stk lrc pos = Ok ([n], cp, None, c') ->
  let r := spec_run inp (node_rpos n) in
  parse_step inp rules rp rs (PRightTrim m p) c stk lrc pos =
  Ok match mode_check m r with
     | Some w => ([], [], Some w, c')
     | None => ([set_rpos n (w_end r)], cp, None, c')
     end.
Proof. exact righttrim_table_node. Qed.
Print Assumptions C10_righttrim_table_node.

(* RightTrim around ANY failing operand: a whitespace error of the operand (e.g. of an inner LeftTrim) is returned as it
   is; any other error is moved to the end of the whitespace run that starts at the error's position. *)
Theorem C10_righttrim_table_err :
  forall (inp : input) (rules : list pexpr) (rp : ptype) (rs : stype) (m : wsmode) (p : pexpr) (c : ctx) (stk : stack)
         (lrc : intmap) (pos : N) (res : list node) (cp : intset) (e : perr) (c' : ctx),
  1 <= epos e ->
  rp p c stk lrc pos = Ok (res, cp, Some e, c') ->
  parse_step inp rules rp rs (PRightTrim m p) c stk lrc pos =
  Ok (res, cp, Some (if is_wserr e then e else mk_err (w_end (spec_run inp (epos e))) (ecause e)), c').
Proof. exact righttrim_table_err. Qed.
Print Assumptions C10_righttrim_table_err.

(* LeftTrim around an operand that can fail BEHIND its start, the two-rune word SeqOf(Rune c, Rune d): the result is
   [spec_lefttrim_word] — the word's node at its own position when the run is permitted; the mode's whitespace error when
   the run is forbidden and the word matches OR breaks off after its first rune (the whitespace error wins over the
   word's further error); otherwise a "was expecting" error. *)
Theorem C10_lefttrim_word :
  forall (inp : input) (rules : list pexpr) (f : nat) (m : wsmode) (c d : N) (ctx : ctx) (stk : stack) (lrc : intmap) (pos : N),
  (5 <= f)%nat -> 1 <= pos ->
  exists (c' : Grammar.ctx) (e : perr), is_notfound e = true /\
    parse inp rules f (PLeftTrim m (word_expr c d)) ctx stk lrc pos =
    Ok (match spec_lefttrim_word inp m c d pos with
        | WAccept q => ([word_node c d q], [], None, c')
        | WWs w => ([], [], Some w, c')
        | WFail => ([], [], Some e, c')
        end).
Proof. exact lefttrim_word. Qed.
Print Assumptions C10_lefttrim_word.

(* 3. For EVERY list of tokens (each with no/any left mode and no/any right mode), every input and base offset >= 1:
   parsley.Parse(Sentence(SeqOf(tokens))) is exactly what the property says ([spec_parse]): either the single tree
   SEQ[SEQ[token nodes]; EOF] with every token node at the rune's own start, ending behind its right run, or the error of the
   first token that cannot be accepted — that mode's whitespace error at the start of the run / the first line break / the
   end of the run, or "was expecting <rune>" — or of the missing end of input. *)
Theorem C10_tokens_spec :
  forall (inp : input) (rules : list pexpr) (ts : list tokspec) (fuel : nat),
  1 <= i_offset inp -> (length ts + 8 <= fuel)%nat ->
  exists c : ctx,
    cerr c = None /\
    parse_top inp rules fuel (sentence (toks_expr ts)) =
    Ok match spec_parse inp ts with
       | VTree ns e => TopNode [sentence_tree ns e] c
       | VError e => TopErr e c
       end.
Proof. exact tokens_spec. Qed.
Print Assumptions C10_tokens_spec.

(* The same under its former name ([code_parse] = [spec_parse] since the K3 repair). *)
Theorem C10_tokens_code :
  forall (inp : input) (rules : list pexpr) (ts : list tokspec) (fuel : nat),
  1 <= i_offset inp -> (length ts + 8 <= fuel)%nat ->
  exists c : ctx,
    cerr c = None /\
    parse_top inp rules fuel (sentence (toks_expr ts)) =
    Ok match code_parse inp ts with
       | VTree ns e => TopNode [sentence_tree ns e] c
       | VError e => TopErr e c
       end.
Proof. exact tokens_code. Qed.
Print Assumptions C10_tokens_code.

(* 4. Transparency.  Two texts with the same (non-whitespace) runes and arbitrary whitespace strings in the gaps — g0 before
   the first rune, gs_i behind rune i — both accepted: the token lists are equal after erasing positions, every node
   starts at its own rune ([starts]), hence token i moves by exactly the whitespace inserted before it. *)
Theorem C10_transparent :
  forall (ts : list tokspec) (inp1 inp2 : input) (g01 : list N) (gs1 : list (list N)) (g02 : list N)
         (gs2 : list (list N)) (ns1 : list node) (e1 : N) (ns2 : list node) (e2 : N),
  Forall (fun t : tokspec => ws4 (t_rune t) = false) ts ->
  length gs1 = length ts -> length gs2 = length ts ->
  all_ws g01 -> Forall all_ws gs1 -> all_ws g02 -> Forall all_ws gs2 ->
  i_data inp1 = g01 ++ lay (map t_rune ts) gs1 ->
  i_data inp2 = g02 ++ lay (map t_rune ts) gs2 ->
  spec_tokens inp1 ts (i_offset inp1) = SAccept ns1 e1 ->
  spec_tokens inp2 ts (i_offset inp2) = SAccept ns2 e2 ->
  map erase ns1 = map erase ns2 /\
  map node_pos ns1 = starts (i_offset inp1 + len_N g01) (map t_rune ts) gs1 /\
  map node_pos ns2 = starts (i_offset inp2 + len_N g02) (map t_rune ts) gs2 /\
  (forall (i : nat) (s1 s2 : N),
   nth_error (map node_pos ns1) i = Some s1 -> nth_error (map node_pos ns2) i = Some s2 ->
   s2 + (i_offset inp1 + len_N g01 + total (firstn i gs1)) = s1 + (i_offset inp2 + len_N g02 + total (firstn i gs2))).
Proof. exact transparent. Qed.
Print Assumptions C10_transparent.

(* The same about parsley.Parse itself (with theorem 3): two accepted whitespace variants of a text give the same tree up
   to positions. *)
Theorem C10_transparent_top :
  forall (ts : list tokspec) (inp1 inp2 : input) (rules : list pexpr) (fuel : nat) (g01 : list N) (gs1 : list (list N))
         (g02 : list N) (gs2 : list (list N)) (t1 : list node) (c1 : ctx) (t2 : list node) (c2 : ctx),
  1 <= i_offset inp1 -> 1 <= i_offset inp2 -> (length ts + 8 <= fuel)%nat ->
  Forall (fun t : tokspec => ws4 (t_rune t) = false) ts ->
  length gs1 = length ts -> length gs2 = length ts ->
  all_ws g01 -> Forall all_ws gs1 -> all_ws g02 -> Forall all_ws gs2 ->
  i_data inp1 = g01 ++ lay (map t_rune ts) gs1 ->
  i_data inp2 = g02 ++ lay (map t_rune ts) gs2 ->
  parse_top inp1 rules fuel (sentence (toks_expr ts)) = Ok (TopNode t1 c1) ->
  parse_top inp2 rules fuel (sentence (toks_expr ts)) = Ok (TopNode t2 c2) ->
  exists (ns1 : list node) (e1 : N) (ns2 : list node) (e2 : N),
    t1 = [sentence_tree ns1 e1] /\ t2 = [sentence_tree ns2 e2] /\
    map erase ns1 = map erase ns2 /\
    map node_pos ns1 = starts (i_offset inp1 + len_N g01) (map t_rune ts) gs1 /\
    map node_pos ns2 = starts (i_offset inp2 + len_N g02) (map t_rune ts) gs2 /\
    (forall (i : nat) (s1 s2 : N),
     nth_error (map node_pos ns1) i = Some s1 -> nth_error (map node_pos ns2) i = Some s2 ->
     s2 + (i_offset inp1 + len_N g01 + total (firstn i gs1)) = s1 + (i_offset inp2 + len_N g02 + total (firstn i gs2))).
Proof. exact transparent_top. Qed.
Print Assumptions C10_transparent_top.

(* text.Trim tokens (RightTrim(LeftTrim(Rune c, spaces-and-newlines), spaces-and-newlines)) over non-whitespace runes:
   EVERY whitespace string before, between and behind the runes is permitted — Parse succeeds, and the token nodes are the
   runes at their own positions with their own values, whatever the whitespace is. *)
Theorem C10_trim_any_whitespace :
  forall (inp : input) (rules : list pexpr) (cs : list N) (g0 : list N) (gs : list (list N)) (fuel : nat),
  1 <= i_offset inp -> (length cs + 8 <= fuel)%nat ->
  Forall (fun c : N => ws4 c = false) cs -> cs <> [] -> length gs = length cs ->
  all_ws g0 -> Forall all_ws gs ->
  i_data inp = g0 ++ lay cs gs ->
  exists (ns : list node) (e : N) (c : ctx),
    parse_top inp rules fuel (sentence (toks_expr (map tok_trim cs))) = Ok (TopNode [sentence_tree ns e] c) /\
    map node_pos ns = starts (i_offset inp + len_N g0) cs gs /\
    map erase ns = map (fun ch : N => ([ch], VRune ch)) cs.
Proof. exact trim_any_whitespace. Qed.
Print Assumptions C10_trim_any_whitespace.

(* 5. parsley.Parse reports a whitespace error returned by the root parser as it is, whatever the context's furthest
   error (for every grammar of the model). *)
Theorem C10_ws_error_wins :
  forall (inp : input) (rules : list pexpr) (fuel : nat) (root : pexpr) (ns : list node) (cp : intset) (e : perr) (c : ctx),
  run inp rules fuel root = Ok (ns, cp, Some e, c) -> is_wserr e = true ->
  parse_top inp rules fuel root = Ok (TopErr e c).
Proof. exact ws_error_wins. Qed.
Print Assumptions C10_ws_error_wins.
