(* C11 — Global positions map one-to-one onto file, line and column.
   Only statements here; each is closed by [exact] of a lemma of FileSetProofs.v. *)
From Coq Require Import List NArith.
From Parsley Require Import Base FileSet FileSetProofs.
Import ListNotations.
Open Scope N_scope.

(* FileSet.Position (binary searches over base offsets and line starts, lazily built line
   table) never panics and equals the specification that locates the file by a linear scan
   of the layout and counts line feeds in the CRLF-normalised content — for every list of
   files and every position, in range or not. *)
Theorem C11_position_is_spec : forall files p,
  fs_position (new_fileset files) p = Ok (spec_position files p).
Proof. exact fs_position_spec. Qed.
Print Assumptions C11_position_is_spec.

(* Every position from a file's first byte through its end-of-file position translates
   back to that file's name, 1 + the number of line feeds before it, and 1 + the distance
   from the last line start. *)
Theorem C11_roundtrip : forall files i f c,
  nth_error files i = Some f -> c <= f_len f ->
  spec_position files (offset_of files i + c) =
  Some {| p_name := f_name f;
          p_line := 1 + count_lf (firstn (N.to_nat c) (f_data f));
          p_col := 1 + tail_len (firstn (N.to_nat c) (f_data f)) 0 |}.
Proof. exact position_roundtrip. Qed.
Print Assumptions C11_roundtrip.

(* Distinct (file, offset) pairs get distinct global positions. *)
Theorem C11_injective : forall files i j f g c d,
  nth_error files i = Some f -> nth_error files j = Some g -> c <= f_len f -> d <= f_len g ->
  offset_of files i + c = offset_of files j + d -> i = j /\ c = d.
Proof. exact positions_injective. Qed.
Print Assumptions C11_injective.

(* Files never overlap: each base offset is the previous one plus that file's length plus one. *)
Theorem C11_no_overlap : forall files i f, nth_error files i = Some f ->
  offset_of files (S i) = offset_of files i + f_len f + 1.
Proof. exact offsets_disjoint. Qed.
Print Assumptions C11_no_overlap.

(* Position 0 and anything from the next free position on is unknown. *)
Theorem C11_unknown : forall files p, p = 0 \/ end_from 1 files <= p -> spec_position files p = None.
Proof. exact position_unknown. Qed.
Print Assumptions C11_unknown.

(* The base offset AddFile stores in each file is the one the theorems above speak of. *)
Theorem C11_offsets_assigned : forall files i f, nth_error files i = Some f ->
  nth_error (fs_files (new_fileset files)) i = Some (set_offset f (offset_of files i)).
Proof. exact placed_offsets. Qed.
Print Assumptions C11_offsets_assigned.

(* File.Position on its own: every offset up to EOF, and unknown beyond. *)
Theorem C11_file_position : forall f pos, pos <= f_len f ->
  file_position f pos =
  Ok (Some {| p_name := f_name f; p_line := fst (spec_linecol (f_data f) pos);
              p_col := snd (spec_linecol (f_data f) pos) |}).
Proof. exact file_position_spec. Qed.
Print Assumptions C11_file_position.

Theorem C11_file_position_beyond : forall f pos, f_len f < pos -> file_position f pos = Ok None.
Proof. exact file_position_beyond. Qed.
Print Assumptions C11_file_position_beyond.
