(* C08 — Built-in literal parsers are total and agree with Go's conversions.
   Only statements here; each is closed by [exact] of a lemma of LiteralProofs.v.

   Reading guide.  A reader [r] is the file's CRLF-normalised bytes [r_data r] (each < 256) and its
   base offset [r_offset r]; the bytes from a position on are [suffix (r_data r) (pos - r_offset r)].
   [in_dom r pos] = the bytes are bytes and offset <= pos <= offset + length.  Each parser is a
   function of (reader, position) returning [Ok (node?, error?)], [Panic] or [OutOfFuel]
   (Literals.v follows text/terminal/*.go line by line through the Reader.v primitives, so Readf's
   two panics, getPattern's panic, every slice bound and the constructors' panics are there).
   [lit_domain] is the documented domain of the construction parameters (non-empty ASCII words,
   non-empty operator, valid rune, user expression that is not nullable and has no repetition of a
   possibly empty body, group index at most the number of groups).  [cf], [cd] stand for strconv.ParseFloat and time.ParseDuration (any functions).
   [lit_spec] is the specification: the recognisers int_lexeme, float_lexeme, dur_lexeme,
   char_body_len, str_body, bq_body, word_at, has_prefix of Literals.v and the decoders
   parse_int_base0, unquote_char, encode_rune. *)
From Coq Require Import List NArith ZArith.
From Parsley Require Import Base Utf8 Reader Regex Literals LiteralProofs.
Import ListNotations.
Open Scope N_scope.

(* ------------------------------------------------------------------ *)
(* For every parser at once.                                            *)

(* never Panic, never OutOfFuel: at any position of any byte sequence *)
Theorem C08_total : forall cf cd l r pos, in_dom r pos -> lit_domain l = true ->
  exists res, lit_parse cf cd l r pos = Ok res.
Proof. exact lit_total. Qed.
Print Assumptions C08_total.

(* exactly one of node / error *)
Theorem C08_xor : forall cf cd l r pos, in_dom r pos -> lit_domain l = true ->
  forall n e, lit_parse cf cd l r pos = Ok (n, e) -> (n = None /\ e <> None) \/ (n <> None /\ e = None).
Proof. exact lit_xor. Qed.
Print Assumptions C08_xor.

(* an error is positioned between the position and the end of the input *)
Theorem C08_error_pos : forall cf cd l r pos, in_dom r pos -> lit_domain l = true ->
  forall n e0, lit_parse cf cd l r pos = Ok (n, Some e0) ->
  n = None /\ pos <= le_pos e0 <= r_offset r + r_len r.
Proof. exact lit_error_pos. Qed.
Print Assumptions C08_error_pos.

(* a node carries the parser's token, starts at the position, is not empty and ends inside the input *)
Theorem C08_span : forall cf cd l r pos, in_dom r pos -> lit_domain l = true ->
  forall nd e, lit_parse cf cd l r pos = Ok (Some nd, e) ->
  e = None /\ ln_token nd = lit_token l /\ ln_pos nd = pos /\ pos < ln_rpos nd <= r_offset r + r_len r.
Proof. exact lit_span. Qed.
Print Assumptions C08_span.

(* longest + value: a node ends right after the specification's literal and carries the value the
   specification decodes from exactly those bytes *)
Theorem C08_node_is_spec : forall cf cd l r pos, in_dom r pos -> lit_domain l = true ->
  forall nd e, lit_parse cf cd l r pos = Ok (Some nd, e) ->
  lit_spec cf cd l (suffix (r_data r) (pos - r_offset r)) = SNode (ln_rpos nd - pos) (ln_value nd).
Proof. exact lit_node_spec. Qed.
Print Assumptions C08_node_is_spec.

(* an error is returned only where the specification has no literal (and says where and which kind) *)
Theorem C08_error_is_spec : forall cf cd l r pos, in_dom r pos -> lit_domain l = true ->
  forall e0 n, lit_parse cf cd l r pos = Ok (n, Some e0) ->
  lit_spec cf cd l (suffix (r_data r) (pos - r_offset r)) = SErr (le_pos e0 - pos) (is_nf (le_kind e0)).
Proof. exact lit_error_spec. Qed.
Print Assumptions C08_error_is_spec.

(* and wherever the specification has a literal, the parser returns its node *)
Theorem C08_complete : forall cf cd l r pos, in_dom r pos -> lit_domain l = true ->
  forall k v, lit_spec cf cd l (suffix (r_data r) (pos - r_offset r)) = SNode k v ->
  lit_parse cf cd l r pos =
  Ok (Some {| ln_token := lit_token l; ln_pos := pos; ln_rpos := pos + k; ln_value := v |}, None).
Proof. exact lit_complete. Qed.
Print Assumptions C08_complete.

(* the specification's literal is never empty and lies inside the input *)
Theorem C08_spec_bounds : forall cf cd l s, lit_domain l = true ->
  match lit_spec cf cd l s with SNode n _ => 1 <= n <= len_N s | SErr a _ => a <= len_N s end.
Proof. exact lit_spec_bounds. Qed.
Print Assumptions C08_spec_bounds.

(* ------------------------------------------------------------------ *)
(* The statements above speak of [lit_parse]; these are the eleven parser functions it dispatches to
   (the model of terminal.Integer ... terminal.TimeDuration), none of which can panic.  The same
   instances of xor / error_pos / span are LiteralProofs.<parser>_xor, _error_pos, _span.          *)
Theorem C08_every_parser_total : forall (cf : list N -> option N) (cd : list N -> option Z) (r : reader) (pos : N),
  in_dom r pos ->
  (exists res, p_integer r pos = Ok res) /\
  (exists res, p_float cf r pos = Ok res) /\
  (forall bq, exists res, p_string bq r pos = Ok res) /\
  (exists res, p_char r pos = Ok res) /\
  (forall t f, lit_domain (LBool t f) = true -> exists res, p_bool t f r pos = Ok res) /\
  (forall w, lit_domain (LNil w) = true -> exists res, p_nil w r pos = Ok res) /\
  (forall w, lit_domain (LWord w) = true -> exists res, p_word w r pos = Ok res) /\
  (forall o, lit_domain (LOp o) = true -> exists res, p_op o r pos = Ok res) /\
  (forall ch, lit_domain (LRune ch) = true -> exists res, p_rune ch r pos = Ok res) /\
  (forall re g, lit_domain (LRegexp re g) = true -> exists res, p_regexp re g r pos = Ok res) /\
  (exists res, p_duration cd r pos = Ok res).
Proof.
  exact (fun cf cd r pos D =>
    conj (integer_total cf cd r pos D) (conj (float_total cf cd r pos D) (conj (string_total cf cd r pos D)
    (conj (char_total cf cd r pos D) (conj (bool_total cf cd r pos D) (conj (nil_total cf cd r pos D)
    (conj (word_total cf cd r pos D) (conj (op_total cf cd r pos D) (conj (rune_total cf cd r pos D)
    (conj (fun re g Hd => lit_total cf cd (LRegexp re g) r pos D Hd) (duration_total cf cd r pos D))))))))))).
Qed.
Print Assumptions C08_every_parser_total.

(* ------------------------------------------------------------------ *)
(* Parser by parser: longest literal and value, with the specification unfolded.
   s = the bytes from the position on; len = readerPos - pos.             *)

(* Integer: the lexeme is the longest  sign? (nonzero digit* | 0 x hex+ | 0 octal* ), it is not
   followed by '.', and the value is ParseInt(lexeme, 0, 64) (parse_int_base0, int64 range checked) *)
Theorem C08_integer_longest_value :
  (forall (r : reader) (pos : N), in_dom r pos -> forall nd e,
  p_integer r pos = Ok (Some nd, e) ->
  let s := suffix (r_data r) (pos - r_offset r) in
  int_lexeme s = Some (ln_rpos nd - pos) /\ starts_with_byte 46 (drop (ln_rpos nd - pos) s) = false) /\
  (forall (r : reader) (pos : N), in_dom r pos -> forall nd e,
  p_integer r pos = Ok (Some nd, e) ->
  exists z, parse_int_base0 (take (ln_rpos nd - pos) (suffix (r_data r) (pos - r_offset r))) = Some z /\ ln_value nd = VInt z).
Proof. exact (conj (integer_longest (fun _ => None) (fun _ => None)) (integer_value (fun _ => None) (fun _ => None))). Qed.
Print Assumptions C08_integer_longest_value.
(* int_lexeme against a declarative grammar: the recogniser returns the LONGEST prefix that is
   sign? ( nonzero-digit digit* | 0 (x|X) hexdigit+ | 0 octaldigit* ), or None when no prefix is one *)
Theorem C08_integer_lexeme_is_longest : forall s,
  match int_lexeme s with
  | Some n => n <= len_N s /\ is_int_lit (take n s) /\ forall m, m <= len_N s -> is_int_lit (take m s) -> m <= n
  | None => forall m, m <= len_N s -> ~ is_int_lit (take m s)
  end.
Proof. exact int_lexeme_longest. Qed.
Print Assumptions C08_integer_lexeme_is_longest.
(* every error of Integer (no literal, prefix of a float, outside int64) is at the position itself *)
Theorem C08_integer_error_at_pos : forall (r : reader) (pos : N), in_dom r pos -> forall e0 n,
  p_integer r pos = Ok (n, Some e0) -> le_pos e0 = pos.
Proof. exact (integer_error (fun _ => None) (fun _ => None)). Qed.
Print Assumptions C08_integer_error_at_pos.

(* Float: longest  sign? digit* . digit+ (e sign? digit+)? ; value = cf lexeme (ParseFloat) *)
Theorem C08_float_longest_value :
  (forall cf (r : reader) (pos : N), in_dom r pos -> forall nd e,
  p_float cf r pos = Ok (Some nd, e) -> float_lexeme (suffix (r_data r) (pos - r_offset r)) = Some (ln_rpos nd - pos)) /\
  (forall cf (r : reader) (pos : N), in_dom r pos -> forall nd e,
  p_float cf r pos = Ok (Some nd, e) ->
  exists b, cf (take (ln_rpos nd - pos) (suffix (r_data r) (pos - r_offset r))) = Some b /\ ln_value nd = VFloat b).
Proof. exact (conj (fun cf => float_longest cf (fun _ => None)) (fun cf => float_value cf (fun _ => None))). Qed.
Print Assumptions C08_float_longest_value.

(* TimeDuration: longest  sign? (digit+ (. digit+)? unit)+ ; value = cd lexeme (ParseDuration) *)
Theorem C08_duration_longest_value :
  (forall cd (r : reader) (pos : N), in_dom r pos -> forall nd e,
  p_duration cd r pos = Ok (Some nd, e) -> dur_lexeme (suffix (r_data r) (pos - r_offset r)) = Some (ln_rpos nd - pos)) /\
  (forall cd (r : reader) (pos : N), in_dom r pos -> forall nd e,
  p_duration cd r pos = Ok (Some nd, e) ->
  exists d, cd (take (ln_rpos nd - pos) (suffix (r_data r) (pos - r_offset r))) = Some d /\ ln_value nd = VDur d).
Proof. exact (conj (duration_longest (fun _ => None)) (duration_value (fun _ => None))). Qed.
Print Assumptions C08_duration_longest_value.

(* Char: quote, one escape (\a \b \f \n \r \t \v \' \xHH \uHHHH \UHHHHHHHH) or one character, quote;
   the value is UnquoteChar(body, quote) and that call consumes the whole body *)
Theorem C08_char_longest_value :
  (forall (r : reader) (pos : N), in_dom r pos -> forall nd e,
  p_char r pos = Ok (Some nd, e) ->
  exists t m, suffix (r_data r) (pos - r_offset r) = 39 :: t /\ char_body_len t = Some m /\
              starts_with_byte 39 (drop m t) = true /\ ln_rpos nd - pos = m + 2) /\
  (forall (r : reader) (pos : N), in_dom r pos -> forall nd e,
  p_char r pos = Ok (Some nd, e) ->
  exists t m v, suffix (r_data r) (pos - r_offset r) = 39 :: t /\ char_body_len t = Some m /\
                unquote_char (take m t) 39 = Some (v, m) /\ ln_value nd = VChar v).
Proof. exact (conj (char_longest (fun _ => None) (fun _ => None)) (char_value (fun _ => None) (fun _ => None))). Qed.
Print Assumptions C08_char_longest_value.

(* String: quote q (double, or back quote when allowed), body, the same quote.  Double-quoted body:
   str_body = the longest sequence of items of Go's escape syntax (UnquoteChar with the double quote)
   free of raw CR/LF, value = each item's code point in UTF-8 (an ill-formed byte kept).
   Back-quoted body: bq_body = everything before the next back quote, value = those bytes. *)
Theorem C08_string_longest_value :
  (forall (r : reader) (pos : N), in_dom r pos -> forall bq nd e,
  p_string bq r pos = Ok (Some nd, e) ->
  exists q t, suffix (r_data r) (pos - r_offset r) = q :: t /\ (q = 34 \/ (bq = true /\ q = 96)) /\
    if starts_with_byte q t then ln_rpos nd - pos = 2
    else starts_with_byte q (drop (snd (string_body q t)) t) = true /\ ln_rpos nd - pos = snd (string_body q t) + 2) /\
  (forall (r : reader) (pos : N), in_dom r pos -> forall bq nd e,
  p_string bq r pos = Ok (Some nd, e) ->
  exists q t, suffix (r_data r) (pos - r_offset r) = q :: t /\
    ln_value nd = VStr (if starts_with_byte q t then [] else fst (string_body q t))).
Proof. exact (conj (string_longest (fun _ => None) (fun _ => None)) (string_value (fun _ => None) (fun _ => None))). Qed.
Print Assumptions C08_string_longest_value.

(* Bool / Nil / Word: the word, not followed by a word character *)
Theorem C08_bool_longest_value : forall (r : reader) (pos : N), in_dom r pos -> forall t f nd e,
  ascii_nonempty t = true -> ascii_nonempty f = true -> p_bool t f r pos = Ok (Some nd, e) ->
  let s := suffix (r_data r) (pos - r_offset r) in
  (word_at t s = true /\ ln_rpos nd - pos = len_N t /\ ln_value nd = VBool true) \/
  (word_at t s = false /\ word_at f s = true /\ ln_rpos nd - pos = len_N f /\ ln_value nd = VBool false).
Proof. exact (bool_longest_value (fun _ => None) (fun _ => None)). Qed.
Print Assumptions C08_bool_longest_value.
Theorem C08_nil_longest_value : forall (r : reader) (pos : N), in_dom r pos -> forall w nd e,
  ascii_nonempty w = true -> p_nil w r pos = Ok (Some nd, e) ->
  word_at w (suffix (r_data r) (pos - r_offset r)) = true /\ ln_rpos nd - pos = len_N w /\ ln_value nd = VNil.
Proof. exact (nil_longest_value (fun _ => None) (fun _ => None)). Qed.
Print Assumptions C08_nil_longest_value.
Theorem C08_word_longest_value : forall (r : reader) (pos : N), in_dom r pos -> forall w nd e,
  ascii_nonempty w = true -> p_word w r pos = Ok (Some nd, e) ->
  word_at w (suffix (r_data r) (pos - r_offset r)) = true /\ ln_rpos nd - pos = len_N w /\ ln_value nd = VStr w.
Proof. exact (word_longest_value (fun _ => None) (fun _ => None)). Qed.
Print Assumptions C08_word_longest_value.
(* Op: the operator's bytes *)
Theorem C08_op_longest_value : forall (r : reader) (pos : N), in_dom r pos -> forall o nd e,
  o <> [] -> bytes_ok o -> p_op o r pos = Ok (Some nd, e) ->
  has_prefix (suffix (r_data r) (pos - r_offset r)) o = true /\ ln_rpos nd - pos = len_N o /\ ln_value nd = VStr o.
Proof. exact (op_longest_value (fun _ => None) (fun _ => None)). Qed.
Print Assumptions C08_op_longest_value.
(* Rune: the UTF-8 encoding of the rune (for U+FFFD see spec_rune: also any ill-formed byte) *)
Theorem C08_rune_longest_value : forall (r : reader) (pos : N), in_dom r pos -> forall ch nd e,
  valid_rune ch = true -> ch <> rune_error -> p_rune ch r pos = Ok (Some nd, e) ->
  has_prefix (suffix (r_data r) (pos - r_offset r)) (encode_rune ch) = true /\
  ln_rpos nd - pos = len_N (encode_rune ch) /\ ln_value nd = VChar ch.
Proof. exact (rune_longest_value (fun _ => None) (fun _ => None)). Qed.
Print Assumptions C08_rune_longest_value.
(* Regexp with group index 0: the leftmost-first match of the expression, the value its bytes *)
Theorem C08_regexp_longest_value : forall (r : reader) (pos : N), in_dom r pos -> forall re nd e,
  nullable re = false -> star_ok re = true -> p_regexp re 0 r pos = Ok (Some nd, e) ->
  let s := suffix (r_data r) (pos - r_offset r) in
  re_find re s = Some (ln_rpos nd - pos) /\ ln_value nd = VStr (take (ln_rpos nd - pos) s).
Proof. exact (regexp_longest_value (fun _ => None) (fun _ => None)). Qed.
Print Assumptions C08_regexp_longest_value.

(* Regexp with a group index g >= 1: the same match (FindSubmatch's whole match is FindIndex's), the
   value is the g-th group's bytes *)
Theorem C08_regexp_group_longest_value : forall (r : reader) (pos : N), in_dom r pos -> forall re g nd e,
  lit_domain (LRegexp re g) = true -> 1 <= g -> p_regexp re g r pos = Ok (Some nd, e) ->
  let s := suffix (r_data r) (pos - r_offset r) in
  exists gs, re_find re s = Some (ln_rpos nd - pos) /\
             re_find_submatch re s = Some (Some (take (ln_rpos nd - pos) s) :: gs) /\
             ln_value nd = VStr (bytes_of_opt (nth (N.to_nat g - 1) gs None)).
Proof. exact (regexp_group_longest_value (fun _ => None) (fun _ => None)). Qed.
Print Assumptions C08_regexp_group_longest_value.
(* the search with capture registers takes the same path as the plain search *)
Theorem C08_submatch_is_match : forall re s,
  match re_find re s with
  | None => re_find_submatch re s = None
  | Some n => exists gs, re_find_submatch re s = Some (Some (take n s) :: gs) /\ len_N gs = count_groups re
  end.
Proof. exact re_find_submatch_spec. Qed.
Print Assumptions C08_submatch_is_match.

(* ------------------------------------------------------------------ *)
(* The regex matcher equals the hand-written recognisers on the five fixed expressions, so the
   theorems above do not depend on regex semantics beyond these equalities.  *)
Theorem C08_regex_integer_float :
  (forall s, re_find re_integer s = int_lexeme s) /\
  (forall s, re_find re_float s = float_lexeme s).
Proof. exact (conj re_integer_spec re_float_spec). Qed.
Print Assumptions C08_regex_integer_float.
Theorem C08_regex_char_duration :
  (forall s, re_find re_char s = char_body_len s) /\
  (forall s, re_find re_duration s = dur_lexeme s).
Proof. exact (conj re_char_spec re_duration_spec). Qed.
Print Assumptions C08_regex_char_duration.
Theorem C08_regex_backquote : forall s, re_find re_backquote s =
  (let m := span (fun b => negb (b =? 96)) s in if m =? 0 then None else Some m).
Proof. exact re_backquote_spec. Qed.
Print Assumptions C08_regex_backquote.
(* any expression that is not nullable satisfies ReadRegexp's contract: no match of the empty
   input (getPattern's panic), match length within the input (the slice bound) *)
Theorem C08_regex_contract : forall re, nullable re = false -> matcher_ok (re_find re).
Proof. exact re_find_matcher_ok. Qed.
Print Assumptions C08_regex_contract.

(* ------------------------------------------------------------------ *)
(* unquoteString (string.go), on the inputs String hands to it (not empty, not starting with the
   quote): it obeys Readf's contract — nextPos = 0 -> value = nil, len(value) <= nextPos <= len(input),
   the two conditions whose violation made the pinned tree panic (D5) — and it is the item loop. *)
Theorem C08_unquote_string_contract : forall b, b <> [] ->
  match b with c :: _ => (c =? 34) = false | [] => True end ->
  (snd (unquote_string b) = 0 -> fst (unquote_string b) = None) /\
  len_opt (fst (unquote_string b)) <= snd (unquote_string b) /\ snd (unquote_string b) <= len_N b.
Proof. exact unquote_string_contract. Qed.
Print Assumptions C08_unquote_string_contract.
Theorem C08_unquote_string_items : forall b, b <> [] ->
  match b with c :: _ => (c =? 34) = false | [] => True end ->
  unquote_string b = (if snd (str_body b) =? 0 then (None, 0) else (Some (fst (str_body b)), snd (str_body b))).
Proof. exact unquote_string_eq. Qed.
Print Assumptions C08_unquote_string_items.
(* UnquoteChar consumes between 1 and len(s) bytes, and the UTF-8 form of its rune is not longer than
   what it consumed unless it is a raw ill-formed byte *)
Theorem C08_unquote_char_bounds : forall s q ch n, unquote_char s q = Some (ch, n) ->
  1 <= n <= len_N s /\ ((ch = rune_error /\ n = 1) \/ len_N (encode_rune ch) <= n).
Proof. exact unquote_char_bounds. Qed.
Print Assumptions C08_unquote_char_bounds.
