(* C05 — Left-recursive expression grammars evaluate like a reference evaluator.
   Only statements here; each is closed by [exact] of a theorem of ArithSpecProofs.v.

   PART 1: theorems about the REFERENCE — that it is the standard semantics of the left-recursive
   token grammar.  PART 2 (at the end): the tie to the ENGINE MODEL (Grammar.v/Engine.v/Top.v) on the
   workload grammar Arith.arith_rules: derivation trees evaluate to the reference's value
   (C05_arith_tree_value), the lexer reads the tokens a tree spells (C05_arith_tree_lex), the model of
   parsley.Evaluate returns the reference's answer (C05_eval_sound), ill-formed inputs are rejected
   (C05_rejects).  The implementation is tied to the model and to the reference by ./check C05.

   Vocabulary (ArithSpec.v): [toks] = list of (token, position); [arith_ref_toks ts] = the iterative
   reference evaluator (expr = term {(+|-) term}, term = factor {( * | / ) factor}), [None] = rejected;
   [binop c p a b] = the interpreter of a binary node (left, right, then the int64 operation; division
   by zero = [ADiv0 p], p the operator's position).  (ArithSpecProofs.v): [eexp]/[texp]/[fexp] = the
   trees of E -> E (+|-) T | T, T -> T ( * | / ) F | F, F -> INT | ( E ); [etoks e] = the tokens a tree
   spells; [eval e] = its structural value (what the interpreters compute on the tree). *)
From Coq Require Import List NArith ZArith.
From Parsley Require Import Base Utf8 ArithSpec ArithSpecProofs.
From Parsley Require Import Grammar Engine EngineFacts Spec Sound Top Termination Arith ArithProofs.
(* note: ArithSpec.chain / Spec.chain, ArithSpec.factor: use qualified names where both are in scope *)
Import ListNotations.
Open Scope N_scope.

(* Every tree of the left-recursive token grammar is accepted by the iterative reference, with the
   value the interpreters compute on that left-nested tree (the fuel chosen by the reference always
   suffices). *)
Theorem C05_ref_complete : forall e, arith_ref_toks (etoks e) = Some (eval e).
Proof. exact ref_complete. Qed.
Print Assumptions C05_ref_complete.

(* Whatever the reference accepts is spelled by a tree of the grammar and has that tree's value. *)
Theorem C05_ref_sound : forall ts v, arith_ref_toks ts = Some v -> exists e, etoks e = ts /\ eval e = v.
Proof. exact ref_sound. Qed.
Print Assumptions C05_ref_sound.

(* Ill-formed = no tree of the grammar spells the tokens = rejected by the reference. *)
Theorem C05_ref_rejects_iff : forall ts, arith_ref_toks ts = None <-> ~ exists e, etoks e = ts.
Proof. exact ref_rejects_iff. Qed.
Print Assumptions C05_ref_rejects_iff.

(* The token grammar is unambiguous as far as values go: two trees spelling the same tokens have the
   same value (so "the value of a well-formed expression" is well defined). *)
Theorem C05_tokens_determine_value : forall e1 e2, etoks e1 = etoks e2 -> eval e1 = eval e2.
Proof. exact tokens_determine_value. Qed.
Print Assumptions C05_tokens_determine_value.

(* Left associativity: a o1 b o2 c = (a o1 b) o2 c for additive operators ... *)
Theorem C05_add_left_assoc : forall o1 o2 a b c pa pb pc p1 p2,
  arith_ref_toks [(TInt a, pa); (TOp (add_code o1), p1); (TInt b, pb); (TOp (add_code o2), p2); (TInt c, pc)] =
  Some (binop (add_code o2) p2 (binop (add_code o1) p1 (AV a) (AV b)) (AV c)).
Proof. exact ref_add_left_assoc. Qed.
Print Assumptions C05_add_left_assoc.

(* ... and for multiplicative operators. *)
Theorem C05_mul_left_assoc : forall o1 o2 a b c pa pb pc p1 p2,
  arith_ref_toks [(TInt a, pa); (TOp (mul_code o1), p1); (TInt b, pb); (TOp (mul_code o2), p2); (TInt c, pc)] =
  Some (binop (mul_code o2) p2 (binop (mul_code o1) p1 (AV a) (AV b)) (AV c)).
Proof. exact ref_mul_left_assoc. Qed.
Print Assumptions C05_mul_left_assoc.

(* Precedence: a + b * c = a + (b * c) ... *)
Theorem C05_mul_binds_tighter_right : forall o1 o2 a b c pa pb pc p1 p2,
  arith_ref_toks [(TInt a, pa); (TOp (add_code o1), p1); (TInt b, pb); (TOp (mul_code o2), p2); (TInt c, pc)] =
  Some (binop (add_code o1) p1 (AV a) (binop (mul_code o2) p2 (AV b) (AV c))).
Proof. exact ref_mul_binds_tighter_right. Qed.
Print Assumptions C05_mul_binds_tighter_right.

(* ... and a * b + c = (a * b) + c. *)
Theorem C05_mul_binds_tighter_left : forall o1 o2 a b c pa pb pc p1 p2,
  arith_ref_toks [(TInt a, pa); (TOp (mul_code o1), p1); (TInt b, pb); (TOp (add_code o2), p2); (TInt c, pc)] =
  Some (binop (add_code o2) p2 (binop (mul_code o1) p1 (AV a) (AV b)) (AV c)).
Proof. exact ref_mul_binds_tighter_left. Qed.
Print Assumptions C05_mul_binds_tighter_left.

(* Parentheses override precedence: a * ( b + c ). *)
Theorem C05_parentheses : forall o1 o2 a b c pa pb pc p1 p2 pl pr,
  arith_ref_toks [(TInt a, pa); (TOp (mul_code o1), p1); (TLP, pl); (TInt b, pb); (TOp (add_code o2), p2);
                  (TInt c, pc); (TRP, pr)] =
  Some (binop (mul_code o1) p1 (AV a) (binop (add_code o2) p2 (AV b) (AV c))).
Proof. exact ref_parentheses. Qed.
Print Assumptions C05_parentheses.

(* Round trip: an ordinary binary AST printed with every binary node in parentheses is evaluated by
   the reference to the AST's structural value. *)
Theorem C05_ref_roundtrip : forall t, arith_ref_toks (print t) = Some (eval_ast t).
Proof. exact ref_roundtrip. Qed.
Print Assumptions C05_ref_roundtrip.

(* Values stay in int64 (wrap-around), and wrapping is the identity on int64. *)
Theorem C05_wrap64_range : forall z, in_int64 (wrap64 z).
Proof. exact wrap64_range. Qed.
Print Assumptions C05_wrap64_range.
Theorem C05_wrap64_id : forall z, in_int64 z -> wrap64 z = z.
Proof. exact wrap64_id. Qed.
Print Assumptions C05_wrap64_id.

(* White space (space, tab, LF, FF) before a token is transparent for the lexer. *)
Theorem C05_lex_ws : forall w s pos ao,
  forallb Reader.is_ws w = true ->
  lex_at (w ++ s) pos 0 ao = lex_at s (pos + N.of_nat (length w)) 0 ao.
Proof. exact lex_ws. Qed.
Print Assumptions C05_lex_ws.

(* ====================================================================================== *)
(* PART 2 — the engine model on the workload grammar.
   Vocabulary: [arith_rules] = [expr_rule; term_rule], the grammar as a pexpr value (Arith.v);
   [xvalid inp rules e pos d] = d is a derivation tree of e from position pos (Sound.v, all
   combinators incl. LeftTrim/RightTrim); [xyield inp d] = the node the engine builds for d;
   [node_toks n] = the tokens the leaves of n spell (INTEGER leaves, operator and parenthesis
   runes, with their positions); [arith_eval n] = parsley.EvaluateNode with the binop interpreter
   (IUser 1); [res_of v] = a reference value as EvaluateNode returns it (a value, or the error
   "division by zero" at the operator's position); [arith_evaluate inp fuel] = the model of
   parsley.Evaluate(ctx, Sentence(RightTrim(&expr))); [lexfrom inp p ao] = the reference lexer run on
   the bytes from position p ([ao]: the previous token was an operand). *)

(* arith_tree_value: every derivation tree of expr — at any position of any input, whatever its
   depth, operators and white space — spells a token list the reference accepts, and evaluates
   under the interpreters to the reference's value of that token list: the left-recursive grammar
   with its left-nested trees and the iterative reference evaluator agree. *)
Theorem C05_arith_tree_value : forall inp pos d,
  bytes_ok (i_data inp) -> in_file inp pos -> xvalid inp arith_rules (PRef 0) pos d ->
  exists v, arith_ref_toks (node_toks (xyield inp d)) = Some v /\ arith_eval (xyield inp d) = res_of v.
Proof. exact arith_tree_value. Qed.
Print Assumptions C05_arith_tree_value.

(* ... and the reference's lexer, started where the tree starts (operand expected), reads exactly
   the tree's tokens and continues behind the tree (operand seen): sign handling, white space,
   literal syntax of lexer and grammar coincide on everything the grammar derives. *)
Theorem C05_arith_tree_lex : forall inp pos d,
  bytes_ok (i_data inp) -> in_file inp pos -> xvalid inp arith_rules (PRef 0) pos d ->
  lexfrom inp pos false = tapp (node_toks (xyield inp d)) (lexfrom inp (xdend inp d) true).
Proof. exact arith_tree_lex. Qed.
Print Assumptions C05_arith_tree_lex.

(* C05_eval_sound: whatever the model of parsley.Evaluate returns is the reference's answer: a
   value is the reference's value of the input; an interpreter error is division by zero at the
   position of the operator the reference reports; in both cases the input is well-formed. *)
Theorem C05_eval_sound : forall inp fuel ev,
  bytes_ok (i_data inp) ->
  arith_evaluate inp fuel = Ok ev ->
  match ev with
  | EvValue v => exists z, v = ValLit (VInt z) /\ arith_ref (i_data inp) (i_offset inp) = Some (AV z)
  | EvEvalErr e => exists p, e = div0_err p /\ arith_ref (i_data inp) (i_offset inp) = Some (ADiv0 p)
  | EvParseErr _ => True
  end.
Proof. exact ArithProofs.C05_eval_sound. Qed.
Print Assumptions C05_eval_sound.

(* C05_rejects: an ill-formed input (one the reference rejects) is never evaluated: if the model
   of Evaluate returns at all, it returns a parse error. *)
Theorem C05_rejects : forall inp fuel ev,
  bytes_ok (i_data inp) ->
  arith_ref (i_data inp) (i_offset inp) = None ->
  arith_evaluate inp fuel = Ok ev -> exists e, ev = EvParseErr e.
Proof. exact ArithProofs.C05_rejects. Qed.
Print Assumptions C05_rejects.

(* The engine model never panics on a grammar whose rule references are in range — for every
   grammar, input, fuel and root (the only Panic of the engine is a reference to a missing rule). *)
Theorem C05_engine_no_panic : forall inp rules,
  (forall k body, nth_N rules k = Some body -> closed (len_N rules) body = true) ->
  forall fuel root, closed (len_N rules) root = true -> parse_top inp rules fuel root <> Panic.
Proof. exact parse_top_no_panic. Qed.
Print Assumptions C05_engine_no_panic.

(* C05_total: with the explicit fuel of C02, (len+1) * ((2*(len+2)+1) * 54), the model of
   parsley.Evaluate on the arithmetic grammar neither runs out of fuel nor panics — parsing or
   evaluating — for ANY input, and its answer is the reference's: the value, division by zero at
   the reference's position, or a parse error. *)
Theorem C05_total : forall inp fuel,
  bytes_ok (i_data inp) -> (fuel_bound inp arith_K arith_Sz <= fuel)%nat ->
  exists ev, arith_evaluate inp fuel = Ok ev /\
    match ev with
    | EvValue v => exists z, v = ValLit (VInt z) /\ arith_ref (i_data inp) (i_offset inp) = Some (AV z)
    | EvEvalErr e => exists p, e = div0_err p /\ arith_ref (i_data inp) (i_offset inp) = Some (ADiv0 p)
    | EvParseErr _ => True
    end.
Proof. exact ArithProofs.C05_total. Qed.
Print Assumptions C05_total.

(* The fuel the check gives the model suffices for every input the model is run on. *)
Theorem C05_fuel_enough : forall inp, i_len inp <= MODEL_CAP -> (fuel_bound inp arith_K arith_Sz <= ARITH_FUEL)%nat.
Proof. exact arith_fuel_enough. Qed.
Print Assumptions C05_fuel_enough.

(* C05_accepts, bounded form: for EVERY byte string of length <= 4 over {1 0 - + * / ( ) space} and
   of length <= 5 over {1 0 - / ( ) space} (white space included) the model of Evaluate on the real,
   trimming grammar agrees completely with the reference ([agree_b]: same value; division by zero
   at the same position with that message; parse error exactly when the reference rejects) —
   computed by the kernel's VM.  In particular every well-formed one is ACCEPTED.  (The unbounded
   statement is proved below for the white-space-free sub-language.) *)
Theorem C05_agree_bounded4 : forall s,
  Forall (fun b => In b alpha9) s -> (length s <= 4)%nat -> agree_b FUEL5 s = true.
Proof. exact ArithProofs.C05_agree_bounded4. Qed.
Print Assumptions C05_agree_bounded4.
Theorem C05_agree_bounded5 : forall s,
  Forall (fun b => In b alpha7) s -> (length s <= 5)%nat -> agree_b FUEL5 s = true.
Proof. exact ArithProofs.C05_agree_bounded5. Qed.
Print Assumptions C05_agree_bounded5.
Theorem C05_accepts_bounded_partial : forall s v,
  (Forall (fun b => In b alpha9) s /\ (length s <= 4)%nat) \/
  (Forall (fun b => In b alpha7) s /\ (length s <= 5)%nat) ->
  arith_ref s 1 = Some v ->
  exists ev, arith_evaluate (mk_input s 1) FUEL5 = Ok ev /\ forall e, ev <> EvParseErr e.
Proof. exact C05_accepts_bounded. Qed.
Print Assumptions C05_accepts_bounded_partial.

(* On an input without any white-space byte the trimming wrappers LeftTrim/RightTrim(WsSpacesNl) are
   the identity — for EVERY grammar, expression, context and fuel: the run on the grammar equals the
   run on the grammar with those wrappers removed ([strip]): same nodes, same error, same context. *)
Theorem C05_strip_sim : forall inp rules, nows inp -> forall f,
  pstrip (parse inp rules f) (parse inp (map strip rules) f) /\
  sstrip (seqp inp rules f) (seqp inp (map strip rules) f).
Proof. exact strip_sim. Qed.
Print Assumptions C05_strip_sim.

(* [sp_e inp e p q]: the bytes from p to q spell the tree e of the left-recursive grammar with no
   white space (integer literals by their lexeme, operators and parentheses by their byte) — the
   character-level grammar, declaratively.  What is spelled is accepted by the reference, with the
   tree's value. *)
Theorem C05_spells_ref : forall inp e,
  sp_e inp e (i_offset inp) (i_offset inp + i_len inp) ->
  arith_ref (i_data inp) (i_offset inp) = Some (eval e).
Proof. exact spells_ref. Qed.
Print Assumptions C05_spells_ref.

(* C05_accepts, PARTIAL: every well-formed expression WITHOUT WHITE SPACE is accepted — by the model
   of parsley.Evaluate on THE grammar (with its trimming wrappers), with the fuel of C02, for inputs
   of any length and depth — and evaluates to the value of the tree it spells (or its division by
   zero), which is the reference's answer.  Proof: C01/C04 completeness (Pump.C04_sentence_complete)
   on the trim-free grammar + C05_strip_sim + C05_total.
   FULL STATEMENT, NOT PROVED: the same for inputs WITH white space between tokens, i.e.
     forall inp fuel v, bytes_ok (i_data inp) -> fuel_bound inp arith_K arith_Sz <= fuel ->
       arith_ref (i_data inp) (i_offset inp) = Some v ->
       exists ev, arith_evaluate inp fuel = Ok ev /\ forall e, ev <> EvParseErr e.
   Missing: a completeness theorem of the engine for grammars with LeftTrim/RightTrim (C01's covers
   Any, SeqOf, Optional, Empty, terminals, Memoize only).  With white space the statement is covered by
   the bounded theorems above and by the differential run of ./check C05. *)
Theorem C05_accepts_nows_partial : forall inp fuel e,
  bytes_ok (i_data inp) -> nows inp -> (fuel_bound inp arith_K arith_Sz <= fuel)%nat ->
  sp_e inp e (i_offset inp) (i_offset inp + i_len inp) ->
  arith_ref (i_data inp) (i_offset inp) = Some (eval e) /\
  arith_evaluate inp fuel =
    Ok (match eval e with AV z => EvValue (ValLit (VInt z)) | ADiv0 p => EvEvalErr (div0_err p) end).
Proof. exact C05_accepts_nows. Qed.
Print Assumptions C05_accepts_nows_partial.

(* ---- added after CompleteTrim.v / ArithAccept.v: the partial acceptance theorems above are superseded ---- *)
From Parsley Require Import CompleteTrim ArithAccept.
Open Scope N_scope.
(* FULL ACCEPTANCE (added after completeness was extended to trimming combinators, CompleteTrim.v): every well-formed expression — any white
   space the grammar's modes allow, any length — is accepted: if the reference returns a value (or a division by zero) the engine
   model's Evaluate returns the same, with C02's explicit fuel. *)
Theorem C05_accepts :
  forall (inp : input) (fuel : nat) (v : aval),
  bytes_ok (i_data inp) ->
  (fuel_bound inp arith_K arith_Sz <= fuel)%nat ->
  arith_ref (i_data inp) (i_offset inp) = Some v ->
  arith_evaluate inp fuel =
  Ok match v with
     | AV z => EvValue (ValLit (VInt z))
     | ADiv0 p => EvEvalErr (div0_err p)
     end.
Proof. exact @ArithAccept.C05_accepts. Qed.
Print Assumptions C05_accepts.

(* The statement the earlier comment listed as missing: a well-formed expression never yields a parse error. *)
Theorem C05_accepts_no_parse_error :
  forall (inp : input) (fuel : nat) (v : aval),
  bytes_ok (i_data inp) ->
  (fuel_bound inp arith_K arith_Sz <= fuel)%nat ->
  arith_ref (i_data inp) (i_offset inp) = Some v ->
  exists ev : evaluated,
    arith_evaluate inp fuel = Ok ev /\ (forall e : perr, ev <> EvParseErr e).
Proof. exact @ArithAccept.C05_accepts_no_parse_error. Qed.
Print Assumptions C05_accepts_no_parse_error.

(* Model and reference agree on every input (bytes < 256): value, division by zero at the operator's position, or rejection. *)
Theorem C05_agrees :
  forall (inp : input) (fuel : nat),
  bytes_ok (i_data inp) ->
  (fuel_bound inp arith_K arith_Sz <= fuel)%nat ->
  match arith_ref (i_data inp) (i_offset inp) with
  | Some (AV z) => arith_evaluate inp fuel = Ok (EvValue (ValLit (VInt z)))
  | Some (ADiv0 p) => arith_evaluate inp fuel = Ok (EvEvalErr (div0_err p))
  | None => exists e : perr, arith_evaluate inp fuel = Ok (EvParseErr e)
  end.
Proof. exact @ArithAccept.C05_agrees. Qed.
Print Assumptions C05_agrees.

(* Engine completeness for the monotone fragment extended by LeftTrim/RightTrim in mode WsSpacesNl, Name and SuppressError over
   clean operands, named SeqOf: every derivation compatible with the empty left-recursion context is returned. *)
Theorem C05_complete_top_trim :
  forall (inp : input) (rules : list pexpr) (site : N -> option pexpr) (cr : N -> bool),
  wf_rules rules site ->
  (forall (k : N) (body : pexpr), nth_N rules k = Some body -> monot cr body = true) ->
  (forall (k : N) (body : pexpr), nth_N rules k = Some body -> Complete.endfree body = true) ->
  (forall (k : N) (body : pexpr),
   cr k = true -> nth_N rules k = Some body -> clean cr body = true) ->
  forall (fuel : nat) (root : pexpr) (ns : list node) (cp : intset) 
    (err : option perr) (c' : ctx),
  wf rules site root ->
  monot cr root = true ->
  Complete.endfree root = true ->
  run inp rules fuel root = Ok (ns, cp, err, c') ->
  forall d : xtree,
  xvalid inp rules root (i_offset inp) d ->
  xcompat inp [] (i_offset inp) d -> In (xyield inp d) ns.
Proof. exact @CompleteTrim.complete_top_trim. Qed.
Print Assumptions C05_complete_top_trim.

(* Sentence over such a grammar succeeds whenever some derivation consumes the whole input. *)
Theorem C05_sentence_complete_trim :
  forall (inp : input) (rules : list pexpr) (site : N -> option pexpr) (cr : N -> bool),
  wf_rules rules site ->
  (forall (k : N) (body : pexpr), nth_N rules k = Some body -> monot cr body = true) ->
  (forall (k : N) (body : pexpr), nth_N rules k = Some body -> Complete.endfree body = true) ->
  (forall (k : N) (body : pexpr),
   cr k = true -> nth_N rules k = Some body -> clean cr body = true) ->
  forall root : pexpr,
  wf rules site root ->
  monot cr root = true ->
  Complete.endfree root = true ->
  forall (fuel : nat) (t : Engine.top) (d : xtree),
  parse_top inp rules fuel (sentence root) = Ok t ->
  xvalid inp rules root (i_offset inp) d ->
  nokeep d ->
  xdend inp d = i_offset inp + i_len inp ->
  exists (n0 : node) (c : ctx),
    is_eof inp (node_rpos n0) = true /\
    t = TopNode [handle_result (Complete.sq root) (i_offset inp) [n0; NEnd (node_rpos n0)]] c.
Proof. exact @CompleteTrim.C04_sentence_complete_trim. Qed.
Print Assumptions C05_sentence_complete_trim.

