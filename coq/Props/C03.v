(* C03 — Memoize is transparent, deterministic and evaluates at most once per position.
   Only statements: each theorem repeats the full statement of a lemma proved elsewhere and is closed by [exact]. *)
From Coq Require Import String List NArith ZArith Bool.
From Parsley Require Import Obs Base Grammar Engine EngineHarness MemoTransparent.
Import ListNotations.
Open Scope N_scope.

(* For every left-recursion-free grammar (static hypothesis lr_free: one site per Memoize index and a ranking of indexes and
   rules that strictly increases along every chain entered before input is certainly consumed — a rune or literal terminal
   certainly consumes when term_strict holds, i.e. always except for a user regular expression that can match the empty string),
   every input and any fuels
   for which both runs finish: the memoised run and the run with every Memoize removed return the same ORDERED result list,
   the same error, and contexts whose furthest recorded error is at the same position. *)
Theorem C03_transparent :
  forall (inp : input) (rules : list pexpr) (root : pexpr) (f f' : nat)
    (ns : list node) (cp : intset) (err : option perr) (c : ctx) (ns' : list node)
    (cp' : intset) (err' : option perr) (c' : ctx),
  lr_free rules root ->
  run inp rules f root = Ok (ns, cp, err, c) ->
  run inp (map strip_memo rules) f' (strip_memo root) = Ok (ns', cp', err', c') ->
  ns = ns' /\ err = err' /\ option_map epos (cerr c) = option_map epos (cerr c').
Proof. exact @MemoTransparent.C03_transparent. Qed.
Print Assumptions C03_transparent.

(* Any two memoisations (any subsets of sub-parsers wrapped) of the same grammar agree in the same way. *)
Theorem C03_transparent_subset :
  forall (inp : input) (rules1 : list pexpr) (root1 : pexpr) (rules2 : list pexpr)
    (root2 : pexpr) (f1 f2 f0 : nat) (ns1 : list node) (cp1 : intset) 
    (err1 : option perr) (c1 : ctx) (ns2 : list node) (cp2 : intset) 
    (err2 : option perr) (c2 : ctx) (r0 : pres),
  lr_free rules1 root1 ->
  lr_free rules2 root2 ->
  map strip_memo rules1 = map strip_memo rules2 ->
  strip_memo root1 = strip_memo root2 ->
  run inp rules1 f1 root1 = Ok (ns1, cp1, err1, c1) ->
  run inp rules2 f2 root2 = Ok (ns2, cp2, err2, c2) ->
  run inp (map strip_memo rules1) f0 (strip_memo root1) = Ok r0 ->
  ns1 = ns2 /\ err1 = err2 /\ option_map epos (cerr c1) = option_map epos (cerr c2).
Proof. exact @MemoTransparent.C03_transparent_subset. Qed.
Print Assumptions C03_transparent_subset.

(* Under lr_free: no (parser index, position) pair occurs twice in the log of Memoize body executions, every activation count
   is 1, nothing is curtailed, every cache entry is stored with an empty context. *)
Theorem C03_once :
  forall (inp : input) (rules : list pexpr) (root : pexpr) (f : nat)
    (ns : list node) (cp : intset) (err : option perr) (c : ctx),
  lr_free rules root ->
  run inp rules f root = Ok (ns, cp, err, c) ->
  NoDup (map fst (g_bodies c)) /\
  (forall x : N * N * N, In x (g_bodies c) -> snd x = 1) /\
  cp = [] /\
  (forall (idx pos : N) (r : result),
   cache_find (idx, pos) (cache c) = Some r -> r_lrc r = [] /\ r_cp r = []) /\
  (forall n : node, In n ns -> i_offset inp <= node_rpos n).
Proof. exact @MemoTransparent.C03_once. Qed.
Print Assumptions C03_once.

(* Two runs from fresh contexts (any sufficient fuels) give the same whole outcome; cache reuse does not depend on the order
   of the stored context's keys (Go's map iteration order is irrelevant). *)
Theorem C03_deterministic :
  (forall (inp : input) (rules : list pexpr) (root : pexpr) (f1 f2 : nat) (x y : outcome pres),
   run inp rules f1 root = x ->
   x <> OutOfFuel -> run inp rules f2 root = y -> y <> OutOfFuel -> x = y) /\
  (forall (stored stored' : list (N * N)) (cur cur' : intmap),
   Permutation.Permutation stored stored' ->
   (forall k : N, map_get k cur = map_get k cur') ->
   reusable stored cur = reusable stored' cur').
Proof. exact @MemoTransparent.C03_deterministic. Qed.
Print Assumptions C03_deterministic.

(* In particular results, errors, furthest error, call count and body log are reproduced. *)
Theorem C03_deterministic_calls :
  forall (inp : input) (rules : list pexpr) (root : pexpr) (f1 f2 : nat)
    (ns1 : list node) (cp1 : intset) (err1 : option perr) (c1 : ctx) 
    (ns2 : list node) (cp2 : intset) (err2 : option perr) (c2 : ctx),
  run inp rules f1 root = Ok (ns1, cp1, err1, c1) ->
  run inp rules f2 root = Ok (ns2, cp2, err2, c2) ->
  ns1 = ns2 /\
  err1 = err2 /\ cerr c1 = cerr c2 /\ calls c1 = calls c2 /\ g_bodies c1 = g_bodies c2.
Proof. exact @MemoTransparent.C03_deterministic_calls. Qed.
Print Assumptions C03_deterministic_calls.

(* The witness-free boolean checker of left-recursion freedom is sound. *)
Theorem C03_lr_free_auto_sound :
  forall (rules : list pexpr) (root : pexpr),
  lr_free_auto rules root = true -> lr_free rules root.
Proof. exact @MemoTransparent.lr_free_auto_sound. Qed.
Print Assumptions C03_lr_free_auto_sound.

