(* C09 — Text reader primitives match a byte-level specification and stay in bounds.
   Only statements here; each is closed by [exact] of a lemma of ReaderProofs.v.

   Reading guide.  [reader] = (CRLF-normalised bytes, base offset).  [in_file r pos] is the
   property's domain: r_offset r <= pos <= r_offset r + r_len r.  The model functions return
   [Ok _], or [Panic] when the Go code would evaluate an out-of-range index or slice or hit
   one of its explicit panics; "= Ok (spec ...)" therefore says BOTH "no byte outside the
   file is read" and "the result is the specification's".  [suffix data c] = the bytes from
   the cursor on; [has_prefix]/[starts_with] = prefix test; [encode_rune]/[decode_rune] = Go's
   utf8.EncodeRune/DecodeRune (Utf8.v). *)
From Coq Require Import List NArith ZArith Bool.
From Parsley Require Import Base FileSet Utf8 Reader ReaderProofs.
Import ListNotations.
Open Scope N_scope.

(* ---------------- UTF-8 ---------------- *)

(* DecodeRune undoes EncodeRune on every valid rune, whatever bytes follow. *)
Theorem C09_decode_encode : forall r rest, valid_rune r = true ->
  decode_rune (encode_rune r ++ rest) = (r, len_N (encode_rune r)).
Proof. exact decode_encode. Qed.
Print Assumptions C09_decode_encode.

(* Conversely: on a non-empty input DecodeRune returns either (U+FFFD, 1) or a valid rune whose
   encoding is a prefix of the input and whose width is that encoding's length — so truncated,
   overlong, surrogate and out-of-range sequences all give (U+FFFD, 1). *)
Theorem C09_decode_sound : forall s r w, s <> [] -> decode_rune s = (r, w) ->
  (r = rune_error /\ w = 1) \/
  (valid_rune r = true /\ w = len_N (encode_rune r) /\ exists rest, s = encode_rune r ++ rest).
Proof. exact decode_sound. Qed.
Print Assumptions C09_decode_sound.

(* For a valid rune other than U+FFFD: "the next DecodeRune equals ch" is "the bytes start with
   ch's encoding". *)
Theorem C09_decode_is_prefix : forall s ch, valid_rune ch = true -> ch <> rune_error ->
  (fst (decode_rune s) = ch <-> has_prefix s (encode_rune ch) = true).
Proof. exact decode_is_prefix. Qed.
Print Assumptions C09_decode_is_prefix.

(* (U+FFFD, 1) is returned exactly when no valid rune's encoding is a prefix of the input. *)
Theorem C09_decode_error_iff : forall s, s <> [] ->
  (decode_rune s = (rune_error, 1) <-> forall r, valid_rune r = true -> ~ starts_with s (encode_rune r)).
Proof. exact decode_error_iff. Qed.
Print Assumptions C09_decode_error_iff.

(* ---------------- ReadRune ---------------- *)

(* ReadRune never panics and matches iff the bytes at the cursor start with the rune's encoding
   (spec_read_rune; for U+FFFD see C09_read_rune_error). *)
Theorem C09_read_rune : forall r pos ch, bytes_ok (r_data r) -> in_file r pos -> valid_rune ch = true ->
  read_rune r pos ch = Ok (spec_read_rune (r_data r) (r_offset r) pos ch).
Proof. exact read_rune_spec. Qed.
Print Assumptions C09_read_rune.

(* mismatch: the original position; match: old position + length of the encoding, inside the file *)
Theorem C09_read_rune_moves : forall r pos ch p' ok,
  bytes_ok (r_data r) -> in_file r pos -> valid_rune ch = true ->
  read_rune r pos ch = Ok (p', ok) ->
  (ok = false -> p' = pos) /\
  (ok = true -> pos < p' /\ p' <= r_offset r + r_len r /\ (ch <> rune_error -> p' = pos + len_N (encode_rune ch))).
Proof. exact read_rune_moves. Qed.
Print Assumptions C09_read_rune_moves.

(* ReadRune(U+FFFD): EOF -> no match; a literal EF BF BD -> 3 bytes; a byte that starts no
   well-formed encoding -> that one byte; any other well-formed rune -> no match. *)
Theorem C09_read_rune_error : forall r pos, bytes_ok (r_data r) -> in_file r pos ->
  let s := suffix (r_data r) (pos - r_offset r) in
  (s = [] -> read_rune r pos rune_error = Ok (pos, false)) /\
  (starts_with s [239; 191; 189] -> read_rune r pos rune_error = Ok (pos + 3, true)) /\
  (s <> [] -> (forall c, valid_rune c = true -> ~ starts_with s (encode_rune c)) ->
   read_rune r pos rune_error = Ok (pos + 1, true)) /\
  (forall c, valid_rune c = true -> c <> rune_error -> starts_with s (encode_rune c) ->
   read_rune r pos rune_error = Ok (pos, false)).
Proof. exact read_rune_error_spec. Qed.
Print Assumptions C09_read_rune_error.

(* ---------------- MatchString, MatchWord ---------------- *)

(* MatchString (non-empty string) never panics and is the prefix test. *)
Theorem C09_match_string : forall r pos str, in_file r pos -> str <> [] ->
  match_string r pos str = Ok (spec_match_string (r_data r) (r_offset r) pos str).
Proof. exact match_string_spec. Qed.
Print Assumptions C09_match_string.

Theorem C09_match_string_moves : forall r pos str p' ok, in_file r pos -> str <> [] ->
  match_string r pos str = Ok (p', ok) ->
  (ok = false -> p' = pos) /\ (ok = true -> p' = pos + len_N str /\ p' <= r_offset r + r_len r).
Proof. exact match_string_moves. Qed.
Print Assumptions C09_match_string_moves.

(* MatchWord (non-empty ASCII word) never panics — in particular for a word ending exactly at
   the end of the file — and is: prefix test, and the next byte (if any) is not [A-Za-z0-9_]. *)
Theorem C09_match_word : forall r pos word, in_file r pos -> ascii_word word ->
  match_word r pos word = Ok (spec_match_word (r_data r) (r_offset r) pos word).
Proof. exact match_word_spec. Qed.
Print Assumptions C09_match_word.

Theorem C09_match_word_moves : forall r pos word p' ok, in_file r pos -> ascii_word word ->
  match_word r pos word = Ok (p', ok) ->
  (ok = false -> p' = pos) /\ (ok = true -> p' = pos + len_N word /\ p' <= r_offset r + r_len r).
Proof. exact match_word_moves. Qed.
Print Assumptions C09_match_word_moves.

(* ---------------- ReadRegexp, ReadRegexpSubmatch, Readf ---------------- *)

(* For every matcher obeying the contract (no match on the empty input; match length at most
   the bytes given): no panic, the result is the matcher's answer on the bytes from the cursor,
   the value is exactly those bytes. *)
Theorem C09_read_regexp : forall matcher r pos, in_file r pos -> matcher_ok matcher ->
  read_regexp matcher r pos = Ok (spec_read_regexp matcher (r_data r) (r_offset r) pos).
Proof. exact read_regexp_spec. Qed.
Print Assumptions C09_read_regexp.

Theorem C09_read_regexp_moves : forall matcher r pos p' v, in_file r pos -> matcher_ok matcher ->
  read_regexp matcher r pos = Ok (p', v) ->
  (v = None -> p' = pos) /\
  (forall m, v = Some m -> p' = pos + len_N m /\ p' <= r_offset r + r_len r /\
                           starts_with (suffix (r_data r) (pos - r_offset r)) m).
Proof. exact read_regexp_moves. Qed.
Print Assumptions C09_read_regexp_moves.

Theorem C09_read_regexp_submatch : forall sm r pos, in_file r pos -> smatcher_ok sm ->
  read_regexp_submatch sm r pos = Ok (spec_read_regexp_submatch sm (r_data r) (r_offset r) pos).
Proof. exact read_regexp_submatch_spec. Qed.
Print Assumptions C09_read_regexp_submatch.

Theorem C09_read_regexp_submatch_moves : forall sm r pos p' v, in_file r pos -> smatcher_ok sm ->
  read_regexp_submatch sm r pos = Ok (p', v) ->
  (v = None -> p' = pos) /\
  (forall gs, v = Some gs -> exists m rest, gs = Some m :: rest /\ p' = pos + len_N m /\ p' <= r_offset r + r_len r).
Proof. exact read_regexp_submatch_moves. Qed.
Print Assumptions C09_read_regexp_submatch_moves.

(* For every callback obeying Readf's contract (nil value when it consumes nothing; value not
   longer than the consumed length; consumed length at most the bytes given): neither of
   Readf's two panics fires, and the result is the callback's. *)
Theorem C09_readf : forall f r pos, in_file r pos -> callback_ok f ->
  readf f r pos = Ok (spec_readf f (r_data r) (r_offset r) pos).
Proof. exact readf_spec. Qed.
Print Assumptions C09_readf.

Theorem C09_readf_moves : forall f r pos p' v, in_file r pos -> callback_ok f ->
  readf f r pos = Ok (p', v) ->
  pos <= p' /\ p' <= r_offset r + r_len r /\ len_opt v <= p' - pos /\ (p' = pos -> v = None).
Proof. exact readf_moves. Qed.
Print Assumptions C09_readf_moves.

(* ---------------- Remaining, IsEOF, Pos ---------------- *)

Theorem C09_remaining : forall r pos, in_file r pos ->
  remaining r pos = spec_remaining (r_data r) (r_offset r) pos /\ pos + remaining r pos = r_offset r + r_len r.
Proof. exact remaining_spec. Qed.
Print Assumptions C09_remaining.

Theorem C09_is_eof : forall r pos, in_file r pos ->
  is_eof r pos = spec_is_eof (r_data r) (r_offset r) pos /\ (is_eof r pos = true <-> pos = r_offset r + r_len r).
Proof. exact is_eof_spec. Qed.
Print Assumptions C09_is_eof.

Theorem C09_pos : forall r pos, in_file r pos -> reader_pos r (pos - r_offset r) = pos.
Proof. exact reader_pos_spec. Qed.
Print Assumptions C09_pos.

(* ---------------- SkipWhitespaces ---------------- *)

(* SkipWhitespaces never panics, never runs out of fuel, stops at the end of the maximal run of
   {space, tab, LF, FF} and reports: WsNone — an error at the run's start iff the run is non-empty;
   WsSpaces — an error at the first LF/FF iff there is one; WsSpacesNl — never an error;
   WsSpacesForceNl — an error at the run's end iff it has no LF/FF. *)
Theorem C09_skip_whitespaces : forall r pos mode, 1 <= r_offset r -> in_file r pos ->
  skip_whitespaces r pos mode = Ok (spec_skip_whitespaces (r_data r) (r_offset r) pos mode).
Proof. exact skip_whitespaces_spec. Qed.
Print Assumptions C09_skip_whitespaces.

(* It never moves backwards, never leaves the file, skips only whitespace, ends at EOF or at a
   non-whitespace byte, and an error position lies within the skipped run. *)
Theorem C09_skip_whitespaces_props : forall r pos mode p' e, 1 <= r_offset r -> in_file r pos ->
  skip_whitespaces r pos mode = Ok (p', e) ->
  pos <= p' /\ p' <= r_offset r + r_len r /\
  (forall q, pos <= q -> q < p' -> exists b, nth_N (r_data r) (q - r_offset r) = Some b /\ is_ws b = true) /\
  (p' = r_offset r + r_len r \/ exists b, nth_N (r_data r) (p' - r_offset r) = Some b /\ is_ws b = false) /\
  (forall ep k, e = Some (ep, k) -> pos <= ep /\ ep <= p').
Proof. exact skip_whitespaces_props. Qed.
Print Assumptions C09_skip_whitespaces_props.

(* ---------------- placement (used by C12) ---------------- *)
(* Every primitive depends only on pos - offset: the same bytes at base offset + d, probed at
   pos + d, give the same answer with every position moved by d.  No side conditions, except
   offset >= 1 for SkipWhitespaces (its 0 marker). *)

Theorem C09_read_rune_shift : forall r d pos ch,
  read_rune (shift_reader r d) (pos + d) ch = shift_out d (read_rune r pos ch).
Proof. exact read_rune_shift. Qed.
Print Assumptions C09_read_rune_shift.

Theorem C09_match_string_shift : forall r d pos str,
  match_string (shift_reader r d) (pos + d) str = shift_out d (match_string r pos str).
Proof. exact match_string_shift. Qed.
Print Assumptions C09_match_string_shift.

Theorem C09_match_word_shift : forall r d pos word,
  match_word (shift_reader r d) (pos + d) word = shift_out d (match_word r pos word).
Proof. exact match_word_shift. Qed.
Print Assumptions C09_match_word_shift.

Theorem C09_read_regexp_shift : forall matcher r d pos,
  read_regexp matcher (shift_reader r d) (pos + d) = shift_out d (read_regexp matcher r pos).
Proof. exact read_regexp_shift. Qed.
Print Assumptions C09_read_regexp_shift.

Theorem C09_read_regexp_submatch_shift : forall sm r d pos,
  read_regexp_submatch sm (shift_reader r d) (pos + d) = shift_out d (read_regexp_submatch sm r pos).
Proof. exact read_regexp_submatch_shift. Qed.
Print Assumptions C09_read_regexp_submatch_shift.

Theorem C09_readf_shift : forall f r d pos,
  readf f (shift_reader r d) (pos + d) = shift_out d (readf f r pos).
Proof. exact readf_shift. Qed.
Print Assumptions C09_readf_shift.

Theorem C09_remaining_shift : forall r d pos, remaining (shift_reader r d) (pos + d) = remaining r pos.
Proof. exact remaining_shift. Qed.
Print Assumptions C09_remaining_shift.

Theorem C09_is_eof_shift : forall r d pos, is_eof (shift_reader r d) (pos + d) = is_eof r pos.
Proof. exact is_eof_shift. Qed.
Print Assumptions C09_is_eof_shift.

Theorem C09_pos_shift : forall r d cur, reader_pos (shift_reader r d) cur = reader_pos r cur + d.
Proof. exact reader_pos_shift. Qed.
Print Assumptions C09_pos_shift.

Theorem C09_skip_whitespaces_shift : forall r d pos mode, 1 <= r_offset r ->
  skip_whitespaces (shift_reader r d) (pos + d) mode = shift_ws_out d (skip_whitespaces r pos mode).
Proof. exact skip_whitespaces_shift. Qed.
Print Assumptions C09_skip_whitespaces_shift.

(* ---------------- the harness ---------------- *)

(* On every case of the domain (offset >= 1, bytes, valid runes, non-empty strings, non-empty
   ASCII words; the four fixed expressions and three callbacks satisfy their contracts) the
   model's predicted observation satisfies the oracle, i.e. equals the specification's at every
   position of the file: an implementation that agrees with the model satisfies the property. *)
Theorem C09_model_meets_oracle : forall c, c09_in_domain c = true -> c09_oracle c (c09_expected c) = true.
Proof. exact c09_model_meets_oracle. Qed.
Print Assumptions C09_model_meets_oracle.
