(* C13 — Tree passes reach every node once, in the documented order.
   Only statements here; each is closed by [exact] of a theorem of TreeProofs.v.
   Vocabulary (Tree.v): [post t] is the post-order listing of t (children left to right, then the
   node; an alternative list contributes its FIRST element's listing and then itself); [post' t] is
   the same with a marker where the walk would index an empty alternative list; [run f l s] applies
   a stateful callback along a listing until it returns true or panics; [below n] = everything the
   walk reaches strictly under n; [frontier t] = the outermost transformer-capable non-terminals. *)
From Coq Require Import List NArith Permutation.
From Parsley Require Import Base Tree TreeProofs.
Import ListNotations.
Open Scope N_scope.

(* parsley.Walk, for ANY stateful callback (one that may stop, or panic) and any tree, applies the
   callback exactly along the post-order listing and stops immediately when it returns true. *)
Theorem C13_walk_postorder_general : forall (S : Type) (f : S -> tree -> S * outcome bool) t s,
  walk_st f t s = run f (post' t) s.
Proof. exact @walk_st_run. Qed.
Print Assumptions C13_walk_postorder_general.

(* With a pure callback: the log of visited nodes is the post-order listing truncated just after the
   first node where the callback returns true, and Walk returns true iff there is such a node. *)
Theorem C13_walk_postorder : forall f t, lists_nonempty t = true ->
  walk f t = (map node_id (cut f (post t)), Ok (existsb f (post t))).
Proof. exact walk_postorder. Qed.
Print Assumptions C13_walk_postorder.

(* A callback that never stops: the walk runs to the end, the log is a rearrangement of the
   identifiers reachable through first alternatives (= all identifiers when the tree has no
   alternative list), and when these are pairwise distinct each occurs exactly once. *)
Theorem C13_walk_once : forall f t, (forall n, f n = false) -> lists_nonempty t = true ->
  snd (walk f t) = Ok false /\
  Permutation (fst (walk f t)) (reach_ids t) /\
  (no_lists t = true -> reach_ids t = all_ids t) /\
  (NoDup (reach_ids t) -> forall id, In id (reach_ids t) -> count_occ N.eq_dec (fst (walk f t)) id = 1%nat).
Proof. exact walk_once. Qed.
Print Assumptions C13_walk_once.

(* parsley.StaticCheck is that walk with the callback that runs NonTerminalNode.StaticCheck. *)
Theorem C13_staticcheck_is_walk : forall chk t,
  static_check chk t = run (sc_callback chk) (post' t) cs_init.
Proof. exact static_check_run. Qed.
Print Assumptions C13_staticcheck_is_walk.

(* Bottom-up static checking, for every checker behaviour chk and every tree with distinct node
   identifiers.  [done] is the part of the post-order listing that was processed.
   1. the recording checkers ran in post-order, each at most once;
   2. every log entry is a call of the node's own checker on that node, with the schemas of that moment;
   3. every schema a checker could see below its node is that node's FINAL schema;
   4. every checker below it had already run, and what it returned is what is seen;
   5. a returned schema is recorded on the node;
   6. no error: everything was processed.  An error: it is the last call's, it is returned, nothing ran
      after it.  A panic: only Select's StaticCheck with an index out of range. *)
Theorem C13_staticcheck_bottom_up : forall chk t s r,
  lists_nonempty t = true -> NoDup (map node_id (post t)) ->
  static_check chk t = (s, r) ->
  exists done rest, post t = done ++ rest /\
  map ce_node (cs_log s) = filter rec_checker done /\
  (forall e, In e (cs_log s) ->
     (exists id p trf cs, ce_node e = TNonTerm id p (IRec (ce_k e) true trf) cs) /\
     ce_res e = chk (ce_k e) (ce_node e) (schema_at (ce_store e))) /\
  (forall e, In e (cs_log s) -> forall d, In d (below (ce_node e)) ->
     schema_at (ce_store e) d = schema_at (cs_store s) d) /\
  (forall lg1 e lg2, cs_log s = lg1 ++ e :: lg2 ->
     forall d, In d (below (ce_node e)) -> rec_checker d = true ->
     exists e', In e' lg1 /\ ce_node e' = d /\ ce_res e' = CSchema (schema_at (ce_store e) d)) /\
  (forall e sc, In e (cs_log s) -> ce_res e = CSchema sc -> schema_at (cs_store s) (ce_node e) = sc) /\
  match r with
  | Ok false => rest = [] /\ cs_err s = None /\ all_schema (cs_log s)
  | Ok true => exists lg e err done0, cs_log s = lg ++ [e] /\ ce_res e = CErr err /\ cs_err s = Some err /\
                 all_schema lg /\ done = done0 ++ [ce_node e]
  | Panic => exists done0 id p i cs, done = done0 ++ [TNonTerm id p (ISelect i) cs] /\ select_child i cs = None
  | OutOfFuel => False
  end.
Proof. exact staticcheck_bottom_up. Qed.
Print Assumptions C13_staticcheck_bottom_up.

(* Transform equals the frontier specification: the outermost transformer-capable non-terminals are
   handed to their transformers left to right (nothing under them is visited, alternative lists are
   not entered); if none fails the result is the tree with each of them replaced by its result and
   everything else rebuilt; otherwise the first error is returned and nothing after it runs. *)
Theorem C13_transform_spec : forall trf t,
  transform trf t =
  match first_fail trf (frontier t) with
  | None => (map trf_entry (frontier t), inl (rebuild trf t))
  | Some (pre, n, e) => (map trf_entry (pre ++ [n]), inr e)
  end.
Proof. exact transform_spec. Qed.
Print Assumptions C13_transform_spec.

(* The same fact node by node. *)
Theorem C13_transform_local : forall trf,
  (forall id p ik cs k, transformer_of ik = Some k ->
     transform trf (TNonTerm id p ik cs) = ([(k, id)], trf k (TNonTerm id p ik cs))) /\
  (forall id s v, transform trf (TLeaf id s v) = ([], inl (TLeaf id s v))) /\
  (forall id, transform trf (TEmpty id) = ([], inl (TEmpty id))) /\
  (forall id alts, transform trf (TList id alts) = ([], inl (TList id alts))) /\
  (forall id p ik cs rs, transformer_of ik = None ->
     Forall2 (fun c r => transform trf c = (fst r, inl (snd r))) cs rs ->
     transform trf (TNonTerm id p ik cs) = (concat (map fst rs), inl (TNonTerm id p ik (map snd rs)))) /\
  (forall id p ik cs1 c cs2 rs lg e, transformer_of ik = None ->
     Forall2 (fun c r => transform trf c = (fst r, inl (snd r))) cs1 rs ->
     transform trf c = (lg, inr e) ->
     transform trf (TNonTerm id p ik (cs1 ++ c :: cs2)) = (concat (map fst rs) ++ lg, inr e)).
Proof. exact transform_local. Qed.
Print Assumptions C13_transform_local.

(* Evaluation: every log entry pairs a recording interpreter with a node of the tree that carries
   it (the interpreter is handed exactly its own node); the log follows the tree's pre-order and,
   with distinct identifiers, names no node twice; the value/error/panic is the log-free
   specification's; literal leaves return their value, empty nodes and alternative lists yield
   ErrNoValue at their position, a nil interpreter panics, a recording interpreter at the root is
   called first and on the root. *)
Theorem C13_evaluate_gets_node : forall evb t,
  (forall k id, In (k, id) (fst (eval evb t)) -> In (k, id) (rec_pairs t)) /\
  subseq (fst (eval evb t)) (rec_pairs t) /\
  (NoDup (all_ids t) -> NoDup (map snd (fst (eval evb t)))) /\
  snd (eval evb t) = spec_eval (height t) evb t /\
  match t with
  | TLeaf _ _ v => eval evb t = ([], EVal v)
  | TEmpty id => eval evb t = ([], EErr (ENoValue id))
  | TList _ _ => eval evb t = ([], match node_pos t with Some p => EErr (ENoValue p) | None => EPanic end)
  | TNonTerm id _ INone _ => eval evb t = ([], EPanic)
  | TNonTerm id _ (IRec k _ _) _ => exists lg, fst (eval evb t) = (k, id) :: lg
  | TNonTerm _ _ _ _ => True
  end.
Proof. exact evaluate_gets_node. Qed.
Print Assumptions C13_evaluate_gets_node.

(* Which interpreters are called: the calls made are a prefix of the calls the tree demands
   ([demanded]: a recording interpreter, then all its children; Select one child; Array the even
   children; Object child 0 and child 2 of its even children), and all of them, each once and in
   that order, when the evaluation returns a value. *)
Theorem C13_evaluate_calls : forall evb t,
  exists rest, demanded (height t) evb t = fst (eval evb t) ++ rest /\
               (forall v, snd (eval evb t) = EVal v -> rest = []).
Proof. exact eval_calls. Qed.
Print Assumptions C13_evaluate_calls.
