(* TermFacts.v — what the engine proofs need to know about the terminal parsers [term_parse]
   (Engine.v), in particular about the literal parsers of Literals.v that [TLit] embeds.

   Part 1: every text.Reader primitive and every literal parser MOVES FORWARD INSIDE THE FILE,
           for every reader, every position and every construction parameter (no domain
           hypothesis: outside the documented domain the parsers mostly panic, and a panic
           yields no node).
   Part 2: the same for [term_parse] (rune and literal terminals alike): the shape of the
           result, where a node starts and ends, where an error lies.
   Part 3: [term_parse_no_panic]: inside the documented domain the panic marker never occurs
           (from LiteralProofs.lit_total = C08_total). *)
From Coq Require Import String List NArith ZArith Bool Arith Lia.
From Parsley Require Import Obs Base FileSet Utf8 Reader Regex Literals LiteralProofs.
From Parsley Require Import Grammar Engine.      (* last: the engine's names win (wsmode, VInt, remaining, ...) *)
Import ListNotations.
Open Scope N_scope.

Local Lemma bind_ok' {A B} (o : outcome A) (k : A -> outcome B) x :
  bind o k = Ok x -> exists a, o = Ok a /\ k a = Ok x.
Proof. destruct o as [a| |]; cbn [bind]; intros H; [exists a; auto | discriminate | discriminate]. Qed.

(* ================================================================== *)
(* 1. The reader primitives move forward inside the file               *)

Definition fend (r : reader) : N := r_offset r + r_len r.
(* from [pos] to [p']: not backwards; either not at all or to a position inside the file *)
Definition step (r : reader) (pos p' : N) : Prop := pos <= p' /\ (p' = pos \/ p' <= fend r).
(* a successful primitive: strictly forward, inside the file *)
Definition adv (r : reader) (pos p' : N) : Prop := pos < p' /\ p' <= fend r.

Lemma step_refl r pos : step r pos pos.
Proof. split; [lia|left; reflexivity]. Qed.
Lemma adv_step r a b : adv r a b -> step r a b.
Proof. intros [H1 H2]. split; [lia|right; exact H2]. Qed.
Lemma step_trans r a b c : step r a b -> step r b c -> step r a c.
Proof. unfold step. intros [H1 H2] [H3 H4]. split; [lia|]. destruct H4 as [->|H4]; [exact H2|right; exact H4]. Qed.
Lemma step_adv r a b c : step r a b -> adv r b c -> adv r a c.
Proof. unfold step, adv. intros [H1 H2] [H3 H4]. split; lia. Qed.
Lemma adv_step_adv r a b c : adv r a b -> step r b c -> adv r a c.
Proof. unfold step, adv. intros [H1 H2] [H3 H4]. split; [lia|]. destruct H4 as [->|H4]; assumption. Qed.

(* lia after dropping the hypotheses about outcomes (ZifyBool, loaded by ReaderProofs, chokes on them) *)
Ltac nlia :=
  repeat match goal with
         | H : @eq (outcome _) _ _ |- _ => clear H
         | H : @eq (option _) _ _ |- _ => clear H
         | H : @eq (list _) _ _ |- _ => clear H
         end; lia.

Lemma skipn_len_N {A} n (l : list A) : len_N (skipn (N.to_nat n) l) = len_N l - n.
Proof. unfold len_N. rewrite skipn_length. lia. Qed.

Lemma read_rune_moves r pos ch p' ok : read_rune r pos ch = Ok (p', ok) ->
  (ok = false /\ p' = pos) \/ (ok = true /\ adv r pos p').
Proof.
  unfold read_rune, adv, fend, reader_pos, r_len. intros H.
  destruct (len_N (r_data r) <=? pos - r_offset r) eqn:E1; [inversion H; subst; left; auto|].
  apply N.leb_gt in E1.
  destruct (ch <? rune_self).
  - apply bind_ok' in H. destruct H as (b & Hb & H).
    destruct (Z.eqb (int8 ch) (int8 b)); inversion H; subst; [right|left; auto].
    split; [reflexivity|]. nlia.
  - apply bind_ok' in H. destruct H as (s & Hs & H). unfold slice_from in Hs.
    destruct (pos - r_offset r <=? len_N (r_data r)); [|discriminate]. inversion Hs; subst s; clear Hs.
    destruct (decode_rune (skipn (N.to_nat (pos - r_offset r)) (r_data r))) as [next width] eqn:Ed.
    destruct (next =? ch); inversion H; subst; [right|left; auto].
    split; [reflexivity|].
    pose proof (skipn_len_N (pos - r_offset r) (r_data r)) as L.
    destruct (skipn (N.to_nat (pos - r_offset r)) (r_data r)) as [|b t] eqn:Es.
    + unfold len_N in L at 1. cbn [length] in L. nlia.
    + apply decode_width in Ed. nlia.
Qed.

Lemma match_string_moves r pos str p' ok : match_string r pos str = Ok (p', ok) ->
  (ok = false /\ p' = pos) \/ (ok = true /\ adv r pos p').
Proof.
  unfold match_string, adv, fend, reader_pos, r_len. intros H. destruct str as [|c str]; [discriminate|].
  destruct (len_N (r_data r) - (pos - r_offset r) <? len_N (c :: str)) eqn:E1; [inversion H; subst; left; auto|].
  apply N.ltb_ge in E1. apply bind_ok' in H. destruct H as (s & Hs & H).
  rewrite len_N_cons in *. remember (1 + len_N str) as L eqn:EL.
  destruct (has_prefix s (c :: str)); inversion H; subst p' ok; [right|left; auto].
  split; [reflexivity|]. nlia.
Qed.

Lemma match_word_moves r pos w p' ok : match_word r pos w = Ok (p', ok) ->
  (ok = false /\ p' = pos) \/ (ok = true /\ adv r pos p').
Proof.
  unfold match_word, adv, fend, reader_pos, r_len. intros H. destruct w as [|c w]; [discriminate|].
  destruct (len_N (r_data r) - (pos - r_offset r) <? len_N (c :: w)) eqn:E1; [inversion H; subst; left; auto|].
  apply N.ltb_ge in E1. apply bind_ok' in H. destruct H as (same & Hs & H).
  destruct (negb same); [inversion H; subst; left; auto|].
  rewrite len_N_cons in *. remember (1 + len_N w) as L eqn:EL.
  destruct (len_N (r_data r) - (pos - r_offset r) - L =? 0).
  - inversion H; subst p' ok. right. split; [reflexivity|]. nlia.
  - apply bind_ok' in H. destruct H as (d & Hd & H).
    destruct (negb (is_word_char d)); inversion H; subst p' ok; [right|left; auto].
    split; [reflexivity|]. nlia.
Qed.

(* the expression's match length is known; [n = 0] is possible for an arbitrary matcher *)
Lemma read_regexp_moves m r pos p' v : read_regexp m r pos = Ok (p', v) ->
  (v = None /\ p' = pos) \/
  (exists n x, v = Some x /\ m (suffix (r_data r) (pos - r_offset r)) = Some n /\
               pos <= p' /\ p' <= fend r /\ (1 <= n -> pos < p')).
Proof.
  unfold read_regexp, fend, reader_pos, r_len. intros H.
  destruct (len_N (r_data r) <=? pos - r_offset r) eqn:E1; [inversion H; subst; left; auto|].
  apply N.leb_gt in E1. destruct (m []); [discriminate|].
  apply bind_ok' in H. destruct H as (s & Hs & H). unfold slice_from in Hs.
  destruct (pos - r_offset r <=? len_N (r_data r)); [|discriminate]. inversion Hs; subst s; clear Hs.
  fold (suffix (r_data r) (pos - r_offset r)) in H.
  destruct (m (suffix (r_data r) (pos - r_offset r))) as [n|] eqn:Em; [|inversion H; subst; left; auto].
  apply bind_ok' in H. destruct H as (x & Hx & H). inversion H; subst. right. exists n, x.
  unfold slice_N in Hx.
  destruct ((pos - r_offset r <=? pos - r_offset r + n) && (pos - r_offset r + n <=? len_N (r_data r))) eqn:E2; [|discriminate].
  apply andb_true_iff in E2. destruct E2 as [_ E2]. apply N.leb_le in E2.
  repeat split; try reflexivity; nlia.
Qed.

Lemma read_regexp_submatch_moves sm r pos p' v : read_regexp_submatch sm r pos = Ok (p', v) ->
  (v = None /\ p' = pos) \/
  (exists m0 gs, v = Some (m0 :: gs) /\ sm (suffix (r_data r) (pos - r_offset r)) = Some (m0 :: gs) /\
                 pos - r_offset r < r_len r /\ p' = r_offset r + (pos - r_offset r + len_opt m0)).
Proof.
  unfold read_regexp_submatch, reader_pos. intros H.
  destruct (r_len r <=? pos - r_offset r) eqn:E1; [inversion H; subst; left; auto|].
  apply N.leb_gt in E1. destruct (sm []); [discriminate|].
  apply bind_ok' in H. destruct H as (s & Hs & H). unfold slice_from in Hs.
  destruct (pos - r_offset r <=? len_N (r_data r)); [|discriminate]. inversion Hs; subst s; clear Hs.
  fold (suffix (r_data r) (pos - r_offset r)) in H.
  destruct (sm (suffix (r_data r) (pos - r_offset r))) as [[|m0 gs]|] eqn:Em; [discriminate| |inversion H; subst; left; auto].
  inversion H; subst. right. exists m0, gs. repeat split; try reflexivity. exact E1.
Qed.

Lemma readf_moves f r pos p' v : readf f r pos = Ok (p', v) ->
  (v = None /\ p' = pos) \/ adv r pos p'.
Proof.
  unfold readf, adv, fend, reader_pos. intros H.
  destruct (r_len r <=? pos - r_offset r) eqn:E1; [inversion H; subst; left; auto|].
  apply N.leb_gt in E1. apply bind_ok' in H. destruct H as (s & Hs & H).
  destruct (f s) as [value next]. destruct (next =? 0) eqn:E2.
  - destruct value; [discriminate|]. inversion H; subst. left; auto.
  - apply N.eqb_neq in E2.
    destruct ((next <? len_opt value) || (r_len r <? pos - r_offset r + next)) eqn:E3; [discriminate|].
    apply orb_false_iff in E3. destruct E3 as [_ E3]. apply N.ltb_ge in E3.
    inversion H; subst. right. nlia.
Qed.

(* the regular expressions of the parsers never match the empty string *)
Lemma re_find_pos re s n : nullable re = false -> re_find re s = Some n -> 1 <= n /\ n <= len_N s.
Proof.
  intros Hn H. pose proof (re_find_spec re s n H) as [Hle Hr].
  apply (rmatch_sfx_strict re Hn) in Hr. destruct Hr as (t & Ht & Hlt & Hk).
  inversion Hk; subst t. rewrite len_drop in Hlt. lia.
Qed.
Lemma re_find_le re s n : re_find re s = Some n -> n <= len_N s.
Proof. intros H. apply re_find_spec in H. tauto. Qed.

(* ================================================================== *)
(* 2. Every literal parser moves forward inside the file               *)

(* a match of the literal certainly consumes input: everything except a user expression that can
   match the empty string (outside [lit_domain]; Go's getPattern panics on it) *)
Definition lit_strict (l : literal) : bool :=
  match l with LRegexp re _ => negb (nullable re) | _ => true end.
Lemma lit_domain_strict l : lit_domain l = true -> lit_strict l = true.
Proof.
  destruct l; try reflexivity. cbn [lit_domain lit_strict]. intros H.
  apply andb_true_iff in H. destruct H as [H _]. apply andb_true_iff in H. tauto.
Qed.

(* what the engine needs from a literal parser's answer *)
Definition lit_res_ok (l : literal) (r : reader) (pos : N) (res : lit_result) : Prop :=
  match res with
  | (Some nd, e) => e = None /\ ln_pos nd = pos /\ pos <= ln_rpos nd /\ ln_rpos nd <= fend r /\
                    (lit_strict l = true -> pos < ln_rpos nd)
  | (None, Some e) => step r pos (le_pos e)
  | (None, None) => False
  end.

Section LitMoves.
  Variable cf : list N -> option N.
  Variable cd : list N -> option Z.
  Variable r : reader.
  Variable pos : N.

  Ltac fin := unfold ret_node, ret_err in *;
    match goal with
    | H : Ok _ = Ok _ |- _ => inversion H; subst; clear H
    end; cbn [lit_res_ok ln_pos ln_rpos le_pos lit_strict];
    unfold step, adv in *; repeat split; try reflexivity; try lia.

  Lemma integer_moves res : p_integer r pos = Ok res -> lit_res_ok LInteger r pos res.
  Proof.
    unfold p_integer. intros H. apply bind_ok' in H. destruct H as ([p1 v] & H1 & H). cbn [fst snd] in H.
    apply read_regexp_moves in H1. destruct H1 as [[-> ->]|(n & x & -> & Hm & Hle & Hhi & Hs)]; [fin|].
    rewrite re_integer_spec in Hm. apply int_lexeme_le in Hm.
    apply bind_ok' in H. destruct H as ([p2 ok] & H2 & H). cbn [snd] in H.
    destruct ok; [fin|]. destruct (parse_int_base0 x); fin.
  Qed.

  Lemma float_moves res : p_float cf r pos = Ok res -> lit_res_ok LFloat r pos res.
  Proof.
    unfold p_float. intros H. apply bind_ok' in H. destruct H as ([p1 v] & H1 & H). cbn [fst snd] in H.
    apply read_regexp_moves in H1. destruct H1 as [[-> ->]|(n & x & -> & Hm & Hle & Hhi & Hs)]; [fin|].
    rewrite re_float_spec in Hm. apply float_lexeme_le in Hm. destruct (cf x); fin.
  Qed.

  Lemma duration_moves res : p_duration cd r pos = Ok res -> lit_res_ok LDuration r pos res.
  Proof.
    unfold p_duration. intros H. apply bind_ok' in H. destruct H as ([p1 v] & H1 & H). cbn [fst snd] in H.
    apply read_regexp_moves in H1. destruct H1 as [[-> ->]|(n & x & -> & Hm & Hle & Hhi & Hs)]; [fin|].
    rewrite re_duration_spec in Hm. apply dur_lexeme_le in Hm. destruct (cd x); fin.
  Qed.

  Lemma string_moves bq res : p_string bq r pos = Ok res -> lit_res_ok (LString bq) r pos res.
  Proof.
    unfold p_string. intros H. apply bind_ok' in H. destruct H as ([p1 ok1] & H1 & H). cbn [fst snd] in H.
    apply read_rune_moves in H1.
    apply bind_ok' in H. destruct H as ([quote [p2 ok2]] & H2 & H). cbn [fst snd] in H.
    assert (Hq : (ok2 = false /\ p2 = pos) \/ (ok2 = true /\ adv r pos p2)).
    { destruct (negb ok1 && bq).
      - apply bind_ok' in H2. destruct H2 as ([p2' ok2'] & H2 & E). inversion E; subst.
        apply read_rune_moves in H2. exact H2.
      - inversion H2; subst. exact H1. }
    clear H1 H2. destruct Hq as [[-> ->]|[-> A2]]; cbn [negb] in H; [fin|].
    apply bind_ok' in H. destruct H as ([p3 ok3] & H3 & H). cbn [fst snd] in H.
    apply read_rune_moves in H3. destruct H3 as [[-> ->]|[-> A3]]; [|fin].
    apply bind_ok' in H. destruct H as ([p4 v4] & H4 & H). cbn [fst snd] in H.
    assert (S4 : step r p2 p4).
    { destruct (quote =? 96).
      - apply read_regexp_moves in H4. destruct H4 as [[_ ->]|(n & x & _ & _ & Hle & Hhi & _)]; [apply step_refl|].
        split; [lia|right; exact Hhi].
      - apply readf_moves in H4. destruct H4 as [[_ ->]|A4]; [apply step_refl|apply adv_step; exact A4]. }
    apply bind_ok' in H. destruct H as ([p5 ok5] & H5 & H). cbn [fst snd] in H.
    apply read_rune_moves in H5. destruct H5 as [[-> ->]|[-> A5]]; cbn [negb] in H; fin.
  Qed.

  Lemma char_moves res : p_char r pos = Ok res -> lit_res_ok LChar r pos res.
  Proof.
    unfold p_char. intros H. apply bind_ok' in H. destruct H as ([p1 ok1] & H1 & H). cbn [fst snd] in H.
    apply read_rune_moves in H1. destruct H1 as [[-> ->]|[-> A1]]; cbn [negb] in H; [fin|].
    apply bind_ok' in H. destruct H as ([p2 v2] & H2 & H). cbn [fst snd] in H.
    apply read_regexp_moves in H2. destruct H2 as [[-> ->]|(n & x & -> & Hm & Hle & Hhi & Hs)]; [fin|].
    apply bind_ok' in H. destruct H as ([p3 ok3] & H3 & H). cbn [fst snd] in H.
    apply read_rune_moves in H3. destruct H3 as [[-> ->]|[-> A3]]; cbn [negb] in H; [fin|].
    destruct (unquote_char x 39) as [[value k]|]; [destruct (k =? len_N x)|]; fin.
  Qed.

  Lemma bool_moves t f res : p_bool t f r pos = Ok res -> lit_res_ok (LBool t f) r pos res.
  Proof.
    unfold p_bool. intros H. destruct t as [|t0 t]; [discriminate|]. destruct f as [|f0 f]; [discriminate|].
    apply bind_ok' in H. destruct H as ([p1 ok1] & H1 & H). cbn [fst snd] in H.
    apply match_word_moves in H1. destruct H1 as [[-> ->]|[-> A1]]; [|fin].
    apply bind_ok' in H. destruct H as ([p2 ok2] & H2 & H). cbn [fst snd] in H.
    apply match_word_moves in H2. destruct H2 as [[-> ->]|[-> A2]]; fin.
  Qed.

  Lemma nil_moves s res : p_nil s r pos = Ok res -> lit_res_ok (LNil s) r pos res.
  Proof.
    unfold p_nil. intros H. destruct s as [|s0 s]; [discriminate|].
    apply bind_ok' in H. destruct H as ([p1 ok1] & H1 & H). cbn [fst snd] in H.
    apply match_word_moves in H1. destruct H1 as [[-> ->]|[-> A1]]; fin.
  Qed.

  Lemma word_moves w res : p_word w r pos = Ok res -> lit_res_ok (LWord w) r pos res.
  Proof.
    unfold p_word. intros H. destruct w as [|w0 w]; [discriminate|].
    apply bind_ok' in H. destruct H as ([p1 ok1] & H1 & H). cbn [fst snd] in H.
    apply match_word_moves in H1. destruct H1 as [[-> ->]|[-> A1]]; fin.
  Qed.

  Lemma op_moves s res : p_op s r pos = Ok res -> lit_res_ok (LOp s) r pos res.
  Proof.
    unfold p_op. intros H. destruct s as [|s0 s]; [discriminate|].
    apply bind_ok' in H. destruct H as ([p1 ok1] & H1 & H). cbn [fst snd] in H.
    apply match_string_moves in H1. destruct H1 as [[-> ->]|[-> A1]]; fin.
  Qed.

  Lemma rune_moves ch res : p_rune ch r pos = Ok res -> lit_res_ok (LRune ch) r pos res.
  Proof.
    unfold p_rune. intros H.
    apply bind_ok' in H. destruct H as ([p1 ok1] & H1 & H). cbn [fst snd] in H.
    apply read_rune_moves in H1. destruct H1 as [[-> ->]|[-> A1]]; fin.
  Qed.

  Lemma regexp_moves re g res : p_regexp re g r pos = Ok res -> lit_res_ok (LRegexp re g) r pos res.
  Proof.
    unfold p_regexp. intros H. destruct (g =? 0).
    - apply bind_ok' in H. destruct H as ([p1 v] & H1 & H). cbn [fst snd] in H.
      apply read_regexp_moves in H1. destruct H1 as [[-> ->]|(n & x & -> & Hm & Hle & Hhi & Hs)]; [fin|].
      fin. intros Hn. apply negb_true_iff in Hn. apply Hs. apply (re_find_pos re _ _ Hn Hm).
    - apply bind_ok' in H. destruct H as ([p1 v] & H1 & H). cbn [fst snd] in H.
      apply read_regexp_submatch_moves in H1. destruct H1 as [[-> ->]|(m0 & gs & -> & Hm & Hc & ->)]; [fin|].
      destruct (nth_N (m0 :: gs) g); [|discriminate].
      pose proof (re_find_submatch_spec re (suffix (r_data r) (pos - r_offset r))) as Hs.
      destruct (re_find re (suffix (r_data r) (pos - r_offset r))) as [n|] eqn:En; [|congruence].
      destruct Hs as (gs' & Hs & _). rewrite Hs in Hm. inversion Hm; subst m0 gs'. clear Hm.
      pose proof (re_find_le re _ _ En) as Hle. rewrite len_suffix in Hle.
      assert (Hl : len_opt (Some (take n (suffix (r_data r) (pos - r_offset r)))) = n).
      { cbn [len_opt]. apply len_take. rewrite len_suffix. exact Hle. }
      rewrite Hl in H. unfold r_len in Hc. fin; unfold fend, r_len; try lia.
      intros Hn. apply negb_true_iff in Hn. pose proof (re_find_pos re _ _ Hn En). lia.
  Qed.

  Theorem lit_parse_moves l res : lit_parse cf cd l r pos = Ok res -> lit_res_ok l r pos res.
  Proof.
    destruct l; cbn [lit_parse].
    - apply integer_moves. - apply float_moves. - apply string_moves. - apply char_moves.
    - apply bool_moves. - apply nil_moves. - apply word_moves. - apply op_moves. - apply rune_moves.
    - apply duration_moves. - apply regexp_moves.
  Qed.
End LitMoves.

(* ================================================================== *)
(* 3. term_parse                                                       *)

Definition term_strict (t : terminal) : bool := match t with TRune _ => true | TLit l => lit_strict l end.
Lemma term_ok_strict t : term_ok t = true -> term_strict t = true.
Proof. destruct t; [reflexivity|apply lit_domain_strict]. Qed.

Definition i_fend (inp : input) : N := i_offset inp + i_len inp.

(* no result, or exactly one result and no error *)
Lemma term_parse_cases inp t pos res err :
  term_parse inp t pos = (res, err) -> res = [] \/ exists n, res = [n] /\ err = None.
Proof.
  destruct t as [ch|l]; unfold term_parse.
  - destruct (byte_at inp pos) as [b|]; [destruct (b =? ch)|];
      intros H; inversion H; subst; [right; eexists; split; reflexivity|left; reflexivity|left; reflexivity].
  - unfold lit_conv. destruct (lit_parse _ _ _ _ _) as [[[nd|] [e|]]| |]; intros H; inversion H; subst;
      first [left; reflexivity | right; eexists; split; reflexivity].
Qed.

(* the value of a literal's node is never a [VRune] (that constructor is the rune terminal's) *)
Definition is_vrune (v : lval) : bool := match v with VRune _ => true | _ => false end.
Lemma lval_of_not_vrune v : is_vrune (lval_of v) = false.
Proof. destruct v; reflexivity. Qed.

(* a literal terminal's node: a leaf that starts at the position and ends behind it inside the file *)
Lemma term_parse_lit_node inp l pos n err :
  term_parse inp (TLit l) pos = ([n], err) ->
  err = None /\ exists tok v r, n = NTerm tok v pos r /\ is_vrune v = false /\ pos <= r /\ r <= i_fend inp /\
                                (lit_strict l = true -> pos < r).
Proof.
  unfold term_parse, lit_conv. destruct (lit_parse _ _ _ _ _) as [[[nd|] [e|]]| |] eqn:E; intros H; inversion H; subst;
    (apply lit_parse_moves in E; cbn [lit_res_ok] in E; destruct E as (_ & Hp & Hle & Hhi & Hs);
     split; [reflexivity|]; rewrite Hp; do 3 eexists; split; [reflexivity|];
     split; [apply lval_of_not_vrune|]; repeat split; assumption).
Qed.

(* a rune terminal's node *)
Lemma term_parse_rune_node inp c pos n err :
  term_parse inp (TRune c) pos = ([n], err) ->
  err = None /\ n = NTerm [c] (VRune c) pos (pos + 1) /\ byte_at inp pos = Some c.
Proof.
  unfold term_parse. destruct (byte_at inp pos) as [b|]; [destruct (b =? c) eqn:E|]; intros H; inversion H; subst.
  apply N.eqb_eq in E. subst. repeat split; reflexivity.
Qed.

Lemma byte_at_in_file inp pos c : i_offset inp <= pos -> byte_at inp pos = Some c -> pos + 1 <= i_fend inp.
Proof.
  unfold byte_at, nth_N, i_fend, i_len, len_N. intros Hlo H.
  assert (Hn : nth_error (i_data inp) (N.to_nat (pos - i_offset inp)) <> None) by congruence.
  apply nth_error_Some in Hn. lia.
Qed.

(* both kinds of terminal at once (positions at or behind the base offset) *)
Lemma term_parse_node inp t pos n err : i_offset inp <= pos ->
  term_parse inp t pos = ([n], err) ->
  err = None /\ exists tok v r, n = NTerm tok v pos r /\ pos <= r /\ r <= i_fend inp /\
                                (term_strict t = true -> pos < r).
Proof.
  intros Hlo H. destruct t as [c|l].
  - apply term_parse_rune_node in H. destruct H as (-> & -> & Hb). split; [reflexivity|].
    do 3 eexists. split; [reflexivity|]. pose proof (byte_at_in_file inp pos c Hlo Hb). repeat split; lia.
  - apply term_parse_lit_node in H. destruct H as (He & tok & v & r & Hn & _ & H). split; [exact He|].
    exists tok, v, r. split; [exact Hn|exact H].
Qed.

(* an error lies at the position or further on inside the file *)
Lemma term_parse_err inp t pos res e :
  term_parse inp t pos = (res, Some e) -> res = [] /\ pos <= epos e /\ (epos e = pos \/ epos e <= i_fend inp).
Proof.
  destruct t as [ch|l]; unfold term_parse.
  - destruct (byte_at inp pos) as [b|]; [destruct (b =? ch)|]; intros H; inversion H; subst; cbn [epos mk_err];
      (split; [reflexivity|split; [lia|left; reflexivity]]).
  - unfold lit_conv. destruct (lit_parse _ _ _ _ _) as [[[nd|] [e0|]]| |] eqn:E; intros H; inversion H; subst; cbn [epos mk_err].
    + apply lit_parse_moves in E. cbn [lit_res_ok] in E. destruct E as [E1 E2]. split; [reflexivity|]. exact (conj E1 E2).
    + split; [reflexivity|split; [lia|left; reflexivity]].
    + split; [reflexivity|split; [lia|left; reflexivity]].
Qed.

(* a terminal that returns nothing returns an error, except for the impossible (None, None) of a literal parser *)
Lemma term_parse_rune_nil inp c pos err :
  term_parse inp (TRune c) pos = ([], err) -> err = Some (mk_err pos (CNotFound (quote_rune c))).
Proof.
  unfold term_parse. destruct (byte_at inp pos) as [b|]; [destruct (b =? c)|]; intros H; inversion H; reflexivity.
Qed.
Lemma term_parse_nil inp t pos err : term_parse inp t pos = ([], err) -> err <> None.
Proof.
  destruct t as [c|l].
  - intros H. apply term_parse_rune_nil in H. congruence.
  - unfold term_parse, lit_conv. destruct (lit_parse _ _ _ _ _) as [[[nd|] [e0|]]| |] eqn:E; intros H; inversion H; subst; try discriminate.
    apply lit_parse_moves in E. destruct E.
Qed.

(* ================================================================== *)
(* 4. Inside the documented domain the panic marker never occurs       *)

Definition in_file_inp (inp : input) (pos : N) : Prop := i_offset inp <= pos /\ pos <= i_fend inp.

Theorem term_parse_no_panic inp l pos :
  lit_domain l = true -> bytes_ok (i_data inp) -> in_file_inp inp pos ->
  exists res, lit_parse (i_cf inp) (i_cd inp) l (reader_of inp) pos = Ok res /\
              term_parse inp (TLit l) pos = lit_conv pos (Ok res) /\
              forall ns e, term_parse inp (TLit l) pos = (ns, Some e) -> ecause e <> COther panic_marker \/
                           exists e0, res = (None, Some e0).
Proof.
  intros Hd Hb [Hlo Hhi].
  assert (D : in_dom (reader_of inp) pos).
  { split; [exact Hb|]. split; [exact Hlo|]. exact Hhi. }
  destruct (lit_total (i_cf inp) (i_cd inp) l (reader_of inp) pos D Hd) as [res Hres].
  exists res. split; [exact Hres|]. split; [unfold term_parse; rewrite Hres; reflexivity|].
  intros ns e H. unfold term_parse in H. rewrite Hres in H. right.
  destruct res as [[nd|] [e0|]]; cbn [lit_conv] in H; inversion H; subst. eexists; reflexivity.
Qed.

(* the node and the error of an in-domain literal are the ones of C08: token, span, value *)
Theorem term_parse_lit_spec inp l pos :
  lit_domain l = true -> bytes_ok (i_data inp) -> in_file_inp inp pos ->
  match term_parse inp (TLit l) pos with
  | ([NTerm tok v p r], None) =>
      tok = lit_token l /\ p = pos /\ pos < r /\ r <= i_fend inp /\
      exists lv, lit_spec (i_cf inp) (i_cd inp) l (suffix (i_data inp) (pos - i_offset inp)) = SNode (r - pos) lv /\
                 v = lval_of lv
  | ([], Some e) =>
      pos <= epos e /\ epos e <= i_fend inp /\
      exists nf, lit_spec (i_cf inp) (i_cd inp) l (suffix (i_data inp) (pos - i_offset inp)) = SErr (epos e - pos) nf /\
                 (nf = true <-> is_notfound e = true)
  | _ => False
  end.
Proof.
  intros Hd Hb [Hlo Hhi].
  assert (D : in_dom (reader_of inp) pos).
  { split; [exact Hb|]. split; [exact Hlo|]. exact Hhi. }
  destruct (lit_total (i_cf inp) (i_cd inp) l (reader_of inp) pos D Hd) as [[n e] Hres].
  unfold term_parse. rewrite Hres.
  destruct (lit_xor (i_cf inp) (i_cd inp) l (reader_of inp) pos D Hd n e Hres) as [[-> He]|[Hn ->]].
  - destruct e as [e0|]; [|congruence]. cbn [lit_conv].
    destruct (lit_error_pos (i_cf inp) (i_cd inp) l (reader_of inp) pos D Hd None e0 Hres) as [_ [H1 H2]].
    pose proof (lit_error_spec (i_cf inp) (i_cd inp) l (reader_of inp) pos D Hd e0 None Hres) as Hs.
    cbn [epos mk_err]. split; [exact H1|]. split; [exact H2|].
    exists (is_nf (le_kind e0)). split; [exact Hs|].
    unfold is_notfound. cbn [ecause mk_err]. destruct (le_kind e0); cbn [is_nf cause_of]; tauto.
  - destruct n as [nd|]; [|congruence]. cbn [lit_conv].
    destruct (lit_span (i_cf inp) (i_cd inp) l (reader_of inp) pos D Hd nd None Hres) as (_ & Ht & Hp & Hlt & Hle).
    pose proof (lit_node_spec (i_cf inp) (i_cd inp) l (reader_of inp) pos D Hd nd None Hres) as Hs.
    repeat split; try assumption. exists (ln_value nd). split; [exact Hs|reflexivity].
Qed.
