(* JsonProofs.v — C16, engine side.  The engine model (Engine.parse through Top.evaluate) run on the
   example grammar as a [pexpr] term (Json.v) computes exactly the specification [spec_parse]
   (JsonSpec.v): the same value, or a parse error where the specification has none — never a panic.
   Structure:
     1. deterministic results: [dres e pos r] = "at pos, e returns exactly the nodes [olist r]", and
        one lemma per combinator used by the grammar (terminal, reference, Name, LeftTrim, RightTrim,
        Choice = first match, End, and the sequence family = the single path [seq_run]);
     2. whitespace and terminals of the engine against the byte-level functions of JsonSpec.v;
     3. the simulation, by induction on the specification's nesting fuel;
     4. evaluation of the nodes (Select, Array, Object);
     5. the theorems C16_no_panic / C16_reject / C16_accept. *)
From Coq Require Import String List NArith ZArith Bool Arith Lia.
From Parsley Require Import Obs Base FileSet Utf8.
From Parsley Require Reader ReaderProofs Literals LiteralProofs Trim TrimProofs TermFacts Sound.
From Parsley Require Import JsonSpec JsonSpecProofs.
From Parsley Require Import Grammar Engine EngineFacts Top Json.
Import ListNotations.
Open Scope N_scope.

(* ================================================================== *)
(* 1. Deterministic results                                            *)

Definition olist (r : option node) : list node := match r with Some n => [n] | None => [] end.

Section Det.
  Variable inp : input.
  Variable rules : list pexpr.

  Lemma parse_lift f f' e c stk lrc pos x : parse inp rules f e c stk lrc pos = Ok x -> (f <= f')%nat ->
    parse inp rules f' e c stk lrc pos = Ok x.
  Proof. intros H Hle. destruct (fuel_mono inp rules f f' Hle) as [Hp _]. apply (Hp _ _ _ _ _ _ H). discriminate. Qed.
  Lemma seqp_lift f f' q d c stk lrc pos m st x : seqp inp rules f q d c stk lrc pos m st = Ok x -> (f <= f')%nat ->
    seqp inp rules f' q d c stk lrc pos m st = Ok x.
  Proof. intros H Hle. destruct (fuel_mono inp rules f f' Hle) as [_ Hs]. apply (Hs _ _ _ _ _ _ _ _ _ H). discriminate. Qed.

  (* at [pos], [e] returns exactly the nodes [olist r] (no error beside a node), whatever the context *)
  Definition dres (e : pexpr) (pos : N) (r : option node) : Prop :=
    forall c stk lrc, exists f cp err c',
      parse inp rules f e c stk lrc pos = Ok (olist r, cp, err, c') /\ (r <> None -> err = None).

  Lemma dres_term t pos r err : term_parse inp t pos = (olist r, err) -> (r <> None -> err = None) ->
    dres (PTerm t) pos r.
  Proof.
    intros H Hr c stk lrc. exists 1%nat. rewrite parse_S. cbn [parse_step]. rewrite H.
    eexists _, _, _. split; [reflexivity|exact Hr].
  Qed.
  Lemma dres_end pos : dres PEnd pos (if is_eof inp pos then Some (NEnd pos) else None).
  Proof.
    intros c stk lrc. exists 1%nat. rewrite parse_S. cbn [parse_step]. destruct (is_eof inp pos).
    - eexists _, _, _. split; [reflexivity|reflexivity].
    - eexists _, _, _. split; [reflexivity|congruence].
  Qed.
  Lemma dres_ref k body pos r : nth_N rules k = Some body -> dres body pos r -> dres (PRef k) pos r.
  Proof.
    intros Hk H c stk lrc. destruct (H c stk lrc) as (f & cp & err & c' & Hp & Hr).
    exists (S f). rewrite parse_S. cbn [parse_step]. rewrite Hk. eexists _, _, _. split; [exact Hp|exact Hr].
  Qed.
  Lemma dres_name nm p pos r : dres p pos r -> dres (PName nm p) pos r.
  Proof.
    intros H c stk lrc. destruct (H c stk lrc) as (f & cp & err & c' & Hp & Hr).
    exists (S f). rewrite parse_S. cbn [parse_step]. rewrite Hp. cbn [bind].
    destruct r as [n|]; cbn [olist] in *.
    - rewrite (Hr ltac:(discriminate)). eexists _, _, _. split; reflexivity.
    - destruct err; eexists _, _, _; (split; [reflexivity|congruence]).
  Qed.
  Lemma dres_ltrim m p pos pos1 w r : skip_ws inp pos m = (pos1, w) -> dres p pos1 r ->
    dres (PLeftTrim m p) pos (match w with None => r | Some _ => None end).
  Proof.
    intros Hs H c stk lrc. destruct (H c stk lrc) as (f & cp & err & c' & Hp & Hr).
    exists (S f). rewrite parse_S. cbn [parse_step]. rewrite Hs, Hp. cbn [bind].
    destruct r as [n|]; cbn [olist] in *.
    - rewrite (Hr ltac:(discriminate)). destruct w; eexists _, _, _; (split; [reflexivity|congruence]).
    - destruct err as [e|]; destruct w as [w|]; try destruct (pos1 <? epos e); try destruct (is_notfound e);
        eexists _, _, _; (split; [reflexivity|congruence]).
  Qed.
  (* RightTrim with WsSpacesNl (every run is permitted) *)
  Lemma skip_ws_nl_none pos : snd (skip_ws inp pos WsSpacesNl) = None.
  Proof. unfold skip_ws. destruct (ws_scan _ _ _). reflexivity. Qed.
  Lemma dres_rtrim_nl p pos r : dres p pos r -> (forall n q, r = Some n -> n <> NEnd q) ->
    dres (PRightTrim WsSpacesNl p) pos
         (match r with Some n => Some (set_rpos n (fst (skip_ws inp (node_rpos n) WsSpacesNl))) | None => None end).
  Proof.
    intros H Hne c stk lrc. destruct (H c stk lrc) as (f & cp & err & c' & Hp & Hr).
    exists (S f). rewrite parse_S. cbn [parse_step]. rewrite Hp. cbn [bind].
    destruct r as [n|]; cbn [olist] in *.
    - rewrite (Hr ltac:(discriminate)).
      destruct n as [t v p0 r0|p0|p0|t i cs p0 r0]; try (exfalso; eapply Hne; reflexivity);
        cbn [trim_nodes node_rpos set_rpos];
        match goal with |- context [skip_ws inp ?x WsSpacesNl] =>
          pose proof (skip_ws_nl_none x) as Hw; destruct (skip_ws inp x WsSpacesNl) as [e w]; cbn [snd fst] in *; subst w end;
        eexists _, _, _; (split; reflexivity).
    - destruct err; cbn [trim_nodes]; eexists _, _, _; (split; [reflexivity|congruence]).
  Qed.

  (* Choice: the first alternative that returns a node *)
  Fixpoint first_some (rs : list (option node)) : option node :=
    match rs with [] => None | Some n :: _ => Some n | None :: t => first_some t end.
  Lemma choice_det pos ps rs : Forall2 (fun p r => dres p pos r) ps rs ->
    forall c stk lrc cp err nf, exists f cp' err' c',
      choice_loop (fun e c stk lrc pos => parse inp rules f e c stk lrc pos) stk lrc pos ps c cp err nf =
      Ok (olist (first_some rs), cp', err', c') /\ (first_some rs <> None -> err' = None).
  Proof.
    induction 1 as [|p r ps rs Hp _ IH]; intros c stk lrc cp err nf.
    - exists 0%nat. cbn [choice_loop first_some olist]. eexists _, _, _. split; [reflexivity|congruence].
    - destruct (Hp (reg_call c) stk lrc) as (f1 & cp1 & err1 & c1 & Hp1 & Hr1).
      destruct (alt_err pos err nf err1) as [err' nf'] eqn:Ea.
      destruct r as [n|]; cbn [first_some olist] in *.
      + exists f1. cbn [choice_loop]. rewrite Hp1. cbn [bind]. rewrite Ea.
        eexists _, _, _. split; [reflexivity|reflexivity].
      + destruct (IH c1 stk lrc (set_union cp cp1) err' nf') as (f2 & cp2 & err2 & c2 & Hp2 & Hr2).
        exists (Nat.max f1 f2). cbn [choice_loop].
        rewrite (parse_lift _ _ _ _ _ _ _ _ Hp1 (Nat.le_max_l f1 f2)). cbn [bind]. rewrite Ea.
        assert (Hl : choice_loop (fun e c stk lrc pos => parse inp rules (Nat.max f1 f2) e c stk lrc pos) stk lrc pos ps c1
                       (set_union cp cp1) err' nf' = Ok (olist (first_some rs), cp2, err2, c2)).
        { rewrite <- Hp2. apply choice_loop_mono.
          - intros e0 c0 stk0 l0 p0 y Hy Hny. cbn beta in *.
            destruct (fuel_mono inp rules f2 (Nat.max f1 f2) (Nat.le_max_r f1 f2)) as [Hpm _]. exact (Hpm _ _ _ _ _ _ Hy Hny).
          - rewrite Hp2. discriminate. }
        rewrite Hl. eexists _, _, _. split; [reflexivity|exact Hr2].
  Qed.
  Lemma dres_choice pos ps rs : Forall2 (fun p r => dres p pos r) ps rs -> dres (PChoice ps) pos (first_some rs).
  Proof.
    intros H c stk lrc. destruct (choice_det pos ps rs H c stk lrc [] None None) as (f & cp & err & c' & Hp & Hr).
    exists (S f). rewrite parse_S. cbn [parse_step]. eexists _, _, _. split; [exact Hp|exact Hr].
  Qed.

  (* The sequence family on deterministic elements: the single path.  [pre] = the children so far. *)
  Inductive seq_run (q : seqinfo) : nat -> N -> list node -> option node -> Prop :=
  | SR_stop d pos pre :
      (seq_lookup (q_kind q) (q_ps q) d = None \/
       exists p, seq_lookup (q_kind q) (q_ps q) d = Some p /\ dres p pos None) ->
      seq_run q d pos pre (if seq_lencheck (q_kind q) (length (q_ps q)) d then Some (handle_result q pos pre) else None)
  | SR_step d pos pre p n out :
      seq_lookup (q_kind q) (q_ps q) d = Some p -> dres p pos (Some n) ->
      seq_run q (S d) (node_rpos n) (pre ++ [n]) out -> seq_run q d pos pre out.

  Lemma seqp_det q d pos pre out : seq_run q d pos pre out ->
    forall c stk lrc merge st, s_nodes st = rev pre -> s_res st = [] ->
    exists f stop st' c', seqp inp rules f q d c stk lrc pos merge st = Ok (stop, st', c') /\ s_res st' = olist out.
  Proof.
    induction 1 as [d pos pre Hstop|d pos pre p n out Hl Hp _ IH]; intros c stk lrc merge st Hn Hr.
    - assert (Hsub : exists f cp err c1,
                match seq_lookup (q_kind q) (q_ps q) d with
                | Some p => parse inp rules f p (reg_call c) stk lrc pos
                | None => Ok ([], [], None, c)
                end = Ok ([], cp, err, c1)).
      { destruct Hstop as [E|(p & E & Hp)]; rewrite E.
        - exists 0%nat. eexists _, _, _. reflexivity.
        - destruct (Hp (reg_call c) stk lrc) as (f & cp & err & c1 & H1 & _). exists f, cp, err, c1. exact H1. }
      destruct Hsub as (f & cp & err & c1 & Hsub). exists (S f). rewrite seqp_S. unfold seq_step.
      cbn beta. rewrite Hsub. cbn [bind].
      destruct (seq_lencheck (q_kind q) (length (q_ps q)) d); cbn [s_nodes s_res olist].
      + rewrite Hn, rev_involutive, Hr. cbn [append_node].
        destruct (rev pre); eexists _, _, _; (split; [reflexivity|reflexivity]).
      + eexists _, _, _. split; [reflexivity|exact Hr].
    - destruct (Hp (reg_call c) stk lrc) as (f1 & cp1 & err1 & c1 & Hp1 & He1).
      set (st1 := {| s_cp := if merge then set_union (s_cp st) cp1 else s_cp st; s_res := s_res st;
                     s_err := keep_max (s_err st) err1; s_nodes := s_nodes st |}).
      set (stn := {| s_cp := s_cp st1; s_res := s_res st1; s_err := s_err st1; s_nodes := n :: s_nodes st1 |}).
      destruct (IH c1 stk (if pos <? node_rpos n then [] else lrc) (if pos <? node_rpos n then false else merge) stn)
        as (f2 & stop & st' & c' & Hs2 & Hres).
      { cbn [stn st1 s_nodes]. rewrite Hn, rev_app_distr. reflexivity. }
      { exact Hr. }
      exists (S (Nat.max f1 f2)). rewrite seqp_S. unfold seq_step. cbn beta. rewrite Hl.
      rewrite (parse_lift _ _ _ _ _ _ _ _ Hp1 (Nat.le_max_l f1 f2)). cbn [bind olist]. fold st1.
      cbn [alts_loop]. cbn beta. fold stn.
      match goal with |- context [bind ?o _] =>
        replace o with (@Ok sres (stop, st', c')) by (symmetry; exact (seqp_lift _ _ _ _ _ _ _ _ _ _ _ Hs2 (Nat.le_max_r f1 f2))) end.
      cbn [bind].
      destruct stop; eexists _, _, _; (split; [reflexivity|exact Hres]).
  Qed.
  Lemma dres_seq k ip single ps pos out :
    seq_run {| q_kind := k; q_ip := ip; q_single := single; q_ps := ps |} 0%nat pos [] out ->
    dres (PSeq k ip single None ps) pos out.
  Proof.
    intros H c stk lrc.
    destruct (seqp_det _ _ _ _ _ H c stk lrc true {| s_cp := []; s_res := []; s_err := None; s_nodes := [] |} eq_refl eq_refl)
      as (f & stop & st' & c' & Hs & Hres).
    exists (S f). rewrite parse_S. cbn [parse_step]. cbn beta. rewrite Hs. cbn [bind]. rewrite Hres.
    destruct out; cbn [olist]; eexists _, _, _; (split; [reflexivity|congruence]).
  Qed.
End Det.

(* ================================================================== *)
(* 2. The engine's whitespace and terminals on the bytes behind a position *)

Lemma cf_lexeme_ok : cf_ok cf_lexeme.
Proof. intros lex. unfold cf_lexeme. destruct (float_overflow lex); split; intros H; congruence. Qed.

(* ---- evaluation of the nodes: the local loops of Top.eval_node as top-level functions ---- *)
Fixpoint evens_of (l : list node) (take : bool) {struct l} : outcome (list Top.value + perr) :=
  match l with
  | [] => Ok (inl [])
  | c :: t =>
    if take then
      match eval_node c with
      | Ok (inl v) => match evens_of t false with Ok (inl vs) => Ok (inl (v :: vs)) | o => o end
      | Ok (inr e) => Ok (inr e)
      | Panic => Panic
      | OutOfFuel => OutOfFuel
      end
    else evens_of t true
  end.
Fixpoint object_of (l : list node) (take : bool) (acc : list (list N * Top.value)) {struct l} : vres :=
  match l with
  | [] => Ok (inl (ValMap acc))
  | kv :: t =>
    if take then
      match kv with
      | NNonTerm _ _ (k :: _ :: v :: _) _ _ =>
        match eval_node k with
        | Ok (inl kval) =>
          match eval_node v with
          | Ok (inl vval) =>
            match kval with
            | ValLit (VStr s) => object_of t false (map_put s vval acc)
            | _ => Panic
            end
          | Ok (inr e) => Ok (inr e)
          | Panic => Panic
          | OutOfFuel => OutOfFuel
          end
        | Ok (inr e) => Ok (inr e)
        | Panic => Panic
        | OutOfFuel => OutOfFuel
        end
      | _ => Panic
      end
    else object_of t true acc
  end.
Lemma eval_array_unfold tok cs p r :
  eval_node (NNonTerm tok IArray cs p r) =
  match evens_of cs true with Ok (inl vs) => Ok (inl (ValList vs)) | Ok (inr e) => Ok (inr e) | Panic => Panic | OutOfFuel => OutOfFuel end.
Proof. reflexivity. Qed.
Lemma eval_object_unfold tok cs p r : eval_node (NNonTerm tok IObject cs p r) = object_of cs true [].
Proof. reflexivity. Qed.
Lemma eval_select0 tok a l p r : eval_node (NNonTerm tok (ISelect 0) (a :: l) p r) = eval_node a.
Proof. reflexivity. Qed.
Lemma eval_select1 tok a b l p r : eval_node (NNonTerm tok (ISelect 1) (a :: b :: l) p r) = eval_node b.
Proof. reflexivity. Qed.
Lemma eval_set_rpos n r v : eval_node n = Ok (inl v) -> eval_node (set_rpos n r) = Ok (inl v).
Proof. destruct n; try exact (fun H => H). discriminate. Qed.

Section Sim.
  Variable inp : input.
  Hypothesis Hoff : 1 <= i_offset inp.
  Hypothesis Hbytes : bytes_ok (i_data inp).
  Hypothesis Hcf : cf_ok (i_cf inp).
  Notation rules := json_rules.
  Notation dres := (dres inp json_rules).
  Notation seq_run := (seq_run inp json_rules).

  Definition sfx (pos : N) : list N := Reader.suffix (i_data inp) (pos - i_offset inp).
  Definition infile (pos : N) : Prop := i_offset inp <= pos /\ pos <= i_offset inp + i_len inp.
  (* a node ends inside the file, [r] are the bytes behind it, and it is not an end-of-input node *)
  Definition at_end (n : node) (r : list N) : Prop :=
    infile (node_rpos n) /\ sfx (node_rpos n) = r /\ (forall q, n <> NEnd q).

  Lemma len_sfx pos : infile pos -> len_N (sfx pos) = i_offset inp + i_len inp - pos.
  Proof. intros [H1 H2]. unfold sfx. rewrite LiteralProofs.len_suffix. unfold i_len. lia. Qed.
  Lemma sfx_add pos n : i_offset inp <= pos -> sfx (pos + n) = Literals.drop n (sfx pos).
  Proof.
    intros H. unfold sfx. replace (pos + n - i_offset inp) with (pos - i_offset inp + n) by lia.
    apply LiteralProofs.suffix_drop.
  Qed.
  Lemma infile_add pos n : infile pos -> n <= len_N (sfx pos) -> infile (pos + n).
  Proof. intros Hp Hn. rewrite (len_sfx pos Hp) in Hn. destruct Hp as [H1 H2]. split; lia. Qed.
  Lemma infile_tf pos : infile pos -> TermFacts.in_file_inp inp pos.
  Proof. intros H. exact H. Qed.
  Lemma byte_at_sfx pos : byte_at inp pos = hd_error (sfx pos).
  Proof. unfold byte_at, sfx. apply LiteralProofs.suffix_nth. Qed.
  Lemma is_eof_sfx pos : infile pos -> is_eof inp pos = match sfx pos with [] => true | _ => false end.
  Proof.
    intros Hp. pose proof (len_sfx pos Hp) as Hl. destruct Hp as [H1 H2]. unfold is_eof.
    destruct (sfx pos) as [|b t].
    - rewrite LiteralProofs.len_N_nil in Hl. apply N.leb_le. lia.
    - rewrite LiteralProofs.len_N_cons in Hl. apply N.leb_gt. lia.
  Qed.

  (* Reader.SkipWhitespaces of the engine model = the run functions of Reader.v on the bytes behind pos *)
  Lemma gskip pos m : infile pos ->
    skip_ws inp pos m =
    (pos + Reader.ws_run (sfx pos),
     Trim.mode_check m (Trim.spec_run inp pos)) /\
    (m = WsSpacesNl -> Trim.mode_check m (Trim.spec_run inp pos) = None) /\
    (m = WsSpaces -> (Trim.mode_check m (Trim.spec_run inp pos) = None <-> Reader.ws_first_nl (sfx pos) = None)).
  Proof.
    intros [H1 H2]. rewrite TrimProofs.skip_ws_spec by lia.
    unfold Trim.spec_run, Trim.run_at, Trim.mode_check, Trim.mode_ok. cbn [Trim.w_end Trim.w_nl Trim.w_start].
    change (Trim.rest inp pos) with (sfx pos). rewrite <- TrimProofs.reader_ws_run, <- TrimProofs.reader_first_nl.
    split; [reflexivity|]. split; [intros ->; reflexivity|]. intros ->.
    destruct (Reader.ws_first_nl (sfx pos)); split; intros H; congruence.
  Qed.
  Lemma ws_run_le s : Reader.ws_run s <= len_N s.
  Proof. rewrite ws_run_span. apply LiteralProofs.span_le. Qed.
  Lemma skipped pos : infile pos ->
    infile (pos + Reader.ws_run (sfx pos)) /\ sfx (pos + Reader.ws_run (sfx pos)) = JsonSpec.skip_ws (sfx pos).
  Proof.
    intros Hp. split; [apply infile_add; [exact Hp|apply ws_run_le]|]. rewrite sfx_add by apply Hp. reflexivity.
  Qed.
  Lemma dres_ltrim_nl p pos r : infile pos -> dres p (pos + Reader.ws_run (sfx pos)) r ->
    dres (PLeftTrim WsSpacesNl p) pos r.
  Proof.
    intros Hp H. destruct (gskip pos WsSpacesNl Hp) as (Hs & Hnl & _). rewrite (Hnl eq_refl) in Hs.
    exact (dres_ltrim inp json_rules WsSpacesNl p pos _ None r Hs H).
  Qed.

  (* terminal.Rune *)
  Lemma rune_sim c pos : infile pos ->
    match sfx pos with
    | b :: t => if b =? c
                then dres (PTerm (TRune c)) pos (Some (NTerm [c] (VRune c) pos (pos + 1))) /\
                     infile (pos + 1) /\ sfx (pos + 1) = t
                else dres (PTerm (TRune c)) pos None
    | [] => dres (PTerm (TRune c)) pos None
    end.
  Proof.
    intros Hp. pose proof (byte_at_sfx pos) as Hb. pose proof (sfx_add pos 1 (proj1 Hp)) as Ha.
    pose proof (infile_add pos 1 Hp) as Hi.
    destruct (sfx pos) as [|b t]; cbn [hd_error] in Hb.
    - apply (dres_term inp json_rules (TRune c) pos None (Some (mk_err pos (CNotFound (quote_rune c)))));
        [unfold term_parse; rewrite Hb; reflexivity|congruence].
    - destruct (b =? c) eqn:E.
      + split; [|split].
        * apply (dres_term inp json_rules (TRune c) pos (Some (NTerm [c] (VRune c) pos (pos + 1))) None);
            [unfold term_parse; rewrite Hb, E; reflexivity|reflexivity].
        * apply Hi. rewrite LiteralProofs.len_N_cons. lia.
        * rewrite Ha. apply LiteralProofs.drop_1.
      + apply (dres_term inp json_rules (TRune c) pos None (Some (mk_err pos (CNotFound (quote_rune c)))));
          [unfold term_parse; rewrite Hb, E; reflexivity|congruence].
  Qed.

  (* LeftTrim(Rune(c), WsSpacesNl) = close_byte;  LeftTrim(Rune(c), WsSpaces) = sep_byte *)
  Lemma close_sim c pos : infile pos ->
    match close_byte c (sfx pos) with
    | Some r => exists n, dres (PLeftTrim WsSpacesNl (PTerm (TRune c))) pos (Some n) /\ at_end n r
    | None => dres (PLeftTrim WsSpacesNl (PTerm (TRune c))) pos None
    end.
  Proof.
    intros Hp. destruct (skipped pos Hp) as [Hi Hs]. pose proof (rune_sim c _ Hi) as Hr. rewrite Hs in Hr.
    unfold close_byte. destruct (JsonSpec.skip_ws (sfx pos)) as [|b t].
    - apply dres_ltrim_nl; assumption.
    - destruct (b =? c).
      + destruct Hr as (Hd & Hi1 & Hs1). eexists. split; [apply dres_ltrim_nl; [exact Hp|exact Hd]|].
        split; [exact Hi1|]. split; [exact Hs1|discriminate].
      + apply dres_ltrim_nl; assumption.
  Qed.
  Lemma sep_sim c pos : infile pos ->
    match sep_byte c (sfx pos) with
    | Some r => exists n, dres (PLeftTrim WsSpaces (PTerm (TRune c))) pos (Some n) /\ at_end n r
    | None => dres (PLeftTrim WsSpaces (PTerm (TRune c))) pos None
    end.
  Proof.
    intros Hp. destruct (skipped pos Hp) as [Hi Hs]. pose proof (rune_sim c _ Hi) as Hr. rewrite Hs in Hr.
    destruct (gskip pos WsSpaces Hp) as (Hk & _ & Hsp). specialize (Hsp eq_refl).
    set (w := Trim.mode_check WsSpaces (Trim.spec_run inp pos)) in *.
    assert (Hfail : forall r, dres (PTerm (TRune c)) (pos + Reader.ws_run (sfx pos)) r -> w <> None \/ r = None ->
                              dres (PLeftTrim WsSpaces (PTerm (TRune c))) pos None).
    { intros r Hd Hw. pose proof (dres_ltrim inp json_rules WsSpaces _ pos _ w r Hk Hd) as H.
      destruct w; [exact H|]. destruct Hw as [Hw| ->]; [congruence|exact H]. }
    unfold sep_byte. destruct (Reader.ws_first_nl (sfx pos)) as [k|] eqn:En.
    - assert (Hw : w <> None) by (intros E; apply Hsp in E; discriminate).
      destruct (JsonSpec.skip_ws (sfx pos)) as [|b t]; [exact (Hfail _ Hr (or_introl Hw))|].
      destruct (b =? c); [destruct Hr as (Hd & _)|]; eapply Hfail; eauto.
    - assert (Hw : w = None) by (apply Hsp; reflexivity).
      destruct (JsonSpec.skip_ws (sfx pos)) as [|b t]; [exact (Hfail _ Hr (or_intror eq_refl))|].
      destruct (b =? c).
      + destruct Hr as (Hd & Hi1 & Hs1). eexists. split.
        * pose proof (dres_ltrim inp json_rules WsSpaces _ pos _ w _ Hk Hd) as H. rewrite Hw in H. exact H.
        * split; [exact Hi1|]. split; [exact Hs1|discriminate].
      + exact (Hfail _ Hr (or_intror eq_refl)).
  Qed.

  (* the literal terminals: the engine's node is the C08 specification's literal *)
  Lemma lit_sim l pos : lit_domain l = true -> infile pos ->
    match Literals.lit_spec (i_cf inp) (i_cd inp) l (sfx pos) with
    | Literals.SNode k lv =>
      dres (PTerm (TLit l)) pos (Some (NTerm (Literals.lit_token l) (lval_of lv) pos (pos + k))) /\
      infile (pos + k) /\ sfx (pos + k) = Literals.drop k (sfx pos)
    | Literals.SErr _ _ => dres (PTerm (TLit l)) pos None
    end.
  Proof.
    intros Hd Hp. pose proof (TermFacts.term_parse_lit_spec inp l pos Hd Hbytes Hp) as H.
    destruct (term_parse inp (TLit l) pos) as [ns err] eqn:E.
    destruct ns as [|[tok v p r|?|?|? ? ? ? ?] [|? ?]]; destruct err as [e|]; try contradiction.
    - destruct H as (_ & _ & nf & Hs & _). fold (sfx pos) in Hs. rewrite Hs.
      apply (dres_term inp json_rules (TLit l) pos None (Some e)); [exact E|congruence].
    - destruct H as (-> & -> & Hlt & Hle & lv & Hs & ->). fold (sfx pos) in Hs. rewrite Hs.
      replace (pos + (r - pos)) with r by lia. split; [|split].
      + apply (dres_term inp json_rules (TLit l) pos (Some _) None); [exact E|reflexivity].
      + destruct Hp as [H1 H2]. split; [lia|exact Hle].
      + replace r with (pos + (r - pos)) at 1 by lia. apply sfx_add. apply Hp.
  Qed.
  (* ---------------------------------------------------------------- *)
  (* the five literal alternatives of [value] against the tok_* functions of the specification *)

  Notation cv := (to_engine (i_cf inp)).
  Definition good (n : node) (v : JsonSpec.value) (r : list N) : Prop :=
    eval_node n = Ok (inl (cv v)) /\ at_end n r.

  Lemma spec_string_shape bq s n lv : Literals.spec_string bq s = Literals.SNode n lv -> exists v, lv = Literals.VStr v.
  Proof.
    unfold Literals.spec_string. destruct s as [|q t]; [discriminate|].
    assert (Hq : forall q body, Literals.spec_quoted q body t = Literals.SNode n lv -> exists v, lv = Literals.VStr v).
    { intros q0 body. unfold Literals.spec_quoted. destruct (Literals.starts_with_byte q0 t).
      - intros H. inversion H. eexists. reflexivity.
      - destruct (body t) as [v m]. destruct (Literals.starts_with_byte q0 (Literals.drop m t)); [|discriminate].
        intros H. inversion H. eexists. reflexivity. }
    destruct (q =? 34); [apply Hq|]. destruct (bq && (q =? 96)); [apply Hq|discriminate].
  Qed.

  Lemma string_sim pos : infile pos ->
    match tok_string false (sfx pos) with
    | Some (v, r) => exists n, dres j_string pos (Some n) /\ eval_node n = Ok (inl (ValLit (VStr v))) /\ at_end n r
    | None => dres j_string pos None
    end.
  Proof.
    intros Hp. pose proof (lit_sim (LString false) pos eq_refl Hp) as H. cbn [Literals.lit_spec] in H.
    unfold tok_string. destruct (Literals.spec_string false (sfx pos)) as [k lv|a nf] eqn:E; [|exact H].
    destruct (spec_string_shape _ _ _ _ E) as [v ->]. cbn [andb]. destruct H as (Hd & Hi & Hs).
    eexists. split; [exact Hd|]. split; [reflexivity|]. split; [exact Hi|]. split; [exact Hs|discriminate].
  Qed.

  Lemma float_sim pos : infile pos ->
    match tok_float false (sfx pos) with
    | Some (v, r) => exists n, dres j_float pos (Some n) /\ good n v r
    | None => dres j_float pos None
    end.
  Proof.
    intros Hp. pose proof (lit_sim LFloat pos eq_refl Hp) as H. cbn [Literals.lit_spec] in H.
    unfold tok_float. unfold Literals.spec_float in *. destruct (Literals.float_lexeme (sfx pos)) as [k|]; [|exact H].
    unfold conv_range. destruct (Hcf (Literals.take k (sfx pos))) as [H1 H2].
    destruct (i_cf inp (Literals.take k (sfx pos))) as [b|] eqn:Eb; destruct (float_overflow (Literals.take k (sfx pos))) eqn:Eo;
      try (specialize (H2 eq_refl); discriminate); try (specialize (H1 eq_refl); discriminate).
    - cbn [andb]. destruct H as (Hd & Hi & Hs). eexists. split; [exact Hd|]. split.
      + cbn [eval_node lval_of to_engine]. rewrite Eb. reflexivity.
      + split; [exact Hi|]. split; [exact Hs|discriminate].
    - exact H.
  Qed.

  Lemma spec_integer_shape s n lv : Literals.spec_integer s = Literals.SNode n lv -> exists z, lv = Literals.VInt z.
  Proof.
    unfold Literals.spec_integer. destruct (Literals.int_lexeme s); [|discriminate].
    destruct (Literals.starts_with_byte 46 _); [discriminate|]. destruct (Literals.parse_int_base0 _); [|discriminate].
    intros H. inversion H. eexists. reflexivity.
  Qed.
  Lemma integer_sim pos : infile pos ->
    match tok_integer false (sfx pos) with
    | Some (v, r) => exists n, dres j_integer pos (Some n) /\ good n v r
    | None => dres j_integer pos None
    end.
  Proof.
    intros Hp. pose proof (lit_sim LInteger pos eq_refl Hp) as H. cbn [Literals.lit_spec] in H.
    unfold tok_integer. destruct (Literals.spec_integer (sfx pos)) as [k lv|a nf] eqn:E; [|exact H].
    destruct (spec_integer_shape _ _ _ E) as [z ->]. cbn [andb]. destruct H as (Hd & Hi & Hs).
    eexists. split; [exact Hd|]. split; [reflexivity|]. split; [exact Hi|]. split; [exact Hs|discriminate].
  Qed.
  Lemma bool_sim pos : infile pos ->
    match tok_bool (sfx pos) with
    | Some (v, r) => exists n, dres j_bool pos (Some n) /\ good n v r
    | None => dres j_bool pos None
    end.
  Proof.
    intros Hp. pose proof (lit_sim (LBool w_true w_false) pos eq_refl Hp) as H. cbn [Literals.lit_spec] in H.
    unfold tok_bool. unfold Literals.spec_bool in *.
    destruct (Literals.word_at w_true (sfx pos)).
    - destruct H as (Hd & Hi & Hs). eexists. split; [exact Hd|]. split; [reflexivity|]. split; [exact Hi|]. split; [exact Hs|discriminate].
    - destruct (Literals.word_at w_false (sfx pos)); [|exact H].
      destruct H as (Hd & Hi & Hs). eexists. split; [exact Hd|]. split; [reflexivity|]. split; [exact Hi|]. split; [exact Hs|discriminate].
  Qed.
  Lemma null_sim pos : infile pos ->
    match tok_null (sfx pos) with
    | Some (v, r) => exists n, dres j_null pos (Some n) /\ good n v r
    | None => dres j_null pos None
    end.
  Proof.
    intros Hp. pose proof (lit_sim (LNil w_null) pos eq_refl Hp) as H. cbn [Literals.lit_spec] in H.
    unfold tok_null. unfold Literals.spec_nil in *.
    destruct (Literals.word_at w_null (sfx pos)); [|exact H].
    destruct H as (Hd & Hi & Hs). eexists. split; [exact Hd|]. split; [reflexivity|]. split; [exact Hi|]. split; [exact Hs|discriminate].
  Qed.
  (* ---------------------------------------------------------------- *)
  (* SepBy(LeftTrim(item, WsSpacesNl), LeftTrim(',', WsSpaces)) against sep_list / sep_more *)

  Definition endof (pos0 : N) (cs : list node) : N := node_rpos (last cs (NEmpty pos0)).
  Lemma endof_snoc pos0 cs n : endof pos0 (cs ++ [n]) = node_rpos n.
  Proof. unfold endof. rewrite last_last. reflexivity. Qed.
  Lemma handle_result_anypos q p p' cs : cs <> [] -> handle_result q p cs = handle_result q p' cs.
  Proof. destruct cs as [|n ns]; [congruence|]. intros _. apply Sound.handle_result_pos. Qed.
  Lemma handle_result_shape q pos cs : q_single q = false ->
    handle_result q pos cs = NNonTerm (seq_token (q_kind q)) (q_ip q) cs
                                      (match cs with [] => pos | n :: _ => node_pos n end) (endof pos cs).
  Proof.
    intros Hs. unfold handle_result, endof. destruct cs as [|n [|m t]]; [reflexivity|rewrite Hs; reflexivity|].
    f_equal. f_equal. apply Sound.last_default.
  Qed.
  Lemma sep_byte_shorter c s r : sep_byte c s = Some r -> (length r < length s)%nat.
  Proof.
    intros H. apply sep_byte_sound in H. destruct H as (w & -> & _). rewrite app_length. cbn [length]. lia.
  Qed.
  Lemma close_byte_shorter c s r : close_byte c s = Some r -> (length r < length s)%nat.
  Proof.
    intros H. apply close_byte_sound in H. destruct H as (w & -> & _). rewrite app_length. cbn [length]. lia.
  Qed.
  Lemma skip_ws_shorter s : (length (JsonSpec.skip_ws s) <= length s)%nat.
  Proof. destruct (skip_ws_split s) as (w & H & _). rewrite H at 2. rewrite app_length. lia. Qed.
  Lemma mod2_S d : (d mod 2 = 1 -> S d mod 2 = 0)%nat.
  Proof. intros H. pose proof (Nat.div_mod_eq d 2). pose proof (Nat.div_mod_eq (S d) 2). pose proof (Nat.mod_upper_bound (S d) 2). lia. Qed.
  Lemma mod2_SS d : (S (S d) mod 2 = d mod 2)%nat.
  Proof. replace (S (S d)) with (d + 1 * 2)%nat by lia. apply Nat.mod_add. discriminate. Qed.

  Section SepSim.
    Context {A : Type}.
    Variable item : list N -> option (A * list N).
    Variable ie : pexpr.
    Variable ip : interp.
    Variable G : node -> A -> Prop.
    Variable bound : nat.
    Hypothesis item_ok : forall pos, infile pos -> (length (sfx pos) < bound)%nat ->
      match item (JsonSpec.skip_ws (sfx pos)) with
      | Some (a, r) => exists n, dres ie pos (Some n) /\ G n a /\ at_end n r /\ (length r <= length (sfx pos))%nat
      | None => dres ie pos None
      end.
    Definition sq : seqinfo := {| q_kind := SSepBy true; q_ip := ip; q_single := false; q_ps := [ie; j_comma] |}.

    (* children behind the first item: separator, item, separator, item ... *)
    Inductive alt_more : list A -> list node -> Prop :=
    | AM_nil : alt_more [] []
    | AM_cons a l s n cs : G n a -> alt_more l cs -> alt_more (a :: l) (s :: n :: cs).
    Inductive alt_list : list A -> list node -> Prop :=
    | AL_nil : alt_list [] []
    | AL_cons a l n cs : G n a -> alt_more l cs -> alt_list (a :: l) (n :: cs).

    Lemma sq_lookup d : seq_lookup (q_kind sq) (q_ps sq) d = nth_error [ie; j_comma] (d mod 2).
    Proof. reflexivity. Qed.

    Lemma more_sim pos0 : forall fuel pre d pos,
      pos = endof pos0 pre -> length pre = d -> (d mod 2 = 1)%nat -> infile pos ->
      (length (sfx pos) < fuel)%nat -> (length (sfx pos) < bound)%nat ->
      match sep_more item fuel (sfx pos) with
      | Some (l, r) => exists cs, alt_more l cs /\
                                  seq_run sq d pos pre (Some (handle_result sq pos0 (pre ++ cs))) /\
                                  infile (endof pos0 (pre ++ cs)) /\ sfx (endof pos0 (pre ++ cs)) = r /\
                                  (length r <= length (sfx pos))%nat
      | None => seq_run sq d pos pre None
      end.
    Proof.
      induction fuel as [|fuel IH]; intros pre d pos Hpos Hlen Hd Hin Hf Hb; [lia|].
      assert (Hne : pre <> []) by (intros ->; cbn in Hlen; subst d; cbn in Hd; discriminate).
      cbn [sep_more]. pose proof (sep_sim 44 pos Hin) as Hsep.
      assert (Hl1 : seq_lookup (q_kind sq) (q_ps sq) d = Some j_comma) by (rewrite sq_lookup, Hd; reflexivity).
      assert (Hc1 : seq_lencheck (q_kind sq) (length (q_ps sq)) d = true).
      { cbn [sq q_kind q_ps seq_lencheck length]. rewrite Hd. apply orb_true_r. }
      destruct (sep_byte 44 (sfx pos)) as [r1|] eqn:Es.
      2:{ exists []. split; [constructor|]. rewrite app_nil_r. split; [|split; [|split]].
          - pose proof (SR_stop inp json_rules sq d pos pre (or_intror (ex_intro _ j_comma (conj Hl1 Hsep)))) as H.
            rewrite Hc1 in H. rewrite (handle_result_anypos sq pos0 pos pre Hne). exact H.
          - rewrite <- Hpos. exact Hin.
          - rewrite <- Hpos. reflexivity.
          - lia. }
      destruct Hsep as (ns & Hdn & Hi1 & Hs1 & Hne1). pose proof (sep_byte_shorter _ _ _ Es) as Hsh1.
      assert (Hl2 : seq_lookup (q_kind sq) (q_ps sq) (S d) = Some ie) by (rewrite sq_lookup, (mod2_S d Hd); reflexivity).
      assert (Hc2 : seq_lencheck (q_kind sq) (length (q_ps sq)) (S d) = false).
      { cbn [sq q_kind q_ps seq_lencheck length]. rewrite (mod2_S d Hd). reflexivity. }
      pose proof (item_ok (node_rpos ns) Hi1) as Hit. rewrite Hs1 in Hit. specialize (Hit ltac:(lia)).
      destruct (item (JsonSpec.skip_ws r1)) as [[a r2]|] eqn:Ei.
      2:{ apply (SR_step inp json_rules sq d pos pre j_comma ns None Hl1 Hdn).
          pose proof (SR_stop inp json_rules sq (S d) (node_rpos ns) (pre ++ [ns]) (or_intror (ex_intro _ ie (conj Hl2 Hit)))) as H.
          rewrite Hc2 in H. exact H. }
      destruct Hit as (n & Hdi & HG & (Hi2 & Hs2 & Hne2) & Hsh2).
      specialize (IH ((pre ++ [ns]) ++ [n]) (S (S d)) (node_rpos n)).
      rewrite Hs2 in IH.
      specialize (IH (eq_sym (endof_snoc pos0 _ n)) ltac:(rewrite !app_length; cbn [length]; lia)
                     ltac:(rewrite mod2_SS; exact Hd) Hi2 ltac:(lia) ltac:(lia)).
      destruct (sep_more item fuel r2) as [[l r3]|] eqn:Em.
      - destruct IH as (cs & Ham & Hrun & Hi3 & Hs3 & Hsh3). exists (ns :: n :: cs).
        replace (pre ++ ns :: n :: cs) with (((pre ++ [ns]) ++ [n]) ++ cs) by (rewrite <- !app_assoc; reflexivity).
        split; [constructor; assumption|]. split; [|split; [exact Hi3|split; [exact Hs3|lia]]].
        apply (SR_step inp json_rules sq d pos pre j_comma ns _ Hl1 Hdn).
        apply (SR_step inp json_rules sq (S d) (node_rpos ns) (pre ++ [ns]) ie n _ Hl2 Hdi). exact Hrun.
      - apply (SR_step inp json_rules sq d pos pre j_comma ns _ Hl1 Hdn).
        apply (SR_step inp json_rules sq (S d) (node_rpos ns) (pre ++ [ns]) ie n _ Hl2 Hdi). exact IH.
    Qed.

    Lemma list_sim pos0 : infile pos0 -> (length (sfx pos0) < bound)%nat ->
      match sep_list item (sfx pos0) with
      | Some (l, r) => exists cs, alt_list l cs /\
                                  dres (PSeq (SSepBy true) ip false None [ie; j_comma]) pos0 (Some (handle_result sq pos0 cs)) /\
                                  infile (endof pos0 cs) /\ sfx (endof pos0 cs) = r /\ (length r <= length (sfx pos0))%nat
      | None => dres (PSeq (SSepBy true) ip false None [ie; j_comma]) pos0 None
      end.
    Proof.
      intros Hin Hb. unfold sep_list. pose proof (item_ok pos0 Hin Hb) as Hit.
      assert (Hl0 : seq_lookup (q_kind sq) (q_ps sq) 0%nat = Some ie) by reflexivity.
      destruct (item (JsonSpec.skip_ws (sfx pos0))) as [[a r]|] eqn:Ei.
      2:{ exists []. split; [constructor|]. split; [|split; [exact Hin|split; [reflexivity|lia]]].
          apply (dres_seq inp json_rules (SSepBy true) ip false [ie; j_comma] pos0).
          exact (SR_stop inp json_rules sq 0%nat pos0 [] (or_intror (ex_intro _ ie (conj Hl0 Hit)))). }
      destruct Hit as (n & Hdi & HG & (Hi1 & Hs1 & Hne1) & Hsh1).
      pose proof (more_sim pos0 (S (length r)) [n] 1%nat (node_rpos n) eq_refl eq_refl eq_refl Hi1) as Hm.
      rewrite Hs1 in Hm. specialize (Hm ltac:(lia) ltac:(lia)).
      destruct (sep_more item (S (length r)) r) as [[l r']|].
      - destruct Hm as (cs & Ham & Hrun & Hi2 & Hs2 & Hsh2). exists (n :: cs).
        split; [constructor; assumption|]. split; [|split; [exact Hi2|split; [exact Hs2|lia]]].
        apply (dres_seq inp json_rules (SSepBy true) ip false [ie; j_comma] pos0).
        exact (SR_step inp json_rules sq 0%nat pos0 [] ie n _ Hl0 Hdi Hrun).
      - apply (dres_seq inp json_rules (SSepBy true) ip false [ie; j_comma] pos0).
        exact (SR_step inp json_rules sq 0%nat pos0 [] ie n _ Hl0 Hdi Hm).
    Qed.
  End SepSim.
  (* ---------------------------------------------------------------- *)
  (* 3. The simulation of [value], by induction on the specification's nesting fuel *)

  Definition pvk (k : nat) : list N -> option (JsonSpec.value * list N) := fun x => p_value false k x.
  Definition val_ok (k : nat) : Prop := forall pos, infile pos -> (length (sfx pos) < k)%nat ->
    match p_value false k (sfx pos) with
    | Some (v, r) => exists n, dres (PRef 0) pos (Some n) /\ good n v r
    | None => dres (PRef 0) pos None
    end.
  Definition Gv (n : node) (v : JsonSpec.value) : Prop := eval_node n = Ok (inl (cv v)).
  Definition Gm (n : node) (kv : list N * JsonSpec.value) : Prop :=
    exists tok ip kn sn vn p r, n = NNonTerm tok ip [kn; sn; vn] p r /\
      eval_node kn = Ok (inl (ValLit (VStr (fst kv)))) /\ eval_node vn = Ok (inl (cv (snd kv))).

  Lemma p_value_shorter k s v r : p_value false k s = Some (v, r) -> (length r <= length s)%nat.
  Proof. intros H. apply (p_value_sound false) in H. destruct H as (lex & -> & _). rewrite app_length. lia. Qed.
  Lemma tok_string_shorter s v r : tok_string false s = Some (v, r) -> (length r <= length s)%nat.
  Proof. intros H. apply tok_string_sound in H. destruct H as (lex & -> & _). rewrite app_length. lia. Qed.

  (* LeftTrim(&value, WsSpacesNl) *)
  Lemma elem_ok k : val_ok k -> forall pos, infile pos -> (length (sfx pos) < k)%nat ->
    match pvk k (JsonSpec.skip_ws (sfx pos)) with
    | Some (a, r) => exists n, dres j_elem pos (Some n) /\ Gv n a /\ at_end n r /\ (length r <= length (sfx pos))%nat
    | None => dres j_elem pos None
    end.
  Proof.
    intros Hv pos Hp Hl. destruct (skipped pos Hp) as [Hi Hs]. pose proof (skip_ws_shorter (sfx pos)) as Hsh.
    pose proof (Hv _ Hi) as H. rewrite Hs in H. specialize (H ltac:(lia)). unfold pvk.
    destruct (p_value false k (JsonSpec.skip_ws (sfx pos))) as [[v r]|] eqn:E.
    - destruct H as (n & Hd & He & Ha). exists n. split; [apply dres_ltrim_nl; assumption|]. split; [exact He|].
      split; [exact Ha|]. apply p_value_shorter in E. lia.
    - apply dres_ltrim_nl; assumption.
  Qed.

  (* keyValue = SeqOf(String, LeftTrim(':', WsSpaces), LeftTrim(&value, WsSpacesNl)) *)
  Definition qm : seqinfo :=
    {| q_kind := SeqOf; q_ip := INone; q_single := false;
       q_ps := [j_string; PLeftTrim WsSpaces (PTerm (TRune 58)); j_elem] |}.
  Lemma member_sim k : val_ok k -> forall pos, infile pos -> (length (sfx pos) < k)%nat ->
    match p_member false (pvk k) (sfx pos) with
    | Some (kv, r) => exists n, dres j_member pos (Some n) /\ Gm n kv /\ at_end n r /\ (length r <= length (sfx pos))%nat
    | None => dres j_member pos None
    end.
  Proof.
    intros Hv pos Hp Hl. unfold p_member, j_member.
    pose proof (string_sim pos Hp) as H0.
    destruct (tok_string false (sfx pos)) as [[key r0]|] eqn:E0.
    2:{ apply dres_seq. apply (SR_stop inp json_rules qm 0%nat pos []). right. exists j_string. split; [reflexivity|exact H0]. }
    destruct H0 as (kn & Hdk & Hek & Hik & Hsk & Hnk). apply tok_string_shorter in E0.
    pose proof (sep_sim 58 _ Hik) as H1. rewrite Hsk in H1.
    destruct (sep_byte 58 r0) as [r1|] eqn:E1.
    2:{ apply dres_seq. apply (SR_step inp json_rules qm 0%nat pos [] j_string kn None eq_refl Hdk).
        apply (SR_stop inp json_rules qm 1%nat (node_rpos kn) ([] ++ [kn])). right. eexists. split; [reflexivity|exact H1]. }
    destruct H1 as (sn & Hds & His & Hss & Hns). apply sep_byte_shorter in E1.
    pose proof (elem_ok k Hv _ His) as H2. rewrite Hss in H2. specialize (H2 ltac:(lia)).
    destruct (pvk k (JsonSpec.skip_ws r1)) as [[v r2]|] eqn:E2.
    2:{ apply dres_seq. apply (SR_step inp json_rules qm 0%nat pos [] j_string kn None eq_refl Hdk).
        apply (SR_step inp json_rules qm 1%nat _ _ _ sn None eq_refl Hds).
        apply (SR_stop inp json_rules qm 2%nat (node_rpos sn) (([] ++ [kn]) ++ [sn])). right. eexists. split; [reflexivity|exact H2]. }
    destruct H2 as (vn & Hdv & Hev & (Hiv & Hsv & Hnv) & Hshv).
    exists (handle_result qm (node_rpos vn) [kn; sn; vn]). split.
    { apply dres_seq. apply (SR_step inp json_rules qm 0%nat pos [] j_string kn _ eq_refl Hdk).
      apply (SR_step inp json_rules qm 1%nat _ _ _ sn _ eq_refl Hds).
      apply (SR_step inp json_rules qm 2%nat _ _ _ vn _ eq_refl Hdv).
      exact (SR_stop inp json_rules qm 3%nat (node_rpos vn) ((([] ++ [kn]) ++ [sn]) ++ [vn]) (or_introl eq_refl)). }
    rewrite (handle_result_shape qm _ _ eq_refl). split; [|split].
    - eexists _, _, kn, sn, vn, _, _. split; [reflexivity|]. split; [exact Hek|exact Hev].
    - unfold at_end, endof. cbn [last node_rpos]. split; [exact Hiv|]. split; [exact Hsv|discriminate].
    - lia.
  Qed.
  Lemma member_ok k : val_ok k -> forall pos, infile pos -> (length (sfx pos) < k)%nat ->
    match p_member false (pvk k) (JsonSpec.skip_ws (sfx pos)) with
    | Some (a, r) => exists n, dres (PLeftTrim WsSpacesNl j_member) pos (Some n) /\ Gm n a /\ at_end n r /\
                               (length r <= length (sfx pos))%nat
    | None => dres (PLeftTrim WsSpacesNl j_member) pos None
    end.
  Proof.
    intros Hv pos Hp Hl. destruct (skipped pos Hp) as [Hi Hs]. pose proof (skip_ws_shorter (sfx pos)) as Hsh.
    pose proof (member_sim k Hv _ Hi) as H. rewrite Hs in H. specialize (H ltac:(lia)).
    destruct (p_member false (pvk k) (JsonSpec.skip_ws (sfx pos))) as [[kv r]|].
    - destruct H as (n & Hd & Hg & Ha & Hr). exists n. split; [apply dres_ltrim_nl; assumption|]. split; [exact Hg|].
      split; [exact Ha|lia].
    - apply dres_ltrim_nl; assumption.
  Qed.

  (* evaluation of the SepBy nodes *)
  Lemma evens_more l cs : alt_more Gv l cs -> evens_of cs false = Ok (inl (map cv l)).
  Proof.
    induction 1 as [|a l s n cs Hg _ IH]; [reflexivity|]. cbn [evens_of map]. unfold Gv in Hg. rewrite Hg, IH. reflexivity.
  Qed.
  Lemma evens_list l cs : alt_list Gv l cs -> evens_of cs true = Ok (inl (map cv l)).
  Proof.
    destruct 1 as [|a l n cs Hg Hm]; [reflexivity|]. cbn [evens_of map]. unfold Gv in Hg. rewrite Hg, (evens_more _ _ Hm). reflexivity.
  Qed.
  Definition put_all (acc : list (list N * Top.value)) (l : list (list N * JsonSpec.value)) : list (list N * Top.value) :=
    fold_left (fun acc kv => map_put (fst kv) (snd kv) acc) (map (fun kv => match kv with (k, v') => (k, cv v') end) l) acc.
  Lemma object_step n kv t acc : Gm n kv ->
    object_of (n :: t) true acc = object_of t false (map_put (fst kv) (cv (snd kv)) acc).
  Proof.
    intros (tok & ip & kn & sn & vn & p & r & -> & Hk & Hv). cbn [object_of]. rewrite Hk, Hv. reflexivity.
  Qed.
  Lemma object_more l cs : alt_more Gm l cs -> forall acc, object_of cs false acc = Ok (inl (ValMap (put_all acc l))).
  Proof.
    induction 1 as [|a l s n cs Hg _ IH]; intros acc; [reflexivity|].
    change (object_of (s :: n :: cs) false acc) with (object_of (n :: cs) true acc).
    rewrite (object_step n a cs acc Hg), IH. destruct a as [k v]. reflexivity.
  Qed.
  Lemma object_list l cs : alt_list Gm l cs -> object_of cs true [] = Ok (inl (ValMap (put_all [] l))).
  Proof.
    destruct 1 as [|a l n cs Hg Hm]; [reflexivity|].
    rewrite (object_step n a cs [] Hg), (object_more _ _ Hm). destruct a as [k v]. reflexivity.
  Qed.

  (* array = '[' elements ']' with Select(1);  object = '{' members '}' with Select(1) *)
  Definition qa : seqinfo :=
    {| q_kind := SeqOf; q_ip := ISelect 1; q_single := false;
       q_ps := [PTerm (TRune 91); j_elems; PLeftTrim WsSpacesNl (PTerm (TRune 93))] |}.
  Definition qo : seqinfo :=
    {| q_kind := SeqOf; q_ip := ISelect 1; q_single := false;
       q_ps := [PTerm (TRune 123); j_members; PLeftTrim WsSpacesNl (PTerm (TRune 125))] |}.

  (* '[' or '{', a SepBy list, the closing byte: the common shape *)
  Lemma bracket_sim {A} (item : list N -> option (A * list N)) (ie : pexpr) (ip : interp) (G : node -> A -> Prop)
        (ob cb : N) (mk : list A -> JsonSpec.value) (q : seqinfo) k pos :
    q = {| q_kind := SeqOf; q_ip := ISelect 1; q_single := false;
           q_ps := [PTerm (TRune ob); PSeq (SSepBy true) ip false None [ie; j_comma]; PLeftTrim WsSpacesNl (PTerm (TRune cb))] |} ->
    (forall pos, infile pos -> (length (sfx pos) < k)%nat ->
      match item (JsonSpec.skip_ws (sfx pos)) with
      | Some (a, r) => exists n, dres ie pos (Some n) /\ G n a /\ at_end n r /\ (length r <= length (sfx pos))%nat
      | None => dres ie pos None
      end) ->
    (forall l cs tok p r, alt_list G l cs -> eval_node (NNonTerm tok ip cs p r) = Ok (inl (cv (mk l)))) ->
    infile pos -> (length (sfx pos) <= k)%nat ->
    match on_head ob (sfx pos) (fun t =>
            match sep_list item t with
            | Some (l, r) => match close_byte cb r with Some r' => Some (mk l, r') | None => None end
            | None => None
            end) with
    | Some (v, r) => exists n, dres (PSeq SeqOf (ISelect 1) false None (q_ps q)) pos (Some n) /\ good n v r
    | None => dres (PSeq SeqOf (ISelect 1) false None (q_ps q)) pos None
    end.
  Proof.
    intros -> Hitem Heval Hp Hl. cbn [q_ps].
    set (q := {| q_kind := SeqOf; q_ip := ISelect 1; q_single := false;
                 q_ps := [PTerm (TRune ob); PSeq (SSepBy true) ip false None [ie; j_comma]; PLeftTrim WsSpacesNl (PTerm (TRune cb))] |}).
    pose proof (rune_sim ob pos Hp) as H0. unfold on_head.
    destruct (sfx pos) as [|b t] eqn:Es.
    { apply dres_seq. fold q. apply (SR_stop inp json_rules q 0%nat pos []). right. eexists. split; [reflexivity|exact H0]. }
    destruct (b =? ob) eqn:Eb.
    2:{ apply dres_seq. fold q. apply (SR_stop inp json_rules q 0%nat pos []). right. eexists. split; [reflexivity|exact H0]. }
    destruct H0 as (Hd0 & Hi0 & Hs0). set (n0 := NTerm [ob] (VRune ob) pos (pos + 1)) in *.
    assert (Hlt : (length (sfx (pos + 1)) < k)%nat) by (rewrite Hs0; cbn [length] in Hl; lia).
    pose proof (list_sim item ie ip G k Hitem (pos + 1) Hi0 Hlt) as H1. rewrite Hs0 in H1.
    destruct (sep_list item t) as [[l r]|] eqn:El.
    2:{ apply dres_seq. fold q. apply (SR_step inp json_rules q 0%nat pos [] _ n0 None eq_refl Hd0).
        apply (SR_stop inp json_rules q 1%nat (pos + 1) ([] ++ [n0])). right. eexists. split; [reflexivity|exact H1]. }
    destruct H1 as (cs & Hal & Hd1 & Hi1 & Hs1 & Hsh1).
    set (n1 := handle_result (sq ie ip) (pos + 1) cs) in *.
    assert (Hr1 : node_rpos n1 = endof (pos + 1) cs) by (unfold n1; rewrite (handle_result_shape (sq ie ip) _ _ eq_refl); reflexivity).
    pose proof (close_sim cb _ Hi1) as H2. rewrite Hs1 in H2. rewrite <- Hr1 in H2.
    destruct (close_byte cb r) as [r'|] eqn:Ec.
    2:{ apply dres_seq. fold q. apply (SR_step inp json_rules q 0%nat pos [] _ n0 None eq_refl Hd0).
        apply (SR_step inp json_rules q 1%nat _ _ _ n1 None eq_refl Hd1).
        apply (SR_stop inp json_rules q 2%nat (node_rpos n1) (([] ++ [n0]) ++ [n1])). right. eexists. split; [reflexivity|exact H2]. }
    destruct H2 as (n2 & Hd2 & Hi2 & Hs2 & Hn2).
    exists (handle_result q (node_rpos n2) [n0; n1; n2]). split.
    { apply dres_seq. fold q. apply (SR_step inp json_rules q 0%nat pos [] _ n0 _ eq_refl Hd0).
      apply (SR_step inp json_rules q 1%nat _ _ _ n1 _ eq_refl Hd1).
      apply (SR_step inp json_rules q 2%nat _ _ _ n2 _ eq_refl Hd2).
      exact (SR_stop inp json_rules q 3%nat (node_rpos n2) ((([] ++ [n0]) ++ [n1]) ++ [n2]) (or_introl eq_refl)). }
    rewrite (handle_result_shape q _ _ eq_refl). split.
    - cbn [q q_ip]. rewrite eval_select1. unfold n1. rewrite (handle_result_shape (sq ie ip) _ _ eq_refl). cbn [sq q_ip].
      apply Heval. exact Hal.
    - unfold at_end, endof. cbn [last node_rpos]. split; [exact Hi2|]. split; [exact Hs2|discriminate].
  Qed.

  Lemma array_sim k : val_ok k -> forall pos, infile pos -> (length (sfx pos) <= k)%nat ->
    match p_array (pvk k) (sfx pos) with
    | Some (v, r) => exists n, dres j_array pos (Some n) /\ good n v r
    | None => dres j_array pos None
    end.
  Proof.
    intros Hv pos Hp Hl.
    apply (bracket_sim (pvk k) j_elem IArray Gv 91 93 JArr qa k pos eq_refl (elem_ok k Hv)); [|exact Hp|exact Hl].
    intros l cs tok p r Hal. rewrite eval_array_unfold, (evens_list _ _ Hal). reflexivity.
  Qed.
  Lemma object_sim k : val_ok k -> forall pos, infile pos -> (length (sfx pos) <= k)%nat ->
    match p_object false (pvk k) (sfx pos) with
    | Some (v, r) => exists n, dres j_object pos (Some n) /\ good n v r
    | None => dres j_object pos None
    end.
  Proof.
    intros Hv pos Hp Hl.
    apply (bracket_sim (p_member false (pvk k)) (PLeftTrim WsSpacesNl j_member) IObject Gm 123 125 JObj qo k pos eq_refl
                       (member_ok k Hv)); [|exact Hp|exact Hl].
    intros l cs tok p r Hal. rewrite eval_object_unfold, (object_list _ _ Hal). reflexivity.
  Qed.

  (* value = Choice(string, float, integer, array, object, bool, null).Name("value") *)
  Definition alt_ok (e : pexpr) (pos : N) (res : option (JsonSpec.value * list N)) : Prop :=
    exists r, dres e pos r /\
      match res with Some (v, rest) => exists n, r = Some n /\ good n v rest | None => r = None end.
  Lemma alt_ok_of e pos res :
    match res with Some (v, rest) => exists n, dres e pos (Some n) /\ good n v rest | None => dres e pos None end ->
    alt_ok e pos res.
  Proof.
    destruct res as [[v rest]|]; [intros (n & Hd & Hg); exists (Some n); split; [exact Hd|exists n; auto]|].
    intros Hd. exists None. auto.
  Qed.

  Theorem val_all : forall k, val_ok k.
  Proof.
    induction k as [|k IH]; intros pos Hp Hl; [lia|].
    set (s := sfx pos).
    assert (A1 : alt_ok j_string pos (match tok_string false s with Some (v, r) => Some (JStr v, r) | None => None end)).
    { apply alt_ok_of. pose proof (string_sim pos Hp) as H. fold s in H. destruct (tok_string false s) as [[v r]|]; [|exact H].
      destruct H as (n & Hd & He & Ha). exists n. split; [exact Hd|]. split; [exact He|exact Ha]. }
    pose proof (alt_ok_of _ _ _ (float_sim pos Hp)) as A2. pose proof (alt_ok_of _ _ _ (integer_sim pos Hp)) as A3.
    pose proof (alt_ok_of _ _ _ (array_sim k IH pos Hp ltac:(lia))) as A4.
    pose proof (alt_ok_of _ _ _ (object_sim k IH pos Hp ltac:(lia))) as A5.
    pose proof (alt_ok_of _ _ _ (bool_sim pos Hp)) as A6. pose proof (alt_ok_of _ _ _ (null_sim pos Hp)) as A7.
    fold s in A2, A3, A4, A5, A6, A7. fold (pvk k) in A4, A5.
    destruct A1 as (r1 & D1 & M1). destruct A2 as (r2 & D2 & M2). destruct A3 as (r3 & D3 & M3).
    destruct A4 as (r4 & D4 & M4). destruct A5 as (r5 & D5 & M5). destruct A6 as (r6 & D6 & M6). destruct A7 as (r7 & D7 & M7).
    assert (Hch : dres (PRef 0) pos (first_some [r1; r2; r3; r4; r5; r6; r7])).
    { apply (dres_ref inp json_rules 0 j_value); [reflexivity|]. apply dres_name. apply dres_choice.
      repeat (constructor; [assumption|]). constructor. }
    cbn [p_value]. fold s. fold (pvk k).
    destruct (tok_string false s) as [[v0 r0]|].
    { destruct M1 as (n & -> & Hg). exists n. split; [exact Hch|exact Hg]. } subst r1.
    destruct (tok_float false s) as [[v0 r0]|].
    { destruct M2 as (n & -> & Hg). exists n. split; [exact Hch|exact Hg]. } subst r2.
    destruct (tok_integer false s) as [[v0 r0]|].
    { destruct M3 as (n & -> & Hg). exists n. split; [exact Hch|exact Hg]. } subst r3.
    destruct (p_array (pvk k) s) as [[v0 r0]|].
    { destruct M4 as (n & -> & Hg). exists n. split; [exact Hch|exact Hg]. } subst r4.
    destruct (p_object false (pvk k) s) as [[v0 r0]|].
    { destruct M5 as (n & -> & Hg). exists n. split; [exact Hch|exact Hg]. } subst r5.
    destruct (tok_bool s) as [[v0 r0]|].
    { destruct M6 as (n & -> & Hg). exists n. split; [exact Hch|exact Hg]. } subst r6.
    destruct (tok_null s) as [[v0 r0]|].
    { destruct M7 as (n & -> & Hg). exists n. split; [exact Hch|exact Hg]. } subst r7.
    exact Hch.
  Qed.
End Sim.

(* ================================================================== *)
(* 4. The document and parsley.Evaluate                                *)

Lemma node_rpos_set n e : (forall q, n <> NEnd q) -> node_rpos (set_rpos n e) = e.
Proof. destruct n; intros H; try reflexivity. exfalso. eapply H. reflexivity. Qed.

Section Doc.
  Variable cf : list N -> option N.
  Hypothesis Hcf : cf_ok cf.
  Variable raw : list N.
  Hypothesis Hraw : bytes_ok raw.
  Let inp := json_input cf raw.
  Let s := normalize raw.
  Let Hoff : 1 <= i_offset inp := N.le_refl 1.
  Let Hbytes : bytes_ok (i_data inp) := ReaderProofs.normalize_bytes_ok raw Hraw.

  Definition qs : seqinfo :=
    {| q_kind := SeqOf; q_ip := ISelect 0; q_single := false;
       q_ps := [PRightTrim WsSpacesNl (PLeftTrim WsSpacesNl (PRef 0)); PEnd] |}.

  Lemma doc_dres :
    match spec_parse raw with
    | Some v => exists n, dres inp json_rules json_root 1 (Some n) /\ eval_node n = Ok (inl (to_engine cf v))
    | None => dres inp json_rules json_root 1 None
    end.
  Proof.
    assert (Hin1 : infile inp 1).
    { split; [apply N.le_refl|]. cbn [inp json_input i_offset]. lia. }
    assert (Hs1 : sfx inp 1 = s) by reflexivity.
    destruct (skipped inp Hoff 1 Hin1) as [Hip Hsp]. rewrite Hs1 in Hip, Hsp.
    pose proof (val_all inp Hoff Hbytes Hcf (S (length s)) _ Hip) as Hv. rewrite Hsp in Hv.
    assert (Hsh : (length (JsonSpec.skip_ws s) <= length s)%nat).
    { destruct (skip_ws_split s) as (w & Hw & _). rewrite Hw at 2. rewrite app_length. apply Nat.le_add_l. }
    specialize (Hv (proj2 (Nat.lt_succ_r _ _) Hsh)).
    unfold spec_parse, parse_doc. fold s. unfold json_root, sentence.
    set (X := PRightTrim WsSpacesNl (PLeftTrim WsSpacesNl (PRef 0))).
    destruct (p_value false (S (length s)) (JsonSpec.skip_ws s)) as [[v r]|].
    2:{ assert (Hx : dres inp json_rules X 1 None).
        { apply (dres_rtrim_nl inp json_rules _ 1 None); [|discriminate].
          apply (dres_ltrim_nl inp Hoff); [exact Hin1|]. rewrite Hs1. exact Hv. }
        apply dres_seq. apply (SR_stop inp json_rules qs 0%nat 1 []). right. exists X. split; [reflexivity|exact Hx]. }
    destruct Hv as (n & Hd & He & Hi & Hsr & Hne).
    destruct (skipped inp Hoff _ Hi) as [Hie Hse]. rewrite Hsr in Hie, Hse.
    destruct (gskip inp Hoff (node_rpos n) WsSpacesNl Hi) as (Hk & _). rewrite Hsr in Hk.
    set (e := node_rpos n + Reader.ws_run r) in *.
    assert (Hx : dres inp json_rules X 1 (Some (set_rpos n e))).
    { pose proof (dres_rtrim_nl inp json_rules (PLeftTrim WsSpacesNl (PRef 0)) 1 (Some n)) as H.
      cbn beta iota in H. rewrite Hk in H. cbn [fst] in H. apply H.
      - apply (dres_ltrim_nl inp Hoff); [exact Hin1|]. rewrite Hs1. exact Hd.
      - intros n0 q E. inversion E; subst n0. apply Hne. }
    assert (Hre : node_rpos (set_rpos n e) = e) by (apply node_rpos_set; exact Hne).
    pose proof (dres_end inp json_rules e) as Hend. rewrite (is_eof_sfx inp Hoff e Hie), Hse in Hend.
    destruct (JsonSpec.skip_ws r) as [|b t].
    - exists (handle_result qs e [set_rpos n e; NEnd e]). split.
      + apply dres_seq. apply (SR_step inp json_rules qs 0%nat 1 [] X (set_rpos n e) _ eq_refl Hx). rewrite Hre.
        apply (SR_step inp json_rules qs 1%nat e _ PEnd (NEnd e) _ eq_refl Hend).
        exact (SR_stop inp json_rules qs 2%nat e (([] ++ [set_rpos n e]) ++ [NEnd e]) (or_introl eq_refl)).
      + rewrite (handle_result_shape qs _ _ eq_refl). cbn [qs q_ip]. rewrite eval_select0.
        apply eval_set_rpos. exact He.
    - apply dres_seq. apply (SR_step inp json_rules qs 0%nat 1 [] X (set_rpos n e) _ eq_refl Hx). rewrite Hre.
      apply (SR_stop inp json_rules qs 1%nat e ([] ++ [set_rpos n e])). right. exists PEnd. split; [reflexivity|exact Hend].
  Qed.

  (* parsley.Evaluate on a deterministic root *)
  Lemma evaluate_dres root r : dres inp json_rules root (i_offset inp) r ->
    exists f, match r with
              | Some n => forall v, eval_node n = Ok (inl v) -> evaluate inp json_rules f root = Ok (EvValue v)
              | None => exists e, evaluate inp json_rules f root = Ok (EvParseErr e)
              end.
  Proof.
    intros H. destruct (H ctx0 [] []) as (f & cp & err & c' & Hp & Hr). exists f.
    unfold evaluate, parse_top, run. rewrite Hp. cbn [bind]. destruct r as [n|]; cbn [olist].
    - rewrite (Hr ltac:(discriminate)). intros v Hv. cbn [bind eval_result]. rewrite Hv. reflexivity.
    - destruct err as [e|]; [|destruct (cerr c')]; cbn [bind]; eexists; reflexivity.
  Qed.

  (* the answer does not depend on the fuel: less fuel can only run out *)
  Lemma evaluate_fuel root f0 x : evaluate inp json_rules f0 root = Ok x ->
    forall f, evaluate inp json_rules f root = OutOfFuel \/ evaluate inp json_rules f root = Ok x.
  Proof.
    intros H0 f. unfold evaluate, parse_top, run in *.
    destruct (parse inp json_rules f0 root ctx0 [] [] (i_offset inp)) as [y0| |] eqn:E0; try discriminate.
    destruct (Nat.le_ge_cases f0 f) as [Hle|Hle].
    - right. rewrite (parse_lift inp json_rules _ _ _ _ _ _ _ _ E0 Hle). exact H0.
    - destruct (parse inp json_rules f root ctx0 [] [] (i_offset inp)) as [y| |] eqn:E; [| |left; reflexivity].
      + right. rewrite (parse_lift inp json_rules _ _ _ _ _ _ _ _ E Hle) in E0. inversion E0; subst y0. exact H0.
      + exfalso. destruct (fuel_mono inp json_rules f f0 Hle) as [Hp _].
        rewrite (Hp _ _ _ _ _ _ E ltac:(discriminate)) in E0. discriminate.
  Qed.

  (* THE ENGINE MODEL ON THE EXAMPLE GRAMMAR COMPUTES THE SPECIFICATION *)
  Theorem engine_is_spec : exists f0,
    match spec_parse raw with
    | Some v => json_eval_fuel cf f0 raw = Ok (EvValue (to_engine cf v))
    | None => exists e, json_eval_fuel cf f0 raw = Ok (EvParseErr e)
    end.
  Proof.
    pose proof doc_dres as H. unfold json_eval_fuel. fold inp.
    destruct (spec_parse raw) as [v|].
    - destruct H as (n & Hd & He). destruct (evaluate_dres json_root (Some n) Hd) as (f & Hf). exists f. exact (Hf _ He).
    - destruct (evaluate_dres json_root None H) as (f & Hf). exists f. exact Hf.
  Qed.

  Theorem engine_any_fuel fuel :
    json_eval_fuel cf fuel raw = OutOfFuel \/
    match spec_parse raw with
    | Some v => json_eval_fuel cf fuel raw = Ok (EvValue (to_engine cf v))
    | None => exists e, json_eval_fuel cf fuel raw = Ok (EvParseErr e)
    end.
  Proof.
    destruct engine_is_spec as (f0 & H). unfold json_eval_fuel in *. fold inp in H |- *.
    destruct (spec_parse raw) as [v|].
    - destruct (evaluate_fuel json_root f0 _ H fuel) as [E|E]; [left; exact E|right; exact E].
    - destruct H as (e & H). destruct (evaluate_fuel json_root f0 _ H fuel) as [E|E]; [left; exact E|right; exists e; exact E].
  Qed.

  (* never a panic: Select's index, Object's type assertions and key.(string), the rule reference are all safe *)
  Theorem no_panic fuel : json_eval_fuel cf fuel raw <> Panic.
  Proof.
    destruct (engine_any_fuel fuel) as [E|E]; [congruence|].
    destruct (spec_parse raw); [congruence|]. destruct E as (e & E). congruence.
  Qed.
  (* a returned value is the value of a derivation of the whole input *)
  Theorem reject fuel v' : json_eval_fuel cf fuel raw = Ok (EvValue v') ->
    exists v, json_doc v raw /\ spec_parse raw = Some v /\ v' = to_engine cf v.
  Proof.
    intros H. destruct (engine_any_fuel fuel) as [E|E]; [congruence|].
    destruct (spec_parse raw) as [v|] eqn:Es.
    - exists v. split; [apply spec_parse_sound; exact Es|]. split; [reflexivity|]. congruence.
    - destruct E as (e & E). congruence.
  Qed.
  (* an evaluation error never occurs, and an input without a derivation gives a parse error *)
  Theorem no_eval_error fuel e : json_eval_fuel cf fuel raw <> Ok (EvEvalErr e).
  Proof.
    destruct (engine_any_fuel fuel) as [E|E]; [congruence|].
    destruct (spec_parse raw); [congruence|]. destruct E as (e' & E). congruence.
  Qed.
  (* every document of the grammar evaluates to its value *)
  Theorem accept v : json_doc v raw ->
    exists f0, forall f, (f0 <= f)%nat -> json_eval_fuel cf f raw = Ok (EvValue (to_engine cf v)).
  Proof.
    intros Hd. apply spec_parse_complete in Hd. destruct engine_is_spec as (f0 & H). rewrite Hd in H.
    exists f0. intros f Hle. unfold json_eval_fuel in *. fold inp in H |- *.
    unfold evaluate, parse_top, run in *.
    destruct (parse inp json_rules f0 json_root ctx0 [] [] (i_offset inp)) as [y0| |] eqn:E0; try discriminate.
    rewrite (parse_lift inp json_rules _ _ _ _ _ _ _ _ E0 Hle). exact H.
  Qed.
  Theorem reject_none : (forall v, ~ json_doc v raw) ->
    exists f0, forall f, (f0 <= f)%nat -> exists e, json_eval_fuel cf f raw = Ok (EvParseErr e).
  Proof.
    intros Hn. apply spec_parse_none in Hn. destruct engine_is_spec as (f0 & H). rewrite Hn in H. destruct H as (e & H).
    exists f0. intros f Hle. exists e. unfold json_eval_fuel in *. fold inp in H |- *.
    unfold evaluate, parse_top, run in *.
    destruct (parse inp json_rules f0 json_root ctx0 [] [] (i_offset inp)) as [y0| |] eqn:E0; try discriminate.
    rewrite (parse_lift inp json_rules _ _ _ _ _ _ _ _ E0 Hle). exact H.
  Qed.
End Doc.

(* ---- non-vacuity: the model evaluates a concrete document, and the check's converter is faithful ---- *)
Example ex_engine_value :
  json_eval cf_lexeme ex_doc = Ok (EvValue (to_engine cf_lexeme ex_value)).
Proof. vm_compute. reflexivity. Qed.
Example ex_engine_error : exists e, json_eval cf_lexeme [91; 49; 44; 93] = Ok (EvParseErr e).
Proof. vm_compute. eexists. reflexivity. Qed.
Example ex_bytes_ok : bytes_ok ex_doc.
Proof. unfold bytes_ok. apply Forall_forall. intros b Hb.
  assert (H : forallb (fun b => b <? 256) ex_doc = true) by (vm_compute; reflexivity).
  rewrite forallb_forall in H. apply N.ltb_lt. apply H. exact Hb. Qed.
Example ex_accept : exists f0, forall f, (f0 <= f)%nat ->
  json_eval_fuel cf_lexeme f ex_doc = Ok (EvValue (to_engine cf_lexeme ex_value)).
Proof. exact (accept cf_lexeme cf_lexeme_ok ex_doc ex_bytes_ok ex_value ex_json_doc). Qed.
