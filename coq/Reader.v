(* Reader.v — model of text.Reader (/repo/text/reader.go), its byte-level specification,
   the shift (file placement) maps, and the C09 harness.  NO PROOFS here (ReaderProofs.v).

   Conventions
   * a reader is the file's CRLF-normalised bytes (each < 256) and the file's base offset;
     [new_reader raw off] is text.NewFile + SetOffset + text.NewReader;
   * a global position is an N; [cur = pos - offset] is Go's int subtraction.  The model's
     DOMAIN is [offset <= pos]: there N's truncated subtraction is Go's.  (For pos < offset
     Go's cur is negative, which every primitive except Remaining/IsEOF turns into an
     index-out-of-range panic; the model does not describe that.)
   * every index/slice expression the Go code evaluates is explicit: [index_N], [slice_from],
     [slice_N] yield [Panic] when out of range.  Go's slice bound is the capacity; the model
     uses the length, i.e. [Panic] also covers "would read bytes behind the file".
   * Go ints are unbounded N.  Runes are N (non-negative). *)
From Coq Require Import String List NArith ZArith Bool.
From Parsley Require Import Obs Base FileSet Utf8.
Import ListNotations.
Open Scope N_scope.

Record reader := { r_data : list N (* normalised bytes, each < 256 *); r_offset : N }.
Definition r_len (r : reader) : N := len_N (r_data r).                 (* file.len *)
Definition reader_of_file (f : file) : reader := {| r_data := f_data f; r_offset := f_offset f |}.
Definition new_reader (raw : list N) (off : N) : reader := {| r_data := normalize raw; r_offset := off |}.

(* Reader.Pos(cur) = File.Pos(cur)   reader.go:198-200, file.go:86-88 *)
Definition reader_pos (r : reader) (cur : N) : N := r_offset r + cur.

(* ---- Go slice primitives ---- *)
Definition index_N (l : list N) (i : N) : outcome N :=               (* l[i] *)
  match nth_N l i with Some b => Ok b | None => Panic end.
Definition slice_from (l : list N) (lo : N) : outcome (list N) :=    (* l[lo:] *)
  if lo <=? len_N l then Ok (skipn (N.to_nat lo) l) else Panic.
Definition slice_N (l : list N) (lo hi : N) : outcome (list N) :=    (* l[lo:hi] *)
  if (lo <=? hi) && (hi <=? len_N l) then Ok (firstn (N.to_nat (hi - lo)) (skipn (N.to_nat lo) l)) else Panic.

Fixpoint has_prefix (l p : list N) : bool :=                         (* bytes.HasPrefix(l, p) *)
  match p with
  | [] => true
  | x :: p' => match l with y :: l' => (x =? y) && has_prefix l' p' | [] => false end
  end.

(* int8(x) for a rune/byte x: truncation to 8 bits, two's complement *)
Definition int8 (x : N) : Z :=
  let m := Z.of_N (x mod 256) in if (m <? 128)%Z then m else (m - 256)%Z.

(* ---- ReadRune   reader.go:41-60 ---- *)
Definition read_rune (r : reader) (pos ch : N) : outcome (N * bool) :=
  let cur := pos - r_offset r in
  if r_len r <=? cur then Ok (pos, false)
  else if ch <? rune_self then
    bind (index_N (r_data r) cur) (fun b =>
      if Z.eqb (int8 ch) (int8 b) then Ok (reader_pos r (cur + 1), true) else Ok (pos, false))
  else
    bind (slice_from (r_data r) cur) (fun s =>
      let '(next, width) := decode_rune s in
      if next =? ch then Ok (reader_pos r (cur + width), true) else Ok (pos, false)).

(* ---- MatchString   reader.go:63-78 ----
   [len(str) > len(data) - cur]: for cur > len Go's difference is negative and N's is 0;
   both are < len(str) because str is non-empty at that point. *)
Definition match_string (r : reader) (pos : N) (str : list N) : outcome (N * bool) :=
  match str with
  | [] => Panic                                                       (* explicit panic *)
  | _ =>
    let cur := pos - r_offset r in
    if len_N (r_data r) - cur <? len_N str then Ok (pos, false)
    else
      bind (slice_from (r_data r) cur) (fun s =>
        if has_prefix s str then Ok (reader_pos r (cur + len_N str), true) else Ok (pos, false))
  end.

(* ---- MatchWord   reader.go:82-107 ---- *)
Definition is_word_char (b : N) : bool :=                            (* isWordCharacter, reader.go:217-222 *)
  ((97 <=? b) && (b <=? 122)) || ((65 <=? b) && (b <=? 90)) || ((48 <=? b) && (b <=? 57)) || (b =? 95).

(* the loop [for i, b := range []byte(word)]: Ok true = all bytes equal *)
Fixpoint word_loop (data : list N) (cur i : N) (w : list N) : outcome bool :=
  match w with
  | [] => Ok true
  | b :: w' =>
    if rune_self <=? b then Panic                                     (* explicit panic: UTF8 strings *)
    else bind (index_N data (cur + i)) (fun d =>
           if b =? d then word_loop data cur (i + 1) w' else Ok false)
  end.

Definition match_word (r : reader) (pos : N) (word : list N) : outcome (N * bool) :=
  match word with
  | [] => Panic                                                       (* explicit panic *)
  | _ =>
    let cur := pos - r_offset r in
    if len_N (r_data r) - cur <? len_N word then Ok (pos, false)
    else
      bind (word_loop (r_data r) cur 0 word) (fun same =>
        if negb same then Ok (pos, false)
        else if len_N (r_data r) - cur - len_N word =? 0 then Ok (reader_pos r (cur + len_N word), true)
        else bind (index_N (r_data r) (cur + len_N word)) (fun d =>
               if negb (is_word_char d) then Ok (reader_pos r (cur + len_N word), true)
               else Ok (pos, false)))
  end.

(* ---- ReadRegexp   reader.go:111-124, getPattern reader.go:202-215 ----
   [matcher s] stands for [regexp.MustCompile("^(?:" + expr + ")").FindIndex(s)]: None = nil,
   Some n = [0, n] (the expression is anchored, so the match starts at 0).  getPattern panics
   when the expression matches the empty input ([rc.Match(nil)], i.e. [matcher [] <> None]);
   it is reached only when cur < len.  None = Go's nil result, Some l = a non-nil slice. *)
Definition read_regexp (matcher : list N -> option N) (r : reader) (pos : N) : outcome (N * option (list N)) :=
  let cur := pos - r_offset r in
  if r_len r <=? cur then Ok (pos, None)
  else
    match matcher [] with
    | Some _ => Panic                                                 (* getPattern's panic *)
    | None =>
      bind (slice_from (r_data r) cur) (fun s =>
        match matcher s with
        | None => Ok (pos, None)
        | Some n => bind (slice_N (r_data r) cur (cur + n)) (fun m => Ok (reader_pos r (cur + n), Some m))
        end)
    end.

(* ---- ReadRegexpSubmatch   reader.go:128-141 ----
   [smatcher s] stands for FindSubmatch(s): None = nil, Some groups = the list of groups
   (a group that did not participate is Go's nil = None); matches[0] is the whole match. *)
Definition len_opt (o : option (list N)) : N := match o with Some l => len_N l | None => 0 end.
Definition read_regexp_submatch (smatcher : list N -> option (list (option (list N)))) (r : reader) (pos : N)
  : outcome (N * option (list (option (list N)))) :=
  let cur := pos - r_offset r in
  if r_len r <=? cur then Ok (pos, None)
  else
    match smatcher [] with
    | Some _ => Panic
    | None =>
      bind (slice_from (r_data r) cur) (fun s =>
        match smatcher s with
        | None => Ok (pos, None)
        | Some [] => Panic                                            (* matches[0] *)
        | Some (m0 :: gs) => Ok (reader_pos r (cur + len_opt m0), Some (m0 :: gs))
        end)
    end.

(* ---- Readf   reader.go:144-163 ----
   the callback returns (value, nextPos); value None = nil.  (A negative nextPos is not
   represented; Go panics on it because nextPos < len(value).) *)
Definition readf (f : list N -> option (list N) * N) (r : reader) (pos : N) : outcome (N * option (list N)) :=
  let cur := pos - r_offset r in
  if r_len r <=? cur then Ok (pos, None)
  else
    bind (slice_from (r_data r) cur) (fun s =>
      let '(value, next) := f s in
      if next =? 0 then
        match value with Some _ => Panic | None => Ok (pos, None) end
      else if (next <? len_opt value) || (r_len r <? cur + next) then Panic
      else Ok (reader_pos r (cur + next), value)).

(* ---- Remaining, IsEOF   reader.go:166-173 ---- (in the domain offset <= pos <= offset+len
   the difference is non-negative) *)
Definition remaining (r : reader) (pos : N) : N := r_len r - (pos - r_offset r).
Definition is_eof (r : reader) (pos : N) : bool := r_len r <=? pos - r_offset r.

(* ---- SkipWhitespaces   reader.go:176-195, wsmode.go ---- *)
Inductive wsmode := WsNone | WsSpaces | WsSpacesNl | WsSpacesForceNl.
Inductive wserr :=
| WsNotAllowed        (* wsNoneErr          "whitespaces are not allowed" *)
| WsExpectNl          (* wsSpacesForceNlErr "was expecting a new line" *)
| WsNlNotAllowed.     (* wsSpacesErr        "new line is not allowed" *)

Definition is_ws (b : N) : bool := (b =? 32) || (b =? 9) || (b =? 10) || (b =? 12).
Definition is_nl (b : N) : bool := (b =? 10) || (b =? 12).

(* the for loop; returns (cur, nlPos); nlPos = 0 means "no new line seen" as in Go *)
Fixpoint ws_loop (fuel : nat) (r : reader) (cur nl : N) {struct fuel} : outcome (N * N) :=
  if cur <? r_len r then
    match nth_N (r_data r) cur with
    | None => Panic
    | Some b =>
      if is_ws b then
        match fuel with
        | O => OutOfFuel
        | S k => ws_loop k r (cur + 1) (if is_nl b && (nl =? 0) then reader_pos r cur else nl)
        end
      else Ok (cur, nl)
    end
  else Ok (cur, nl).

Definition skip_whitespaces (r : reader) (pos : N) (mode : wsmode) : outcome (N * option (N * wserr)) :=
  let start := pos - r_offset r in
  bind (ws_loop (S (length (r_data r))) r start 0) (fun cn =>
    let '(cur, nl) := cn in
    let err :=
      match mode with
      | WsNone => if start <? cur then Some (pos, WsNotAllowed) else None
      | WsSpacesForceNl => if nl =? 0 then Some (reader_pos r cur, WsExpectNl) else None
      | WsSpaces => if 0 <? nl then Some (nl, WsNlNotAllowed) else None
      | WsSpacesNl => None
      end in
    Ok (reader_pos r cur, err)).

(* ------------------------------------------------------------------ *)
(* Placement: the same content at base offset [offset + d].            *)

Definition shift_reader (r : reader) (d : N) : reader := {| r_data := r_data r; r_offset := r_offset r + d |}.
Definition shift_fst {A} (d : N) (x : N * A) : N * A := (fst x + d, snd x).
Definition shift_out {A} (d : N) (o : outcome (N * A)) : outcome (N * A) :=
  match o with Ok x => Ok (shift_fst d x) | Panic => Panic | OutOfFuel => OutOfFuel end.
Definition shift_ws (d : N) (x : N * option (N * wserr)) : N * option (N * wserr) :=
  (fst x + d, match snd x with Some (p, k) => Some (p + d, k) | None => None end).
Definition shift_ws_out (d : N) (o : outcome (N * option (N * wserr))) :=
  match o with Ok x => Ok (shift_ws d x) | Panic => Panic | OutOfFuel => OutOfFuel end.

(* ------------------------------------------------------------------ *)
(* Specification: direct statements about the bytes from the cursor on. *)

Definition suffix (data : list N) (cur : N) : list N := skipn (N.to_nat cur) data.

(* "l starts with p", as a proposition; [has_prefix] is its decision procedure *)
Definition starts_with (l p : list N) : Prop := exists rest, l = p ++ rest.

(* a matched primitive moves by n bytes, a failed one stays *)
Definition moved {A} (pos : N) (n : N) (a : A) : N * A := (pos + n, a).

(* rune, for a valid ch other than U+FFFD: the bytes at the cursor start with ch's encoding.
   For U+FFFD itself the next DecodeRune decides (a literal EF BF BD, width 3, or any
   ill-formed sequence, width 1); ReaderProofs.read_rune_error_spec says what that means. *)
Definition spec_read_rune (data : list N) (off pos ch : N) : N * bool :=
  let s := suffix data (pos - off) in
  if ch =? rune_error then
    match s with
    | [] => (pos, false)
    | _ => let '(r, w) := decode_rune s in if r =? rune_error then (pos + w, true) else (pos, false)
    end
  else if has_prefix s (encode_rune ch) then (pos + len_N (encode_rune ch), true) else (pos, false).

Definition spec_match_string (data : list N) (off pos : N) (str : list N) : N * bool :=
  if has_prefix (suffix data (pos - off)) str then (pos + len_N str, true) else (pos, false).

(* word: the string, not followed by a word character *)
Definition spec_match_word (data : list N) (off pos : N) (word : list N) : N * bool :=
  let s := suffix data (pos - off) in
  if has_prefix s word &&
     match skipn (length word) s with [] => true | d :: _ => negb (is_word_char d) end
  then (pos + len_N word, true) else (pos, false).

(* regexp: the matcher's answer on the bytes from the cursor; the value is those bytes *)
Definition spec_read_regexp (matcher : list N -> option N) (data : list N) (off pos : N) : N * option (list N) :=
  let s := suffix data (pos - off) in
  match s with
  | [] => (pos, None)
  | _ => match matcher s with
         | None => (pos, None)
         | Some n => (pos + n, Some (firstn (N.to_nat n) s))
         end
  end.

Definition spec_read_regexp_submatch (smatcher : list N -> option (list (option (list N)))) (data : list N) (off pos : N)
  : N * option (list (option (list N))) :=
  let s := suffix data (pos - off) in
  match s with
  | [] => (pos, None)
  | _ => match smatcher s with
         | None => (pos, None)
         | Some gs => (pos + len_opt (hd None gs), Some gs)
         end
  end.

Definition spec_readf (f : list N -> option (list N) * N) (data : list N) (off pos : N) : N * option (list N) :=
  let s := suffix data (pos - off) in
  match s with
  | [] => (pos, None)
  | _ => let '(value, next) := f s in if next =? 0 then (pos, None) else (pos + next, value)
  end.

Definition spec_remaining (data : list N) (off pos : N) : N := len_N (suffix data (pos - off)).
Definition spec_is_eof (data : list N) (off pos : N) : bool :=
  match suffix data (pos - off) with [] => true | _ => false end.

(* whitespace: length of the maximal run of {space, tab, LF, FF} at the head of l *)
Fixpoint ws_run (l : list N) : N :=
  match l with b :: t => if is_ws b then 1 + ws_run t else 0 | [] => 0 end.
(* index of the first LF/FF inside that run *)
Fixpoint ws_first_nl (l : list N) : option N :=
  match l with
  | b :: t => if is_ws b then
                if is_nl b then Some 0
                else match ws_first_nl t with Some k => Some (1 + k) | None => None end
              else None
  | [] => None
  end.
(* what each mode says about a run of n bytes whose first new line is at nl *)
Definition spec_ws_error (mode : wsmode) (pos n : N) (nl : option N) : option (N * wserr) :=
  match mode with
  | WsNone => if 0 <? n then Some (pos, WsNotAllowed) else None                 (* at the run's start *)
  | WsSpaces => match nl with Some k => Some (pos + k, WsNlNotAllowed) | None => None end   (* at its first new line *)
  | WsSpacesNl => None
  | WsSpacesForceNl => match nl with None => Some (pos + n, WsExpectNl) | Some _ => None end (* at its end *)
  end.
Definition spec_skip_whitespaces (data : list N) (off pos : N) (mode : wsmode) : N * option (N * wserr) :=
  let s := suffix data (pos - off) in
  (pos + ws_run s, spec_ws_error mode pos (ws_run s) (ws_first_nl s)).

(* contracts of the external functions (the documented domain) *)
Definition matcher_ok (matcher : list N -> option N) : Prop :=
  matcher [] = None /\ forall s n, matcher s = Some n -> n <= len_N s.
Definition smatcher_ok (sm : list N -> option (list (option (list N)))) : Prop :=
  sm [] = None /\ forall s gs, sm s = Some gs -> exists m rest, gs = Some m :: rest /\ len_N m <= len_N s.
Definition callback_ok (f : list N -> option (list N) * N) : Prop :=
  forall s, let '(value, next) := f s in
            (next = 0 -> value = None) /\ len_opt value <= next /\ next <= len_N s.
Definition ascii_word (w : list N) : Prop := w <> [] /\ Forall (fun b => b < 128) w.

(* ------------------------------------------------------------------ *)
(* Harness (C09).  Fixed expressions and callbacks, mirrored by hand in harness/c09.go. *)

Fixpoint span (p : N -> bool) (l : list N) : N :=
  match l with b :: t => if p b then 1 + span p t else 0 | [] => 0 end.
Definition nonzero (n : N) : option N := if n =? 0 then None else Some n.

(* a*b *)
Definition rx_astar_b (s : list N) : option N :=
  let n := span (fun b => b =? 97) s in
  match skipn (N.to_nat n) s with b :: _ => if b =? 98 then Some (n + 1) else None | [] => None end.
(* [0-9]+ *)
Definition rx_digits (s : list N) : option N := nonzero (span (fun b => (48 <=? b) && (b <=? 57)) s).
(* [^b]+   (a negated class matches LF; an ill-formed byte is one U+FFFD of width 1) *)
Definition rx_not_b (s : list N) : option N := nonzero (span (fun b => negb (b =? 98)) s).
(* \b      (the empty match at the start of the slice, when a word character follows) *)
Definition rx_wordb (s : list N) : option N :=
  match s with b :: _ => if is_word_char b then Some 0 else None | [] => None end.
Definition c09_matchers : list (list N -> option N) := [rx_astar_b; rx_digits; rx_not_b; rx_wordb].
(* (a+)(b)? with FindSubmatch *)
Definition sm_aplus_b (s : list N) : option (list (option (list N))) :=
  let n := span (fun b => b =? 97) s in
  if n =? 0 then None
  else
    let a := firstn (N.to_nat n) s in
    match skipn (N.to_nat n) s with
    | b :: _ => if b =? 98 then Some [Some (a ++ [98]); Some a; Some [98]] else Some [Some a; Some a; None]
    | [] => Some [Some a; Some a; None]
    end.

(* callbacks for Readf *)
(* the bytes before the first LF, nothing when there are none *)
Definition cb_line (s : list N) : option (list N) * N :=
  let n := span (fun b => negb (b =? 10)) s in
  if n =? 0 then (None, 0) else (Some (firstn (N.to_nat n) s), n).
(* "a" or "ab" consumed, the value is "X" *)
Definition cb_ax (s : list N) : option (list N) * N :=
  match s with
  | a :: t =>
    if a =? 97 then
      match t with
      | b :: _ => if b =? 98 then (Some [88], 2) else (Some [88], 1)
      | [] => (Some [88], 1)
      end
    else (None, 0)
  | [] => (None, 0)
  end.
(* one space consumed, nil value *)
Definition cb_space (s : list N) : option (list N) * N :=
  match s with b :: _ => if b =? 32 then (None, 1) else (None, 0) | [] => (None, 0) end.
Definition c09_callbacks : list (list N -> option (list N) * N) := [cb_line; cb_ax; cb_space].

(* case: raw file content, base offset, arguments of ReadRune / MatchString / MatchWord *)
Inductive c09_case := C09 (raw : list N) (off : N) (runes : list N) (strs words : list (list N)).

(* one observation per position: a flat list of numbers *)
Definition enc_pb (x : N * bool) : list N := [2 * fst x + (if snd x then 1 else 0)].
Definition enc_bytes (o : option (list N)) : list N :=
  match o with None => [0] | Some l => (1 + len_N l) :: l end.
Definition enc_pbytes (x : N * option (list N)) : list N := fst x :: enc_bytes (snd x).
Definition enc_groups (x : N * option (list (option (list N)))) : list N :=
  fst x :: match snd x with None => [0] | Some gs => (1 + len_N gs) :: flat_map enc_bytes gs end.
Definition wserr_code (k : wserr) : N :=
  match k with WsNotAllowed => 0 | WsExpectNl => 1 | WsNlNotAllowed => 2 end.
Definition enc_ws (x : N * option (N * wserr)) : list N :=
  fst x :: match snd x with None => [0] | Some (p, k) => [1 + wserr_code k; p] end.
Definition all_modes : list wsmode := [WsNone; WsSpaces; WsSpacesNl; WsSpacesForceNl].

Fixpoint concat_out (l : list (outcome (list N))) : outcome (list N) :=
  match l with
  | [] => Ok []
  | o :: t => bind o (fun a => bind (concat_out t) (fun b => Ok (a ++ b)))
  end.
Definition omap {A} (f : A -> list N) (o : outcome A) : outcome (list N) := bind o (fun a => Ok (f a)).

Definition model_obs_at (r : reader) (pos : N) (runes : list N) (strs words : list (list N)) : outcome (list N) :=
  concat_out (
    map (fun ch => omap enc_pb (read_rune r pos ch)) runes ++
    map (fun s => omap enc_pb (match_string r pos s)) strs ++
    map (fun w => omap enc_pb (match_word r pos w)) words ++
    map (fun m => omap enc_pbytes (read_regexp m r pos)) c09_matchers ++
    [omap enc_groups (read_regexp_submatch sm_aplus_b r pos)] ++
    map (fun f => omap enc_pbytes (readf f r pos)) c09_callbacks ++
    [Ok [remaining r pos; if is_eof r pos then 1 else 0; reader_pos r (pos - r_offset r)]] ++
    map (fun m => omap enc_ws (skip_whitespaces r pos m)) all_modes).

Definition spec_obs_at (data : list N) (off pos : N) (runes : list N) (strs words : list (list N)) : list N :=
  concat (
    map (fun ch => enc_pb (spec_read_rune data off pos ch)) runes ++
    map (fun s => enc_pb (spec_match_string data off pos s)) strs ++
    map (fun w => enc_pb (spec_match_word data off pos w)) words ++
    map (fun m => enc_pbytes (spec_read_regexp m data off pos)) c09_matchers ++
    [enc_groups (spec_read_regexp_submatch sm_aplus_b data off pos)] ++
    map (fun f => enc_pbytes (spec_readf f data off pos)) c09_callbacks ++
    [[spec_remaining data off pos; if spec_is_eof data off pos then 1 else 0; pos]] ++
    map (fun m => enc_ws (spec_skip_whitespaces data off pos m)) all_modes).

(* every position from the file's first byte to its end-of-file position *)
Definition all_positions (r : reader) : list N :=
  N_range (r_offset r) (length (r_data r) + 1).
(* of a file longer than 2000 bytes: the first and last 60 positions, those around the first multiples of 4096 and
   around every multiple of 65536 *)
Definition keep_position (n off p : N) : bool :=
  let c := p - off in
  (n <=? 2000) || (c <? 60) || (n <? c + 60) ||
  ((c <? 12296) && ((c mod 4096 <? 6) || (4090 <=? c mod 4096))) ||
  (c mod 65536 <? 8) || (65528 <=? c mod 65536).
Definition positions_of (r : reader) : list N :=
  let n := N.of_nat (length (r_data r)) in
  filter (keep_position n (r_offset r)) (all_positions r).

Definition c09_expected (c : c09_case) : obs :=
  match c with
  | C09 raw off runes strs words =>
    let r := new_reader raw off in
    OL (map (fun p => obs_outcome OS (model_obs_at r p runes strs words)) (positions_of r))
  end.

(* the arguments are inside the documented domain (otherwise the property says nothing) *)
Definition c09_in_domain (c : c09_case) : bool :=
  match c with
  | C09 raw off runes strs words =>
    (1 <=? off) && bytes_okb raw && forallb valid_rune runes &&
    forallb (fun s => negb (len_N s =? 0) && bytes_okb s) strs &&
    forallb (fun w => negb (len_N w =? 0) && forallb (fun b => b <? 128) w) words
  end.

Definition c09_oracle (c : c09_case) (o : obs) : bool :=
  negb (c09_in_domain c) ||
  match c with
  | C09 raw off runes strs words =>
    let r := new_reader raw off in
    obs_eqb o (OL (map (fun p => OS (spec_obs_at (r_data r) off p runes strs words)) (positions_of r)))
  end.

Definition c09_harness : harness :=
  {| H_case := c09_case; H_expected := c09_expected; H_agree := obs_eqb; H_oracle := c09_oracle |}.
