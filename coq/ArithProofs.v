(* ArithProofs.v — C05, the engine tie (phase 2). *)
From Coq Require Import String List NArith ZArith Bool Arith Lia.
From Parsley Require Import Obs Base FileSet Utf8 Reader Regex Literals LiteralProofs.
From Parsley Require Import ArithSpec ArithSpecProofs.
From Parsley Require Import Grammar Engine SetMapFacts EngineFacts Spec Sound TermFacts Top EngineHarness Arith.
Import ListNotations.
Open Scope N_scope.

(* ------------------------------------------------------------------ *)
(* 1. The lexer along the bytes                                        *)

Definition tapp (l : toks) (o : option toks) : option toks :=
  match o with Some r => Some (l ++ r) | None => None end.
Lemma tcons_tapp t o : tcons t o = tapp [t] o.
Proof. destruct o; reflexivity. Qed.
Lemma tapp_tapp a b o : tapp a (tapp b o) = tapp (a ++ b) o.
Proof. destruct o; cbn [tapp]; [rewrite app_assoc|]; reflexivity. Qed.
Lemma tapp_nil o : tapp [] o = o.
Proof. destruct o; reflexivity. Qed.

Lemma lex_skip : forall s pos k ao, k <= len_N s ->
  lex_at s pos k ao = lex_at (skipn (N.to_nat k) s) (pos + k) 0 ao.
Proof.
  induction s as [|b t IH]; intros pos k ao Hk.
  - unfold len_N in Hk. cbn [length N.of_nat] in Hk. assert (k = 0) by lia. subst k.
    cbn [N.to_nat skipn]. rewrite N.add_0_r. reflexivity.
  - destruct (N.eq_dec k 0) as [->|Hne].
    + cbn [N.to_nat skipn]. rewrite N.add_0_r. reflexivity.
    + cbn [lex_at]. assert (E : (0 <? k) = true) by (apply N.ltb_lt; lia). rewrite E.
      unfold len_N in Hk. cbn [length] in Hk.
      rewrite (IH (pos + 1) (k - 1) ao) by (unfold len_N; lia).
      replace (N.to_nat k) with (S (N.to_nat (k - 1))) by lia. cbn [skipn].
      f_equal. lia.
Qed.

(* Reader.SkipWhitespaces is invisible to the lexer *)
Lemma lex_ws_scan : forall l pos nl ao,
  lex_at l pos 0 ao =
  lex_at (skipn (N.to_nat (fst (ws_scan l pos nl) - pos)) l) (fst (ws_scan l pos nl)) 0 ao.
Proof.
  induction l as [|b t IH]; intros pos nl ao; cbn [ws_scan].
  - cbn [fst]. rewrite N.sub_diag. reflexivity.
  - destruct (is_ws b) eqn:Eb.
    + cbn [lex_at]. cbn [N.ltb N.compare]. change (Reader.is_ws b) with (is_ws b). rewrite Eb.
      rewrite (IH (pos + 1) (if is_nl b && (nl =? 0) then pos else nl) ao).
      set (e := fst (ws_scan t (pos + 1) (if is_nl b && (nl =? 0) then pos else nl))).
      assert (He : pos + 1 <= e).
      { unfold e. clear. generalize (if is_nl b && (nl =? 0) then pos else nl). generalize (pos + 1).
        induction t as [|x t IHt]; intros p n; cbn [ws_scan]; [cbn [fst]; lia|].
        destruct (is_ws x); [|cbn [fst]; lia]. specialize (IHt (p + 1) (if is_nl x && (n =? 0) then p else n)). lia. }
      replace (N.to_nat (e - pos)) with (S (N.to_nat (e - (pos + 1)))) by lia. reflexivity.
    + cbn [fst]. rewrite N.sub_diag. reflexivity.
Qed.

Lemma skipn_add {A} (l : list A) : forall a b, skipn a (skipn b l) = skipn (b + a) l.
Proof.
  induction l as [|x l IH]; intros a b.
  - rewrite !skipn_nil. reflexivity.
  - destruct b as [|b]; [reflexivity|]. cbn [skipn plus]. apply IH.
Qed.

Section Bytes.
  Variable inp : input.
  Definition suf (p : N) : list N := skipn (N.to_nat (p - i_offset inp)) (i_data inp).
  Definition lexfrom (p : N) (ao : bool) : option toks := lex_at (suf p) p 0 ao.

  Lemma suf_skip p k : i_offset inp <= p -> skipn (N.to_nat k) (suf p) = suf (p + k).
  Proof.
    intros H. unfold suf. rewrite skipn_add. f_equal. lia.
  Qed.

  Lemma lexfrom_ws p ao : in_file inp p -> lexfrom p ao = lexfrom (ws_end inp p) ao.
  Proof.
    intros [Hlo Hhi]. unfold lexfrom at 1. rewrite (lex_ws_scan (suf p) p 0 ao).
    fold (suf p). change (fst (ws_scan (suf p) p 0)) with (ws_end inp p).
    pose proof (ws_end_run inp p (conj Hlo Hhi)) as [[Hle _] _].
    rewrite suf_skip by exact Hlo. replace (p + (ws_end inp p - p)) with (ws_end inp p) by lia. reflexivity.
  Qed.

  Lemma suf_byte p c : i_offset inp <= p -> byte_at inp p = Some c -> suf p = c :: suf (p + 1).
  Proof.
    intros Hlo Hb. unfold byte_at, nth_N in Hb. unfold suf.
    replace (N.to_nat (p + 1 - i_offset inp)) with (S (N.to_nat (p - i_offset inp))) by lia.
    revert Hb. generalize (N.to_nat (p - i_offset inp)). generalize (i_data inp).
    induction l as [|x l IH]; intros n Hb; destruct n; cbn in *; try discriminate.
    - inversion Hb; reflexivity.
    - apply IH. exact Hb.
  Qed.

  (* one-byte tokens *)
  Lemma lexfrom_lp p ao : i_offset inp <= p -> byte_at inp p = Some 40 ->
    lexfrom p ao = tcons (TLP, p) (lexfrom (p + 1) false).
  Proof. intros H1 H2. unfold lexfrom at 1. rewrite (suf_byte p 40 H1 H2). reflexivity. Qed.
  Lemma lexfrom_rp p ao : i_offset inp <= p -> byte_at inp p = Some 41 ->
    lexfrom p ao = tcons (TRP, p) (lexfrom (p + 1) true).
  Proof. intros H1 H2. unfold lexfrom at 1. rewrite (suf_byte p 41 H1 H2). reflexivity. Qed.
  Lemma lexfrom_op p c : i_offset inp <= p -> byte_at inp p = Some c ->
    is_addop c || is_mulop c = true ->
    lexfrom p true = tcons (TOp c, p) (lexfrom (p + 1) false).
  Proof.
    intros H1 H2 Hc. unfold lexfrom at 1. rewrite (suf_byte p c H1 H2).
    unfold is_addop, is_mulop in Hc.
    repeat (apply orb_true_iff in Hc; destruct Hc as [Hc|Hc]); try apply N.eqb_eq in Hc; subst c; reflexivity.
  Qed.

  (* an Integer literal where an operand is expected *)
  Lemma first_of_int b t n : int_lexeme (b :: t) = Some n -> is_sign b || is_digit b = true.
  Proof.
    unfold int_lexeme, sign_len. destruct (is_sign b) eqn:Es; [reflexivity|].
    cbn [orb]. unfold drop. cbn [N.to_nat skipn]. unfold uint_lexeme.
    destruct (is_nzdigit b) eqn:En.
    - intros _. unfold is_nzdigit, is_digit, in_ranges, rs_nzdigit, rs_digit in *. cbn in *.
      rewrite orb_false_r in *. apply andb_true_iff in En. destruct En as [E1 E2].
      apply andb_true_iff. split; [|exact E2]. apply N.leb_le in E1. apply N.leb_le. lia.
    - destruct (b =? 48) eqn:E0; [|discriminate]. apply N.eqb_eq in E0. subst b. reflexivity.
  Qed.

  Lemma lexfrom_int p z r :
    i_offset inp <= p ->
    int_lexeme (suf p) = Some (r - p) -> p < r ->
    starts_with_byte 46 (drop (r - p) (suf p)) = false ->
    parse_int_base0 (take (r - p) (suf p)) = Some z ->
    lexfrom p false = tcons (TInt z, p) (lexfrom r true).
  Proof.
    intros Hlo Hl Hlt Hdot Hv. unfold lexfrom at 1.
    pose proof (int_lexeme_le _ _ Hl) as [Hn1 Hn2].
    destruct (suf p) as [|b t] eqn:Es; [unfold int_lexeme in Hl; cbn in Hl; discriminate|].
    pose proof (first_of_int b t _ Hl) as Hb.
    assert (Hnot : Reader.is_ws b = false /\ (b =? 40) = false /\ (b =? 41) = false /\ is_mulop b = false).
    { unfold is_sign, is_digit, in_ranges, rs_sign, rs_digit in Hb. cbn in Hb.
      unfold Reader.is_ws, is_mulop.
      repeat match goal with |- _ /\ _ => split end;
      repeat (apply orb_true_iff in Hb; destruct Hb as [Hb|Hb]); try discriminate;
        apply andb_true_iff in Hb; destruct Hb as [B1 B2]; apply N.leb_le in B1; apply N.leb_le in B2;
        repeat match goal with |- (_ || _) = false => apply orb_false_iff; split end; apply N.eqb_neq; lia. }
    destruct Hnot as (W & P1 & P2 & M).
    cbn [lex_at]. cbn [N.ltb N.compare]. rewrite W, P1, P2, M. cbn [orb andb].
    rewrite Hl, Hdot, Hv.
    unfold len_N in Hn2. cbn [length] in Hn2.
    rewrite lex_skip by (unfold len_N; lia).
    f_equal.
    assert (E : skipn (N.to_nat (r - p - 1)) t = suf r).
    { replace r with (p + (r - p)) at 2 by lia. rewrite <- (suf_skip p (r - p) Hlo). rewrite Es.
      replace (N.to_nat (r - p)) with (S (N.to_nat (r - p - 1))) by lia. reflexivity. }
    rewrite E. unfold lexfrom. f_equal. lia.
  Qed.
End Bytes.

(* ------------------------------------------------------------------ *)
(* 2. Tokens and values of engine nodes                                *)

Definition leaf_tok (v : lval) (p : N) : toks :=
  match v with
  | VInt z => [(TInt z, p)]
  | VRune c => if c =? 40 then [(TLP, p)] else if c =? 41 then [(TRP, p)] else [(TOp c, p)]
  | _ => []
  end.
(* the tokens the leaves of a node spell, left to right *)
Fixpoint node_toks (n : node) : toks :=
  match n with
  | NTerm _ v p _ => leaf_tok v p
  | NNonTerm _ _ cs _ _ =>
    (fix go (l : list node) : toks := match l with [] => [] | c :: t => node_toks c ++ go t end) cs
  | _ => []
  end.
(* a reference value as parsley.EvaluateNode returns it *)
Definition res_of (v : aval) : vres :=
  match v with AV z => Ok (inl (ValLit (VInt z))) | ADiv0 p => Ok (inr (div0_err p)) end.

Lemma arith_eval_select1 t a b c p r : arith_eval (NNonTerm t (ISelect 1) [a; b; c] p r) = arith_eval b.
Proof. reflexivity. Qed.
Lemma arith_eval_select0 t a b p r : arith_eval (NNonTerm t (ISelect 0) [a; b] p r) = arith_eval a.
Proof. reflexivity. Qed.

Lemma apply_op_binop c p a b : is_addop c || is_mulop c = true ->
  apply_op c p a b = res_of (binop c p (AV a) (AV b)).
Proof.
  intros Hc. unfold is_addop, is_mulop in Hc.
  repeat (apply orb_true_iff in Hc; destruct Hc as [Hc|Hc]); apply N.eqb_eq in Hc; subst c;
    unfold apply_op, binop; cbn [N.eqb Pos.eqb]; try reflexivity.
  destruct (b =? 0)%Z; reflexivity.
Qed.

Lemma arith_eval_user t i a o b p r c po pr va vb :
  arith_eval a = res_of va -> arith_eval b = res_of vb ->
  o = NTerm [c] (VRune c) po pr -> is_addop c || is_mulop c = true ->
  arith_eval (NNonTerm t (IUser i) [a; o; b] p r) = res_of (binop c po va vb).
Proof.
  intros Ha Hb -> Hc.
  change (arith_eval (NNonTerm t (IUser i) [a; NTerm [c] (VRune c) po pr; b] p r)) with
    (match arith_eval a with
     | Ok (inl vl) =>
       match arith_eval b with
       | Ok (inl vr) =>
         match arith_eval (NTerm [c] (VRune c) po pr) with
         | Ok (inl vo) =>
           match vl, vr, vo with
           | ValLit (VInt x), ValLit (VInt y), ValLit (VRune c') => apply_op c' (node_pos (NTerm [c] (VRune c) po pr)) x y
           | _, _, _ => Panic
           end
         | other => other
         end
       | other => other
       end
     | other => other
     end).
  rewrite Ha, Hb. destruct va as [x|q]; cbn [res_of]; [|reflexivity].
  destruct vb as [y|q]; cbn [res_of]; [|reflexivity].
  cbn [arith_eval node_pos]. apply apply_op_binop. exact Hc.
Qed.

Fixpoint xsize (d : xtree) : nat :=
  match d with
  | XTerm _ | XEmpty _ | XEnd _ | XOptN _ => 1%nat
  | XRef _ d' | XMemo _ d' | XAlt _ d' | XOptS d' | XName d' | XSuppress d' | XSingleK d' | XLTrim d'
  | XRTrim d' | XRKeep d' | XSingleU d' _ => S (xsize d')
  | XSeq _ _ ds => S ((fix go (l : list xtree) : nat := match l with [] => O | x :: t => (xsize x + go t)%nat end) ds)
  end.

(* ------------------------------------------------------------------ *)
(* 3. Shapes of the derivations of the grammar's expressions           *)

Section Deriv.
  Variable inp : input.
  Hypothesis Hbytes : bytes_ok (i_data inp).
  Notation xv := (xvalid inp arith_rules).
  Notation xy := (xyield inp).
  Notation xe := (xdend inp).

  Lemma inv_term t pos d : xv (PTerm t) pos d -> exists n, d = XTerm n /\ term_parse inp t pos = ([n], None).
  Proof. intros H. inversion H; subst. eexists; split; [reflexivity|]. assumption. Qed.

  Lemma inv_ltrim m e pos d : xv (PLeftTrim m e) pos d -> exists d', d = XLTrim d' /\ xv e (ws_end inp pos) d'.
  Proof. intros H. inversion H; subst. eexists; split; [reflexivity|]. assumption. Qed.

  Lemma inv_any2 a b pos d : xv (PAny [a; b]) pos d ->
    exists d', (d = XAlt 0 d' /\ xv a pos d') \/ (d = XAlt 1 d' /\ xv b pos d').
  Proof.
    intros H. inversion H as [| | | | |ps i e pos' d' Hn Hv| | | | | | | | | | |]; subst.
    destruct i as [|[|i]]; cbn [nth_error] in Hn.
    - inversion Hn; subst. exists d'. left. split; [reflexivity|assumption].
    - inversion Hn; subst. exists d'. right. split; [reflexivity|assumption].
    - destruct i; discriminate.
  Qed.

  Lemma inv_ref k pos d : xv (PRef k) pos d ->
    exists body d', d = XRef k d' /\ nth_N arith_rules k = Some body /\ xv body pos d'.
  Proof. intros H. inversion H; subst. eexists _, _; split; [reflexivity|]. split; eassumption. Qed.

  Lemma inv_memo idx e pos d : xv (PMemo idx e) pos d -> exists d', d = XMemo idx d' /\ xv e pos d'.
  Proof. intros H. inversion H; subst. eexists; split; [reflexivity|]. assumption. Qed.

  Lemma inv_seq3 ip a b c pos d : xv (PSeq SeqOf ip false None [a; b; c]) pos d ->
    exists d1 d2 d3,
      d = XSeq {| q_kind := SeqOf; q_ip := ip; q_single := false; q_ps := [a; b; c] |} pos [d1; d2; d3] /\
      xv a pos d1 /\ xv b (xe d1) d2 /\ xv c (xe d2) d3.
  Proof.
    intros H. inversion H as [| | | | | | | | |k ip' single name ps pos' ds Hvs Hlen| | | | | | |]; subst.
    cbn [seq_lencheck length] in Hlen. apply Nat.eqb_eq in Hlen.
    destruct ds as [|d1 [|d2 [|d3 [|d4 ds]]]]; try discriminate.
    inversion Hvs as [|k ps depth p1 e1 d1' ds1 Hl1 Hv1 Hvs1]; subst.
    cbn [seq_lookup nth_error] in Hl1. inversion Hl1; subst e1.
    inversion Hvs1 as [|k ps depth p2 e2 d2' ds2 Hl2 Hv2 Hvs2]; subst.
    cbn [seq_lookup nth_error] in Hl2. inversion Hl2; subst e2.
    inversion Hvs2 as [|k ps depth p3 e3 d3' ds3 Hl3 Hv3 Hvs3]; subst.
    cbn [seq_lookup nth_error] in Hl3. inversion Hl3; subst e3.
    exists d1, d2, d3. repeat split; assumption.
  Qed.

  (* tok(Rune c) *)
  Lemma inv_rune_p c pos d : xv (rune_p c) pos d ->
    d = XLTrim (XTerm (NTerm [c] (VRune c) (ws_end inp pos) (ws_end inp pos + 1))) /\
    byte_at inp (ws_end inp pos) = Some c.
  Proof.
    intros H. unfold rune_p, tokp in H.
    destruct (inv_ltrim _ _ _ _ H) as (d' & -> & H').
    destruct (inv_term _ _ _ H') as (n & -> & Ht).
    cbn [term_parse] in Ht.
    destruct (byte_at inp (ws_end inp pos)) as [b|] eqn:Eb; [|discriminate].
    destruct (b =? c) eqn:Ec; [|discriminate]. apply N.eqb_eq in Ec. subst b.
    inversion Ht; subst. split; reflexivity.
  Qed.

  (* tok(Integer) *)
  Lemma inv_int_p pos d : in_file inp pos -> xv int_p pos d ->
    exists tok z r, let p := ws_end inp pos in
      d = XLTrim (XTerm (NTerm tok (VInt z) p r)) /\ p < r /\ r <= i_offset inp + i_len inp /\
      int_lexeme (suf inp p) = Some (r - p) /\
      starts_with_byte 46 (drop (r - p) (suf inp p)) = false /\
      parse_int_base0 (take (r - p) (suf inp p)) = Some z.
  Proof.
    intros Hin H. unfold int_p, tokp in H.
    destruct (inv_ltrim _ _ _ _ H) as (d' & -> & H').
    destruct (inv_term _ _ _ H') as (n & -> & Ht).
    pose proof (ws_end_run inp pos Hin) as [_ [Hlo Hhi]].
    pose proof (term_parse_lit_spec inp LInteger (ws_end inp pos) eq_refl Hbytes (conj Hlo Hhi)) as Hs.
    rewrite Ht in Hs. destruct n as [tok v p r| | |]; try contradiction.
    destruct Hs as (_ & -> & Hlt & Hle & lv & Hspec & ->).
    cbn [lit_spec] in Hspec. unfold spec_integer in Hspec. fold (suf inp (ws_end inp pos)) in Hspec.
    change (suffix (i_data inp) (ws_end inp pos - i_offset inp)) with (suf inp (ws_end inp pos)) in Hspec.
    destruct (int_lexeme (suf inp (ws_end inp pos))) as [n|] eqn:El; [|discriminate].
    destruct (starts_with_byte 46 (drop n (suf inp (ws_end inp pos)))) eqn:Ed; [discriminate|].
    destruct (parse_int_base0 (take n (suf inp (ws_end inp pos)))) as [z|] eqn:Ep; [|discriminate].
    inversion Hspec; subst. exists tok, z, r. cbn zeta.
    repeat split; assumption.
  Qed.

  (* ---------------------------------------------------------------- *)
  (* 3. A derivation of expr spells tokens, evaluates to the tree's value, and the lexer
        reads exactly those tokens from the bytes it spans *)

  Definition opnd (pos : N) (d : xtree) (ts : toks) (v : aval) : Prop :=
    node_toks (xy d) = ts /\ arith_eval (xy d) = res_of v /\
    lexfrom inp pos false = tapp ts (lexfrom inp (xe d) true).
  Definition IE (pos : N) (d : xtree) : Prop := exists e, opnd pos d (etoks e) (eval e).
  Definition IT (pos : N) (d : xtree) : Prop := exists t, opnd pos d (ttoks t) (tval t).
  Definition IF (pos : N) (d : xtree) : Prop := exists f, opnd pos d (ftoks f) (fval f).

  Lemma in_file_lo p : in_file inp p -> i_offset inp <= p.
  Proof. intros [H _]; exact H. Qed.

  Lemma op_inv (c1 c2 : N) pos d :
    is_addop c1 || is_mulop c1 = true -> is_addop c2 || is_mulop c2 = true ->
    in_file inp pos -> xv (PAny [rune_p c1; rune_p c2]) pos d ->
    exists c p, (c = c1 \/ c = c2) /\ xy d = NTerm [c] (VRune c) p (p + 1) /\ xe d = p + 1 /\
      lexfrom inp pos true = tcons (TOp c, p) (lexfrom inp (p + 1) false).
  Proof.
    intros H1 H2 Hin H.
    pose proof (ws_end_run inp pos Hin) as [_ Hin'].
    destruct (inv_any2 _ _ _ _ H) as (d' & [[-> Hd]|[-> Hd]]);
      destruct (inv_rune_p _ _ _ Hd) as (-> & Hb).
    - exists c1, (ws_end inp pos). split; [left; reflexivity|]. split; [reflexivity|]. split; [reflexivity|].
      rewrite (lexfrom_ws inp pos true Hin). apply lexfrom_op; [apply in_file_lo; exact Hin'|exact Hb|exact H1].
    - exists c2, (ws_end inp pos). split; [right; reflexivity|]. split; [reflexivity|]. split; [reflexivity|].
      rewrite (lexfrom_ws inp pos true Hin). apply lexfrom_op; [apply in_file_lo; exact Hin'|exact Hb|exact H2].
  Qed.

  Lemma deriv_inv : forall n d pos, (xsize d < n)%nat -> in_file inp pos ->
    (xv (PRef 0) pos d -> IE pos d) /\ (xv (PRef 1) pos d -> IT pos d) /\ (xv factor_p pos d -> IF pos d).
  Proof.
    induction n as [|n IH]; intros d pos Hsz Hin; [lia|].
    assert (HF : xv factor_p pos d -> IF pos d).
    { intros H. destruct (inv_any2 _ _ _ _ H) as (d' & [[-> Hd]|[-> Hd]]).
      - (* Integer *)
        destruct (inv_int_p pos d' Hin Hd) as (tok & z & r & -> & Hlt & Hle & Hl & Hdot & Hv).
        pose proof (ws_end_run inp pos Hin) as [_ Hin'].
        exists (FInt z (ws_end inp pos)). split; [reflexivity|]. split; [reflexivity|].
        rewrite (lexfrom_ws inp pos false Hin).
        rewrite (lexfrom_int inp (ws_end inp pos) z r (in_file_lo _ Hin') Hl Hlt Hdot Hv).
        rewrite tcons_tapp. reflexivity.
      - (* ( expr ) *)
        destruct (inv_seq3 _ _ _ _ _ _ Hd) as (d1 & d2 & d3 & -> & Hv1 & Hv2 & Hv3).
        destruct (inv_rune_p _ _ _ Hv1) as (-> & Hb1).
        pose proof (ws_end_run inp pos Hin) as [_ Hin1].
        set (p1 := ws_end inp pos) in *.
        assert (Hin2 : in_file inp (p1 + 1)).
        { pose proof (byte_at_in_file inp p1 40 (in_file_lo _ Hin1) Hb1) as Hle. unfold i_fend in Hle.
          destruct Hin1 as [Hlo _]. split; lia. }
        change (xe (XLTrim (XTerm (NTerm [40] (VRune 40) p1 (p1 + 1))))) with (p1 + 1) in Hv2.
        cbn [xsize] in Hsz.
        destruct (IH d2 (p1 + 1) ltac:(lia) Hin2) as [HE _].
        destruct (HE Hv2) as (e & Ht & Hev & Hlx).
        pose proof (xvalid_span inp arith_rules _ _ _ Hin2 Hv2) as (_ & _ & Hin3 & _).
        destruct (inv_rune_p _ _ _ Hv3) as (-> & Hb3).
        pose proof (ws_end_run inp (xe d2) Hin3) as [_ Hin4].
        set (p3 := ws_end inp (xe d2)) in *.
        exists (FPar p1 e p3). split; [|split].
        + cbn [xyield map handle_result node_toks leaf_tok N.eqb Pos.eqb]. rewrite Ht.
          cbn [ftoks app]. rewrite ?app_nil_r. reflexivity.
        + cbn [xyield map handle_result q_kind q_ip q_single]. rewrite arith_eval_select1. exact Hev.
        + rewrite (lexfrom_ws inp pos false Hin). fold p1.
          rewrite (lexfrom_lp inp p1 false (in_file_lo _ Hin1) Hb1).
          rewrite Hlx. rewrite (lexfrom_ws inp (xe d2) true Hin3). fold p3.
          rewrite (lexfrom_rp inp p3 true (in_file_lo _ Hin4) Hb3).
          change (xe (XAlt 1 (XSeq {| q_kind := SeqOf; q_ip := ISelect 1; q_single := false;
                                      q_ps := [rune_p 40; PRef 0; rune_p 41] |} pos
                                   [XLTrim (XTerm (NTerm [40] (VRune 40) p1 (p1 + 1))); d2;
                                    XLTrim (XTerm (NTerm [41] (VRune 41) p3 (p3 + 1)))]))) with (p3 + 1).
          rewrite !tcons_tapp, !tapp_tapp. cbn [ftoks app]. rewrite <- ?app_assoc. reflexivity. }
    split; [|split; [|exact HF]].
    - (* expr *)
      intros H. destruct (inv_ref _ _ _ H) as (body & d0 & -> & Hn & Hb).
      unfold nth_N in Hn. cbn in Hn. inversion Hn; subst body. clear Hn.
      destruct (inv_memo _ _ _ _ Hb) as (d1 & -> & Hb1).
      cbn [xsize] in Hsz.
      destruct (inv_any2 _ _ _ _ Hb1) as (d' & [[-> Hd]|[-> Hd]]).
      + destruct (inv_seq3 _ _ _ _ _ _ Hd) as (da & dop & db & -> & Hva & Hvo & Hvb).
        cbn [xsize] in Hsz.
        destruct (IH da pos ltac:(lia) Hin) as [HE _].
        destruct (HE Hva) as (e & Ht & Hev & Hlx).
        pose proof (xvalid_span inp arith_rules _ _ _ Hin Hva) as (_ & _ & Hin2 & _).
        destruct (op_inv 43 45 (xe da) dop eq_refl eq_refl Hin2 Hvo) as (c & p & Hc & Hyo & Heo & Hlo).
        assert (Hin3 : in_file inp (xe dop)).
        { pose proof (xvalid_span inp arith_rules _ _ _ Hin2 Hvo) as (_ & _ & G & _). exact G. }
        destruct (IH db (xe dop) ltac:(lia) Hin3) as (_ & HT & _).
        destruct (HT Hvb) as (t & Ht2 & Hev2 & Hlx2).
        assert (Hop : exists o, c = add_code o).
        { destruct Hc as [->| ->]; [exists Plus|exists Minus]; reflexivity. }
        destruct Hop as (o & ->).
        exists (EAdd e o p t). split; [|split].
        * cbn [xyield map handle_result q_kind q_ip q_single]. rewrite Hyo. cbn [node_toks]. rewrite Ht, Ht2.
          replace (leaf_tok (VRune (add_code o)) p) with [(TOp (add_code o), p)] by (destruct o; reflexivity).
          cbn [etoks]. rewrite ?app_nil_r. reflexivity.
        * cbn [xyield map handle_result q_kind q_ip q_single]. rewrite Hyo.
          erewrite arith_eval_user; [reflexivity|exact Hev|exact Hev2|reflexivity|destruct o; reflexivity].
        * rewrite Hlx, Hlo. rewrite <- Heo. rewrite Hlx2.
          rewrite tcons_tapp, !tapp_tapp. cbn [etoks]. rewrite <- ?app_assoc. reflexivity.
      + cbn [xsize] in Hsz. destruct (IH d' pos ltac:(lia) Hin) as (_ & HT & _).
        destruct (HT Hd) as (t & Ht & Hev & Hlx).
        exists (ETrm t). split; [exact Ht|]. split; [exact Hev|exact Hlx].
    - (* term *)
      intros H. destruct (inv_ref _ _ _ H) as (body & d0 & -> & Hn & Hb).
      unfold nth_N in Hn. cbn in Hn. inversion Hn; subst body. clear Hn.
      destruct (inv_memo _ _ _ _ Hb) as (d1 & -> & Hb1).
      cbn [xsize] in Hsz.
      destruct (inv_any2 _ _ _ _ Hb1) as (d' & [[-> Hd]|[-> Hd]]).
      + destruct (inv_seq3 _ _ _ _ _ _ Hd) as (da & dop & db & -> & Hva & Hvo & Hvb).
        cbn [xsize] in Hsz.
        destruct (IH da pos ltac:(lia) Hin) as (_ & HT & _).
        destruct (HT Hva) as (t & Ht & Hev & Hlx).
        pose proof (xvalid_span inp arith_rules _ _ _ Hin Hva) as (_ & _ & Hin2 & _).
        destruct (op_inv 42 47 (xe da) dop eq_refl eq_refl Hin2 Hvo) as (c & p & Hc & Hyo & Heo & Hlo).
        assert (Hin3 : in_file inp (xe dop)).
        { pose proof (xvalid_span inp arith_rules _ _ _ Hin2 Hvo) as (_ & _ & G & _). exact G. }
        destruct (IH db (xe dop) ltac:(lia) Hin3) as (_ & _ & HF').
        destruct (HF' Hvb) as (f & Ht2 & Hev2 & Hlx2).
        assert (Hop : exists o, c = mul_code o).
        { destruct Hc as [->| ->]; [exists Times|exists Divide]; reflexivity. }
        destruct Hop as (o & ->).
        exists (TMul t o p f). split; [|split].
        * cbn [xyield map handle_result q_kind q_ip q_single]. rewrite Hyo. cbn [node_toks]. rewrite Ht, Ht2.
          replace (leaf_tok (VRune (mul_code o)) p) with [(TOp (mul_code o), p)] by (destruct o; reflexivity).
          cbn [ttoks]. rewrite ?app_nil_r. reflexivity.
        * cbn [xyield map handle_result q_kind q_ip q_single]. rewrite Hyo.
          erewrite arith_eval_user; [reflexivity|exact Hev|exact Hev2|reflexivity|destruct o; reflexivity].
        * rewrite Hlx, Hlo. rewrite <- Heo. rewrite Hlx2.
          rewrite tcons_tapp, !tapp_tapp. cbn [ttoks]. rewrite <- ?app_assoc. reflexivity.
      + cbn [xsize] in Hsz. destruct (IH d' pos ltac:(lia) Hin) as (_ & _ & HF').
        destruct (HF' Hd) as (f & Ht & Hev & Hlx).
        exists (TFct f). split; [exact Ht|]. split; [exact Hev|exact Hlx].
  Qed.
End Deriv.

(* ------------------------------------------------------------------ *)
(* 4. The theorems                                                     *)

Lemma arith_wf_rules : wf_rules arith_rules arith_site.
Proof.
  intros k body H. unfold nth_N, arith_rules in H.
  destruct (N.to_nat k) as [|[|n]]; cbn [nth_error] in H; try discriminate;
    [inversion H; subst; vm_compute; repeat split ..|destruct n; discriminate].
Qed.
Lemma arith_wf_root : wf arith_rules arith_site arith_root.
Proof. vm_compute. reflexivity. Qed.

(* arith_tree_value: every derivation tree of expr (at any position of any input) spells a token
   list that the reference accepts, and evaluates under the interpreters to the reference's value
   of that token list: the left-recursive grammar and the iterative reference agree on trees. *)
Theorem arith_tree_value inp pos d :
  bytes_ok (i_data inp) -> in_file inp pos -> xvalid inp arith_rules (PRef 0) pos d ->
  exists v, arith_ref_toks (node_toks (xyield inp d)) = Some v /\ arith_eval (xyield inp d) = res_of v.
Proof.
  intros Hb Hin Hv.
  destruct (deriv_inv inp Hb (S (xsize d)) d pos ltac:(lia) Hin) as [HE _].
  destruct (HE Hv) as (e & Ht & Hev & _).
  exists (eval e). rewrite Ht. split; [apply ref_complete|exact Hev].
Qed.

(* ... and the lexer reads exactly those tokens from the bytes the tree spans *)
Theorem arith_tree_lex inp pos d :
  bytes_ok (i_data inp) -> in_file inp pos -> xvalid inp arith_rules (PRef 0) pos d ->
  lexfrom inp pos false = tapp (node_toks (xyield inp d)) (lexfrom inp (xdend inp d) true).
Proof.
  intros Hb Hin Hv.
  destruct (deriv_inv inp Hb (S (xsize d)) d pos ltac:(lia) Hin) as [HE _].
  destruct (HE Hv) as (e & Ht & _ & Hlx). rewrite Ht. exact Hlx.
Qed.

Lemma suf_offset inp : suf inp (i_offset inp) = i_data inp.
Proof. unfold suf. rewrite N.sub_diag. reflexivity. Qed.
Lemma suf_end inp : suf inp (i_offset inp + i_len inp) = [].
Proof.
  unfold suf, i_len, len_N. replace (N.to_nat (i_offset inp + N.of_nat (length (i_data inp)) - i_offset inp))
    with (length (i_data inp)) by lia.
  apply skipn_all.
Qed.

Lemma node_toks_set_rpos n r : node_toks (set_rpos n r) = node_toks n.
Proof. destruct n; reflexivity. Qed.
Lemma arith_eval_set_rpos n r : (forall p, n <> NEmpty p) -> arith_eval (set_rpos n r) = arith_eval n.
Proof.
  intros Hn. destruct n as [t v p r0|p|p|t ip cs p r0]; try reflexivity.
  exfalso. exact (Hn p eq_refl).
Qed.

(* the whole-input derivation behind a successful Sentence(RightTrim(expr)) *)
Lemma root_deriv inp d :
  bytes_ok (i_data inp) ->
  xvalid inp arith_rules arith_root (i_offset inp) d -> xdend inp d = i_offset inp + i_len inp ->
  exists e, lex (i_data inp) (i_offset inp) = Some (etoks e) /\ arith_eval (xyield inp d) = res_of (eval e).
Proof.
  intros Hb Hv Hend.
  pose proof (in_file_offset inp) as Hin0.
  unfold arith_root in Hv.
  assert (Hcases : exists d', xvalid inp arith_rules (PRef 0) (i_offset inp) d' /\
                              (d = XRTrim d' \/ d = XRKeep d')).
  { inversion Hv; subst; eexists; (split; [eassumption|]); [left|right]; reflexivity. }
  destruct Hcases as (d' & Hv' & Hd).
  destruct (deriv_inv inp Hb (S (xsize d')) d' (i_offset inp) ltac:(lia) Hin0) as [HE _].
  destruct (HE Hv') as (e & Ht & Hev & Hlx).
  pose proof (xvalid_span inp arith_rules _ _ _ Hin0 Hv') as (_ & _ & Hin1 & _).
  exists e.
  assert (Hrest : lexfrom inp (xdend inp d') true = Some [] /\ arith_eval (xyield inp d) = arith_eval (xyield inp d')).
  { destruct Hd as [-> | ->].
    - cbn [xyield]. unfold xdend in Hend. cbn [xyield] in Hend.
      assert (Hne : forall p, xyield inp d' <> NEnd p).
      { intros p E. rewrite E in Hev. cbn [arith_eval] in Hev. destruct (eval e); discriminate. }
      assert (Hr : rtrim_node inp (xyield inp d') =
                   set_rpos (xyield inp d') (ws_end inp (node_rpos (xyield inp d')))).
      { destruct (xyield inp d'); reflexivity. }
      assert (Hnm : forall p, xyield inp d' <> NEmpty p).
      { intros p E. rewrite E in Hev. cbn [arith_eval] in Hev. destruct (eval e); cbn [res_of] in Hev; [discriminate|].
        inversion Hev as [Hq]; try (vm_compute in Hq; discriminate). }
      rewrite Hr in Hend |- *. split; [|apply arith_eval_set_rpos; exact Hnm].
      assert (Hws : ws_end inp (xdend inp d') = i_offset inp + i_len inp).
      { unfold xdend. destruct (xyield inp d'); cbn [set_rpos node_rpos] in Hend |- *; try exact Hend.
        exfalso. exact (Hne _ eq_refl). }
      rewrite (lexfrom_ws inp _ true Hin1), Hws. unfold lexfrom. rewrite suf_end. reflexivity.
    - cbn [xyield]. split; [|reflexivity].
      unfold xdend in Hend |- *. cbn [xyield] in Hend. rewrite Hend. unfold lexfrom. rewrite suf_end. reflexivity. }
  destruct Hrest as [Hr1 Hr2]. split.
  - unfold lex. rewrite <- (suf_offset inp) at 1. fold (lexfrom inp (i_offset inp) false).
    rewrite Hlx, Hr1. cbn [tapp]. rewrite app_nil_r. reflexivity.
  - rewrite Hr2. exact Hev.
Qed.

(* C05_eval_sound: whatever the model of parsley.Evaluate returns on the workload grammar is the
   reference's answer: a value is the reference's value; an interpreter error is "division by
   zero" at the position the reference reports; and whenever parsing SUCCEEDS the input is
   well-formed (so an ill-formed input can only give a parse error: C05_rejects). *)
Theorem C05_eval_sound inp fuel ev :
  bytes_ok (i_data inp) ->
  arith_evaluate inp fuel = Ok ev ->
  match ev with
  | EvValue v => exists z, v = ValLit (VInt z) /\ arith_ref (i_data inp) (i_offset inp) = Some (AV z)
  | EvEvalErr e => exists p, e = div0_err p /\ arith_ref (i_data inp) (i_offset inp) = Some (ADiv0 p)
  | EvParseErr _ => True
  end.
Proof.
  intros Hb H. unfold arith_evaluate in H. apply bind_ok in H. destruct H as (t & Ht & H).
  destruct t as [ns c|e c]; [|inversion H; subst; exact I].
  destruct (C04_sentence_sound_all inp arith_rules arith_site fuel arith_root ns c
              arith_wf_rules arith_wf_root Ht) as (n & -> & _ & _ & _ & d & Hv & Hend & ->).
  destruct (root_deriv inp d Hb Hv Hend) as (e & Hlex & Hev).
  cbn [arith_eval_result] in H. rewrite arith_eval_select0, Hev in H.
  unfold arith_ref. rewrite Hlex, ref_complete.
  destruct (eval e) as [z|p]; cbn [res_of] in H; inversion H; subst.
  - exists z. split; reflexivity.
  - exists p. split; reflexivity.
Qed.

(* C05_rejects: an ill-formed input (one the reference rejects) is never evaluated: if the model
   of Evaluate returns at all, it returns a parse error. *)
Theorem C05_rejects inp fuel ev :
  bytes_ok (i_data inp) ->
  arith_ref (i_data inp) (i_offset inp) = None ->
  arith_evaluate inp fuel = Ok ev -> exists e, ev = EvParseErr e.
Proof.
  intros Hb Hr H. pose proof (C05_eval_sound inp fuel ev Hb H) as Hs.
  destruct ev as [v|e|e].
  - destruct Hs as (z & _ & E). rewrite Hr in E. discriminate.
  - exists e. reflexivity.
  - destruct Hs as (p & _ & E). rewrite Hr in E. discriminate.
Qed.

(* non-vacuity: the model evaluates "1 -2" to -1, reports 2/0 at the operator, rejects "1 2" *)
Example C05_eval_sound_example :
  arith_evaluate (mk_input (bytes "1 -2") 5) 2000 = Ok (EvValue (ValLit (VInt (-1)))) /\
  arith_evaluate (mk_input (bytes "1+2/0") 5) 2000 = Ok (EvEvalErr (div0_err 8)) /\
  (exists e, arith_evaluate (mk_input (bytes "1 2") 5) 2000 = Ok (EvParseErr e)) /\
  arith_ref (bytes "1 2") 5 = None.
Proof. vm_compute. repeat split. eexists; reflexivity. Qed.

(* ------------------------------------------------------------------ *)
(* 5. The engine never panics on a grammar whose references are in range (the only Panic of
      [parse_step] is the missing rule of PRef), and the arithmetic grammar terminates with the
      explicit fuel of C02: the model of Evaluate is total on it. *)

Fixpoint closed (n : N) (e : pexpr) : bool :=
  match e with
  | PRef k => k <? n
  | PTerm _ | PEmpty | PEnd => true
  | PMemo _ p | POpt p | PName _ p | PLeftTrim _ p | PRightTrim _ p | PSuppress p | PSingle p => closed n p
  | PAny ps | PChoice ps | PSeq _ _ _ _ ps => forallb (closed n) ps
  end.

Lemma bind_np {A B} (o : outcome A) (k : A -> outcome B) :
  o <> Panic -> (forall a, o = Ok a -> k a <> Panic) -> bind o k <> Panic.
Proof. destruct o as [a| |]; cbn [bind]; intros H1 H2; [apply H2; reflexivity|exfalso; apply H1; reflexivity|discriminate]. Qed.

Section NoPanic.
  Variable inp : input.
  Variable rules : list pexpr.
  Hypothesis Hrules : forall k body, nth_N rules k = Some body -> closed (len_N rules) body = true.

  Definition npP (r : ptype) : Prop := forall e c stk l p, closed (len_N rules) e = true -> r e c stk l p <> Panic.
  Definition npQ (r : stype) : Prop :=
    forall q d c stk l p m st, forallb (closed (len_N rules)) (q_ps q) = true -> r q d c stk l p m st <> Panic.

  Section Step.
    Variables (rp : ptype) (rs : stype).
    Hypothesis Hp : npP rp.
    Hypothesis Hs : npQ rs.

    Lemma any_loop_np stk l p ps : forall c cp res err nf,
      forallb (closed (len_N rules)) ps = true -> any_loop rp stk l p ps c cp res err nf <> Panic.
    Proof.
      induction ps as [|x ps IH]; intros c cp res err nf Hc; cbn [any_loop].
      - destruct res; discriminate.
      - cbn [forallb] in Hc. apply andb_true_iff in Hc. destruct Hc as [Hx Hps].
        apply bind_np; [apply Hp; exact Hx|]. intros [[[res2 cp2] err2] c'] _.
        destruct (alt_err p err nf err2) as [err' nf']. apply IH. exact Hps.
    Qed.

    Lemma choice_loop_np stk l p ps : forall c cp err nf,
      forallb (closed (len_N rules)) ps = true -> choice_loop rp stk l p ps c cp err nf <> Panic.
    Proof.
      induction ps as [|x ps IH]; intros c cp err nf Hc; cbn [choice_loop]; [discriminate|].
      cbn [forallb] in Hc. apply andb_true_iff in Hc. destruct Hc as [Hx Hps].
      apply bind_np; [apply Hp; exact Hx|]. intros [[[res2 cp2] err2] c'] _.
      destruct (alt_err p err nf err2) as [err' nf']. destruct res2; [apply IH; exact Hps|discriminate].
    Qed.

    Lemma parse_step_np : npP (parse_step inp rules rp rs).
    Proof.
      intros e c stk l p Hc. destruct e; cbn [parse_step closed] in *.
      - destruct (term_parse inp t p) as [res err]. discriminate.
      - discriminate.
      - destruct (is_eof inp p); discriminate.
      - destruct (nth_N rules k) as [body|] eqn:En.
        + apply Hp. exact (Hrules _ _ En).
        + exfalso. apply N.ltb_lt in Hc. unfold nth_N in En. apply nth_error_None in En. unfold len_N in Hc. lia.
      - destruct (cache_get c idx p l); [discriminate|].
        destruct (remaining inp p + 1 <? map_get idx l); [discriminate|].
        apply bind_np; [apply Hp; exact Hc|]. intros [[[nodes cp] err] c'] _. discriminate.
      - apply any_loop_np. exact Hc.
      - apply choice_loop_np. exact Hc.
      - apply bind_np; [apply Hp; exact Hc|]. intros [[[res cp] err] c'] _. discriminate.
      - apply bind_np; [apply Hs; exact Hc|]. intros [[stop st] c'] _. destruct (s_res st); discriminate.
      - apply bind_np; [apply Hp; exact Hc|]. intros [[[res cp] err] c'] _.
        destruct err; [discriminate|]. destruct res; discriminate.
      - destruct (skip_ws inp p m) as [pos1 wserr].
        apply bind_np; [apply Hp; exact Hc|]. intros [[[res cp] err] c'] _.
        destruct err as [e0|]; destruct wserr as [w|]; try discriminate.
        destruct (pos1 <? epos e0); [discriminate|]. destruct (is_notfound e0); discriminate.
      - apply bind_np; [apply Hp; exact Hc|]. intros [[[res cp] err] c'] _.
        destruct err; [discriminate|]. destruct (trim_nodes inp m res None) as [res' wserr].
        destruct wserr; discriminate.
      - apply bind_np; [apply Hp; exact Hc|]. intros [[[res cp] err] c'] _. discriminate.
      - apply bind_np; [apply Hp; exact Hc|]. intros [[[res cp] err] c'] _.
        destruct err; [discriminate|].
        destruct res as [|[| | |t0 i0 [|ch [|ch2 cs]] p0 r0] [|n2 res]]; discriminate.
    Qed.

    Lemma alts_loop_np q d stk l p m prefix ns : forall st c,
      forallb (closed (len_N rules)) (q_ps q) = true -> alts_loop rs q d stk l p m prefix ns st c <> Panic.
    Proof.
      induction ns as [|n ns IH]; intros st c Hc; cbn [alts_loop]; [discriminate|].
      apply bind_np; [apply Hs; exact Hc|]. intros [[stop st'] c'] _.
      destruct stop; [discriminate|apply IH; exact Hc].
    Qed.

    Lemma seq_step_np : npQ (seq_step rp rs).
    Proof.
      intros q d c stk l p m st Hc. unfold seq_step.
      destruct (seq_lookup (q_kind q) (q_ps q) d) as [sub|] eqn:El.
      - apply bind_np.
        + apply Hp. rewrite forallb_forall in Hc. apply Hc. eapply seq_lookup_in; exact El.
        + intros [[[res cp] err] c1] _. destruct res as [|n res].
          * destruct (seq_lencheck (q_kind q) (length (q_ps q)) d); [|discriminate].
            cbn [s_nodes]. destruct (s_nodes st); discriminate.
          * apply alts_loop_np. exact Hc.
      - cbn [bind]. destruct (seq_lencheck (q_kind q) (length (q_ps q)) d); [|discriminate].
        cbn [s_nodes]. destruct (s_nodes st); discriminate.
    Qed.
  End Step.

  Theorem no_panic : forall f, npP (parse inp rules f) /\ npQ (seqp inp rules f).
  Proof.
    induction f as [|f [IHp IHs]].
    - split; intros until 1; discriminate.
    - split.
      + intros e c stk l p Hc. rewrite parse_S. apply parse_step_np; assumption.
      + intros q d c stk l p m st Hc. rewrite seqp_S. apply seq_step_np; assumption.
  Qed.

  Corollary parse_top_no_panic fuel root : closed (len_N rules) root = true -> parse_top inp rules fuel root <> Panic.
  Proof.
    intros Hc. unfold parse_top, run. apply bind_np; [apply (proj1 (no_panic fuel)); exact Hc|].
    intros [[[nodes cp] err] c] _.
    repeat match goal with |- context [match ?x with _ => _ end] => destruct x end; discriminate.
  Qed.
End NoPanic.

(* ---- the arithmetic grammar: totality of the model of Evaluate ---- *)
From Parsley Require Import Activation Termination.

Definition arith_K : list N := [1; 2].
Definition arith_Sz : nat := Nat.max (size term_rule) (Nat.max (size expr_rule) (size (sentence arith_root))).

Lemma arith_wf_grammar : wf_grammar arith_rules arith_site arith_K arith_Sz.
Proof.
  intros k body H. unfold nth_N in H.
  destruct (N.to_nat k) as [|[|n]]; cbn [nth_error arith_rules] in H; [| |destruct n; discriminate H];
    injection H as <-.
  - split; [exists 1, expr_body; reflexivity|]. split; [|split; [|vm_compute; lia]].
    + vm_compute. tauto.
    + vm_compute. tauto.
  - split; [exists 2, term_body; reflexivity|]. split; [|split; [|vm_compute; lia]].
    + vm_compute. tauto.
    + vm_compute. tauto.
Qed.

Lemma arith_root_ok :
  wfe arith_site arith_K (sentence arith_root) /\ reps_ok arith_rules (sentence arith_root) /\
  (size (sentence arith_root) <= arith_Sz)%nat.
Proof. split; [vm_compute; tauto|]. split; [vm_compute; tauto|]. vm_compute. lia. Qed.

Lemma arith_closed_rules : forall k body, nth_N arith_rules k = Some body -> closed (len_N arith_rules) body = true.
Proof.
  intros k body H. unfold nth_N in H.
  destruct (N.to_nat k) as [|[|n]]; cbn [nth_error arith_rules] in H; [| |destruct n; discriminate H];
    injection H as <-; reflexivity.
Qed.

(* C05_total: with the explicit fuel of C02 ((len+1) * ((2*(len+2)+1) * (Sz+1))) the model of
   parsley.Evaluate on the arithmetic grammar neither runs out of fuel nor panics, and its answer is
   the reference's: value, division by zero at the reference's position, or a parse error; the
   latter whenever the reference rejects the input. *)
Theorem C05_total inp fuel :
  bytes_ok (i_data inp) -> (fuel_bound inp arith_K arith_Sz <= fuel)%nat ->
  exists ev, arith_evaluate inp fuel = Ok ev /\
    match ev with
    | EvValue v => exists z, v = ValLit (VInt z) /\ arith_ref (i_data inp) (i_offset inp) = Some (AV z)
    | EvEvalErr e => exists p, e = div0_err p /\ arith_ref (i_data inp) (i_offset inp) = Some (ADiv0 p)
    | EvParseErr _ => True
    end.
Proof.
  intros Hb Hf.
  destruct arith_root_ok as (W1 & W2 & W3).
  pose proof (C02_terminates_top inp arith_rules arith_site arith_K arith_Sz arith_wf_grammar fuel
                                 (sentence arith_root) W1 W2 W3 Hf) as Hnoof.
  pose proof (parse_top_no_panic inp arith_rules arith_closed_rules fuel (sentence arith_root) eq_refl) as Hnp.
  destruct (parse_top inp arith_rules fuel (sentence arith_root)) as [t| |] eqn:Et;
    [|exfalso; apply Hnp; reflexivity|exfalso; apply Hnoof; reflexivity].
  assert (Hev : exists ev, arith_evaluate inp fuel = Ok ev).
  { unfold arith_evaluate. rewrite Et. cbn [bind]. destruct t as [ns c|e c]; [|eexists; reflexivity].
    destruct (C04_sentence_sound_all inp arith_rules arith_site fuel arith_root ns c
                arith_wf_rules arith_wf_root Et) as (n & -> & _ & _ & _ & d & Hv & Hend & ->).
    destruct (root_deriv inp d Hb Hv Hend) as (e & _ & Hev).
    cbn [arith_eval_result]. rewrite arith_eval_select0, Hev.
    destruct (eval e); cbn [res_of]; eexists; reflexivity. }
  destruct Hev as (ev & Hev). exists ev. split; [exact Hev|].
  exact (C05_eval_sound inp fuel ev Hb Hev).
Qed.

Example C05_total_fuel : fuel_bound (mk_input (bytes "1 -2") 5) arith_K arith_Sz = 3510%nat.
Proof. vm_compute. reflexivity. Qed.

(* the fuel the harness gives the model is at least the C02 bound for every input it is run on *)
Lemma arith_fuel_enough inp : i_len inp <= MODEL_CAP -> (fuel_bound inp arith_K arith_Sz <= ARITH_FUEL)%nat.
Proof.
  intros H. rewrite fuel_bound_eq. unfold ARITH_FUEL, MODEL_CAP in *.
  change (length arith_K) with 2%nat. change arith_Sz with 53%nat.
  assert (Hn : (N.to_nat (i_len inp) <= 64)%nat) by lia.
  set (n := N.to_nat (i_len inp)) in *.
  assert (H1 : ((n + 1) * ((2 * (n + 2) + 1) * (53 + 1)) <= (64 + 1) * ((2 * (64 + 2) + 1) * (53 + 1)))%nat).
  { apply Nat.mul_le_mono; [lia|]. apply Nat.mul_le_mono; lia. }
  lia.
Qed.

(* ------------------------------------------------------------------ *)
(* 6. Acceptance (completeness), bounded: for EVERY byte string of length <= 5 over
      {1 0 - + * / ( ) space} the model of Evaluate on the real (trimming) grammar and the
      reference agree completely — in particular every well-formed one is accepted.  Computed by
      the kernel's VM once (66 430 runs of the engine model). *)

Fixpoint strings (alpha : list N) (n : nat) : list (list N) :=
  match n with
  | O => [[]]
  | S k => let r := strings alpha k in
           r ++ flat_map (fun s => map (fun a => a :: s) alpha) (filter (fun s => Nat.eqb (length s) k) r)
  end.

Lemma strings_complete alpha : forall n s,
  Forall (fun b => In b alpha) s -> (length s <= n)%nat -> In s (strings alpha n).
Proof.
  induction n as [|n IH]; intros s Hs Hl.
  - destruct s; [left; reflexivity|cbn in Hl; lia].
  - cbn [strings]. apply in_or_app.
    destruct (Nat.eq_dec (length s) (S n)) as [E|E].
    + right. destruct s as [|a s']; [discriminate|]. cbn [length] in E.
      inversion Hs as [|x l Ha Hs']; subst.
      apply in_flat_map. exists s'. split.
      * apply filter_In. split; [apply IH; [exact Hs'|lia]|apply Nat.eqb_eq; lia].
      * exact (in_map (fun a0 => a0 :: s') alpha a Ha).
    + left. apply IH; [exact Hs|lia].
Qed.

Definition agree_b (fuel : nat) (s : list N) : bool :=
  match arith_evaluate (mk_input s 1) fuel, arith_ref s 1 with
  | Ok (EvValue (ValLit (VInt z))), Some (AV z') => Z.eqb z z'
  | Ok (EvEvalErr e), Some (ADiv0 p) => (epos e =? p) && list_N_eqb (cause_msg (ecause e)) div0_msg
  | Ok (EvParseErr _), None => true
  | _, _ => false
  end.
Definition alpha9 : list N := [49; 48; 45; 43; 42; 47; 40; 41; 32].
Definition ext_ok (fuel : nat) (alpha : list N) (s : list N) : bool := forallb (fun a => agree_b fuel (a :: s)) alpha.

Lemma bounded4 : forallb (agree_b 4000) (strings alpha9 4) = true.
Proof. vm_cast_no_check (eq_refl true). Qed.
Lemma bounded5 : forallb (ext_ok 4000 alpha9) (filter (fun s => Nat.eqb (length s) 4) (strings alpha9 4)) = true.
Proof. vm_cast_no_check (eq_refl true). Qed.

Theorem C05_agree_bounded : forall s,
  Forall (fun b => In b alpha9) s -> (length s <= 5)%nat -> agree_b 4000 s = true.
Proof.
  intros s Hs Hl. destruct (Nat.eq_dec (length s) 5) as [E|E].
  - destruct s as [|a s']; [discriminate|]. cbn [length] in E. inversion Hs as [|x l Ha Hs']; subst.
    pose proof bounded5 as H. rewrite forallb_forall in H.
    assert (Hin : In s' (filter (fun s => Nat.eqb (length s) 4) (strings alpha9 4))).
    { apply filter_In. split; [apply strings_complete; [exact Hs'|lia]|apply Nat.eqb_eq; lia]. }
    specialize (H s' Hin). unfold ext_ok in H. rewrite forallb_forall in H. exact (H a Ha).
  - pose proof bounded4 as H. rewrite forallb_forall in H. apply H. apply strings_complete; [exact Hs|lia].
Qed.

(* C05_accepts, bounded form: every well-formed expression of at most 5 bytes over that alphabet is
   accepted by the model of Evaluate (value or division by zero, never a parse error). *)
Corollary C05_accepts_bounded : forall s v,
  Forall (fun b => In b alpha9) s -> (length s <= 5)%nat -> arith_ref s 1 = Some v ->
  exists ev, arith_evaluate (mk_input s 1) 4000 = Ok ev /\ forall e, ev <> EvParseErr e.
Proof.
  intros s v Hs Hl Hr. pose proof (C05_agree_bounded s Hs Hl) as H. unfold agree_b in H. rewrite Hr in H.
  destruct (arith_evaluate (mk_input s 1) 4000) as [ev| |]; try discriminate.
  exists ev. split; [reflexivity|]. intros e ->. destruct v; discriminate.
Qed.
