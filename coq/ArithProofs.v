(* ArithProofs.v — C05, the engine tie (phase 2): theorems about the engine model (Grammar.v,
   Engine.v, Top.v) on the workload grammar Arith.arith_rules.

   1. the reference lexer along the bytes ([lexfrom]): white space, one-byte tokens, Integer literals
   2. tokens and values of engine nodes ([node_toks], [res_of], [arith_eval] on Select / binop nodes)
   3. shapes of the derivations (Sound.xvalid) of the grammar's expressions; [deriv_inv]: a derivation
      of expr / term / factor spells the tokens of a tree of the left-recursive token grammar,
      evaluates to its value, and the lexer reads exactly those tokens from the bytes it spans
   4. [arith_tree_value], [arith_tree_lex], [C05_eval_sound], [C05_rejects]
   5. [no_panic] (every grammar with in-range references), termination with C02's fuel, [C05_total]
   6. bounded acceptance by kernel computation ([C05_agree_bounded4/5], [C05_accepts_bounded])
   7. [strip_sim]: on an input without white space the WsSpacesNl trimming wrappers are the identity
      (every grammar)
   8. [sp_e]: the white-space-free character-level grammar, declaratively; [spells_valid],
      [spells_ref], [accepts_nows], [C05_accepts_nows]: acceptance on the white-space-free
      sub-language, unbounded (through C01/C04 completeness of the trim-free grammar and 7). *)
From Coq Require Import String List NArith ZArith Bool Arith Lia.
From Parsley Require Import Obs Base FileSet Utf8 Reader Regex Literals LiteralProofs.
From Parsley Require Import ArithSpec ArithSpecProofs.
From Parsley Require Import Grammar Engine SetMapFacts EngineFacts Spec Sound TermFacts Top EngineHarness Arith.
Import ListNotations.
Open Scope N_scope.

(* ------------------------------------------------------------------ *)
(* 1. The lexer along the bytes                                        *)

Definition tapp (l : toks) (o : option toks) : option toks :=
  match o with Some r => Some (l ++ r) | None => None end.
Lemma tcons_tapp t o : tcons t o = tapp [t] o.
Proof. destruct o; reflexivity. Qed.
Lemma tapp_tapp a b o : tapp a (tapp b o) = tapp (a ++ b) o.
Proof. destruct o; cbn [tapp]; [rewrite app_assoc|]; reflexivity. Qed.
Lemma tapp_nil o : tapp [] o = o.
Proof. destruct o; reflexivity. Qed.

Lemma lex_skip : forall s pos k ao, k <= len_N s ->
  lex_at s pos k ao = lex_at (skipn (N.to_nat k) s) (pos + k) 0 ao.
Proof.
  induction s as [|b t IH]; intros pos k ao Hk.
  - unfold len_N in Hk. cbn [length N.of_nat] in Hk. assert (k = 0) by lia. subst k.
    cbn [N.to_nat skipn]. rewrite N.add_0_r. reflexivity.
  - destruct (N.eq_dec k 0) as [->|Hne].
    + cbn [N.to_nat skipn]. rewrite N.add_0_r. reflexivity.
    + cbn [lex_at]. assert (E : (0 <? k) = true) by (apply N.ltb_lt; lia). rewrite E.
      unfold len_N in Hk. cbn [length] in Hk.
      rewrite (IH (pos + 1) (k - 1) ao) by (unfold len_N; lia).
      replace (N.to_nat k) with (S (N.to_nat (k - 1))) by lia. cbn [skipn].
      f_equal. lia.
Qed.

(* Reader.SkipWhitespaces is invisible to the lexer *)
Lemma lex_ws_scan : forall l pos nl ao,
  lex_at l pos 0 ao =
  lex_at (skipn (N.to_nat (fst (ws_scan l pos nl) - pos)) l) (fst (ws_scan l pos nl)) 0 ao.
Proof.
  induction l as [|b t IH]; intros pos nl ao; cbn [ws_scan].
  - cbn [fst]. rewrite N.sub_diag. reflexivity.
  - destruct (is_ws b) eqn:Eb.
    + cbn [lex_at]. cbn [N.ltb N.compare]. change (Reader.is_ws b) with (is_ws b). rewrite Eb.
      rewrite (IH (pos + 1) (if is_nl b && (nl =? 0) then pos else nl) ao).
      set (e := fst (ws_scan t (pos + 1) (if is_nl b && (nl =? 0) then pos else nl))).
      assert (He : pos + 1 <= e).
      { unfold e. clear. generalize (if is_nl b && (nl =? 0) then pos else nl). generalize (pos + 1).
        induction t as [|x t IHt]; intros p n; cbn [ws_scan]; [cbn [fst]; lia|].
        destruct (is_ws x); [|cbn [fst]; lia]. specialize (IHt (p + 1) (if is_nl x && (n =? 0) then p else n)). lia. }
      replace (N.to_nat (e - pos)) with (S (N.to_nat (e - (pos + 1)))) by lia. reflexivity.
    + cbn [fst]. rewrite N.sub_diag. reflexivity.
Qed.

Lemma skipn_add {A} (l : list A) : forall a b, skipn a (skipn b l) = skipn (b + a) l.
Proof.
  induction l as [|x l IH]; intros a b.
  - rewrite !skipn_nil. reflexivity.
  - destruct b as [|b]; [reflexivity|]. cbn [skipn plus]. apply IH.
Qed.

Section Bytes.
  Variable inp : input.
  Definition suf (p : N) : list N := skipn (N.to_nat (p - i_offset inp)) (i_data inp).
  Definition lexfrom (p : N) (ao : bool) : option toks := lex_at (suf p) p 0 ao.

  Lemma suf_skip p k : i_offset inp <= p -> skipn (N.to_nat k) (suf p) = suf (p + k).
  Proof.
    intros H. unfold suf. rewrite skipn_add. f_equal. lia.
  Qed.

  Lemma lexfrom_ws p ao : in_file inp p -> lexfrom p ao = lexfrom (ws_end inp p) ao.
  Proof.
    intros [Hlo Hhi]. unfold lexfrom at 1. rewrite (lex_ws_scan (suf p) p 0 ao).
    fold (suf p). change (fst (ws_scan (suf p) p 0)) with (ws_end inp p).
    pose proof (ws_end_run inp p (conj Hlo Hhi)) as [[Hle _] _].
    rewrite suf_skip by exact Hlo. replace (p + (ws_end inp p - p)) with (ws_end inp p) by lia. reflexivity.
  Qed.

  Lemma suf_byte p c : i_offset inp <= p -> byte_at inp p = Some c -> suf p = c :: suf (p + 1).
  Proof.
    intros Hlo Hb. unfold byte_at, nth_N in Hb. unfold suf.
    replace (N.to_nat (p + 1 - i_offset inp)) with (S (N.to_nat (p - i_offset inp))) by lia.
    revert Hb. generalize (N.to_nat (p - i_offset inp)). generalize (i_data inp).
    induction l as [|x l IH]; intros n Hb; destruct n; cbn in *; try discriminate.
    - inversion Hb; reflexivity.
    - apply IH. exact Hb.
  Qed.

  (* one-byte tokens *)
  Lemma lexfrom_lp p ao : i_offset inp <= p -> byte_at inp p = Some 40 ->
    lexfrom p ao = tcons (TLP, p) (lexfrom (p + 1) false).
  Proof. intros H1 H2. unfold lexfrom at 1. rewrite (suf_byte p 40 H1 H2). reflexivity. Qed.
  Lemma lexfrom_rp p ao : i_offset inp <= p -> byte_at inp p = Some 41 ->
    lexfrom p ao = tcons (TRP, p) (lexfrom (p + 1) true).
  Proof. intros H1 H2. unfold lexfrom at 1. rewrite (suf_byte p 41 H1 H2). reflexivity. Qed.
  Lemma lexfrom_op p c : i_offset inp <= p -> byte_at inp p = Some c ->
    is_addop c || is_mulop c = true ->
    lexfrom p true = tcons (TOp c, p) (lexfrom (p + 1) false).
  Proof.
    intros H1 H2 Hc. unfold lexfrom at 1. rewrite (suf_byte p c H1 H2).
    unfold is_addop, is_mulop in Hc.
    repeat (apply orb_true_iff in Hc; destruct Hc as [Hc|Hc]); try apply N.eqb_eq in Hc; subst c; reflexivity.
  Qed.

  (* an Integer literal where an operand is expected *)
  Lemma first_of_int b t n : int_lexeme (b :: t) = Some n -> is_sign b || is_digit b = true.
  Proof.
    unfold int_lexeme, sign_len. destruct (is_sign b) eqn:Es; [reflexivity|].
    cbn [orb]. unfold drop. cbn [N.to_nat skipn]. unfold uint_lexeme.
    destruct (is_nzdigit b) eqn:En.
    - intros _. unfold is_nzdigit, is_digit, in_ranges, rs_nzdigit, rs_digit in *. cbn in *.
      rewrite orb_false_r in *. apply andb_true_iff in En. destruct En as [E1 E2].
      apply andb_true_iff. split; [|exact E2]. apply N.leb_le in E1. apply N.leb_le. lia.
    - destruct (b =? 48) eqn:E0; [|discriminate]. apply N.eqb_eq in E0. subst b. reflexivity.
  Qed.

  Lemma lexfrom_int p z r :
    i_offset inp <= p ->
    int_lexeme (suf p) = Some (r - p) -> p < r ->
    starts_with_byte 46 (drop (r - p) (suf p)) = false ->
    parse_int_base0 (take (r - p) (suf p)) = Some z ->
    lexfrom p false = tcons (TInt z, p) (lexfrom r true).
  Proof.
    intros Hlo Hl Hlt Hdot Hv. unfold lexfrom at 1.
    pose proof (int_lexeme_le _ _ Hl) as [Hn1 Hn2].
    destruct (suf p) as [|b t] eqn:Es; [unfold int_lexeme in Hl; cbn in Hl; discriminate|].
    pose proof (first_of_int b t _ Hl) as Hb.
    assert (Hnot : Reader.is_ws b = false /\ (b =? 40) = false /\ (b =? 41) = false /\ is_mulop b = false).
    { unfold is_sign, is_digit, in_ranges, rs_sign, rs_digit in Hb. cbn in Hb.
      unfold Reader.is_ws, is_mulop.
      repeat match goal with |- _ /\ _ => split end;
      repeat (apply orb_true_iff in Hb; destruct Hb as [Hb|Hb]); try discriminate;
        apply andb_true_iff in Hb; destruct Hb as [B1 B2]; apply N.leb_le in B1; apply N.leb_le in B2;
        repeat match goal with |- (_ || _) = false => apply orb_false_iff; split end; apply N.eqb_neq; lia. }
    destruct Hnot as (W & P1 & P2 & M).
    cbn [lex_at]. cbn [N.ltb N.compare]. rewrite W, P1, P2, M. cbn [orb andb].
    rewrite Hl, Hdot, Hv.
    unfold len_N in Hn2. cbn [length] in Hn2.
    rewrite lex_skip by (unfold len_N; lia).
    f_equal.
    assert (E : skipn (N.to_nat (r - p - 1)) t = suf r).
    { replace r with (p + (r - p)) at 2 by lia. rewrite <- (suf_skip p (r - p) Hlo). rewrite Es.
      replace (N.to_nat (r - p)) with (S (N.to_nat (r - p - 1))) by lia. reflexivity. }
    rewrite E. unfold lexfrom. f_equal. lia.
  Qed.
End Bytes.

(* ------------------------------------------------------------------ *)
(* 2. Tokens and values of engine nodes                                *)

Definition leaf_tok (v : lval) (p : N) : toks :=
  match v with
  | VInt z => [(TInt z, p)]
  | VRune c => if c =? 40 then [(TLP, p)] else if c =? 41 then [(TRP, p)] else [(TOp c, p)]
  | _ => []
  end.
(* the tokens the leaves of a node spell, left to right *)
Fixpoint node_toks (n : node) : toks :=
  match n with
  | NTerm _ v p _ => leaf_tok v p
  | NNonTerm _ _ cs _ _ =>
    (fix go (l : list node) : toks := match l with [] => [] | c :: t => node_toks c ++ go t end) cs
  | _ => []
  end.
(* a reference value as parsley.EvaluateNode returns it *)
Definition res_of (v : aval) : vres :=
  match v with AV z => Ok (inl (ValLit (VInt z))) | ADiv0 p => Ok (inr (div0_err p)) end.

Lemma arith_eval_select1 t a b c p r : arith_eval (NNonTerm t (ISelect 1) [a; b; c] p r) = arith_eval b.
Proof. reflexivity. Qed.
Lemma arith_eval_select0 t a b p r : arith_eval (NNonTerm t (ISelect 0) [a; b] p r) = arith_eval a.
Proof. reflexivity. Qed.

Lemma apply_op_binop c p a b : is_addop c || is_mulop c = true ->
  apply_op c p a b = res_of (binop c p (AV a) (AV b)).
Proof.
  intros Hc. unfold is_addop, is_mulop in Hc.
  repeat (apply orb_true_iff in Hc; destruct Hc as [Hc|Hc]); apply N.eqb_eq in Hc; subst c;
    unfold apply_op, binop; cbn [N.eqb Pos.eqb]; try reflexivity.
  destruct (b =? 0)%Z; reflexivity.
Qed.

Lemma arith_eval_user t i a o b p r c po pr va vb :
  arith_eval a = res_of va -> arith_eval b = res_of vb ->
  o = NTerm [c] (VRune c) po pr -> is_addop c || is_mulop c = true ->
  arith_eval (NNonTerm t (IUser i) [a; o; b] p r) = res_of (binop c po va vb).
Proof.
  intros Ha Hb -> Hc.
  change (arith_eval (NNonTerm t (IUser i) [a; NTerm [c] (VRune c) po pr; b] p r)) with
    (match arith_eval a with
     | Ok (inl vl) =>
       match arith_eval b with
       | Ok (inl vr) =>
         match arith_eval (NTerm [c] (VRune c) po pr) with
         | Ok (inl vo) =>
           match vl, vr, vo with
           | ValLit (VInt x), ValLit (VInt y), ValLit (VRune c') => apply_op c' (node_pos (NTerm [c] (VRune c) po pr)) x y
           | _, _, _ => Panic
           end
         | other => other
         end
       | other => other
       end
     | other => other
     end).
  rewrite Ha, Hb. destruct va as [x|q]; cbn [res_of]; [|reflexivity].
  destruct vb as [y|q]; cbn [res_of]; [|reflexivity].
  cbn [arith_eval node_pos]. apply apply_op_binop. exact Hc.
Qed.

Fixpoint xsize (d : xtree) : nat :=
  match d with
  | XTerm _ | XEmpty _ | XEnd _ | XOptN _ => 1%nat
  | XRef _ d' | XMemo _ d' | XAlt _ d' | XOptS d' | XName d' | XSuppress d' | XSingleK d' | XLTrim d'
  | XRTrim d' | XRKeep d' | XSingleU d' _ => S (xsize d')
  | XSeq _ _ ds => S ((fix go (l : list xtree) : nat := match l with [] => O | x :: t => (xsize x + go t)%nat end) ds)
  end.

(* ------------------------------------------------------------------ *)
(* 3. Shapes of the derivations of the grammar's expressions           *)

Section Deriv.
  Variable inp : input.
  Hypothesis Hbytes : bytes_ok (i_data inp).
  Notation xv := (xvalid inp arith_rules).
  Notation xy := (xyield inp).
  Notation xe := (xdend inp).

  Lemma inv_term t pos d : xv (PTerm t) pos d -> exists n, d = XTerm n /\ term_parse inp t pos = ([n], None).
  Proof. intros H. inversion H; subst. eexists; split; [reflexivity|]. assumption. Qed.

  Lemma inv_ltrim m e pos d : xv (PLeftTrim m e) pos d -> exists d', d = XLTrim d' /\ xv e (ws_end inp pos) d'.
  Proof. intros H. inversion H; subst. eexists; split; [reflexivity|]. assumption. Qed.

  Lemma inv_any2 a b pos d : xv (PAny [a; b]) pos d ->
    exists d', (d = XAlt 0 d' /\ xv a pos d') \/ (d = XAlt 1 d' /\ xv b pos d').
  Proof.
    intros H. inversion H as [| | | | |ps i e pos' d' Hn Hv| | | | | | | | | | |]; subst.
    destruct i as [|[|i]]; cbn [nth_error] in Hn.
    - inversion Hn; subst. exists d'. left. split; [reflexivity|assumption].
    - inversion Hn; subst. exists d'. right. split; [reflexivity|assumption].
    - destruct i; discriminate.
  Qed.

  Lemma inv_ref k pos d : xv (PRef k) pos d ->
    exists body d', d = XRef k d' /\ nth_N arith_rules k = Some body /\ xv body pos d'.
  Proof. intros H. inversion H; subst. eexists _, _; split; [reflexivity|]. split; eassumption. Qed.

  Lemma inv_memo idx e pos d : xv (PMemo idx e) pos d -> exists d', d = XMemo idx d' /\ xv e pos d'.
  Proof. intros H. inversion H; subst. eexists; split; [reflexivity|]. assumption. Qed.

  Lemma inv_seq3 ip a b c pos d : xv (PSeq SeqOf ip false None [a; b; c]) pos d ->
    exists d1 d2 d3,
      d = XSeq {| q_kind := SeqOf; q_ip := ip; q_single := false; q_ps := [a; b; c] |} pos [d1; d2; d3] /\
      xv a pos d1 /\ xv b (xe d1) d2 /\ xv c (xe d2) d3.
  Proof.
    intros H. inversion H as [| | | | | | | | |k ip' single name ps pos' ds Hvs Hlen| | | | | | |]; subst.
    cbn [seq_lencheck length] in Hlen. apply Nat.eqb_eq in Hlen.
    destruct ds as [|d1 [|d2 [|d3 [|d4 ds]]]]; try discriminate.
    inversion Hvs as [|k ps depth p1 e1 d1' ds1 Hl1 Hv1 Hvs1]; subst.
    cbn [seq_lookup nth_error] in Hl1. inversion Hl1; subst e1.
    inversion Hvs1 as [|k ps depth p2 e2 d2' ds2 Hl2 Hv2 Hvs2]; subst.
    cbn [seq_lookup nth_error] in Hl2. inversion Hl2; subst e2.
    inversion Hvs2 as [|k ps depth p3 e3 d3' ds3 Hl3 Hv3 Hvs3]; subst.
    cbn [seq_lookup nth_error] in Hl3. inversion Hl3; subst e3.
    exists d1, d2, d3. repeat split; assumption.
  Qed.

  (* tok(Rune c) *)
  Lemma inv_rune_p c pos d : xv (rune_p c) pos d ->
    d = XLTrim (XTerm (NTerm [c] (VRune c) (ws_end inp pos) (ws_end inp pos + 1))) /\
    byte_at inp (ws_end inp pos) = Some c.
  Proof.
    intros H. unfold rune_p, tokp in H.
    destruct (inv_ltrim _ _ _ _ H) as (d' & -> & H').
    destruct (inv_term _ _ _ H') as (n & -> & Ht).
    cbn [term_parse] in Ht.
    destruct (byte_at inp (ws_end inp pos)) as [b|] eqn:Eb; [|discriminate].
    destruct (b =? c) eqn:Ec; [|discriminate]. apply N.eqb_eq in Ec. subst b.
    inversion Ht; subst. split; reflexivity.
  Qed.

  (* tok(Integer) *)
  Lemma inv_int_p pos d : in_file inp pos -> xv int_p pos d ->
    exists tok z r, let p := ws_end inp pos in
      d = XLTrim (XTerm (NTerm tok (VInt z) p r)) /\ p < r /\ r <= i_offset inp + i_len inp /\
      int_lexeme (suf inp p) = Some (r - p) /\
      starts_with_byte 46 (drop (r - p) (suf inp p)) = false /\
      parse_int_base0 (take (r - p) (suf inp p)) = Some z.
  Proof.
    intros Hin H. unfold int_p, tokp in H.
    destruct (inv_ltrim _ _ _ _ H) as (d' & -> & H').
    destruct (inv_term _ _ _ H') as (n & -> & Ht).
    pose proof (ws_end_run inp pos Hin) as [_ [Hlo Hhi]].
    pose proof (term_parse_lit_spec inp LInteger (ws_end inp pos) eq_refl Hbytes (conj Hlo Hhi)) as Hs.
    rewrite Ht in Hs. destruct n as [tok v p r| | |]; try contradiction.
    destruct Hs as (_ & -> & Hlt & Hle & lv & Hspec & ->).
    cbn [lit_spec] in Hspec. unfold spec_integer in Hspec. fold (suf inp (ws_end inp pos)) in Hspec.
    change (suffix (i_data inp) (ws_end inp pos - i_offset inp)) with (suf inp (ws_end inp pos)) in Hspec.
    destruct (int_lexeme (suf inp (ws_end inp pos))) as [n|] eqn:El; [|discriminate].
    destruct (starts_with_byte 46 (drop n (suf inp (ws_end inp pos)))) eqn:Ed; [discriminate|].
    destruct (parse_int_base0 (take n (suf inp (ws_end inp pos)))) as [z|] eqn:Ep; [|discriminate].
    inversion Hspec; subst. exists tok, z, r. cbn zeta.
    repeat split; assumption.
  Qed.

  (* ---------------------------------------------------------------- *)
  (* 3. A derivation of expr spells tokens, evaluates to the tree's value, and the lexer
        reads exactly those tokens from the bytes it spans *)

  Definition opnd (pos : N) (d : xtree) (ts : toks) (v : aval) : Prop :=
    node_toks (xy d) = ts /\ arith_eval (xy d) = res_of v /\
    lexfrom inp pos false = tapp ts (lexfrom inp (xe d) true).
  Definition IE (pos : N) (d : xtree) : Prop := exists e, opnd pos d (etoks e) (eval e).
  Definition IT (pos : N) (d : xtree) : Prop := exists t, opnd pos d (ttoks t) (tval t).
  Definition IF (pos : N) (d : xtree) : Prop := exists f, opnd pos d (ftoks f) (fval f).

  Lemma in_file_lo p : in_file inp p -> i_offset inp <= p.
  Proof. intros [H _]; exact H. Qed.

  Lemma op_inv (c1 c2 : N) pos d :
    is_addop c1 || is_mulop c1 = true -> is_addop c2 || is_mulop c2 = true ->
    in_file inp pos -> xv (PAny [rune_p c1; rune_p c2]) pos d ->
    exists c p, (c = c1 \/ c = c2) /\ xy d = NTerm [c] (VRune c) p (p + 1) /\ xe d = p + 1 /\
      lexfrom inp pos true = tcons (TOp c, p) (lexfrom inp (p + 1) false).
  Proof.
    intros H1 H2 Hin H.
    pose proof (ws_end_run inp pos Hin) as [_ Hin'].
    destruct (inv_any2 _ _ _ _ H) as (d' & [[-> Hd]|[-> Hd]]);
      destruct (inv_rune_p _ _ _ Hd) as (-> & Hb).
    - exists c1, (ws_end inp pos). split; [left; reflexivity|]. split; [reflexivity|]. split; [reflexivity|].
      rewrite (lexfrom_ws inp pos true Hin). apply lexfrom_op; [apply in_file_lo; exact Hin'|exact Hb|exact H1].
    - exists c2, (ws_end inp pos). split; [right; reflexivity|]. split; [reflexivity|]. split; [reflexivity|].
      rewrite (lexfrom_ws inp pos true Hin). apply lexfrom_op; [apply in_file_lo; exact Hin'|exact Hb|exact H2].
  Qed.

  Lemma deriv_inv : forall n d pos, (xsize d < n)%nat -> in_file inp pos ->
    (xv (PRef 0) pos d -> IE pos d) /\ (xv (PRef 1) pos d -> IT pos d) /\ (xv factor_p pos d -> IF pos d).
  Proof.
    induction n as [|n IH]; intros d pos Hsz Hin; [lia|].
    assert (HF : xv factor_p pos d -> IF pos d).
    { intros H. destruct (inv_any2 _ _ _ _ H) as (d' & [[-> Hd]|[-> Hd]]).
      - (* Integer *)
        destruct (inv_int_p pos d' Hin Hd) as (tok & z & r & -> & Hlt & Hle & Hl & Hdot & Hv).
        pose proof (ws_end_run inp pos Hin) as [_ Hin'].
        exists (FInt z (ws_end inp pos)). split; [reflexivity|]. split; [reflexivity|].
        rewrite (lexfrom_ws inp pos false Hin).
        rewrite (lexfrom_int inp (ws_end inp pos) z r (in_file_lo _ Hin') Hl Hlt Hdot Hv).
        rewrite tcons_tapp. reflexivity.
      - (* ( expr ) *)
        destruct (inv_seq3 _ _ _ _ _ _ Hd) as (d1 & d2 & d3 & -> & Hv1 & Hv2 & Hv3).
        destruct (inv_rune_p _ _ _ Hv1) as (-> & Hb1).
        pose proof (ws_end_run inp pos Hin) as [_ Hin1].
        set (p1 := ws_end inp pos) in *.
        assert (Hin2 : in_file inp (p1 + 1)).
        { pose proof (byte_at_in_file inp p1 40 (in_file_lo _ Hin1) Hb1) as Hle. unfold i_fend in Hle.
          destruct Hin1 as [Hlo _]. split; lia. }
        change (xe (XLTrim (XTerm (NTerm [40] (VRune 40) p1 (p1 + 1))))) with (p1 + 1) in Hv2.
        cbn [xsize] in Hsz.
        destruct (IH d2 (p1 + 1) ltac:(lia) Hin2) as [HE _].
        destruct (HE Hv2) as (e & Ht & Hev & Hlx).
        pose proof (xvalid_span inp arith_rules _ _ _ Hin2 Hv2) as (_ & _ & Hin3 & _).
        destruct (inv_rune_p _ _ _ Hv3) as (-> & Hb3).
        pose proof (ws_end_run inp (xe d2) Hin3) as [_ Hin4].
        set (p3 := ws_end inp (xe d2)) in *.
        exists (FPar p1 e p3). split; [|split].
        + cbn [xyield map handle_result node_toks leaf_tok N.eqb Pos.eqb]. rewrite Ht.
          cbn [ftoks app]. rewrite ?app_nil_r. reflexivity.
        + cbn [xyield map handle_result q_kind q_ip q_single]. rewrite arith_eval_select1. exact Hev.
        + rewrite (lexfrom_ws inp pos false Hin). fold p1.
          rewrite (lexfrom_lp inp p1 false (in_file_lo _ Hin1) Hb1).
          rewrite Hlx. rewrite (lexfrom_ws inp (xe d2) true Hin3). fold p3.
          rewrite (lexfrom_rp inp p3 true (in_file_lo _ Hin4) Hb3).
          change (xe (XAlt 1 (XSeq {| q_kind := SeqOf; q_ip := ISelect 1; q_single := false;
                                      q_ps := [rune_p 40; PRef 0; rune_p 41] |} pos
                                   [XLTrim (XTerm (NTerm [40] (VRune 40) p1 (p1 + 1))); d2;
                                    XLTrim (XTerm (NTerm [41] (VRune 41) p3 (p3 + 1)))]))) with (p3 + 1).
          rewrite !tcons_tapp, !tapp_tapp. cbn [ftoks app]. rewrite <- ?app_assoc. reflexivity. }
    split; [|split; [|exact HF]].
    - (* expr *)
      intros H. destruct (inv_ref _ _ _ H) as (body & d0 & -> & Hn & Hb).
      unfold nth_N in Hn. cbn in Hn. inversion Hn; subst body. clear Hn.
      destruct (inv_memo _ _ _ _ Hb) as (d1 & -> & Hb1).
      cbn [xsize] in Hsz.
      destruct (inv_any2 _ _ _ _ Hb1) as (d' & [[-> Hd]|[-> Hd]]).
      + destruct (inv_seq3 _ _ _ _ _ _ Hd) as (da & dop & db & -> & Hva & Hvo & Hvb).
        cbn [xsize] in Hsz.
        destruct (IH da pos ltac:(lia) Hin) as [HE _].
        destruct (HE Hva) as (e & Ht & Hev & Hlx).
        pose proof (xvalid_span inp arith_rules _ _ _ Hin Hva) as (_ & _ & Hin2 & _).
        destruct (op_inv 43 45 (xe da) dop eq_refl eq_refl Hin2 Hvo) as (c & p & Hc & Hyo & Heo & Hlo).
        assert (Hin3 : in_file inp (xe dop)).
        { pose proof (xvalid_span inp arith_rules _ _ _ Hin2 Hvo) as (_ & _ & G & _). exact G. }
        destruct (IH db (xe dop) ltac:(lia) Hin3) as (_ & HT & _).
        destruct (HT Hvb) as (t & Ht2 & Hev2 & Hlx2).
        assert (Hop : exists o, c = add_code o).
        { destruct Hc as [->| ->]; [exists Plus|exists Minus]; reflexivity. }
        destruct Hop as (o & ->).
        exists (EAdd e o p t). split; [|split].
        * cbn [xyield map handle_result q_kind q_ip q_single]. rewrite Hyo. cbn [node_toks]. rewrite Ht, Ht2.
          replace (leaf_tok (VRune (add_code o)) p) with [(TOp (add_code o), p)] by (destruct o; reflexivity).
          cbn [etoks]. rewrite ?app_nil_r. reflexivity.
        * cbn [xyield map handle_result q_kind q_ip q_single]. rewrite Hyo.
          erewrite arith_eval_user; [reflexivity|exact Hev|exact Hev2|reflexivity|destruct o; reflexivity].
        * rewrite Hlx, Hlo. rewrite <- Heo. rewrite Hlx2.
          rewrite tcons_tapp, !tapp_tapp. cbn [etoks]. rewrite <- ?app_assoc. reflexivity.
      + cbn [xsize] in Hsz. destruct (IH d' pos ltac:(lia) Hin) as (_ & HT & _).
        destruct (HT Hd) as (t & Ht & Hev & Hlx).
        exists (ETrm t). split; [exact Ht|]. split; [exact Hev|exact Hlx].
    - (* term *)
      intros H. destruct (inv_ref _ _ _ H) as (body & d0 & -> & Hn & Hb).
      unfold nth_N in Hn. cbn in Hn. inversion Hn; subst body. clear Hn.
      destruct (inv_memo _ _ _ _ Hb) as (d1 & -> & Hb1).
      cbn [xsize] in Hsz.
      destruct (inv_any2 _ _ _ _ Hb1) as (d' & [[-> Hd]|[-> Hd]]).
      + destruct (inv_seq3 _ _ _ _ _ _ Hd) as (da & dop & db & -> & Hva & Hvo & Hvb).
        cbn [xsize] in Hsz.
        destruct (IH da pos ltac:(lia) Hin) as (_ & HT & _).
        destruct (HT Hva) as (t & Ht & Hev & Hlx).
        pose proof (xvalid_span inp arith_rules _ _ _ Hin Hva) as (_ & _ & Hin2 & _).
        destruct (op_inv 42 47 (xe da) dop eq_refl eq_refl Hin2 Hvo) as (c & p & Hc & Hyo & Heo & Hlo).
        assert (Hin3 : in_file inp (xe dop)).
        { pose proof (xvalid_span inp arith_rules _ _ _ Hin2 Hvo) as (_ & _ & G & _). exact G. }
        destruct (IH db (xe dop) ltac:(lia) Hin3) as (_ & _ & HF').
        destruct (HF' Hvb) as (f & Ht2 & Hev2 & Hlx2).
        assert (Hop : exists o, c = mul_code o).
        { destruct Hc as [->| ->]; [exists Times|exists Divide]; reflexivity. }
        destruct Hop as (o & ->).
        exists (TMul t o p f). split; [|split].
        * cbn [xyield map handle_result q_kind q_ip q_single]. rewrite Hyo. cbn [node_toks]. rewrite Ht, Ht2.
          replace (leaf_tok (VRune (mul_code o)) p) with [(TOp (mul_code o), p)] by (destruct o; reflexivity).
          cbn [ttoks]. rewrite ?app_nil_r. reflexivity.
        * cbn [xyield map handle_result q_kind q_ip q_single]. rewrite Hyo.
          erewrite arith_eval_user; [reflexivity|exact Hev|exact Hev2|reflexivity|destruct o; reflexivity].
        * rewrite Hlx, Hlo. rewrite <- Heo. rewrite Hlx2.
          rewrite tcons_tapp, !tapp_tapp. cbn [ttoks]. rewrite <- ?app_assoc. reflexivity.
      + cbn [xsize] in Hsz. destruct (IH d' pos ltac:(lia) Hin) as (_ & _ & HF').
        destruct (HF' Hd) as (f & Ht & Hev & Hlx).
        exists (TFct f). split; [exact Ht|]. split; [exact Hev|exact Hlx].
  Qed.
End Deriv.

(* ------------------------------------------------------------------ *)
(* 4. The theorems                                                     *)

Lemma arith_wf_rules : wf_rules arith_rules arith_site.
Proof.
  intros k body H. unfold nth_N, arith_rules in H.
  destruct (N.to_nat k) as [|[|n]]; cbn [nth_error] in H; try discriminate;
    [inversion H; subst; vm_compute; repeat split ..|destruct n; discriminate].
Qed.
Lemma arith_wf_root : wf arith_rules arith_site arith_root.
Proof. vm_compute. reflexivity. Qed.

(* arith_tree_value: every derivation tree of expr (at any position of any input) spells a token
   list that the reference accepts, and evaluates under the interpreters to the reference's value
   of that token list: the left-recursive grammar and the iterative reference agree on trees. *)
Theorem arith_tree_value inp pos d :
  bytes_ok (i_data inp) -> in_file inp pos -> xvalid inp arith_rules (PRef 0) pos d ->
  exists v, arith_ref_toks (node_toks (xyield inp d)) = Some v /\ arith_eval (xyield inp d) = res_of v.
Proof.
  intros Hb Hin Hv.
  destruct (deriv_inv inp Hb (S (xsize d)) d pos ltac:(lia) Hin) as [HE _].
  destruct (HE Hv) as (e & Ht & Hev & _).
  exists (eval e). rewrite Ht. split; [apply ref_complete|exact Hev].
Qed.

(* ... and the lexer reads exactly those tokens from the bytes the tree spans *)
Theorem arith_tree_lex inp pos d :
  bytes_ok (i_data inp) -> in_file inp pos -> xvalid inp arith_rules (PRef 0) pos d ->
  lexfrom inp pos false = tapp (node_toks (xyield inp d)) (lexfrom inp (xdend inp d) true).
Proof.
  intros Hb Hin Hv.
  destruct (deriv_inv inp Hb (S (xsize d)) d pos ltac:(lia) Hin) as [HE _].
  destruct (HE Hv) as (e & Ht & _ & Hlx). rewrite Ht. exact Hlx.
Qed.

Lemma suf_offset inp : suf inp (i_offset inp) = i_data inp.
Proof. unfold suf. rewrite N.sub_diag. reflexivity. Qed.
Lemma suf_end inp : suf inp (i_offset inp + i_len inp) = [].
Proof.
  unfold suf, i_len, len_N. replace (N.to_nat (i_offset inp + N.of_nat (length (i_data inp)) - i_offset inp))
    with (length (i_data inp)) by lia.
  apply skipn_all.
Qed.

Lemma node_toks_set_rpos n r : node_toks (set_rpos n r) = node_toks n.
Proof. destruct n; reflexivity. Qed.
Lemma arith_eval_set_rpos n r : (forall p, n <> NEmpty p) -> arith_eval (set_rpos n r) = arith_eval n.
Proof.
  intros Hn. destruct n as [t v p r0|p|p|t ip cs p r0]; try reflexivity.
  exfalso. exact (Hn p eq_refl).
Qed.

(* the whole-input derivation behind a successful Sentence(RightTrim(expr)) *)
Lemma root_deriv inp d :
  bytes_ok (i_data inp) ->
  xvalid inp arith_rules arith_root (i_offset inp) d -> xdend inp d = i_offset inp + i_len inp ->
  exists e, lex (i_data inp) (i_offset inp) = Some (etoks e) /\ arith_eval (xyield inp d) = res_of (eval e).
Proof.
  intros Hb Hv Hend.
  pose proof (in_file_offset inp) as Hin0.
  unfold arith_root in Hv.
  assert (Hcases : exists d', xvalid inp arith_rules (PRef 0) (i_offset inp) d' /\
                              (d = XRTrim d' \/ d = XRKeep d')).
  { inversion Hv; subst; eexists; (split; [eassumption|]); [left|right]; reflexivity. }
  destruct Hcases as (d' & Hv' & Hd).
  destruct (deriv_inv inp Hb (S (xsize d')) d' (i_offset inp) ltac:(lia) Hin0) as [HE _].
  destruct (HE Hv') as (e & Ht & Hev & Hlx).
  pose proof (xvalid_span inp arith_rules _ _ _ Hin0 Hv') as (_ & _ & Hin1 & _).
  exists e.
  assert (Hrest : lexfrom inp (xdend inp d') true = Some [] /\ arith_eval (xyield inp d) = arith_eval (xyield inp d')).
  { destruct Hd as [-> | ->].
    - cbn [xyield]. unfold xdend in Hend. cbn [xyield] in Hend.
      assert (Hne : forall p, xyield inp d' <> NEnd p).
      { intros p E. rewrite E in Hev. cbn [arith_eval] in Hev. destruct (eval e); discriminate. }
      assert (Hr : rtrim_node inp (xyield inp d') =
                   set_rpos (xyield inp d') (ws_end inp (node_rpos (xyield inp d')))).
      { destruct (xyield inp d'); reflexivity. }
      assert (Hnm : forall p, xyield inp d' <> NEmpty p).
      { intros p E. rewrite E in Hev. cbn [arith_eval] in Hev. destruct (eval e); cbn [res_of] in Hev; [discriminate|].
        inversion Hev as [Hq]; try (vm_compute in Hq; discriminate). }
      rewrite Hr in Hend |- *. split; [|apply arith_eval_set_rpos; exact Hnm].
      assert (Hws : ws_end inp (xdend inp d') = i_offset inp + i_len inp).
      { unfold xdend. destruct (xyield inp d'); cbn [set_rpos node_rpos] in Hend |- *; try exact Hend.
        exfalso. exact (Hne _ eq_refl). }
      rewrite (lexfrom_ws inp _ true Hin1), Hws. unfold lexfrom. rewrite suf_end. reflexivity.
    - cbn [xyield]. split; [|reflexivity].
      unfold xdend in Hend |- *. cbn [xyield] in Hend. rewrite Hend. unfold lexfrom. rewrite suf_end. reflexivity. }
  destruct Hrest as [Hr1 Hr2]. split.
  - unfold lex. rewrite <- (suf_offset inp) at 1. fold (lexfrom inp (i_offset inp) false).
    rewrite Hlx, Hr1. cbn [tapp]. rewrite app_nil_r. reflexivity.
  - rewrite Hr2. exact Hev.
Qed.

(* C05_eval_sound: whatever the model of parsley.Evaluate returns on the workload grammar is the
   reference's answer: a value is the reference's value; an interpreter error is "division by
   zero" at the position the reference reports; and whenever parsing SUCCEEDS the input is
   well-formed (so an ill-formed input can only give a parse error: C05_rejects). *)
Theorem C05_eval_sound inp fuel ev :
  bytes_ok (i_data inp) ->
  arith_evaluate inp fuel = Ok ev ->
  match ev with
  | EvValue v => exists z, v = ValLit (VInt z) /\ arith_ref (i_data inp) (i_offset inp) = Some (AV z)
  | EvEvalErr e => exists p, e = div0_err p /\ arith_ref (i_data inp) (i_offset inp) = Some (ADiv0 p)
  | EvParseErr _ => True
  end.
Proof.
  intros Hb H. unfold arith_evaluate in H. apply bind_ok in H. destruct H as (t & Ht & H).
  destruct t as [ns c|e c]; [|inversion H; subst; exact I].
  destruct (C04_sentence_sound_all inp arith_rules arith_site fuel arith_root ns c
              arith_wf_rules arith_wf_root Ht) as (n & -> & _ & _ & _ & d & Hv & Hend & ->).
  destruct (root_deriv inp d Hb Hv Hend) as (e & Hlex & Hev).
  cbn [arith_eval_result] in H. rewrite arith_eval_select0, Hev in H.
  unfold arith_ref. rewrite Hlex, ref_complete.
  destruct (eval e) as [z|p]; cbn [res_of] in H; inversion H; subst.
  - exists z. split; reflexivity.
  - exists p. split; reflexivity.
Qed.

(* C05_rejects: an ill-formed input (one the reference rejects) is never evaluated: if the model
   of Evaluate returns at all, it returns a parse error. *)
Theorem C05_rejects inp fuel ev :
  bytes_ok (i_data inp) ->
  arith_ref (i_data inp) (i_offset inp) = None ->
  arith_evaluate inp fuel = Ok ev -> exists e, ev = EvParseErr e.
Proof.
  intros Hb Hr H. pose proof (C05_eval_sound inp fuel ev Hb H) as Hs.
  destruct ev as [v|e|e].
  - destruct Hs as (z & _ & E). rewrite Hr in E. discriminate.
  - exists e. reflexivity.
  - destruct Hs as (p & _ & E). rewrite Hr in E. discriminate.
Qed.

(* non-vacuity: the model evaluates "1 -2" to -1, reports 2/0 at the operator, rejects "1 2" *)
Example C05_eval_sound_example :
  arith_evaluate (mk_input (bytes "1 -2") 5) 2000 = Ok (EvValue (ValLit (VInt (-1)))) /\
  arith_evaluate (mk_input (bytes "1+2/0") 5) 2000 = Ok (EvEvalErr (div0_err 8)) /\
  (exists e, arith_evaluate (mk_input (bytes "1 2") 5) 2000 = Ok (EvParseErr e)) /\
  arith_ref (bytes "1 2") 5 = None.
Proof. vm_compute. repeat split. eexists; reflexivity. Qed.

(* ------------------------------------------------------------------ *)
(* 5. The engine never panics on a grammar whose references are in range (the only Panic of
      [parse_step] is the missing rule of PRef), and the arithmetic grammar terminates with the
      explicit fuel of C02: the model of Evaluate is total on it. *)

Fixpoint closed (n : N) (e : pexpr) : bool :=
  match e with
  | PRef k => k <? n
  | PTerm _ | PEmpty | PEnd => true
  | PMemo _ p | POpt p | PName _ p | PLeftTrim _ p | PRightTrim _ p | PSuppress p | PSingle p => closed n p
  | PAny ps | PChoice ps | PSeq _ _ _ _ ps => forallb (closed n) ps
  end.

Lemma bind_np {A B} (o : outcome A) (k : A -> outcome B) :
  o <> Panic -> (forall a, o = Ok a -> k a <> Panic) -> bind o k <> Panic.
Proof. destruct o as [a| |]; cbn [bind]; intros H1 H2; [apply H2; reflexivity|exfalso; apply H1; reflexivity|discriminate]. Qed.

Section NoPanic.
  Variable inp : input.
  Variable rules : list pexpr.
  Hypothesis Hrules : forall k body, nth_N rules k = Some body -> closed (len_N rules) body = true.

  Definition npP (r : ptype) : Prop := forall e c stk l p, closed (len_N rules) e = true -> r e c stk l p <> Panic.
  Definition npQ (r : stype) : Prop :=
    forall q d c stk l p m st, forallb (closed (len_N rules)) (q_ps q) = true -> r q d c stk l p m st <> Panic.

  Section Step.
    Variables (rp : ptype) (rs : stype).
    Hypothesis Hp : npP rp.
    Hypothesis Hs : npQ rs.

    Lemma any_loop_np stk l p ps : forall c cp res err nf,
      forallb (closed (len_N rules)) ps = true -> any_loop rp stk l p ps c cp res err nf <> Panic.
    Proof.
      induction ps as [|x ps IH]; intros c cp res err nf Hc; cbn [any_loop].
      - destruct res; discriminate.
      - cbn [forallb] in Hc. apply andb_true_iff in Hc. destruct Hc as [Hx Hps].
        apply bind_np; [apply Hp; exact Hx|]. intros [[[res2 cp2] err2] c'] _.
        destruct (alt_err p err nf err2) as [err' nf']. apply IH. exact Hps.
    Qed.

    Lemma choice_loop_np stk l p ps : forall c cp err nf,
      forallb (closed (len_N rules)) ps = true -> choice_loop rp stk l p ps c cp err nf <> Panic.
    Proof.
      induction ps as [|x ps IH]; intros c cp err nf Hc; cbn [choice_loop]; [discriminate|].
      cbn [forallb] in Hc. apply andb_true_iff in Hc. destruct Hc as [Hx Hps].
      apply bind_np; [apply Hp; exact Hx|]. intros [[[res2 cp2] err2] c'] _.
      destruct (alt_err p err nf err2) as [err' nf']. destruct res2; [apply IH; exact Hps|discriminate].
    Qed.

    Lemma parse_step_np : npP (parse_step inp rules rp rs).
    Proof.
      intros e c stk l p Hc. destruct e; cbn [parse_step closed] in *.
      - destruct (term_parse inp t p) as [res err]. discriminate.
      - discriminate.
      - destruct (is_eof inp p); discriminate.
      - destruct (nth_N rules k) as [body|] eqn:En.
        + apply Hp. exact (Hrules _ _ En).
        + exfalso. apply N.ltb_lt in Hc. unfold nth_N in En. apply nth_error_None in En. unfold len_N in Hc. lia.
      - destruct (cache_get c idx p l); [discriminate|].
        destruct (remaining inp p + 1 <? map_get idx l); [discriminate|].
        apply bind_np; [apply Hp; exact Hc|]. intros [[[nodes cp] err] c'] _. discriminate.
      - apply any_loop_np. exact Hc.
      - apply choice_loop_np. exact Hc.
      - apply bind_np; [apply Hp; exact Hc|]. intros [[[res cp] err] c'] _. discriminate.
      - apply bind_np; [apply Hs; exact Hc|]. intros [[stop st] c'] _. destruct (s_res st); discriminate.
      - apply bind_np; [apply Hp; exact Hc|]. intros [[[res cp] err] c'] _.
        destruct err; [discriminate|]. destruct res; discriminate.
      - destruct (skip_ws inp p m) as [pos1 wserr].
        apply bind_np; [apply Hp; exact Hc|]. intros [[[res cp] err] c'] _.
        destruct err as [e0|]; destruct wserr as [w|]; try discriminate.
        destruct (pos1 <? epos e0); [discriminate|]. destruct (is_notfound e0); discriminate.
      - apply bind_np; [apply Hp; exact Hc|]. intros [[[res cp] err] c'] _.
        destruct err; [discriminate|]. destruct (trim_nodes inp m res None) as [res' wserr].
        destruct wserr; discriminate.
      - apply bind_np; [apply Hp; exact Hc|]. intros [[[res cp] err] c'] _. discriminate.
      - apply bind_np; [apply Hp; exact Hc|]. intros [[[res cp] err] c'] _.
        destruct err; [discriminate|].
        destruct res as [|[| | |t0 i0 [|ch [|ch2 cs]] p0 r0] [|n2 res]]; discriminate.
    Qed.

    Lemma alts_loop_np q d stk l p m prefix ns : forall st c,
      forallb (closed (len_N rules)) (q_ps q) = true -> alts_loop rs q d stk l p m prefix ns st c <> Panic.
    Proof.
      induction ns as [|n ns IH]; intros st c Hc; cbn [alts_loop]; [discriminate|].
      apply bind_np; [apply Hs; exact Hc|]. intros [[stop st'] c'] _.
      destruct stop; [discriminate|apply IH; exact Hc].
    Qed.

    Lemma seq_step_np : npQ (seq_step rp rs).
    Proof.
      intros q d c stk l p m st Hc. unfold seq_step.
      destruct (seq_lookup (q_kind q) (q_ps q) d) as [sub|] eqn:El.
      - apply bind_np.
        + apply Hp. rewrite forallb_forall in Hc. apply Hc. eapply seq_lookup_in; exact El.
        + intros [[[res cp] err] c1] _. destruct res as [|n res].
          * destruct (seq_lencheck (q_kind q) (length (q_ps q)) d); [|discriminate].
            cbn [s_nodes]. destruct (s_nodes st); discriminate.
          * apply alts_loop_np. exact Hc.
      - cbn [bind]. destruct (seq_lencheck (q_kind q) (length (q_ps q)) d); [|discriminate].
        cbn [s_nodes]. destruct (s_nodes st); discriminate.
    Qed.
  End Step.

  Theorem no_panic : forall f, npP (parse inp rules f) /\ npQ (seqp inp rules f).
  Proof.
    induction f as [|f [IHp IHs]].
    - split; intros until 1; discriminate.
    - split.
      + intros e c stk l p Hc. rewrite parse_S. apply parse_step_np; assumption.
      + intros q d c stk l p m st Hc. rewrite seqp_S. apply seq_step_np; assumption.
  Qed.

  Corollary parse_top_no_panic fuel root : closed (len_N rules) root = true -> parse_top inp rules fuel root <> Panic.
  Proof.
    intros Hc. unfold parse_top, run. apply bind_np; [apply (proj1 (no_panic fuel)); exact Hc|].
    intros [[[nodes cp] err] c] _.
    repeat match goal with |- context [match ?x with _ => _ end] => destruct x end; discriminate.
  Qed.
End NoPanic.

(* ---- the arithmetic grammar: totality of the model of Evaluate ---- *)
From Parsley Require Import Activation Termination.

Definition arith_K : list N := [1; 2].
Definition arith_Sz : nat := Nat.max (size term_rule) (Nat.max (size expr_rule) (size (sentence arith_root))).

Lemma arith_wf_grammar : wf_grammar arith_rules arith_site arith_K arith_Sz.
Proof.
  intros k body H. unfold nth_N in H.
  destruct (N.to_nat k) as [|[|n]]; cbn [nth_error arith_rules] in H; [| |destruct n; discriminate H];
    injection H as <-.
  - split; [exists 1, expr_body; reflexivity|]. split; [|split; [|vm_compute; lia]].
    + vm_compute. tauto.
    + vm_compute. tauto.
  - split; [exists 2, term_body; reflexivity|]. split; [|split; [|vm_compute; lia]].
    + vm_compute. tauto.
    + vm_compute. tauto.
Qed.

Lemma arith_root_ok :
  wfe arith_site arith_K (sentence arith_root) /\ reps_ok arith_rules (sentence arith_root) /\
  (size (sentence arith_root) <= arith_Sz)%nat.
Proof. split; [vm_compute; tauto|]. split; [vm_compute; tauto|]. vm_compute. lia. Qed.

Lemma arith_closed_rules : forall k body, nth_N arith_rules k = Some body -> closed (len_N arith_rules) body = true.
Proof.
  intros k body H. unfold nth_N in H.
  destruct (N.to_nat k) as [|[|n]]; cbn [nth_error arith_rules] in H; [| |destruct n; discriminate H];
    injection H as <-; reflexivity.
Qed.

(* C05_total: with the explicit fuel of C02 ((len+1) * ((2*(len+2)+1) * (Sz+1))) the model of
   parsley.Evaluate on the arithmetic grammar neither runs out of fuel nor panics, and its answer is
   the reference's: value, division by zero at the reference's position, or a parse error; the
   latter whenever the reference rejects the input. *)
Theorem C05_total inp fuel :
  bytes_ok (i_data inp) -> (fuel_bound inp arith_K arith_Sz <= fuel)%nat ->
  exists ev, arith_evaluate inp fuel = Ok ev /\
    match ev with
    | EvValue v => exists z, v = ValLit (VInt z) /\ arith_ref (i_data inp) (i_offset inp) = Some (AV z)
    | EvEvalErr e => exists p, e = div0_err p /\ arith_ref (i_data inp) (i_offset inp) = Some (ADiv0 p)
    | EvParseErr _ => True
    end.
Proof.
  intros Hb Hf.
  destruct arith_root_ok as (W1 & W2 & W3).
  pose proof (C02_terminates_top inp arith_rules arith_site arith_K arith_Sz arith_wf_grammar fuel
                                 (sentence arith_root) W1 W2 W3 Hf) as Hnoof.
  pose proof (parse_top_no_panic inp arith_rules arith_closed_rules fuel (sentence arith_root) eq_refl) as Hnp.
  destruct (parse_top inp arith_rules fuel (sentence arith_root)) as [t| |] eqn:Et;
    [|exfalso; apply Hnp; reflexivity|exfalso; apply Hnoof; reflexivity].
  assert (Hev : exists ev, arith_evaluate inp fuel = Ok ev).
  { unfold arith_evaluate. rewrite Et. cbn [bind]. destruct t as [ns c|e c]; [|eexists; reflexivity].
    destruct (C04_sentence_sound_all inp arith_rules arith_site fuel arith_root ns c
                arith_wf_rules arith_wf_root Et) as (n & -> & _ & _ & _ & d & Hv & Hend & ->).
    destruct (root_deriv inp d Hb Hv Hend) as (e & _ & Hev).
    cbn [arith_eval_result]. rewrite arith_eval_select0, Hev.
    destruct (eval e); cbn [res_of]; eexists; reflexivity. }
  destruct Hev as (ev & Hev). exists ev. split; [exact Hev|].
  exact (C05_eval_sound inp fuel ev Hb Hev).
Qed.

Example C05_total_fuel : fuel_bound (mk_input (bytes "1 -2") 5) arith_K arith_Sz = 3510%nat.
Proof. vm_compute. reflexivity. Qed.

(* the fuel the harness gives the model is at least the C02 bound for every input it is run on *)
Lemma arith_fuel_enough inp : i_len inp <= MODEL_CAP -> (fuel_bound inp arith_K arith_Sz <= ARITH_FUEL)%nat.
Proof.
  intros H. rewrite fuel_bound_eq. unfold ARITH_FUEL, MODEL_CAP in *.
  change (length arith_K) with 2%nat. change arith_Sz with 53%nat.
  assert (Hn : (N.to_nat (i_len inp) <= 64)%nat) by lia.
  set (n := N.to_nat (i_len inp)) in *.
  assert (H1 : ((n + 1) * ((2 * (n + 2) + 1) * (53 + 1)) <= (64 + 1) * ((2 * (64 + 2) + 1) * (53 + 1)))%nat).
  { apply Nat.mul_le_mono; [lia|]. apply Nat.mul_le_mono; lia. }
  lia.
Qed.

(* ------------------------------------------------------------------ *)
(* 6. Acceptance (completeness), bounded: for EVERY byte string of length <= 4 over
      {1 0 - + * / ( ) space} and of length <= 5 over {1 0 - / ( ) space} the model of Evaluate
      on the real (trimming) grammar and the reference agree completely — in particular every
      well-formed one is accepted.  Computed by the kernel's VM, once each (7 381 + 19 608 runs of
      the engine model, about half a minute).  Everything around the two computations is generic
      in the fuel and the alphabet, so that no conversion ever touches the closed terms. *)

Fixpoint strings (alpha : list N) (n : nat) : list (list N) :=
  match n with
  | O => [[]]
  | S k => let r := strings alpha k in
           r ++ flat_map (fun s => map (fun a => a :: s) alpha) (filter (fun s => Nat.eqb (length s) k) r)
  end.

Lemma strings_complete alpha : forall n s,
  Forall (fun b => In b alpha) s -> (length s <= n)%nat -> In s (strings alpha n).
Proof.
  induction n as [|n IH]; intros s Hs Hl.
  - destruct s; [left; reflexivity|cbn in Hl; lia].
  - cbn [strings]. apply in_or_app.
    destruct (Nat.eq_dec (length s) (S n)) as [E|E].
    + right. destruct s as [|a s']; [discriminate|]. cbn [length] in E.
      inversion Hs as [|x l Ha Hs']; subst.
      apply in_flat_map. exists s'. split.
      * apply filter_In. split; [apply IH; [exact Hs'|lia]|apply Nat.eqb_eq; lia].
      * exact (in_map (fun a0 => a0 :: s') alpha a Ha).
    + left. apply IH; [exact Hs|lia].
Qed.

(* complete agreement of the model's Evaluate with the reference on one input (file at offset 1) *)
Definition agree_b (fuel : nat) (s : list N) : bool :=
  match arith_evaluate (mk_input s 1) fuel, arith_ref s 1 with
  | Ok (EvValue (ValLit (VInt z))), Some (AV z') => Z.eqb z z'
  | Ok (EvEvalErr e), Some (ADiv0 p) => (epos e =? p) && list_N_eqb (cause_msg (ecause e)) div0_msg
  | Ok (EvParseErr _), None => true
  | _, _ => false
  end.

Lemma agree_from fuel alpha n :
  forallb (agree_b fuel) (strings alpha n) = true ->
  forall s, Forall (fun b => In b alpha) s -> (length s <= n)%nat -> agree_b fuel s = true.
Proof.
  intros Hb s Hs Hl. exact (proj1 (forallb_forall _ _) Hb s (strings_complete alpha n s Hs Hl)).
Qed.

Lemma agree_accepts fuel s v :
  agree_b fuel s = true -> arith_ref s 1 = Some v ->
  exists ev, arith_evaluate (mk_input s 1) fuel = Ok ev /\ forall e, ev <> EvParseErr e.
Proof.
  unfold agree_b. intros H Hr. rewrite Hr in H.
  destruct (arith_evaluate (mk_input s 1) fuel) as [ev| |]; try discriminate.
  exists ev. split; [reflexivity|]. intros e ->. destruct v; discriminate.
Qed.

Definition alpha9 : list N := [49; 48; 45; 43; 42; 47; 40; 41; 32].      (* 1 0 - + * / ( ) space *)
Definition alpha7 : list N := [49; 48; 45; 47; 40; 41; 32].              (* 1 0 - / ( ) space *)
Definition FUEL5 : nat := 5000.      (* above the C02 bound for 5 bytes, 4860 *)

Lemma bounded4 : forallb (agree_b FUEL5) (strings alpha9 4) = true.
Proof. vm_cast_no_check (eq_refl true). Qed.
Lemma bounded5 : forallb (agree_b FUEL5) (strings alpha7 5) = true.
Proof. vm_cast_no_check (eq_refl true). Qed.

Theorem C05_agree_bounded4 : forall s,
  Forall (fun b => In b alpha9) s -> (length s <= 4)%nat -> agree_b FUEL5 s = true.
Proof. exact (agree_from FUEL5 alpha9 4 bounded4). Qed.
Theorem C05_agree_bounded5 : forall s,
  Forall (fun b => In b alpha7) s -> (length s <= 5)%nat -> agree_b FUEL5 s = true.
Proof. exact (agree_from FUEL5 alpha7 5 bounded5). Qed.

(* C05_accepts, bounded form: every well-formed expression of at most 4 (5) bytes over those
   alphabets is accepted by the model of Evaluate (value or division by zero, never a parse error) *)
Corollary C05_accepts_bounded : forall s v,
  (Forall (fun b => In b alpha9) s /\ (length s <= 4)%nat) \/
  (Forall (fun b => In b alpha7) s /\ (length s <= 5)%nat) ->
  arith_ref s 1 = Some v ->
  exists ev, arith_evaluate (mk_input s 1) FUEL5 = Ok ev /\ forall e, ev <> EvParseErr e.
Proof.
  intros s v [[Hs Hl]|[Hs Hl]] Hr.
  - exact (agree_accepts FUEL5 s v (C05_agree_bounded4 s Hs Hl) Hr).
  - exact (agree_accepts FUEL5 s v (C05_agree_bounded5 s Hs Hl) Hr).
Qed.

(* ------------------------------------------------------------------ *)
(* 7. On an input without white space, LeftTrim/RightTrim in mode WsSpacesNl are the identity:
      the engine run on a grammar equals the run on the grammar with those wrappers removed —
      same results, same errors, same context (cache, calls, logs). *)

Fixpoint strip (e : pexpr) : pexpr :=
  match e with
  | PLeftTrim WsSpacesNl p | PRightTrim WsSpacesNl p => strip p
  | PLeftTrim m p => PLeftTrim m (strip p)
  | PRightTrim m p => PRightTrim m (strip p)
  | PMemo i p => PMemo i (strip p)
  | PAny ps => PAny (map strip ps)
  | PChoice ps => PChoice (map strip ps)
  | POpt p => POpt (strip p)
  | PSeq k ip s nm ps => PSeq k ip s nm (map strip ps)
  | PName nm p => PName nm (strip p)
  | PSuppress p => PSuppress (strip p)
  | PSingle p => PSingle (strip p)
  | PTerm _ | PEmpty | PEnd | PRef _ => e
  end.
Definition is_nl_trim (e : pexpr) : bool :=
  match e with PLeftTrim WsSpacesNl _ | PRightTrim WsSpacesNl _ => true | _ => false end.
Definition qstrip (q : seqinfo) : seqinfo :=
  {| q_kind := q_kind q; q_ip := q_ip q; q_single := q_single q; q_ps := map strip (q_ps q) |}.
Definition nows (inp : input) : Prop := forallb (fun b => negb (is_ws b)) (i_data inp) = true.

Lemma forallb_skipn {A} (f : A -> bool) (l : list A) : forall k, forallb f l = true -> forallb f (skipn k l) = true.
Proof.
  induction l as [|x l IH]; intros k H; [rewrite skipn_nil; reflexivity|].
  destruct k as [|k]; [exact H|]. cbn [skipn]. cbn [forallb] in H. apply andb_true_iff in H. apply IH, H.
Qed.

Section Strip.
  Variable inp : input.
  Variable rules : list pexpr.
  Hypothesis Hnows : nows inp.
  Notation rules' := (map strip rules).

  Lemma skip_ws_nows pos : skip_ws inp pos WsSpacesNl = (pos, None).
  Proof.
    unfold skip_ws.
    pose proof (forallb_skipn _ (i_data inp) (N.to_nat (pos - i_offset inp)) Hnows) as H.
    destruct (skipn (N.to_nat (pos - i_offset inp)) (i_data inp)) as [|b t]; [reflexivity|].
    cbn [forallb] in H. apply andb_true_iff in H. destruct H as [Hb _]. apply negb_true_iff in Hb.
    cbn [ws_scan]. rewrite Hb. reflexivity.
  Qed.

  Lemma set_rpos_same n : set_rpos n (node_rpos n) = n.
  Proof. destruct n; reflexivity. Qed.

  Lemma trim_nodes_nows ns : trim_nodes inp WsSpacesNl ns None = (ns, None).
  Proof.
    induction ns as [|n ns IH]; [reflexivity|].
    destruct n as [t v p r|p|p|t ip cs p r]; cbn [trim_nodes node_rpos];
      try (rewrite skip_ws_nows, IH; reflexivity).
    rewrite IH. reflexivity.
  Qed.

  Lemma set_error_same c ce pos :
    cerr c = Some ce -> epos ce = pos -> set_error c (Some (mk_err pos (ecause ce))) = c.
  Proof.
    intros H1 H2. destruct c as [ca ce0 cl gb gf]. cbn [cerr] in H1. subst ce0. destruct ce as [ep ec].
    cbn [epos] in H2. subst ep. unfold set_error, mk_err. cbn [cache cerr calls g_bodies g_fails max_err epos ecause].
    rewrite N.leb_refl. reflexivity.
  Qed.

  Definition pstrip (r r' : ptype) : Prop :=
    forall e c stk l p y, r e c stk l p = y -> y <> OutOfFuel -> r' (strip e) c stk l p = y.
  Definition sstrip (r r' : stype) : Prop :=
    forall q d c stk l p m st y, r q d c stk l p m st = y -> y <> OutOfFuel -> r' (qstrip q) d c stk l p m st = y.

  Lemma seq_lookup_strip k ps d : seq_lookup k (map strip ps) d = option_map strip (seq_lookup k ps d).
  Proof.
    destruct k; cbn [seq_lookup]; rewrite nth_error_map; reflexivity.
  Qed.

  Section Step.
    Variables (rp rp' : ptype) (rs rs' : stype).
    Hypothesis Hp : pstrip rp rp'.
    Hypothesis Hs : sstrip rs rs'.

    Ltac step :=
      match goal with
      | Hy : bind ?o _ <> OutOfFuel |- _ =>
        let E := fresh "E" in let a := fresh "a" in
        destruct o as [a| |] eqn:E;
        [ first [ rewrite (Hp _ _ _ _ _ _ E) by discriminate | rewrite (Hs _ _ _ _ _ _ _ _ _ E) by discriminate ];
          cbn [bind] in *
        | first [ rewrite (Hp _ _ _ _ _ _ E) by discriminate | rewrite (Hs _ _ _ _ _ _ _ _ _ E) by discriminate ];
          reflexivity
        | exfalso; apply Hy; reflexivity ]
      end.

    Lemma any_loop_strip stk l p ps : forall c cp res err nf,
      any_loop rp stk l p ps c cp res err nf <> OutOfFuel ->
      any_loop rp' stk l p (map strip ps) c cp res err nf = any_loop rp stk l p ps c cp res err nf.
    Proof.
      induction ps as [|q ps IH]; intros c cp res err nf Hy; cbn [any_loop map] in *; [reflexivity|].
      step. destruct a as [[[res2 cp2] err2] c'].
      destruct (alt_err p err nf err2) as [err' nf']. apply IH; assumption.
    Qed.

    Lemma choice_loop_strip stk l p ps : forall c cp err nf,
      choice_loop rp stk l p ps c cp err nf <> OutOfFuel ->
      choice_loop rp' stk l p (map strip ps) c cp err nf = choice_loop rp stk l p ps c cp err nf.
    Proof.
      induction ps as [|q ps IH]; intros c cp err nf Hy; cbn [choice_loop map] in *; [reflexivity|].
      step. destruct a as [[[res2 cp2] err2] c'].
      destruct (alt_err p err nf err2) as [err' nf'].
      destruct res2; [apply IH; assumption|reflexivity].
    Qed.

    Lemma parse_step_strip e c stk l p :
      is_nl_trim e = false ->
      parse_step inp rules rp rs e c stk l p <> OutOfFuel ->
      parse_step inp rules' rp' rs' (strip e) c stk l p = parse_step inp rules rp rs e c stk l p.
    Proof.
      intros Hnt Hy. destruct e; cbn [parse_step strip] in *; try reflexivity.
      - (* PRef *) unfold nth_N in *. rewrite nth_error_map.
        destruct (nth_error rules (N.to_nat k)) as [body|]; cbn [option_map]; [|reflexivity].
        apply (Hp _ _ _ _ _ _ eq_refl Hy).
      - (* PMemo *) destruct (cache_get c idx p l); [reflexivity|].
        destruct (remaining inp p + 1 <? map_get idx l); [reflexivity|].
        step. reflexivity.
      - apply any_loop_strip; assumption.
      - apply choice_loop_strip; assumption.
      - (* POpt *) step. reflexivity.
      - (* PSeq *)
        change {| q_kind := k; q_ip := ip; q_single := single; q_ps := map strip ps |}
          with (qstrip {| q_kind := k; q_ip := ip; q_single := single; q_ps := ps |}).
        step. reflexivity.
      - (* PName *) step. reflexivity.
      - (* PLeftTrim *) destruct m; try discriminate; cbn [parse_step];
          (destruct (skip_ws inp p _) as [pos1 wserr]; step; reflexivity).
      - (* PRightTrim *) destruct m; try discriminate; cbn [parse_step]; (step; reflexivity).
      - (* PSuppress *) step. reflexivity.
      - (* PSingle *) step. reflexivity.
    Qed.

    Lemma alts_loop_strip q d stk l p m prefix ns : forall st c,
      alts_loop rs q d stk l p m prefix ns st c <> OutOfFuel ->
      alts_loop rs' (qstrip q) d stk l p m prefix ns st c = alts_loop rs q d stk l p m prefix ns st c.
    Proof.
      induction ns as [|n ns IH]; intros st c Hy; cbn [alts_loop] in *; [reflexivity|].
      step. destruct a as [[stop st'] c'].
      destruct stop; [reflexivity|apply IH; assumption].
    Qed.

    Lemma seq_step_strip : sstrip (seq_step rp rs) (seq_step rp' rs').
    Proof.
      intros q d c stk l p m st y H Hy. subst y. unfold seq_step in *.
      cbn [qstrip q_kind q_ps]. rewrite seq_lookup_strip, map_length.
      destruct (seq_lookup (q_kind q) (q_ps q) d) as [sub|]; cbn [option_map].
      - step. destruct a as [[[res cp] err] c1].
        destruct res; [reflexivity|]. apply alts_loop_strip; assumption.
      - cbn [bind] in *. reflexivity.
    Qed.
  End Step.

  Theorem strip_sim : forall f,
    pstrip (parse inp rules f) (parse inp rules' f) /\ sstrip (seqp inp rules f) (seqp inp rules' f).
  Proof.
    induction f as [|f [IHp IHs]].
    - split; intros until y; intros H Hy; cbn in H; congruence.
    - split.
      + intros e c stk l p y H Hy.
        destruct (is_nl_trim e) eqn:Ent.
        * (* a WsSpacesNl trim: the identity here *)
          assert (Hsame : parse inp rules f (match e with PLeftTrim _ q | PRightTrim _ q => q | _ => e end) c stk l p = y
                          /\ strip e = strip (match e with PLeftTrim _ q | PRightTrim _ q => q | _ => e end)).
          { destruct e; try discriminate; destruct m; try discriminate; (split; [|reflexivity]);
              rewrite parse_S in H; cbn [parse_step] in H.
            - rewrite skip_ws_nows in H.
              destruct (bind_done _ _ _ H Hy) as [[E ->]|[[[[res cp] err] c'] [E Hk]]]; [exact E|].
              rewrite E. rewrite <- Hk.
              assert (Hc : match cerr c' with
                           | Some ce => if (epos ce =? p) && is_notfound ce
                                        then set_error c' (Some (mk_err p (ecause ce))) else c'
                           | None => c'
                           end = c').
              { destruct (cerr c') as [ce|] eqn:Ece; [|reflexivity].
                destruct ((epos ce =? p) && is_notfound ce) eqn:Eb; [|reflexivity].
                apply andb_true_iff in Eb. destruct Eb as [Eb _]. apply N.eqb_eq in Eb.
                apply set_error_same; assumption. }
              rewrite Hc. destruct err; reflexivity.
            - destruct (bind_done _ _ _ H Hy) as [[E ->]|[[[[res cp] err] c'] [E Hk]]]; [exact E|].
              rewrite E. rewrite <- Hk. destruct err as [e0|].
              + rewrite skip_ws_nows. cbn [fst]. rewrite N.ltb_irrefl. destruct (is_wserr e0); reflexivity.
              + rewrite trim_nodes_nows. reflexivity. }
          destruct Hsame as [Hrun Hst]. rewrite Hst.
          destruct (fuel_mono_S inp rules' f) as [Hm _].
          apply Hm; [|exact Hy]. apply (IHp _ _ _ _ _ _ Hrun Hy).
        * rewrite parse_S in *. subst y. apply parse_step_strip; assumption.
      + intros q d c stk l p m st y H Hy. rewrite seqp_S in *.
        revert H Hy. apply seq_step_strip; assumption.
  Qed.
End Strip.

From Parsley Require Import TermTok Complete Pump.

(* ------------------------------------------------------------------ *)
(* 8. Acceptance on the white-space-free sub-language, unbounded.
      [sp_e inp e p q]: the bytes from p to q spell the tree e without any white space — the
      character-level grammar, declaratively. *)

Section Spells.
  Variable inp : input.

  Inductive sp_f : fexp -> N -> N -> Prop :=
  | SpInt z p q :
      p < q -> int_lexeme (suf inp p) = Some (q - p) ->
      starts_with_byte 46 (drop (q - p) (suf inp p)) = false ->
      parse_int_base0 (take (q - p) (suf inp p)) = Some z -> sp_f (FInt z p) p q
  | SpPar pl e pr :
      byte_at inp pl = Some 40 -> sp_e e (pl + 1) pr -> byte_at inp pr = Some 41 ->
      sp_f (FPar pl e pr) pl (pr + 1)
  with sp_t : texp -> N -> N -> Prop :=
  | SpFct f p q : sp_f f p q -> sp_t (TFct f) p q
  | SpMul t o po f p q :
      sp_t t p po -> byte_at inp po = Some (mul_code o) -> sp_f f (po + 1) q -> sp_t (TMul t o po f) p q
  with sp_e : eexp -> N -> N -> Prop :=
  | SpTrm t p q : sp_t t p q -> sp_e (ETrm t) p q
  | SpAdd e o po t p q :
      sp_e e p po -> byte_at inp po = Some (add_code o) -> sp_t t (po + 1) q -> sp_e (EAdd e o po t) p q.
End Spells.

Scheme sp_f_ind2 := Minimality for sp_f Sort Prop
  with sp_t_ind2 := Minimality for sp_t Sort Prop
  with sp_e_ind2 := Minimality for sp_e Sort Prop.
Combined Scheme sp_mutind from sp_f_ind2, sp_t_ind2, sp_e_ind2.

Section Accept.
  Variable inp : input.
  Hypothesis Hbytes : bytes_ok (i_data inp).
  Notation rules' := (map strip arith_rules).
  Definition site' (i : N) : option pexpr := option_map strip (arith_site i).
  Definition factor' : pexpr := strip factor_p.

  Lemma term_parse_int p n z :
    i_offset inp <= p -> int_lexeme (suf inp p) = Some n ->
    starts_with_byte 46 (drop n (suf inp p)) = false ->
    parse_int_base0 (take n (suf inp p)) = Some z ->
    term_parse inp (TLit LInteger) p = ([NTerm (lit_token LInteger) (VInt z) p (p + n)], None).
  Proof.
    intros Hlo Hl Hdot Hv.
    pose proof (int_lexeme_le _ _ Hl) as [Hn1 Hn2].
    assert (Hhi : p <= i_fend inp).
    { unfold suf in Hn2. rewrite skipn_len_N in Hn2. unfold i_fend, i_len. lia. }
    pose proof (term_parse_lit_spec inp LInteger p eq_refl Hbytes (conj Hlo Hhi)) as Hs.
    assert (Hspec : lit_spec (i_cf inp) (i_cd inp) LInteger (suffix (i_data inp) (p - i_offset inp)) = SNode n (Literals.VInt z)).
    { cbn [lit_spec]. unfold spec_integer. change (suffix (i_data inp) (p - i_offset inp)) with (suf inp p).
      rewrite Hl, Hdot, Hv. reflexivity. }
    destruct (term_parse inp (TLit LInteger) p) as [[|[tok v p0 r| | |] [|n2 ns]] [e|]]; try contradiction.
    - destruct Hs as (_ & _ & nf & Hs & _). rewrite Hspec in Hs. discriminate.
    - destruct Hs as (-> & -> & Hlt & Hle & lv & Hs & ->). rewrite Hspec in Hs. inversion Hs; subst.
      replace (p + (r - p)) with r by lia. reflexivity.
  Qed.

  Lemma term_parse_rune p c : byte_at inp p = Some c ->
    term_parse inp (TRune c) p = ([NTerm [c] (VRune c) p (p + 1)], None).
  Proof. intros H. cbn [term_parse]. rewrite H, N.eqb_refl. reflexivity. Qed.

  Notation vd := (valid inp rules').

  (* every spelled tree has a derivation in the trim-free grammar, ending where the spelling ends *)
  Lemma spells_valid :
    (forall f p q, sp_f inp f p q -> i_offset inp <= p ->
        exists d, vd factor' p d /\ dend d = q /\ p < q) /\
    (forall t p q, sp_t inp t p q -> i_offset inp <= p ->
        exists d, vd (PRef 1) p d /\ dend d = q /\ p < q) /\
    (forall e p q, sp_e inp e p q -> i_offset inp <= p ->
        exists d, vd (PRef 0) p d /\ dend d = q /\ p < q).
  Proof.
    apply sp_mutind.
    - (* integer *)
      intros z p q Hlt Hl Hdot Hv Hlo.
      pose proof (term_parse_int p (q - p) z Hlo Hl Hdot Hv) as Ht.
      replace (p + (q - p)) with q in Ht by lia.
      exists (DAlt 0 (DTerm (NTerm (lit_token LInteger) (VInt z) p q))). split; [|split; [reflexivity|exact Hlt]].
      eapply VAny; [reflexivity|]. apply VTerm. exact Ht.
    - (* ( e ) *)
      intros pl e pr Hb1 _ IH Hb2 Hlo.
      destruct (IH ltac:(lia)) as (d & Hd & He & Hlt).
      exists (DAlt 1 (DSeq {| q_kind := SeqOf; q_ip := ISelect 1; q_single := false;
                              q_ps := [PTerm (TRune 40); PRef 0; PTerm (TRune 41)] |} pl
                           [DTerm (NTerm [40] (VRune 40) pl (pl + 1)); d; DTerm (NTerm [41] (VRune 41) pr (pr + 1))])).
      split; [|split; [reflexivity|lia]].
      eapply VAny; [reflexivity|]. apply VSeq; [|reflexivity].
      eapply VScons; [reflexivity|apply VTerm; apply term_parse_rune; exact Hb1|].
      eapply VScons; [reflexivity|exact Hd|]. rewrite He.
      eapply VScons; [reflexivity|apply VTerm; apply term_parse_rune; exact Hb2|]. apply VSnil.
    - (* term = factor *)
      intros f p q _ IH Hlo. destruct (IH Hlo) as (d & Hd & He & Hlt).
      exists (DRef 1 (DMemo 2 (DAlt 1 d))). split; [|split; [exact He|exact Hlt]].
      eapply VRef; [reflexivity|]. apply VMemo. eapply VAny; [reflexivity|]. exact Hd.
    - (* term * factor *)
      intros t o po f p q _ IHt Hb _ IHf Hlo.
      destruct (IHt Hlo) as (d1 & Hd1 & He1 & Hlt1).
      destruct (IHf ltac:(lia)) as (d3 & Hd3 & He3 & Hlt3).
      exists (DRef 1 (DMemo 2 (DAlt 0 (DSeq {| q_kind := SeqOf; q_ip := IUser 1; q_single := false;
                                               q_ps := [PRef 1; PAny [PTerm (TRune 42); PTerm (TRune 47)]; factor'] |} p
           [d1; DAlt (match o with Times => 0 | Divide => 1 end)
                     (DTerm (NTerm [mul_code o] (VRune (mul_code o)) po (po + 1))); d3])))).
      split; [|split; [exact He3|lia]].
      eapply VRef; [reflexivity|]. apply VMemo. eapply VAny; [reflexivity|]. apply VSeq; [|reflexivity].
      eapply VScons; [reflexivity|exact Hd1|]. rewrite He1.
      eapply VScons; [reflexivity| |].
      { destruct o; (eapply VAny; [reflexivity|]); apply VTerm; apply term_parse_rune; exact Hb. }
      change (dend (DAlt (match o with Times => 0%nat | Divide => 1%nat end)
                         (DTerm (NTerm [mul_code o] (VRune (mul_code o)) po (po + 1))))) with (po + 1).
      eapply VScons; [reflexivity|exact Hd3|]. apply VSnil.
    - (* expr = term *)
      intros t p q _ IH Hlo. destruct (IH Hlo) as (d & Hd & He & Hlt).
      exists (DRef 0 (DMemo 1 (DAlt 1 d))). split; [|split; [exact He|exact Hlt]].
      eapply VRef; [reflexivity|]. apply VMemo. eapply VAny; [reflexivity|]. exact Hd.
    - (* expr + term *)
      intros e o po t p q _ IHe Hb _ IHt Hlo.
      destruct (IHe Hlo) as (d1 & Hd1 & He1 & Hlt1).
      destruct (IHt ltac:(lia)) as (d3 & Hd3 & He3 & Hlt3).
      exists (DRef 0 (DMemo 1 (DAlt 0 (DSeq {| q_kind := SeqOf; q_ip := IUser 1; q_single := false;
                                               q_ps := [PRef 0; PAny [PTerm (TRune 43); PTerm (TRune 45)]; PRef 1] |} p
           [d1; DAlt (match o with Plus => 0 | Minus => 1 end)
                     (DTerm (NTerm [add_code o] (VRune (add_code o)) po (po + 1))); d3])))).
      split; [|split; [exact He3|lia]].
      eapply VRef; [reflexivity|]. apply VMemo. eapply VAny; [reflexivity|]. apply VSeq; [|reflexivity].
      eapply VScons; [reflexivity|exact Hd1|]. rewrite He1.
      eapply VScons; [reflexivity| |].
      { destruct o; (eapply VAny; [reflexivity|]); apply VTerm; apply term_parse_rune; exact Hb. }
      change (dend (DAlt (match o with Plus => 0%nat | Minus => 1%nat end)
                         (DTerm (NTerm [add_code o] (VRune (add_code o)) po (po + 1))))) with (po + 1).
      eapply VScons; [reflexivity|exact Hd3|]. apply VSnil.
  Qed.
End Accept.

Section Accept2.
  Variable inp : input.
  Hypothesis Hbytes : bytes_ok (i_data inp).
  Notation rules' := (map strip arith_rules).

  (* the declarative spelling agrees with the reference's lexer: the reference accepts what is
     spelled, with the tree's value *)
  Lemma spells_lex :
    (forall f p q, sp_f inp f p q -> i_offset inp <= p ->
        lexfrom inp p false = tapp (ftoks f) (lexfrom inp q true) /\ p < q) /\
    (forall t p q, sp_t inp t p q -> i_offset inp <= p ->
        lexfrom inp p false = tapp (ttoks t) (lexfrom inp q true) /\ p < q) /\
    (forall e p q, sp_e inp e p q -> i_offset inp <= p ->
        lexfrom inp p false = tapp (etoks e) (lexfrom inp q true) /\ p < q).
  Proof.
    apply sp_mutind.
    - intros z p q Hlt Hl Hdot Hv Hlo. split; [|exact Hlt].
      rewrite (lexfrom_int inp p z q Hlo Hl Hlt Hdot Hv). rewrite tcons_tapp. reflexivity.
    - intros pl e pr Hb1 _ IH Hb2 Hlo. destruct (IH ltac:(lia)) as [Hlx Hlt]. split; [|lia].
      rewrite (lexfrom_lp inp pl false Hlo Hb1), Hlx, (lexfrom_rp inp pr true ltac:(lia) Hb2).
      rewrite !tcons_tapp, !tapp_tapp. cbn [ftoks app]. reflexivity.
    - intros f p q _ IH Hlo. exact (IH Hlo).
    - intros t o po f p q _ IHt Hb _ IHf Hlo.
      destruct (IHt Hlo) as [Hlx1 Hlt1]. destruct (IHf ltac:(lia)) as [Hlx3 Hlt3]. split; [|lia].
      rewrite Hlx1, (lexfrom_op inp po (mul_code o) ltac:(lia) Hb) by (destruct o; reflexivity).
      rewrite Hlx3. rewrite tcons_tapp, !tapp_tapp. cbn [ttoks]. rewrite <- app_assoc. reflexivity.
    - intros t p q _ IH Hlo. exact (IH Hlo).
    - intros e o po t p q _ IHe Hb _ IHt Hlo.
      destruct (IHe Hlo) as [Hlx1 Hlt1]. destruct (IHt ltac:(lia)) as [Hlx3 Hlt3]. split; [|lia].
      rewrite Hlx1, (lexfrom_op inp po (add_code o) ltac:(lia) Hb) by (destruct o; reflexivity).
      rewrite Hlx3. rewrite tcons_tapp, !tapp_tapp. cbn [etoks]. rewrite <- app_assoc. reflexivity.
  Qed.

  Theorem spells_ref e :
    sp_e inp e (i_offset inp) (i_offset inp + i_len inp) ->
    arith_ref (i_data inp) (i_offset inp) = Some (eval e).
  Proof.
    intros H. destruct (proj2 (proj2 spells_lex) e _ _ H (N.le_refl _)) as [Hlx _].
    unfold arith_ref, lex. rewrite <- (suf_offset inp) at 1. fold (lexfrom inp (i_offset inp) false).
    rewrite Hlx. unfold lexfrom at 1. rewrite suf_end. cbn [lex_at tapp]. rewrite app_nil_r.
    apply ref_complete.
  Qed.

  Lemma rules'_wf : wf_rules rules' site'.
  Proof.
    intros k body H. unfold nth_N in H.
    destruct (N.to_nat k) as [|[|n]]; cbn in H; [| |destruct n; discriminate H];
      injection H as <-; vm_compute; repeat split.
  Qed.
  Lemma rules'_mono : forall k body, nth_N rules' k = Some body -> mono body = true.
  Proof.
    intros k body H. unfold nth_N in H.
    destruct (N.to_nat k) as [|[|n]]; cbn in H; [| |destruct n; discriminate H]; injection H as <-; reflexivity.
  Qed.
  Lemma rules'_ef : forall k body, nth_N rules' k = Some body -> endfree body = true.
  Proof.
    intros k body H. unfold nth_N in H.
    destruct (N.to_nat k) as [|[|n]]; cbn in H; [| |destruct n; discriminate H]; injection H as <-; reflexivity.
  Qed.

  Lemma parse_top_strip fuel root t : nows inp ->
    parse_top inp arith_rules fuel root = Ok t -> parse_top inp rules' fuel (strip root) = Ok t.
  Proof.
    intros Hn H. unfold parse_top in *. apply bind_ok in H. destruct H as (r & Hr & Hk).
    unfold run in *. destruct (strip_sim inp arith_rules Hn fuel) as [Hp _].
    rewrite (Hp _ _ _ _ _ _ Hr) by discriminate. cbn [bind]. exact Hk.
  Qed.

  (* C05_accepts on the white-space-free sub-language: if the input has no white-space byte and
     spells a tree of the grammar, Parse (on THE grammar, with its trimming wrappers) returns a
     node, not an error. *)
  Theorem accepts_nows fuel t e :
    nows inp -> sp_e inp e (i_offset inp) (i_offset inp + i_len inp) ->
    parse_top inp arith_rules fuel (sentence arith_root) = Ok t ->
    exists ns c, t = TopNode ns c.
  Proof.
    intros Hn Hsp Ht. apply (parse_top_strip _ _ _ Hn) in Ht.
    change (strip (sentence arith_root)) with (sentence (PRef 0)) in Ht.
    destruct (proj2 (proj2 (spells_valid inp Hbytes)) e _ _ Hsp (N.le_refl _)) as (d & Hd & He & _).
    destruct (C04_sentence_complete inp rules' site' rules'_wf rules'_mono rules'_ef (PRef 0)
                ltac:(vm_compute; reflexivity) eq_refl eq_refl fuel t d Ht Hd He) as (n0 & c & _ & ->).
    eexists _, _. reflexivity.
  Qed.
End Accept2.

(* C05_accepts_partial: for every input without white space that spells a tree e of the grammar,
   the model of parsley.Evaluate on THE grammar, with the fuel of C02, returns the value of e (or
   its division by zero) — the reference's answer — and never a parse error. *)
Theorem C05_accepts_nows inp fuel e :
  bytes_ok (i_data inp) -> nows inp -> (Termination.fuel_bound inp arith_K arith_Sz <= fuel)%nat ->
  sp_e inp e (i_offset inp) (i_offset inp + i_len inp) ->
  arith_ref (i_data inp) (i_offset inp) = Some (eval e) /\
  arith_evaluate inp fuel = Ok (match eval e with AV z => EvValue (ValLit (VInt z)) | ADiv0 p => EvEvalErr (div0_err p) end).
Proof.
  intros Hb Hn Hf Hsp. pose proof (spells_ref inp e Hsp) as Hr. split; [exact Hr|].
  destruct (C05_total inp fuel Hb Hf) as (ev & Hev & Hm). rewrite Hev. f_equal.
  destruct ev as [v|pe|ee].
  - destruct Hm as (z & -> & E). rewrite Hr in E. inversion E as [E']. rewrite E'. reflexivity.
  - exfalso. unfold arith_evaluate in Hev. apply bind_ok in Hev. destruct Hev as (t & Ht & Hk).
    destruct (accepts_nows inp Hb fuel t e Hn Hsp Ht) as (ns & c & ->).
    destruct (arith_eval_result ns) as [[v|e0]| |]; discriminate.
  - destruct Hm as (p & -> & E). rewrite Hr in E. inversion E as [E']. rewrite E'. reflexivity.
Qed.

(* non-vacuity: "(1-2)*-3/0" spells a tree *)
Example sp_example :
  let inp := mk_input (bytes "2*-3") 7 in
  sp_e inp (ETrm (TMul (TFct (FInt 2 7)) Times 8 (FInt (-3) 9))) 7 11 /\ nows inp /\ bytes_ok (i_data inp).
Proof.
  cbn zeta. split; [|split; [reflexivity|repeat constructor]].
  apply SpTrm. eapply SpMul with (po := 8).
  - apply SpFct. apply SpInt; [reflexivity|reflexivity|reflexivity|reflexivity].
  - reflexivity.
  - apply (SpInt _ (-3) 9 11); reflexivity.
Qed.
