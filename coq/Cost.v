(* Cost.v — C17: the call count of the engine model on the six grammar families of the
   property, as a function of the input length, and the kernel-computed bounded theorem:
   for every n in the stated finite domain, doubling the input multiplies the call count by
   at most sixteen and calls(n) <= C (n+1)^4.  The bound is part of the statement; it is a
   proof about the model for exactly that domain (see DESIGN.md C17). *)
From Coq Require Import String List NArith ZArith Bool Lia.
From Parsley Require Import Obs Base Grammar Engine.
Import ListNotations.
Open Scope N_scope.

Definition rn (c : N) : pexpr := PTerm (TRune c).
Definition sq (ps : list pexpr) : pexpr := PSeq SeqOf INone false None ps.

Record family := { fm_rules : list pexpr; fm_root : pexpr; fm_input : nat -> list N (* input of size parameter n *);
                   fm_domain : list nat (* the size parameters the theorem covers *) }.
(* n = 8, 16, ..., 8k *)
Definition upto8 (k : nat) : list nat := map (fun i => (8 * i)%nat) (seq 1 k).

Fixpoint rep {A} (n : nat) (l : list A) : list A := match n with O => [] | S k => l ++ rep k l end.

(* 1. direct left recursion: P -> P b | a on a b^(n-1) *)
Definition fam_direct : family :=
  {| fm_rules := [PMemo 1 (PAny [sq [PRef 0; rn 98]; rn 97])]; fm_root := PRef 0;
     fm_input := fun n => 97 :: repeat 98 (n - 1); fm_domain := upto8 20 |}.
(* 2. expr -> expr + term | term ; term -> term * factor | factor ; factor -> 1 | ( expr ) on 1+1*1+1*... *)
Definition fam_arith : family :=
  {| fm_rules := [PMemo 1 (PAny [sq [PRef 0; rn 43; PRef 1]; PRef 1]);
                  PMemo 2 (PAny [sq [PRef 1; rn 42; PRef 2]; PRef 2]);
                  PMemo 3 (PAny [rn 49; sq [rn 40; PRef 0; rn 41]])];
     fm_root := PRef 0;
     fm_input := fun n => 49 :: rep (n / 4) [43; 49; 42; 49];
     fm_domain := upto8 10 (* inputs up to 160 bytes: the model's list-based cache makes longer ones slow to evaluate in the kernel *) |}.
(* 3. mutually left-recursive pair: A -> B x | a ; B -> A y | b on a (y x)^k *)
Definition fam_mutual : family :=
  {| fm_rules := [PMemo 1 (PAny [sq [PRef 1; rn 120]; rn 97]); PMemo 2 (PAny [sq [PRef 0; rn 121]; rn 98])];
     fm_root := PRef 0;
     fm_input := fun n => 97 :: rep (n / 2) [121; 120]; fm_domain := upto8 20 |}.
(* 4. hidden left recursion: P -> x? P b | a on a b^(n-1) *)
Definition fam_hidden : family :=
  {| fm_rules := [PMemo 1 (PAny [sq [POpt (rn 120); PRef 0; rn 98]; rn 97])]; fm_root := PRef 0;
     fm_input := fun n => 97 :: repeat 98 (n - 1); fm_domain := upto8 20 |}.
(* 5. nested brackets: S -> ( S ) | empty on (^k )^k *)
Definition fam_brackets : family :=
  {| fm_rules := [PMemo 1 (PAny [sq [rn 40; PRef 0; rn 41]; PEmpty])]; fm_root := PRef 0;
     fm_input := fun n => repeat 40 (n / 2) ++ repeat 41 (n / 2); fm_domain := upto8 20 |}.
(* 6. separated lists: L -> item (, item)* with item -> a on a,a,...,a *)
Definition fam_list : family :=
  {| fm_rules := [PMemo 1 (PSeq (SSepBy false) INone false None [rn 97; rn 44])]; fm_root := PRef 0;
     fm_input := fun n => 97 :: rep (n / 2) [44; 97]; fm_domain := upto8 20 |}.

Definition families : list family := [fam_direct; fam_arith; fam_mutual; fam_hidden; fam_brackets; fam_list].

Definition COST_FUEL : nat := N.to_nat 20000.
(* Context.CallCount after parsley.Parse(Sentence(root)); None if the run does not finish or fails *)
Definition calls_of (f : family) (n : nat) : option N :=
  let inp := mk_input (fm_input f n) 1 in
  match parse_top inp (fm_rules f) COST_FUEL (sentence (fm_root f)) with
  | Ok (TopNode _ c) => Some (calls c)
  | _ => None
  end.

Definition growth_ok (f : family) (C : N) (n : nat) : bool :=
  match calls_of f n, calls_of f (2 * n) with
  | Some a, Some b => (b <=? 16 * a) && (a <=? C * (N.of_nat n + 1) ^ 4) && (b <=? C * (2 * N.of_nat n + 1) ^ 4)
  | _, _ => false
  end.

Definition COST_C : N := 4.

Definition all_growth_ok : bool := forallb (fun f => forallb (growth_ok f COST_C) (fm_domain f)) families.
