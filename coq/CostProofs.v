(* CostProofs.v — C17: kernel-computed growth bounds over the stated finite domain, lifted to a
   quantified statement with forallb_forall. *)
From Coq Require Import String List NArith Bool.
From Parsley Require Import Obs Base Grammar Engine Cost.
Import ListNotations.
Open Scope N_scope.

(* stated in unfolded form so that later uses are syntactic (the kernel must never reduce this closed term
   with the lazy machine: only the VM evaluates it, once, here) *)
Lemma all_growth_ok_true : forallb (fun f => forallb (growth_ok f COST_C) (fm_domain f)) families = true.
Proof. vm_cast_no_check (eq_refl true). Qed.

Lemma forallb2_forall (F : list family) :
  forallb (fun f => forallb (growth_ok f COST_C) (fm_domain f)) F = true ->
  forall f n, In f F -> In n (fm_domain f) -> growth_ok f COST_C n = true.
Proof.
  intros H f n Hf Hn.
  pose proof (proj1 (forallb_forall _ _) H f Hf) as H1. cbv beta in H1.
  exact (proj1 (forallb_forall _ _) H1 n Hn).
Qed.

Lemma growth_ok_elim f C n : growth_ok f C n = true ->
  exists a b, calls_of f n = Some a /\ calls_of f (2 * n) = Some b /\
              b <= 16 * a /\ a <= C * (N.of_nat n + 1) ^ 4 /\ b <= C * (2 * N.of_nat n + 1) ^ 4.
Proof.
  unfold growth_ok. intros H.
  destruct (calls_of f n) as [a|] eqn:Ea; [|discriminate H].
  destruct (calls_of f (2 * n)) as [b|] eqn:Eb; [|discriminate H].
  apply andb_true_iff in H. destruct H as [H H3]. apply andb_true_iff in H. destruct H as [H1 H2].
  apply N.leb_le in H1. apply N.leb_le in H2. apply N.leb_le in H3.
  exists a, b. split; [reflexivity|]. split; [reflexivity|]. split; [exact H1|]. split; [exact H2|exact H3].
Qed.

(* for each of the six families and EVERY n in the family's domain ({8, 16, ..., 160}; {8, ..., 80} for the
   arithmetic family): the parses of the size-n and size-2n inputs succeed, calls(2n) <= 16 calls(n),
   calls(n) <= 4 (n+1)^4 and calls(2n) <= 4 (2n+1)^4 *)
Theorem growth_bounded : forall f n, In f families -> In n (fm_domain f) ->
  exists a b, calls_of f n = Some a /\ calls_of f (2 * n) = Some b /\
              b <= 16 * a /\ a <= COST_C * (N.of_nat n + 1) ^ 4 /\ b <= COST_C * (2 * N.of_nat n + 1) ^ 4.
Proof.
  intros f n Hf Hn. apply growth_ok_elim.
  exact (forallb2_forall families all_growth_ok_true f n Hf Hn).
Qed.

(* the call count is a function of grammar and input: the same on every run *)
Theorem calls_deterministic : forall f n a b, calls_of f n = a -> calls_of f n = b -> a = b.
Proof. intros; congruence. Qed.
