(* EngineFacts.v — fuel monotonicity of the engine: a run that does not run out of fuel
   gives the same outcome with any larger fuel.  Also the unfolding equations used by
   every lifting step ([parse_S], [seqp_S]). *)
From Coq Require Import String List NArith Bool Arith Lia.
From Parsley Require Import Obs Base Grammar Engine.
Import ListNotations.
Open Scope N_scope.

Lemma bind_ok {A B} (o : outcome A) (k : A -> outcome B) x :
  bind o k = Ok x -> exists a, o = Ok a /\ k a = Ok x.
Proof. destruct o as [a| |]; cbn [bind]; intros H; [exists a; auto | discriminate | discriminate]. Qed.

(* a bind that did not run out of fuel: either the first part panicked or it returned *)
Lemma bind_done {A B} (o : outcome A) (k : A -> outcome B) y :
  bind o k = y -> y <> OutOfFuel -> (o = Panic /\ y = Panic) \/ exists a, o = Ok a /\ k a = y.
Proof.
  destruct o as [a| |]; cbn [bind]; intros H Hy.
  - right; exists a; auto.
  - left; auto.
  - congruence.
Qed.

Definition ptype := pexpr -> ctx -> stack -> intmap -> N -> outcome pres.
Definition stype := seqinfo -> nat -> ctx -> stack -> intmap -> N -> bool -> seqst -> outcome sres.

Lemma parse_S inp rules f e c stk l p :
  parse inp rules (S f) e c stk l p =
  parse_step inp rules (fun e c stk l p => parse inp rules f e c stk l p)
             (fun q d c stk l p m st => seqp inp rules f q d c stk l p m st) e c stk l p.
Proof. reflexivity. Qed.
Lemma seqp_S inp rules f q d c stk l p m st :
  seqp inp rules (S f) q d c stk l p m st =
  seq_step (fun e c stk l p => parse inp rules f e c stk l p)
           (fun q d c stk l p m st => seqp inp rules f q d c stk l p m st) q d c stk l p m st.
Proof. reflexivity. Qed.

Section Mono.
  Variable inp : input.
  Variable rules : list pexpr.

  Definition pmono (r r' : ptype) :=
    forall e c stk l p y, r e c stk l p = y -> y <> OutOfFuel -> r' e c stk l p = y.
  Definition smono (r r' : stype) :=
    forall q d c stk l p m st y, r q d c stk l p m st = y -> y <> OutOfFuel -> r' q d c stk l p m st = y.

  Section Step.
    Variables (rp rp' : ptype) (rs rs' : stype).
    Hypothesis Hp : pmono rp rp'.
    Hypothesis Hs : smono rs rs'.

    (* case analysis on the recursive call under the leading bind; goal: f rp' = f rp *)
    Ltac step :=
      match goal with
      | Hy : bind ?o _ <> OutOfFuel |- _ =>
        let E := fresh "E" in let a := fresh "a" in
        destruct o as [a| |] eqn:E;
        [ first [ rewrite (Hp _ _ _ _ _ _ E) by discriminate | rewrite (Hs _ _ _ _ _ _ _ _ _ E) by discriminate ];
          cbn [bind] in *
        | first [ rewrite (Hp _ _ _ _ _ _ E) by discriminate | rewrite (Hs _ _ _ _ _ _ _ _ _ E) by discriminate ];
          reflexivity
        | exfalso; apply Hy; reflexivity ]
      end.

    Lemma any_loop_mono stk l p ps : forall c cp res err nf,
      any_loop rp stk l p ps c cp res err nf <> OutOfFuel ->
      any_loop rp' stk l p ps c cp res err nf = any_loop rp stk l p ps c cp res err nf.
    Proof.
      induction ps as [|q ps IH]; intros c cp res err nf Hy; cbn [any_loop] in *; [reflexivity|].
      step. destruct a as [[[res2 cp2] err2] c'].
      destruct (alt_err p err nf err2) as [err' nf']. apply IH; assumption.
    Qed.

    Lemma choice_loop_mono stk l p ps : forall c cp err nf,
      choice_loop rp stk l p ps c cp err nf <> OutOfFuel ->
      choice_loop rp' stk l p ps c cp err nf = choice_loop rp stk l p ps c cp err nf.
    Proof.
      induction ps as [|q ps IH]; intros c cp err nf Hy; cbn [choice_loop] in *; [reflexivity|].
      step. destruct a as [[[res2 cp2] err2] c'].
      destruct (alt_err p err nf err2) as [err' nf'].
      destruct res2; [apply IH; assumption|reflexivity].
    Qed.

    Lemma parse_step_mono : pmono (parse_step inp rules rp rs) (parse_step inp rules rp' rs').
    Proof.
      intros e c stk l p y H Hy. subst y. destruct e; cbn [parse_step] in *; try reflexivity.
      - (* PRef *) destruct (nth_N rules k); [apply Hp; [reflexivity|assumption]|reflexivity].
      - (* PMemo *) destruct (cache_get c idx p l); [reflexivity|].
        destruct (remaining inp p + 1 <? map_get idx l); [reflexivity|].
        step. reflexivity.
      - apply any_loop_mono; assumption.
      - apply choice_loop_mono; assumption.
      - (* POpt *) step. reflexivity.
      - (* PSeq *) step. reflexivity.
      - (* PName *) step. reflexivity.
      - (* PLeftTrim *) destruct (skip_ws inp p m) as [pos1 wserr]. step. reflexivity.
      - (* PRightTrim *) step. reflexivity.
      - (* PSuppress *) step. reflexivity.
      - (* PSingle *) step. reflexivity.
    Qed.

    Lemma alts_loop_mono q d stk l p m prefix ns : forall st c,
      alts_loop rs q d stk l p m prefix ns st c <> OutOfFuel ->
      alts_loop rs' q d stk l p m prefix ns st c = alts_loop rs q d stk l p m prefix ns st c.
    Proof.
      induction ns as [|n ns IH]; intros st c Hy; cbn [alts_loop] in *; [reflexivity|].
      step. destruct a as [[stop st'] c'].
      destruct stop; [reflexivity|apply IH; assumption].
    Qed.

    Lemma seq_step_mono : smono (seq_step rp rs) (seq_step rp' rs').
    Proof.
      intros q d c stk l p m st y H Hy. subst y. unfold seq_step in *.
      destruct (seq_lookup (q_kind q) (q_ps q) d) as [sub|].
      - step. destruct a as [[[res cp] err] c1].
        destruct res; [reflexivity|]. apply alts_loop_mono; assumption.
      - cbn [bind] in *. reflexivity.
    Qed.
  End Step.

  Theorem fuel_mono_S : forall f,
    pmono (parse inp rules f) (parse inp rules (S f)) /\ smono (seqp inp rules f) (seqp inp rules (S f)).
  Proof.
    induction f as [|f [IHp IHs]].
    - split; intros until y; intros H Hy; cbn in H; congruence.
    - split.
      + intros e c stk l p y H Hy. rewrite parse_S in *.
        revert H Hy. apply parse_step_mono; assumption.
      + intros q d c stk l p m st y H Hy. rewrite seqp_S in *.
        revert H Hy. apply seq_step_mono; assumption.
  Qed.

  Theorem fuel_mono : forall f f', (f <= f')%nat ->
    pmono (parse inp rules f) (parse inp rules f') /\ smono (seqp inp rules f) (seqp inp rules f').
  Proof.
    intros f f' Hle. induction Hle as [|f' Hle [IHp IHs]].
    - split; intros until y; intros H _; exact H.
    - destruct (fuel_mono_S f') as [Hp Hs]. split.
      + intros e c stk l p y H Hy. apply Hp; [apply IHp; assumption|assumption].
      + intros q d c stk l p m st y H Hy. apply Hs; [apply IHs; assumption|assumption].
  Qed.

  (* the answer does not depend on the fuel, once there is enough *)
  Corollary parse_fuel_indep f f' e c stk l p x y :
    parse inp rules f e c stk l p = x -> x <> OutOfFuel ->
    parse inp rules f' e c stk l p = y -> y <> OutOfFuel -> x = y.
  Proof.
    intros Hx Hnx Hy Hny. destruct (Nat.le_ge_cases f f') as [Hle|Hle].
    - destruct (fuel_mono f f' Hle) as [Hp _]. rewrite (Hp _ _ _ _ _ _ Hx Hnx) in Hy. exact Hy.
    - destruct (fuel_mono f' f Hle) as [Hp _]. rewrite (Hp _ _ _ _ _ _ Hy Hny) in Hx. symmetry; exact Hx.
  Qed.
End Mono.
