(* ArithSpecProofs.v — C05, theorems about the reference evaluator itself: it IS the standard
   semantics.

   1. [ref_complete] / [ref_sound] / [ref_iff]: arith_ref_toks accepts exactly the token lists
      of the LEFT-RECURSIVE token grammar
          E -> E (+|-) T | T      T -> T ( * | / ) F | F      F -> INT | '(' E ')'
      (trees [eexp]/[texp]/[fexp], spelled by [etoks], evaluated structurally by [eval]) and
      returns the value of the tree — the equivalence of the iterative reference and the
      left-nested trees the grammar builds, fuel included (the bounds chosen in
      ArithSpec.arith_ref_toks always suffice).  Corollary [tokens_determine_value].
   2. Precedence and left associativity as equations on token lists a op1 b op2 c.
   3. [ref_roundtrip]: arith_ref_toks (print t) = Some (eval_ast t) for an ordinary binary AST
      printed with full parenthesisation.
   4. wrap64 is the identity on int64 and always lands in int64; white space is transparent
      for the lexer; Examples fixing the sign handling of the language. *)
From Coq Require Import String List NArith ZArith Bool Lia.
From Parsley Require Import Obs Base FileSet Reader Literals ArithSpec.
Import ListNotations.
Open Scope N_scope.

(* ------------------------------------------------------------------ *)
(* Trees of the left-recursive token grammar                           *)

Inductive addop := Plus | Minus.
Inductive mulop := Times | Divide.
Definition add_code (o : addop) : N := match o with Plus => 43 | Minus => 45 end.
Definition mul_code (o : mulop) : N := match o with Times => 42 | Divide => 47 end.

Inductive fexp := FInt (z : Z) (p : N) | FPar (pl : N) (e : eexp) (pr : N)
with texp := TFct (f : fexp) | TMul (t : texp) (o : mulop) (p : N) (f : fexp)
with eexp := ETrm (t : texp) | EAdd (e : eexp) (o : addop) (p : N) (t : texp).

Scheme fexp_mut := Induction for fexp Sort Prop
  with texp_mut := Induction for texp Sort Prop
  with eexp_mut := Induction for eexp Sort Prop.
Combined Scheme exp_mutind from fexp_mut, texp_mut, eexp_mut.

Fixpoint ftoks (f : fexp) : toks :=
  match f with
  | FInt z p => [(TInt z, p)]
  | FPar pl e pr => (TLP, pl) :: etoks e ++ [(TRP, pr)]
  end
with ttoks (t : texp) : toks :=
  match t with
  | TFct f => ftoks f
  | TMul t o p f => ttoks t ++ (TOp (mul_code o), p) :: ftoks f
  end
with etoks (e : eexp) : toks :=
  match e with
  | ETrm t => ttoks t
  | EAdd e o p t => etoks e ++ (TOp (add_code o), p) :: ttoks t
  end.

(* the structural semantics: what the interpreters compute on the grammar's trees *)
Fixpoint fval (f : fexp) : aval :=
  match f with FInt z _ => AV z | FPar _ e _ => eval e end
with tval (t : texp) : aval :=
  match t with TFct f => fval f | TMul t o p f => binop (mul_code o) p (tval t) (fval f) end
with eval (e : eexp) : aval :=
  match e with ETrm t => tval t | EAdd e o p t => binop (add_code o) p (eval e) (tval t) end.

(* number of operators on the spine *)
Fixpoint tops (t : texp) : nat := match t with TFct _ => O | TMul t _ _ _ => S (tops t) end.
Fixpoint eops (e : eexp) : nat := match e with ETrm _ => O | EAdd e _ _ _ => S (eops e) end.

Lemma tops_le t : (tops t <= length (ttoks t))%nat.
Proof. induction t as [f|t IH o p f]; cbn [tops ttoks]; [lia|]. rewrite app_length. cbn [length]. lia. Qed.
Lemma eops_le e : (eops e <= length (etoks e))%nat.
Proof. induction e as [t|e IH o p t]; cbn [eops etoks]; [lia|]. rewrite app_length. cbn [length]. lia. Qed.

Lemma add_code_addop o : is_addop (add_code o) = true.
Proof. destruct o; reflexivity. Qed.
Lemma add_code_not_mulop o : is_mulop (add_code o) = false.
Proof. destruct o; reflexivity. Qed.
Lemma mul_code_mulop o : is_mulop (mul_code o) = true.
Proof. destruct o; reflexivity. Qed.

(* ------------------------------------------------------------------ *)
(* The loop                                                            *)

Definition stops (isop : N -> bool) (ts : toks) : Prop :=
  match ts with (TOp c, _) :: _ => isop c = false | _ => True end.

Lemma chain_step operand isop n acc c p r v r' :
  isop c = true -> operand r = Some (v, r') ->
  chain operand isop (S n) acc ((TOp c, p) :: r) = chain operand isop n (binop c p acc v) r'.
Proof. intros H1 H2. cbn [chain]. rewrite H1, H2. reflexivity. Qed.

Lemma chain_stop operand isop n acc ts :
  stops isop ts -> chain operand isop (S n) acc ts = Some (acc, ts).
Proof.
  destruct ts as [|[[z|c| |] p] r]; cbn [chain stops]; try reflexivity.
  intros H; rewrite H; reflexivity.
Qed.

(* ------------------------------------------------------------------ *)
(* Completeness: every tree is accepted with its value                 *)

Definition F_ok (f : fexp) : Prop := forall k N rest,
  (length (ftoks f) < k)%nat -> (length (ftoks f) < N)%nat ->
  factor k N (ftoks f ++ rest) = Some (fval f, rest).
Definition T_ok (t : texp) : Prop := forall k N n rest,
  (length (ttoks t) < k)%nat -> (length (ttoks t) < N)%nat ->
  term_with (fun x => factor k N x) (tops t + n) (ttoks t ++ rest) =
  chain (fun x => factor k N x) is_mulop n (tval t) rest.
Definition E_ok (e : eexp) : Prop := forall k N M n rest,
  (length (etoks e) < k)%nat -> (length (etoks e) < N)%nat -> (length (etoks e) < M)%nat ->
  stops is_mulop rest ->
  match term_with (fun x => factor k N x) M (etoks e ++ rest) with
  | Some (v, r) => chain (term_with (fun x => factor k N x) M) is_addop (eops e + n) v r
  | None => None
  end = chain (term_with (fun x => factor k N x) M) is_addop n (eval e) rest.

(* a term followed by something that is not a multiplicative operator is parsed up to there *)
Lemma T_ok_stop t : T_ok t -> forall k N M rest,
  (length (ttoks t) < k)%nat -> (length (ttoks t) < N)%nat -> (length (ttoks t) < M)%nat ->
  stops is_mulop rest ->
  term_with (fun x => factor k N x) M (ttoks t ++ rest) = Some (tval t, rest).
Proof.
  intros HT k N M rest Hk HN HM Hs.
  pose proof (tops_le t) as Hle.
  pose proof (HT k N (M - tops t)%nat rest Hk HN) as H.
  replace (tops t + (M - tops t))%nat with M in H by lia.
  rewrite H. destruct (M - tops t)%nat as [|m] eqn:Em; [lia|].
  apply chain_stop. exact Hs.
Qed.

Lemma exp_ok : (forall f, F_ok f) /\ (forall t, T_ok t) /\ (forall e, E_ok e).
Proof.
  apply exp_mutind.
  - (* FInt *) intros z p k N rest Hk _. destruct k as [|k]; [cbn in Hk; lia|]. reflexivity.
  - (* FPar *) intros pl e IHe pr k N rest Hk HN.
    cbn [ftoks length] in Hk, HN. rewrite app_length in Hk, HN. cbn [length] in Hk, HN.
    destruct k as [|k]; [lia|].
    cbn [ftoks app factor]. rewrite <- app_assoc. cbn [app].
    unfold expr_with.
    pose proof (eops_le e) as Hle.
    assert (Hs : stops is_mulop ((TRP, pr) :: rest)) by exact I.
    pose proof (IHe k N N (N - eops e)%nat ((TRP, pr) :: rest) ltac:(lia) ltac:(lia) ltac:(lia) Hs) as H.
    replace (eops e + (N - eops e))%nat with N in H by lia.
    rewrite H. destruct (N - eops e)%nat as [|m] eqn:Em; [lia|].
    rewrite chain_stop by exact I. reflexivity.
  - (* TFct *) intros f IHf k N n rest Hk HN. cbn [ttoks tops tval Nat.add] in *.
    unfold term_with. rewrite (IHf k N rest Hk HN). reflexivity.
  - (* TMul *) intros t IHt o p f IHf k N n rest Hk HN.
    cbn [ttoks] in Hk, HN. rewrite app_length in Hk, HN. cbn [length] in Hk, HN.
    cbn [ttoks tops tval]. rewrite <- app_assoc. cbn [app].
    replace (S (tops t) + n)%nat with (tops t + S n)%nat by lia.
    rewrite (IHt k N (S n) _ ltac:(lia) ltac:(lia)).
    apply chain_step; [apply mul_code_mulop|].
    apply IHf; lia.
  - (* ETrm *) intros t IHt k N M n rest Hk HN HM Hs. cbn [etoks eops eval Nat.add] in *.
    rewrite (T_ok_stop t IHt k N M rest Hk HN HM Hs). reflexivity.
  - (* EAdd *) intros e IHe o p t IHt k N M n rest Hk HN HM Hs.
    cbn [etoks] in Hk, HN, HM. rewrite app_length in Hk, HN, HM. cbn [length] in Hk, HN, HM.
    cbn [etoks eops eval]. rewrite <- app_assoc. cbn [app].
    replace (S (eops e) + n)%nat with (eops e + S n)%nat by lia.
    assert (Hs' : stops is_mulop ((TOp (add_code o), p) :: ttoks t ++ rest))
      by (cbn [stops]; apply add_code_not_mulop).
    rewrite (IHe k N M (S n) _ ltac:(lia) ltac:(lia) ltac:(lia) Hs').
    apply chain_step; [apply add_code_addop|].
    apply T_ok_stop; try lia; assumption.
Qed.

Theorem ref_complete : forall e, arith_ref_toks (etoks e) = Some (eval e).
Proof.
  intros e. unfold arith_ref_toks, expr_with.
  destruct exp_ok as (_ & _ & HE).
  set (n := S (length (etoks e))).
  pose proof (eops_le e) as Hle.
  pose proof (HE e n n n (n - eops e)%nat [] ltac:(lia) ltac:(lia) ltac:(lia) I) as H.
  rewrite app_nil_r in H.
  replace (eops e + (n - eops e))%nat with n in H by lia.
  rewrite H. destruct (n - eops e)%nat as [|m] eqn:Em; [lia|].
  rewrite chain_stop by exact I. reflexivity.
Qed.

(* ------------------------------------------------------------------ *)
(* Soundness: whatever is accepted is a tree of the grammar, with its value *)

Lemma mulop_code c : is_mulop c = true -> exists o, c = mul_code o.
Proof.
  unfold is_mulop. intros H. apply orb_true_iff in H. destruct H as [H|H]; apply N.eqb_eq in H; subst c;
    [exists Times|exists Divide]; reflexivity.
Qed.
Lemma addop_code c : is_addop c = true -> exists o, c = add_code o.
Proof.
  unfold is_addop. intros H. apply orb_true_iff in H. destruct H as [H|H]; apply N.eqb_eq in H; subst c;
    [exists Plus|exists Minus]; reflexivity.
Qed.

Definition fac_sound (fac : toks -> presult) : Prop := forall ts v r,
  fac ts = Some (v, r) -> exists f, ts = ftoks f ++ r /\ fval f = v.

Section Sound.
  Variable fac : toks -> presult.
  Hypothesis Hfac : fac_sound fac.

  Lemma chain_mul_sound : forall n t0 ts v r,
    chain fac is_mulop n (tval t0) ts = Some (v, r) ->
    exists t, ttoks t0 ++ ts = ttoks t ++ r /\ tval t = v.
  Proof.
    induction n as [|n IH]; intros t0 ts v r H; [discriminate|].
    cbn [chain] in H.
    destruct ts as [|[[z|c| |] p] r0];
      try (inversion H; subst; exists t0; split; reflexivity).
    destruct (is_mulop c) eqn:Ec.
    - destruct (fac r0) as [[v1 r1]|] eqn:Ef; [|discriminate].
      destruct (Hfac _ _ _ Ef) as (f & Hts & Hv). subst r0 v1.
      destruct (mulop_code c Ec) as (o & ->).
      destruct (IH (TMul t0 o p f) r1 v r H) as (t & Ht & Hval).
      exists t. split; [|exact Hval].
      rewrite <- Ht. cbn [ttoks]. rewrite <- !app_assoc. reflexivity.
    - inversion H; subst. exists t0. split; reflexivity.
  Qed.

  Lemma term_sound n ts v r :
    term_with fac n ts = Some (v, r) -> exists t, ts = ttoks t ++ r /\ tval t = v.
  Proof.
    unfold term_with. intros H.
    destruct (fac ts) as [[v0 r0]|] eqn:Ef; [|discriminate].
    destruct (Hfac _ _ _ Ef) as (f & Hts & Hv). subst ts v0.
    destruct (chain_mul_sound n (TFct f) r0 v r H) as (t & Ht & Hval).
    exists t. split; [exact Ht|exact Hval].
  Qed.

  Lemma chain_add_sound M : forall n e0 ts v r,
    chain (term_with fac M) is_addop n (eval e0) ts = Some (v, r) ->
    exists e, etoks e0 ++ ts = etoks e ++ r /\ eval e = v.
  Proof.
    induction n as [|n IH]; intros e0 ts v r H; [discriminate|].
    cbn [chain] in H.
    destruct ts as [|[[z|c| |] p] r0];
      try (inversion H; subst; exists e0; split; reflexivity).
    destruct (is_addop c) eqn:Ec.
    - destruct (term_with fac M r0) as [[v1 r1]|] eqn:Et; [|discriminate].
      destruct (term_sound _ _ _ _ Et) as (t & Hts & Hv). subst r0 v1.
      destruct (addop_code c Ec) as (o & ->).
      destruct (IH (EAdd e0 o p t) r1 v r H) as (e & He & Hval).
      exists e. split; [|exact Hval].
      rewrite <- He. cbn [etoks]. rewrite <- !app_assoc. reflexivity.
    - inversion H; subst. exists e0. split; reflexivity.
  Qed.

  Lemma expr_sound n ts v r :
    expr_with fac n ts = Some (v, r) -> exists e, ts = etoks e ++ r /\ eval e = v.
  Proof.
    unfold expr_with. intros H.
    destruct (term_with fac n ts) as [[v0 r0]|] eqn:Et; [|discriminate].
    destruct (term_sound _ _ _ _ Et) as (t & Hts & Hv). subst ts v0.
    destruct (chain_add_sound n n (ETrm t) r0 v r H) as (e & He & Hval).
    exists e. split; [exact He|exact Hval].
  Qed.
End Sound.

Lemma factor_sound : forall k N, fac_sound (fun x => factor k N x).
Proof.
  induction k as [|k IH]; intros N ts v r H; [discriminate|].
  cbn [factor] in H.
  destruct ts as [|[[z|c| |] p] r0]; try discriminate.
  - inversion H; subst. exists (FInt z p). split; reflexivity.
  - destruct (expr_with (fun x => factor k N x) N r0) as [[v0 r1]|] eqn:Ee; [|discriminate].
    destruct r1 as [|[[z|c| |] p1] r2]; try discriminate.
    inversion H; subst.
    destruct (expr_sound _ (IH N) _ _ _ _ Ee) as (e & Hts & Hv). subst r0.
    exists (FPar p e p1). split; [|exact Hv].
    cbn [ftoks app]. rewrite <- app_assoc. reflexivity.
Qed.

Theorem ref_sound : forall ts v, arith_ref_toks ts = Some v -> exists e, etoks e = ts /\ eval e = v.
Proof.
  intros ts v H. unfold arith_ref_toks in H.
  set (n := S (length ts)) in H.
  destruct (expr_with (fun x => factor n n x) n ts) as [[v0 r]|] eqn:Ee; [|discriminate].
  destruct r as [|x r]; [|discriminate]. inversion H; subst v0.
  destruct (expr_sound _ (factor_sound n n) _ _ _ _ Ee) as (e & Hts & Hv).
  exists e. rewrite app_nil_r in Hts. split; [symmetry; exact Hts|exact Hv].
Qed.

Theorem ref_iff : forall ts v, arith_ref_toks ts = Some v <-> exists e, etoks e = ts /\ eval e = v.
Proof.
  intros ts v. split; [apply ref_sound|].
  intros (e & <- & <-). apply ref_complete.
Qed.

(* well-formed = some tree of the left-recursive grammar spells it; ill-formed = rejected *)
Corollary ref_rejects_iff : forall ts, arith_ref_toks ts = None <-> ~ exists e, etoks e = ts.
Proof.
  intros ts. split.
  - intros H (e & <-). rewrite ref_complete in H. discriminate.
  - intros H. destruct (arith_ref_toks ts) as [v|] eqn:E; [|reflexivity].
    exfalso. apply H. destruct (ref_sound _ _ E) as (e & He & _). exists e. exact He.
Qed.

(* the token grammar is unambiguous as far as values go *)
Corollary tokens_determine_value : forall e1 e2, etoks e1 = etoks e2 -> eval e1 = eval e2.
Proof.
  intros e1 e2 H. pose proof (ref_complete e1) as H1. rewrite H, ref_complete in H1.
  inversion H1. reflexivity.
Qed.

(* ------------------------------------------------------------------ *)
(* Precedence and associativity as equations                           *)

Definition lit (z : Z) (p : N) : fexp := FInt z p.

Theorem ref_add_left_assoc : forall o1 o2 a b c pa pb pc p1 p2,
  arith_ref_toks [(TInt a, pa); (TOp (add_code o1), p1); (TInt b, pb); (TOp (add_code o2), p2); (TInt c, pc)] =
  Some (binop (add_code o2) p2 (binop (add_code o1) p1 (AV a) (AV b)) (AV c)).
Proof.
  intros. exact (ref_complete (EAdd (EAdd (ETrm (TFct (lit a pa))) o1 p1 (TFct (lit b pb))) o2 p2 (TFct (lit c pc)))).
Qed.

Theorem ref_mul_left_assoc : forall o1 o2 a b c pa pb pc p1 p2,
  arith_ref_toks [(TInt a, pa); (TOp (mul_code o1), p1); (TInt b, pb); (TOp (mul_code o2), p2); (TInt c, pc)] =
  Some (binop (mul_code o2) p2 (binop (mul_code o1) p1 (AV a) (AV b)) (AV c)).
Proof.
  intros. exact (ref_complete (ETrm (TMul (TMul (TFct (lit a pa)) o1 p1 (lit b pb)) o2 p2 (lit c pc)))).
Qed.

(* a + b * c = a + (b * c) *)
Theorem ref_mul_binds_tighter_right : forall o1 o2 a b c pa pb pc p1 p2,
  arith_ref_toks [(TInt a, pa); (TOp (add_code o1), p1); (TInt b, pb); (TOp (mul_code o2), p2); (TInt c, pc)] =
  Some (binop (add_code o1) p1 (AV a) (binop (mul_code o2) p2 (AV b) (AV c))).
Proof.
  intros. exact (ref_complete (EAdd (ETrm (TFct (lit a pa))) o1 p1 (TMul (TFct (lit b pb)) o2 p2 (lit c pc)))).
Qed.

(* a * b + c = (a * b) + c *)
Theorem ref_mul_binds_tighter_left : forall o1 o2 a b c pa pb pc p1 p2,
  arith_ref_toks [(TInt a, pa); (TOp (mul_code o1), p1); (TInt b, pb); (TOp (add_code o2), p2); (TInt c, pc)] =
  Some (binop (add_code o2) p2 (binop (mul_code o1) p1 (AV a) (AV b)) (AV c)).
Proof.
  intros. exact (ref_complete (EAdd (ETrm (TMul (TFct (lit a pa)) o1 p1 (lit b pb))) o2 p2 (TFct (lit c pc)))).
Qed.

(* parentheses override: a * ( b + c ) *)
Theorem ref_parentheses : forall o1 o2 a b c pa pb pc p1 p2 pl pr,
  arith_ref_toks [(TInt a, pa); (TOp (mul_code o1), p1); (TLP, pl); (TInt b, pb); (TOp (add_code o2), p2);
                  (TInt c, pc); (TRP, pr)] =
  Some (binop (mul_code o1) p1 (AV a) (binop (add_code o2) p2 (AV b) (AV c))).
Proof.
  intros.
  exact (ref_complete (ETrm (TMul (TFct (lit a pa)) o1 p1
                                  (FPar pl (EAdd (ETrm (TFct (lit b pb))) o2 p2 (TFct (lit c pc))) pr)))).
Qed.

Example ex_sub_chain : arith_ref (str_bytes "10-3-2") 1 = Some (AV 5).
Proof. vm_compute. reflexivity. Qed.
Example ex_div_chain : arith_ref (str_bytes "100/5/2") 1 = Some (AV 10).
Proof. vm_compute. reflexivity. Qed.
Example ex_mixed : arith_ref (str_bytes "2*3-4/2") 1 = Some (AV 4).
Proof. vm_compute. reflexivity. Qed.

(* ------------------------------------------------------------------ *)
(* Round trip through an ordinary AST printed with full parenthesisation *)

Inductive bop := BAdd (o : addop) | BMul (o : mulop).
Definition bop_code (o : bop) : N := match o with BAdd o => add_code o | BMul o => mul_code o end.
Inductive ast := Num (z : Z) (p : N) | Bin (o : bop) (p : N) (a b : ast).

Fixpoint eval_ast (t : ast) : aval :=
  match t with
  | Num z _ => AV z
  | Bin o p a b => binop (bop_code o) p (eval_ast a) (eval_ast b)
  end.
(* every binary node in parentheses *)
Fixpoint print (t : ast) : toks :=
  match t with
  | Num z p => [(TInt z, p)]
  | Bin o p a b => (TLP, 0) :: print a ++ (TOp (bop_code o), p) :: print b ++ [(TRP, 0)]
  end.

Fixpoint to_fexp (t : ast) : fexp :=
  match t with
  | Num z p => FInt z p
  | Bin (BAdd o) p a b => FPar 0 (EAdd (ETrm (TFct (to_fexp a))) o p (TFct (to_fexp b))) 0
  | Bin (BMul o) p a b => FPar 0 (ETrm (TMul (TFct (to_fexp a)) o p (to_fexp b))) 0
  end.

Lemma to_fexp_toks t : ftoks (to_fexp t) = print t.
Proof.
  induction t as [z p|o p a IHa b IHb]; [reflexivity|].
  destruct o as [o|o]; cbn [to_fexp ftoks etoks ttoks print bop_code]; rewrite IHa, IHb;
    rewrite <- app_assoc; reflexivity.
Qed.
Lemma to_fexp_val t : fval (to_fexp t) = eval_ast t.
Proof.
  induction t as [z p|o p a IHa b IHb]; [reflexivity|].
  destruct o as [o|o]; cbn [to_fexp fval eval tval eval_ast bop_code]; rewrite IHa, IHb; reflexivity.
Qed.

Theorem ref_roundtrip : forall t, arith_ref_toks (print t) = Some (eval_ast t).
Proof.
  intros t. rewrite <- to_fexp_toks, <- to_fexp_val.
  exact (ref_complete (ETrm (TFct (to_fexp t)))).
Qed.

(* ------------------------------------------------------------------ *)
(* int64                                                               *)

Definition in_int64 (z : Z) : Prop := (-9223372036854775808 <= z < 9223372036854775808)%Z.

Lemma wrap64_range z : in_int64 (wrap64 z).
Proof.
  unfold in_int64, wrap64, two64.
  pose proof (Z.mod_pos_bound (z + 9223372036854775808) 18446744073709551616 ltac:(lia)). lia.
Qed.
Lemma wrap64_id z : in_int64 z -> wrap64 z = z.
Proof.
  unfold in_int64, wrap64, two64. intros H. rewrite Z.mod_small by lia. lia.
Qed.
Lemma wrap64_congr z : ((wrap64 z - z) mod two64 = 0)%Z.
Proof.
  unfold wrap64, two64.
  replace ((z + 9223372036854775808) mod 18446744073709551616 - 9223372036854775808 - z)%Z
    with ((z + 9223372036854775808) mod 18446744073709551616 - (z + 9223372036854775808))%Z by lia.
  rewrite Zminus_mod, Z.mod_mod by lia. rewrite Z.sub_diag. reflexivity.
Qed.
Example ex_min_div_minus1 : binop 47 9 (AV (-9223372036854775808)) (AV (-1)) = AV (-9223372036854775808).
Proof. vm_compute. reflexivity. Qed.
Example ex_trunc : binop 47 9 (AV (-7)) (AV 2) = AV (-3) /\ binop 47 9 (AV 7) (AV (-2)) = AV (-3).
Proof. vm_compute. split; reflexivity. Qed.

(* a binary operation on values in int64 gives a value in int64 or a division by zero at the operator *)
Lemma binop_range c p a b : match binop c p (AV a) (AV b) with AV z => in_int64 z | ADiv0 q => q = p end.
Proof.
  unfold binop. repeat match goal with |- context [if ?x then _ else _] => destruct x end;
    try apply wrap64_range; reflexivity.
Qed.

(* ------------------------------------------------------------------ *)
(* The lexer: white space is transparent; the sign handling, by example *)

Lemma lex_ws : forall w s pos ao,
  forallb Reader.is_ws w = true ->
  lex_at (w ++ s) pos 0 ao = lex_at s (pos + N.of_nat (length w)) 0 ao.
Proof.
  induction w as [|b w IH]; intros s pos ao H.
  - cbn [app length N.of_nat]. rewrite N.add_0_r. reflexivity.
  - cbn [forallb] in H. apply andb_true_iff in H. destruct H as [Hb Hw].
    cbn [app lex_at]. cbn [N.ltb N.compare]. rewrite Hb. rewrite (IH s (pos + 1) ao Hw).
    f_equal. cbn [length]. lia.
Qed.

Lemma lex_trailing_ws : forall w pos ao, forallb Reader.is_ws w = true -> lex_at w pos 0 ao = Some [].
Proof.
  intros w pos ao H. rewrite <- (app_nil_r w). rewrite lex_ws by exact H. reflexivity.
Qed.

Definition lexs (s : string) : option (list token) :=
  match lex (str_bytes s) 1 with Some l => Some (map fst l) | None => None end.

(* after an operand '-' is the operator, whatever follows *)
Example lex_1_sp_minus2 : lexs "1 -2" = Some [TInt 1; TOp 45; TInt 2].
Proof. vm_compute. reflexivity. Qed.
Example lex_1_minus_minus2 : lexs "1--2" = Some [TInt 1; TOp 45; TInt (-2)].
Proof. vm_compute. reflexivity. Qed.
Example lex_mul_neg : lexs "2*-3" = Some [TInt 2; TOp 42; TInt (-3)].
Proof. vm_compute. reflexivity. Qed.
Example lex_paren_neg : lexs "(-1)-+1" = Some [TLP; TInt (-1); TRP; TOp 45; TInt 1].
Proof. vm_compute. reflexivity. Qed.
(* where an operand is expected the sign must touch the digits *)
Example lex_detached_sign : lexs "- 1" = None /\ lexs "1 - - 2" = None /\ lexs "--1" = None /\ lexs "-(1)" = None.
Proof. vm_compute. repeat split; reflexivity. Qed.
(* leftmost-first alternation of the Integer expression: "08" is 0 followed by 8 *)
Example lex_08 : lexs "08" = Some [TInt 0; TInt 8] /\ arith_ref (str_bytes "08") 1 = None.
Proof. vm_compute. split; reflexivity. Qed.
Example lex_float_range : lexs "1.5" = None /\ lexs "9223372036854775808" = None /\
                          lexs "-9223372036854775808" = Some [TInt (-9223372036854775808)] /\
                          lexs "0x10 010" = Some [TInt 16; TInt 8].
Proof. vm_compute. repeat split; reflexivity. Qed.
Example ref_1_sp_minus2 : arith_ref (str_bytes "1 -2") 1 = Some (AV (-1)).
Proof. vm_compute. reflexivity. Qed.
Example ref_div0_pos : arith_ref (str_bytes "1 + (2/ (3-3))*(1/0)") 1 = Some (ADiv0 7).
Proof. vm_compute. reflexivity. Qed.
