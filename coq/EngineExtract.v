(* EngineExtract.v — entry points of the extracted (OCaml) model driver used for volume:
   decoding of a case from the generic term the OCaml reader produces, and one function that
   evaluates a harness on a (case, observation) pair.  The same definitions are evaluated by
   vm_compute in the cases.v path; the thorough tier runs a sample through both. *)
From Coq Require Import String List NArith ZArith Bool.
From Parsley Require Import Obs Base FileSet Grammar Engine Spec EngineHarness EngineOracles.
Import ListNotations.
Open Scope N_scope.

(* The OCaml reader turns case text into obs: numbers -> ON, [..] -> OL, true/false -> OB,
   an applied or bare identifier C a b -> OT "C" [a; b]. *)
Definition d_bytes (o : obs) : option (list N) :=
  match o with
  | OL l => fold_right (fun x acc => match x, acc with ON n, Some t => Some (n :: t) | _, _ => None end) (Some []) l
  | OS l => Some l
  | _ => None
  end.
Definition d_ws (o : obs) : option wsmode :=
  match o with
  | OT t [] => if String.eqb t "WsNone" then Some WsNone else if String.eqb t "WsSpaces" then Some WsSpaces
               else if String.eqb t "WsSpacesNl" then Some WsSpacesNl
               else if String.eqb t "WsSpacesForceNl" then Some WsSpacesForceNl else None
  | _ => None
  end.
Definition d_kind (o : obs) : option seqkind :=
  match o with
  | OT t [] => if String.eqb t "SeqOf" then Some SeqOf else if String.eqb t "SeqTry" then Some SeqTry
               else if String.eqb t "SeqFirstOrAll" then Some SeqFirstOrAll else None
  | OT t [OB b] => if String.eqb t "SMany" then Some (SMany b) else if String.eqb t "SSepBy" then Some (SSepBy b) else None
  | _ => None
  end.
Definition d_interp (o : obs) : option interp :=
  match o with
  | OT t [] => if String.eqb t "INone" then Some INone else if String.eqb t "IArray" then Some IArray
               else if String.eqb t "IObject" then Some IObject else if String.eqb t "INil" then Some INil else None
  | OT t [ON i] => if String.eqb t "ISelect" then Some (ISelect i) else if String.eqb t "IUser" then Some (IUser i) else None
  | _ => None
  end.
Definition d_name (o : obs) : option (option (list N)) :=
  match o with
  | OT t [] => if String.eqb t "None" then Some None else None
  | OT t [x] => if String.eqb t "Some" then match d_bytes x with Some b => Some (Some b) | None => None end else None
  | _ => None
  end.
(* the literal parsers (Literals.literal) and, for terminal.Regexp, the expression (Regex.regex) *)
Definition d_ranges (o : obs) : option (list (N * N)) :=
  match o with
  | OL l => fold_right (fun x acc => match x, acc with
                                     | OT _ [ON a; ON b], Some t | OL [ON a; ON b], Some t => Some ((a, b) :: t)
                                     | _, _ => None end) (Some []) l
  | _ => None
  end.
Fixpoint d_regex (o : obs) : option Regex.regex :=
  match o with
  | OT t l =>
    if String.eqb t "REps" then Some Regex.REps
    else if String.eqb t "RClass" then
      match l with [OB neg; rs] => option_map (Regex.RClass neg) (d_ranges rs) | _ => None end
    else if String.eqb t "RCat" then
      match l with [a; b] => match d_regex a, d_regex b with Some a', Some b' => Some (Regex.RCat a' b') | _, _ => None end | _ => None end
    else if String.eqb t "RAlt" then
      match l with [a; b] => match d_regex a, d_regex b with Some a', Some b' => Some (Regex.RAlt a' b') | _, _ => None end | _ => None end
    else if String.eqb t "RStar" then match l with [a] => option_map Regex.RStar (d_regex a) | _ => None end
    else if String.eqb t "RPlus" then match l with [a] => option_map Regex.RPlus (d_regex a) | _ => None end
    else if String.eqb t "ROpt" then match l with [a] => option_map Regex.ROpt (d_regex a) | _ => None end
    else if String.eqb t "RRep" then match l with [ON n; a] => option_map (Regex.RRep (N.to_nat n)) (d_regex a) | _ => None end
    else if String.eqb t "RGroup" then match l with [a] => option_map Regex.RGroup (d_regex a) | _ => None end
    else None
  | _ => None
  end.
Definition d_literal (o : obs) : option literal :=
  match o with
  | OT t l =>
    if String.eqb t "LInteger" then match l with [] => Some LInteger | _ => None end
    else if String.eqb t "LFloat" then match l with [] => Some LFloat | _ => None end
    else if String.eqb t "LChar" then match l with [] => Some LChar | _ => None end
    else if String.eqb t "LDuration" then match l with [] => Some LDuration | _ => None end
    else if String.eqb t "LString" then match l with [OB b] => Some (LString b) | _ => None end
    else if String.eqb t "LBool" then
      match l with [a; b] => match d_bytes a, d_bytes b with Some a', Some b' => Some (LBool a' b') | _, _ => None end | _ => None end
    else if String.eqb t "LNil" then match l with [a] => option_map LNil (d_bytes a) | _ => None end
    else if String.eqb t "LWord" then match l with [a] => option_map LWord (d_bytes a) | _ => None end
    else if String.eqb t "LOp" then match l with [a] => option_map LOp (d_bytes a) | _ => None end
    else if String.eqb t "LRune" then match l with [ON c] => Some (LRune c) | _ => None end
    else if String.eqb t "LRegexp" then
      match l with [re; ON g] => option_map (fun r => LRegexp r g) (d_regex re) | _ => None end
    else None
  | _ => None
  end.
Fixpoint d_pexpr (o : obs) : option pexpr :=
  let fix all (l : list obs) : option (list pexpr) :=
      match l with
      | [] => Some []
      | x :: t => match d_pexpr x, all t with Some p, Some ps => Some (p :: ps) | _, _ => None end
      end in
  match o with
  | OT t l =>
    if String.eqb t "PTerm" then
      match l with
      | [OT u [ON c]] => if String.eqb u "TRune" then Some (PTerm (TRune c)) else None
      | [OT u [lit]] => if String.eqb u "TLit" then option_map (fun x => PTerm (TLit x)) (d_literal lit) else None
      | _ => None
      end
    else if String.eqb t "PEmpty" then Some PEmpty
    else if String.eqb t "PEnd" then Some PEnd
    else if String.eqb t "PRef" then match l with [ON k] => Some (PRef k) | _ => None end
    else if String.eqb t "PMemo" then match l with [ON i; p] => option_map (PMemo i) (d_pexpr p) | _ => None end
    else if String.eqb t "PAny" then match l with [OL ps] => option_map PAny (all ps) | _ => None end
    else if String.eqb t "PChoice" then match l with [OL ps] => option_map PChoice (all ps) | _ => None end
    else if String.eqb t "POpt" then match l with [p] => option_map POpt (d_pexpr p) | _ => None end
    else if String.eqb t "PSeq" then
      match l with
      | [k; ip; OB sg; nm; OL ps] =>
        match d_kind k, d_interp ip, d_name nm, all ps with
        | Some k', Some ip', Some nm', Some ps' => Some (PSeq k' ip' sg nm' ps')
        | _, _, _, _ => None
        end
      | _ => None
      end
    else if String.eqb t "PName" then
      match l with [nm; p] => match d_bytes nm, d_pexpr p with Some n, Some p' => Some (PName n p') | _, _ => None end | _ => None end
    else if String.eqb t "PLeftTrim" then
      match l with [m; p] => match d_ws m, d_pexpr p with Some m', Some p' => Some (PLeftTrim m' p') | _, _ => None end | _ => None end
    else if String.eqb t "PRightTrim" then
      match l with [m; p] => match d_ws m, d_pexpr p with Some m', Some p' => Some (PRightTrim m' p') | _, _ => None end | _ => None end
    else if String.eqb t "PSuppress" then match l with [p] => option_map PSuppress (d_pexpr p) | _ => None end
    else if String.eqb t "PSingle" then match l with [p] => option_map PSingle (d_pexpr p) | _ => None end
    else None
  | _ => None
  end.
Fixpoint d_pexprs (l : list obs) : option (list pexpr) :=
  match l with
  | [] => Some []
  | x :: t => match d_pexpr x, d_pexprs t with Some p, Some ps => Some (p :: ps) | _, _ => None end
  end.
Definition d_eng_case (o : obs) : option eng_case :=
  match o with
  | OT t [OL rs; root; data; ON off; ON fl] =>
    if String.eqb t "Eng" then
      match d_pexprs rs, d_pexpr root, d_bytes data with
      | Some rs', Some root', Some data' => Some (Eng rs' root' data' off fl)
      | _, _, _ => None
      end
    else None
  | _ => None
  end.

(* which : 0 whole observation, 1 C01, 2 C02, 3 C03, 4 C04, 6 C06, 12 C12, 17 C17.
   Result: (model and implementation disagree, implementation violates the oracle, model's expectation) *)
Definition eng_check (which : N) (c : eng_case) (o : obs) : bool * bool * obs :=
  if which =? 12 then let e := c12_expected c in (negb (obs_eqb e o), negb (c12_oracle c o), e)
  else
    let e := eng_expected c in
    if which =? 1 then (negb (c01_agree e o), negb (c01_oracle c o), e)
    else if which =? 2 then (negb (c02_agree e o), negb (c02_oracle c o), e)
    else if which =? 3 then (negb (c03_agree e o), negb (c03_oracle c o), e)
    else if which =? 4 then (negb (c04_agree e o), negb (c04_oracle c o), e)
    else if which =? 6 then (negb (c06_agree e o), negb (c06_oracle c o), e)
    else if which =? 17 then (negb (c17_calls_agree e o), false, e)
    else (negb (obs_eqb e o), false, e).
Definition eng_check_text (which : N) (c o : obs) : option (bool * bool * obs) :=
  match d_eng_case c with Some c' => Some (eng_check which c' o) | None => None end.
