(* ArithAccept.v — C05_accepts, in full: every well-formed arithmetic expression — any white space
   the grammar's WsSpacesNl trimming allows, any length, any nesting — is accepted by the model of
   parsley.Evaluate on THE workload grammar (Arith.arith_rules / arith_root), with the reference's
   value (or its division by zero).

   1. the reference lexer, inverted: from [lexfrom p ao = Some (tok :: r)] to the byte / the literal
      at the end of the white-space run after p ([lex_next] and its five instances)
   2. [build]: for every tree e of the left-recursive token grammar whose tokens the lexer reads
      from position p, the grammar has a derivation (Sound.xvalid) of expr from p, free of XRKeep,
      that ends where the lexer stands after those tokens
   3. [C05_accepts]: CompleteTrim.C04_sentence_complete_trim on that derivation + ArithProofs.C05_total. *)
From Coq Require Import String List NArith ZArith Bool Arith Lia.
From Parsley Require Import Obs Base FileSet Utf8 Reader Regex Literals LiteralProofs.
From Parsley Require Import ArithSpec ArithSpecProofs.
From Parsley Require Import Grammar Engine SetMapFacts EngineFacts Spec Sound TermFacts Top EngineHarness Arith ArithProofs.
From Parsley Require Import TermTok Complete CompleteTrim Activation Termination.
Import ListNotations.
Open Scope N_scope.

(* ------------------------------------------------------------------ *)
(* 1. The lexer, one token at a time                                    *)

Lemma tcons_inv t o t' r : tcons t o = Some (t' :: r) -> t = t' /\ o = Some r.
Proof. destruct o as [l|]; cbn [tcons]; intros H; [|discriminate H]. inversion H; subst. split; reflexivity. Qed.
Lemma tcons_not_nil t o : tcons t o = Some [] -> False.
Proof. destruct o; cbn [tcons]; intros H; discriminate H. Qed.

Section Lexer.
  Variable inp : input.
  Notation lexf := (lexfrom inp).
  Notation fend := (i_offset inp + i_len inp).

  (* what the lexer does at a byte that is not white space *)
  Definition lex_step (q : N) (ao : bool) (b : N) : option toks :=
    if b =? 40 then tcons (TLP, q) (lexf (q + 1) false)
    else if b =? 41 then tcons (TRP, q) (lexf (q + 1) true)
    else if is_mulop b || (ao && is_addop b) then tcons (TOp b, q) (lexf (q + 1) false)
    else match int_lexeme (suf inp q) with
         | Some n =>
           if starts_with_byte 46 (drop n (suf inp q)) then None
           else match parse_int_base0 (take n (suf inp q)) with
                | Some z => tcons (TInt z, q) (lexf (q + n) true)
                | None => None
                end
         | None => None
         end.

  Lemma lexfrom_step q ao b : i_offset inp <= q -> byte_at inp q = Some b -> is_ws b = false ->
    lexf q ao = lex_step q ao b.
  Proof.
    intros Hlo Hb Hws. pose proof (suf_byte inp q b Hlo Hb) as Es.
    unfold lex_step, lexfrom at 1. rewrite Es.
    cbn [lex_at]. cbn [N.ltb N.compare]. change (Reader.is_ws b) with (is_ws b). rewrite Hws.
    destruct (b =? 40); [reflexivity|]. destruct (b =? 41); [reflexivity|].
    destruct (is_mulop b || (ao && is_addop b)); [reflexivity|].
    destruct (int_lexeme (b :: suf inp (q + 1))) as [n|] eqn:El; [|reflexivity].
    destruct (starts_with_byte 46 (drop n (b :: suf inp (q + 1)))); [reflexivity|].
    destruct (parse_int_base0 (take n (b :: suf inp (q + 1)))) as [z|]; [|reflexivity].
    f_equal. pose proof (int_lexeme_le _ _ El) as [Hn1 Hn2].
    unfold len_N in Hn2. cbn [length] in Hn2.
    assert (Hk : n - 1 <= len_N (suf inp (q + 1))) by (unfold len_N; clear - Hn1 Hn2; lia).
    rewrite lex_skip by exact Hk.
    rewrite (suf_skip inp (q + 1) (n - 1)) by (clear - Hlo; lia).
    replace (q + 1 + (n - 1)) with (q + n) by (clear - Hn1; lia). reflexivity.
  Qed.

  (* where the white-space run ends there is the end of the file or a byte that is not white space *)
  Lemma suf_ws_end p : in_file inp p ->
    match suf inp (ws_end inp p) with [] => True | b :: _ => is_ws b = false end.
  Proof.
    intros [Hlo Hhi].
    destruct (ws_scan_stop (suf inp p) p 0) as [Hle Hst].
    change (fst (ws_scan (suf inp p) p 0)) with (ws_end inp p) in Hle, Hst.
    rewrite (suf_skip inp p (ws_end inp p - p) Hlo) in Hst.
    replace (p + (ws_end inp p - p)) with (ws_end inp p) in Hst by lia. exact Hst.
  Qed.
  Lemma suf_nil q : in_file inp q -> suf inp q = [] -> q = fend.
  Proof.
    intros [Hlo Hhi] E. apply (f_equal (@length N)) in E. unfold suf in E. rewrite skipn_length in E.
    cbn [length] in E. unfold i_len, len_N in *. lia.
  Qed.
  Lemma suf_cons q b t : suf inp q = b :: t -> byte_at inp q = Some b.
  Proof.
    intros E. unfold byte_at, nth_N. pose proof (nth_error_skipn (i_data inp) (N.to_nat (q - i_offset inp)) 0) as H.
    unfold suf in E. rewrite E in H. cbn [nth_error] in H. rewrite Nat.add_0_r in H. symmetry. exact H.
  Qed.

  Lemma lex_next p ao ts : in_file inp p -> lexf p ao = Some ts ->
    (ts = [] /\ ws_end inp p = fend) \/
    exists b, byte_at inp (ws_end inp p) = Some b /\ lex_step (ws_end inp p) ao b = Some ts.
  Proof.
    intros Hin H. rewrite (lexfrom_ws inp p ao Hin) in H.
    destruct (ws_end_run inp p Hin) as [_ Hin'].
    pose proof (suf_ws_end p Hin) as Hst.
    destruct (suf inp (ws_end inp p)) as [|b t] eqn:Es.
    - left. unfold lexfrom in H. rewrite Es in H. cbn [lex_at] in H. inversion H; subst.
      split; [reflexivity|apply suf_nil; assumption].
    - right. exists b. pose proof (suf_cons _ _ _ Es) as Hb. split; [exact Hb|].
      rewrite <- (lexfrom_step _ ao b (proj1 Hin') Hb Hst). exact H.
  Qed.

  Ltac lex_cases H :=
    unfold lex_step in H;
    repeat match type of H with
           | (if ?c then _ else _) = _ => let E := fresh "E" in destruct c eqn:E
           | match ?x with Some _ => _ | None => _ end = _ => let E := fresh "E" in destruct x eqn:E
           end;
    try discriminate H;
    try (apply tcons_inv in H; let H1 := fresh "H" in destruct H as [H1 H]; inversion H1; subst; clear H1).

  Lemma next_end p ao : in_file inp p -> lexf p ao = Some [] -> ws_end inp p = fend.
  Proof.
    intros Hin H. destruct (lex_next p ao [] Hin H) as [[_ E]|[b [Hb Hs]]]; [exact E|]. exfalso.
    unfold lex_step in Hs.
    repeat match type of Hs with
           | (if ?c then _ else _) = _ => destruct c
           | match ?x with Some _ => _ | None => _ end = _ => destruct x
           end; try discriminate Hs; exact (tcons_not_nil _ _ Hs).
  Qed.

  Lemma next_lp p pl r : in_file inp p -> lexf p false = Some ((TLP, pl) :: r) ->
    pl = ws_end inp p /\ byte_at inp pl = Some 40 /\ lexf (pl + 1) false = Some r.
  Proof.
    intros Hin H. destruct (lex_next p false _ Hin H) as [[E _]|[b [Hb Hs]]]; [discriminate E|].
    lex_cases Hs. apply N.eqb_eq in E. subst b. split; [reflexivity|]. split; [exact Hb|exact Hs].
  Qed.
  Lemma next_rp p pr r : in_file inp p -> lexf p true = Some ((TRP, pr) :: r) ->
    pr = ws_end inp p /\ byte_at inp pr = Some 41 /\ lexf (pr + 1) true = Some r.
  Proof.
    intros Hin H. destruct (lex_next p true _ Hin H) as [[E _]|[b [Hb Hs]]]; [discriminate E|].
    lex_cases Hs. apply N.eqb_eq in E0. subst b. split; [reflexivity|]. split; [exact Hb|exact Hs].
  Qed.
  Lemma next_op p c po r : in_file inp p -> lexf p true = Some ((TOp c, po) :: r) ->
    po = ws_end inp p /\ byte_at inp po = Some c /\ lexf (po + 1) false = Some r.
  Proof.
    intros Hin H. destruct (lex_next p true _ Hin H) as [[E _]|[b [Hb Hs]]]; [discriminate E|].
    lex_cases Hs. split; [reflexivity|]. split; [exact Hb|exact Hs].
  Qed.
  Lemma next_int p z pz r : in_file inp p -> lexf p false = Some ((TInt z, pz) :: r) ->
    pz = ws_end inp p /\ exists n, 1 <= n /\ pz + n <= fend /\ int_lexeme (suf inp pz) = Some n /\
      starts_with_byte 46 (drop n (suf inp pz)) = false /\
      parse_int_base0 (take n (suf inp pz)) = Some z /\ lexf (pz + n) true = Some r.
  Proof.
    intros Hin H. destruct (lex_next p false _ Hin H) as [[E _]|[b [Hb Hs]]]; [discriminate E|].
    destruct (ws_end_run inp p Hin) as [_ [Hlo Hhi]].
    lex_cases Hs. split; [reflexivity|]. exists n.
    pose proof (int_lexeme_le _ _ E2) as [Hn1 Hn2]. unfold suf in Hn2. rewrite skipn_len_N in Hn2.
    split; [exact Hn1|]. split; [unfold i_len in *; lia|]. repeat split; assumption.
  Qed.
End Lexer.

(* ------------------------------------------------------------------ *)
(* 2. From the reference's tokens to a derivation of the grammar        *)

Section Build.
  Variable inp : input.
  Hypothesis Hbytes : bytes_ok (i_data inp).
  Notation xv := (xvalid inp arith_rules).
  Notation xe := (xdend inp).
  Notation lexf := (lexfrom inp).
  Notation fend := (i_offset inp + i_len inp).

  Definition built (e : pexpr) (ts : toks) : Prop := forall p r,
    in_file inp p -> lexf p false = Some (ts ++ r) ->
    exists d, xv e p d /\ nokeep d /\ lexf (xe d) true = Some r.

  (* tok(Rune c) on the byte c at the end of the run *)
  Lemma rune_deriv c p : byte_at inp (ws_end inp p) = Some c ->
    xv (rune_p c) p (XLTrim (XTerm (NTerm [c] (VRune c) (ws_end inp p) (ws_end inp p + 1)))).
  Proof. intros Hb. apply XVLTrim. apply XVTerm. apply term_parse_rune. exact Hb. Qed.

  Lemma in_file_next q c : in_file inp q -> byte_at inp q = Some c -> in_file inp (q + 1).
  Proof.
    intros [Hlo Hhi] Hb. pose proof (byte_at_in_file inp q c Hlo Hb) as H. unfold i_fend in H. split; lia.
  Qed.
  Lemma xv_in_file e p d : in_file inp p -> xv e p d -> in_file inp (xe d).
  Proof. intros Hin Hv. pose proof (xvalid_span inp arith_rules e p d Hin Hv) as (_ & _ & H & _). exact H. Qed.

  Lemma build :
    (forall f, built factor_p (ftoks f)) /\ (forall t, built (PRef 1) (ttoks t)) /\ (forall e, built (PRef 0) (etoks e)).
  Proof.
    apply exp_mutind.
    - (* FInt *)
      intros z pz p r Hin H. cbn [ftoks app] in H.
      destruct (next_int inp p z pz r Hin H) as (-> & n & Hn1 & Hn2 & Hl & Hdot & Hv & Hrest).
      destruct (ws_end_run inp p Hin) as [_ [Hlo Hhi]].
      exists (XAlt 0 (XLTrim (XTerm (NTerm (lit_token LInteger) (VInt z) (ws_end inp p) (ws_end inp p + n))))).
      split; [|split; [exact I|exact Hrest]].
      eapply XVAny; [reflexivity|]. apply XVLTrim. apply XVTerm.
      apply (term_parse_int inp Hbytes _ _ _ Hlo Hl Hdot Hv).
    - (* FPar *)
      intros pl e IHe pr p r Hin H. cbn [ftoks app] in H. rewrite <- app_assoc in H. cbn [app] in H.
      destruct (next_lp inp p pl _ Hin H) as (-> & Hb1 & H1).
      destruct (ws_end_run inp p Hin) as [_ Hin1].
      pose proof (in_file_next _ _ Hin1 Hb1) as Hin2.
      destruct (IHe _ _ Hin2 H1) as (d2 & Hv2 & Hk2 & H2).
      pose proof (xv_in_file _ _ _ Hin2 Hv2) as Hin3.
      destruct (next_rp inp (xe d2) pr r Hin3 H2) as (-> & Hb3 & H3).
      exists (XAlt 1 (XSeq {| q_kind := SeqOf; q_ip := ISelect 1; q_single := false;
                              q_ps := [rune_p 40; PRef 0; rune_p 41] |} p
                           [XLTrim (XTerm (NTerm [40] (VRune 40) (ws_end inp p) (ws_end inp p + 1))); d2;
                            XLTrim (XTerm (NTerm [41] (VRune 41) (ws_end inp (xe d2)) (ws_end inp (xe d2) + 1)))])).
      split; [|split; [cbn; tauto|exact H3]].
      eapply XVAny; [reflexivity|]. apply XVSeq; [|reflexivity].
      eapply XVScons; [reflexivity|apply rune_deriv; exact Hb1|].
      eapply XVScons; [reflexivity|exact Hv2|].
      eapply XVScons; [reflexivity|apply rune_deriv; exact Hb3|]. apply XVSnil.
    - (* TFct *)
      intros f IHf p r Hin H. destruct (IHf p r Hin H) as (d & Hv & Hk & Hr).
      exists (XRef 1 (XMemo 2 (XAlt 1 d))). split; [|split; [exact Hk|exact Hr]].
      eapply XVRef; [reflexivity|]. apply XVMemo. eapply XVAny; [reflexivity|]. exact Hv.
    - (* TMul *)
      intros t IHt o po f IHf p r Hin H. cbn [ttoks] in H. rewrite <- app_assoc in H. cbn [app] in H.
      destruct (IHt _ _ Hin H) as (d1 & Hv1 & Hk1 & H1).
      pose proof (xv_in_file _ _ _ Hin Hv1) as Hin1.
      destruct (next_op inp (xe d1) _ po _ Hin1 H1) as (-> & Hb & H2).
      destruct (ws_end_run inp (xe d1) Hin1) as [_ Hin2].
      pose proof (in_file_next _ _ Hin2 Hb) as Hin3.
      destruct (IHf _ _ Hin3 H2) as (d3 & Hv3 & Hk3 & H3).
      exists (XRef 1 (XMemo 2 (XAlt 0 (XSeq {| q_kind := SeqOf; q_ip := IUser 1; q_single := false;
                                               q_ps := [PRef 1; mulop_p; factor_p] |} p
           [d1; XAlt (match o with Times => 0 | Divide => 1 end)
                     (XLTrim (XTerm (NTerm [mul_code o] (VRune (mul_code o)) (ws_end inp (xe d1)) (ws_end inp (xe d1) + 1))));
            d3])))).
      split; [|split; [cbn; tauto|exact H3]].
      eapply XVRef; [reflexivity|]. apply XVMemo. eapply XVAny; [reflexivity|]. apply XVSeq; [|reflexivity].
      eapply XVScons; [reflexivity|exact Hv1|].
      eapply XVScons; [reflexivity| |].
      { destruct o; (eapply XVAny; [reflexivity|]); apply rune_deriv; exact Hb. }
      eapply XVScons; [reflexivity|exact Hv3|]. apply XVSnil.
    - (* ETrm *)
      intros t IHt p r Hin H. destruct (IHt p r Hin H) as (d & Hv & Hk & Hr).
      exists (XRef 0 (XMemo 1 (XAlt 1 d))). split; [|split; [exact Hk|exact Hr]].
      eapply XVRef; [reflexivity|]. apply XVMemo. eapply XVAny; [reflexivity|]. exact Hv.
    - (* EAdd *)
      intros e IHe o po t IHt p r Hin H. cbn [etoks] in H. rewrite <- app_assoc in H. cbn [app] in H.
      destruct (IHe _ _ Hin H) as (d1 & Hv1 & Hk1 & H1).
      pose proof (xv_in_file _ _ _ Hin Hv1) as Hin1.
      destruct (next_op inp (xe d1) _ po _ Hin1 H1) as (-> & Hb & H2).
      destruct (ws_end_run inp (xe d1) Hin1) as [_ Hin2].
      pose proof (in_file_next _ _ Hin2 Hb) as Hin3.
      destruct (IHt _ _ Hin3 H2) as (d3 & Hv3 & Hk3 & H3).
      exists (XRef 0 (XMemo 1 (XAlt 0 (XSeq {| q_kind := SeqOf; q_ip := IUser 1; q_single := false;
                                               q_ps := [PRef 0; addop_p; PRef 1] |} p
           [d1; XAlt (match o with Plus => 0 | Minus => 1 end)
                     (XLTrim (XTerm (NTerm [add_code o] (VRune (add_code o)) (ws_end inp (xe d1)) (ws_end inp (xe d1) + 1))));
            d3])))).
      split; [|split; [cbn; tauto|exact H3]].
      eapply XVRef; [reflexivity|]. apply XVMemo. eapply XVAny; [reflexivity|]. apply XVSeq; [|reflexivity].
      eapply XVScons; [reflexivity|exact Hv1|].
      eapply XVScons; [reflexivity| |].
      { destruct o; (eapply XVAny; [reflexivity|]); apply rune_deriv; exact Hb. }
      eapply XVScons; [reflexivity|exact Hv3|]. apply XVSnil.
  Qed.
End Build.

(* ------------------------------------------------------------------ *)
(* 3. The arithmetic grammar is in CompleteTrim's fragment; C05_accepts  *)

Definition arith_cr : N -> bool := fun _ => true.     (* both rules are clean: Memoize over Any *)

Lemma arith_rules_monot : forall k body, nth_N arith_rules k = Some body -> monot arith_cr body = true.
Proof.
  intros k body H. unfold nth_N in H.
  destruct (N.to_nat k) as [|[|n]]; cbn [nth_error arith_rules] in H; [| |destruct n; discriminate H];
    injection H as <-; reflexivity.
Qed.
Lemma arith_rules_ef : forall k body, nth_N arith_rules k = Some body -> endfree body = true.
Proof.
  intros k body H. unfold nth_N in H.
  destruct (N.to_nat k) as [|[|n]]; cbn [nth_error arith_rules] in H; [| |destruct n; discriminate H];
    injection H as <-; reflexivity.
Qed.
Lemma arith_cr_ok : forall k body, arith_cr k = true -> nth_N arith_rules k = Some body -> clean arith_cr body = true.
Proof.
  intros k body _ H. unfold nth_N in H.
  destruct (N.to_nat k) as [|[|n]]; cbn [nth_error arith_rules] in H; [| |destruct n; discriminate H];
    injection H as <-; reflexivity.
Qed.
Lemma arith_root_monot : monot arith_cr arith_root = true.
Proof. reflexivity. Qed.
Lemma arith_root_ef : endfree arith_root = true.
Proof. reflexivity. Qed.

(* every input the reference accepts has a derivation of the root, RightTrim(expr), that spans the
   whole input *)
Theorem arith_ref_deriv inp v :
  bytes_ok (i_data inp) -> arith_ref (i_data inp) (i_offset inp) = Some v ->
  exists d, xvalid inp arith_rules arith_root (i_offset inp) d /\ nokeep d /\
            xdend inp d = i_offset inp + i_len inp.
Proof.
  intros Hb Hr. unfold arith_ref in Hr.
  destruct (lex (i_data inp) (i_offset inp)) as [ts|] eqn:Hl; [|discriminate Hr].
  destruct (ref_sound ts v Hr) as (e & <- & _).
  pose proof (in_file_offset inp) as Hin0.
  assert (Hlx : lexfrom inp (i_offset inp) false = Some (etoks e ++ [])).
  { unfold lexfrom. rewrite suf_offset, app_nil_r. exact Hl. }
  destruct (proj2 (proj2 (build inp Hb)) e _ _ Hin0 Hlx) as (d0 & Hv0 & Hk0 & Hrest).
  pose proof (xv_in_file inp _ _ _ Hin0 Hv0) as Hin1.
  pose proof (next_end inp _ _ Hin1 Hrest) as Hend.
  exists (XRTrim d0). split; [apply XVRTrim; exact Hv0|]. split; [exact Hk0|].
  unfold xdend. cbn [xyield]. rewrite rtrim_node_rpos; [exact Hend|].
  apply (xvalid_noeof inp arith_rules arith_cr arith_rules_monot arith_rules_ef _ _ _ Hv0); reflexivity.
Qed.

(* ... hence Parse returns a node, not an error *)
Theorem arith_accepts inp fuel t v :
  bytes_ok (i_data inp) -> arith_ref (i_data inp) (i_offset inp) = Some v ->
  parse_top inp arith_rules fuel (sentence arith_root) = Ok t ->
  exists ns c, t = TopNode ns c.
Proof.
  intros Hb Hr Ht. destruct (arith_ref_deriv inp v Hb Hr) as (d & Hv & Hk & Hend).
  destruct (C04_sentence_complete_trim inp arith_rules arith_site arith_cr arith_wf_rules arith_rules_monot
              arith_rules_ef arith_cr_ok arith_root arith_wf_root arith_root_monot arith_root_ef
              fuel t d Ht Hv Hk Hend) as (n0 & c & _ & ->).
  eexists _, _. reflexivity.
Qed.

(* C05_accepts: EVERY well-formed expression — whatever white space the grammar's modes allow, whatever
   its length and nesting — is accepted by the model of parsley.Evaluate on THE grammar, with the fuel
   of C02, and evaluates to the reference's value (or reports the reference's division by zero). *)
Theorem C05_accepts inp fuel v :
  bytes_ok (i_data inp) -> (fuel_bound inp arith_K arith_Sz <= fuel)%nat ->
  arith_ref (i_data inp) (i_offset inp) = Some v ->
  arith_evaluate inp fuel =
    Ok (match v with AV z => EvValue (ValLit (VInt z)) | ADiv0 p => EvEvalErr (div0_err p) end).
Proof.
  intros Hb Hf Hr.
  destruct (C05_total inp fuel Hb Hf) as (ev & Hev & Hm). rewrite Hev. f_equal.
  destruct ev as [val|pe|ee].
  - destruct Hm as (z & -> & E). rewrite Hr in E. inversion E; subst. reflexivity.
  - exfalso. unfold arith_evaluate in Hev. apply bind_ok in Hev. destruct Hev as (t & Ht & Hk).
    destruct (arith_accepts inp fuel t v Hb Hr Ht) as (ns & c & ->).
    destruct (arith_eval_result ns) as [[x|e0]| |]; discriminate.
  - destruct Hm as (p & -> & E). rewrite Hr in E. inversion E; subst. reflexivity.
Qed.

(* the statement in the form Props/C05.v lists as missing *)
Corollary C05_accepts_no_parse_error inp fuel v :
  bytes_ok (i_data inp) -> (fuel_bound inp arith_K arith_Sz <= fuel)%nat ->
  arith_ref (i_data inp) (i_offset inp) = Some v ->
  exists ev, arith_evaluate inp fuel = Ok ev /\ forall e, ev <> EvParseErr e.
Proof.
  intros Hb Hf Hr. rewrite (C05_accepts inp fuel v Hb Hf Hr). eexists. split; [reflexivity|].
  intros e. destruct v; discriminate.
Qed.

(* together with C05_rejects: the model of Evaluate DECIDES the reference's language and computes its values *)
Corollary C05_agrees inp fuel :
  bytes_ok (i_data inp) -> (fuel_bound inp arith_K arith_Sz <= fuel)%nat ->
  match arith_ref (i_data inp) (i_offset inp) with
  | Some (AV z) => arith_evaluate inp fuel = Ok (EvValue (ValLit (VInt z)))
  | Some (ADiv0 p) => arith_evaluate inp fuel = Ok (EvEvalErr (div0_err p))
  | None => exists e, arith_evaluate inp fuel = Ok (EvParseErr e)
  end.
Proof.
  intros Hb Hf. destruct (arith_ref (i_data inp) (i_offset inp)) as [[z|p]|] eqn:Hr.
  - exact (C05_accepts inp fuel _ Hb Hf Hr).
  - exact (C05_accepts inp fuel _ Hb Hf Hr).
  - destruct (C05_total inp fuel Hb Hf) as (ev & Hev & _).
    destruct (C05_rejects inp fuel ev Hb Hr Hev) as (e & ->). exists e. exact Hev.
Qed.

(* the harness's run of the model ([Arith.arith_run]: the file set and input the driver builds, fuel
   ARITH_FUEL) on every input it is evaluated on (at most MODEL_CAP bytes) *)
Corollary C05_accepts_run data offset v :
  bytes_ok (normalize data) -> len_N (normalize data) <= MODEL_CAP ->
  c05_ref (ArithSpec.C05 data offset) = Some v ->
  arith_run data offset =
    o_evaluated (new_fileset (eng_files data offset))
                (Ok (match v with AV z => EvValue (ValLit (VInt z)) | ADiv0 p => EvEvalErr (div0_err p) end)).
Proof.
  intros Hb Hl Hr. unfold arith_run. f_equal.
  apply C05_accepts; [exact Hb|apply arith_fuel_enough; exact Hl|exact Hr].
Qed.

Print Assumptions C05_accepts.
Print Assumptions C05_agrees.
Print Assumptions C05_accepts_run.

(* ------------------------------------------------------------------ *)
(* Non-vacuity: "1 +\n 2 * ( 3 - 4 )" (spaces and a line feed between all tokens) is accepted with value -1,
   by the theorem (the engine is not run); and a division by zero behind white space *)
Definition ex_ws : list N := [49; 32; 43; 10; 32; 50; 32; 42; 32; 40; 32; 51; 32; 45; 32; 52; 32; 41].
Example C05_accepts_example :
  let inp := mk_input ex_ws 1 in
  arith_ref ex_ws 1 = Some (AV (-1)) /\
  arith_evaluate inp (fuel_bound inp arith_K arith_Sz) = Ok (EvValue (ValLit (VInt (-1)))).
Proof.
  cbn zeta. assert (Hr : arith_ref ex_ws 1 = Some (AV (-1))) by (vm_compute; reflexivity).
  split; [exact Hr|].
  apply (C05_accepts (mk_input ex_ws 1) _ (AV (-1))); [repeat constructor|apply le_n|exact Hr].
Qed.
Example C05_accepts_example_div0 :
  let inp := mk_input (bytes "	7 / ( 2 -2 ) ") 3 in
  arith_evaluate inp (fuel_bound inp arith_K arith_Sz) = Ok (EvEvalErr (div0_err 6)).
Proof.
  cbn zeta. apply (C05_accepts _ _ (ADiv0 6)); [repeat constructor|apply le_n|vm_compute; reflexivity].
Qed.
(* ... and the tree whose existence the proof uses, for the first input (whole input: ends at 19) *)
Example arith_ref_deriv_example :
  exists d, xvalid (mk_input ex_ws 1) arith_rules arith_root 1 d /\ nokeep d /\ xdend (mk_input ex_ws 1) d = 19.
Proof.
  apply (arith_ref_deriv (mk_input ex_ws 1) (AV (-1))); [repeat constructor|vm_compute; reflexivity].
Qed.
