(* TrimProofs.v — C10: theorems about the engine model's whitespace handling
   (Grammar.v [skip_ws], Engine.v [PLeftTrim]/[PRightTrim]/[parse_top]) against the
   specification of Trim.v. *)
From Coq Require Import String List NArith ZArith Bool Arith Lia.
From Parsley Require Import Obs Base FileSet Grammar Engine EngineFacts EngineHarness Trim.
From Parsley Require Reader ReaderProofs.
Import ListNotations.
Open Scope N_scope.

(* ------------------------------------------------------------------ *)
(* A. SkipWhitespaces                                                  *)

Lemma is_ws_ws4 b : is_ws b = ws4 b.
Proof. unfold is_ws, ws4. cbn [existsb]. destruct (b =? 32), (b =? 9), (b =? 10), (b =? 12); reflexivity. Qed.
Lemma is_nl_brk b : is_nl b = brk b.
Proof. unfold is_nl, brk. cbn [existsb]. destruct (b =? 10), (b =? 12); reflexivity. Qed.
Lemma ws4_In b : ws4 b = true <-> In b [32; 9; 10; 12].
Proof.
  unfold ws4. rewrite existsb_exists. split.
  - intros (x & Hin & He). apply N.eqb_eq in He. subst x. exact Hin.
  - intros Hin. exists b. split; [exact Hin|apply N.eqb_refl].
Qed.
Lemma brk_In b : brk b = true <-> In b [10; 12].
Proof.
  unfold brk. rewrite existsb_exists. split.
  - intros (x & Hin & He). apply N.eqb_eq in He. subst x. exact Hin.
  - intros Hin. exists b. split; [exact Hin|apply N.eqb_refl].
Qed.
Lemma brk_ws4 b : brk b = true -> ws4 b = true.
Proof. rewrite brk_In, ws4_In. cbn [In]. intuition. Qed.

Lemma len_N_cons {A} (x : A) l : len_N (x :: l) = 1 + len_N l.
Proof. unfold len_N. cbn [length]. lia. Qed.
Lemma len_N_app {A} (a b : list A) : len_N (a ++ b) = len_N a + len_N b.
Proof. unfold len_N. rewrite app_length. lia. Qed.

(* the loop of SkipWhitespaces computes the run and its first line break (0 = none, as in Go) *)
Lemma ws_scan_spec l : forall pos nl, 1 <= pos ->
  ws_scan l pos nl =
  (pos + len_N (run_of l),
   if nl =? 0 then match first_brk (run_of l) with Some k => pos + k | None => 0 end else nl).
Proof.
  induction l as [|b t IH]; intros pos nl Hp; cbn [ws_scan run_of].
  - cbn [first_brk]. unfold len_N. cbn [length]. rewrite N.add_0_r. destruct (nl =? 0) eqn:E; [apply N.eqb_eq in E; subst|]; reflexivity.
  - rewrite is_ws_ws4, is_nl_brk. destruct (ws4 b) eqn:Ew.
    + rewrite IH by lia. rewrite len_N_cons. cbn [first_brk]. f_equal; [lia|].
      destruct (brk b) eqn:Eb; cbn [andb].
      * destruct (nl =? 0) eqn:E.
        -- destruct (pos =? 0) eqn:E2; [apply N.eqb_eq in E2; lia|]. lia.
        -- rewrite E. reflexivity.
      * destruct (nl =? 0) eqn:E; [|reflexivity].
        destruct (first_brk (run_of t)); [lia|reflexivity].
    + cbn [first_brk]. unfold len_N. cbn [length]. rewrite N.add_0_r.
      destruct (nl =? 0) eqn:E; [apply N.eqb_eq in E; subst|]; reflexivity.
Qed.

(* SkipWhitespaces = (end of the run, the mode's verdict on the run) *)
Theorem skip_ws_spec inp pos m : 1 <= pos ->
  skip_ws inp pos m = (w_end (spec_run inp pos), mode_check m (spec_run inp pos)).
Proof.
  intros Hp. unfold skip_ws. fold (rest inp pos). rewrite ws_scan_spec by exact Hp.
  rewrite N.eqb_refl. unfold spec_run, run_at, mode_check, mode_ok, mode_err.
  cbn [w_start w_end w_nl].
  set (s := run_of (rest inp pos)).
  destruct m.
  - destruct (pos <? pos + len_N s) eqn:E1; destruct (pos + len_N s =? pos) eqn:E2;
      try reflexivity; [apply N.ltb_lt in E1; apply N.eqb_eq in E2; lia|apply N.ltb_ge in E1; apply N.eqb_neq in E2; lia].
  - destruct (first_brk s) as [k|].
    + destruct (0 <? pos + k) eqn:E; [reflexivity|apply N.ltb_ge in E; lia].
    + reflexivity.
  - reflexivity.
  - destruct (first_brk s) as [k|].
    + destruct (pos + k =? 0) eqn:E; [apply N.eqb_eq in E; lia|reflexivity].
    + rewrite N.eqb_refl. reflexivity.
Qed.

(* ---- the run, byte by byte ---- *)
Lemma nth_error_skipn_add {A} (l : list A) : forall n k, nth_error (skipn n l) k = nth_error l (n + k)%nat.
Proof.
  induction l as [|x t IH]; intros n k.
  - rewrite skipn_nil. destruct k, n; reflexivity.
  - destruct n; [reflexivity|]. cbn [skipn Nat.add nth_error]. apply IH.
Qed.

Lemma skipn_add {A} (l : list A) : forall a b, skipn b (skipn a l) = skipn (a + b) l.
Proof.
  induction l as [|x t IH]; intros a b.
  - rewrite !skipn_nil. reflexivity.
  - destruct a; [reflexivity|]. cbn [skipn Nat.add]. apply IH.
Qed.

Lemma byte_at_rest inp pos k : i_offset inp <= pos ->
  byte_at inp (pos + k) = nth_error (rest inp pos) (N.to_nat k).
Proof.
  intros H. unfold byte_at, rest, nth_N. rewrite nth_error_skipn_add. f_equal. lia.
Qed.
Lemma byte_at_rest0 inp pos : i_offset inp <= pos -> byte_at inp pos = nth_error (rest inp pos) 0.
Proof. intros H. pose proof (byte_at_rest inp pos 0 H) as E. rewrite N.add_0_r in E. exact E. Qed.
Lemma rest_add inp pos k : i_offset inp <= pos -> rest inp (pos + k) = skipn (N.to_nat k) (rest inp pos).
Proof.
  intros H. unfold rest. rewrite skipn_add. f_equal. lia.
Qed.

Lemma run_of_prefix l : exists tl, l = run_of l ++ tl /\ match tl with [] => True | b :: _ => ws4 b = false end.
Proof.
  induction l as [|b t (tl & E & H)]; cbn [run_of].
  - exists []. split; [reflexivity|exact I].
  - destruct (ws4 b) eqn:Ew.
    + exists tl. split; [cbn [app]; f_equal; exact E|exact H].
    + exists (b :: t). split; [reflexivity|exact Ew].
Qed.
Lemma run_of_all_ws l : Forall (fun b => ws4 b = true) (run_of l).
Proof.
  induction l as [|b t IH]; cbn [run_of]; [constructor|].
  destruct (ws4 b) eqn:E; constructor; assumption.
Qed.
Lemma run_of_nth l k : (k < length (run_of l))%nat -> nth_error (run_of l) k = nth_error l k.
Proof.
  destruct (run_of_prefix l) as (tl & E & _). intros H.
  rewrite E at 2. rewrite nth_error_app1 by exact H. reflexivity.
Qed.
Lemma run_of_stop l b : nth_error l (length (run_of l)) = Some b -> ws4 b = false.
Proof.
  destruct (run_of_prefix l) as (tl & E & H). rewrite E at 1.
  rewrite nth_error_app2 by lia. rewrite Nat.sub_diag.
  destruct tl as [|x tl]; cbn [nth_error]; [discriminate|]. intros [= <-]. exact H.
Qed.
Lemma run_of_skip l : run_of (skipn (length (run_of l)) l) = [].
Proof.
  induction l as [|b t IH]; cbn [run_of]; [reflexivity|].
  destruct (ws4 b) eqn:E; cbn [length skipn]; [exact IH|]. cbn [run_of]. rewrite E. reflexivity.
Qed.
(* a string of whitespace followed by a non-whitespace byte (or nothing) is its own run *)
Lemma run_of_app g tl : all_ws g -> match tl with [] => True | b :: _ => ws4 b = false end -> run_of (g ++ tl) = g.
Proof.
  intros Hg Ht. induction Hg as [|b g Hb Hg IH]; cbn [app run_of].
  - destruct tl as [|b tl]; [reflexivity|]. cbn [run_of]. rewrite Ht. reflexivity.
  - rewrite Hb. f_equal. exact IH.
Qed.

Lemma first_brk_some s k : first_brk s = Some k ->
  (N.to_nat k < length s)%nat /\ (exists b, nth_error s (N.to_nat k) = Some b /\ brk b = true) /\
  forall j b, (j < N.to_nat k)%nat -> nth_error s j = Some b -> brk b = false.
Proof.
  revert k; induction s as [|x t IH]; intros k; cbn [first_brk]; [discriminate|].
  destruct (brk x) eqn:E.
  - intros [= <-]. change (N.to_nat 0) with 0%nat. cbn [length]. split; [lia|]. split; [exists x; auto|]. intros j b Hj; lia.
  - destruct (first_brk t) as [k'|]; [|discriminate]. intros Hk.
    assert (Ek : k = 1 + k') by congruence. clear Hk. subst k.
    destruct (IH k' eq_refl) as (H1 & (b & H2 & H3) & H4).
    replace (N.to_nat (1 + k')) with (S (N.to_nat k')) by lia. cbn [length nth_error].
    split; [lia|]. split; [exists b; auto|].
    intros j b' Hj. destruct j as [|j]; cbn [nth_error].
    + intros [= <-]. exact E.
    + apply H4. lia.
Qed.
Lemma first_brk_none s : first_brk s = None -> forall j b, nth_error s j = Some b -> brk b = false.
Proof.
  induction s as [|x t IH]; cbn [first_brk]; intros H j b.
  - destruct j; discriminate.
  - destruct (brk x) eqn:E; [discriminate|]. destruct (first_brk t); [discriminate|].
    destruct j as [|j]; cbn [nth_error]; [intros [= <-]; exact E|apply IH; reflexivity].
Qed.

(* the declarative reading of a run: [e] is the end of the maximal run of the four whitespace bytes from [pos] *)
Definition is_run (inp : input) (pos e : N) : Prop :=
  pos <= e /\
  (forall q, pos <= q -> q < e -> exists b, byte_at inp q = Some b /\ In b [32; 9; 10; 12]) /\
  (forall b, byte_at inp e = Some b -> ~ In b [32; 9; 10; 12]).
(* [nl] is the position of the first line break in [pos, e), if there is one *)
Definition first_break (inp : input) (pos e : N) (nl : option N) : Prop :=
  match nl with
  | None => forall q b, pos <= q -> q < e -> byte_at inp q = Some b -> ~ In b [10; 12]
  | Some p => pos <= p /\ p < e /\ (exists b, byte_at inp p = Some b /\ In b [10; 12]) /\
              forall q b, pos <= q -> q < p -> byte_at inp q = Some b -> ~ In b [10; 12]
  end.

Lemma spec_run_is_run inp pos : i_offset inp <= pos ->
  is_run inp pos (w_end (spec_run inp pos)) /\ first_break inp pos (w_end (spec_run inp pos)) (w_nl (spec_run inp pos)).
Proof.
  intros Ho. unfold spec_run, run_at. cbn [w_end w_nl]. set (l := rest inp pos). set (s := run_of l).
  assert (Hlen : forall q, pos <= q -> q < pos + len_N s -> (N.to_nat (q - pos) < length s)%nat) by (unfold len_N; intros; lia).
  split.
  - split; [lia|]. split.
    + intros q H1 H2. replace q with (pos + (q - pos)) by lia. rewrite byte_at_rest by exact Ho. fold l.
      pose proof (Hlen q H1 H2) as Hk. rewrite <- (run_of_nth l) by exact Hk. fold s.
      destruct (nth_error s (N.to_nat (q - pos))) as [b|] eqn:En; [|apply nth_error_None in En; lia].
      exists b. split; [reflexivity|]. apply ws4_In.
      pose proof (run_of_all_ws l) as Hall. rewrite Forall_forall in Hall. apply Hall. eapply nth_error_In; exact En.
    + intros b. rewrite byte_at_rest by exact Ho. fold l. unfold len_N. rewrite Nat2N.id. fold s. unfold s.
      intros H. apply run_of_stop in H. rewrite <- ws4_In. congruence.
  - destruct (first_brk s) as [k|] eqn:Ek.
    + destruct (first_brk_some s k Ek) as (H1 & (b & H2 & H3) & H4). unfold first_break.
      split; [lia|]. split; [unfold len_N; lia|]. split.
      * exists b. rewrite byte_at_rest by exact Ho. fold l. rewrite <- (run_of_nth l) by exact H1. fold s.
        split; [exact H2|apply brk_In; exact H3].
      * intros q b' Hq1 Hq2. replace q with (pos + (q - pos)) by lia. rewrite byte_at_rest by exact Ho. fold l.
        rewrite <- (run_of_nth l) by (fold s; lia). fold s. intros Hn.
        rewrite <- brk_In. rewrite (H4 (N.to_nat (q - pos)) b'); [discriminate|lia|exact Hn].
    + unfold first_break. intros q b Hq1 Hq2. replace q with (pos + (q - pos)) by lia.
      rewrite byte_at_rest by exact Ho. fold l. rewrite <- (run_of_nth l) by (apply Hlen; lia). fold s. intros Hn.
      rewrite <- brk_In. rewrite (first_brk_none s Ek _ _ Hn). discriminate.
Qed.

(* the end of the run is determined by the bytes *)
Lemma is_run_unique inp pos e1 e2 : is_run inp pos e1 -> is_run inp pos e2 -> e1 = e2.
Proof.
  intros (A1 & B1 & C1) (A2 & B2 & C2).
  destruct (N.lt_trichotomy e1 e2) as [H|[H|H]]; [|exact H|].
  - destruct (B2 e1 A1 H) as (b & Hb & Hin). exfalso. exact (C1 b Hb Hin).
  - destruct (B1 e2 A2 H) as (b & Hb & Hin). exfalso. exact (C2 b Hb Hin).
Qed.

(* C10 theorem 1 *)
Theorem skip_run inp pos m : 1 <= i_offset inp -> i_offset inp <= pos ->
  exists e nl,
    is_run inp pos e /\ first_break inp pos e nl /\
    skip_ws inp pos m =
    (e, match m with
        | WsNone => if e =? pos then None else Some (mk_err pos (CWs WsErrNone))             (* at the start of the run *)
        | WsSpaces => match nl with None => None | Some p => Some (mk_err p (CWs WsErrSpaces)) end   (* at the first line break *)
        | WsSpacesNl => None
        | WsSpacesForceNl => match nl with Some _ => None | None => Some (mk_err e (CWs WsErrForceNl)) end  (* at the end *)
        end).
Proof.
  intros H1 Ho. exists (w_end (spec_run inp pos)), (w_nl (spec_run inp pos)).
  destruct (spec_run_is_run inp pos Ho) as (Hr & Hb). split; [exact Hr|]. split; [exact Hb|].
  rewrite skip_ws_spec by lia. f_equal.
  unfold mode_check, mode_ok, mode_err. destruct m; cbn [spec_run run_at w_start w_end w_nl].
  - destruct (pos + len_N (run_of (rest inp pos)) =? pos); reflexivity.
  - destruct (first_brk (run_of (rest inp pos))); reflexivity.
  - reflexivity.
  - destruct (first_brk (run_of (rest inp pos))); reflexivity.
Qed.

Example skip_run_example :
  let inp := eng_input [97; 32; 9; 10; 32; 12; 98] 5 in
  skip_ws inp 6 WsNone = (11, Some (mk_err 6 (CWs WsErrNone))) /\
  skip_ws inp 6 WsSpaces = (11, Some (mk_err 8 (CWs WsErrSpaces))) /\
  skip_ws inp 6 WsSpacesNl = (11, None) /\
  skip_ws inp 6 WsSpacesForceNl = (11, None) /\
  skip_ws inp 6 WsSpaces = (11, Some (mk_err 8 (CWs WsErrSpaces))) /\
  skip_ws (eng_input [97; 32; 9; 98] 5) 6 WsSpacesForceNl = (8, Some (mk_err 8 (CWs WsErrForceNl))) /\
  skip_ws inp 12 WsNone = (12, None) /\ skip_ws inp 12 WsSpacesForceNl = (12, Some (mk_err 12 (CWs WsErrForceNl))).
Proof. vm_compute. repeat split; reflexivity. Qed.

(* ---- the engine model's skip_ws and the C09 model of Reader.SkipWhitespaces are the same function ---- *)
Definition rmode (m : wsmode) : Reader.wsmode :=
  match m with
  | WsNone => Reader.WsNone | WsSpaces => Reader.WsSpaces
  | WsSpacesNl => Reader.WsSpacesNl | WsSpacesForceNl => Reader.WsSpacesForceNl
  end.
Definition rerr (e : perr) : option (N * Reader.wserr) :=
  match ecause e with
  | CWs WsErrNone => Some (epos e, Reader.WsNotAllowed)
  | CWs WsErrForceNl => Some (epos e, Reader.WsExpectNl)
  | CWs WsErrSpaces => Some (epos e, Reader.WsNlNotAllowed)
  | _ => None
  end.
Definition reader_of (inp : input) : Reader.reader := {| Reader.r_data := i_data inp; Reader.r_offset := i_offset inp |}.

Lemma reader_ws_run l : Reader.ws_run l = len_N (run_of l).
Proof.
  induction l as [|b t IH]; cbn [Reader.ws_run run_of]; [reflexivity|].
  change (Reader.is_ws b) with (is_ws b). rewrite is_ws_ws4. destruct (ws4 b); [|reflexivity].
  rewrite len_N_cons, IH. reflexivity.
Qed.
Lemma reader_first_nl l : Reader.ws_first_nl l = first_brk (run_of l).
Proof.
  induction l as [|b t IH]; cbn [Reader.ws_first_nl run_of]; [reflexivity|].
  change (Reader.is_ws b) with (is_ws b). change (Reader.is_nl b) with (is_nl b). rewrite is_ws_ws4, is_nl_brk.
  destruct (ws4 b); [|reflexivity]. cbn [first_brk]. destruct (brk b); [reflexivity|]. rewrite IH. reflexivity.
Qed.

Theorem skip_ws_reader inp pos m : 1 <= i_offset inp -> ReaderProofs.in_file (reader_of inp) pos ->
  Reader.skip_whitespaces (reader_of inp) pos (rmode m) =
  Ok (fst (skip_ws inp pos m), match snd (skip_ws inp pos m) with Some e => rerr e | None => None end).
Proof.
  intros Ho Hin. rewrite ReaderProofs.skip_whitespaces_spec by assumption.
  destruct Hin as (Hin & _). cbn [reader_of Reader.r_offset] in Hin.
  rewrite skip_ws_spec by lia. cbn [fst snd]. unfold Reader.spec_skip_whitespaces. cbn [reader_of Reader.r_data Reader.r_offset].
  change (Reader.suffix (i_data inp) (pos - i_offset inp)) with (rest inp pos).
  rewrite reader_ws_run, reader_first_nl. f_equal.
  unfold spec_run, run_at, mode_check, mode_ok, mode_err. cbn [w_start w_end w_nl].
  set (s := run_of (rest inp pos)). f_equal.
  destruct m; cbn [rmode Reader.spec_ws_error].
  - destruct (0 <? len_N s) eqn:E1; destruct (pos + len_N s =? pos) eqn:E2; try reflexivity;
      [apply N.ltb_lt in E1; apply N.eqb_eq in E2; lia|apply N.ltb_ge in E1; apply N.eqb_neq in E2; lia].
  - destruct (first_brk s); reflexivity.
  - reflexivity.
  - destruct (first_brk s); reflexivity.
Qed.

(* ------------------------------------------------------------------ *)
(* B. LeftTrim and RightTrim: the accept / reject tables               *)

(* LeftTrim's adjustment of the context's furthest error (trim.go:27-31): a not-found error standing
   behind the run is re-registered before the run *)
Definition ltrim_ctx (pos pos1 : N) (c : ctx) : ctx :=
  match cerr c with
  | Some ce => if (epos ce =? pos1) && is_notfound ce then set_error c (Some (mk_err pos (ecause ce))) else c
  | None => c
  end.
Lemma ltrim_ctx_none pos pos1 c : cerr c = None -> ltrim_ctx pos pos1 c = c.
Proof. unfold ltrim_ctx. intros ->. reflexivity. Qed.

Lemma mk_err_eta e : mk_err (epos e) (ecause e) = e.
Proof. destruct e; reflexivity. Qed.

Section Tables.
  Variable inp : input.
  Variable rules : list pexpr.
  Variables (rp : ptype) (rs : stype).

  (* LeftTrim p m at pos, for ANY operand p: with r the whitespace run at pos, p is run behind the run;
       operand ok,     run permitted  -> the operand's own result (nodes keep their start, end and value)
       operand ok,     run forbidden  -> the mode's whitespace error                                  (b)
       operand failed, run permitted  -> the operand's error, where the operand put it                (d)
       operand failed, run forbidden  -> operand's error further than the run's end: the whitespace error;
                                         a not-found error (at the run's end): moved back to pos;     (d)
                                         any other error: unchanged *)
  Theorem lefttrim_table m p c stk lrc pos res cp err c' :
    1 <= pos ->
    let r := spec_run inp pos in
    rp p c stk lrc (w_end r) = Ok (res, cp, err, c') ->
    parse_step inp rules rp rs (PLeftTrim m p) c stk lrc pos =
    Ok (match err, mode_check m r with
        | None, None => (res, cp, None, ltrim_ctx pos (w_end r) c')
        | None, Some w => ([], [], Some w, ltrim_ctx pos (w_end r) c')
        | Some e, None => (res, cp, Some e, ltrim_ctx pos (w_end r) c')
        | Some e, Some w =>
          if w_end r <? epos e then ([], [], Some w, ltrim_ctx pos (w_end r) c')
          else if is_notfound e then (res, cp, Some (mk_err pos (ecause e)), ltrim_ctx pos (w_end r) c')
          else (res, cp, Some e, ltrim_ctx pos (w_end r) c')
        end).
  Proof.
    intros Hp r H. cbn [parse_step]. rewrite skip_ws_spec by exact Hp. fold r. rewrite H. cbn [bind].
    unfold ltrim_ctx. destruct err as [e|]; destruct (mode_check m r) as [w|]; try reflexivity.
    destruct (w_end r <? epos e); [reflexivity|]. destruct (is_notfound e); reflexivity.
  Qed.

  (* RightTrim p m at pos, for ANY operand p:
       operand failed -> a whitespace error: unchanged; any other error: moved to the end of the whitespace run that
                         starts at the error's position;
       operand returned no node -> unchanged;
       operand returned one node n (not an end-of-input node), r the run at n's end:
            run permitted -> the same node with its end moved to the end of the run (start and value kept)
            run forbidden -> the mode's whitespace error                                             (c) *)
  Theorem righttrim_table_err m p c stk lrc pos res cp e c' :
    1 <= epos e ->
    rp p c stk lrc pos = Ok (res, cp, Some e, c') ->
    parse_step inp rules rp rs (PRightTrim m p) c stk lrc pos =
    Ok (res, cp, Some (if is_wserr e then e else mk_err (w_end (spec_run inp (epos e))) (ecause e)), c').
  Proof.
    intros He H. cbn [parse_step]. rewrite H. cbn [bind]. rewrite skip_ws_spec by exact He. cbn [fst].
    destruct (is_wserr e); [reflexivity|].
    destruct (epos e <? w_end (spec_run inp (epos e))) eqn:E; [reflexivity|].
    apply N.ltb_ge in E. unfold spec_run, run_at in *. cbn [w_end] in *.
    replace (epos e + len_N (run_of (rest inp (epos e)))) with (epos e) by lia. rewrite mk_err_eta. reflexivity.
  Qed.
  Theorem righttrim_table_none m p c stk lrc pos cp c' :
    rp p c stk lrc pos = Ok ([], cp, None, c') ->
    parse_step inp rules rp rs (PRightTrim m p) c stk lrc pos = Ok ([], cp, None, c').
  Proof. intros H. cbn [parse_step]. rewrite H. reflexivity. Qed.
  Theorem righttrim_table_node m p c stk lrc pos n cp c' :
    1 <= node_rpos n -> (forall q, n <> NEnd q) ->
    rp p c stk lrc pos = Ok ([n], cp, None, c') ->
    let r := spec_run inp (node_rpos n) in
    parse_step inp rules rp rs (PRightTrim m p) c stk lrc pos =
    Ok (match mode_check m r with
        | None => ([set_rpos n (w_end r)], cp, None, c')
        | Some w => ([], [], Some w, c')
        end).
  Proof.
    intros Hn Hne H r. cbn [parse_step]. rewrite H. cbn [bind trim_nodes].
    destruct n as [t v p0 r0|p0|p0|t i cs p0 r0]; try (exfalso; eapply Hne; reflexivity);
      rewrite skip_ws_spec by exact Hn; fold r; destruct (mode_check m r); reflexivity.
  Qed.
End Tables.

(* ---- single-rune operands (terminal.Rune), at the level of [parse] ---- *)
Definition nf_rune (pos c : N) : perr := mk_err pos (CNotFound (quote_rune c)).

Lemma rune_parse inp rules f ch c stk lrc pos : (1 <= f)%nat ->
  parse inp rules f (PTerm (TRune ch)) c stk lrc pos =
  Ok (if byte_is inp pos ch then ([NTerm [ch] (VRune ch) pos (pos + 1)], [], None, c)
      else ([], [], Some (nf_rune pos ch), log_fail c pos (CNotFound (quote_rune ch)))).
Proof.
  intros Hf. destruct f as [|f]; [lia|]. rewrite parse_S. cbn [parse_step term_parse]. unfold byte_is.
  destruct (byte_at inp pos) as [b|]; [destruct (b =? ch)|]; reflexivity.
Qed.

(* C10 theorem 2, LeftTrim: r is the whitespace run at pos, the rune must stand at its end q.
     rune there, run permitted  -> the node of the rune: start q, end q+1, value the rune
     rune there, run forbidden  -> the mode's whitespace error (start of the run / first line break / end of the run)
     no rune,    run permitted  -> "was expecting <rune>" at q (behind the run)
     no rune,    run forbidden  -> "was expecting <rune>" at pos (before the run) *)
Theorem lefttrim_rune inp rules f m ch c stk lrc pos : (2 <= f)%nat -> 1 <= pos ->
  let r := spec_run inp pos in
  let q := w_end r in
  parse inp rules f (PLeftTrim m (PTerm (TRune ch))) c stk lrc pos =
  Ok (if byte_is inp q ch then
        match mode_check m r with
        | None => ([NTerm [ch] (VRune ch) q (q + 1)], [], None, ltrim_ctx pos q c)
        | Some w => ([], [], Some w, ltrim_ctx pos q c)
        end
      else
        ([], [], Some (nf_rune (match mode_check m r with None => q | Some _ => pos end) ch),
         ltrim_ctx pos q (log_fail c q (CNotFound (quote_rune ch))))).
Proof.
  intros Hf Hp r q. destruct f as [|f]; [lia|]. rewrite parse_S.
  pose proof (rune_parse inp rules f ch c stk lrc q ltac:(lia)) as Hr.
  destruct (byte_is inp q ch) eqn:Eb.
  - erewrite lefttrim_table; [|exact Hp|exact Hr]. fold r. fold q. destruct (mode_check m r); reflexivity.
  - erewrite lefttrim_table; [|exact Hp|exact Hr]. fold r. fold q.
    destruct (mode_check m r) as [w|]; [|reflexivity].
    unfold nf_rune at 1 2. cbn [epos mk_err]. rewrite N.ltb_irrefl. reflexivity.
Qed.

(* C10 theorem 2, RightTrim: r is the whitespace run behind the rune.
     rune at pos, run permitted -> the node of the rune: start pos (its own), value the rune, END = end of the run
     rune at pos, run forbidden -> the mode's whitespace error (at pos+1 / the first line break / the end of the run)
     no rune                   -> "was expecting <rune>" at the end of the whitespace run that starts at pos *)
Theorem righttrim_rune inp rules f m ch c stk lrc pos : (2 <= f)%nat -> 1 <= pos ->
  let r := spec_run inp (pos + 1) in
  parse inp rules f (PRightTrim m (PTerm (TRune ch))) c stk lrc pos =
  Ok (if byte_is inp pos ch then
        match mode_check m r with
        | None => ([NTerm [ch] (VRune ch) pos (w_end r)], [], None, c)
        | Some w => ([], [], Some w, c)
        end
      else ([], [], Some (nf_rune (w_end (spec_run inp pos)) ch), log_fail c pos (CNotFound (quote_rune ch)))).
Proof.
  intros Hf Hp r. destruct f as [|f]; [lia|]. rewrite parse_S.
  pose proof (rune_parse inp rules f ch c stk lrc pos ltac:(lia)) as Hr.
  destruct (byte_is inp pos ch) eqn:Eb.
  - rewrite (righttrim_table_node inp rules _ _ m _ c stk lrc pos (NTerm [ch] (VRune ch) pos (pos + 1)) [] c);
      [|cbn [node_rpos]; lia|intros q0; discriminate|exact Hr].
    cbn [node_rpos set_rpos]. fold r. reflexivity.
  - erewrite righttrim_table_err; [| |exact Hr]; [|cbn [nf_rune mk_err epos]; lia]. reflexivity.
Qed.

(* ------------------------------------------------------------------ *)
(* C. Token sequences                                                  *)

Lemma spec_run_end_ge inp pos : pos <= w_end (spec_run inp pos).
Proof. unfold spec_run, run_at. cbn [w_end]. lia. Qed.
Lemma no_run_end pos : w_end (no_run pos) = pos.
Proof. unfold no_run, run_at. cbn [w_end]. unfold len_N. cbn [length]. lia. Qed.
Lemma mode_check_pos inp pos m w : mode_check m (spec_run inp pos) = Some w -> pos <= epos w /\ is_wserr w = true.
Proof.
  unfold mode_check. destruct (mode_ok m (spec_run inp pos)) eqn:E; [discriminate|]. intros [= <-].
  unfold spec_run, run_at, mode_ok, mode_err in *. cbn [w_start w_end w_nl] in *.
  destruct m; cbn [epos mk_err is_wserr ecause]; try discriminate;
    destruct (first_brk (run_of (rest inp pos))); try discriminate; (split; [lia|reflexivity]).
Qed.
Lemma cerr_log_fail c p k : cerr (log_fail c p k) = cerr c.
Proof. reflexivity. Qed.
Lemma cerr_reg_call c : cerr (reg_call c) = cerr c.
Proof. reflexivity. Qed.

(* what a parser returns for a token verdict *)
Definition tok_pres (r : tokres) (c : ctx) : pres :=
  match r with TAccept n => ([n], [], None, c) | TReject e => ([], [], Some e, c) end.

Lemma tok_parse inp rules f t c stk lrc pos : (3 <= f)%nat -> 1 <= pos -> cerr c = None ->
  exists c', cerr c' = None /\
    parse inp rules f (tok_expr t) c stk lrc pos = Ok (tok_pres (spec_token inp t pos) c').
Proof.
  intros Hf Hp Hc. destruct t as [ml ch mr]. unfold spec_token, tok_expr. cbn [t_left t_rune t_right].
  destruct ml as [ml|]; destruct mr as [mr|]; cbn [gap gap_check].
  - (* RightTrim (LeftTrim rune) *)
    destruct f as [|f]; [lia|]. rewrite parse_S.
    pose proof (lefttrim_rune inp rules f ml ch c stk lrc pos ltac:(lia) Hp) as Hl. cbn zeta in Hl.
    set (r := spec_run inp pos) in *. set (q := w_end r) in *.
    assert (Hq : pos <= q) by apply spec_run_end_ge.
    rewrite (ltrim_ctx_none pos q c Hc) in Hl.
    rewrite (ltrim_ctx_none pos q (log_fail c q (CNotFound (quote_rune ch))) Hc) in Hl.
    destruct (byte_is inp q ch) eqn:Eb.
    + destruct (mode_check ml r) as [w|] eqn:Em.
      * destruct (mode_check_pos inp pos ml w Em) as (Hw & Hws).
        exists c. split; [exact Hc|].
        erewrite righttrim_table_err; [| |exact Hl]; [rewrite Hws; reflexivity|lia].
      * exists c. split; [exact Hc|].
        rewrite (righttrim_table_node inp rules _ _ mr _ c stk lrc pos (NTerm [ch] (VRune ch) q (q + 1)) [] c);
          [|cbn [node_rpos]; lia|intros q0; discriminate|exact Hl].
        cbn [node_rpos set_rpos]. destruct (mode_check mr (spec_run inp (q + 1))); reflexivity.
    + exists (log_fail c q (CNotFound (quote_rune ch))). split; [exact Hc|].
      erewrite righttrim_table_err; [| |exact Hl]; [|unfold nf_rune; cbn [epos mk_err]; destruct (mode_check ml r); lia].
      unfold nf_rune. cbn [epos ecause mk_err tok_pres]. reflexivity.
  - (* LeftTrim rune *)
    pose proof (lefttrim_rune inp rules f ml ch c stk lrc pos ltac:(lia) Hp) as Hl. cbn zeta in Hl.
    set (r := spec_run inp pos) in *. set (q := w_end r) in *.
    rewrite (ltrim_ctx_none pos q c Hc) in Hl.
    rewrite (ltrim_ctx_none pos q (log_fail c q (CNotFound (quote_rune ch))) Hc) in Hl.
    rewrite Hl. destruct (byte_is inp q ch) eqn:Eb.
    + exists c. split; [exact Hc|]. destruct (mode_check ml r) as [w|].
      * reflexivity.
      * rewrite no_run_end. reflexivity.
    + exists (log_fail c q (CNotFound (quote_rune ch))). split; [exact Hc|]. reflexivity.
  - (* RightTrim rune *)
    pose proof (righttrim_rune inp rules f mr ch c stk lrc pos ltac:(lia) Hp) as Hr. cbn zeta in Hr.
    rewrite Hr. rewrite no_run_end. destruct (byte_is inp pos ch) eqn:Eb.
    + exists c. split; [exact Hc|]. destruct (mode_check mr (spec_run inp (pos + 1))); reflexivity.
    + exists (log_fail c pos (CNotFound (quote_rune ch))). split; [exact Hc|]. reflexivity.
  - (* bare rune *)
    rewrite rune_parse by lia. rewrite !no_run_end. destruct (byte_is inp pos ch) eqn:Eb.
    + exists c. split; [exact Hc|]. reflexivity.
    + exists (log_fail c pos (CNotFound (quote_rune ch))). split; [exact Hc|]. reflexivity.
Qed.

(* an accepted token is the rune's node: it starts at or behind pos and ends behind its start *)
Lemma spec_token_accept inp t pos n : spec_token inp t pos = TAccept n ->
  exists q r, n = NTerm [t_rune t] (VRune (t_rune t)) q r /\ pos <= q /\ q < r.
Proof.
  unfold spec_token. destruct (byte_is inp _ _); [|discriminate].
  destruct (gap_check (t_left t) _); [discriminate|].
  destruct (gap_check (t_right t) _); [discriminate|]. intros [= <-].
  eexists _, _. split; [reflexivity|]. split.
  - destruct (t_left t); cbn [gap]; [apply spec_run_end_ge|rewrite no_run_end; lia].
  - destruct (t_right t); cbn [gap]; [|rewrite no_run_end; lia].
    eapply N.lt_le_trans; [|apply spec_run_end_ge]. lia.
Qed.

Definition tokq (ip : interp) (ts : list tokspec) : seqinfo :=
  {| q_kind := SeqOf; q_ip := ip; q_single := false; q_ps := map tok_expr ts |}.

Lemma handle_result_seq_node q pos ns : q_kind q = SeqOf -> q_single q = false ->
  handle_result q pos ns = seq_node (q_ip q) pos ns.
Proof.
  intros Hk Hs. unfold handle_result, seq_node. rewrite Hk, Hs.
  destruct ns as [|a [|b l]]; reflexivity.
Qed.
Lemma set_union_nil s : set_union s [] = s.
Proof. reflexivity. Qed.
Lemma tok_node_not_eof c v p r : is_eof_node (NTerm [c] v p r) = false.
Proof. unfold is_eof_node. cbn [node_token tok_EOF list_N_eqb]. apply andb_false_r. Qed.

(* the sequence loop over the remaining tokens: a straight line, because every token returns at most one node *)
Lemma seq_tokens inp rules ip : forall todo done f c stk lrc pos merge st,
  (length todo + 4 <= f)%nat -> 1 <= pos -> cerr c = None ->
  s_res st = [] -> s_err st = None -> Forall (fun n => is_eof_node n = false) (s_nodes st) ->
  exists st' c',
    seqp inp rules f (tokq ip (done ++ todo)) (length done) c stk lrc pos merge st = Ok (false, st', c') /\
    cerr c' = None /\ s_cp st' = s_cp st /\
    match spec_tokens inp todo pos with
    | SAccept ns e => s_res st' = [seq_node ip e (rev (s_nodes st) ++ ns)] /\ s_err st' = None
    | SReject e => s_res st' = [] /\ s_err st' = Some e
    end.
Proof.
  induction todo as [|t todo IH]; intros done f c stk lrc pos merge st Hf Hp Hc Hres Herr Hnodes.
  - destruct f as [|f]; [lia|]. rewrite seqp_S. unfold seq_step. cbn [tokq q_kind q_ps seq_lookup].
    assert (En : nth_error (map tok_expr (done ++ [])) (length done) = None)
      by (apply nth_error_None; rewrite map_length, app_length; cbn [length]; lia).
    rewrite En. cbn [bind].
    assert (El : seq_lencheck SeqOf (length (map tok_expr (done ++ []))) (length done) = true)
      by (cbn [seq_lencheck]; apply Nat.eqb_eq; rewrite map_length, app_length; cbn [length]; lia).
    rewrite El. cbn [s_nodes s_cp s_res s_err]. rewrite Hres, Herr. cbn [keep_max append_node spec_tokens].
    rewrite handle_result_seq_node by reflexivity. cbn [q_ip tokq]. rewrite ?app_nil_r.
    assert (Ecp : (if merge then set_union (s_cp st) [] else s_cp st) = s_cp st) by (destruct merge; reflexivity).
    destruct (s_nodes st) as [|lastn tl] eqn:Es.
    + eexists _, c. split; [reflexivity|]. cbn [s_cp s_res s_err]. split; [exact Hc|]. split; [exact Ecp|]. split; reflexivity.
    + inversion Hnodes as [|x l Hx Hl]; subst x l. rewrite Hx.
      eexists _, c. split; [reflexivity|]. cbn [s_cp s_res s_err]. split; [exact Hc|]. split; [exact Ecp|]. split; reflexivity.
  - destruct f as [|f]; [cbn [length] in Hf; lia|]. cbn [length] in Hf.
    rewrite seqp_S. unfold seq_step. cbn [tokq q_kind q_ps seq_lookup].
    assert (En : nth_error (map tok_expr (done ++ t :: todo)) (length done) = Some (tok_expr t)).
    { rewrite map_app. rewrite nth_error_app2 by (rewrite map_length; lia). rewrite map_length, Nat.sub_diag. reflexivity. }
    rewrite En.
    destruct (tok_parse inp rules f t (reg_call c) stk lrc pos ltac:(lia) Hp Hc) as (c1 & Hc1 & Hparse).
    rewrite Hparse.
    assert (Ecp : (if merge then set_union (s_cp st) [] else s_cp st) = s_cp st) by (destruct merge; reflexivity).
    destruct (spec_token inp t pos) as [n|e] eqn:Et; cbn [tok_pres bind].
    + destruct (spec_token_accept _ _ _ _ Et) as (q0 & r0 & En' & Hq1 & Hq2).
      cbn [alts_loop s_nodes s_cp s_res s_err]. rewrite Herr. cbn [keep_max].
      set (stn := {| s_cp := _; s_res := _; s_err := _; s_nodes := n :: s_nodes st |}).
      replace (S (length done)) with (length (done ++ [t])) by (rewrite app_length; cbn [length]; lia).
      replace (done ++ t :: todo) with ((done ++ [t]) ++ todo) by (rewrite <- app_assoc; reflexivity).
      match goal with |- context [seqp _ _ _ _ _ _ _ ?l _ ?m _] =>
        destruct (IH (done ++ [t]) f c1 stk l (node_rpos n) m stn) as (st' & c' & Hrun & Hc' & Hcp & Hres');
        [lia|subst n; cbn [node_rpos]; lia|exact Hc1|exact Hres|reflexivity| |]
      end.
      { unfold stn. cbn [s_nodes]. constructor; [subst n; apply tok_node_not_eof|exact Hnodes]. }
      rewrite Hrun. cbn [bind alts_loop].
      exists st', c'. split; [reflexivity|]. split; [exact Hc'|]. split; [rewrite Hcp; exact Ecp|].
      cbn [spec_tokens]. rewrite Et.
      destruct (spec_tokens inp todo (node_rpos n)) as [ns e|e].
      * unfold stn in Hres'. cbn [s_nodes rev] in Hres'. rewrite <- app_assoc in Hres'. exact Hres'.
      * exact Hres'.
    + assert (El : seq_lencheck SeqOf (length (map tok_expr (done ++ t :: todo))) (length done) = false)
        by (cbn [seq_lencheck]; apply Nat.eqb_neq; rewrite map_length, app_length; cbn [length]; lia).
      rewrite El. eexists _, c1. split; [reflexivity|]. cbn [s_cp s_res s_err]. split; [exact Hc1|]. split; [exact Ecp|].
      cbn [spec_tokens]. rewrite Et. rewrite Herr. split; [exact Hres|reflexivity].
Qed.

Lemma last_default {A} (l : list A) : forall x d d', last (x :: l) d = last (x :: l) d'.
Proof. induction l as [|y l IH]; intros x d d'; [reflexivity|]. cbn [last] in *. apply IH. Qed.

(* accepted tokens end where the sequence ends *)
Lemma gen_tokens_end inp ts : forall pos ns e, spec_tokens inp ts pos = SAccept ns e ->
  match ns with [] => pos | f :: _ => node_rpos (last ns f) end = e /\ pos <= e.
Proof.
  induction ts as [|t ts IH]; intros pos ns e; cbn [spec_tokens].
  - intros [= <- <-]. split; [reflexivity|lia].
  - destruct (spec_token inp t pos) as [n|e0] eqn:Et; [|discriminate].
    destruct (spec_tokens inp ts (node_rpos n)) as [ns' e'|e'] eqn:Eg; [|discriminate]. intros [= <- <-].
    destruct (IH _ _ _ Eg) as (H1 & H2).
    destruct (spec_token_accept _ _ _ _ Et) as (q0 & r0 & -> & Hq1 & Hq2). cbn [node_rpos] in *.
    split; [|lia]. destruct ns' as [|f l]; [exact H1|].
    change (last (NTerm [t_rune t] (VRune (t_rune t)) q0 r0 :: f :: l) (NTerm [t_rune t] (VRune (t_rune t)) q0 r0))
      with (last (f :: l) (NTerm [t_rune t] (VRune (t_rune t)) q0 r0)).
    rewrite (last_default l f _ f). exact H1.
Qed.
Lemma seq_node_rpos inp ts pos ns e ip : spec_tokens inp ts pos = SAccept ns e -> pos = e \/ ns <> [] ->
  node_rpos (seq_node ip e ns) = e.
Proof.
  intros H Hn. destruct (gen_tokens_end _ _ _ _ _ H) as (H1 & _). unfold seq_node. cbn [node_rpos].
  destruct ns; [reflexivity|exact H1].
Qed.

(* SeqOf(tokens) *)
Lemma toks_parse inp rules ts f c stk lrc pos : (length ts + 5 <= f)%nat -> 1 <= pos -> cerr c = None ->
  exists c', cerr c' = None /\
    parse inp rules f (toks_expr ts) c stk lrc pos =
    Ok (match spec_tokens inp ts pos with
        | SAccept ns e => ([seq_node INone e ns], [], None, c')
        | SReject e => ([], [], Some e, c')
        end).
Proof.
  intros Hf Hp Hc. destruct f as [|f]; [lia|]. rewrite parse_S. unfold toks_expr. cbn [parse_step].
  set (st0 := {| s_cp := []; s_res := []; s_err := None; s_nodes := [] |}).
  destruct (seq_tokens inp rules INone ts [] f c stk lrc pos true st0 ltac:(lia) Hp Hc eq_refl eq_refl (Forall_nil _))
    as (st' & c' & Hrun & Hc' & Hcp & Hres).
  cbn [app length] in Hrun. unfold tokq in Hrun. rewrite Hrun. cbn [bind].
  destruct (spec_tokens inp ts pos) as [ns e|e]; destruct Hres as (Hr & He); rewrite Hr, He.
  - exists (set_error c' None). split; [cbn [set_error cerr max_err]; exact Hc'|].
    rewrite Hcp. reflexivity.
  - exists c'. split; [exact Hc'|]. rewrite Hcp. reflexivity.
Qed.

(* Sentence(SeqOf(tokens)) = SeqOf(SeqOf(tokens), End) with Select 0 *)
Lemma sentence_parse inp rules ts f c stk lrc pos : (length ts + 8 <= f)%nat -> 1 <= pos -> cerr c = None ->
  exists c', cerr c' = None /\
    parse inp rules f (sentence (toks_expr ts)) c stk lrc pos =
    Ok (match spec_tokens inp ts pos with
        | SAccept ns e => if is_eof inp e then ([sentence_tree ns e], [], None, c')
                          else ([], [], Some (mk_err e (COther msg_end)), c')
        | SReject e => ([], [], Some e, c')
        end).
Proof.
  intros Hf Hp Hc.
  destruct f as [|f]; [lia|]. destruct f as [|f]; [lia|]. destruct f as [|f]; [lia|]. destruct f as [|f]; [lia|].
  rewrite parse_S. unfold sentence. cbn [parse_step].
  rewrite seqp_S. unfold seq_step at 1. cbn [seq_lookup q_kind q_ps nth_error].
  destruct (toks_parse inp rules ts (S (S f)) (reg_call c) stk lrc pos ltac:(lia) Hp Hc) as (c1 & Hc1 & Hinner).
  rewrite Hinner.
  destruct (spec_tokens inp ts pos) as [ns e|e] eqn:Eg.
  - (* tokens accepted: End at the end of the last token *)
    cbn [bind alts_loop s_nodes s_cp s_res s_err keep_max].
    assert (Er : node_rpos (seq_node INone e ns) = e).
    { destruct (gen_tokens_end _ _ _ _ _ Eg) as (H1 & _). unfold seq_node. cbn [node_rpos]. destruct ns; [reflexivity|exact H1]. }
    rewrite Er.
    rewrite seqp_S. unfold seq_step at 1. cbn [seq_lookup q_kind q_ps nth_error].
    rewrite parse_S. cbn [parse_step].
    destruct (is_eof inp e) eqn:Ee.
    + cbn [bind alts_loop s_nodes s_cp s_res s_err keep_max node_rpos].
      rewrite seqp_S. unfold seq_step at 1. cbn [seq_lookup q_kind q_ps nth_error bind length seq_lencheck Nat.eqb].
      cbn [s_nodes s_cp s_res s_err keep_max append_node rev app handle_result q_single q_kind q_ip seq_token
           node_pos node_rpos last is_eof_node node_token]. 
      change (is_eof_node (NEnd e)) with true.
      cbn [bind s_res s_cp s_err set_union fold_left].
      eexists. split; [|destruct (e <? e); destruct (pos <? e); reflexivity]. cbn [set_error cerr max_err]. exact Hc1.
    + cbn [bind length seq_lencheck Nat.eqb s_nodes s_cp s_res s_err keep_max better alts_loop].
      eexists. split; [|destruct (pos <? e); reflexivity]. cbn [log_fail cerr]. exact Hc1.
  - cbn [bind length seq_lencheck Nat.eqb s_nodes s_cp s_res s_err keep_max better].
    exists c1. split; [exact Hc1|reflexivity].
Qed.

(* C10 theorem 3: parsley.Parse(Sentence(SeqOf(tokens))) for EVERY token list and input *)
Theorem tokens_code inp rules ts fuel : 1 <= i_offset inp -> (length ts + 8 <= fuel)%nat ->
  exists c, cerr c = None /\
    parse_top inp rules fuel (sentence (toks_expr ts)) =
    Ok (match code_parse inp ts with
        | VTree ns e => TopNode [sentence_tree ns e] c
        | VError e => TopErr e c
        end).
Proof.
  intros Ho Hf. unfold parse_top, run.
  destruct (sentence_parse inp rules ts fuel ctx0 [] [] (i_offset inp) Hf Ho eq_refl) as (c & Hc & Hrun).
  rewrite Hrun. cbn [bind]. exists c. split; [exact Hc|]. unfold code_parse, spec_parse.
  destruct (spec_tokens inp ts (i_offset inp)) as [ns e|e].
  - destruct (is_eof inp e); [reflexivity|]. rewrite Hc. reflexivity.
  - rewrite Hc. destruct (is_wserr e); reflexivity.
Qed.

(* C10 theorem 3 (the property): for EVERY token list Parse(Sentence(SeqOf(tokens))) is what the property says.
   ([code_parse] is [spec_parse] since the K3 repair of RightTrim; this is [tokens_code] under its proper name.) *)
Theorem tokens_spec inp rules ts fuel : 1 <= i_offset inp -> (length ts + 8 <= fuel)%nat ->
  exists c, cerr c = None /\
    parse_top inp rules fuel (sentence (toks_expr ts)) =
    Ok (match spec_parse inp ts with
        | VTree ns e => TopNode [sentence_tree ns e] c
        | VError e => TopErr e c
        end).
Proof. exact (tokens_code inp rules ts fuel). Qed.

(* the former K3 witness: RightTrim(LeftTrim(Rune a, WsSpaces), WsSpacesNl) on " \n a": "new line is not allowed" is now
   reported at the line break (position 2), where the property puts it (before the repair: position 4) *)
Example k3_witness_repaired :
  let inp := eng_input [32; 10; 32; 97] 1 in
  let ts := [{| t_left := Some WsSpaces; t_rune := 97; t_right := Some WsSpacesNl |}] in
  spec_parse inp ts = VError (mk_err 2 (CWs WsErrSpaces)) /\
  exists c, parse_top inp [] 9 (sentence (toks_expr ts)) = Ok (TopErr (mk_err 2 (CWs WsErrSpaces)) c).
Proof. split; [vm_compute; reflexivity|]. eexists. vm_compute. reflexivity. Qed.

(* non-vacuity: an accepted sequence with whitespace in every gap, and each kind of failure *)
Example tokens_example_accept :
  let ts := [tok_trim 97; {| t_left := Some WsSpacesNl; t_rune := 98; t_right := Some WsSpacesForceNl |};
             {| t_left := None; t_rune := 97; t_right := None |}] in
  let inp := eng_input [32; 10; 97; 32; 9; 98; 32; 13; 10; 97] 3 in
  spec_parse inp ts = VTree [NTerm [97] (VRune 97) 5 8; NTerm [98] (VRune 98) 8 11; NTerm [97] (VRune 97) 11 12] 12.
Proof. vm_compute. reflexivity. Qed.
Example tokens_example_reject :
  let t m1 m2 := [{| t_left := m1; t_rune := 97; t_right := m2 |}] in
  spec_parse (eng_input [32; 97] 1) (t (Some WsNone) None) = VError (mk_err 1 (CWs WsErrNone)) /\
  spec_parse (eng_input [32; 10; 97] 1) (t (Some WsSpaces) None) = VError (mk_err 2 (CWs WsErrSpaces)) /\
  spec_parse (eng_input [32; 97] 1) (t (Some WsSpacesForceNl) None) = VError (mk_err 2 (CWs WsErrForceNl)) /\
  spec_parse (eng_input [97; 32; 10] 1) (t None (Some WsSpaces)) = VError (mk_err 3 (CWs WsErrSpaces)) /\
  spec_parse (eng_input [32; 98] 1) (t (Some WsNone) None) = VError (mk_err 1 (CNotFound (quote_rune 97))) /\
  spec_parse (eng_input [32; 98] 1) (t (Some WsSpaces) None) = VError (mk_err 2 (CNotFound (quote_rune 97))) /\
  spec_parse (eng_input [97; 32; 98] 1) (t None (Some WsSpaces)) = VError (mk_err 3 (COther msg_end)).
Proof. vm_compute. repeat split; reflexivity. Qed.

(* ------------------------------------------------------------------ *)
(* E. Transparency of permitted whitespace                             *)

Definition tail_ok (tl : list N) : Prop := match tl with [] => True | b :: _ => ws4 b = false end.

Lemma lay_tail_ok cs gs : Forall (fun c => ws4 c = false) cs -> tail_ok (lay cs gs).
Proof.
  intros H. destruct cs as [|c cs]; [exact I|]. destruct gs as [|g gs]; [exact I|].
  cbn [lay tail_ok]. inversion H; assumption.
Qed.
Lemma all_ws_app_tail g tl : all_ws g -> tail_ok tl -> tail_ok (g ++ tl) \/ g <> [].
Proof. intros _ H. destruct g; [left; exact H|right; discriminate]. Qed.

Lemma spec_run_layout inp pos g tl : all_ws g -> tail_ok tl -> rest inp pos = g ++ tl ->
  w_end (spec_run inp pos) = pos + len_N g.
Proof.
  intros Hg Ht E. unfold spec_run, run_at. cbn [w_end]. rewrite E, run_of_app by assumption. reflexivity.
Qed.
Lemma skipn_app_len {A} (a b : list A) : skipn (length a) (a ++ b) = b.
Proof. induction a; [reflexivity|exact IHa]. Qed.
Lemma rest_layout inp pos (g tl : list N) : i_offset inp <= pos -> rest inp pos = g ++ tl ->
  rest inp (pos + len_N g) = tl.
Proof.
  intros Ho E. rewrite rest_add by exact Ho. rewrite E. unfold len_N. rewrite Nat2N.id. apply skipn_app_len.
Qed.

(* one token on a laid-out text: rest = g ++ c :: g1 ++ tl, g and g1 whitespace, c the token's rune (not whitespace).
   If the token is accepted its node starts exactly at the rune, and what is left of the gap behind it is
   either all of g1 (no right trim) or nothing (right trim): the next rune is always 1 + |g1| behind this one *)
Lemma spec_token_layout inp t pos g g1 tl n :
  i_offset inp <= pos -> ws4 (t_rune t) = false -> all_ws g -> all_ws g1 -> tail_ok tl ->
  rest inp pos = g ++ t_rune t :: g1 ++ tl ->
  spec_token inp t pos = TAccept n ->
  n = NTerm [t_rune t] (VRune (t_rune t)) (pos + len_N g) (node_rpos n) /\
  exists g', all_ws g' /\ rest inp (node_rpos n) = g' ++ tl /\ node_rpos n + len_N g' = pos + len_N g + 1 + len_N g1.
Proof.
  intros Ho Hc Hg Hg1 Htl E. unfold spec_token.
  set (c := t_rune t) in *.
  assert (Hq : byte_is inp (w_end (gap inp (t_left t) pos)) c = true -> w_end (gap inp (t_left t) pos) = pos + len_N g).
  { destruct (t_left t) as [ml|]; cbn [gap].
    - intros _. apply (spec_run_layout inp pos g (c :: g1 ++ tl)); [exact Hg|exact Hc|exact E].
    - rewrite no_run_end. unfold byte_is. rewrite byte_at_rest0 by exact Ho. rewrite E.
      destruct g as [|x g']; [intros _; unfold len_N; cbn [length]; lia|].
      cbn [app nth_error]. intros Hx. apply N.eqb_eq in Hx. subst x. inversion Hg as [|y l Hy Hl]. congruence. }
  destruct (byte_is inp (w_end (gap inp (t_left t) pos)) c) eqn:Eb; [|discriminate].
  specialize (Hq eq_refl). rewrite Hq.
  destruct (gap_check (t_left t) _); [discriminate|].
  assert (Er : rest inp (pos + len_N g + 1) = g1 ++ tl).
  { rewrite <- N.add_assoc. replace (len_N g + 1) with (len_N (g ++ [c])) by (rewrite len_N_app; reflexivity).
    apply rest_layout; [exact Ho|]. rewrite E, <- app_assoc. reflexivity. }
  destruct (gap_check (t_right t) _); [discriminate|]. intros [= <-]. cbn [node_rpos].
  split; [reflexivity|].
  destruct (t_right t) as [mr|]; cbn [gap].
  - rewrite (spec_run_layout inp (pos + len_N g + 1) g1 tl Hg1 Htl Er).
    exists []. split; [constructor|]. split; [|change (len_N (@nil N)) with 0; lia].
    cbn [app]. apply rest_layout; [lia|exact Er].
  - rewrite no_run_end. exists g1. split; [exact Hg1|]. split; [exact Er|lia].
Qed.

(* the nodes of an accepted sequence stand at the positions of their runes in the text, with the runes' values *)
Lemma accepted_layout inp : forall ts gs pos g ns e,
  i_offset inp <= pos -> Forall (fun t => ws4 (t_rune t) = false) ts -> length gs = length ts ->
  Forall all_ws gs -> all_ws g ->
  rest inp pos = g ++ lay (map t_rune ts) gs ->
  spec_tokens inp ts pos = SAccept ns e ->
  map node_pos ns = starts (pos + len_N g) (map t_rune ts) gs /\
  map erase ns = map (fun t => ([t_rune t], VRune (t_rune t))) ts.
Proof.
  induction ts as [|t ts IH]; intros gs pos g ns e Ho Hc Hlen Hgs Hg E; cbn [spec_tokens].
  - intros [= <- <-]. split; reflexivity.
  - destruct gs as [|g1 gs]; [discriminate|]. cbn [map lay] in E.
    inversion Hc as [|x l Hc1 Hc2]; subst x l. inversion Hgs as [|x l Hg1 Hgs2]; subst x l.
    destruct (spec_token inp t pos) as [n|e0] eqn:Et; [|discriminate].
    destruct (spec_tokens inp ts (node_rpos n)) as [ns' e'|e'] eqn:Eg; [|discriminate]. intros [= <- <-].
    assert (Htl : tail_ok (lay (map t_rune ts) gs)).
    { apply lay_tail_ok. rewrite Forall_map. exact Hc2. }
    destruct (spec_token_layout inp t pos g g1 _ n Ho Hc1 Hg Hg1 Htl E Et) as (Hn & g' & Hg' & Er & Hp).
    destruct (spec_token_accept _ _ _ _ Et) as (q0 & r0 & Hn' & Hq1 & Hq2).
    assert (Ho' : i_offset inp <= node_rpos n) by (rewrite Hn'; cbn [node_rpos]; lia).
    cbn [length] in Hlen.
    destruct (IH gs (node_rpos n) g' ns' e' Ho' Hc2 ltac:(lia) Hgs2 Hg' Er Eg) as (H1 & H2).
    cbn [map starts]. rewrite H1, H2, Hp.
    assert (Hpos : node_pos n = pos + len_N g) by (rewrite Hn; reflexivity).
    assert (Her : erase n = ([t_rune t], VRune (t_rune t))) by (rewrite Hn; reflexivity).
    rewrite Hpos, Her. split; reflexivity.
Qed.

(* closed form of [starts]: rune i stands i runes and the first i gaps behind the first rune *)
Definition total (gs : list (list N)) : N := fold_right (fun g a => len_N g + a) 0 gs.
Lemma starts_nth cs : forall gs p i s, nth_error (starts p cs gs) i = Some s ->
  s = p + N.of_nat i + total (firstn i gs).
Proof.
  induction cs as [|c cs IH]; intros gs p i s; cbn [starts]; [destruct i; discriminate|].
  destruct gs as [|g gs]; [destruct i; discriminate|].
  destruct i as [|i]; cbn [nth_error firstn total fold_right].
  - intros [= <-]. lia.
  - intros H. apply IH in H. fold (total (firstn i gs)). lia.
Qed.

(* C10 theorem 4.  Two texts with the SAME runes and arbitrary whitespace strings in the gaps (g0 before the first rune,
   gs_i behind rune i; the second text is the first with whitespace inserted into — or removed from — any gaps), both
   accepted by the same tokens: the token lists are equal after erasing positions, every node starts at its own rune, and
   consequently the start of token i moves by exactly the whitespace inserted before it. *)
Theorem transparent ts inp1 inp2 g01 gs1 g02 gs2 ns1 e1 ns2 e2 :
  Forall (fun t => ws4 (t_rune t) = false) ts ->
  length gs1 = length ts -> length gs2 = length ts ->
  all_ws g01 -> Forall all_ws gs1 -> all_ws g02 -> Forall all_ws gs2 ->
  i_data inp1 = g01 ++ lay (map t_rune ts) gs1 ->
  i_data inp2 = g02 ++ lay (map t_rune ts) gs2 ->
  spec_tokens inp1 ts (i_offset inp1) = SAccept ns1 e1 ->
  spec_tokens inp2 ts (i_offset inp2) = SAccept ns2 e2 ->
  map erase ns1 = map erase ns2 /\
  map node_pos ns1 = starts (i_offset inp1 + len_N g01) (map t_rune ts) gs1 /\
  map node_pos ns2 = starts (i_offset inp2 + len_N g02) (map t_rune ts) gs2 /\
  forall i s1 s2, nth_error (map node_pos ns1) i = Some s1 -> nth_error (map node_pos ns2) i = Some s2 ->
    s2 + (i_offset inp1 + len_N g01 + total (firstn i gs1)) = s1 + (i_offset inp2 + len_N g02 + total (firstn i gs2)).
Proof.
  intros Hc L1 L2 G01 G1 G02 G2 D1 D2 A1 A2.
  assert (R : forall inp, rest inp (i_offset inp) = i_data inp) by (intros inp; unfold rest; rewrite N.sub_diag; reflexivity).
  destruct (accepted_layout inp1 ts gs1 _ g01 ns1 e1 (N.le_refl _) Hc L1 G1 G01 ltac:(rewrite R; exact D1) A1) as (P1 & E1).
  destruct (accepted_layout inp2 ts gs2 _ g02 ns2 e2 (N.le_refl _) Hc L2 G2 G02 ltac:(rewrite R; exact D2) A2) as (P2 & E2).
  split; [congruence|]. split; [exact P1|]. split; [exact P2|].
  intros i s1 s2 H1 H2. rewrite P1 in H1. rewrite P2 in H2.
  apply starts_nth in H1. apply starts_nth in H2. lia.
Qed.

Example transparent_example :
  let ts := [tok_trim 97; {| t_left := None; t_rune := 98; t_right := Some WsSpaces |}; tok_trim 97] in
  let inp1 := eng_input [97; 98; 97] 1 in
  let inp2 := eng_input [32; 10; 97; 9; 98; 32; 32; 97; 12] 1 in
  spec_tokens inp1 ts 1 = SAccept [NTerm [97] (VRune 97) 1 2; NTerm [98] (VRune 98) 2 3; NTerm [97] (VRune 97) 3 4] 4 /\
  spec_tokens inp2 ts 1 = SAccept [NTerm [97] (VRune 97) 3 5; NTerm [98] (VRune 98) 5 8; NTerm [97] (VRune 97) 8 10] 10 /\
  i_data inp2 = [32; 10] ++ lay [97; 98; 97] [[9]; [32; 32]; [12]].
Proof. vm_compute. repeat split; reflexivity. Qed.


(* the same about parsley.Parse itself: two accepted whitespace variants give the same tree up to positions *)
Theorem transparent_top ts inp1 inp2 rules fuel g01 gs1 g02 gs2 t1 c1 t2 c2 :
  1 <= i_offset inp1 -> 1 <= i_offset inp2 -> (length ts + 8 <= fuel)%nat ->
  Forall (fun t => ws4 (t_rune t) = false) ts ->
  length gs1 = length ts -> length gs2 = length ts ->
  all_ws g01 -> Forall all_ws gs1 -> all_ws g02 -> Forall all_ws gs2 ->
  i_data inp1 = g01 ++ lay (map t_rune ts) gs1 ->
  i_data inp2 = g02 ++ lay (map t_rune ts) gs2 ->
  parse_top inp1 rules fuel (sentence (toks_expr ts)) = Ok (TopNode t1 c1) ->
  parse_top inp2 rules fuel (sentence (toks_expr ts)) = Ok (TopNode t2 c2) ->
  exists ns1 e1 ns2 e2,
    t1 = [sentence_tree ns1 e1] /\ t2 = [sentence_tree ns2 e2] /\
    map erase ns1 = map erase ns2 /\
    map node_pos ns1 = starts (i_offset inp1 + len_N g01) (map t_rune ts) gs1 /\
    map node_pos ns2 = starts (i_offset inp2 + len_N g02) (map t_rune ts) gs2 /\
    forall i s1 s2, nth_error (map node_pos ns1) i = Some s1 -> nth_error (map node_pos ns2) i = Some s2 ->
      s2 + (i_offset inp1 + len_N g01 + total (firstn i gs1)) = s1 + (i_offset inp2 + len_N g02 + total (firstn i gs2)).
Proof.
  intros O1 O2 Hf Hc L1 L2 G01 G1 G02 G2 D1 D2 P1 P2.
  destruct (tokens_code inp1 rules ts fuel O1 Hf) as (d1 & _ & Q1). rewrite Q1 in P1.
  destruct (tokens_code inp2 rules ts fuel O2 Hf) as (d2 & _ & Q2). rewrite Q2 in P2.
  unfold code_parse, spec_parse in P1, P2.
  destruct (spec_tokens inp1 ts (i_offset inp1)) as [ns1 e1|e1] eqn:A1; [|discriminate].
  destruct (spec_tokens inp2 ts (i_offset inp2)) as [ns2 e2|e2] eqn:A2; [|discriminate].
  destruct (is_eof inp1 e1); [|discriminate]. destruct (is_eof inp2 e2); [|discriminate].
  injection P1 as <- _. injection P2 as <- _.
  exists ns1, e1, ns2, e2. split; [reflexivity|]. split; [reflexivity|].
  exact (transparent ts inp1 inp2 g01 gs1 g02 gs2 ns1 e1 ns2 e2 Hc L1 L2 G01 G1 G02 G2 D1 D2 A1 A2).
Qed.

(* ------------------------------------------------------------------ *)
(* F. parsley.Parse: a whitespace error returned by the root parser is reported as it is,
   whatever the context's furthest error is (parse.go:23-27). *)
Theorem ws_error_wins inp rules fuel root ns cp e c :
  run inp rules fuel root = Ok (ns, cp, Some e, c) -> is_wserr e = true ->
  parse_top inp rules fuel root = Ok (TopErr e c).
Proof.
  intros H Hw. unfold parse_top. rewrite H. cbn [bind].
  destruct ns; rewrite Hw; reflexivity.
Qed.
(* non-vacuity: LeftTrim(SeqTry(a, b), WsNone) on " ac": the whitespace error stands at 1, the context's furthest
   error (b expected) at 3, and Parse reports the whitespace error *)
Example ws_error_wins_example :
  let inp := eng_input [32; 97; 99] 1 in
  let root := PLeftTrim WsNone (PSeq SeqTry INone false None [PTerm (TRune 97); PTerm (TRune 98)]) in
  exists ns cp c, run inp [] 10 root = Ok (ns, cp, Some (mk_err 1 (CWs WsErrNone)), c) /\
                  cerr c = Some (mk_err 3 (CNotFound (quote_rune 98))).
Proof. eexists _, _, _. split; vm_compute; reflexivity. Qed.

(* ------------------------------------------------------------------ *)
(* G. LeftTrim around an operand that can fail behind its start: the two-rune word SeqOf(Rune c, Rune d) *)
Definition word_node (c d q : N) : node :=
  seq_node INone q [NTerm [c] (VRune c) q (q + 1); NTerm [d] (VRune d) (q + 1) (q + 1 + 1)].

Lemma word_parse inp rules f c d ctx stk lrc q : (4 <= f)%nat ->
  exists c', cerr c' = cerr ctx /\
    parse inp rules f (word_expr c d) ctx stk lrc q =
    Ok (if byte_is inp q c then
          if byte_is inp (q + 1) d then ([word_node c d q], [], None, c')
          else ([], [], Some (nf_rune (q + 1) d), c')
        else ([], [], Some (nf_rune q c), c')).
Proof.
  intros Hf.
  destruct f as [|f]; [lia|]. destruct f as [|f]; [lia|]. destruct f as [|f]; [lia|]. destruct f as [|f]; [lia|].
  rewrite parse_S. unfold word_expr. cbn [parse_step].
  rewrite seqp_S. unfold seq_step at 1. cbn [seq_lookup q_kind q_ps nth_error].
  rewrite rune_parse by lia.
  destruct (byte_is inp q c) eqn:E1.
  - cbn [bind alts_loop s_nodes s_cp s_res s_err keep_max node_rpos].
    rewrite seqp_S. unfold seq_step at 1. cbn [seq_lookup q_kind q_ps nth_error].
    rewrite rune_parse by lia.
    destruct (byte_is inp (q + 1) d) eqn:E2.
    + cbn [bind alts_loop s_nodes s_cp s_res s_err keep_max node_rpos].
      rewrite seqp_S. unfold seq_step at 1. cbn [seq_lookup q_kind q_ps nth_error bind length seq_lencheck Nat.eqb].
      cbn [s_nodes s_cp s_res s_err keep_max append_node rev app].
      rewrite tok_node_not_eof. rewrite handle_result_seq_node by reflexivity.
      cbn [bind s_res s_cp s_err q_ip].
      eexists. split; [|unfold word_node; destruct (q <? q + 1); destruct (q + 1 <? q + 1 + 1); reflexivity].
      reflexivity.
    + cbn [bind length seq_lencheck Nat.eqb s_nodes s_cp s_res s_err keep_max better alts_loop].
      eexists. split; [|destruct (q <? q + 1); reflexivity]. reflexivity.
  - cbn [bind length seq_lencheck Nat.eqb s_nodes s_cp s_res s_err keep_max better].
    eexists. split; [|reflexivity]. reflexivity.
Qed.

(* LeftTrim(SeqOf(Rune c, Rune d), m) is [spec_lefttrim_word]: in particular a word that breaks off after its first
   rune behind a forbidden run gives the mode's whitespace error, not the word's own (further) error *)
Theorem lefttrim_word inp rules f m c d ctx stk lrc pos : (5 <= f)%nat -> 1 <= pos ->
  exists c' e, is_notfound e = true /\
    parse inp rules f (PLeftTrim m (word_expr c d)) ctx stk lrc pos =
    Ok (match spec_lefttrim_word inp m c d pos with
        | WAccept q => ([word_node c d q], [], None, c')
        | WWs w => ([], [], Some w, c')
        | WFail => ([], [], Some e, c')        (* a "was expecting ..." error *)
        end).
Proof.
  intros Hf Hp. destruct f as [|f]; [lia|]. rewrite parse_S.
  set (r := spec_run inp pos). set (q := w_end r).
  destruct (word_parse inp rules f c d ctx stk lrc q ltac:(lia)) as (c1 & _ & Hw).
  unfold spec_lefttrim_word. fold r. fold q.
  destruct (byte_is inp q c) eqn:E1; [destruct (byte_is inp (q + 1) d) eqn:E2|].
  - erewrite lefttrim_table; [|exact Hp|exact Hw]. fold r. fold q.
    exists (ltrim_ctx pos q c1), (nf_rune 0 0). split; [reflexivity|]. destruct (mode_check m r); reflexivity.
  - erewrite lefttrim_table; [|exact Hp|exact Hw]. fold r. fold q.
    exists (ltrim_ctx pos q c1), (nf_rune (q + 1) d). split; [reflexivity|]. destruct (mode_check m r) as [w|]; [|reflexivity].
    unfold nf_rune at 1. cbn [epos mk_err].
    destruct (q <? q + 1) eqn:E; [|apply N.ltb_ge in E; lia]. reflexivity.
  - erewrite lefttrim_table; [|exact Hp|exact Hw]. fold r. fold q.
    destruct (mode_check m r) as [w|].
    + exists (ltrim_ctx pos q c1), (nf_rune pos c). split; [reflexivity|].
      unfold nf_rune at 1. cbn [epos mk_err]. rewrite N.ltb_irrefl. reflexivity.
    + exists (ltrim_ctx pos q c1), (nf_rune q c). split; reflexivity.
Qed.
Example lefttrim_word_example :
  spec_lefttrim_word (eng_input [32; 97; 99] 1) WsNone 97 98 1 = WWs (mk_err 1 (CWs WsErrNone)) /\
  spec_lefttrim_word (eng_input [32; 10; 97; 99] 1) WsSpaces 97 98 1 = WWs (mk_err 2 (CWs WsErrSpaces)) /\
  spec_lefttrim_word (eng_input [32; 97; 98] 1) WsSpaces 97 98 1 = WAccept 2 /\
  spec_lefttrim_word (eng_input [32; 97; 99] 1) WsSpaces 97 98 1 = WFail.
Proof. vm_compute. repeat split; reflexivity. Qed.

(* ------------------------------------------------------------------ *)
(* H. text.Trim tokens: EVERY whitespace string in EVERY gap is permitted *)

Lemma nth_error_app_len {A} (a : list A) x b : nth_error (a ++ x :: b) (length a) = Some x.
Proof. induction a; [reflexivity|exact IHa]. Qed.

Lemma trim_token_layout inp c pos g g1 tl :
  i_offset inp <= pos -> ws4 c = false -> all_ws g -> all_ws g1 -> tail_ok tl ->
  rest inp pos = g ++ c :: g1 ++ tl ->
  spec_token inp (tok_trim c) pos = TAccept (NTerm [c] (VRune c) (pos + len_N g) (pos + len_N g + 1 + len_N g1)) /\
  rest inp (pos + len_N g + 1 + len_N g1) = tl.
Proof.
  intros Ho Hc Hg Hg1 Htl E.
  assert (Er : rest inp (pos + len_N g + 1) = g1 ++ tl).
  { rewrite <- N.add_assoc. replace (len_N g + 1) with (len_N (g ++ [c])) by (rewrite len_N_app; reflexivity).
    apply rest_layout; [exact Ho|]. rewrite E, <- app_assoc. reflexivity. }
  split; [|apply rest_layout; [lia|exact Er]].
  unfold spec_token, tok_trim. cbn [t_left t_rune t_right gap gap_check].
  rewrite (spec_run_layout inp pos g (c :: g1 ++ tl) Hg Hc E).
  assert (Eb : byte_is inp (pos + len_N g) c = true).
  { unfold byte_is. rewrite byte_at_rest by exact Ho. rewrite E. unfold len_N. rewrite Nat2N.id.
    rewrite nth_error_app_len. apply N.eqb_refl. }
  rewrite Eb. unfold mode_check. cbn [mode_ok].
  rewrite (spec_run_layout inp (pos + len_N g + 1) g1 tl Hg1 Htl Er). reflexivity.
Qed.

Lemma trim_tokens_accept inp : forall cs gs pos g,
  i_offset inp <= pos -> Forall (fun c => ws4 c = false) cs -> length gs = length cs -> cs <> [] ->
  Forall all_ws gs -> all_ws g -> rest inp pos = g ++ lay cs gs ->
  exists ns e, spec_tokens inp (map tok_trim cs) pos = SAccept ns e /\ rest inp e = [] /\ i_offset inp <= e.
Proof.
  induction cs as [|c cs IH]; intros gs pos g Ho Hc Hlen Hne Hgs Hg E; [congruence|].
  destruct gs as [|g1 gs]; [discriminate|]. cbn [lay] in E. cbn [length] in Hlen.
  inversion Hc as [|x l Hc1 Hc2]; subst x l. inversion Hgs as [|x l Hg1 Hgs2]; subst x l.
  destruct (trim_token_layout inp c pos g g1 (lay cs gs) Ho Hc1 Hg Hg1 (lay_tail_ok cs gs Hc2) E) as (Et & Er).
  cbn [map spec_tokens]. rewrite Et. cbn [node_rpos].
  destruct cs as [|c2 cs'].
  - cbn [map spec_tokens]. eexists _, _. split; [reflexivity|]. split; [|lia].
    rewrite Er. destruct gs; reflexivity.
  - destruct (IH gs (pos + len_N g + 1 + len_N g1) [] ltac:(lia) Hc2 ltac:(lia) ltac:(discriminate) Hgs2 (Forall_nil _) Er)
      as (ns & e & Hgen & He & Hoe).
    rewrite Hgen. eexists _, e. split; [reflexivity|]. split; assumption.
Qed.

Lemma is_eof_rest inp e : i_offset inp <= e -> rest inp e = [] -> is_eof inp e = true.
Proof.
  intros Ho H. unfold is_eof, i_len, len_N. apply N.leb_le. unfold rest in H.
  assert (L : length (skipn (N.to_nat (e - i_offset inp)) (i_data inp)) = 0%nat) by (rewrite H; reflexivity).
  rewrite skipn_length in L. lia.
Qed.

(* For text.Trim tokens (both modes spaces-and-newlines) over non-whitespace runes: whatever whitespace strings stand
   before, between and behind the runes, the text is accepted, and the token nodes are the runes at their own positions. *)
Theorem trim_any_whitespace inp rules cs g0 gs fuel :
  1 <= i_offset inp -> (length cs + 8 <= fuel)%nat ->
  Forall (fun c => ws4 c = false) cs -> cs <> [] -> length gs = length cs ->
  all_ws g0 -> Forall all_ws gs ->
  i_data inp = g0 ++ lay cs gs ->
  exists ns e c,
    parse_top inp rules fuel (sentence (toks_expr (map tok_trim cs))) = Ok (TopNode [sentence_tree ns e] c) /\
    map node_pos ns = starts (i_offset inp + len_N g0) cs gs /\
    map erase ns = map (fun ch => ([ch], VRune ch)) cs.
Proof.
  intros Ho Hf Hc Hne Hlen Hg0 Hgs D.
  assert (R : rest inp (i_offset inp) = i_data inp) by (unfold rest; rewrite N.sub_diag; reflexivity).
  destruct (trim_tokens_accept inp cs gs (i_offset inp) g0 (N.le_refl _) Hc Hlen Hne Hgs Hg0 ltac:(rewrite R; exact D))
    as (ns & e & Hgen & He & Hoe).
  destruct (tokens_code inp rules (map tok_trim cs) fuel Ho ltac:(rewrite map_length; exact Hf)) as (c & _ & Htop).
  unfold code_parse, spec_parse in Htop. rewrite Hgen, (is_eof_rest inp e Hoe He) in Htop.
  exists ns, e, c. split; [exact Htop|].
  assert (Hc' : Forall (fun t => ws4 (t_rune t) = false) (map tok_trim cs)) by (rewrite Forall_map; exact Hc).
  assert (Emap : map t_rune (map tok_trim cs) = cs) by (rewrite map_map; apply map_id).
  destruct (accepted_layout inp (map tok_trim cs) gs (i_offset inp) g0 ns e (N.le_refl _) Hc'
              ltac:(rewrite map_length; exact Hlen) Hgs Hg0 ltac:(rewrite R, Emap; exact D) Hgen) as (P & Q).
  rewrite Emap in P. split; [exact P|]. rewrite Q, map_map. reflexivity.
Qed.
