(* Utf8.v — model of Go's unicode/utf8: DecodeRune, EncodeRune, RuneLen, ValidRune, Valid.
   Bytes are [N] (< 256), strings are [list N], runes are [N] (Go's rune is int32; negative
   runes are outside every documented domain and are not represented).  All arithmetic is
   on N with division/modulo by powers of two, no bit operations.  No proofs in this file
   (they are in ReaderProofs.v): the model must keep running when a proof breaks.

   Go source followed: $GOROOT/src/unicode/utf8/utf8.go (go1.23): the table [first], the
   table [acceptRanges], DecodeRune, EncodeRune/AppendRune, RuneLen, ValidRune, Valid. *)
From Coq Require Import String List NArith Bool.
Import ListNotations.
Open Scope N_scope.

Definition rune_error : N := 65533.      (* utf8.RuneError = U+FFFD *)
Definition rune_self : N := 128.         (* utf8.RuneSelf *)
Definition max_rune : N := 1114111.      (* utf8.MaxRune = U+10FFFF *)
Definition surrogate_min : N := 55296.   (* 0xD800 *)
Definition surrogate_max : N := 57343.   (* 0xDFFF *)

(* utf8.ValidRune (for non-negative r) *)
Definition valid_rune (r : N) : bool :=
  (r <? surrogate_min) || ((surrogate_max <? r) && (r <=? max_rune)).

(* The table [first] joined with [acceptRanges], for a leading byte >= 0x80:
   Some (size, lo, hi) = the sequence has [size] bytes and the SECOND byte must lie in
   [lo, hi]; None = the byte cannot start a sequence (entries "xx": 0x80-0xC1, 0xF5-0xFF). *)
Definition utf8_first (b : N) : option (N * N * N) :=
  if b <? 194 then None                                  (* 0x80-0xBF continuation, 0xC0 0xC1 *)
  else if b <? 224 then Some (2, 128, 191)               (* s1: 0xC2-0xDF *)
  else if b =? 224 then Some (3, 160, 191)               (* s2: 0xE0, second byte 0xA0-0xBF *)
  else if b =? 237 then Some (3, 128, 159)               (* s4: 0xED, second byte 0x80-0x9F *)
  else if b <? 240 then Some (3, 128, 191)               (* s3: 0xE1-0xEC, 0xEE, 0xEF *)
  else if b =? 240 then Some (4, 144, 191)               (* s5: 0xF0, second byte 0x90-0xBF *)
  else if b <? 244 then Some (4, 128, 191)               (* s6: 0xF1-0xF3 *)
  else if b =? 244 then Some (4, 128, 143)               (* s7: 0xF4, second byte 0x80-0x8F *)
  else None.                                             (* 0xF5-0xFF *)

Definition is_cont (b : N) : bool := (128 <=? b) && (b <=? 191).   (* locb <= b <= hicb *)

(* utf8.DecodeRune(p) = (rune, width).  Width 0 only for the empty input; (RuneError, 1)
   for every invalid, truncated, overlong, surrogate or out-of-range encoding. *)
Definition decode_rune (p : list N) : N * N :=
  match p with
  | [] => (rune_error, 0)
  | p0 :: t =>
    if p0 <? 128 then (p0, 1)
    else
      match utf8_first p0 with
      | None => (rune_error, 1)
      | Some (sz, lo, hi) =>
        match t with
        | [] => (rune_error, 1)                                       (* n < sz *)
        | b1 :: t1 =>
          if (b1 <? lo) || (hi <? b1) then (rune_error, 1)
          else if sz <=? 2 then ((p0 mod 32) * 64 + b1 mod 64, 2)
          else
            match t1 with
            | [] => (rune_error, 1)                                   (* n < sz *)
            | b2 :: t2 =>
              if negb (is_cont b2) then (rune_error, 1)
              else if sz <=? 3 then ((p0 mod 16) * 4096 + (b1 mod 64) * 64 + b2 mod 64, 3)
              else
                match t2 with
                | [] => (rune_error, 1)                               (* n < sz *)
                | b3 :: _ =>
                  if negb (is_cont b3) then (rune_error, 1)
                  else ((p0 mod 8) * 262144 + (b1 mod 64) * 4096 + (b2 mod 64) * 64 + b3 mod 64, 4)
                end
            end
        end
      end
  end.
(* Note on the order of Go's tests: Go first tests n < sz, then the second byte, then the
   third ...; every failing test returns the same (RuneError, 1), so testing "is there a
   next byte" lazily, as above, gives the same function. *)

(* utf8.EncodeRune / AppendRune: invalid runes (surrogates, > MaxRune) encode as U+FFFD *)
Definition encode_rune (r : N) : list N :=
  if r <? 128 then [r]
  else if r <? 2048 then [192 + r / 64; 128 + r mod 64]
  else if negb (valid_rune r) then [239; 191; 189]
  else if r <? 65536 then [224 + r / 4096; 128 + (r / 64) mod 64; 128 + r mod 64]
  else [240 + r / 262144; 128 + (r / 4096) mod 64; 128 + (r / 64) mod 64; 128 + r mod 64].

(* utf8.RuneLen; None is Go's -1 *)
Definition rune_len (r : N) : option N :=
  if r <? 128 then Some 1
  else if r <? 2048 then Some 2
  else if negb (valid_rune r) then None
  else if r <? 65536 then Some 3
  else Some 4.

(* utf8.Valid / utf8.ValidString: the bytes are a sequence of well-formed encodings.
   (Go's loop advances by the decoded width; fuel = number of bytes is always enough.) *)
Fixpoint utf8_valid_fuel (fuel : nat) (p : list N) : bool :=
  match p with
  | [] => true
  | _ =>
    match fuel with
    | O => false
    | S k =>
      let '(r, w) := decode_rune p in
      if (r =? rune_error) && (w =? 1) then false
      else utf8_valid_fuel k (skipn (N.to_nat w) p)
    end
  end.
Definition utf8_valid (p : list N) : bool := utf8_valid_fuel (length p) p.

(* utf8.FullRune: does p begin with a full encoding (an invalid one counts as full: it
   decodes to a width-1 error rune)? *)
Definition full_rune (p : list N) : bool :=
  match p with
  | [] => false
  | p0 :: t =>
    if p0 <? 128 then true
    else match utf8_first p0 with
         | None => true
         | Some (sz, lo, hi) =>
           if sz <=? N.of_nat (length p) then true
           else match t with
                | [] => false
                | b1 :: t1 =>
                  if (b1 <? lo) || (hi <? b1) then true
                  else match t1 with
                       | [] => false
                       | b2 :: _ => negb (is_cont b2)
                       end
                end
         end
  end.

(* all bytes of a string are < 256 *)
Definition bytes_ok (l : list N) : Prop := Forall (fun b => b < 256) l.
Definition bytes_okb (l : list N) : bool := forallb (fun b => b <? 256) l.
