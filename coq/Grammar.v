(* Grammar.v — data of the parser-engine model: pure IntSet/IntMap, nodes, errors, the
   deep embedding [pexpr] of parsley's combinators, results, cache and context.
   No proofs here. *)
From Coq Require Import String List NArith ZArith Bool.
From Parsley Require Import Obs Base.
From Parsley Require Literals.        (* NOT imported: Reader.v/Literals.v reuse the names wsmode, is_ws, VInt, ... *)
Import ListNotations.
Open Scope N_scope.

(* ---- data.IntSet / data.IntMap as pure values (C15 shows the Go types refine these) ---- *)
Definition intset := list N.                       (* ascending, duplicate free *)
Fixpoint set_insert (x : N) (s : intset) : intset :=
  match s with
  | [] => [x]
  | y :: t => if x <? y then x :: s else if x =? y then s else y :: set_insert x t
  end.
Definition set_union (a b : intset) : intset := fold_left (fun acc x => set_insert x acc) b a.
Fixpoint set_mem (x : N) (s : intset) : bool :=
  match s with [] => false | y :: t => (x =? y) || set_mem x t end.

Definition intmap := list (N * N).                  (* key -> count, absent = 0 *)
Fixpoint map_get (k : N) (m : intmap) : N :=
  match m with [] => 0 | (k', v) :: t => if k =? k' then v else map_get k t end.
Fixpoint map_inc (k : N) (m : intmap) : intmap :=
  match m with
  | [] => [(k, 1)]
  | (k', v) :: t => if k =? k' then (k', v + 1) :: t else (k', v) :: map_inc k t
  end.
Definition map_filter (s : intset) (m : intmap) : intmap :=
  filter (fun kv => set_mem (fst kv) s) m.

(* ---- whitespace modes (text/wsmode.go) ---- *)
Inductive wsmode := WsNone | WsSpaces | WsSpacesNl | WsSpacesForceNl.
Inductive wskind := WsErrNone | WsErrForceNl | WsErrSpaces.   (* the three whitespace errors of text/reader.go *)

(* ---- errors: a position and a cause ---- *)
Inductive cause :=
| CNotFound (name : list N)        (* parsley.NotFoundError(name): "was expecting <name>" *)
| CWs (k : wskind)                 (* parsley.NewWhitespaceError *)
| COther (msg : list N).           (* errors.New / fmt.Errorf *)
Record perr := { epos : N; ecause : cause }.
Definition is_notfound (e : perr) : bool := match ecause e with CNotFound _ => true | _ => false end.
Definition is_wserr (e : perr) : bool := match ecause e with CWs _ => true | _ => false end.

(* ---- interpreters bound to sequences ---- *)
Inductive interp := INone | ISelect (i : N) | IArray | IObject | INil | IUser (id : N).

(* ---- values carried by terminal nodes ---- *)
Inductive lval :=
| VRune (c : N)            (* the value of a [TRune] terminal's node: the byte it consumed *)
| VInt (z : Z) | VFloat (bits : N) | VStr (s : list N) | VBool (b : bool) | VNil | VDur (z : Z)
| VChar (c : N).           (* a rune value produced by a literal parser (terminal.Char, terminal.Rune): the node may
                              span several bytes (an escape, a multi-byte encoding), unlike a [VRune] leaf *)

(* ---- nodes (values; RightTrim returns moved copies, see DESIGN.md 4.1) ---- *)
Inductive node :=
| NTerm (tok : list N) (v : lval) (pos rpos : N)           (* ast.TerminalNode and the literal nodes *)
| NEmpty (pos : N)                                          (* ast.EmptyNode *)
| NEnd (pos : N)                                            (* parser.EndNode, token "EOF" *)
| NNonTerm (tok : list N) (ip : interp) (children : list node) (pos rpos : N).

Definition node_pos (n : node) : N :=
  match n with NTerm _ _ p _ => p | NEmpty p => p | NEnd p => p | NNonTerm _ _ _ p _ => p end.
Definition node_rpos (n : node) : N :=
  match n with NTerm _ _ _ r => r | NEmpty p => p | NEnd p => p | NNonTerm _ _ _ _ r => r end.
Definition tok_EOF : list N := [69; 79; 70].
Definition tok_EMPTY : list N := [69; 77; 80; 84; 89].
Definition node_token (n : node) : list N :=
  match n with NTerm t _ _ _ => t | NEmpty _ => tok_EMPTY | NEnd _ => tok_EOF | NNonTerm t _ _ _ _ => t end.
Definition is_eof_node (n : node) : bool := list_N_eqb (node_token n) tok_EOF.

(* ast.SetReaderPos with f applied to the reader position (EndNode ignores it) *)
Definition set_rpos (n : node) (r : N) : node :=
  match n with
  | NTerm t v p _ => NTerm t v p r
  | NEmpty _ => NEmpty r
  | NEnd p => NEnd p
  | NNonTerm t i cs p _ => NNonTerm t i cs p r
  end.

(* ---- ast.AppendNode / NodeList.Append on values: a Go result is [] (nil), [n] or a list ---- *)
Fixpoint has_empty (p : N) (l : list node) : bool :=
  match l with [] => false | NEmpty q :: t => (p =? q) || has_empty p t | _ :: t => has_empty p t end.
Fixpoint append_nodes (acc l : list node) : list node :=
  match l with
  | [] => acc
  | NEmpty p :: t => if has_empty p acc then append_nodes acc t else append_nodes (acc ++ [NEmpty p]) t
  | n :: t => append_nodes (acc ++ [n]) t
  end.
Definition append_node (n1 n2 : list node) : list node :=
  match n1 with [] => n2 | _ => append_nodes n1 n2 end.

(* ---- the combinators ---- *)
Inductive seqkind := SeqOf | SeqTry | SeqFirstOrAll | SMany (allowEmpty : bool) | SSepBy (allowEmpty : bool).

(* the built-in literal parsers of text/terminal (model: Literals.v, property C08), re-exported
   under their short names (Literals is required, not imported) *)
Notation literal := Literals.literal.
Notation LInteger := Literals.LInteger.
Notation LFloat := Literals.LFloat.
Notation LString := Literals.LString.
Notation LChar := Literals.LChar.
Notation LBool := Literals.LBool.
Notation LNil := Literals.LNil.
Notation LWord := Literals.LWord.
Notation LOp := Literals.LOp.
Notation LRune := Literals.LRune.
Notation LDuration := Literals.LDuration.
Notation LRegexp := Literals.LRegexp.
Notation lit_domain := Literals.lit_domain.

Inductive terminal :=
| TRune (c : N)                     (* terminal.Rune of an ASCII rune, modelled directly on the bytes *)
| TLit (l : literal).               (* terminal.Integer / Float / String / Char / Bool / Nil / Word / Op / Rune /
                                       TimeDuration / Regexp: Literals.lit_parse *)
(* the construction parameters are inside the documented domain (outside it Go panics by design) *)
Definition term_ok (t : terminal) : bool := match t with TRune _ => true | TLit l => lit_domain l end.
Definition is_rune_term (t : terminal) : bool := match t with TRune _ => true | TLit _ => false end.

Inductive pexpr :=
| PTerm (t : terminal)
| PEmpty                                            (* parser.Empty *)
| PEnd                                              (* parser.End *)
| PRef (k : N)                                      (* &rules[k] *)
| PMemo (idx : N) (p : pexpr)                       (* combinator.Memoize, idx = its parser index *)
| PAny (ps : list pexpr)
| PChoice (ps : list pexpr)
| POpt (p : pexpr)
| PSeq (k : seqkind) (ip : interp) (single : bool) (name : option (list N)) (ps : list pexpr)
| PName (name : list N) (p : pexpr)                 (* parser.ReturnError(p, NotFoundError name) / Func.Name *)
| PLeftTrim (m : wsmode) (p : pexpr)
| PRightTrim (m : wsmode) (p : pexpr)
| PSuppress (p : pexpr)
| PSingle (p : pexpr).

Definition seq_token (k : seqkind) : list N :=
  match k with
  | SeqOf | SeqTry | SeqFirstOrAll => [83; 69; 81]                       (* "SEQ" *)
  | SMany _ => [77; 65; 78; 89]                                         (* "MANY" *)
  | SSepBy _ => [83; 69; 80; 95; 66; 89]                                (* "SEP_BY" *)
  end.
(* Sequence.parserLookUp *)
Definition seq_lookup (k : seqkind) (ps : list pexpr) (depth : nat) : option pexpr :=
  match k with
  | SeqOf | SeqTry | SeqFirstOrAll => nth_error ps depth
  | SMany _ => nth_error ps 0
  | SSepBy _ => nth_error ps (Nat.modulo depth 2)
  end.
(* Sequence.lenCheck *)
Definition seq_lencheck (k : seqkind) (l depth : nat) : bool :=
  match k with
  | SeqOf => Nat.eqb depth l
  | SeqTry => Nat.ltb 0 depth && Nat.leb depth l
  | SeqFirstOrAll => Nat.eqb depth 1 || Nat.eqb depth l
  | SMany allowEmpty => allowEmpty || Nat.ltb 0 depth
  | SSepBy allowEmpty => (Nat.eqb depth 0 && allowEmpty) || Nat.eqb (Nat.modulo depth 2) 1
  end.

(* combinator.Sentence *)
Definition sentence (p : pexpr) : pexpr := PSeq SeqOf (ISelect 0) false None [p; PEnd].

(* ---- stored results, cache, context ---- *)
Record result := { r_lrc : intmap; r_cp : intset; r_err : option perr; r_nodes : list node }.

Record ctx := {
  cache : list ((N * N) * result);          (* (parser index, position) -> result, newest first *)
  cerr : option perr;                       (* Context.err *)
  calls : N;                                (* Context.callCount *)
  (* ghost state, never read by the computation *)
  g_bodies : list (N * N * N);              (* every Memoize body execution: (index, position, activations of that pair incl. this one) *)
  g_fails : list (N * cause)                (* every failed terminal / end-of-input attempt *)
}.
Definition ctx0 : ctx := {| cache := []; cerr := None; calls := 0; g_bodies := []; g_fails := [] |}.

(* Context.SetError: keep the new error when it is at least as far *)
Definition max_err (old new : option perr) : option perr :=
  match new with
  | None => old
  | Some e => match old with None => new | Some o => if epos o <=? epos e then new else old end
  end.
Definition set_error (c : ctx) (e : option perr) : ctx :=
  {| cache := cache c; cerr := max_err (cerr c) e; calls := calls c; g_bodies := g_bodies c; g_fails := g_fails c |}.
Definition reg_call (c : ctx) : ctx :=
  {| cache := cache c; cerr := cerr c; calls := calls c + 1; g_bodies := g_bodies c; g_fails := g_fails c |}.
Definition log_body (c : ctx) (idx pos act : N) : ctx :=
  {| cache := cache c; cerr := cerr c; calls := calls c; g_bodies := (idx, pos, act) :: g_bodies c; g_fails := g_fails c |}.
Definition log_fail (c : ctx) (pos : N) (k : cause) : ctx :=
  {| cache := cache c; cerr := cerr c; calls := calls c; g_bodies := g_bodies c; g_fails := (pos, k) :: g_fails c |}.

Fixpoint cache_find (k : N * N) (l : list ((N * N) * result)) : option result :=
  match l with
  | [] => None
  | (k', r) :: t => if (fst k =? fst k') && (snd k =? snd k') then Some r else cache_find k t
  end.
(* ResultCache.Get: found, and every stored counter <= the current one *)
Definition reusable (stored cur : intmap) : bool :=
  forallb (fun kv => snd kv <=? map_get (fst kv) cur) stored.
Definition cache_get (c : ctx) (idx pos : N) (lrc : intmap) : option result :=
  match cache_find (idx, pos) (cache c) with
  | None => None
  | Some r => if reusable (r_lrc r) lrc then Some r else None
  end.
Definition cache_save (c : ctx) (idx pos : N) (r : result) : ctx :=
  {| cache := ((idx, pos), r) :: cache c; cerr := cerr c; calls := calls c; g_bodies := g_bodies c; g_fails := g_fails c |}.

(* ---- the input: normalised bytes of one file and its base offset; and the two external value
   conversions the literal parsers Float and TimeDuration call, which the properties treat as
   oracles: [i_cf] = strconv.ParseFloat(lexeme, 64) as math.Float64bits (None = err != nil),
   [i_cd] = time.ParseDuration(lexeme) in nanoseconds (None = err != nil).  They belong to the
   input only so that [term_parse] stays a pure function of (input, terminal, position). ---- *)
Record input := { i_data : list N; i_offset : N; i_cf : list N -> option N; i_cd : list N -> option Z }.
(* an input whose converters always succeed with a dummy value (engine-level observations render
   Float/Duration values by their lexeme, never by value) *)
Definition mk_input (data : list N) (offset : N) : input :=
  {| i_data := data; i_offset := offset; i_cf := fun _ => Some 0; i_cd := fun _ => Some 0%Z |}.
Definition i_len (i : input) : N := len_N (i_data i).
Definition remaining (i : input) (pos : N) : N := i_len i - (pos - i_offset i).      (* Reader.Remaining *)
Definition is_eof (i : input) (pos : N) : bool := i_len i <=? pos - i_offset i.        (* Reader.IsEOF *)
Definition byte_at (i : input) (pos : N) : option N := nth_N (i_data i) (pos - i_offset i).

(* Reader.SkipWhitespaces *)
Definition is_ws (b : N) : bool := (b =? 32) || (b =? 9) || (b =? 10) || (b =? 12).
Definition is_nl (b : N) : bool := (b =? 10) || (b =? 12).
Fixpoint ws_scan (l : list N) (pos : N) (nl : N) : N * N :=     (* (end of the run, position of the first line break or 0) *)
  match l with
  | [] => (pos, nl)
  | b :: t => if is_ws b then ws_scan t (pos + 1) (if is_nl b && (nl =? 0) then pos else nl) else (pos, nl)
  end.
Definition skip_ws (i : input) (pos : N) (m : wsmode) : N * option perr :=
  let '(e, nl) := ws_scan (skipn (N.to_nat (pos - i_offset i)) (i_data i)) pos 0 in
  match m with
  | WsNone => if pos <? e then (e, Some {| epos := pos; ecause := CWs WsErrNone |}) else (e, None)
  | WsSpacesForceNl => if nl =? 0 then (e, Some {| epos := e; ecause := CWs WsErrForceNl |}) else (e, None)
  | WsSpaces => if 0 <? nl then (e, Some {| epos := nl; ecause := CWs WsErrSpaces |}) else (e, None)
  | WsSpacesNl => (e, None)
  end.

(* strconv.Quote(string(ch)) for a printable ASCII rune other than quote and backslash *)
Definition quote_rune (c : N) : list N := [34; c; 34].
