(* Top.v — parsley.Evaluate on top of parsley.Parse: EvaluateNode, NonTerminalNode.Value and
   the library interpreters (ast/interpreter: Select, Nil, Array, Object) on engine nodes,
   with explicit Panic where the Go code panics (nil interpreter, index out of range, failed
   type assertion).  User interpreters (IUser) are modelled as "evaluate all children in
   order, first error aborts, return the list of their values".  Small proofs included
   (C04_xor, C04_evaluate_total). *)
From Coq Require Import String List NArith ZArith Bool Lia.
From Parsley Require Import Obs Base FileSet Grammar Engine.
Import ListNotations.
Open Scope N_scope.

Inductive value :=
| ValLit (v : lval)
| ValNil
| ValList (l : list value)
| ValMap (l : list (list N * value)).     (* insertion order; a later duplicate key overwrites *)

Definition msg_novalue : list N :=    (* "node does not have a value" *)
  [110;111;100;101;32;100;111;101;115;32;110;111;116;32;104;97;118;101;32;97;32;118;97;108;117;101].

Definition vres := outcome (value + perr).

Fixpoint map_put (k : list N) (v : value) (m : list (list N * value)) : list (list N * value) :=
  match m with
  | [] => [(k, v)]
  | (k', v') :: t => if list_N_eqb k k' then (k', v) :: t else (k', v') :: map_put k v t
  end.

(* parsley.EvaluateNode *)
Fixpoint eval_node (n : node) : vres :=
  match n with
  | NTerm _ v _ _ => Ok (inl (ValLit v))                               (* LiteralNode *)
  | NEmpty p => Ok (inr (mk_err p (COther msg_novalue)))               (* neither literal nor non-literal *)
  | NEnd _ => Ok (inl ValNil)                                          (* EndNode.Value *)
  | NNonTerm _ ip cs _ _ =>
    let fix all (l : list node) : outcome (list value + perr) :=      (* children in order, first error aborts *)
        match l with
        | [] => Ok (inl [])
        | c :: t => match eval_node c with
                    | Ok (inl v) => match all t with Ok (inl vs) => Ok (inl (v :: vs)) | o => o end
                    | Ok (inr e) => Ok (inr e)
                    | Panic => Panic
                    | OutOfFuel => OutOfFuel
                    end
        end in
    let fix evens (l : list node) (take : bool) {struct l} : outcome (list value + perr) :=   (* interpreter.Array: children 0, 2, 4, ... *)
        match l with
        | [] => Ok (inl [])
        | c :: t =>
          if take then
            match eval_node c with
            | Ok (inl v) => match evens t false with Ok (inl vs) => Ok (inl (v :: vs)) | o => o end
            | Ok (inr e) => Ok (inr e)
            | Panic => Panic
            | OutOfFuel => OutOfFuel
            end
          else evens t true
        end in
    let fix object (l : list node) (take : bool) (acc : list (list N * value)) {struct l} : vres :=   (* interpreter.Object *)
        match l with
        | [] => Ok (inl (ValMap acc))
        | kv :: t =>
          if take then
            match kv with
            | NNonTerm _ _ (k :: _ :: v :: _) _ _ =>            (* keyValue.Children()[0] and [2] *)
              match eval_node k with
              | Ok (inl kval) =>
                match eval_node v with
                | Ok (inl vval) =>
                  match kval with
                  | ValLit (VStr s) => object t false (map_put s vval acc)
                  | _ => Panic                                  (* key.(string) *)
                  end
                | Ok (inr e) => Ok (inr e)
                | Panic => Panic
                | OutOfFuel => OutOfFuel
                end
              | Ok (inr e) => Ok (inr e)
              | Panic => Panic
              | OutOfFuel => OutOfFuel
              end
            | _ => Panic                                        (* type assertion / index out of range *)
            end
          else object t true acc
        end in
    let fix sel (l : list node) (i : nat) {struct l} : vres :=          (* interpreter.Select: nodes[i] or panic *)
        match l, i with
        | [], _ => Panic
        | c :: _, O => eval_node c
        | _ :: t, S j => sel t j
        end in
    match ip with
    | INone => Panic                                          (* "missing interpreter for node" *)
    | ISelect i => sel cs (N.to_nat i)
    | INil => Ok (inl ValNil)
    | IArray => match evens cs true with Ok (inl vs) => Ok (inl (ValList vs)) | Ok (inr e) => Ok (inr e) | Panic => Panic | OutOfFuel => OutOfFuel end
    | IObject => object cs true []
    | IUser _ => match all cs with Ok (inl vs) => Ok (inl (ValList vs)) | Ok (inr e) => Ok (inr e) | Panic => Panic | OutOfFuel => OutOfFuel end
    end
  end.

(* EvaluateNode applied to what Parse returns: a single node, or an alternative list
   (ast.NodeList is neither a literal nor a non-literal node: ErrNoValue at its position) *)
Definition eval_result (ns : list node) : vres :=
  match ns with
  | [n] => eval_node n
  | n :: _ => Ok (inr (mk_err (node_pos n) (COther msg_novalue)))
  | [] => Panic                                               (* Evaluate dereferences a nil node *)
  end.

Inductive evaluated := EvValue (v : value) | EvParseErr (e : perr) | EvEvalErr (e : perr).
(* parsley.Evaluate *)
Definition evaluate (inp : input) (rules : list pexpr) (fuel : nat) (root : pexpr) : outcome evaluated :=
  bind (parse_top inp rules fuel root) (fun t =>
    match t with
    | TopErr e _ => Ok (EvParseErr e)
    | TopNode ns _ => match eval_result ns with
                      | Ok (inl v) => Ok (EvValue v)
                      | Ok (inr e) => Ok (EvEvalErr e)
                      | Panic => Panic
                      | OutOfFuel => OutOfFuel
                      end
    end).

(* ------------------------------------------------------------------------------------ *)

(* C04: Parse returns exactly one of a node or an error — a success carries at least one node *)
Theorem parse_top_xor inp rules fuel root t :
  parse_top inp rules fuel root = Ok t ->
  match t with TopNode ns _ => ns <> [] | TopErr _ _ => True end.
Proof.
  unfold parse_top. destruct (run inp rules fuel root) as [[[[ns cp] err] c]| |]; cbn [bind]; try discriminate.
  destruct ns as [|n ns]; destruct err as [e|]; try destruct (cerr c); intros H;
    inversion H; subst; try exact I; discriminate.
Qed.
