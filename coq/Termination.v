(* Termination.v — C02, part B: every memoized grammar whose repetition operands consume input
   terminates, with an explicit polynomial fuel bound (= bound on the recursion depth).
   1. static hypotheses: [consuming], [reps_ok], [wfe], [wf_grammar];
   2. [consuming_progress]: results of a consuming expression end strictly after the start, and
      every result ends inside the file (one pass over the engine, with the cache invariant
      [cache_rng]; the lower bound [res_ge] comes from Activation.v);
   3. [C02_terminates]: a scalar measure [need] that every call edge of the engine decreases;
      [fuel_bound]; fuel independence above the bound. *)
From Coq Require Import String List NArith Bool Arith Lia.
From Parsley Require Import Obs Base Grammar Engine TermFacts EngineFacts SetMapFacts Activation.
Import ListNotations.
Open Scope N_scope.

(* ---------- lists of expressions ---------- *)
Definition alls (P : pexpr -> Prop) : list pexpr -> Prop :=
  fix go (l : list pexpr) : Prop := match l with [] => True | x :: t => P x /\ go t end.
Lemma alls_in P l p : alls P l -> In p l -> P p.
Proof.
  induction l as [|x t IH]; intros H Hin; [destruct Hin|]. cbn [alls] in H. destruct H as [Hx Ht].
  destruct Hin as [E|Hin]; [subst x; exact Hx | apply IH; assumption].
Qed.
Lemma alls_intro (P : pexpr -> Prop) l : (forall p, In p l -> P p) -> alls P l.
Proof.
  induction l as [|x t IH]; intros H; cbn [alls]; [exact I|].
  split; [apply H; left; reflexivity | apply IH; intros p Hp; apply H; right; exact Hp].
Qed.

(* ---------- static hypotheses ---------- *)
Section Static.
  Variable rules : list pexpr.

  (* every match of e consumes at least one byte (least fixpoint through references).
     A terminal: a rune always; a literal parser unless it is a user regular expression that can
     match the empty string ([TermFacts.term_strict]; [term_ok_strict]: every terminal inside the
     documented domain [term_ok] is strict) *)
  Inductive consuming : pexpr -> Prop :=
  | CTerm t : term_strict t = true -> consuming (PTerm t)
  | CRef k body : nth_N rules k = Some body -> consuming body -> consuming (PRef k)
  | CMemo idx p : consuming p -> consuming (PMemo idx p)
  | CAny ps : (forall p, In p ps -> consuming p) -> consuming (PAny ps)
  | CChoice ps : (forall p, In p ps -> consuming p) -> consuming (PChoice ps)
  | CSeqOf ip sg nm ps p : In p ps -> consuming p -> consuming (PSeq SeqOf ip sg nm ps)
  | CSeqTry ip sg nm p ps : consuming p -> consuming (PSeq SeqTry ip sg nm (p :: ps))
  | CSeqFirstOrAll ip sg nm p ps : consuming p -> consuming (PSeq SeqFirstOrAll ip sg nm (p :: ps))
  | CMany ip sg nm p ps : consuming p -> consuming (PSeq (SMany false) ip sg nm (p :: ps))
  | CSepBy ip sg nm p ps : consuming p -> consuming (PSeq (SSepBy false) ip sg nm (p :: ps))
  | CName nm p : consuming p -> consuming (PName nm p)
  | CLeftTrim m p : consuming p -> consuming (PLeftTrim m p)
  | CRightTrim m p : consuming p -> consuming (PRightTrim m p)
  | CSuppress p : consuming p -> consuming (PSuppress p)
  | CSingle p : consuming p -> consuming (PSingle p).

  Definition first_consuming (ps : list pexpr) : Prop :=
    match ps with p :: _ => consuming p | [] => True end.

  (* the value operand of every Many / SepBy occurring in e consumes input *)
  Fixpoint reps_ok (e : pexpr) : Prop :=
    match e with
    | PTerm _ | PEmpty | PEnd | PRef _ => True
    | PMemo _ p | POpt p | PName _ p | PLeftTrim _ p | PRightTrim _ p | PSuppress p | PSingle p => reps_ok p
    | PAny ps | PChoice ps => alls reps_ok ps
    | PSeq k _ _ _ ps =>
      alls reps_ok ps /\ match k with SMany _ | SSepBy _ => first_consuming ps | _ => True end
    end.

  (* every Memoize index determines its body ([site]) and is listed in K *)
  Variable site : N -> option pexpr.
  Variable K : list N.
  Fixpoint wfe (e : pexpr) : Prop :=
    match e with
    | PTerm _ | PEmpty | PEnd | PRef _ => True
    | PMemo idx p => site idx = Some p /\ In idx K /\ wfe p
    | POpt p | PName _ p | PLeftTrim _ p | PRightTrim _ p | PSuppress p | PSingle p => wfe p
    | PAny ps | PChoice ps | PSeq _ _ _ _ ps => alls wfe ps
    end.

  Fixpoint size (e : pexpr) : nat :=
    match e with
    | PTerm _ | PEmpty | PEnd => 1
    | PRef _ => 2
    | PMemo _ p | POpt p | PName _ p | PLeftTrim _ p | PRightTrim _ p | PSuppress p | PSingle p => S (size p)
    | PAny ps | PChoice ps => S (list_sum (map (fun p => S (size p)) ps))
    | PSeq _ _ _ _ ps => 3 + list_sum (map (fun p => S (size p)) ps)
    end.
  Fixpoint sumsz (ps : list pexpr) : nat :=
    match ps with [] => O | p :: t => (S (size p) + sumsz t)%nat end.
  Lemma sumsz_eq ps : list_sum (map (fun p => S (size p)) ps) = sumsz ps.
  Proof.
    induction ps as [|x t IH]; [reflexivity|].
    change (list_sum (map (fun p => S (size p)) (x :: t)))
      with (S (size x) + list_sum (map (fun p => S (size p)) t))%nat.
    rewrite IH. reflexivity.
  Qed.

  (* a memoized grammar: every rule is a Memoize (references re-enter rules only through it),
     rule bodies are well formed, their repetition operands consume, sizes are at most Sz *)
  Definition wf_grammar (Sz : nat) : Prop :=
    forall k body, nth_N rules k = Some body ->
      (exists idx p, body = PMemo idx p) /\ wfe body /\ reps_ok body /\ (size body <= Sz)%nat.

  (* which element of a consuming sequence guarantees the consumption *)
  Lemma consuming_seq_wit k ip sg nm ps :
    consuming (PSeq k ip sg nm ps) ->
    exists j pj, seq_lookup k ps j = Some pj /\ consuming pj /\
                 forall d, seq_lencheck k (length ps) d = true -> (j < d)%nat.
  Proof.
    intros H. inversion H; subst.
    - match goal with Hin : In ?p ps |- _ => destruct (In_nth_error _ _ Hin) as [j Hj]; exists j, p end.
      split; [exact Hj|]. split; [assumption|].
      intros d Hd. cbn [seq_lencheck] in Hd. apply Nat.eqb_eq in Hd. subst d.
      apply nth_error_Some. congruence.
    - exists 0%nat. eexists. split; [reflexivity|]. split; [eassumption|].
      intros d Hd. cbn [seq_lencheck] in Hd. apply andb_true_iff in Hd. destruct Hd as [Hd _].
      apply Nat.ltb_lt in Hd. exact Hd.
    - exists 0%nat. eexists. split; [reflexivity|]. split; [eassumption|].
      intros d Hd. cbn [seq_lencheck length] in Hd. apply orb_true_iff in Hd.
      destruct Hd as [Hd|Hd]; apply Nat.eqb_eq in Hd; lia.
    - exists 0%nat. eexists. split; [reflexivity|]. split; [eassumption|].
      intros d Hd. cbn [seq_lencheck orb] in Hd. apply Nat.ltb_lt in Hd. exact Hd.
    - exists 0%nat. eexists. split; [reflexivity|]. split; [eassumption|].
      intros d Hd. cbn [seq_lencheck] in Hd. rewrite andb_false_r in Hd. cbn [orb] in Hd.
      destruct d; [cbn in Hd; discriminate|lia].
  Qed.
End Static.

(* ---------- predicates on where a node ends, closed under what combinator.Single unwraps ---------- *)
Fixpoint deep (P : N -> Prop) (n : node) : Prop :=
  P (node_rpos n) /\
  match n with
  | NNonTerm _ _ cs _ _ => match cs with [ch] => deep P ch | _ => True end
  | _ => True
  end.
Definition all_d (P : N -> Prop) (ns : list node) : Prop := forall n, In n ns -> deep P n.

Lemma deep_top (P : N -> Prop) n : deep P n -> P (node_rpos n).
Proof. destruct n; cbn [deep]; intros [H _]; exact H. Qed.
Lemma deep_impl (P Q : N -> Prop) : (forall r, P r -> Q r) -> forall n, deep P n -> deep Q n.
Proof.
  intros HPQ. fix IH 1. intros n.
  destruct n as [t v p r|p|p|t i cs p r]; cbn [deep node_rpos]; intros [H1 H2]; (split; [apply HPQ, H1|]); auto.
  destruct cs as [|ch [|ch2 cs]]; auto.
Qed.
Lemma deep_set_rpos (P : N -> Prop) n e : deep P n -> P e -> deep P (set_rpos n e).
Proof.
  destruct n as [t v p r|p|p|t i cs p r]; cbn [deep node_rpos set_rpos]; intros [H1 H2] He;
    (split; [first [exact He|exact H1]|exact H2]).
Qed.
Lemma deep_handle_result (P : N -> Prop) q pos l :
  P pos -> head_at pos l -> (forall n, l = [n] -> deep P n) -> deep P (handle_result q pos (rev l)).
Proof.
  intros HP Hh Hs. destruct l as [|n l]; cbn [rev].
  - cbn [handle_result deep node_rpos]. split; [exact HP|exact I].
  - cbn [head_at] in Hh.
    destruct (rev l) as [|f r] eqn:E; cbn [app].
    + assert (El : l = []) by (destruct l as [|x l]; [reflexivity|];
        cbn [rev] in E; destruct (rev l); discriminate E).
      subst l. specialize (Hs n eq_refl).
      cbn [handle_result]. destruct (q_single q); [exact Hs|].
      cbn [deep node_rpos]. split; [rewrite Hh; exact HP|exact Hs].
    + assert (Hl : node_rpos (last ((f :: r) ++ [n]) f) = pos) by (rewrite last_last; exact Hh).
      cbn [app] in Hl. unfold handle_result.
      destruct r as [|r0 r]; cbn [app] in *; cbn [deep node_rpos]; (split; [rewrite Hl; exact HP|exact I]).
Qed.
Lemma all_d_nil (P : N -> Prop) : all_d P []. Proof. intros n []. Qed.
Lemma all_d_cons (P : N -> Prop) n ns : deep P n -> all_d P ns -> all_d P (n :: ns).
Proof. intros H1 H2 x [E|Hx]; [subst x; exact H1 | apply H2, Hx]. Qed.
Lemma all_d_tail (P : N -> Prop) n ns : all_d P (n :: ns) -> all_d P ns.
Proof. intros H x Hx. apply H. right. exact Hx. Qed.
Lemma all_d_append (P : N -> Prop) a b : all_d P a -> all_d P b -> all_d P (append_node a b).
Proof. intros Ha Hb n H. apply append_node_in_inv in H. destruct H as [H|H]; [apply Ha, H | apply Hb, H]. Qed.
Lemma all_d_impl (P Q : N -> Prop) ns : (forall r, P r -> Q r) -> all_d P ns -> all_d Q ns.
Proof. intros HPQ H n Hn. apply (deep_impl P Q HPQ), H, Hn. Qed.

(* a result of an expression called at pos ends at or before max(pos, end of file), and
   strictly after pos when C (the expression is [consuming]) holds *)
Definition rng (fend pos : N) (C : Prop) (r : N) : Prop := r <= N.max pos fend /\ (C -> pos < r).
Lemma rng_impl fend p0 p1 (C C' : Prop) r :
  p0 <= p1 -> p1 <= N.max p0 fend -> (C' -> C) -> rng fend p1 C r -> rng fend p0 C' r.
Proof. intros H1 H2 HC [Ha Hb]. split; [lia|]. intros c'. specialize (Hb (HC c')). lia. Qed.

(* ---------- reading and skipping stay inside the file ---------- *)
Definition fend_of (inp : input) : N := i_offset inp + i_len inp.
Lemma byte_at_some inp pos b : byte_at inp pos = Some b -> pos + 1 <= fend_of inp.
Proof.
  unfold byte_at, nth_N, fend_of, i_len, len_N. intros H.
  assert (L : (N.to_nat (pos - i_offset inp) < length (i_data inp))%nat) by (apply nth_error_Some; congruence).
  lia.
Qed.
Lemma ws_scan_le l : forall pos nl, fst (ws_scan l pos nl) <= pos + len_N l.
Proof.
  induction l as [|b t IH]; intros pos nl; cbn [ws_scan]; [cbn [fst]; lia|].
  destruct (is_ws b); [|cbn [fst]; lia].
  specialize (IH (pos + 1) (if is_nl b && (nl =? 0) then pos else nl)).
  unfold len_N in *. cbn [length]. lia.
Qed.
Lemma skip_ws_le inp pos m : fst (skip_ws inp pos m) <= N.max pos (fend_of inp).
Proof.
  unfold skip_ws.
  pose proof (ws_scan_le (skipn (N.to_nat (pos - i_offset inp)) (i_data inp)) pos 0) as H.
  destruct (ws_scan (skipn (N.to_nat (pos - i_offset inp)) (i_data inp)) pos 0) as [e nl].
  cbn [fst] in H. unfold len_N in H. rewrite skipn_length in H.
  assert (G : e <= N.max pos (fend_of inp)) by (unfold fend_of, i_len, len_N; lia).
  destruct m; [destruct (pos <? e) | destruct (0 <? nl) | | destruct (nl =? 0)]; cbn [fst]; exact G.
Qed.

(* ==================== progress and upper bound: one pass over the engine ==================== *)
Section Prog.
  Variable inp : input.
  Variable rules : list pexpr.
  Variable site : N -> option pexpr.
  Variable K : list N.
  Hypothesis Hrules : forall k body, nth_N rules k = Some body -> wfe site K body.
  Let fend := fend_of inp.
  Notation cons := (consuming rules).
  Notation wf := (wfe site K).

  Lemma trim_nodes_d m pos (C : Prop) ns : forall w ns' w',
    all_d (rng fend pos C) ns -> trim_nodes inp m ns w = (ns', w') -> all_d (rng fend pos C) ns'.
  Proof.
    induction ns as [|n t IH]; intros w ns' w' Hall H; cbn [trim_nodes] in H.
    - injection H as <- _. apply all_d_nil.
    - assert (Hn : deep (rng fend pos C) n) by (apply Hall; left; reflexivity).
      assert (G : forall w0 t0 w1, trim_nodes inp m t w0 = (t0, w1) -> all_d (rng fend pos C) t0)
        by (intros w0 t0 w1; apply IH; apply (all_d_tail _ _ _ Hall)).
      destruct n as [tk v p r|p|p|tk i cs p r];
        try (match goal with
             | Hn : deep _ ?nd |- _ =>
               pose proof (skip_ws_ge inp (node_rpos nd) m) as L1;
               pose proof (skip_ws_le inp (node_rpos nd) m) as L2;
               destruct (skip_ws inp (node_rpos nd) m) as [e w1]; cbn [fst] in L1, L2;
               destruct (trim_nodes inp m t w1) as [t' w2] eqn:E2; injection H as <- _;
               apply all_d_cons; [apply (deep_set_rpos _ nd e Hn) | apply (G _ _ _ E2)];
               destruct (deep_top _ _ Hn) as [T1 T2]; split; [fold fend in L2; lia | intros HC; specialize (T2 HC); lia]
             end; fail).
      destruct (trim_nodes inp m t w) as [t' w2] eqn:E2. injection H as <- _.
      apply all_d_cons; [exact Hn | apply (G _ _ _ E2)].
  Qed.

  Definition cache_rng (c : ctx) : Prop :=
    forall idx pos r, cache_find (idx, pos) (cache c) = Some r ->
      all_d (rng fend pos (exists body, site idx = Some body /\ cons body)) (r_nodes r).
  Lemma cache_rng_ctx0 : cache_rng ctx0. Proof. intros idx pos r H. discriminate H. Qed.
  Lemma cache_rng_save c idx pos r :
    cache_rng c -> all_d (rng fend pos (exists body, site idx = Some body /\ cons body)) (r_nodes r) ->
    cache_rng (cache_save c idx pos r).
  Proof.
    intros Hc Hr i p r0 H. cbn [cache_save cache cache_find fst snd] in H.
    destruct ((i =? idx) && (p =? pos)) eqn:E.
    - injection H as <-. apply andb_true_iff in E. destruct E as [E1 E2].
      apply N.eqb_eq in E1, E2. subst i p. exact Hr.
    - apply (Hc i p r0 H).
  Qed.

  (* the element of a consuming sequence that guarantees consumption, and what it has given so far *)
  Definition wit (q : seqinfo) (d : nat) (p0 pos : N) : Prop :=
    exists j pj, seq_lookup (q_kind q) (q_ps q) j = Some pj /\ cons pj /\
                 (forall d', seq_lencheck (q_kind q) (length (q_ps q)) d' = true -> (j < d')%nat) /\
                 ((j < d)%nat -> p0 < pos).
  Definition emit1 (q : seqinfo) : Prop := seq_lencheck (q_kind q) (length (q_ps q)) 1 = true.

  Definition progP (rp : ptype) : Prop :=
    forall e c stk lrc pos ns cp err c',
      wf e -> cache_ge c -> cache_rng c -> rp e c stk lrc pos = Ok (ns, cp, err, c') ->
      cache_rng c' /\ all_d (rng fend pos (cons e)) ns.
  Definition progQ (rs : stype) : Prop :=
    forall q d c stk lrc pos m st stop st' c',
      alls wf (q_ps q) -> cache_ge c -> cache_rng c -> rs q d c stk lrc pos m st = Ok (stop, st', c') ->
      cache_rng c' /\
      (forall p0 (C : Prop), p0 <= pos -> pos <= N.max p0 fend -> length (s_nodes st) = d ->
         head_at pos (s_nodes st) -> (C -> wit q d p0 pos) ->
         (forall n, s_nodes st = [n] -> deep (rng fend p0 (C /\ emit1 q)) n) ->
         all_d (rng fend p0 C) (s_res st) -> all_d (rng fend p0 C) (s_res st')).

  Section Step.
    Variables (rp : ptype) (rs : stype).
    Hypothesis Hge : actP inp rp.
    Hypothesis Hsge : actQ inp rs.
    Hypothesis Hp : progP rp.
    Hypothesis Hs : progQ rs.

    Lemma any_loop_prog stk lrc pos (C : Prop) ps : forall c cp res err nf ns cp' err' c',
      (C -> forall p, In p ps -> cons p) -> alls wf ps -> cache_ge c -> cache_rng c ->
      all_d (rng fend pos C) res ->
      any_loop rp stk lrc pos ps c cp res err nf = Ok (ns, cp', err', c') ->
      cache_rng c' /\ all_d (rng fend pos C) ns.
    Proof.
      induction ps as [|p ps IH]; intros c cp res err nf ns cp' err' c' HC Hwf Hcg Hcr Hres H; cbn [any_loop] in H.
      - destruct res as [|r0 res]; injection H as <- _ _ <-; (split; [exact Hcr|]); [apply all_d_nil|exact Hres].
      - apply bind_ok in H. destruct H as [[[[res2 cp2] err2] c1] [H1 H2]].
        cbn [alls] in Hwf. destruct Hwf as [Hwp Hwps].
        destruct (Hge _ _ _ _ _ _ _ _ _ (Hcg : cache_ge (reg_call c)) H1) as [Hcg1 _].
        destruct (Hp _ _ _ _ _ _ _ _ _ Hwp (Hcg : cache_ge (reg_call c)) (Hcr : cache_rng (reg_call c)) H1)
          as [Hcr1 Hr2].
        destruct (alt_err pos err nf err2) as [err1 nf1].
        refine (IH _ _ _ _ _ _ _ _ _ (fun c0 p0 Hin => HC c0 p0 (or_intror Hin)) Hwps Hcg1 Hcr1 _ H2).
        apply all_d_append; [exact Hres|].
        apply (all_d_impl (rng fend pos (cons p))); [|exact Hr2].
        intros r. apply rng_impl; [lia|lia|]. intros c0. apply (HC c0). left; reflexivity.
    Qed.

    Lemma choice_loop_prog stk lrc pos (C : Prop) ps : forall c cp err nf ns cp' err' c',
      (C -> forall p, In p ps -> cons p) -> alls wf ps -> cache_ge c -> cache_rng c ->
      choice_loop rp stk lrc pos ps c cp err nf = Ok (ns, cp', err', c') ->
      cache_rng c' /\ all_d (rng fend pos C) ns.
    Proof.
      induction ps as [|p ps IH]; intros c cp err nf ns cp' err' c' HC Hwf Hcg Hcr H; cbn [choice_loop] in H.
      - injection H as <- _ _ <-. split; [exact Hcr|apply all_d_nil].
      - apply bind_ok in H. destruct H as [[[[res2 cp2] err2] c1] [H1 H2]].
        cbn [alls] in Hwf. destruct Hwf as [Hwp Hwps].
        destruct (Hge _ _ _ _ _ _ _ _ _ (Hcg : cache_ge (reg_call c)) H1) as [Hcg1 _].
        destruct (Hp _ _ _ _ _ _ _ _ _ Hwp (Hcg : cache_ge (reg_call c)) (Hcr : cache_rng (reg_call c)) H1)
          as [Hcr1 Hr2].
        destruct (alt_err pos err nf err2) as [err1 nf1].
        destruct res2 as [|r0 res2].
        + apply (IH _ _ _ _ _ _ _ _ (fun c0 p0 Hin => HC c0 p0 (or_intror Hin)) Hwps Hcg1 Hcr1 H2).
        + injection H2 as <- _ _ <-. split; [exact Hcr1|].
          apply (all_d_impl (rng fend pos (cons p))); [|exact Hr2].
          intros r. apply rng_impl; [lia|lia|]. intros c0. apply (HC c0). left; reflexivity.
    Qed.

    (* results of a wrapper that hands its operand's results on *)
    Lemma wrap_rng pos e p ns : (cons e -> cons p) -> all_d (rng fend pos (cons p)) ns -> all_d (rng fend pos (cons e)) ns.
    Proof. intros HC. apply all_d_impl. intros r. apply rng_impl; [lia|lia|exact HC]. Qed.

    Ltac wrap H Hw Hcg Hcr :=
      apply bind_ok in H; destruct H as [[[[res0 cp0] err0] c0] [H1 H2]];
      destruct (Hp _ _ _ _ _ _ _ _ _ Hw Hcg Hcr H1) as [Hcr0 Hr0].

    Lemma parse_step_prog : progP (parse_step inp rules rp rs).
    Proof.
      intros e c stk lrc pos ns cp err c' Hw Hcg Hcr H. destruct e; cbn [parse_step] in H; cbn [wfe] in Hw.
      - (* PTerm *)
        destruct t as [ch|l].
        + (* a rune *)
          cbn [term_parse] in H.
          destruct (byte_at inp pos) as [b|] eqn:Eb.
          * destruct (b =? ch).
            -- injection H as <- _ _ <-. split; [exact Hcr|].
               intros n [E|[]]. subst n. cbn [deep node_rpos]. split; [|exact I].
               pose proof (byte_at_some _ _ _ Eb) as L. fold fend in L. split; [lia|intros _; lia].
            -- injection H as <- _ _ <-. split; [exact Hcr|apply all_d_nil].
          * injection H as <- _ _ <-. split; [exact Hcr|apply all_d_nil].
        + (* a literal parser: no node, or one leaf from pos to some r inside the file, pos < r for a
             strict literal (TermFacts.term_parse_lit_node: every input, every position) *)
          destruct (term_parse inp (TLit l) pos) as [res terr] eqn:Et.
          destruct (term_parse_cases _ _ _ _ _ Et) as [->|(n0 & -> & ->)].
          * assert (Hx : cache_rng (match terr with Some e => log_fail c pos (ecause e) | None => c end))
              by (destruct terr; exact Hcr).
            injection H as <- _ _ <-. split; [exact Hx|apply all_d_nil].
          * apply term_parse_lit_node in Et. destruct Et as (_ & tok & v & r & -> & _ & Hle & Hhi & Hst).
            injection H as <- _ _ <-. split; [exact Hcr|].
            intros n [E|[]]. subst n. cbn [deep node_rpos]. split; [|exact I].
            unfold i_fend in Hhi. fold (fend_of inp) in Hhi. fold fend in Hhi. split; [lia|].
            intros X. inversion X as [t0 Hs0| | | | | | | | | | | | | |]; subst. apply Hst. exact Hs0.
      - (* PEmpty *)
        injection H as <- _ _ <-. split; [exact Hcr|].
        intros n [E|[]]. subst n. cbn [deep node_rpos]. split; [|exact I]. split; [lia|intros X; inversion X].
      - (* PEnd *)
        destruct (is_eof inp pos).
        + injection H as <- _ _ <-. split; [exact Hcr|].
          intros n [E|[]]. subst n. cbn [deep node_rpos]. split; [|exact I]. split; [lia|intros X; inversion X].
        + injection H as <- _ _ <-. split; [exact Hcr|apply all_d_nil].
      - (* PRef *)
        destruct (nth_N rules k) as [body|] eqn:Ek; [|discriminate].
        destruct (Hp _ _ _ _ _ _ _ _ _ (Hrules _ _ Ek) Hcg Hcr H) as [Hcr0 Hr0].
        split; [exact Hcr0|]. apply (wrap_rng pos (PRef k) body); [|exact Hr0].
        intros X. inversion X; subst. congruence.
      - (* PMemo *)
        destruct Hw as [Hsite [_ Hw]].
        destruct (cache_get c idx pos lrc) as [r|] eqn:Eg.
        + injection H as <- _ _ <-. split; [exact Hcr|].
          apply (all_d_impl (rng fend pos (exists body, site idx = Some body /\ cons body)));
            [|apply (Hcr idx pos r), (cache_get_find _ _ _ _ _ Eg)].
          intros r0. apply rng_impl; [lia|lia|]. intros X. exists e. split; [exact Hsite|].
          inversion X; subst; assumption.
        + destruct (remaining inp pos + 1 <? map_get idx lrc).
          * injection H as <- _ _ <-. split; [exact Hcr|apply all_d_nil].
          * apply bind_ok in H. destruct H as [[[[res0 cp0] err0] c0] [H1 H2]].
            destruct (Hp _ _ _ _ _ _ _ _ _ Hw (Hcg : cache_ge (log_body c idx pos (1 + count_active idx pos stk)))
                         (Hcr : cache_rng (log_body c idx pos (1 + count_active idx pos stk))) H1) as [Hcr0 Hr0].
            injection H2 as <- _ _ <-. split.
            -- apply cache_rng_save; [exact Hcr0|]. cbn [r_nodes].
               apply (all_d_impl (rng fend pos (cons e))); [|exact Hr0].
               intros r. apply rng_impl; [lia|lia|]. intros [body [Hb1 Hb2]]. congruence.
            -- apply (wrap_rng pos (PMemo idx e) e); [|exact Hr0]. intros X. inversion X; subst. assumption.
      - (* PAny *)
        refine (any_loop_prog _ _ _ (cons (PAny ps)) _ _ _ _ _ _ _ _ _ _ _ Hw Hcg Hcr (all_d_nil _) H).
        intros X. inversion X; subst. assumption.
      - (* PChoice *)
        refine (choice_loop_prog _ _ _ (cons (PChoice ps)) _ _ _ _ _ _ _ _ _ _ Hw Hcg Hcr H).
        intros X. inversion X; subst. assumption.
      - (* POpt *)
        wrap H Hw Hcg Hcr. injection H2 as <- _ _ <-. split; [exact Hcr0|].
        apply all_d_append.
        + apply (wrap_rng pos (POpt e) e); [|exact Hr0]. intros X. inversion X.
        + intros n [E|[]]. subst n. cbn [deep node_rpos]. split; [|exact I]. split; [lia|intros X; inversion X].
      - (* PSeq *)
        apply bind_ok in H. destruct H as [[[stop st] c0] [H1 H2]].
        set (st0 := {| s_cp := []; s_res := []; s_err := None; s_nodes := [] |}) in H1.
        set (q := {| q_kind := k; q_ip := ip; q_single := single; q_ps := ps |}) in H1.
        destruct (Hs q _ _ _ _ _ _ st0 _ _ _ Hw Hcg Hcr H1) as [Hcr0 Hr0].
        assert (Hr : all_d (rng fend pos (cons (PSeq k ip single name ps))) (s_res st)).
        { apply (Hr0 pos _ (N.le_refl pos) (N.le_max_l pos fend) eq_refl I).
          - intros X. destruct (consuming_seq_wit _ _ _ _ _ _ X) as [j [pj [W1 [W2 W3]]]].
            exists j, pj. split; [exact W1|]. split; [exact W2|]. split; [exact W3|]. intros Hj; inversion Hj.
          - intros n Hn. discriminate Hn.
          - apply all_d_nil. }
        destruct (s_res st) as [|r0 rr] eqn:Er; injection H2 as <- _ _ <-; (split; [exact Hcr0|]);
          [apply all_d_nil|exact Hr].
      - (* PName *)
        wrap H Hw Hcg Hcr.
        assert (Hr1 : all_d (rng fend pos (cons (PName name e))) res0)
          by (apply (wrap_rng pos _ e); [intros X; inversion X; subst; assumption|exact Hr0]).
        destruct err0 as [e0|]; [|destruct res0 as [|r0 rr]]; injection H2 as <- _ _ <-;
          (split; [exact Hcr0|]); [apply all_d_nil|apply all_d_nil|exact Hr1].
      - (* PLeftTrim *)
        pose proof (skip_ws_ge inp pos m) as L1. pose proof (skip_ws_le inp pos m) as L2. fold fend in L2.
        destruct (skip_ws inp pos m) as [pos1 wserr]. cbn [fst] in L1, L2.
        wrap H Hw Hcg Hcr.
        assert (Hr1 : all_d (rng fend pos (cons (PLeftTrim m e))) res0).
        { apply (all_d_impl (rng fend pos1 (cons e))); [|exact Hr0].
          intros r. apply rng_impl; [exact L1|exact L2|]. intros X; inversion X; subst; assumption. }
        set (c2 := match cerr c0 with
                   | Some ce => if (epos ce =? pos1) && is_notfound ce
                                then set_error c0 (Some (mk_err pos (ecause ce))) else c0
                   | None => c0 end) in H2.
        assert (Hc2 : cache_rng c2).
        { subst c2. destruct (cerr c0) as [ce|]; [|exact Hcr0].
          destruct ((epos ce =? pos1) && is_notfound ce); exact Hcr0. }
        destruct err0 as [e0|].
        + destruct wserr as [w|].
          * destruct (pos1 <? epos e0).
            -- injection H2 as <- _ _ <-. split; [exact Hc2|apply all_d_nil].
            -- destruct (is_notfound e0); injection H2 as <- _ _ <-; (split; [exact Hc2|exact Hr1]).
          * injection H2 as <- _ _ <-. split; [exact Hc2|exact Hr1].
        + destruct wserr as [w|]; injection H2 as <- _ _ <-; (split; [exact Hc2|]); [apply all_d_nil|exact Hr1].
      - (* PRightTrim *)
        wrap H Hw Hcg Hcr.
        assert (Hr1 : all_d (rng fend pos (cons (PRightTrim m e))) res0)
          by (apply (wrap_rng pos _ e); [intros X; inversion X; subst; assumption|exact Hr0]).
        destruct err0 as [e0|].
        + injection H2 as <- _ _ <-. split; [exact Hcr0|exact Hr1].
        + destruct (trim_nodes inp m res0 None) as [res' wserr] eqn:Et.
          pose proof (trim_nodes_d _ _ _ _ _ _ _ Hr1 Et) as Hr'.
          destruct wserr as [w|]; injection H2 as <- _ _ <-; (split; [exact Hcr0|]); [apply all_d_nil|exact Hr'].
      - (* PSuppress *)
        wrap H Hw Hcg Hcr. injection H2 as <- _ _ <-. split; [exact Hcr0|].
        apply (wrap_rng pos _ e); [intros X; inversion X; subst; assumption|exact Hr0].
      - (* PSingle *)
        wrap H Hw Hcg Hcr.
        assert (Hr1 : all_d (rng fend pos (cons (PSingle e))) res0)
          by (apply (wrap_rng pos _ e); [intros X; inversion X; subst; assumption|exact Hr0]).
        destruct err0 as [e0|].
        + injection H2 as <- _ _ <-. split; [exact Hcr0|apply all_d_nil].
        + assert (G : Ok (res0, cp0, @None perr, c0) = Ok (ns, cp, err, c') ->
                      cache_rng c' /\ all_d (rng fend pos (cons (PSingle e))) ns).
          { intros X. injection X as <- _ _ <-. split; [exact Hcr0|exact Hr1]. }
          destruct res0 as [|r0 rr]; [apply G; exact H2|].
          destruct r0 as [tk v p r|p|p|tk i cs p r]; try (destruct rr; apply G; exact H2).
          destruct cs as [|ch [|ch2 cs]]; try (destruct rr; apply G; exact H2).
          destruct rr as [|r1 rr]; [|apply G; exact H2].
          injection H2 as <- _ _ <-. split; [exact Hcr0|].
          intros n [E|[]]. subst n.
          assert (Hn : deep (rng fend pos (cons (PSingle e))) (NNonTerm tk i [ch] p r)) by (apply Hr1; left; reflexivity).
          cbn [deep] in Hn. destruct Hn as [_ Hn]. exact Hn.
    Qed.

    Lemma alts_loop_prog q d stk lrc pos m prefix ns : forall st c stop st' c',
      alls wf (q_ps q) -> cache_ge c -> cache_rng c -> all_ge pos ns ->
      alts_loop rs q d stk lrc pos m prefix ns st c = Ok (stop, st', c') ->
      cache_ge c' /\ cache_rng c' /\
      (forall p0 (C : Prop), p0 <= pos -> pos <= N.max p0 fend -> length prefix = d ->
         (C -> wit q d p0 pos) ->
         (forall n, In n ns -> exists p, seq_lookup (q_kind q) (q_ps q) d = Some p /\ deep (rng fend pos (cons p)) n) ->
         all_d (rng fend p0 C) (s_res st) -> all_d (rng fend p0 C) (s_res st')).
    Proof.
      induction ns as [|n ns IH]; intros st c stop st' c' Hwf Hcg Hcr Hns H; cbn [alts_loop] in H.
      - injection H as _ <- <-. split; [exact Hcg|]. split; [exact Hcr|]. intros p0 C _ _ _ _ _ Hres; exact Hres.
      - apply bind_ok in H. destruct H as [[[stop1 st1] c1] [H1 H2]].
        assert (Hn : node_ge pos n) by (apply Hns; left; reflexivity).
        pose proof (node_ge_rpos _ _ Hn) as Hnr.
        set (stn := {| s_cp := s_cp st; s_res := s_res st; s_err := s_err st; s_nodes := n :: prefix |}) in H1.
        destruct (Hsge _ _ _ _ _ _ _ stn _ _ _ Hcg H1) as [Hcg1 _].
        destruct (Hs _ _ _ _ _ _ _ stn _ _ _ Hwf Hcg Hcr H1) as [Hcr1 Hr1].
        assert (Hr1' : forall p0 (C : Prop), p0 <= pos -> pos <= N.max p0 fend -> length prefix = d ->
                  (C -> wit q d p0 pos) ->
                  (forall n0, In n0 (n :: ns) -> exists p, seq_lookup (q_kind q) (q_ps q) d = Some p /\
                                                        deep (rng fend pos (cons p)) n0) ->
                  all_d (rng fend p0 C) (s_res st) -> all_d (rng fend p0 C) (s_res st1)).
        { intros p0 C Hle Hub Hlen HC Hel Hres.
          destruct (Hel n (or_introl eq_refl)) as [p [Elk Hdn]].
          destruct (deep_top _ _ Hdn) as [Tn1 Tn2].
          apply (Hr1 p0 C); [lia|lia|cbn [stn s_nodes length]; lia|reflexivity| | |exact Hres].
          - intros X. destruct (HC X) as [j [pj [W1 [W2 [W3 W4]]]]].
            exists j, pj. split; [exact W1|]. split; [exact W2|]. split; [exact W3|].
            intros Hj. destruct (Nat.eq_dec j d) as [Ejd|Ejd].
            + subst j. rewrite W1 in Elk. injection Elk as <-. specialize (Tn2 W2). lia.
            + assert (Hj' : (j < d)%nat) by lia. specialize (W4 Hj'). lia.
          - intros n' En'. cbn [stn s_nodes] in En'. injection En' as <- Epre.
            apply (deep_impl (rng fend pos (cons p))); [|exact Hdn].
            intros r. apply rng_impl; [exact Hle|exact Hub|].
            intros [X Hem]. destruct (HC X) as [j [pj [W1 [W2 [W3 _]]]]].
            specialize (W3 _ Hem). assert (j = 0%nat) by lia. subst j.
            assert (Ed : d = 0%nat) by (rewrite Epre in Hlen; cbn [length] in Hlen; lia).
            rewrite Ed, W1 in Elk. injection Elk as <-. exact W2. }
        destruct stop1.
        + injection H2 as _ <- <-. split; [exact Hcg1|]. split; [exact Hcr1|exact Hr1'].
        + assert (Hns' : all_ge pos ns) by (intros x Hx; apply Hns; right; exact Hx).
          destruct (IH _ _ _ _ _ Hwf Hcg1 Hcr1 Hns' H2) as [Hcg' [Hcr' Hr']].
          split; [exact Hcg'|]. split; [exact Hcr'|].
          intros p0 C Hle Hub Hlen HC Hel Hres.
          apply (Hr' p0 C Hle Hub Hlen HC); [intros n0 Hn0; apply Hel; right; exact Hn0|].
          apply (Hr1' p0 C Hle Hub Hlen HC Hel Hres).
    Qed.

    Lemma seq_step_prog : progQ (seq_step rp rs).
    Proof.
      intros q d c stk lrc pos m st stop st' c' Hwf Hcg Hcr H. unfold seq_step in H.
      apply bind_ok in H. destruct H as [[[[res cp] err] c1] [H1 H2]].
      assert (F : cache_ge c1 /\ cache_rng c1 /\ all_ge pos res /\
                  (forall n, In n res -> exists p, seq_lookup (q_kind q) (q_ps q) d = Some p /\
                                                  deep (rng fend pos (cons p)) n)).
      { destruct (seq_lookup (q_kind q) (q_ps q) d) as [p|] eqn:El.
        - destruct (Hge _ _ _ _ _ _ _ _ _ (Hcg : cache_ge (reg_call c)) H1) as [Hcg1 [Hrg _]].
          assert (Hwp : wf p).
          { apply (alls_in _ _ _ Hwf). unfold seq_lookup in El.
            destruct (q_kind q); apply (nth_error_In _ _ El). }
          destruct (Hp _ _ _ _ _ _ _ _ _ Hwp (Hcg : cache_ge (reg_call c)) (Hcr : cache_rng (reg_call c)) H1)
            as [Hcr1 Hr1].
          split; [exact Hcg1|]. split; [exact Hcr1|]. split; [exact Hrg|].
          intros n Hn. exists p. split; [reflexivity|apply Hr1, Hn].
        - injection H1 as <- _ _ <-. split; [exact Hcg|]. split; [exact Hcr|]. split; [apply all_ge_nil|].
          intros n []. }
      destruct F as [Hcg1 [Hcr1 [Hrg Hel]]].
      destruct res as [|r0 res].
      - destruct (seq_lencheck (q_kind q) (length (q_ps q)) d) eqn:Elc.
        + cbn [s_nodes s_res s_cp s_err] in H2.
          assert (Hnew : forall p0 (C : Prop), p0 <= pos -> pos <= N.max p0 fend -> length (s_nodes st) = d ->
                    head_at pos (s_nodes st) -> (C -> wit q d p0 pos) ->
                    (forall n, s_nodes st = [n] -> deep (rng fend p0 (C /\ emit1 q)) n) ->
                    all_d (rng fend p0 C) (s_res st) ->
                    all_d (rng fend p0 C) (append_node (s_res st) [handle_result q pos (rev (s_nodes st))])).
          { intros p0 C Hle Hub Hlen Hh HC Hsg Hres. apply all_d_append; [exact Hres|].
            intros n [E|[]]. subst n. apply deep_handle_result; [|exact Hh|].
            - split; [exact Hub|]. intros X. destruct (HC X) as [j [pj [_ [_ [W3 W4]]]]].
              apply W4, W3, Elc.
            - intros n En. apply (deep_impl (rng fend p0 (C /\ emit1 q))); [|apply Hsg, En].
              intros r. apply rng_impl; [lia|lia|]. intros X. split; [exact X|].
              unfold emit1. rewrite En in Hlen. cbn [length] in Hlen. subst d. exact Elc. }
          destruct (s_nodes st) as [|lastn rest]; injection H2 as _ <- <-; (split; [exact Hcr1|exact Hnew]).
        + injection H2 as _ <- <-. split; [exact Hcr1|]. intros p0 C _ _ _ _ _ _ Hres; exact Hres.
      - cbn [s_nodes] in H2.
        match type of H2 with alts_loop _ _ _ _ _ _ _ _ _ ?s _ = _ => set (st1 := s) in H2 end.
        destruct (alts_loop_prog _ _ _ _ _ _ _ _ st1 _ _ _ _ Hwf Hcg1 Hcr1 Hrg H2) as [_ [Hcr' Hr']].
        split; [exact Hcr'|].
        intros p0 C Hle Hub Hlen Hh HC Hsg Hres. apply (Hr' p0 C Hle Hub Hlen HC Hel Hres).
    Qed.
  End Step.

  Theorem prog_all : forall f, progP (parse inp rules f) /\ progQ (seqp inp rules f).
  Proof.
    induction f as [|f [IHp IHs]].
    - split; [intros e c stk lrc pos ns cp err c' _ _ _ H | intros q d c stk lrc pos m st stop st' c' _ _ _ H];
        cbn in H; discriminate.
    - destruct (act_all inp rules f) as [Ap As]. split.
      + intros e c stk lrc pos ns cp err c' Hw Hcg Hcr H. rewrite parse_S in H.
        revert Hw Hcg Hcr H. apply parse_step_prog; assumption.
      + intros q d c stk lrc pos m st stop st' c' Hw Hcg Hcr H. rewrite seqp_S in H.
        revert Hw Hcg Hcr H. apply seq_step_prog; assumption.
  Qed.

  (* (1) results of a consuming expression end strictly after the start; all results end inside the file *)
  Theorem consuming_progress fuel e c stk lrc pos ns cp err c' :
    wf e -> cache_ge c -> cache_rng c ->
    parse inp rules fuel e c stk lrc pos = Ok (ns, cp, err, c') ->
    cache_rng c' /\
    (forall n, In n ns -> node_rpos n <= N.max pos fend) /\
    (cons e -> forall n, In n ns -> pos < node_rpos n).
  Proof.
    intros Hw Hcg Hcr H. destruct (proj1 (prog_all fuel) _ _ _ _ _ _ _ _ _ Hw Hcg Hcr H) as [Hcr' Hr].
    split; [exact Hcr'|]. split.
    - intros n Hn. apply (deep_top _ _ (Hr n Hn)).
    - intros X n Hn. apply (deep_top _ _ (Hr n Hn)), X.
  Qed.
End Prog.

(* ==================== termination: a measure every call edge decreases ==================== *)
Lemma bind_noof {A B} (o : outcome A) (k : A -> outcome B) :
  o <> OutOfFuel -> (forall a, o = Ok a -> k a <> OutOfFuel) -> bind o k <> OutOfFuel.
Proof. destruct o as [a| |]; cbn [bind]; intros H1 H2; [apply H2; reflexivity|discriminate|exfalso; apply H1; reflexivity]. Qed.

Section Term.
  Variable inp : input.
  Variable rules : list pexpr.
  Variable site : N -> option pexpr.
  Variable K : list N.
  Variable Sz : nat.
  Hypothesis Hg : wf_grammar rules site K Sz.
  Let fend := fend_of inp.
  Notation cons := (consuming rules).
  Notation wf := (wfe site K).
  Notation rok := (reps_ok rules).

  Lemma Hrules : forall k body, nth_N rules k = Some body -> wf body.
  Proof. intros k body H. apply (Hg k body H). Qed.

  (* ---- the measure ---- *)
  Definition Rn (pos : N) : nat := N.to_nat (fend - pos).
  Fixpoint credK (lrc : intmap) (rem : N) (ks : list N) : nat :=
    match ks with
    | [] => O
    | idx :: t => (N.to_nat (rem + 2 - map_get idx lrc) + credK lrc rem t)%nat
    end.
  Definition cred (lrc : intmap) (pos : N) : nat := credK lrc (remaining inp pos) K.
  Definition Bc : nat := S Sz.
  Definition Cmax : nat := (length K * (N.to_nat (i_len inp) + 2))%nat.
  Definition Ac : nat := (S Cmax * Bc)%nat.
  Definition top (e : pexpr) : nat := match e with PMemo _ _ => 1 | PRef _ => 2 | _ => size e end.
  Definition lseq (q : seqinfo) (d : nat) : nat :=
    match q_kind q with
    | SeqOf | SeqTry | SeqFirstOrAll => 1 + sumsz (skipn d (q_ps q))
    | SMany _ => 1 + sumsz (q_ps q)
    | SSepBy _ => (match Nat.modulo d 2 with O => 1 | _ => 2 end) + sumsz (q_ps q)
    end%nat.
  Definition need (e : pexpr) (lrc : intmap) (pos : N) : nat := (Rn pos * Ac + cred lrc pos * Bc + top e)%nat.
  Definition needs (q : seqinfo) (d : nat) (lrc : intmap) (pos : N) : nat :=
    (Rn pos * Ac + cred lrc pos * Bc + lseq q d)%nat.

  Lemma size_pos e : (1 <= size e)%nat. Proof. destruct e; cbn [size]; lia. Qed.
  Lemma top_le_size e : (top e <= size e)%nat.
  Proof. destruct e; cbn [top size]; lia. Qed.
  Lemma top_pos e : (1 <= top e)%nat. Proof. destruct e; cbn [top]; try lia; apply size_pos. Qed.

  Lemma sumsz_in p ps : In p ps -> (S (size p) <= sumsz ps)%nat.
  Proof.
    induction ps as [|x t IH]; intros H; [destruct H|]. cbn [sumsz].
    destruct H as [E|H]; [subst x; lia | specialize (IH H); lia].
  Qed.
  Lemma sumsz_skipn_nth ps : forall d p, nth_error ps d = Some p ->
    sumsz (skipn d ps) = (S (size p) + sumsz (skipn (S d) ps))%nat.
  Proof.
    induction ps as [|x t IH]; intros d p H; [destruct d; discriminate H|].
    destruct d as [|d]; cbn [nth_error] in H.
    - injection H as <-. reflexivity.
    - change (skipn (S d) (x :: t)) with (skipn d t). change (skipn (S (S d)) (x :: t)) with (skipn (S d) t).
      apply IH, H.
  Qed.
  Lemma sumsz_skipn_le ps : forall d, (sumsz (skipn d ps) <= sumsz ps)%nat.
  Proof.
    induction ps as [|x t IH]; intros d; [destruct d; cbn; lia|].
    destruct d as [|d]; [cbn [skipn]; lia|]. cbn [skipn sumsz]. specialize (IH d). lia.
  Qed.
  Lemma lseq_le q d : (1 <= lseq q d <= 2 + sumsz (q_ps q))%nat.
  Proof.
    unfold lseq. pose proof (sumsz_skipn_le (q_ps q) d).
    destruct (q_kind q); try lia. destruct (Nat.modulo d 2); lia.
  Qed.
  Lemma lookup_in k ps d p : seq_lookup k ps d = Some p -> In p ps.
  Proof. unfold seq_lookup. destruct k; intros H; apply (nth_error_In _ _ H). Qed.

  (* the element at depth d is paid for by the sequence's own measure *)
  Lemma lseq_elem q d p : seq_lookup (q_kind q) (q_ps q) d = Some p -> (2 + size p <= lseq q d)%nat.
  Proof.
    intros H. pose proof (sumsz_in _ _ (lookup_in _ _ _ _ H)) as Hin.
    unfold lseq. unfold seq_lookup in H.
    destruct (q_kind q); try (rewrite (sumsz_skipn_nth _ _ _ H); lia); try lia.
    destruct (Nat.modulo d 2); lia.
  Qed.
  Definition kind_ok (q : seqinfo) : Prop :=
    match q_kind q with SMany _ | SSepBy _ => first_consuming rules (q_ps q) | _ => True end.
  (* a step that does not consume is impossible after a repetition operand and cheaper otherwise *)
  Lemma lseq_next q d p :
    kind_ok q -> seq_lookup (q_kind q) (q_ps q) d = Some p -> cons p \/ (lseq q (S d) < lseq q d)%nat.
  Proof.
    unfold kind_ok, lseq, seq_lookup. intros Hk H.
    destruct (q_kind q).
    1-3: right; rewrite (sumsz_skipn_nth _ _ _ H); lia.
    - left. destruct (q_ps q) as [|x t]; [discriminate H|]. cbn [nth_error] in H. injection H as <-. exact Hk.
    - pose proof (Nat.mod_upper_bound d 2 ltac:(lia)) as U.
      pose proof (Nat.div_mod_eq d 2) as D1. pose proof (Nat.div_mod_eq (S d) 2) as D2.
      pose proof (Nat.mod_upper_bound (S d) 2 ltac:(lia)) as U2.
      destruct (Nat.modulo d 2) as [|[|r]] eqn:Em; [| |lia].
      + left. destruct (q_ps q) as [|x t]; [discriminate H|]. cbn [nth_error] in H. injection H as <-. exact Hk.
      + right. destruct (Nat.modulo (S d) 2) as [|r2] eqn:Em2; lia.
  Qed.

  (* ---- facts about the components ---- *)
  Lemma remaining_le pos : remaining inp pos <= i_len inp. Proof. unfold remaining. lia. Qed.
  Lemma remaining_mono pos pos' : pos <= pos' -> remaining inp pos' <= remaining inp pos.
  Proof. unfold remaining. lia. Qed.
  Lemma credK_le lrc rem ks : rem <= i_len inp -> (credK lrc rem ks <= length ks * (N.to_nat (i_len inp) + 2))%nat.
  Proof.
    intros H. induction ks as [|x t IH]; cbn [credK length]; [lia|].
    assert (N.to_nat (rem + 2 - map_get x lrc) <= N.to_nat (i_len inp) + 2)%nat by lia. lia.
  Qed.
  Lemma cred_le lrc pos : (cred lrc pos <= Cmax)%nat.
  Proof. apply credK_le, remaining_le. Qed.
  Lemma credK_mono lrc rem rem' ks : rem' <= rem -> (credK lrc rem' ks <= credK lrc rem ks)%nat.
  Proof.
    intros H. induction ks as [|x t IH]; cbn [credK]; [lia|].
    assert (N.to_nat (rem' + 2 - map_get x lrc) <= N.to_nat (rem + 2 - map_get x lrc))%nat by lia. lia.
  Qed.
  Lemma cred_mono lrc pos pos' : pos <= pos' -> (cred lrc pos' <= cred lrc pos)%nat.
  Proof. intros H. apply credK_mono, remaining_mono, H. Qed.
  Lemma credK_inc_le idx lrc rem ks : (credK (map_inc idx lrc) rem ks <= credK lrc rem ks)%nat.
  Proof.
    induction ks as [|x t IH]; cbn [credK]; [lia|].
    rewrite map_get_inc. destruct (x =? idx) eqn:E; [apply N.eqb_eq in E; subst x|]; lia.
  Qed.
  Lemma credK_inc idx lrc rem ks :
    In idx ks -> map_get idx lrc <= rem + 1 -> (credK (map_inc idx lrc) rem ks + 1 <= credK lrc rem ks)%nat.
  Proof.
    intros Hin Hle. induction ks as [|x t IH]; [destruct Hin|].
    cbn [credK]. destruct Hin as [E|Hin].
    - subst x. pose proof (credK_inc_le idx lrc rem t) as L.
      rewrite map_get_inc, N.eqb_refl. lia.
    - specialize (IH Hin). rewrite map_get_inc. destruct (x =? idx) eqn:E; [apply N.eqb_eq in E; subst x|]; lia.
  Qed.
  Lemma Rn_mono pos pos' : pos <= pos' -> (Rn pos' <= Rn pos)%nat. Proof. unfold Rn. lia. Qed.
  Lemma Rn_lt pos pos' : pos < pos' -> pos' <= fend -> (Rn pos' < Rn pos)%nat. Proof. unfold Rn. lia. Qed.

  Lemma meas_consume R R' c' l' : (R' < R -> c' <= Cmax -> l' <= Sz -> R' * Ac + c' * Bc + l' < R * Ac)%nat.
  Proof.
    intros H1 H2 H3. pose proof (Nat.mul_le_mono_r (S R') R Ac H1) as M1.
    pose proof (Nat.mul_le_mono_r c' Cmax Bc H2) as M2. unfold Ac, Bc in *. lia.
  Qed.
  Lemma meas_credit c c' l' : (c' + 1 <= c -> l' <= Sz -> c' * Bc + l' < c * Bc)%nat.
  Proof. intros H1 H2. pose proof (Nat.mul_le_mono_r (c' + 1) c Bc H1) as M. unfold Bc in *. lia. Qed.
  Lemma meas_mono R R' c c' : (R' <= R -> c' <= c -> R' * Ac + c' * Bc <= R * Ac + c * Bc)%nat.
  Proof.
    intros H1 H2. pose proof (Nat.mul_le_mono_r R' R Ac H1). pose proof (Nat.mul_le_mono_r c' c Bc H2). lia.
  Qed.

  (* ---- static facts carried along ---- *)
  Definition estat (e : pexpr) : Prop := wf e /\ rok e /\ (size e <= Sz)%nat.
  Definition qstat (q : seqinfo) : Prop :=
    alls wf (q_ps q) /\ alls rok (q_ps q) /\ (3 + sumsz (q_ps q) <= Sz)%nat /\ kind_ok q.
  Definition cinv (c : ctx) : Prop := cache_ge c /\ cache_rng inp rules site c.

  Definition termP (f : nat) (rp : ptype) : Prop :=
    forall e c stk lrc pos, estat e -> cinv c -> (need e lrc pos <= f)%nat -> rp e c stk lrc pos <> OutOfFuel.
  Definition termQ (f : nat) (rs : stype) : Prop :=
    forall q d c stk lrc pos m st, qstat q -> cinv c -> (needs q d lrc pos <= f)%nat ->
      rs q d c stk lrc pos m st <> OutOfFuel.

  Lemma estat_in ps p : alls wf ps -> alls rok ps -> (sumsz ps <= Sz)%nat -> In p ps -> estat p.
  Proof.
    intros H1 H2 H3 Hin. split; [apply (alls_in _ _ _ H1 Hin)|]. split; [apply (alls_in _ _ _ H2 Hin)|].
    pose proof (sumsz_in _ _ Hin). lia.
  Qed.

  Section Step.
    Variable f : nat.
    Variables (rp : ptype) (rs : stype).
    Hypothesis Hge : actP inp rp.
    Hypothesis Hsge : actQ inp rs.
    Hypothesis Hpr : progP inp rules site K rp.
    Hypothesis Hspr : progQ inp rules site K rs.
    Hypothesis Ht : termP f rp.
    Hypothesis Hts : termQ f rs.

    Lemma rp_inv e c stk lrc pos ns cp err c' :
      wf e -> cinv c -> rp e c stk lrc pos = Ok (ns, cp, err, c') ->
      cinv c' /\ all_ge pos ns /\ all_d (rng fend pos (cons e)) ns.
    Proof.
      intros Hw [Hcg Hcr] H. destruct (Hge _ _ _ _ _ _ _ _ _ Hcg H) as [Hcg' [Hr _]].
      destruct (Hpr _ _ _ _ _ _ _ _ _ Hw Hcg Hcr H) as [Hcr' Hd].
      split; [split; assumption|]. split; assumption.
    Qed.
    Lemma rs_inv q d c stk lrc pos m st stop st' c' :
      alls wf (q_ps q) -> cinv c -> rs q d c stk lrc pos m st = Ok (stop, st', c') -> cinv c'.
    Proof.
      intros Hw [Hcg Hcr] H. destruct (Hsge _ _ _ _ _ _ _ _ _ _ _ Hcg H) as [Hcg' _].
      destruct (Hspr _ _ _ _ _ _ _ _ _ _ _ Hw Hcg Hcr H) as [Hcr' _]. split; assumption.
    Qed.

    Lemma any_loop_term stk lrc pos ps : forall c cp res err nf,
      (forall p, In p ps -> estat p /\ (need p lrc pos <= f)%nat) -> cinv c ->
      any_loop rp stk lrc pos ps c cp res err nf <> OutOfFuel.
    Proof.
      induction ps as [|p ps IH]; intros c cp res err nf Hps Hci; cbn [any_loop].
      - destruct res; discriminate.
      - destruct (Hps p (or_introl eq_refl)) as [Hep Hnp]. apply bind_noof.
        + apply Ht; [exact Hep|exact Hci|exact Hnp].
        + intros [[[res2 cp2] err2] c1] E. destruct (alt_err pos err nf err2) as [err1 nf1].
          apply IH; [intros p0 Hp0; apply Hps; right; exact Hp0|].
          apply (rp_inv _ _ _ _ _ _ _ _ _ (proj1 Hep) (Hci : cinv (reg_call c)) E).
    Qed.
    Lemma choice_loop_term stk lrc pos ps : forall c cp err nf,
      (forall p, In p ps -> estat p /\ (need p lrc pos <= f)%nat) -> cinv c ->
      choice_loop rp stk lrc pos ps c cp err nf <> OutOfFuel.
    Proof.
      induction ps as [|p ps IH]; intros c cp err nf Hps Hci; cbn [choice_loop]; [discriminate|].
      destruct (Hps p (or_introl eq_refl)) as [Hep Hnp]. apply bind_noof.
      - apply Ht; [exact Hep|exact Hci|exact Hnp].
      - intros [[[res2 cp2] err2] c1] E. destruct (alt_err pos err nf err2) as [err1 nf1].
        destruct res2; [|discriminate].
        apply IH; [intros p0 Hp0; apply Hps; right; exact Hp0|].
        apply (rp_inv _ _ _ _ _ _ _ _ _ (proj1 Hep) (Hci : cinv (reg_call c)) E).
    Qed.

    Lemma need_children ps lrc pos p l0 :
      alls wf ps -> alls rok ps -> (l0 + sumsz ps <= Sz)%nat -> (Rn pos * Ac + cred lrc pos * Bc + (1 + sumsz ps) <= S f)%nat ->
      In p ps -> estat p /\ (need p lrc pos <= f)%nat.
    Proof.
      intros H1 H2 H3 H4 Hin. split; [apply (estat_in ps); try assumption; lia|].
      unfold need. pose proof (sumsz_in _ _ Hin). pose proof (top_le_size p). lia.
    Qed.

    (* after the operand returned, a wrapper only builds its answer *)
    Ltac finish :=
      intros [[[res0 cp0] err0] c0] _;
      repeat match goal with
             | |- context [match ?x with _ => _ end] => destruct x
             end; discriminate.

    Lemma parse_step_term : termP (S f) (parse_step inp rules rp rs).
    Proof.
      intros e c stk lrc pos [Hw [Hr Hsz]] Hci Hn.
      destruct e; cbn [parse_step]; cbn [wfe] in Hw; cbn [reps_ok] in Hr; cbn [size] in Hsz;
        unfold need in Hn; cbn [top size] in Hn.
      - destruct (term_parse inp t pos) as [res err]. discriminate.
      - discriminate.
      - destruct (is_eof inp pos); discriminate.
      - (* PRef *)
        destruct (nth_N rules k) as [body|] eqn:Ek; [|discriminate].
        destruct (Hg k body Ek) as [[idx [p Eb]] [Hwb [Hrb Hsb]]].
        apply Ht; [split; [exact Hwb|split; [exact Hrb|exact Hsb]]|exact Hci|].
        subst body. unfold need. cbn [top]. lia.
      - (* PMemo *)
        destruct Hw as [Hsite [HinK Hw]].
        destruct (cache_get c idx pos lrc); [discriminate|].
        destruct (remaining inp pos + 1 <? map_get idx lrc) eqn:Et; [discriminate|].
        apply N.ltb_ge in Et. apply bind_noof.
        + apply Ht; [split; [exact Hw|split; [exact Hr|lia]]|exact Hci|].
          unfold need. pose proof (credK_inc idx lrc (remaining inp pos) K HinK Et) as L. fold (cred lrc pos) in L.
          fold (cred (map_inc idx lrc) pos) in L.
          pose proof (top_le_size e) as T.
          pose proof (meas_credit (cred lrc pos) (cred (map_inc idx lrc) pos) (top e) L ltac:(lia)). lia.
        + intros [[[nodes cp] err] c']. discriminate.
      - (* PAny *)
        apply any_loop_term; [|exact Hci]. intros p Hp.
        rewrite sumsz_eq in *. apply (need_children ps lrc pos p 1%nat); try assumption; lia.
      - (* PChoice *)
        apply choice_loop_term; [|exact Hci]. intros p Hp.
        rewrite sumsz_eq in *. apply (need_children ps lrc pos p 1%nat); try assumption; lia.
      - (* POpt *)
        apply bind_noof; [|finish].
        apply Ht; [split; [exact Hw|split; [exact Hr|lia]]|exact Hci|].
        unfold need. pose proof (top_le_size e). lia.
      - (* PSeq *)
        rewrite sumsz_eq in *. destruct Hr as [Hr Hk].
        set (q := {| q_kind := k; q_ip := ip; q_single := single; q_ps := ps |}).
        apply bind_noof.
        + apply Hts; [|exact Hci|].
          * split; [exact Hw|]. split; [exact Hr|]. split; [cbn [q q_ps]; lia|]. exact Hk.
          * unfold needs. pose proof (lseq_le q 0) as L. cbn [q q_ps] in L. lia.
        + intros [[stop st] c0] _. destruct (s_res st); discriminate.
      - (* PName *)
        apply bind_noof; [|finish].
        apply Ht; [split; [exact Hw|split; [exact Hr|lia]]|exact Hci|].
        unfold need. pose proof (top_le_size e). lia.
      - (* PLeftTrim *)
        pose proof (skip_ws_ge inp pos m) as L1.
        destruct (skip_ws inp pos m) as [pos1 wserr]. cbn [fst] in L1.
        apply bind_noof.
        + apply Ht; [split; [exact Hw|split; [exact Hr|lia]]|exact Hci|].
          unfold need. pose proof (top_le_size e).
          pose proof (meas_mono _ _ _ _ (Rn_mono _ _ L1) (cred_mono lrc _ _ L1)). lia.
        + intros [[[res0 cp0] err0] c0] _. cbv zeta.
          destruct err0; [destruct wserr; [destruct (pos1 <? epos p); [|destruct (is_notfound p)]|]|destruct wserr];
            discriminate.
      - (* PRightTrim *)
        apply bind_noof; [|finish].
        apply Ht; [split; [exact Hw|split; [exact Hr|lia]]|exact Hci|].
        unfold need. pose proof (top_le_size e). lia.
      - (* PSuppress *)
        apply bind_noof; [|finish].
        apply Ht; [split; [exact Hw|split; [exact Hr|lia]]|exact Hci|].
        unfold need. pose proof (top_le_size e). lia.
      - (* PSingle *)
        apply bind_noof; [|finish].
        apply Ht; [split; [exact Hw|split; [exact Hr|lia]]|exact Hci|].
        unfold need. pose proof (top_le_size e). lia.
    Qed.

    Lemma alts_loop_term q d stk lrc pos m prefix ns : forall st c,
      qstat q -> cinv c ->
      (forall n, In n ns -> (needs q (S d) (if (pos <? node_rpos n)%N then [] else lrc) (node_rpos n) <= f)%nat) ->
      alts_loop rs q d stk lrc pos m prefix ns st c <> OutOfFuel.
    Proof.
      induction ns as [|n ns IH]; intros st c Hq Hci Hns; cbn [alts_loop]; [discriminate|].
      apply bind_noof.
      - apply Hts; [exact Hq|exact Hci|apply Hns; left; reflexivity].
      - intros [[stop st'] c'] E. destruct stop; [discriminate|].
        apply IH; [exact Hq| |intros n0 Hn0; apply Hns; right; exact Hn0].
        apply (rs_inv _ _ _ _ _ _ _ _ _ _ _ (proj1 Hq) Hci E).
    Qed.

    Lemma seq_step_term : termQ (S f) (seq_step rp rs).
    Proof.
      intros q d c stk lrc pos m st Hq Hci Hn. unfold seq_step.
      destruct Hq as [Hwf [Hro [Hsz Hk]]].
      destruct (seq_lookup (q_kind q) (q_ps q) d) as [p|] eqn:El.
      - pose proof (lookup_in _ _ _ _ El) as Hin.
        assert (Hep : estat p) by (apply (estat_in (q_ps q)); try assumption; lia).
        pose proof (lseq_elem q d p El) as Le.
        apply bind_noof.
        + apply Ht; [exact Hep|exact Hci|]. unfold need. unfold needs in Hn. pose proof (top_le_size p). lia.
        + intros [[[res cp] err] c1] E.
          destruct (rp_inv _ _ _ _ _ _ _ _ _ (proj1 Hep) (Hci : cinv (reg_call c)) E) as [Hci1 [Hrg Hrd]].
          destruct res as [|r0 res].
          * destruct (seq_lencheck (q_kind q) (length (q_ps q)) d); [|discriminate].
            cbn [s_nodes]. destruct (s_nodes st); discriminate.
          * apply alts_loop_term; [split; [exact Hwf|split; [exact Hro|split; [exact Hsz|exact Hk]]]|exact Hci1|].
            intros n Hin_n.
            pose proof (node_ge_rpos _ _ (Hrg n Hin_n)) as G1.
            destruct (deep_top _ _ (Hrd n Hin_n)) as [G2 G3].
            pose proof (lseq_le q (S d)) as Ll. unfold needs in *.
            destruct (pos <? node_rpos n) eqn:Elt.
            -- apply N.ltb_lt in Elt.
               assert (Hfe : node_rpos n <= fend) by lia.
               pose proof (meas_consume (Rn pos) (Rn (node_rpos n)) (cred [] (node_rpos n)) (lseq q (S d))
                             (Rn_lt _ _ Elt Hfe) (cred_le _ _) ltac:(lia)). lia.
            -- apply N.ltb_ge in Elt. assert (Epos : node_rpos n = pos) by lia. rewrite Epos.
               destruct (lseq_next q d p Hk El) as [Hc|Hl]; [specialize (G3 Hc); lia|lia].
      - cbn [bind]. destruct (seq_lencheck (q_kind q) (length (q_ps q)) d); [|discriminate].
        cbn [s_nodes]. destruct (s_nodes st); discriminate.
    Qed.
  End Step.

  Theorem term_all : forall f, termP f (parse inp rules f) /\ termQ f (seqp inp rules f).
  Proof.
    induction f as [|f [IHp IHs]].
    - split.
      + intros e c stk lrc pos _ _ Hn. unfold need in Hn. pose proof (top_pos e). lia.
      + intros q d c stk lrc pos m st _ _ Hn. unfold needs in Hn. pose proof (lseq_le q d). lia.
    - destruct (act_all inp rules f) as [Ap As].
      destruct (prog_all inp rules site K Hrules f) as [Pp Ps]. split.
      + intros e c stk lrc pos He Hci Hn. rewrite parse_S.
        revert He Hci Hn. apply parse_step_term; assumption.
      + intros q d c stk lrc pos m st Hq Hci Hn. rewrite seqp_S.
        revert Hq Hci Hn. apply seq_step_term; assumption.
  Qed.

  (* (2) termination: [need] is enough fuel, for every context (any cache satisfying the cache
     invariants), stack, left-recursion context and position *)
  Theorem C02_terminates_need e c stk lrc pos :
    wf e -> rok e -> (size e <= Sz)%nat -> cache_ge c -> cache_rng inp rules site c ->
    parse inp rules (need e lrc pos) e c stk lrc pos <> OutOfFuel.
  Proof.
    intros Hw Hr Hs Hcg Hcr.
    apply (proj1 (term_all (need e lrc pos))); [split; [exact Hw|split; [exact Hr|exact Hs]]|split; assumption|lia].
  Qed.
  Theorem C02_terminates e c stk lrc pos :
    wf e -> rok e -> (size e <= Sz)%nat -> cache_ge c -> cache_rng inp rules site c ->
    exists fuel, parse inp rules fuel e c stk lrc pos <> OutOfFuel.
  Proof. intros. exists (need e lrc pos). apply C02_terminates_need; assumption. Qed.

  (* (3) the explicit bound: (len+1) * (|K|*(len+2)+1) * (Sz+1) *)
  Definition fuel_bound : nat := (S (N.to_nat (i_len inp)) * Ac)%nat.
  Lemma fuel_bound_eq :
    fuel_bound = ((N.to_nat (i_len inp) + 1) * ((length K * (N.to_nat (i_len inp) + 2) + 1) * (Sz + 1)))%nat.
  Proof. unfold fuel_bound, Ac, Cmax, Bc. lia. Qed.
  Lemma need_le_bound e lrc pos :
    (size e <= Sz)%nat -> i_offset inp <= pos -> (need e lrc pos <= fuel_bound)%nat.
  Proof.
    intros Hs Hpos. unfold need, fuel_bound.
    assert (HR : (Rn pos <= N.to_nat (i_len inp))%nat) by (unfold Rn, fend, fend_of; lia).
    pose proof (Nat.mul_le_mono_r _ _ Ac HR) as M1.
    pose proof (Nat.mul_le_mono_r _ _ Bc (cred_le lrc pos)) as M2.
    pose proof (top_le_size e). unfold Ac, Bc in *. lia.
  Qed.
  Theorem C02_terminates_bound fuel e c stk lrc pos :
    wf e -> rok e -> (size e <= Sz)%nat -> cache_ge c -> cache_rng inp rules site c ->
    i_offset inp <= pos -> (fuel_bound <= fuel)%nat ->
    parse inp rules fuel e c stk lrc pos <> OutOfFuel.
  Proof.
    intros Hw Hr Hs Hcg Hcr Hpos Hf.
    apply (proj1 (term_all fuel)); [split; [exact Hw|split; [exact Hr|exact Hs]]|split; assumption|].
    pose proof (need_le_bound e lrc pos Hs Hpos). lia.
  Qed.
  (* all fuels from the bound on give the answer the bound gives *)
  Corollary C02_fuel_indep fuel e c stk lrc pos :
    wf e -> rok e -> (size e <= Sz)%nat -> cache_ge c -> cache_rng inp rules site c ->
    i_offset inp <= pos -> (fuel_bound <= fuel)%nat ->
    parse inp rules fuel e c stk lrc pos = parse inp rules fuel_bound e c stk lrc pos.
  Proof.
    intros Hw Hr Hs Hcg Hcr Hpos Hf.
    destruct (fuel_mono inp rules fuel_bound fuel Hf) as [Hm _].
    apply (Hm _ _ _ _ _ _ eq_refl).
    apply C02_terminates_bound; try assumption. lia.
  Qed.
  (* the entry points: fresh context, empty stack and context, start of the file *)
  Corollary C02_terminates_run fuel root :
    wf root -> rok root -> (size root <= Sz)%nat -> (fuel_bound <= fuel)%nat ->
    run inp rules fuel root <> OutOfFuel /\ run inp rules fuel root = run inp rules fuel_bound root.
  Proof.
    intros Hw Hr Hs Hf. unfold run. split.
    - apply C02_terminates_bound; try assumption; [apply cache_ge_ctx0|apply cache_rng_ctx0|lia].
    - apply C02_fuel_indep; try assumption; [apply cache_ge_ctx0|apply cache_rng_ctx0|lia].
  Qed.
  Corollary C02_terminates_top fuel root :
    wf root -> rok root -> (size root <= Sz)%nat -> (fuel_bound <= fuel)%nat ->
    parse_top inp rules fuel root <> OutOfFuel.
  Proof.
    intros Hw Hr Hs Hf. unfold parse_top. apply bind_noof.
    - apply (C02_terminates_run fuel root Hw Hr Hs Hf).
    - intros [[[nodes cp] err] c] _.
      repeat match goal with |- context [match ?x with _ => _ end] => destruct x end; discriminate.
  Qed.
End Term.

(* ==================== non-vacuity ==================== *)
(* 1. P -> x? P b | a  (hidden left recursion; [ex_rules], [ex_inp] = "xab" from Activation.v) *)
Definition ex_body : pexpr :=
  PAny [PSeq SeqOf INone false None [POpt (PTerm (TRune 120)); PRef 0; PTerm (TRune 98)]; PTerm (TRune 97)].
Definition ex_site (idx : N) : option pexpr := if idx =? 1 then Some ex_body else None.
Definition ex_Sz : nat := size (PMemo 1 ex_body).

Example ex_wf_grammar : wf_grammar ex_rules ex_site [1] ex_Sz.
Proof.
  intros k body H. unfold nth_N in H. destruct (N.to_nat k) as [|n]; [|destruct n; discriminate H].
  cbn in H. injection H as <-. split; [exists 1, ex_body; reflexivity|].
  split; [|split; [|unfold ex_Sz; apply Nat.le_refl]].
  - cbn. split; [reflexivity|]. split; [left; reflexivity|]. tauto.
  - cbn. tauto.
Qed.
Example ex_root_ok : wfe ex_site [1] (PRef 0) /\ reps_ok ex_rules (PRef 0) /\ (size (PRef 0) <= ex_Sz)%nat.
Proof. split; [exact I|]. split; [exact I|]. vm_compute. lia. Qed.
Example ex_fuel_bound : fuel_bound ex_inp [1] ex_Sz = 408%nat.
Proof. vm_compute. reflexivity. Qed.
(* the theorem applies; and the run at the bound is the run computed in Activation.v *)
Example ex_terminates : forall fuel, (408 <= fuel)%nat ->
  run ex_inp ex_rules fuel (PRef 0) <> OutOfFuel /\
  run ex_inp ex_rules fuel (PRef 0) = run ex_inp ex_rules 408 (PRef 0).
Proof.
  intros fuel Hf. destruct ex_root_ok as [H1 [H2 H3]].
  apply (C02_terminates_run ex_inp ex_rules ex_site [1] ex_Sz ex_wf_grammar fuel (PRef 0) H1 H2 H3).
  rewrite ex_fuel_bound. exact Hf.
Qed.
Example ex_run_408 : ex_log 408 = ex_log 100 /\ ex_ends 408 = [3].
Proof. vm_compute. split; reflexivity. Qed.
(* P itself is not consuming-free: "a" and "x? P b" both consume, so P is [consuming] *)
Example ex_P_consuming : consuming ex_rules (PTerm (TRune 97)) /\ ~ consuming ex_rules (POpt (PTerm (TRune 120))).
Proof. split; [constructor; reflexivity|intros X; inversion X]. Qed.

(* 2. a grammar with Many:  L -> ( a | '(' L ')' )*   on "a(a)" *)
Definition exm_item : pexpr :=
  PAny [PTerm (TRune 97); PSeq SeqOf INone false None [PTerm (TRune 40); PRef 0; PTerm (TRune 41)]].
Definition exm_body : pexpr := PSeq (SMany true) IArray false None [exm_item].
Definition exm_rules : list pexpr := [PMemo 7 exm_body].
Definition exm_site (idx : N) : option pexpr := if idx =? 7 then Some exm_body else None.
Definition exm_Sz : nat := size (PMemo 7 exm_body).
Definition exm_inp : input := mk_input [97; 40; 97; 41] 10.

Example exm_item_consuming : consuming exm_rules exm_item.
Proof.
  apply CAny. intros p [E|[E|[]]]; subst p; [constructor; reflexivity|].
  apply (CSeqOf _ _ _ _ _ (PTerm (TRune 40))); [left; reflexivity|constructor; reflexivity].
Qed.
Example exm_wf_grammar : wf_grammar exm_rules exm_site [7] exm_Sz.
Proof.
  intros k body H. unfold nth_N in H. destruct (N.to_nat k) as [|n]; [|destruct n; discriminate H].
  cbn in H. injection H as <-. split; [exists 7, exm_body; reflexivity|].
  split; [|split; [|unfold exm_Sz; apply Nat.le_refl]].
  - cbn. split; [reflexivity|]. split; [left; reflexivity|]. tauto.
  - cbn [reps_ok exm_body alls exm_item first_consuming].
    split; [tauto|]. exact exm_item_consuming.
Qed.
Example exm_terminates : forall fuel, (fuel_bound exm_inp [7%N] exm_Sz <= fuel)%nat ->
  run exm_inp exm_rules fuel (PRef 0) <> OutOfFuel.
Proof.
  intros fuel Hf.
  apply (C02_terminates_run exm_inp exm_rules exm_site [7] exm_Sz exm_wf_grammar fuel (PRef 0)); try exact I; [|exact Hf].
  vm_compute. lia.
Qed.
Example exm_run :
  fuel_bound exm_inp [7] exm_Sz = 700%nat /\
  match run exm_inp exm_rules 700 (PRef 0) with
  | Ok (ns, _, _, c) => (map node_rpos ns, length (g_bodies c))
  | _ => ([], O)
  end = ([14], 2%nat).
Proof. vm_compute. split; reflexivity. Qed.

(* 3. the hypotheses are needed: without Memoize around a left-recursive rule, and with a
   repetition whose operand matches the empty string, the engine exhausts any fuel we try
   (the real code overflows its stack on both) *)
Example unmemoized_left_recursion_diverges :
  run ex_inp [PAny [PSeq SeqOf INone false None [PRef 0; PTerm (TRune 98)]; PTerm (TRune 97)]] 3000 (PRef 0)
  = OutOfFuel.
Proof. vm_compute. reflexivity. Qed.
Example many_of_nullable_diverges :
  run ex_inp [] 3000 (PSeq (SMany true) IArray false None [POpt (PTerm (TRune 97))]) = OutOfFuel.
Proof. vm_compute. reflexivity. Qed.

(* 4. literal terminals and trimming: left-recursive sums  S -> S '+' Integer | Integer  with
   whitespace skipped before every token (terminal.Op("+"), terminal.Integer, text.LeftTrim),
   on "1 + 2" at offset 1.  The hypotheses of the termination theorem are satisfiable by a
   grammar whose terminals are literal parsers. *)
Definition exl_int : pexpr := PLeftTrim WsSpaces (PTerm (TLit LInteger)).
Definition exl_plus : pexpr := PLeftTrim WsSpaces (PTerm (TLit (LOp [43]))).
Definition exl_body : pexpr := PAny [PSeq SeqOf INone false None [PRef 0; exl_plus; exl_int]; exl_int].
Definition exl_rules : list pexpr := [PMemo 1 exl_body].
Definition exl_site (idx : N) : option pexpr := if idx =? 1 then Some exl_body else None.
Definition exl_Sz : nat := size (PMemo 1 exl_body).
Definition exl_inp : input := mk_input [49; 32; 43; 32; 50] 1.       (* "1 + 2" *)

Example exl_wf_grammar : wf_grammar exl_rules exl_site [1] exl_Sz.
Proof.
  intros k body H. unfold nth_N in H. destruct (N.to_nat k) as [|n]; [|destruct n; discriminate H].
  cbn in H. injection H as <-. split; [exists 1, exl_body; reflexivity|].
  split; [|split; [|unfold exl_Sz; apply Nat.le_refl]].
  - cbn. split; [reflexivity|]. split; [left; reflexivity|]. tauto.
  - cbn. tauto.
Qed.
Example exl_root_ok : wfe exl_site [1] (PRef 0) /\ reps_ok exl_rules (PRef 0) /\ (size (PRef 0) <= exl_Sz)%nat.
Proof. split; [exact I|]. split; [exact I|]. vm_compute. lia. Qed.
Example exl_fuel_bound : fuel_bound exl_inp [1] exl_Sz = 912%nat.
Proof. vm_compute. reflexivity. Qed.
(* the theorem applies (no evaluation of the engine) ... *)
Example exl_terminates : forall fuel, (fuel_bound exl_inp [1%N] exl_Sz <= fuel)%nat ->
  run exl_inp exl_rules fuel (PRef 0) <> OutOfFuel /\
  run exl_inp exl_rules fuel (PRef 0) = run exl_inp exl_rules (fuel_bound exl_inp [1] exl_Sz) (PRef 0).
Proof.
  intros fuel Hf. destruct exl_root_ok as [H1 [H2 H3]].
  apply (C02_terminates_run exl_inp exl_rules exl_site [1] exl_Sz exl_wf_grammar fuel (PRef 0) H1 H2 H3 Hf).
Qed.
Example exl_run_not_oof : run exl_inp exl_rules (fuel_bound exl_inp [1] exl_Sz) (PRef 0) <> OutOfFuel.
Proof. apply (exl_terminates _ (Nat.le_refl _)). Qed.
(* ... and the run at the bound finds the whole sum "1 + 2" (ending at 1 + 5 = 6) and the prefix "1" *)
Example exl_run :
  match run exl_inp exl_rules 912 (PRef 0) with
  | Ok (ns, _, _, c) => (map node_rpos ns, length (g_bodies c))
  | _ => ([], O)
  end = ([6; 2], 7%nat).
Proof. vm_compute. reflexivity. Qed.
(* every alternative of the rule consumes: the literal parsers Integer and Op are strict *)
Example exl_body_consuming : consuming exl_rules exl_body.
Proof.
  apply CAny. intros p [E|[E|[]]]; subst p.
  - apply (CSeqOf _ _ _ _ _ exl_int); [right; right; left; reflexivity|].
    apply CLeftTrim, CTerm. reflexivity.
  - apply CLeftTrim, CTerm. reflexivity.
Qed.
(* a user regular expression that matches the empty string is NOT consuming (it is outside the
   documented domain [term_ok]: Go's getPattern panics on it); every in-domain terminal is *)
Example exl_nullable_regexp_not_consuming :
  ~ consuming exl_rules (PTerm (TLit (LRegexp (Regex.RStar (Regex.RClass false [(97, 97)])) 0))).
Proof. intros X. inversion X as [t0 Hs0| | | | | | | | | | | | | |]. discriminate Hs0. Qed.
Example term_ok_consuming rules t : term_ok t = true -> consuming rules (PTerm t).
Proof. intros H. apply CTerm, term_ok_strict, H. Qed.
