(* Obs.v — the universal observation type shared by the model and the Go driver.

   The Go driver prints what the implementation did as a term of type [obs] (in Coq
   syntax); the model renders what it predicts into the same type; [run_cases]
   compares the two and evaluates the property's executable oracle on the
   implementation's observation.  Nothing here is property specific. *)
From Coq Require Import String List NArith ZArith Bool.
Import ListNotations.
Open Scope N_scope.

Inductive obs :=
| ON (n : N)                       (* a natural number: positions, counts *)
| OZ (z : Z)                       (* a signed number: values *)
| OB (b : bool)
| OS (s : list N)                  (* a byte string *)
| OL (l : list obs)                (* a list *)
| OT (tag : string) (args : list obs).   (* a tagged tuple *)

Fixpoint list_N_eqb (a b : list N) : bool :=
  match a, b with
  | [], [] => true
  | x :: a', y :: b' => (x =? y) && list_N_eqb a' b'
  | _, _ => false
  end.

Fixpoint obs_eqb (a b : obs) {struct a} : bool :=
  let fix all2 (l1 l2 : list obs) {struct l1} : bool :=
      match l1, l2 with
      | [], [] => true
      | x :: l1', y :: l2' => obs_eqb x y && all2 l1' l2'
      | _, _ => false
      end in
  match a, b with
  | ON n, ON m => n =? m
  | OZ n, OZ m => Z.eqb n m
  | OB x, OB y => Bool.eqb x y
  | OS s, OS t => list_N_eqb s t
  | OL l1, OL l2 => all2 l1 l2
  | OT t1 l1, OT t2 l2 => String.eqb t1 t2 && all2 l1 l2
  | _, _ => false
  end.

Definition opanic : obs := OT "Panic" [].
Definition ocrash : obs := OT "Crash" [].       (* the process died (fatal stack overflow, timeout) *)
Definition onone : obs := OT "None" [].
Definition osome (o : obs) : obs := OT "Some" [o].
Definition obs_of_option {A} (f : A -> obs) (o : option A) : obs :=
  match o with Some a => osome (f a) | None => onone end.
Definition obs_of_string (s : string) : obs :=
  OS (map (fun a => N.of_nat (Ascii.nat_of_ascii a)) (list_ascii_of_string s)).

(* A harness: what the model expects, when two observations agree for this
   property (projection), and the property itself as a boolean on the
   implementation's observation. *)
Record harness := {
  H_case : Type;
  H_expected : H_case -> obs;
  H_agree : obs -> obs -> bool;
  H_oracle : H_case -> obs -> bool
}.

Record verdicts := {
  V_disagree : list N;            (* indexes where model and implementation differ *)
  V_violate : list N;             (* indexes where the implementation violates the oracle *)
  V_detail : list (N * obs)       (* model's expectation for the disagreeing cases *)
}.

Fixpoint run_from (h : harness) (i : N) (l : list (H_case h * obs)) : verdicts :=
  match l with
  | [] => {| V_disagree := []; V_violate := []; V_detail := [] |}
  | (c, o) :: t =>
    let r := run_from h (i + 1) t in
    let e := H_expected h c in
    let dis := negb (H_agree h e o) in
    let vio := negb (H_oracle h c o) in
    {| V_disagree := if dis then i :: V_disagree r else V_disagree r;
       V_violate := if vio then i :: V_violate r else V_violate r;
       V_detail := if dis || vio then (i, e) :: V_detail r else V_detail r |}
  end.
Definition run_cases (h : harness) (l : list (H_case h * obs)) : verdicts := run_from h 0 l.
