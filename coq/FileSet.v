(* FileSet.v — model of text/file.go (NewFile, setLines, Position, Pos),
   text/position.go (String) and parsley/file_set.go (NewFileSet, AddFile,
   Position, ErrorWithPosition).  No proofs here: the model must keep running
   when a proof is broken.  Go ints are unbounded N; positions are non-negative. *)
From Coq Require Import String List NArith Bool.
From Parsley Require Import Obs Base.
Import ListNotations.
Open Scope N_scope.

(* bytes.Replace(data, "\r\n", "\n", -1) *)
Fixpoint normalize (l : list N) : list N :=
  match l with
  | [] => []
  | x :: t =>
    match t with
    | y :: t' => if (x =? 13) && (y =? 10) then 10 :: normalize t' else x :: normalize t
    | [] => [x]
    end
  end.

Record file := { f_name : list N; f_data : list N (* normalised *); f_offset : N }.
Definition new_file (name raw : list N) : file :=
  {| f_name := name; f_data := normalize raw; f_offset := 1 |}.
Definition f_len (f : file) : N := N.of_nat (length (f_data f)).
Definition set_offset (f : file) (o : N) : file :=
  {| f_name := f_name f; f_data := f_data f; f_offset := o |}.
Definition file_pos (f : file) (cur : N) : N := f_offset f + cur.     (* File.Pos *)

(* setLines: [0] followed by offset+1 of every line feed *)
Fixpoint lines_from (off : N) (l : list N) : list N :=
  match l with
  | [] => []
  | b :: t => if b =? 10 then (off + 1) :: lines_from (off + 1) t else lines_from (off + 1) t
  end.
Definition lines_of (data : list N) : list N := 0 :: lines_from 0 data.

(* sort.Search(n, f) with f(h) = tbl[h] > key; an index outside the table is a Go panic *)
Fixpoint bsearch (fuel : nat) (tbl : list N) (key : N) (i j : N) : outcome N :=
  if i <? j then
    match fuel with
    | O => OutOfFuel
    | S k =>
      let h := (i + j) / 2 in
      match nth_N tbl h with
      | None => Panic
      | Some v => if key <? v then bsearch k tbl key i h else bsearch k tbl key (h + 1) j
      end
    end
  else Ok i.
Definition search_gt (tbl : list N) (key : N) : outcome N :=
  bsearch (S (length tbl)) tbl key 0 (N.of_nat (length tbl)).

Record position := { p_name : list N; p_line : N; p_col : N }.

(* File.Position(pos): None is parsley.NilPosition *)
Definition file_position (f : file) (pos : N) : outcome (option position) :=
  if f_len f <? pos then Ok None
  else
    let lines := lines_of (f_data f) in
    bind (search_gt lines pos) (fun s =>
      if s =? 0 then Panic                                  (* lines[-1] *)
      else match nth_N lines (s - 1) with
           | None => Panic
           | Some start => Ok (Some {| p_name := f_name f; p_line := (s - 1) + 1; p_col := pos - start + 1 |})
           end).

Record fileset := { fs_pos : N; fs_files : list file; fs_offset : list N }.
Definition empty_fileset : fileset := {| fs_pos := 1; fs_files := []; fs_offset := [] |}.
Definition add_file (fs : fileset) (f : file) : fileset :=
  {| fs_pos := fs_pos fs + f_len f + 1;
     fs_files := fs_files fs ++ [set_offset f (fs_pos fs)];
     fs_offset := fs_offset fs ++ [fs_pos fs] |}.
Definition new_fileset (files : list file) : fileset := fold_left add_file files empty_fileset.

(* FileSet.Position(pos) *)
Definition fs_position (fs : fileset) (pos : N) : outcome (option position) :=
  if (pos =? 0) || (fs_pos fs <=? pos) then Ok None
  else
    bind (search_gt (fs_offset fs) pos) (fun s =>
      if s =? 0 then Panic
      else match nth_N (fs_files fs) (s - 1), nth_N (fs_offset fs) (s - 1) with
           | Some f, Some off => file_position f (pos - off)
           | _, _ => Panic
           end).

(* text.Position.String() *)
Definition position_string (p : position) : list N :=
  match p_name p with
  | [] => show_N (p_line p) ++ [58] ++ show_N (p_col p)
  | nm => nm ++ [58] ++ show_N (p_line p) ++ [58] ++ show_N (p_col p)
  end.
Definition unknown_string : list N := [117; 110; 107; 110; 111; 119; 110].   (* "unknown" *)
Definition opt_position_string (o : option position) : list N :=
  match o with Some p => position_string p | None => unknown_string end.

(* FileSet.ErrorWithPosition: "<msg> at <position>" or the error unchanged *)
Definition error_with_position (fs : fileset) (msg : list N) (pos : N) : outcome (list N) :=
  bind (fs_position fs pos) (fun o =>
    match o with
    | None => Ok msg
    | Some p => Ok (msg ++ [32; 97; 116; 32] ++ position_string p)
    end).

(* ------------------------------------------------------------------ *)
(* Specification: what the property says, by counting line feeds.      *)

Fixpoint count_lf (l : list N) : N :=
  match l with [] => 0 | b :: t => (if b =? 10 then 1 else 0) + count_lf t end.
(* number of bytes after the last line feed of l (all of l if there is none) *)
Fixpoint tail_len (l : list N) (acc : N) : N :=
  match l with [] => acc | b :: t => if b =? 10 then tail_len t 0 else tail_len t (acc + 1) end.
Definition spec_linecol (data : list N) (c : N) : N * N :=
  let pre := firstn (N.to_nat c) data in (1 + count_lf pre, 1 + tail_len pre 0).

(* files laid out at 1, 1+len0+1, ...; the position one past each file's end is its EOF position *)
Fixpoint spec_locate (files : list file) (off p : N) : option (file * N) :=
  match files with
  | [] => None
  | f :: t => if p <? off then None
              else if p <=? off + f_len f then Some (f, p - off)
              else spec_locate t (off + f_len f + 1) p
  end.
Definition spec_position (files : list file) (p : N) : option position :=
  if p =? 0 then None else
  match spec_locate files 1 p with
  | None => None
  | Some (f, c) => let '(l, col) := spec_linecol (f_data f) c in
                   Some {| p_name := f_name f; p_line := l; p_col := col |}
  end.

(* ------------------------------------------------------------------ *)
(* Harness: a case is a list of (name, raw content) and a list of probed positions. *)

Inductive c11_case := C11 (files : list (list N * list N)) (positions : list N).

Definition c11_offsets (n : N) : list N :=
  filter (fun c => (n <=? 2000) || (c <? 200) || (n + 1 <? c + 200)) (N_range 0 (N.to_nat n + 2)).

Definition c11_expected (c : c11_case) : obs :=
  match c with
  | C11 files positions =>
    let fl := map (fun nr => new_file (fst nr) (snd nr)) files in
    let fs := new_fileset fl in
    OT "C11" [
      (* base offset and length of each file, as AddFile assigned them *)
      OL (map (fun f => OL [ON (f_offset f); ON (f_len f)]) (fs_files fs));
      (* FileSet.Position(p).String() and ErrorWithPosition of the error "e%d" for every probed position *)
      OL (map (fun p => OL [obs_outcome (fun o => OS (opt_position_string o)) (fs_position fs p);
                            obs_outcome OS (error_with_position fs [101; 37; 100] p)]) positions);
      (* File.Position(c).String() for every file and every c in 0..len+1 (of a file longer than 2000 bytes: the
         first and the last 200 of them); File.Pos(c) *)
      OL (map (fun f => OL (map (fun c => OL [obs_outcome (fun o => OS (opt_position_string o)) (file_position f c);
                                              ON (file_pos f c)])
                                (c11_offsets (f_len f)))) (fs_files fs))
    ]
  end.

(* the property itself, evaluated on the implementation's observation: the
   specification's answer for every probed position *)
Definition c11_spec_obs (c : c11_case) : obs :=
  match c with
  | C11 files positions =>
    let fl := map (fun nr => new_file (fst nr) (snd nr)) files in
    OL (map (fun p => OS (opt_position_string (spec_position fl p))) positions)
  end.
Definition c11_oracle (c : c11_case) (o : obs) : bool :=
  match o with
  | OT _ [_; OL ps; _] =>
    obs_eqb (OL (map (fun x => match x with OL (a :: _) => a | _ => x end) ps)) (c11_spec_obs c)
  | _ => false
  end.

Definition c11_harness : harness :=
  {| H_case := c11_case; H_expected := c11_expected; H_agree := obs_eqb; H_oracle := c11_oracle |}.
