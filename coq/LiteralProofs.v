(* LiteralProofs.v — proofs about Regex.v and Literals.v (C08).

   Layout
     A. lists, suffixes
     B. utf8.DecodeRune / EncodeRune facts
     C. the Reader primitives inside the domain [offset <= pos <= offset+len]
     D. the regex matcher: general facts, then the five fixed expressions = recognisers
     E. decoders: UnquoteChar bounds, unquoteString's contract and its item-wise meaning
     F. every parser = its specification; corollaries (total, xor, error_pos, span, value) *)
From Coq Require Import String List NArith ZArith Bool Lia Arith.
From Parsley Require Import Obs Base FileSet Utf8 Reader Regex Literals.
From Parsley Require ReaderProofs.
Import ListNotations.
Open Scope N_scope.

(* ================================================================== *)
(* A. lists                                                            *)

Lemma len_N_nil {A} : len_N (@nil A) = 0.
Proof. reflexivity. Qed.
Lemma len_N_cons {A} (x : A) l : len_N (x :: l) = 1 + len_N l.
Proof. unfold len_N. cbn [length]. lia. Qed.
Lemma len_N_app {A} (a b : list A) : len_N (a ++ b) = len_N a + len_N b.
Proof. unfold len_N. rewrite app_length. lia. Qed.

Lemma drop_0 s : drop 0 s = s.
Proof. reflexivity. Qed.
Lemma drop_nil n : drop n [] = [].
Proof. unfold drop. apply skipn_nil. Qed.
Lemma drop_succ n b t : drop (1 + n) (b :: t) = drop n t.
Proof. unfold drop. replace (N.to_nat (1 + n)) with (S (N.to_nat n)) by lia. reflexivity. Qed.
Lemma drop_1 b t : drop 1 (b :: t) = t.
Proof. reflexivity. Qed.
Lemma skipn_plus {A} (a b : nat) (s : list A) : skipn a (skipn b s) = skipn (b + a) s.
Proof.
  revert s; induction b as [|b IH]; intros s; [reflexivity|].
  destruct s as [|x t]; [cbn; apply skipn_nil|]. cbn. apply IH.
Qed.
Lemma drop_drop a b s : drop a (drop b s) = drop (b + a) s.
Proof.
  unfold drop. rewrite skipn_plus. f_equal. lia.
Qed.
Lemma len_drop n s : len_N (drop n s) = len_N s - n.
Proof. unfold drop, len_N. rewrite skipn_length. lia. Qed.
Lemma drop_all n s : len_N s <= n -> drop n s = [].
Proof. unfold drop, len_N. intros H. apply skipn_all2. lia. Qed.
Lemma take_0 s : take 0 s = [].
Proof. reflexivity. Qed.
Lemma take_succ n b t : take (1 + n) (b :: t) = b :: take n t.
Proof. unfold take. replace (N.to_nat (1 + n)) with (S (N.to_nat n)) by lia. reflexivity. Qed.
Lemma len_take n s : n <= len_N s -> len_N (take n s) = n.
Proof. unfold take, len_N. intros H. rewrite firstn_length. lia. Qed.
Lemma take_drop n s : take n s ++ drop n s = s.
Proof. unfold take, drop. apply firstn_skipn. Qed.
Lemma take_all n s : len_N s <= n -> take n s = s.
Proof. unfold take, len_N. intros H. apply firstn_all2. lia. Qed.
Lemma take_app_exact a b : take (len_N a) (a ++ b) = a.
Proof.
  unfold take, len_N. rewrite Nat2N.id. induction a as [|x a IH]; cbn; [reflexivity|]. f_equal. exact IH.
Qed.
Lemma drop_app_exact a b : drop (len_N a) (a ++ b) = b.
Proof.
  unfold drop, len_N. rewrite Nat2N.id. induction a as [|x a IH]; cbn; [reflexivity|exact IH].
Qed.

Lemma span_le p s : span p s <= len_N s.
Proof.
  induction s as [|b t IH]; cbn [span]; [unfold len_N; cbn; lia|].
  rewrite len_N_cons. destruct (p b); lia.
Qed.

Lemma bytes_ok_cons b t : bytes_ok (b :: t) -> b < 256 /\ bytes_ok t.
Proof. unfold bytes_ok. intros H. inversion H; subst. auto. Qed.
Lemma bytes_ok_skipn n s : bytes_ok s -> bytes_ok (skipn n s).
Proof.
  unfold bytes_ok. revert s; induction n as [|n IH]; intros s H; [exact H|].
  destruct s as [|b t]; [exact H|]. cbn [skipn]. apply IH. inversion H; auto.
Qed.
Lemma bytes_ok_drop n s : bytes_ok s -> bytes_ok (drop n s).
Proof. apply bytes_ok_skipn. Qed.

(* suffixes of the file *)
Lemma suffix_drop data cur n : suffix data (cur + n) = drop n (suffix data cur).
Proof. unfold suffix, drop. rewrite skipn_plus. f_equal. lia. Qed.
Lemma len_suffix data cur : len_N (suffix data cur) = len_N data - cur.
Proof. apply len_drop. Qed.
Lemma suffix_nth data cur : nth_N data cur = hd_error (suffix data cur).
Proof.
  unfold nth_N, suffix. generalize (N.to_nat cur) as n. intros n. revert data.
  induction n as [|n IH]; intros [|b t]; cbn; auto.
Qed.
Lemma bytes_ok_suffix data cur : bytes_ok data -> bytes_ok (suffix data cur).
Proof. apply bytes_ok_skipn. Qed.

(* ================================================================== *)
(* B. UTF-8                                                            *)

Lemma decode_ascii b t : b < 128 -> decode_rune (b :: t) = (b, 1).
Proof. intros H. cbn [decode_rune]. apply N.ltb_lt in H. rewrite H. reflexivity. Qed.

Lemma utf8_first_cases b sz lo hi : utf8_first b = Some (sz, lo, hi) ->
  194 <= b < 245 /\ 128 <= lo /\ hi <= 191 /\
  ((sz = 2 /\ b < 224) \/ (sz = 3 /\ 224 <= b < 240) \/ (sz = 4 /\ 240 <= b)) /\
  (b = 224 -> lo = 160) /\ (b = 240 -> lo = 144).
Proof.
  unfold utf8_first.
  repeat match goal with
  | |- context [if ?c then _ else _] => let E := fresh "E" in destruct c eqn:E
  end; intros H; inversion H; subst;
  repeat match goal with
  | E : (_ <? _) = true |- _ => apply N.ltb_lt in E
  | E : (_ <? _) = false |- _ => apply N.ltb_ge in E
  | E : (_ =? _) = true |- _ => apply N.eqb_eq in E
  | E : (_ =? _) = false |- _ => apply N.eqb_neq in E
  end; lia.
Qed.

(* the width is between 1 and 4 and never exceeds the input *)
Lemma decode_width b t c w : decode_rune (b :: t) = (c, w) -> 1 <= w <= 4 /\ w <= len_N (b :: t).
Proof.
  cbn [decode_rune]. rewrite !len_N_cons.
  destruct (b <? 128); [intros H; inversion H; lia|].
  destruct (utf8_first b) as [[[sz lo] hi]|]; [|intros H; inversion H; lia].
  destruct t as [|b1 t1]; [intros H; inversion H; lia|]. rewrite len_N_cons.
  destruct ((b1 <? lo) || (hi <? b1)); [intros H; inversion H; lia|].
  destruct (sz <=? 2); [intros H; inversion H; lia|].
  destruct t1 as [|b2 t2]; [intros H; inversion H; lia|]. rewrite len_N_cons.
  destruct (negb (is_cont b2)); [intros H; inversion H; lia|].
  destruct (sz <=? 3); [intros H; inversion H; lia|].
  destruct t2 as [|b3 t3]; [intros H; inversion H; lia|]. rewrite len_N_cons.
  destruct (negb (is_cont b3)); intros H; inversion H; lia.
Qed.

(* lia with every [_ mod _] and [_ / _] term abstracted (the facts about them are stated first) *)
Ltac abs_dm :=
  repeat match goal with
  | |- context [?a mod ?b] => let x := fresh "md" in set (x := a mod b) in *; clearbody x
  | H : context [?a mod ?b] |- _ => let x := fresh "md" in set (x := a mod b) in *; clearbody x
  | |- context [?a / ?b] => let x := fresh "dv" in set (x := a / b) in *; clearbody x
  | H : context [?a / ?b] |- _ => let x := fresh "dv" in set (x := a / b) in *; clearbody x
  end.
Ltac lia' := abs_dm; lia.

Lemma mod_lt a b : b <> 0 -> a mod b < b.
Proof. intros H. apply N.mod_lt. exact H. Qed.

(* a byte >= 0x80 never decodes to an ASCII rune; a multi-byte sequence consists of bytes >= 0x80;
   widths 2, 3 stay below 2^11, 2^16 *)
Lemma decode_nonascii b t c w : 128 <= b -> decode_rune (b :: t) = (c, w) ->
  128 <= c /\ (w = 2 -> c < 2048) /\ (w = 3 -> c < 65536) /\
  Forall (fun x => 128 <= x) (take w (b :: t)).
Proof.
  intros Hb. cbn [decode_rune].
  assert (Hlt : (b <? 128) = false) by (apply N.ltb_ge; exact Hb). rewrite Hlt.
  assert (Herr : 128 <= rune_error /\ (1 = 2 -> rune_error < 2048) /\ (1 = 3 -> rune_error < 65536) /\
                 Forall (fun x => 128 <= x) (take 1 (b :: t))).
  { unfold rune_error. split; [lia'|]. split; [lia'|]. split; [lia'|].
    change (take 1 (b :: t)) with [b]. constructor; [exact Hb|constructor]. }
  destruct (utf8_first b) as [[[sz lo] hi]|] eqn:Hf; [|intros H; inversion H; subst; exact Herr].
  apply utf8_first_cases in Hf. destruct Hf as (Hb2 & Hlo & Hhi & Hsz & H224 & H240).
  destruct t as [|b1 t1]; [intros H; inversion H; subst; exact Herr|].
  destruct ((b1 <? lo) || (hi <? b1)) eqn:Hr1; [intros H; inversion H; subst; exact Herr|].
  apply orb_false_iff in Hr1. destruct Hr1 as [Hr1 Hr2].
  apply N.ltb_ge in Hr1. apply N.ltb_ge in Hr2.
  assert (Hm32 := mod_lt b 32 ltac:(lia)). assert (Hm16 := mod_lt b 16 ltac:(lia)).
  assert (Hm8 := mod_lt b 8 ltac:(lia)). assert (Hm1 := mod_lt b1 64 ltac:(lia)).
  destruct (sz <=? 2) eqn:Hs2.
  { intros H; inversion H; subst. apply N.leb_le in Hs2.
    assert (Hq : b = 32 * (b / 32) + b mod 32) by (apply N.div_mod; lia').
    assert (2 <= b mod 32).
    { assert (b / 32 = 6). { symmetry; apply N.div_unique with (r := b - 192); lia'. }
      lia'. }
    split; [lia'|]. split; [lia'|]. split; [lia'|].
    change (take 2 (b :: b1 :: t1)) with [b; b1]. constructor; [lia'|constructor; [lia'|constructor]]. }
  destruct t1 as [|b2 t2]; [intros H; inversion H; subst; exact Herr|].
  destruct (is_cont b2) eqn:Hc2; cbn [negb]; [|intros H; inversion H; subst; exact Herr].
  unfold is_cont in Hc2. apply andb_true_iff in Hc2. destruct Hc2 as [Hc2a Hc2b].
  apply N.leb_le in Hc2a. apply N.leb_le in Hc2b.
  assert (Hm2 := mod_lt b2 64 ltac:(lia)).
  apply N.leb_gt in Hs2.
  destruct (sz <=? 3) eqn:Hs3.
  { intros H; inversion H; subst. apply N.leb_le in Hs3.
    assert (Hsz3 : 224 <= b < 240) by lia'.
    assert (Hq : b = 16 * (b / 16) + b mod 16) by (apply N.div_mod; lia').
    assert (Hd : b / 16 = 14). { symmetry; apply N.div_unique with (r := b - 224); lia'. }
    assert (Hq1 : b1 = 64 * (b1 / 64) + b1 mod 64) by (apply N.div_mod; lia').
    assert (128 <= b mod 16 * 4096 + b1 mod 64 * 64 + b2 mod 64).
    { destruct (N.eq_dec b 224) as [->|Hne].
      - (* 0xE0: the second byte is >= 0xA0 *)
        specialize (H224 eq_refl). subst lo.
        assert (b1 / 64 = 2). { symmetry; apply N.div_unique with (r := b1 - 128); lia'. }
        lia'.
      - assert (1 <= b mod 16) by lia'. lia'. }
    split; [lia'|]. split; [lia'|]. split; [lia'|].
    change (take 3 (b :: b1 :: b2 :: t2)) with [b; b1; b2].
    constructor; [lia'|constructor; [lia'|constructor; [lia'|constructor]]]. }
  destruct t2 as [|b3 t3]; [intros H; inversion H; subst; exact Herr|].
  destruct (is_cont b3) eqn:Hc3; cbn [negb]; [|intros H; inversion H; subst; exact Herr].
  unfold is_cont in Hc3. apply andb_true_iff in Hc3. destruct Hc3 as [Hc3a Hc3b].
  apply N.leb_le in Hc3a. apply N.leb_le in Hc3b.
  intros H; inversion H; subst. apply N.leb_gt in Hs3.
  assert (Hsz4 : 240 <= b < 245) by lia'.
  assert (Hq1 : b1 = 64 * (b1 / 64) + b1 mod 64) by (apply N.div_mod; lia').
  assert (Hd1 : b1 / 64 = 2). { symmetry; apply N.div_unique with (r := b1 - 128); lia'. }
  split; [|split; [lia'|split; [lia'|]]].
  - (* 128 <= c : needs b1 mod 64 >= 1 or b mod 8 >= 1; weaker: the sum of all parts *)
    assert (Hq : b = 8 * (b / 8) + b mod 8) by (apply N.div_mod; lia').
    assert (Hd : b / 8 = 30). { symmetry; apply N.div_unique with (r := b - 240); lia'. }
    destruct (N.eq_dec b 240) as [->|Hne].
    + specialize (H240 eq_refl). subst lo. lia'.
    + assert (1 <= b mod 8) by lia'. lia'.
  - change (take 4 (b :: b1 :: b2 :: b3 :: t3)) with [b; b1; b2; b3].
    constructor; [lia'|constructor; [lia'|constructor; [lia'|constructor; [lia'|constructor]]]].
Qed.

Lemma encode_len r :
  1 <= len_N (encode_rune r) <= 4 /\ (r < 128 -> len_N (encode_rune r) = 1) /\
  (r < 2048 -> len_N (encode_rune r) <= 2) /\ (r < 65536 -> len_N (encode_rune r) <= 3).
Proof.
  unfold encode_rune.
  destruct (r <? 128) eqn:E1; [apply N.ltb_lt in E1; cbn; lia|]. apply N.ltb_ge in E1.
  destruct (r <? 2048) eqn:E2; [apply N.ltb_lt in E2; unfold len_N; cbn [length]; lia|]. apply N.ltb_ge in E2.
  destruct (negb (valid_rune r)); [unfold len_N; cbn [length]; lia|].
  destruct (r <? 65536) eqn:E3; [apply N.ltb_lt in E3|apply N.ltb_ge in E3]; unfold len_N; cbn [length]; lia.
Qed.

(* the UTF-8 form of a decoded rune is never longer than what was consumed, except for an
   ill-formed byte (U+FFFD, width 1) *)
Lemma decode_encode_len s c w : s <> [] -> decode_rune s = (c, w) ->
  (c = rune_error /\ w = 1) \/ len_N (encode_rune c) <= w.
Proof.
  destruct s as [|b t]; [congruence|]. intros _ H.
  destruct (N.lt_ge_cases b 128) as [Hb|Hb].
  - rewrite decode_ascii in H by exact Hb. inversion H; subst. right.
    destruct (encode_len c) as (_ & H1 & _). rewrite H1; [lia|exact Hb].
  - destruct (decode_width _ _ _ _ H) as [Hw _].
    destruct (decode_nonascii _ _ _ _ Hb H) as (Hc & H2 & H3 & _).
    destruct (encode_len c) as (H4 & _ & H22 & H33).
    assert (Hcases : w = 1 \/ w = 2 \/ w = 3 \/ w = 4) by lia.
    destruct Hcases as [ -> | [ -> | [ -> | -> ] ] ].
    + (* width 1 with a byte >= 0x80 is the error rune *)
      left. split; [|reflexivity].
      revert H. cbn [decode_rune].
      assert (Hlt : (b <? 128) = false) by (apply N.ltb_ge; exact Hb). rewrite Hlt.
      destruct (utf8_first b) as [[[sz lo] hi]|]; [|intros H; inversion H; reflexivity].
      destruct t as [|b1 t1]; [intros H; inversion H; reflexivity|].
      destruct ((b1 <? lo) || (hi <? b1)); [intros H; inversion H; reflexivity|].
      destruct (sz <=? 2); [intros H; inversion H|].
      destruct t1 as [|b2 t2]; [intros H; inversion H; reflexivity|].
      destruct (negb (is_cont b2)); [intros H; inversion H; reflexivity|].
      destruct (sz <=? 3); [intros H; inversion H|].
      destruct t2 as [|b3 t3]; [intros H; inversion H; reflexivity|].
      destruct (negb (is_cont b3)); intros H; inversion H; reflexivity.
    + right. specialize (H2 eq_refl). lia.
    + right. specialize (H3 eq_refl). lia.
    + right. lia.
Qed.

(* ================================================================== *)
(* C. Reader primitives inside the domain                              *)

Definition in_dom (r : reader) (pos : N) : Prop :=
  bytes_ok (r_data r) /\ r_offset r <= pos /\ pos <= r_offset r + r_len r.
Definition rest (r : reader) (pos : N) : list N := suffix (r_data r) (pos - r_offset r).

Lemma len_rest r pos : r_offset r <= pos -> len_N (rest r pos) = r_offset r + r_len r - pos.
Proof. intros H. unfold rest. rewrite len_suffix. unfold r_len. lia. Qed.
Lemma rest_bytes_ok r pos : in_dom r pos -> bytes_ok (rest r pos).
Proof. intros (H & _). apply bytes_ok_suffix. exact H. Qed.
Lemma rest_advance r pos n : r_offset r <= pos -> rest r (pos + n) = drop n (rest r pos).
Proof.
  intros H. unfold rest. replace (pos + n - r_offset r) with (pos - r_offset r + n) by lia. apply suffix_drop.
Qed.
Lemma in_dom_advance r pos n : in_dom r pos -> n <= len_N (rest r pos) -> in_dom r (pos + n).
Proof.
  intros (Hb & Hlo & Hhi) Hn. rewrite len_rest in Hn by exact Hlo.
  split; [exact Hb|]. split; lia.
Qed.
Lemma rest_nil_iff r pos : r_offset r <= pos -> (r_len r <=? pos - r_offset r) = match rest r pos with [] => true | _ => false end.
Proof.
  intros H. pose proof (len_rest r pos H) as L.
  destruct (rest r pos) as [|b t].
  - rewrite len_N_nil in L. apply N.leb_le. lia.
  - rewrite len_N_cons in L. apply N.leb_gt. lia.
Qed.

Lemma index_rest r pos b t : rest r pos = b :: t -> index_N (r_data r) (pos - r_offset r) = Ok b.
Proof.
  unfold rest, index_N. intros H. rewrite suffix_nth, H. reflexivity.
Qed.
Lemma slice_from_rest r pos : in_dom r pos -> slice_from (r_data r) (pos - r_offset r) = Ok (rest r pos).
Proof.
  intros (_ & Hlo & Hhi). unfold slice_from, rest, suffix.
  assert (E : (pos - r_offset r <=? len_N (r_data r)) = true) by (apply N.leb_le; unfold r_len in Hhi; lia).
  rewrite E. reflexivity.
Qed.
Lemma slice_N_rest r pos n : in_dom r pos -> n <= len_N (rest r pos) ->
  slice_N (r_data r) (pos - r_offset r) (pos - r_offset r + n) = Ok (take n (rest r pos)).
Proof.
  intros (Hb & Hlo & Hhi) Hn. rewrite len_rest in Hn by exact Hlo. unfold slice_N, rest, suffix, take.
  assert (E1 : (pos - r_offset r <=? pos - r_offset r + n) = true) by (apply N.leb_le; lia).
  assert (E2 : (pos - r_offset r + n <=? len_N (r_data r)) = true) by (apply N.leb_le; unfold r_len in *; lia).
  rewrite E1, E2. cbn [andb]. do 3 f_equal. lia.
Qed.

(* ---- ReadRune ---- *)
Definition rune_at (s : list N) (ch : N) : option N :=       (* Some width = the rune is there *)
  match s with
  | [] => None
  | b :: _ => if ch <? 128 then (if b =? ch then Some 1 else None)
              else if fst (decode_rune s) =? ch then Some (snd (decode_rune s)) else None
  end.

Lemma int8_eq ch b : ch < 128 -> b < 256 -> Z.eqb (int8 ch) (int8 b) = (b =? ch).
Proof.
  intros Hc Hb. unfold int8. rewrite !N.mod_small by lia.
  destruct (b =? ch) eqn:E.
  - apply N.eqb_eq in E. subst. apply Z.eqb_refl.
  - apply N.eqb_neq in E. apply Z.eqb_neq.
    destruct (Z.of_N ch <? 128)%Z eqn:E1; destruct (Z.of_N b <? 128)%Z eqn:E2;
      try apply Z.ltb_lt in E1; try apply Z.ltb_ge in E1; try apply Z.ltb_lt in E2; try apply Z.ltb_ge in E2; lia.
Qed.

Lemma read_rune_spec r pos ch : in_dom r pos ->
  read_rune r pos ch = Ok (match rune_at (rest r pos) ch with Some w => (pos + w, true) | None => (pos, false) end).
Proof.
  intros D. pose proof D as (Hb & Hlo & Hhi). unfold read_rune.
  rewrite rest_nil_iff by exact Hlo.
  destruct (rest r pos) as [|b t] eqn:Hr; [reflexivity|].
  unfold rune_at. unfold rune_self.
  destruct (ch <? 128) eqn:Hc.
  - rewrite (index_rest _ _ _ _ Hr). cbn [bind].
    apply N.ltb_lt in Hc.
    assert (Hb256 : b < 256).
    { pose proof (rest_bytes_ok _ _ D) as Hk. rewrite Hr in Hk. apply bytes_ok_cons in Hk. tauto. }
    rewrite int8_eq by assumption.
    destruct (b =? ch); [|reflexivity]. unfold reader_pos. do 2 f_equal. lia.
  - rewrite slice_from_rest by exact D. cbn [bind]. rewrite Hr.
    destruct (decode_rune (b :: t)) as [c w]. cbn [fst snd].
    destruct (c =? ch); [|reflexivity]. unfold reader_pos. do 2 f_equal. lia.
Qed.

Lemma rune_at_width s ch w : rune_at s ch = Some w -> 1 <= w <= len_N s.
Proof.
  destruct s as [|b t]; cbn [rune_at]; [discriminate|].
  destruct (ch <? 128).
  - destruct (b =? ch); [|discriminate]. intros H; inversion H. rewrite len_N_cons. lia.
  - destruct (decode_rune (b :: t)) as [c x] eqn:E. cbn [fst snd].
    destruct (c =? ch); [|discriminate]. intros H; inversion H; subst.
    apply decode_width in E. lia.
Qed.

(* an ASCII rune is there iff the next byte is that byte *)
Lemma rune_at_ascii s ch : ch < 128 ->
  rune_at s ch = match s with b :: _ => if b =? ch then Some 1 else None | [] => None end.
Proof.
  intros H. destruct s as [|b t]; [reflexivity|]. cbn [rune_at]. apply N.ltb_lt in H. rewrite H. reflexivity.
Qed.

(* ---- MatchString / MatchWord ---- *)
Lemma has_prefix_nil l : has_prefix l [] = true.
Proof. destruct l; reflexivity. Qed.
Lemma has_prefix_len s p : has_prefix s p = true -> len_N p <= len_N s.
Proof.
  revert s; induction p as [|x p IH]; intros s H; [rewrite len_N_nil; lia|].
  destruct s as [|y s]; [discriminate|]. cbn [has_prefix] in H. apply andb_true_iff in H.
  rewrite !len_N_cons. specialize (IH s (proj2 H)). lia.
Qed.

Lemma match_string_spec r pos str : in_dom r pos -> str <> [] ->
  match_string r pos str = Ok (if has_prefix (rest r pos) str then (pos + len_N str, true) else (pos, false)).
Proof.
  intros D Hne. pose proof D as (Hb & Hlo & Hhi). unfold match_string.
  destruct str as [|c str']; [congruence|]. set (str := c :: str') in *.
  pose proof (len_rest r pos Hlo) as L. unfold r_len in L.
  destruct (len_N (r_data r) - (pos - r_offset r) <? len_N str) eqn:E.
  - apply N.ltb_lt in E.
    destruct (has_prefix (rest r pos) str) eqn:P; [|reflexivity].
    apply has_prefix_len in P. lia.
  - rewrite slice_from_rest by exact D. cbn [bind].
    destruct (has_prefix (rest r pos) str); [|reflexivity]. unfold reader_pos. do 2 f_equal. lia.
Qed.

(* the loop of MatchWord over an ASCII word that fits: compares byte by byte *)
Lemma word_loop_spec data cur w : forall i,
  Forall (fun b => b < 128) w -> len_N w <= len_N (suffix data (cur + i)) ->
  word_loop data cur i w = Ok (has_prefix (suffix data (cur + i)) w).
Proof.
  induction w as [|b w IH]; intros i Hw Hlen; [rewrite has_prefix_nil; reflexivity|].
  cbn [word_loop]. inversion Hw as [|? ? Hb Hw']; subst.
  unfold rune_self. assert (E : (128 <=? b) = false) by (apply N.leb_gt; exact Hb). rewrite E.
  destruct (suffix data (cur + i)) as [|d t] eqn:Hs.
  { rewrite len_N_nil, len_N_cons in Hlen. lia. }
  unfold index_N. rewrite suffix_nth, Hs. cbn [hd_error bind has_prefix].
  assert (Ht : t = suffix data (cur + (i + 1))).
  { replace (cur + (i + 1)) with (cur + i + 1) by lia. rewrite suffix_drop, Hs. reflexivity. }
  destruct (b =? d) eqn:Ebd; [|reflexivity]. cbn [andb].
  rewrite Ht. apply IH; [exact Hw'|]. rewrite <- Ht. rewrite !len_N_cons in Hlen. lia.
Qed.

Lemma word_loop_spec0 data cur w :
  Forall (fun b => b < 128) w -> len_N w <= len_N (suffix data cur) ->
  word_loop data cur 0 w = Ok (has_prefix (suffix data cur) w).
Proof.
  intros Hw Hl. pose proof (word_loop_spec data cur w 0 Hw) as H. rewrite N.add_0_r in H. apply H. exact Hl.
Qed.

Lemma has_prefix_skip s p : has_prefix s p = true -> skipn (length p) s = drop (len_N p) s.
Proof. intros _. unfold drop, len_N. rewrite Nat2N.id. reflexivity. Qed.

Lemma match_word_spec r pos w : in_dom r pos -> w <> [] -> Forall (fun b => b < 128) w ->
  match_word r pos w = Ok (if word_at w (rest r pos) then (pos + len_N w, true) else (pos, false)).
Proof.
  intros D Hne Hw. pose proof D as (Hb & Hlo & Hhi). unfold match_word.
  destruct w as [|c w']; [congruence|]. set (w := c :: w') in *.
  pose proof (len_rest r pos Hlo) as L. unfold r_len in L.
  unfold word_at.
  destruct (len_N (r_data r) - (pos - r_offset r) <? len_N w) eqn:E.
  - apply N.ltb_lt in E.
    destruct (has_prefix (rest r pos) w) eqn:P; [|reflexivity].
    apply has_prefix_len in P. lia.
  - apply N.ltb_ge in E.
    rewrite word_loop_spec0; [|exact Hw|fold (rest r pos); lia].
    fold (rest r pos). cbn [bind].
    destruct (has_prefix (rest r pos) w) eqn:P; cbn [negb andb]; [|reflexivity].
    assert (Hd : skipn (length w) (rest r pos) = rest r (pos + len_N w)).
    { rewrite rest_advance by exact Hlo. unfold drop, len_N. rewrite Nat2N.id. reflexivity. }
    rewrite Hd.
    pose proof (len_rest r (pos + len_N w) ltac:(lia)) as L2. unfold r_len in L2.
    destruct (len_N (r_data r) - (pos - r_offset r) - len_N w =? 0) eqn:E0.
    + apply N.eqb_eq in E0.
      destruct (rest r (pos + len_N w)) as [|d t]; [|rewrite len_N_cons in L2; lia].
      unfold reader_pos. do 2 f_equal. lia.
    + apply N.eqb_neq in E0.
      destruct (rest r (pos + len_N w)) as [|d t] eqn:Hr2; [rewrite len_N_nil in L2; lia|].
      replace (pos - r_offset r + len_N w) with (pos + len_N w - r_offset r) by lia.
      rewrite (index_rest _ _ _ _ Hr2). cbn [bind].
      destruct (is_word_char d); cbn [negb]; [reflexivity|]. unfold reader_pos. do 2 f_equal. lia.
Qed.

(* ---- ReadRegexp / Readf ---- *)
Lemma read_regexp_spec m r pos : in_dom r pos -> matcher_ok m ->
  read_regexp m r pos =
  Ok (match rest r pos with
      | [] => (pos, None)
      | _ => match m (rest r pos) with
             | None => (pos, None)
             | Some n => (pos + n, Some (take n (rest r pos)))
             end
      end).
Proof.
  intros D [M0 M1]. pose proof D as (Hb & Hlo & Hhi). unfold read_regexp.
  rewrite rest_nil_iff by exact Hlo.
  destruct (rest r pos) as [|b t] eqn:Hr; [reflexivity|].
  rewrite M0. rewrite slice_from_rest by exact D. cbn [bind]. rewrite Hr.
  destruct (m (b :: t)) as [n|] eqn:Hm; [|reflexivity].
  specialize (M1 _ _ Hm). rewrite <- Hr in *.
  rewrite slice_N_rest by assumption. cbn [bind]. unfold reader_pos. do 2 f_equal. lia.
Qed.

Lemma readf_spec f r pos : in_dom r pos -> callback_ok f ->
  readf f r pos =
  Ok (match rest r pos with
      | [] => (pos, None)
      | _ => if snd (f (rest r pos)) =? 0 then (pos, None) else (pos + snd (f (rest r pos)), fst (f (rest r pos)))
      end).
Proof.
  intros D C. pose proof D as (Hb & Hlo & Hhi). unfold readf.
  rewrite rest_nil_iff by exact Hlo.
  destruct (rest r pos) as [|b t] eqn:Hr; [reflexivity|].
  rewrite slice_from_rest by exact D. cbn [bind]. rewrite Hr.
  specialize (C (b :: t)). destruct (f (b :: t)) as [value next]. cbn [fst snd].
  destruct C as (C0 & C1 & C2).
  destruct (next =? 0) eqn:E0.
  - apply N.eqb_eq in E0. rewrite (C0 E0). reflexivity.
  - pose proof (len_rest r pos Hlo) as L. rewrite Hr in L.
    assert (E1 : (next <? len_opt value) = false) by (apply N.ltb_ge; exact C1).
    assert (E2 : (r_len r <? pos - r_offset r + next) = false) by (apply N.ltb_ge; lia).
    rewrite E1, E2. cbn [orb]. unfold reader_pos. do 2 f_equal. lia.
Qed.

(* ================================================================== *)
(* D. The regex matcher                                                *)

(* ---- D.1 every answer comes from the continuation applied to a suffix ---- *)
Definition sfx (t s : list N) : Prop := exists pre, s = pre ++ t.
Lemma sfx_refl s : sfx s s.
Proof. exists []. reflexivity. Qed.
Lemma sfx_trans a b c : sfx a b -> sfx b c -> sfx a c.
Proof. intros [p1 ->] [p2 ->]. exists (p2 ++ p1). apply app_assoc. Qed.
Lemma sfx_len t s : sfx t s -> len_N t <= len_N s.
Proof. intros [p ->]. rewrite len_N_app. lia. Qed.
Lemma sfx_nil t : sfx t [] -> t = [].
Proof. intros [p H]. symmetry in H. apply app_eq_nil in H. tauto. Qed.
Lemma sfx_drop n s : sfx (drop n s) s.
Proof. exists (take n s). symmetry. apply take_drop. Qed.
Lemma sfx_is_drop t s : sfx t s -> t = drop (len_N s - len_N t) s.
Proof.
  intros [p ->]. rewrite len_N_app. replace (len_N p + len_N t - len_N t) with (len_N p) by lia.
  symmetry. apply drop_app_exact.
Qed.

Lemma next_rune_sfx s c t : next_rune s = Some (c, t) -> sfx t s /\ len_N t < len_N s.
Proof.
  destruct s as [|b u]; [discriminate|]. unfold next_rune.
  destruct (decode_rune (b :: u)) as [c' w] eqn:E. intros H; inversion H; subst.
  apply decode_width in E. split; [apply (sfx_drop w)|].
  fold (drop w (b :: u)). rewrite len_drop. lia.
Qed.

Section MatcherFacts.
  Context {A : Type}.
  Notation cont := (@cont A).
  Notation stepper := (@stepper A).

  Definition step_sfx (step : stepper) : Prop :=
    forall s (k : cont) x, step s k = Some x -> exists t, sfx t s /\ k t = Some x.

  Lemma star_loop_sfx step : step_sfx step -> forall fuel, step_sfx (star_loop step fuel).
  Proof.
    intros Hs fuel. induction fuel as [|f IH]; intros s k x H; cbn [star_loop] in H.
    - exists s. split; [apply sfx_refl|exact H].
    - destruct (step s _) as [y|] eqn:E.
      + inversion H; subst. apply Hs in E. destruct E as (t & Ht & Hk).
        destruct (Nat.ltb (length t) (length s)); [|discriminate].
        apply IH in Hk. destruct Hk as (t' & Ht' & Hk'). exists t'. split; [|exact Hk'].
        eapply sfx_trans; eassumption.
      + exists s. split; [apply sfx_refl|exact H].
  Qed.

  Lemma rep_loop_sfx step : step_sfx step -> forall n, step_sfx (rep_loop step n).
  Proof.
    intros Hs n. induction n as [|n IH]; intros s k x H; cbn [rep_loop] in H.
    - exists s. split; [apply sfx_refl|exact H].
    - apply Hs in H. destruct H as (t & Ht & Hk). apply IH in Hk. destruct Hk as (t' & Ht' & Hk').
      exists t'. split; [|exact Hk']. eapply sfx_trans; eassumption.
  Qed.

  Lemma rmatch_sfx r : step_sfx (@rmatch A r).
  Proof.
    induction r as [|neg rs|a IHa b IHb|a IHa b IHb|a IHa|a IHa|a IHa|n a IHa|a IHa]; intros s k x H; cbn [rmatch] in H.
    - exists s. split; [apply sfx_refl|exact H].
    - destruct (next_rune s) as [[c t]|] eqn:E; [|discriminate].
      destruct (class_match neg rs c); [|discriminate].
      exists t. split; [|exact H]. apply next_rune_sfx in E. tauto.
    - apply IHa in H. destruct H as (t & Ht & Hk). apply IHb in Hk. destruct Hk as (t' & Ht' & Hk').
      exists t'. split; [|exact Hk']. eapply sfx_trans; eassumption.
    - destruct (rmatch a s k) as [y|] eqn:E.
      + inversion H; subst. apply IHa in E. exact E.
      + apply IHb in H. exact H.
    - apply (star_loop_sfx _ IHa) in H. exact H.
    - apply IHa in H. destruct H as (t & Ht & Hk). apply (star_loop_sfx _ IHa) in Hk.
      destruct Hk as (t' & Ht' & Hk'). exists t'. split; [|exact Hk']. eapply sfx_trans; eassumption.
    - destruct (rmatch a s k) as [y|] eqn:E.
      + inversion H; subst. apply IHa in E. exact E.
      + exists s. split; [apply sfx_refl|exact H].
    - apply (rep_loop_sfx _ IHa) in H. exact H.
    - apply IHa in H. exact H.
  Qed.

  (* an expression that is not nullable does not match the empty input *)
  Lemma rmatch_nil_nullable r : forall (k : cont) x, rmatch r [] k = Some x -> nullable r = true.
  Proof.
    induction r as [|neg rs|a IHa b IHb|a IHa b IHb|a IHa|a IHa|a IHa|n a IHa|a IHa]; intros k x H; cbn [rmatch] in H; cbn [nullable].
    - reflexivity.
    - discriminate.
    - pose proof (IHa _ _ H) as Na. apply rmatch_sfx in H. destruct H as (t & Ht & Hk).
      apply sfx_nil in Ht. subst. apply IHb in Hk. rewrite Na, Hk. reflexivity.
    - destruct (rmatch a [] k) as [y|] eqn:E.
      + apply IHa in E. rewrite E. reflexivity.
      + apply IHb in H. rewrite H. apply orb_true_r.
    - reflexivity.
    - apply IHa in H. exact H.
    - reflexivity.
    - destruct n as [|n]; [reflexivity|]. cbn [rep_loop] in H. apply IHa in H. exact H.
    - apply IHa in H. exact H.
  Qed.
End MatcherFacts.

(* FindIndex: the match is a prefix of the input; nothing matches the empty input unless the
   expression is nullable: [matcher_ok] of Reader.v *)
Lemma re_find_spec r s n : re_find r s = Some n ->
  n <= len_N s /\ rmatch r s (fun t => Some t) = Some (drop n s).
Proof.
  unfold re_find. destruct (rmatch r s (fun t => Some t)) as [t|] eqn:E; [|discriminate].
  intros H; inversion H; subst. pose proof E as E'. apply rmatch_sfx in E'. destruct E' as (t' & Ht & Hk).
  inversion Hk; subst. split; [lia|]. f_equal. apply sfx_is_drop. exact Ht.
Qed.

Lemma re_find_matcher_ok r : nullable r = false -> matcher_ok (re_find r).
Proof.
  intros Hn. split.
  - unfold re_find. destruct (rmatch r [] (fun t => Some t)) as [t|] eqn:E; [|reflexivity].
    apply rmatch_nil_nullable in E. congruence.
  - intros s n H. apply re_find_spec in H. tauto.
Qed.

(* from "what is left" to "how long": the form in which the fixed expressions are analysed *)
Lemma re_find_of_rest r (lex : list N -> option N) :
  (forall s, rmatch r s (fun t => Some t) = match lex s with Some n => Some (drop n s) | None => None end) ->
  (forall s n, lex s = Some n -> n <= len_N s) ->
  forall s, re_find r s = lex s.
Proof.
  intros H1 H2 s. unfold re_find. rewrite H1. destruct (lex s) as [n|] eqn:E; [|reflexivity].
  rewrite len_drop. specialize (H2 _ _ E). f_equal. lia.
Qed.

(* ---- D.2 stepping over classes ---- *)
Definition ascii_ranges (rs : list (N * N)) : Prop := Forall (fun lh => snd lh < 128) rs.

Lemma in_ranges_ascii rs c : ascii_ranges rs -> in_ranges rs c = true -> c < 128.
Proof.
  unfold ascii_ranges, in_ranges. induction rs as [|[lo hi] rs IH]; intros Ha H; cbn [existsb] in H; [discriminate|].
  inversion Ha as [|? ? Hhd Htl]; subst. cbn [fst snd] in *.
  apply orb_true_iff in H. destruct H as [H|H]; [|apply IH; assumption].
  apply andb_true_iff in H. destruct H as [_ H]. apply N.leb_le in H. lia.
Qed.

Section ClassSteps.
  Context {A : Type}.
  Notation cont := (@cont A).

  (* a class over an ASCII byte: the byte itself is the rune *)
  Lemma class_step_byte neg rs b t (k : cont) : b < 128 ->
    rmatch (RClass neg rs) (b :: t) k = if class_match neg rs b then k t else None.
  Proof.
    intros Hb. cbn [rmatch]. unfold next_rune. rewrite decode_ascii by exact Hb. reflexivity.
  Qed.

  (* a positive class of ASCII ranges: one byte, whatever the input *)
  Lemma class_step_ascii rs s (k : cont) : ascii_ranges rs ->
    rmatch (cls rs) s k = match s with b :: t => if in_ranges rs b then k t else None | [] => None end.
  Proof.
    intros Ha. destruct s as [|b t]; [reflexivity|]. unfold cls.
    destruct (N.lt_ge_cases b 128) as [Hb|Hb].
    - rewrite class_step_byte by exact Hb. unfold class_match. rewrite xorb_false_l. reflexivity.
    - cbn [rmatch]. unfold next_rune. destruct (decode_rune (b :: t)) as [c w] eqn:E.
      pose proof (decode_nonascii _ _ _ _ Hb E) as (Hc & _).
      unfold class_match. rewrite xorb_false_l.
      destruct (in_ranges rs c) eqn:E1; [apply in_ranges_ascii in E1; [lia|exact Ha]|].
      destruct (in_ranges rs b) eqn:E2; [apply in_ranges_ascii in E2; [lia|exact Ha]|].
      reflexivity.
  Qed.

  Lemma in_ranges_single c b : in_ranges [(c, c)] b = (b =? c).
  Proof.
    unfold in_ranges. cbn [existsb fst snd]. rewrite orb_false_r.
    destruct (N.eqb_spec b c) as [->|Hne].
    - rewrite N.leb_refl. reflexivity.
    - destruct (N.leb_spec c b); destruct (N.leb_spec b c); cbn; try reflexivity. lia.
  Qed.

  Lemma chr_step c s (k : cont) : c < 128 ->
    rmatch (chr c) s k = match s with b :: t => if b =? c then k t else None | [] => None end.
  Proof.
    intros Hc. unfold chr. fold (cls [(c, c)]). rewrite class_step_ascii.
    - destruct s as [|b t]; [reflexivity|]. rewrite in_ranges_single. reflexivity.
    - constructor; [cbn; exact Hc|constructor].
  Qed.

  (* greedy repetition of an ASCII class: the whole run is taken when the continuation accepts
     there, or cannot start with a byte of the class *)
  Fixpoint skip_while (p : N -> bool) (s : list N) : list N :=
    match s with b :: t => if p b then skip_while p t else s | [] => [] end.

  Lemma star_class rs (k : cont) : ascii_ranges rs -> forall s fuel, (length s < fuel)%nat ->
    (k (skip_while (in_ranges rs) s) <> None \/ (forall b t, in_ranges rs b = true -> k (b :: t) = None)) ->
    star_loop (rmatch (cls rs)) fuel s k = k (skip_while (in_ranges rs) s).
  Proof.
    intros Ha. induction s as [|b t IH]; intros fuel Hf Hk; (destruct fuel as [|f]; [inversion Hf|]); cbn [star_loop].
    - rewrite class_step_ascii by exact Ha. reflexivity.
    - rewrite class_step_ascii by exact Ha. cbn [skip_while] in *.
      destruct (in_ranges rs b) eqn:Eb; [|reflexivity].
      assert (El : Nat.ltb (length t) (length (b :: t)) = true) by (apply Nat.ltb_lt; cbn; lia).
      rewrite El. rewrite IH; [|cbn in Hf; lia|exact Hk].
      destruct (k (skip_while (in_ranges rs) t)) as [x|] eqn:Ek; [reflexivity|].
      destruct Hk as [Hk|Hk]; [congruence|]. apply Hk. exact Eb.
  Qed.
End ClassSteps.

Lemma skip_while_span p s : skip_while p s = drop (span p s) s.
Proof.
  induction s as [|b t IH]; cbn [skip_while span]; [reflexivity|].
  destruct (p b); [|reflexivity]. rewrite drop_succ. exact IH.
Qed.
(* ---- D.3 helpers for the fixed expressions ---- *)
Definition k_ok {A} (rs : list (N * N)) (k : @cont A) : Prop :=
  (forall u, k u <> None) \/ (forall b t, in_ranges rs b = true -> k (b :: t) = None).

Lemma k_ok_at {A} rs (k : @cont A) s : k_ok rs k ->
  k (skip_while (in_ranges rs) s) <> None \/ (forall b t, in_ranges rs b = true -> k (b :: t) = None).
Proof. intros [H|H]; [left; apply H|right; exact H]. Qed.

Lemma rstar_class {A} rs s (k : @cont A) : ascii_ranges rs -> k_ok rs k ->
  rmatch (RStar (cls rs)) s k = k (skip_while (in_ranges rs) s).
Proof.
  intros Ha Hk. cbn [rmatch]. apply star_class; [exact Ha|lia|apply k_ok_at; exact Hk].
Qed.

Lemma rplus_class {A} rs s (k : @cont A) : ascii_ranges rs -> k_ok rs k ->
  rmatch (RPlus (cls rs)) s k =
  match s with b :: t => if in_ranges rs b then k (skip_while (in_ranges rs) t) else None | [] => None end.
Proof.
  intros Ha Hk. cbn [rmatch]. rewrite class_step_ascii by exact Ha.
  destruct s as [|b t]; [reflexivity|]. destruct (in_ranges rs b); [|reflexivity].
  apply star_class; [exact Ha|lia|apply k_ok_at; exact Hk].
Qed.

Ltac ascii_side := repeat constructor; cbn; lia.

Ltac unf_classes :=
  unfold is_sign, is_digit, is_nzdigit, is_octal, is_hex, is_xX, is_eE, in_ranges,
         rs_sign, rs_digit, rs_nzdigit, rs_octal, rs_hex, rs_xX, rs_eE, rs_simple_esc in *;
  cbn [existsb fst snd] in *.
Ltac cmp_cases :=
  repeat match goal with
  | H : context [N.leb ?a ?b] |- _ => destruct (N.leb_spec a b)
  | |- context [N.leb ?a ?b] => destruct (N.leb_spec a b)
  | H : context [N.eqb ?a ?b] |- _ => destruct (N.eqb_spec a b)
  | |- context [N.eqb ?a ?b] => destruct (N.eqb_spec a b)
  | H : context [N.ltb ?a ?b] |- _ => destruct (N.ltb_spec a b)
  | |- context [N.ltb ?a ?b] => destruct (N.ltb_spec a b)
  end; cbn [andb orb negb] in *.
Ltac bool_lia := unf_classes; cmp_cases; try discriminate; try reflexivity; try lia.

Definition opt_rest (s : list N) (o : option N) : option (list N) :=
  match o with Some n => Some (drop n s) | None => None end.

Lemma span_zero_iff p s : span p s = 0 <-> match s with b :: _ => p b = false | [] => True end.
Proof.
  destruct s as [|b t]; cbn [span]; [tauto|]. destruct (p b); split; intros H; try reflexivity; try discriminate; lia.
Qed.

Lemma drop_succ2 n a b t : drop (2 + n) (a :: b :: t) = drop n t.
Proof. unfold drop. replace (N.to_nat (2 + n)) with (S (S (N.to_nat n))) by lia. reflexivity. Qed.

(* ---- Integer ---- *)
Definition re_uint : regex :=
  RAlt (RCat (cls rs_nzdigit) (RStar (cls rs_digit)))
  (RAlt (RCat (chr 48) (RCat (cls rs_xX) (RPlus (cls rs_hex))))
        (RCat (chr 48) (RStar (cls rs_octal)))).

Lemma k_some_ok rs : k_ok rs (fun t : list N => Some t).
Proof. left. intros u. discriminate. Qed.

Section RmEq.
  Context {A : Type}.
  Implicit Types k : @cont A.
  Lemma rm_cat a b s k : rmatch (RCat a b) s k = rmatch a s (fun t => rmatch b t k).
  Proof. reflexivity. Qed.
  Lemma rm_alt a b s k : rmatch (RAlt a b) s k = match rmatch a s k with Some x => Some x | None => rmatch b s k end.
  Proof. reflexivity. Qed.
  Lemma rm_opt a s k : rmatch (ROpt a) s k = match rmatch a s k with Some x => Some x | None => k s end.
  Proof. reflexivity. Qed.
End RmEq.

Lemma re_uint_rest t : rmatch re_uint t (fun u => Some u) = opt_rest t (uint_lexeme t).
Proof.
  destruct t as [|b u]; [reflexivity|].
  unfold re_uint. cbn [uint_lexeme].
  rewrite rm_alt, rm_cat, (class_step_ascii rs_nzdigit) by ascii_side. cbv beta.
  fold (is_nzdigit b). destruct (is_nzdigit b) eqn:Enz.
  - rewrite rstar_class by (ascii_side || apply k_some_ok).
    rewrite skip_while_span. cbn [opt_rest]. rewrite drop_succ. reflexivity.
  - rewrite rm_alt, !rm_cat, !chr_step by lia. cbv beta.
    destruct (b =? 48) eqn:E0; [|reflexivity].
    destruct u as [|x v].
    + reflexivity.
    + rewrite rm_cat, class_step_ascii by ascii_side. cbv beta. fold (is_xX x).
      rewrite rplus_class by (ascii_side || apply k_some_ok).
      rewrite rstar_class by (ascii_side || apply k_some_ok).
      rewrite !skip_while_span. fold is_hex is_octal.
      destruct (is_xX x) eqn:Ex; cbn [andb].
      * destruct (span is_hex v =? 0) eqn:Es; cbn [negb opt_rest].
        { apply N.eqb_eq in Es. apply span_zero_iff in Es.
          destruct v as [|h w]; [rewrite drop_succ; reflexivity|].
          unfold is_hex in Es. rewrite Es. rewrite drop_succ. reflexivity. }
        { apply N.eqb_neq in Es. destruct v as [|h w]; [cbn in Es; congruence|].
          cbn [span] in *. fold (is_hex h). destruct (is_hex h); [|congruence].
          rewrite drop_succ2, drop_succ, skip_while_span. reflexivity. }
      * cbn [opt_rest]. rewrite !drop_succ. reflexivity.
Qed.


Lemma some_inj {A} (a b : A) : Some a = Some b -> a = b.
Proof. congruence. Qed.

Lemma uint_lexeme_sign b t : is_sign b = true -> uint_lexeme (b :: t) = None.
Proof.
  intros H. cbn [uint_lexeme].
  assert (E1 : is_nzdigit b = false) by (revert H; bool_lia).
  assert (E2 : (b =? 48) = false) by (revert H; bool_lia).
  rewrite E1, E2. reflexivity.
Qed.

Lemma re_integer_rest s : rmatch re_integer s (fun u => Some u) = opt_rest s (int_lexeme s).
Proof.
  change re_integer with (RCat (ROpt (cls rs_sign)) re_uint).
  rewrite rm_cat, rm_opt, class_step_ascii by ascii_side.
  destruct s as [|b t]; [reflexivity|].
  unfold int_lexeme, sign_len. fold (is_sign b). destruct (is_sign b) eqn:Es.
  - rewrite !re_uint_rest. rewrite drop_1. rewrite (uint_lexeme_sign _ _ Es).
    destruct (uint_lexeme t) as [n|]; cbn [opt_rest]; [|reflexivity]. rewrite drop_succ. reflexivity.
  - rewrite re_uint_rest. rewrite drop_0. destruct (uint_lexeme (b :: t)) as [n|]; reflexivity.
Qed.

Lemma uint_lexeme_le s n : uint_lexeme s = Some n -> 1 <= n <= len_N s.
Proof.
  destruct s as [|b t]; cbn [uint_lexeme]; [discriminate|]. rewrite len_N_cons.
  destruct (is_nzdigit b).
  { intros HS; apply some_inj in HS; subst n. pose proof (span_le is_digit t). lia. }
  destruct (b =? 48); [|discriminate].
  destruct t as [|x u]; [intros HS; apply some_inj in HS; subst n; rewrite len_N_nil; lia|].
  destruct (is_xX x && negb (span is_hex u =? 0)); intros HS; apply some_inj in HS; subst n.
  - pose proof (span_le is_hex u). rewrite len_N_cons. lia.
  - pose proof (span_le is_octal (x :: u)). lia.
Qed.

Lemma sign_len_le s : sign_len s <= 1.
Proof. unfold sign_len. destruct s as [|b t]; [lia|]. destruct (is_sign b); lia. Qed.

Lemma int_lexeme_le s n : int_lexeme s = Some n -> 1 <= n <= len_N s.
Proof.
  unfold int_lexeme. destruct (uint_lexeme (drop (sign_len s) s)) as [m|] eqn:E; [|discriminate].
  intros HS; apply some_inj in HS; subst n. apply uint_lexeme_le in E. rewrite len_drop in E.
  pose proof (sign_len_le s). lia.
Qed.

Theorem re_integer_spec s : re_find re_integer s = int_lexeme s.
Proof.
  apply re_find_of_rest with (lex := int_lexeme).
  - intros s'. rewrite re_integer_rest. reflexivity.
  - intros s' n H. apply int_lexeme_le in H. lia.
Qed.

(* ---- Float ---- *)
Definition re_digits1 : regex := RPlus (cls rs_digit).

Lemma digits1_step {A} s (k : @cont A) : k_ok rs_digit k ->
  rmatch (RPlus (cls rs_digit)) s k =
  match s with b :: t => if is_digit b then k (drop (span is_digit t) t) else None | [] => None end.
Proof.
  intros Hk. rewrite rplus_class by (ascii_side || exact Hk).
  destruct s as [|b t]; [reflexivity|]. rewrite skip_while_span. reflexivity.
Qed.

(* (?:[eE][-+]?[0-9]+)? followed by acceptance: always succeeds *)
Lemma re_exponent_rest w :
  rmatch (ROpt re_exponent) w (fun u => Some u) = Some (drop (exp_len w) w).
Proof.
  rewrite rm_opt. unfold re_exponent. rewrite rm_cat, class_step_ascii by ascii_side.
  destruct w as [|e y]; [reflexivity|]. cbn [exp_len]. fold (is_eE e).
  destruct (is_eE e) eqn:Ee; [|reflexivity].
  rewrite rm_cat, rm_opt, class_step_ascii by ascii_side.
  unfold sign_len.
  destruct y as [|g z].
  - cbn. reflexivity.
  - fold (is_sign g). destruct (is_sign g) eqn:Eg.
    + rewrite !digits1_step by apply k_some_ok. rewrite drop_1.
      assert (Hg : is_digit g = false) by (revert Eg; bool_lia). rewrite Hg.
      destruct z as [|d z'].
      * cbn. reflexivity.
      * cbn [span]. destruct (is_digit d) eqn:Ed.
        { replace (1 + span is_digit z' =? 0) with false by (symmetry; apply N.eqb_neq; lia).
          replace (1 + 1 + (1 + span is_digit z')) with (1 + (1 + (1 + span is_digit z'))) by lia.
          rewrite !drop_succ. reflexivity. }
        { cbn. reflexivity. }
    + rewrite digits1_step by apply k_some_ok. rewrite drop_0. cbn [span].
      destruct (is_digit g) eqn:Ed.
      { replace (1 + span is_digit z =? 0) with false by (symmetry; apply N.eqb_neq; lia).
        replace (1 + 0 + (1 + span is_digit z)) with (1 + (1 + span is_digit z)) by lia.
        rewrite !drop_succ. reflexivity. }
      { cbn. reflexivity. }
Qed.

Definition re_ufloat : regex :=
  RCat (RStar (cls rs_digit)) (RCat (chr 46) (RCat (RPlus (cls rs_digit)) (ROpt re_exponent))).

Lemma k_exp_ok : k_ok rs_digit (fun w => rmatch (ROpt re_exponent) w (fun u => Some u)).
Proof. left. intros u. rewrite re_exponent_rest. discriminate. Qed.

Lemma re_ufloat_rest t : rmatch re_ufloat t (fun u => Some u) = opt_rest t (ufloat_lexeme t).
Proof.
  unfold re_ufloat. rewrite rm_cat. rewrite rstar_class; [|ascii_side|].
  2:{ right. intros b u Hb. rewrite rm_cat, chr_step by lia.
      replace (b =? 46) with false by (revert Hb; bool_lia). reflexivity. }
  rewrite skip_while_span. unfold ufloat_lexeme. change (in_ranges rs_digit) with is_digit.
  set (i := span is_digit t). pose proof (span_le is_digit t) as Hi. fold i in Hi.
  rewrite rm_cat, chr_step by lia.
  destruct (drop i t) as [|c v] eqn:Hd; [reflexivity|].
  destruct (c =? 46) eqn:Ec; [|reflexivity].
  rewrite rm_cat. rewrite digits1_step by apply k_exp_ok.
  destruct v as [|d w]; [reflexivity|]. cbn [span].
  destruct (is_digit d) eqn:Ed; [|reflexivity].
  replace (1 + span is_digit w =? 0) with false by (symmetry; apply N.eqb_neq; lia).
  rewrite re_exponent_rest. cbn [opt_rest]. f_equal.
  rewrite drop_succ.
  replace (i + 1 + (1 + span is_digit w) + exp_len (drop (span is_digit w) w))
    with (i + (1 + (1 + (span is_digit w + exp_len (drop (span is_digit w) w))))) by lia.
  rewrite <- (drop_drop _ i t). rewrite Hd. rewrite !drop_succ. rewrite drop_drop. reflexivity.
Qed.

Lemma ufloat_lexeme_sign b t : is_sign b = true -> ufloat_lexeme (b :: t) = None.
Proof.
  intros H. unfold ufloat_lexeme. cbn [span].
  assert (E1 : is_digit b = false) by (revert H; bool_lia). rewrite E1. rewrite drop_0.
  replace (b =? 46) with false by (revert H; bool_lia). reflexivity.
Qed.

Lemma re_float_rest s : rmatch re_float s (fun u => Some u) = opt_rest s (float_lexeme s).
Proof.
  change re_float with (RCat (ROpt (cls rs_sign)) re_ufloat).
  rewrite rm_cat, rm_opt, class_step_ascii by ascii_side.
  destruct s as [|b t]; [reflexivity|].
  unfold float_lexeme, sign_len. fold (is_sign b). destruct (is_sign b) eqn:Es.
  - rewrite !re_ufloat_rest. rewrite drop_1. rewrite (ufloat_lexeme_sign _ _ Es).
    destruct (ufloat_lexeme t) as [n|]; cbn [opt_rest]; [|reflexivity]. rewrite drop_succ. reflexivity.
  - rewrite re_ufloat_rest. rewrite drop_0. destruct (ufloat_lexeme (b :: t)) as [n|]; reflexivity.
Qed.

Lemma exp_len_le s : exp_len s <= len_N s.
Proof.
  destruct s as [|e t]; cbn [exp_len]; [lia|]. rewrite len_N_cons.
  destruct (is_eE e); [|lia].
  pose proof (span_le is_digit (drop (sign_len t) t)) as H. rewrite len_drop in H.
  pose proof (sign_len_le t) as H1.
  destruct (span is_digit (drop (sign_len t) t) =? 0) eqn:E; [lia|].
  apply N.eqb_neq in E.
  assert (sign_len t <= len_N t).
  { unfold sign_len. destruct t as [|g z]; [lia|]. rewrite len_N_cons. destruct (is_sign g); lia. }
  lia.
Qed.

Lemma ufloat_lexeme_le s n : ufloat_lexeme s = Some n -> 2 <= n <= len_N s.
Proof.
  unfold ufloat_lexeme. set (i := span is_digit s). pose proof (span_le is_digit s) as Hi. fold i in Hi.
  destruct (drop i s) as [|c v] eqn:Hd; [discriminate|].
  destruct (c =? 46); [|discriminate].
  destruct (span is_digit v =? 0) eqn:E; [discriminate|]. apply N.eqb_neq in E.
  intros HS; apply some_inj in HS; subst n.
  pose proof (span_le is_digit v) as Hv.
  pose proof (exp_len_le (drop (span is_digit v) v)) as He. rewrite len_drop in He.
  assert (Hl : len_N (drop i s) = 1 + len_N v) by (rewrite Hd; apply len_N_cons).
  rewrite len_drop in Hl. lia.
Qed.

Lemma float_lexeme_le s n : float_lexeme s = Some n -> 2 <= n <= len_N s.
Proof.
  unfold float_lexeme. destruct (ufloat_lexeme (drop (sign_len s) s)) as [m|] eqn:E; [|discriminate].
  intros HS; apply some_inj in HS; subst n. apply ufloat_lexeme_le in E. rewrite len_drop in E.
  pose proof (sign_len_le s). lia.
Qed.

Theorem re_float_spec s : re_find re_float s = float_lexeme s.
Proof.
  apply re_find_of_rest with (lex := float_lexeme).
  - intros s'. rewrite re_float_rest. reflexivity.
  - intros s' n H. apply float_lexeme_le in H. lia.
Qed.

(* ---- Char ---- *)
Section CharSteps.
  Context {A : Type}.
  Implicit Types k : @cont A.

  Lemma rm_rep n a s k : rmatch (RRep n a) s k = rep_loop (rmatch a) n s k.
  Proof. reflexivity. Qed.

  Lemma rep_class rs : ascii_ranges rs -> forall n s k,
    rep_loop (rmatch (cls rs)) n s k =
    if (n <=? length s)%nat && forallb (in_ranges rs) (firstn n s) then k (drop (N.of_nat n) s) else None.
  Proof.
    intros Ha. induction n as [|n IH]; intros s k.
    - cbn [rep_loop firstn forallb Nat.leb andb]. rewrite drop_0. reflexivity.
    - cbn [rep_loop]. rewrite class_step_ascii by exact Ha.
      destruct s as [|b t]; [reflexivity|].
      cbn [length Nat.leb firstn forallb].
      replace (N.of_nat (S n)) with (1 + N.of_nat n) by lia. rewrite drop_succ.
      destruct (in_ranges rs b); cbn [andb].
      + apply IH.
      + rewrite andb_false_r. reflexivity.
  Qed.

  (* [^q] for an ASCII q: any rune but q; an ASCII rune is its byte *)
  Lemma notchr_step q s k : q < 128 ->
    rmatch (RClass true [(q, q)]) s k =
    match s with
    | [] => None
    | c :: _ => if c =? q then None else k (drop (snd (decode_rune s)) s)
    end.
  Proof.
    intros Hq. destruct s as [|c t]; [reflexivity|]. cbn [rmatch]. unfold next_rune.
    destruct (decode_rune (c :: t)) as [c' w] eqn:E. cbn [snd]. fold (drop w (c :: t)).
    unfold class_match. rewrite in_ranges_single.
    assert (Hc : (c' =? q) = (c =? q)).
    { destruct (N.lt_ge_cases c 128) as [Hc|Hc].
      - rewrite decode_ascii in E by exact Hc. inversion E; subst. reflexivity.
      - pose proof (decode_nonascii _ _ _ _ Hc E) as (Hc' & _).
        destruct (N.eqb_spec c' q); destruct (N.eqb_spec c q); try reflexivity; lia. }
    rewrite Hc. destruct (c =? q); reflexivity.
  Qed.
End CharSteps.

Lemma all_hex_eq n u : all_hex n u = ((n <=? length u)%nat && forallb (in_ranges rs_hex) (firstn n u)).
Proof. reflexivity. Qed.

Lemma decode_width1 c t : 1 <= snd (decode_rune (c :: t)) <= len_N (c :: t).
Proof. destruct (decode_rune (c :: t)) as [c' w] eqn:E. apply decode_width in E. cbn [snd]. lia. Qed.

Lemma re_char_rest s : rmatch re_char s (fun u => Some u) = opt_rest s (char_body_len s).
Proof.
  destruct s as [|c t]; [reflexivity|].
  unfold re_char. cbn [char_body_len].
  rewrite !rm_alt, !rm_cat, !chr_step by lia. rewrite notchr_step by lia.
  destruct (c =? 92) eqn:E92.
  - apply N.eqb_eq in E92. subst c. cbn [N.eqb Pos.eqb].
    rewrite !rm_cat. rewrite class_step_ascii by ascii_side. rewrite !chr_step by lia.
    rewrite (decode_ascii 92 t) by lia. cbn [snd].
    destruct t as [|e u]; [reflexivity|].
    destruct (in_ranges rs_simple_esc e) eqn:Ee.
    { cbn [opt_rest]. reflexivity. }
    rewrite !rm_rep, !rep_class by ascii_side. rewrite <- !all_hex_eq.
    assert (D : forall n, (1 + (1 + N.of_nat n)) = N.of_nat (2 + n)) by (intros; lia).
    destruct (e =? 120) eqn:E1; cbn [andb].
    { destruct (all_hex 2 u) eqn:H2; cbn [opt_rest].
      - change (drop 4 (92 :: e :: u)) with (drop (N.of_nat 2) u). reflexivity.
      - destruct (e =? 117) eqn:E2; [apply N.eqb_eq in E1; apply N.eqb_eq in E2; lia|].
        destruct (e =? 85) eqn:E3; [apply N.eqb_eq in E1; apply N.eqb_eq in E3; lia|].
        cbn [andb opt_rest]. reflexivity. }
    destruct (e =? 117) eqn:E2; cbn [andb].
    { destruct (all_hex 4 u) eqn:H4; cbn [opt_rest].
      - change (drop 6 (92 :: e :: u)) with (drop (N.of_nat 4) u). reflexivity.
      - destruct (e =? 85) eqn:E3; [apply N.eqb_eq in E2; apply N.eqb_eq in E3; lia|].
        cbn [andb opt_rest]. reflexivity. }
    destruct (e =? 85) eqn:E3; cbn [andb].
    { destruct (all_hex 8 u) eqn:H8; cbn [opt_rest].
      - change (drop 10 (92 :: e :: u)) with (drop (N.of_nat 8) u). reflexivity.
      - reflexivity. }
    reflexivity.
  - destruct (c =? 39); reflexivity.
Qed.

Lemma char_body_len_le s n : char_body_len s = Some n -> 1 <= n <= len_N s.
Proof.
  destruct s as [|c t]; cbn [char_body_len]; [discriminate|].
  destruct (c =? 39); [discriminate|].
  pose proof (decode_width1 c t) as Hw.
  assert (Hone : Some (snd (decode_rune (c :: t))) = Some n -> 1 <= n <= len_N (c :: t)).
  { intros HS; apply some_inj in HS; subst n. exact Hw. }
  destruct (c =? 92); [|exact Hone].
  destruct t as [|e u]; [exact Hone|].
  rewrite !len_N_cons.
  assert (Hall : forall k, all_hex k u = true -> N.of_nat k <= len_N u).
  { intros k Hk. unfold all_hex in Hk. apply andb_true_iff in Hk. destruct Hk as [Hk _].
    apply Nat.leb_le in Hk. unfold len_N. lia. }
  destruct (in_ranges rs_simple_esc e); [intros HS; apply some_inj in HS; subst n; lia|].
  destruct ((e =? 120) && all_hex 2 u) eqn:E1.
  { apply andb_true_iff in E1. destruct E1 as [_ E1]. apply Hall in E1.
    intros HS; apply some_inj in HS; subst n. lia. }
  destruct ((e =? 117) && all_hex 4 u) eqn:E2.
  { apply andb_true_iff in E2. destruct E2 as [_ E2]. apply Hall in E2.
    intros HS; apply some_inj in HS; subst n. lia. }
  destruct ((e =? 85) && all_hex 8 u) eqn:E3.
  { apply andb_true_iff in E3. destruct E3 as [_ E3]. apply Hall in E3.
    intros HS; apply some_inj in HS; subst n. lia. }
  rewrite !len_N_cons in Hone. exact Hone.
Qed.

Theorem re_char_spec s : re_find re_char s = char_body_len s.
Proof.
  apply re_find_of_rest with (lex := char_body_len).
  - intros s'. rewrite re_char_rest. reflexivity.
  - intros s' n H. apply char_body_len_le in H. lia.
Qed.

(* ---- back-quoted body  [^`]+  ---- *)
Definition not_byte (q : N) (b : N) : bool := negb (b =? q).

Lemma skip_while_firstn p : forall (n : nat) s,
  Forall (fun x => p x = true) (firstn n s) -> skip_while p s = skip_while p (skipn n s).
Proof.
  induction n as [|n IH]; intros s H; [reflexivity|].
  destruct s as [|b t]; [reflexivity|]. cbn [firstn] in H. inversion H as [|? ? Hb Ht]; subst.
  cbn [skip_while skipn]. rewrite Hb. apply IH. exact Ht.
Qed.

(* the bytes of one decoded rune other than the ASCII byte q are all different from q *)
Lemma rune_bytes_not q c t : q < 128 -> (c =? q) = false ->
  Forall (fun x => not_byte q x = true) (take (snd (decode_rune (c :: t))) (c :: t)).
Proof.
  intros Hq Hc. destruct (N.lt_ge_cases c 128) as [H|H].
  - rewrite decode_ascii by exact H. cbn [snd]. change (take 1 (c :: t)) with [c].
    constructor; [unfold not_byte; rewrite Hc; reflexivity|constructor].
  - destruct (decode_rune (c :: t)) as [c' w] eqn:E. cbn [snd].
    pose proof (decode_nonascii _ _ _ _ H E) as (_ & _ & _ & Hall).
    eapply Forall_impl; [|exact Hall]. intros x Hx. cbv beta in *. unfold not_byte.
    destruct (N.eqb_spec x q); [lia|reflexivity].
Qed.

Lemma star_notchr q : q < 128 -> forall fuel s, (length s < fuel)%nat ->
  star_loop (rmatch (RClass true [(q, q)])) fuel s (fun u => Some u) = Some (skip_while (not_byte q) s).
Proof.
  intros Hq. induction fuel as [|f IH]; intros s Hf; [inversion Hf|].
  cbn [star_loop]. rewrite notchr_step by exact Hq.
  destruct s as [|c t]; [reflexivity|].
  cbn [skip_while]. unfold not_byte at 1.
  destruct (c =? q) eqn:Ec; cbn [negb]; [reflexivity|].
  pose proof (decode_width1 c t) as Hw. set (w := snd (decode_rune (c :: t))) in *.
  assert (Hl : Nat.ltb (length (drop w (c :: t))) (length (c :: t)) = true).
  { apply Nat.ltb_lt. pose proof (len_drop w (c :: t)) as L. unfold len_N in *. lia. }
  rewrite Hl. rewrite IH.
  2:{ pose proof (len_drop w (c :: t)) as L. unfold len_N in *. cbn [length] in *. lia. }
  f_equal. pose proof (rune_bytes_not q c t Hq Ec) as Hall. fold w in Hall.
  pose proof (skip_while_firstn (not_byte q) (N.to_nat w) (c :: t) Hall) as Hs.
  cbn [skip_while] in Hs. unfold not_byte at 1 in Hs. rewrite Ec in Hs. cbn [negb] in Hs.
  symmetry. exact Hs.
Qed.

Lemma rm_plus {A} a s (k : @cont A) :
  rmatch (RPlus a) s k = rmatch a s (fun t => star_loop (rmatch a) (S (length t)) t k).
Proof. reflexivity. Qed.
Lemma rm_star {A} a s (k : @cont A) : rmatch (RStar a) s k = star_loop (rmatch a) (S (length s)) s k.
Proof. reflexivity. Qed.

Definition bq_lexeme (s : list N) : option N :=
  let m := span (not_byte 96) s in if m =? 0 then None else Some m.

Lemma re_backquote_rest s : rmatch re_backquote s (fun u => Some u) = opt_rest s (bq_lexeme s).
Proof.
  unfold re_backquote. rewrite rm_plus. rewrite notchr_step by lia.
  unfold bq_lexeme. destruct s as [|c t]; [reflexivity|]. cbn [span].
  destruct (c =? 96) eqn:Ec.
  { assert (Hnb : not_byte 96 c = false) by (unfold not_byte; rewrite Ec; reflexivity). rewrite Hnb. reflexivity. }
  assert (Hnb : not_byte 96 c = true) by (unfold not_byte; rewrite Ec; reflexivity). rewrite Hnb.
  replace (1 + span (not_byte 96) t =? 0) with false by (symmetry; apply N.eqb_neq; lia).
  cbn [opt_rest]. rewrite star_notchr by lia.
  f_equal.
  pose proof (rune_bytes_not 96 c t ltac:(lia) Ec) as Hall.
  pose proof (skip_while_firstn (not_byte 96) _ (c :: t) Hall) as Hs.
  fold (drop (snd (decode_rune (c :: t))) (c :: t)) in Hs. rewrite <- Hs.
  rewrite skip_while_span. cbn [span]. rewrite Hnb. reflexivity.
Qed.

Lemma bq_lexeme_le s n : bq_lexeme s = Some n -> 1 <= n <= len_N s.
Proof.
  unfold bq_lexeme. pose proof (span_le (not_byte 96) s).
  destruct (span (not_byte 96) s =? 0) eqn:E; [discriminate|]. apply N.eqb_neq in E.
  intros HS; apply some_inj in HS; subst n. lia.
Qed.

Theorem re_backquote_spec s : re_find re_backquote s = bq_lexeme s.
Proof.
  apply re_find_of_rest with (lex := bq_lexeme).
  - intros s'. rewrite re_backquote_rest. reflexivity.
  - intros s' n H. apply bq_lexeme_le in H. lia.
Qed.

(* ---- Duration ---- *)
(* a rune in [0x80, 0x7FF] is decoded only from its own two-byte encoding *)
Lemma decode_two_bytes b t c w : 128 <= c < 2048 -> decode_rune (b :: t) = (c, w) ->
  exists t1, t = (128 + c mod 64) :: t1 /\ b = 192 + c / 64 /\ w = 2.
Proof.
  intros Hc. destruct (N.lt_ge_cases b 128) as [Hb|Hb].
  { rewrite decode_ascii by exact Hb. intros H; inversion H; subst. lia. }
  cbn [decode_rune].
  assert (Hlt : (b <? 128) = false) by (apply N.ltb_ge; exact Hb). rewrite Hlt.
  assert (Herr : forall x, (rune_error, x) = (c, w) -> exists t1, t = (128 + c mod 64) :: t1 /\ b = 192 + c / 64 /\ w = 2).
  { intros x H. inversion H; subst. unfold rune_error in Hc. lia. }
  destruct (utf8_first b) as [[[sz lo] hi]|] eqn:Hf; [|apply Herr].
  apply utf8_first_cases in Hf. destruct Hf as (Hb2 & Hlo & Hhi & Hsz & H224 & H240).
  destruct t as [|b1 t1]; [apply Herr|].
  destruct ((b1 <? lo) || (hi <? b1)) eqn:Hr1; [apply Herr|].
  apply orb_false_iff in Hr1. destruct Hr1 as [Hr1 Hr2].
  apply N.ltb_ge in Hr1. apply N.ltb_ge in Hr2.
  assert (Hq1 : b1 = 64 * (b1 / 64) + b1 mod 64) by (apply N.div_mod; lia).
  assert (Hm1 := mod_lt b1 64 ltac:(lia)).
  assert (Hd1 : b1 / 64 = 2). { symmetry; apply N.div_unique with (r := b1 - 128); lia. }
  destruct (sz <=? 2) eqn:Hs2.
  { apply N.leb_le in Hs2. intros H; inversion H; subst. clear H.
    assert (Hq : b = 32 * (b / 32) + b mod 32) by (apply N.div_mod; lia).
    assert (Hm := mod_lt b 32 ltac:(lia)).
    assert (Hd : b / 32 = 6). { symmetry; apply N.div_unique with (r := b - 192); lia. }
    assert (Hbm : b mod 32 = b - 192) by lia'.
    assert (Hb1m : b1 mod 64 = b1 - 128) by lia'.
    rewrite Hbm, Hb1m in *.
    assert (Hcd : (b - 192) * 64 + (b1 - 128) = 64 * (b - 192) + (b1 - 128)) by lia.
    assert (Hdiv : ((b - 192) * 64 + (b1 - 128)) / 64 = b - 192).
    { symmetry. apply N.div_unique with (r := b1 - 128); lia. }
    assert (Hmod : ((b - 192) * 64 + (b1 - 128)) mod 64 = b1 - 128).
    { symmetry. apply N.mod_unique with (q := b - 192); lia. }
    rewrite Hdiv, Hmod. exists t1. split; [f_equal; lia|]. split; [lia|reflexivity]. }
  apply N.leb_gt in Hs2.
  destruct t1 as [|b2 t2]; [apply Herr|].
  destruct (is_cont b2) eqn:Hc2; cbn [negb]; [|apply Herr].
  assert (Hm2 := mod_lt b2 64 ltac:(lia)).
  destruct (sz <=? 3) eqn:Hs3.
  { apply N.leb_le in Hs3. intros H; inversion H; subst. exfalso.
    assert (Hq : b = 16 * (b / 16) + b mod 16) by (apply N.div_mod; lia).
    assert (Hd : b / 16 = 14). { symmetry; apply N.div_unique with (r := b - 224); lia. }
    assert (Hm := mod_lt b 16 ltac:(lia)).
    destruct (N.eq_dec b 224) as [->|Hne].
    - specialize (H224 eq_refl). subst lo. lia'.
    - assert (1 <= b mod 16) by lia'. lia'. }
  apply N.leb_gt in Hs3.
  destruct t2 as [|b3 t3]; [apply Herr|].
  destruct (is_cont b3) eqn:Hc3; cbn [negb]; [|apply Herr].
  intros H; inversion H; subst. exfalso.
  assert (Hq : b = 8 * (b / 8) + b mod 8) by (apply N.div_mod; lia).
  assert (Hd : b / 8 = 30). { symmetry; apply N.div_unique with (r := b - 240); lia. }
  assert (Hm := mod_lt b 8 ltac:(lia)).
  destruct (N.eq_dec b 240) as [->|Hne].
  - specialize (H240 eq_refl). subst lo. lia'.
  - assert (1 <= b mod 8) by lia'. lia'.
Qed.

Section UnitSteps.
  Context {A : Type}.
  Implicit Types k : @cont A.

  (* a literal rune of two bytes b0 b1 *)
  Lemma chr2_step c0 b0 b1 s k : 128 <= c0 < 2048 -> b0 = 192 + c0 / 64 -> b1 = 128 + c0 mod 64 ->
    (forall t, decode_rune (b0 :: b1 :: t) = (c0, 2)) ->
    rmatch (chr c0) s k = if has_prefix s [b0; b1] then k (drop 2 s) else None.
  Proof.
    intros Hc H0 H1 Hdec. unfold chr. cbn [rmatch]. unfold next_rune.
    destruct s as [|x t]; [reflexivity|].
    destruct (decode_rune (x :: t)) as [c w] eqn:E. unfold class_match. rewrite in_ranges_single, xorb_false_l.
    destruct (c =? c0) eqn:Ec.
    - apply N.eqb_eq in Ec. subst c. apply decode_two_bytes in E; [|exact Hc].
      destruct E as (t1 & -> & -> & ->). rewrite <- H0, <- H1. cbn [has_prefix].
      rewrite !N.eqb_refl. destruct t1; reflexivity.
    - destruct (has_prefix (x :: t) [b0; b1]) eqn:P; [|reflexivity]. exfalso.
      cbn [has_prefix] in P. destruct t as [|y t1]; [rewrite andb_false_r in P; discriminate|].
      apply andb_true_iff in P. destruct P as [P0 P1].
      apply andb_true_iff in P1. destruct P1 as [P1 _].
      apply N.eqb_eq in P0. apply N.eqb_eq in P1. subst x y.
      rewrite Hdec in E. inversion E; subst. rewrite N.eqb_refl in Ec. discriminate.
  Qed.

  Lemma two_chr_step a0 c0 s k : a0 < 128 -> c0 < 128 ->
    rmatch (RCat (chr a0) (chr c0)) s k = if has_prefix s [a0; c0] then k (drop 2 s) else None.
  Proof.
    intros Ha Hc. rewrite rm_cat, chr_step by exact Ha.
    destruct s as [|x [|y u]]; cbn [has_prefix]; [reflexivity| |].
    - rewrite andb_false_r. destruct (x =? a0); [|reflexivity]. rewrite chr_step by exact Hc. reflexivity.
    - rewrite (N.eqb_sym a0 x). destruct (x =? a0); cbn [andb]; [|reflexivity].
      rewrite chr_step by exact Hc.
      rewrite (N.eqb_sym c0 y). destruct (y =? c0); cbn [andb]; [|reflexivity].
      destruct u; reflexivity.
  Qed.

  Lemma one_chr_step a0 s k : a0 < 128 ->
    rmatch (chr a0) s k = if has_prefix s [a0] then k (drop 1 s) else None.
  Proof.
    intros Ha. rewrite chr_step by exact Ha.
    destruct s as [|x t]; [reflexivity|]. cbn [has_prefix]. rewrite (N.eqb_sym a0 x).
    destruct (x =? a0); cbn [andb]; [|reflexivity]. destruct t; reflexivity.
  Qed.

  Lemma chr2_chr_step c0 b0 b1 a0 s k : 128 <= c0 < 2048 -> b0 = 192 + c0 / 64 -> b1 = 128 + c0 mod 64 ->
    (forall t, decode_rune (b0 :: b1 :: t) = (c0, 2)) -> a0 < 128 ->
    rmatch (RCat (chr c0) (chr a0)) s k = if has_prefix s [b0; b1; a0] then k (drop 3 s) else None.
  Proof.
    intros Hc H0 H1 Hdec Ha. rewrite rm_cat, (chr2_step c0 b0 b1) by assumption.
    destruct s as [|x [|y [|z u]]]; cbn [has_prefix]; try reflexivity.
    - rewrite !andb_false_r. reflexivity.
    - rewrite !andb_false_r. cbn [andb]. destruct ((b0 =? x) && ((b1 =? y) && true)); reflexivity.
    - destruct (b0 =? x); cbn [andb]; [|reflexivity].
      destruct (b1 =? y); cbn [andb]; [|reflexivity].
      change (drop 2 (x :: y :: z :: u)) with (z :: u). rewrite chr_step by exact Ha.
      rewrite (N.eqb_sym a0 z). destruct (z =? a0); cbn [andb]; [|reflexivity]. destruct u; reflexivity.
  Qed.

  (* the unit alternation: the first alternative that matches wins when the continuation
     accepts behind it; no alternative: failure *)
  Lemma re_unit_step v k :
    (unit_len v = 0 -> rmatch re_unit v k = None) /\
    (unit_len v <> 0 -> k (drop (unit_len v) v) <> None -> rmatch re_unit v k = k (drop (unit_len v) v)).
  Proof.
    unfold re_unit, unit_len. cbn [rstr]. rewrite !rm_alt.
    rewrite (chr2_chr_step 181 194 181) by (reflexivity || lia).
    rewrite (chr2_chr_step 956 206 188) by (reflexivity || lia).
    rewrite !two_chr_step by lia. rewrite !one_chr_step by lia.
    repeat match goal with
    | |- context [if has_prefix v ?p then _ else _] => destruct (has_prefix v p)
    end; cbv iota;
    (split; [intros H; try reflexivity; try (exfalso; lia)
            |intros Hne Hk; try congruence;
             match goal with |- match ?x with Some _ => _ | None => _ end = _ => destruct x; [reflexivity|congruence] end]).
  Qed.

  Lemma unit_len_digit b t : is_digit b = true -> unit_len (b :: t) = 0.
  Proof.
    intros H. unfold unit_len. cbn [has_prefix].
    replace (110 =? b) with false by (revert H; bool_lia).
    replace (117 =? b) with false by (revert H; bool_lia).
    replace (194 =? b) with false by (revert H; bool_lia).
    replace (206 =? b) with false by (revert H; bool_lia).
    replace (109 =? b) with false by (revert H; bool_lia).
    replace (115 =? b) with false by (revert H; bool_lia).
    replace (104 =? b) with false by (revert H; bool_lia).
    reflexivity.
  Qed.
End UnitSteps.

Lemma has_prefix_len' s p : has_prefix s p = true -> len_N p <= len_N s.
Proof. apply has_prefix_len. Qed.

Lemma unit_len_le v : unit_len v <= len_N v.
Proof.
  unfold unit_len.
  repeat match goal with
  | |- context [if has_prefix v ?p then _ else _] =>
    let E := fresh "E" in destruct (has_prefix v p) eqn:E; [apply has_prefix_len in E; unfold len_N in *; cbn [length] in *; lia|]
  end. lia.
Qed.

Lemma frac_len_le s : frac_len s <= len_N s.
Proof.
  destruct s as [|b t]; cbn [frac_len]; [lia|]. rewrite len_N_cons. pose proof (span_le is_digit t).
  destruct ((b =? 46) && negb (span is_digit t =? 0)); lia.
Qed.

Lemma dur_item_len_le s : dur_item_len s <= len_N s.
Proof.
  unfold dur_item_len. pose proof (span_le is_digit s) as Hd. set (d := span is_digit s) in *.
  destruct (d =? 0); [lia|].
  pose proof (frac_len_le (drop d s)) as Hf. rewrite len_drop in Hf. set (f := frac_len (drop d s)) in *.
  pose proof (unit_len_le (drop (d + f) s)) as Hu. rewrite len_drop in Hu.
  destruct (unit_len (drop (d + f) s) =? 0); lia.
Qed.

Lemma dur_items_fuel : forall f1 f2 s, (length s <= f1)%nat -> (length s <= f2)%nat ->
  dur_items_len f1 s = dur_items_len f2 s.
Proof.
  induction f1 as [|k1 IH]; intros f2 s H1 H2.
  - destruct s; [|cbn in H1; lia]. destruct f2; reflexivity.
  - destruct f2 as [|k2].
    + destruct s; [|cbn in H2; lia]. reflexivity.
    + cbn [dur_items_len]. destruct (dur_item_len s =? 0) eqn:E; [reflexivity|].
      apply N.eqb_neq in E. f_equal.
      pose proof (dur_item_len_le s) as Hle.
      pose proof (len_drop (dur_item_len s) s) as Hl. unfold len_N in Hl, Hle.
      apply IH; lia.
Qed.

Lemma dur_items_len_le : forall fuel s, dur_items_len fuel s <= len_N s.
Proof.
  induction fuel as [|k IH]; intros s; cbn [dur_items_len]; [lia|].
  destruct (dur_item_len s =? 0); [lia|].
  pose proof (dur_item_len_le s). specialize (IH (drop (dur_item_len s) s)). rewrite len_drop in IH. lia.
Qed.

Lemma unit_len_dot v : unit_len (46 :: v) = 0.
Proof. reflexivity. Qed.

Lemma re_dur_item_step {A} t (k : @cont A) :
  (forall t', len_N t' < len_N t -> k t' <> None) ->
  rmatch re_dur_item t k = if dur_item_len t =? 0 then None else k (drop (dur_item_len t) t).
Proof.
  intros Hk. unfold re_dur_item. rewrite rm_cat.
  assert (Hrej : forall (k' : @cont A) b u, is_digit b = true -> rmatch re_unit (b :: u) k' = None).
  { intros k' b u Hb. apply (proj1 (re_unit_step _ _)). apply unit_len_digit. exact Hb. }
  rewrite digits1_step.
  2:{ right. intros b u Hb. rewrite rm_cat, rm_opt, rm_cat, chr_step by lia.
      replace (b =? 46) with false by (revert Hb; bool_lia). apply Hrej. exact Hb. }
  unfold dur_item_len.
  destruct t as [|b t1]; [reflexivity|]. cbn [span].
  destruct (is_digit b) eqn:Eb; [|reflexivity].
  replace (1 + span is_digit t1 =? 0) with false by (symmetry; apply N.eqb_neq; lia).
  set (d := span is_digit t1). rewrite drop_succ.
  assert (Hdd : forall x, drop (1 + d + x) (b :: t1) = drop x (drop d t1)).
  { intros x. replace (1 + d + x) with (1 + (d + x)) by lia. rewrite drop_succ, drop_drop. reflexivity. }
  rewrite !Hdd.
  pose proof (span_le is_digit t1) as Hd. fold d in Hd.
  assert (Hl2 : len_N (drop d t1) < len_N (b :: t1)) by (rewrite len_drop, len_N_cons; lia).
  set (t2 := drop d t1) in *.
  assert (RHS : forall f u,
    (if (if u =? 0 then 0 else 1 + d + f + u) =? 0 then None
     else k (drop (if u =? 0 then 0 else 1 + d + f + u) (b :: t1))) =
    (if u =? 0 then None else k (drop u (drop f t2)))).
  { intros f u. destruct (u =? 0) eqn:E; [reflexivity|].
    replace (1 + d + f + u =? 0) with false by (symmetry; apply N.eqb_neq; lia).
    replace (1 + d + f + u) with (1 + d + (f + u)) by lia. rewrite Hdd, drop_drop. reflexivity. }
  rewrite RHS. clear RHS Hdd.
  (* the continuation of the fraction and of the bare digits: the unit, then k *)
  assert (Hunit : forall v, len_N v <= len_N t2 ->
            rmatch re_unit v k = if unit_len v =? 0 then None else k (drop (unit_len v) v)).
  { intros v Hv. destruct (unit_len v =? 0) eqn:Eu.
    - apply N.eqb_eq in Eu. apply (proj1 (re_unit_step v k)). exact Eu.
    - apply N.eqb_neq in Eu. apply (proj2 (re_unit_step v k)); [exact Eu|].
      apply Hk. rewrite len_drop. lia. }
  clearbody t2. clear Hd d.
  rewrite rm_cat, rm_opt, rm_cat, chr_step by lia.
  destruct t2 as [|c v].
  { cbn [frac_len]. rewrite drop_0. rewrite Hunit by lia. reflexivity. }
  cbn [frac_len].
  destruct (c =? 46) eqn:Ec; cbn [andb].
  2:{ rewrite drop_0. rewrite Hunit by lia. reflexivity. }
  apply N.eqb_eq in Ec. subst c.
  rewrite digits1_step.
  2:{ right. intros b' u Hb'. apply Hrej. exact Hb'. }
  destruct v as [|dd w].
  { cbn [span N.eqb negb]. rewrite drop_0. rewrite Hunit by lia. rewrite unit_len_dot. reflexivity. }
  cbn [span]. destruct (is_digit dd) eqn:Edd.
  - replace (1 + span is_digit w =? 0) with false by (symmetry; apply N.eqb_neq; lia). cbn [negb].
    set (e := span is_digit w). pose proof (span_le is_digit w) as He. fold e in He.
    replace (drop (1 + (1 + e)) (46 :: dd :: w)) with (drop e w).
    2:{ rewrite !drop_succ. reflexivity. }
    rewrite Hunit by (rewrite len_drop, !len_N_cons; lia).
    destruct (unit_len (drop e w) =? 0) eqn:Eu.
    + rewrite Hunit by lia. rewrite unit_len_dot. reflexivity.
    + destruct (k (drop (unit_len (drop e w)) (drop e w))) eqn:Ek; [reflexivity|].
      exfalso. apply N.eqb_neq in Eu. revert Ek. apply Hk. rewrite !len_drop, !len_N_cons in *. lia.
  - cbn [N.eqb negb]. rewrite drop_0. rewrite Hunit by lia. rewrite unit_len_dot. reflexivity.
Qed.

Lemma nat_lt_len (a b : list N) : len_N a < len_N b <-> (length a < length b)%nat.
Proof. unfold len_N. lia. Qed.

(* the loop over items: as many items as there are *)
Lemma dur_items_loop : forall fuel u, (length u < fuel)%nat ->
  star_loop (rmatch re_dur_item) fuel u (fun t => Some t) = Some (drop (dur_items_len (length u) u) u).
Proof.
  induction fuel as [|f IH]; intros u Hf; [inversion Hf|].
  cbn [star_loop]. rewrite re_dur_item_step.
  2:{ intros t' Ht'. apply nat_lt_len in Ht'. assert (E : Nat.ltb (length t') (length u) = true) by (apply Nat.ltb_lt; exact Ht').
      rewrite E. rewrite IH by lia. discriminate. }
  destruct (dur_item_len u =? 0) eqn:En.
  - destruct u as [|x u']; [reflexivity|]. cbn [length dur_items_len]. rewrite En. reflexivity.
  - apply N.eqb_neq in En. pose proof (dur_item_len_le u) as Hle.
    set (n := dur_item_len u) in *.
    assert (Hlen : (length (drop n u) < length u)%nat).
    { pose proof (len_drop n u) as L. unfold len_N in *. lia. }
    assert (E : Nat.ltb (length (drop n u)) (length u) = true) by (apply Nat.ltb_lt; exact Hlen).
    rewrite E. rewrite IH by lia.
    destruct u as [|x u']; [cbn in Hlen; lia|]. cbn [length dur_items_len]. fold n.
    replace (n =? 0) with false by (symmetry; apply N.eqb_neq; exact En).
    rewrite <- drop_drop. do 2 f_equal.
    apply dur_items_fuel; [lia|cbn [length] in Hlen; lia].
Qed.

Definition udur_lexeme (t : list N) : option N :=
  let n := dur_items_len (length t) t in if n =? 0 then None else Some n.

Lemma re_udur_rest t : rmatch (RPlus re_dur_item) t (fun u => Some u) = opt_rest t (udur_lexeme t).
Proof.
  rewrite rm_plus. rewrite re_dur_item_step.
  2:{ intros t' _. rewrite dur_items_loop by lia. discriminate. }
  unfold udur_lexeme.
  destruct t as [|x t']; [reflexivity|]. cbn [length dur_items_len].
  destruct (dur_item_len (x :: t') =? 0) eqn:En; [reflexivity|].
  apply N.eqb_neq in En. set (n := dur_item_len (x :: t')) in *.
  rewrite dur_items_loop by lia.
  replace (n + dur_items_len (length t') (drop n (x :: t')) =? 0) with false by (symmetry; apply N.eqb_neq; lia).
  cbn [opt_rest]. rewrite <- drop_drop. do 2 f_equal.
  pose proof (dur_item_len_le (x :: t')) as Hle. fold n in Hle.
  pose proof (len_drop n (x :: t')) as L. unfold len_N in *. cbn [length] in *.
  apply dur_items_fuel; lia.
Qed.

Lemma udur_lexeme_sign b t : is_sign b = true -> udur_lexeme (b :: t) = None.
Proof.
  intros H. unfold udur_lexeme. cbn [length dur_items_len]. unfold dur_item_len. cbn [span].
  replace (is_digit b) with false by (revert H; bool_lia). reflexivity.
Qed.

Lemma dur_lexeme_eq s :
  dur_lexeme s = match udur_lexeme (drop (sign_len s) s) with Some n => Some (sign_len s + n) | None => None end.
Proof.
  unfold dur_lexeme, udur_lexeme.
  replace (dur_items_len (length s) (drop (sign_len s) s))
    with (dur_items_len (length (drop (sign_len s) s)) (drop (sign_len s) s)).
  2:{ apply dur_items_fuel; [lia|]. pose proof (len_drop (sign_len s) s) as L. unfold len_N in L. lia. }
  destruct (dur_items_len _ _ =? 0); reflexivity.
Qed.

Lemma re_duration_rest s : rmatch re_duration s (fun u => Some u) = opt_rest s (dur_lexeme s).
Proof.
  rewrite dur_lexeme_eq. unfold re_duration.
  rewrite rm_cat, rm_opt, class_step_ascii by ascii_side.
  destruct s as [|b t]; [reflexivity|].
  unfold sign_len. fold (is_sign b). destruct (is_sign b) eqn:Es.
  - rewrite !re_udur_rest. rewrite drop_1. rewrite (udur_lexeme_sign _ _ Es).
    destruct (udur_lexeme t) as [n|]; cbn [opt_rest]; [|reflexivity]. rewrite drop_succ. reflexivity.
  - rewrite re_udur_rest. rewrite drop_0. destruct (udur_lexeme (b :: t)) as [n|]; reflexivity.
Qed.

Lemma dur_lexeme_le s n : dur_lexeme s = Some n -> 1 <= n <= len_N s.
Proof.
  unfold dur_lexeme. pose proof (dur_items_len_le (length s) (drop (sign_len s) s)) as H. rewrite len_drop in H.
  pose proof (sign_len_le s) as Hs.
  assert (Hs2 : sign_len s <= len_N s).
  { unfold sign_len. destruct s as [|g z]; [lia|]. rewrite len_N_cons. destruct (is_sign g); lia. }
  destruct (dur_items_len (length s) (drop (sign_len s) s) =? 0) eqn:E; [discriminate|]. apply N.eqb_neq in E.
  intros HS; apply some_inj in HS; subst n. lia.
Qed.

Theorem re_duration_spec s : re_find re_duration s = dur_lexeme s.
Proof.
  apply re_find_of_rest with (lex := dur_lexeme).
  - intros s'. rewrite re_duration_rest. reflexivity.
  - intros s' n H. apply dur_lexeme_le in H. lia.
Qed.

(* ================================================================== *)
(* E. Decoders                                                         *)

Lemma hex_digits_bounds : forall n s v0 v, hex_digits n s v0 = Some v ->
  (n <= length s)%nat /\ v < (v0 + 1) * 16 ^ N.of_nat n.
Proof.
  induction n as [|n IH]; intros s v0 v H; cbn [hex_digits] in H.
  - apply some_inj in H. subst. split; [lia|]. cbn. lia.
  - destruct s as [|b t]; [discriminate|]. destruct (unhex b) as [x|] eqn:Ex; [|discriminate].
    apply IH in H. destruct H as [H1 H2]. split; [cbn [length]; lia|].
    assert (Hx : x < 16).
    { unfold unhex in Ex.
      repeat match type of Ex with
      | (if ?c then _ else _) = _ => destruct c eqn:?
      end; try discriminate; apply some_inj in Ex; subst x;
      repeat match goal with
      | H : (_ && _) = true |- _ => apply andb_true_iff in H; destruct H
      | H : (_ <=? _) = true |- _ => apply N.leb_le in H
      end; lia. }
    replace (N.of_nat (S n)) with (N.succ (N.of_nat n)) by lia. rewrite N.pow_succ_r'.
    assert (Hp : 0 < 16 ^ N.of_nat n) by (apply N.neq_0_lt_0; apply N.pow_nonzero; lia).
    nia.
Qed.

Lemma simple_escape_ascii e v : simple_escape e = Some v -> v < 128.
Proof.
  unfold simple_escape.
  repeat match goal with |- (if ?c then _ else _) = _ -> _ => destruct c end;
    intros H; try discriminate; apply some_inj in H; subst; lia.
Qed.

(* UnquoteChar consumes at least one byte and never more than there is; the UTF-8 form of
   its rune is never longer than what was consumed, except for a raw ill-formed byte *)
Lemma unquote_char_bounds s q ch n : unquote_char s q = Some (ch, n) ->
  1 <= n <= len_N s /\ ((ch = rune_error /\ n = 1) \/ len_N (encode_rune ch) <= n).
Proof.
  destruct s as [|c t]; cbn [unquote_char]; [discriminate|].
  destruct ((c =? q) && ((q =? 39) || (q =? 34))); [discriminate|].
  unfold rune_self.
  destruct (128 <=? c) eqn:E128.
  { intros H. apply some_inj in H. pose proof (decode_width _ _ _ _ H) as Hw.
    split; [lia|]. apply (decode_encode_len (c :: t)); [discriminate|exact H]. }
  apply N.leb_gt in E128. rewrite len_N_cons.
  destruct (c =? 92); cbn [negb].
  2:{ intros H. apply some_inj in H. inversion H; subst. split; [lia|]. right.
      destruct (encode_len ch) as (_ & H1 & _). rewrite H1 by lia. lia. }
  destruct t as [|e u]; [discriminate|]. rewrite len_N_cons.
  destruct (simple_escape e) as [v|] eqn:Ese.
  { intros H. apply some_inj in H. inversion H; subst. split; [lia|]. right.
    apply simple_escape_ascii in Ese. destruct (encode_len ch) as (_ & H1 & _). rewrite H1 by lia. lia. }
  destruct ((e =? 120) || (e =? 117) || (e =? 85)).
  { destruct (e =? 120) eqn:Ex.
    { destruct (hex_digits 2 u 0) as [v|] eqn:Eh; [|discriminate].
      apply hex_digits_bounds in Eh. destruct Eh as [Hl Hv].
      intros H. apply some_inj in H. inversion H; subst.
      split; [unfold len_N; lia|]. right.
      destruct (encode_len ch) as (_ & _ & H2 & _). cbn in Hv. specialize (H2 ltac:(lia)). lia. }
    destruct (e =? 117) eqn:Eu.
    { destruct (hex_digits 4 u 0) as [v|] eqn:Eh; [|discriminate].
      apply hex_digits_bounds in Eh. destruct Eh as [Hl Hv].
      destruct (valid_rune v); [|discriminate].
      intros H. apply some_inj in H. inversion H; subst.
      split; [unfold len_N; lia|]. right.
      destruct (encode_len ch) as (_ & _ & _ & H3). cbn in Hv. specialize (H3 ltac:(lia)). lia. }
    destruct (hex_digits 8 u 0) as [v|] eqn:Eh; [|discriminate].
    apply hex_digits_bounds in Eh. destruct Eh as [Hl Hv].
    destruct (valid_rune v); [|discriminate].
    intros H. apply some_inj in H. inversion H; subst.
    split; [unfold len_N; lia|]. right.
    destruct (encode_len ch) as (H4 & _). lia. }
  destruct (is_octal_digit e) eqn:Eo.
  { destruct u as [|d1 [|d2 u']]; try discriminate.
    destruct (is_octal_digit d1 && is_octal_digit d2); [|discriminate].
    destruct (255 <? _) eqn:E255; [discriminate|]. apply N.ltb_ge in E255.
    intros H. apply some_inj in H. inversion H; subst.
    rewrite !len_N_cons. split; [lia|]. right.
    destruct (encode_len (((e - 48) * 8 + (d1 - 48)) * 8 + (d2 - 48))) as (_ & _ & H2 & _).
    specialize (H2 ltac:(lia)). lia. }
  destruct (e =? 92).
  { intros H. apply some_inj in H. inversion H; subst. split; [lia|]. right. cbn. lia. }
  destruct ((e =? 39) || (e =? 34)) eqn:Eq; [|discriminate].
  destruct (e =? q); [|discriminate].
  intros H. apply some_inj in H. inversion H; subst. split; [lia|]. right.
  destruct (encode_len ch) as (_ & H1 & _). rewrite H1; [lia|].
  apply orb_true_iff in Eq. destruct Eq as [Eq|Eq]; apply N.eqb_eq in Eq; lia.
Qed.

(* ---- the item loop: bounds and independence of the fuel ---- *)
Definition piece_of (c ch n : N) : list N :=
  if (ch =? rune_error) && (n =? 1) then [c] else encode_rune ch.

Lemma piece_len c t ch n : unquote_char (c :: t) 34 = Some (ch, n) -> len_N (piece_of c ch n) <= n.
Proof.
  intros H. apply unquote_char_bounds in H. destruct H as [Hn Hp]. unfold piece_of.
  destruct ((ch =? rune_error) && (n =? 1)) eqn:E; [cbn; lia|].
  destruct Hp as [[-> ->]|Hp]; [cbn in E; discriminate|exact Hp].
Qed.

Lemma str_items_bounds : forall fuel s, len_N (fst (str_items fuel s)) <= snd (str_items fuel s) /\
                                         snd (str_items fuel s) <= len_N s.
Proof.
  induction fuel as [|k IH]; intros s; cbn [str_items]; [cbn; lia|].
  destruct s as [|c t]; [cbn; lia|].
  destruct ((c =? 13) || (c =? 10)); [cbn [fst snd]; rewrite len_N_nil; lia|].
  destruct (unquote_char (c :: t) 34) as [[ch n]|] eqn:E; [|cbn [fst snd]; rewrite len_N_nil; lia].
  pose proof (piece_len _ _ _ _ E) as Hp. apply unquote_char_bounds in E. destruct E as [Hn _].
  specialize (IH (drop n (c :: t))). rewrite len_drop in IH.
  destruct (str_items k (drop n (c :: t))) as [v m]. cbn [fst snd] in *.
  fold (piece_of c ch n). rewrite len_N_app. lia.
Qed.

Lemma str_items_fuel : forall f1 f2 s, (length s <= f1)%nat -> (length s <= f2)%nat ->
  str_items f1 s = str_items f2 s.
Proof.
  induction f1 as [|k1 IH]; intros f2 s H1 H2.
  - destruct s; [|cbn in H1; lia]. destruct f2; reflexivity.
  - destruct f2 as [|k2].
    + destruct s; [|cbn in H2; lia]. reflexivity.
    + cbn [str_items]. destruct s as [|c t]; [reflexivity|].
      destruct ((c =? 13) || (c =? 10)); [reflexivity|].
      destruct (unquote_char (c :: t) 34) as [[ch n]|] eqn:E; [|reflexivity].
      apply unquote_char_bounds in E. destruct E as [Hn _].
      pose proof (len_drop n (c :: t)) as L. unfold len_N in L, Hn.
      rewrite (IH k2 (drop n (c :: t))); [reflexivity|lia|lia].
Qed.

(* the second loop of unquoteString is the item loop with an accumulator *)
Lemma uq_slow_items : forall fuel str res,
  uq_slow fuel str res = (res ++ fst (str_items fuel str), drop (snd (str_items fuel str)) str).
Proof.
  induction fuel as [|f IH]; intros str res; cbn [uq_slow str_items].
  - cbn [fst snd]. rewrite app_nil_r, drop_0. reflexivity.
  - destruct str as [|c t]; [cbn [fst snd]; rewrite app_nil_r; reflexivity|].
    destruct ((c =? 13) || (c =? 10)); [cbn [fst snd]; rewrite app_nil_r, drop_0; reflexivity|].
    destruct (unquote_char (c :: t) 34) as [[ch n]|] eqn:E; [|cbn [fst snd]; rewrite app_nil_r, drop_0; reflexivity].
    rewrite IH. destruct (str_items f (drop n (c :: t))) as [v m]. cbn [fst snd].
    rewrite <- app_assoc. rewrite drop_drop. reflexivity.
Qed.

(* ---- unquoteString = the item loop, for an input that is not empty and does not start
   with the quote (the only inputs String hands to it) ---- *)
Definition plain_byte (c : N) : bool :=
  negb ((c =? 13) || (c =? 10)) && negb (c =? 34) && negb ((c =? 92) || (rune_self <=? c)).

Definition uq_result (v : list N) (m : N) : option (list N) * N :=
  if m =? 0 then (None, 0) else (Some v, m).

Lemma unquote_char_plain c t : plain_byte c = true -> unquote_char (c :: t) 34 = Some (c, 1).
Proof.
  unfold plain_byte, rune_self. intros H.
  apply andb_true_iff in H. destruct H as [H H3]. apply andb_true_iff in H. destruct H as [H1 H2].
  apply negb_true_iff in H1, H2, H3. apply orb_false_iff in H3. destruct H3 as [H3 H4].
  cbn [unquote_char]. unfold rune_self. rewrite H2. cbn [andb]. rewrite H4, H3. reflexivity.
Qed.

Definition uq_finish (b : list N) (x : (option (list N) * N) + N) : option (list N) * N :=
  match x with
  | inl r => r
  | inr i =>
    let '(res, str) := uq_slow (S (length b)) (drop i b) (take i b) in
    if len_N str =? len_N b then (None, 0) else (Some res, len_N b - len_N str)
  end.

Lemma uq_fast_eq b : forall rst pre, b = pre ++ rst -> b <> [] ->
  (pre = [] -> match rst with c :: _ => (c =? 34) = false | [] => True end) ->
  uq_finish b (uq_fast b (len_N pre) rst) =
  uq_result (pre ++ fst (str_items (length rst) rst)) (len_N pre + snd (str_items (length rst) rst)).
Proof.
  induction rst as [|c t IH]; intros pre Hb Hne Hq.
  - cbn [uq_fast length str_items fst snd uq_finish]. rewrite app_nil_r in *. subst pre.
    unfold uq_result. rewrite N.add_0_r.
    destruct b as [|x b']; [congruence|]. rewrite len_N_cons.
    replace (1 + len_N b' =? 0) with false by (symmetry; apply N.eqb_neq; lia). reflexivity.
  - cbn [uq_fast].
    destruct ((c =? 13) || (c =? 10)) eqn:Ecr.
    { cbn [length str_items]. rewrite Ecr. cbn [fst snd]. rewrite app_nil_r, N.add_0_r. unfold uq_result.
      destruct (len_N pre =? 0) eqn:E0; [reflexivity|]. cbn [uq_finish]. subst b. rewrite take_app_exact. reflexivity. }
    destruct (c =? 34) eqn:E34.
    { assert (Hu : unquote_char (c :: t) 34 = None).
      { cbn [unquote_char]. rewrite E34. reflexivity. }
      cbn [length str_items]. rewrite Ecr, Hu. cbn [fst snd uq_finish]. rewrite app_nil_r, N.add_0_r. unfold uq_result.
      destruct (len_N pre =? 0) eqn:E0.
      - apply N.eqb_eq in E0. destruct pre; [|rewrite len_N_cons in E0; lia].
        specialize (Hq eq_refl). cbn in Hq. congruence.
      - subst b. rewrite take_app_exact. reflexivity. }
    destruct ((c =? 92) || (rune_self <=? c)) eqn:Eesc.
    { cbn [uq_finish]. subst b. rewrite drop_app_exact, take_app_exact. rewrite uq_slow_items.
      rewrite (str_items_fuel _ (length (c :: t)) (c :: t)); [|rewrite app_length; lia|lia].
      pose proof (str_items_bounds (length (c :: t)) (c :: t)) as [_ Hm].
      destruct (str_items (length (c :: t)) (c :: t)) as [v m]. cbn [fst snd] in *.
      rewrite len_drop, len_N_app. unfold uq_result.
      destruct (len_N pre + m =? 0) eqn:E0.
      - apply N.eqb_eq in E0. replace (len_N (c :: t) - m =? len_N pre + len_N (c :: t)) with true; [reflexivity|].
        symmetry. apply N.eqb_eq. lia.
      - apply N.eqb_neq in E0. replace (len_N (c :: t) - m =? len_N pre + len_N (c :: t)) with false.
        2:{ symmetry. apply N.eqb_neq. lia. }
        f_equal. lia. }
    assert (Hp : plain_byte c = true) by (unfold plain_byte; rewrite Ecr, E34, Eesc; reflexivity).
    cbn [length str_items]. rewrite Ecr.
    rewrite (unquote_char_plain _ _ Hp).
    assert (Hc128 : c < 128).
    { apply orb_false_iff in Eesc. destruct Eesc as [_ E]. unfold rune_self in E. apply N.leb_gt in E. exact E. }
    replace ((c =? rune_error) && (1 =? 1)) with false.
    2:{ symmetry. apply andb_false_iff. left. apply N.eqb_neq. unfold rune_error. lia. }
    rewrite drop_1.
    specialize (IH (pre ++ [c])). rewrite len_N_app in IH. change (len_N [c]) with 1 in IH.
    assert (Hb' : b = (pre ++ [c]) ++ t) by (rewrite <- app_assoc; exact Hb).
    specialize (IH Hb' Hne).
    assert (Hq' : pre ++ [c] = [] -> match t with c0 :: _ => (c0 =? 34) = false | [] => True end).
    { intros H. apply app_eq_nil in H. destruct H as [_ H]. discriminate. }
    specialize (IH Hq'). rewrite IH.
    destruct (str_items (length t) t) as [v m]. cbn [fst snd].
    assert (He : encode_rune c = [c]).
    { unfold encode_rune. replace (c <? 128) with true by (symmetry; apply N.ltb_lt; exact Hc128). reflexivity. }
    rewrite He. rewrite <- app_assoc. cbn [app]. f_equal. lia.
Qed.

Theorem unquote_string_eq b : b <> [] -> (match b with c :: _ => (c =? 34) = false | [] => True end) ->
  unquote_string b = uq_result (fst (str_body b)) (snd (str_body b)).
Proof.
  intros Hne Hq. unfold unquote_string, str_body.
  pose proof (uq_fast_eq b b [] eq_refl Hne (fun _ => Hq)) as H.
  change (len_N []) with 0 in H. rewrite N.add_0_l in H. cbn [app] in H. rewrite <- H.
  unfold uq_finish. destruct (uq_fast b 0 b); reflexivity.
Qed.

(* Readf's contract for unquoteString at such an input *)
Definition cb_ok_at (f : list N -> option (list N) * N) (s : list N) : Prop :=
  (snd (f s) = 0 -> fst (f s) = None) /\ len_opt (fst (f s)) <= snd (f s) /\ snd (f s) <= len_N s.

Theorem unquote_string_contract b : b <> [] -> (match b with c :: _ => (c =? 34) = false | [] => True end) ->
  cb_ok_at unquote_string b.
Proof.
  intros Hne Hq. unfold cb_ok_at. rewrite (unquote_string_eq b Hne Hq).
  pose proof (str_items_bounds (length b) b) as [H1 H2]. fold (str_body b) in H1, H2.
  unfold uq_result. destruct (snd (str_body b) =? 0) eqn:E; cbn [fst snd len_opt].
  - split; [reflexivity|]. split; lia.
  - apply N.eqb_neq in E. split; [intros; lia|]. split; assumption.
Qed.

(* ================================================================== *)
(* F. Every parser equals its specification                            *)

Lemma read_regexp_spec' m r pos : in_dom r pos -> matcher_ok m ->
  read_regexp m r pos =
  Ok (match m (rest r pos) with None => (pos, None) | Some n => (pos + n, Some (take n (rest r pos))) end).
Proof.
  intros D M. rewrite read_regexp_spec by assumption.
  destruct (rest r pos) as [|b t] eqn:Hr; [|reflexivity]. destruct M as [M0 _]. rewrite M0. reflexivity.
Qed.

Lemma readf_spec_at f r pos : in_dom r pos -> (rest r pos <> [] -> cb_ok_at f (rest r pos)) ->
  readf f r pos =
  Ok (match rest r pos with
      | [] => (pos, None)
      | _ => if snd (f (rest r pos)) =? 0 then (pos, None) else (pos + snd (f (rest r pos)), fst (f (rest r pos)))
      end).
Proof.
  intros D C. pose proof D as (Hb & Hlo & Hhi). unfold readf.
  rewrite rest_nil_iff by exact Hlo.
  destruct (rest r pos) as [|b t] eqn:Hr; [reflexivity|].
  rewrite slice_from_rest by exact D. cbn [bind]. rewrite Hr.
  specialize (C ltac:(discriminate)). unfold cb_ok_at in C.
  destruct (f (b :: t)) as [value next]. cbn [fst snd] in *.
  destruct C as (C0 & C1 & C2).
  destruct (next =? 0) eqn:E0.
  - apply N.eqb_eq in E0. rewrite (C0 E0). reflexivity.
  - pose proof (len_rest r pos Hlo) as L. rewrite Hr in L.
    assert (E1 : (next <? len_opt value) = false) by (apply N.ltb_ge; exact C1).
    assert (E2 : (r_len r <? pos - r_offset r + next) = false) by (apply N.ltb_ge; lia).
    rewrite E1, E2. cbn [orb]. unfold reader_pos. do 2 f_equal. lia.
Qed.

Definition is_nf (k : err_kind) : bool := match k with ENotFound _ => true | EOther _ => false end.

(* the result [res] of a parser at [pos] is what the specification's answer [sr] says *)
Definition agrees (l : literal) (pos : N) (res : lit_result) (sr : spec_res) : Prop :=
  match sr with
  | SNode n v =>
    res = (Some {| ln_token := lit_token l; ln_pos := pos; ln_rpos := pos + n; ln_value := v |}, None)
  | SErr a nf => exists e, res = (None, Some e) /\ le_pos e = pos + a /\ is_nf (le_kind e) = nf
  end.
Definition refines (l : literal) (pos : N) (o : outcome lit_result) (sr : spec_res) : Prop :=
  exists res, o = Ok res /\ agrees l pos res sr.

Lemma refines_err l pos k a nf : is_nf k = nf -> refines l pos (ret_err (pos + a) k) (SErr a nf).
Proof.
  intros H. eexists. split; [reflexivity|]. cbn [agrees]. eexists. split; [reflexivity|]. cbn. split; [reflexivity|exact H].
Qed.
Lemma refines_err0 l pos k nf : is_nf k = nf -> refines l pos (ret_err pos k) (SErr 0 nf).
Proof. intros H. rewrite <- (N.add_0_r pos) at 2. apply refines_err. exact H. Qed.
Lemma refines_node l pos n v : refines l pos (ret_node (lit_token l) pos (pos + n) v) (SNode n v).
Proof. eexists. split; reflexivity. Qed.

Lemma matcher_ok_integer : matcher_ok (re_find re_integer).
Proof. apply re_find_matcher_ok. reflexivity. Qed.
Lemma matcher_ok_float : matcher_ok (re_find re_float).
Proof. apply re_find_matcher_ok. reflexivity. Qed.
Lemma matcher_ok_duration : matcher_ok (re_find re_duration).
Proof. apply re_find_matcher_ok. reflexivity. Qed.
Lemma matcher_ok_char : matcher_ok (re_find re_char).
Proof. apply re_find_matcher_ok. reflexivity. Qed.
Lemma matcher_ok_backquote : matcher_ok (re_find re_backquote).
Proof. apply re_find_matcher_ok. reflexivity. Qed.

Section ParserProofs.
  Variable conv_float : list N -> option N.
  Variable conv_dur : list N -> option Z.
  Notation lit_parse := (lit_parse conv_float conv_dur).
  Notation lit_spec := (lit_spec conv_float conv_dur).

  Lemma rune_at_46 s : rune_at s 46 = if starts_with_byte 46 s then Some 1 else None.
  Proof. rewrite rune_at_ascii by lia. destruct s as [|b t]; reflexivity. Qed.

  Theorem integer_refines r pos : in_dom r pos ->
    refines LInteger pos (p_integer r pos) (spec_integer (rest r pos)).
  Proof.
    intros D. unfold p_integer, spec_integer.
    rewrite read_regexp_spec' by (assumption || apply matcher_ok_integer).
    rewrite re_integer_spec.
    destruct (int_lexeme (rest r pos)) as [n|] eqn:El; cbn [bind fst snd].
    2:{ apply refines_err0. reflexivity. }
    apply int_lexeme_le in El.
    assert (D2 : in_dom r (pos + n)) by (apply in_dom_advance; [exact D|lia]).
    rewrite read_rune_spec by exact D2. destruct D as (_ & Hlo & _).
    rewrite rest_advance by exact Hlo. rewrite rune_at_46.
    destruct (starts_with_byte 46 (drop n (rest r pos))); cbn [bind snd].
    { apply refines_err0. reflexivity. }
    destruct (parse_int_base0 (take n (rest r pos))) as [z|].
    - apply (refines_node LInteger).
    - apply refines_err0. reflexivity.
  Qed.

  Theorem float_refines r pos : in_dom r pos ->
    refines LFloat pos (p_float conv_float r pos) (spec_float conv_float (rest r pos)).
  Proof.
    intros D. unfold p_float, spec_float.
    rewrite read_regexp_spec' by (assumption || apply matcher_ok_float).
    rewrite re_float_spec.
    destruct (float_lexeme (rest r pos)) as [n|] eqn:El; cbn [bind fst snd].
    2:{ apply refines_err0. reflexivity. }
    destruct (conv_float (take n (rest r pos))) as [z|].
    - apply (refines_node LFloat).
    - apply refines_err0. reflexivity.
  Qed.

  Theorem duration_refines r pos : in_dom r pos ->
    refines LDuration pos (p_duration conv_dur r pos) (spec_duration conv_dur (rest r pos)).
  Proof.
    intros D. unfold p_duration, spec_duration.
    rewrite read_regexp_spec' by (assumption || apply matcher_ok_duration).
    rewrite re_duration_spec.
    destruct (dur_lexeme (rest r pos)) as [n|] eqn:El; cbn [bind fst snd].
    2:{ apply refines_err0. reflexivity. }
    destruct (conv_dur (take n (rest r pos))) as [z|].
    - apply (refines_node LDuration).
    - apply refines_err0. reflexivity.
  Qed.

  Theorem regexp0_refines re r pos : in_dom r pos -> nullable re = false ->
    refines (LRegexp re 0) pos (p_regexp re 0 r pos) (spec_regexp re 0 (rest r pos)).
  Proof.
    intros D Hn. unfold p_regexp, spec_regexp. cbn [N.eqb].
    rewrite read_regexp_spec' by (assumption || apply re_find_matcher_ok; exact Hn).
    destruct (rest r pos) as [|b t] eqn:Hr.
    { destruct (re_find_matcher_ok re Hn) as [M0 _]. rewrite M0. cbn [bind snd]. apply refines_err0. reflexivity. }
    destruct (re_find re (b :: t)) as [n|]; cbn [bind fst snd].
    - apply (refines_node (LRegexp re 0)).
    - apply refines_err0. reflexivity.
  Qed.
End ParserProofs.

Lemma rune_at_byte q s : q < 128 -> rune_at s q = if starts_with_byte q s then Some 1 else None.
Proof. intros H. rewrite rune_at_ascii by exact H. destruct s as [|b t]; reflexivity. Qed.

Lemma starts_with_byte_cons q b t : starts_with_byte q (b :: t) = (b =? q).
Proof. reflexivity. Qed.

Section ParserProofs2.
  Variable conv_float : list N -> option N.
  Variable conv_dur : list N -> option Z.

  Theorem char_refines r pos : in_dom r pos ->
    refines LChar pos (p_char r pos) (spec_char (rest r pos)).
  Proof.
    intros D. pose proof D as (_ & Hlo & _). unfold p_char, spec_char.
    rewrite read_rune_spec by exact D. rewrite rune_at_byte by lia.
    destruct (rest r pos) as [|q t] eqn:Hr; cbn [starts_with_byte bind snd negb].
    { apply refines_err0. reflexivity. }
    destruct (q =? 39) eqn:Eq; cbn [bind snd fst negb].
    2:{ apply refines_err0. reflexivity. }
    assert (D1 : in_dom r (pos + 1)).
    { apply in_dom_advance; [exact D|]. rewrite Hr, len_N_cons. lia. }
    assert (Hr1 : rest r (pos + 1) = t) by (rewrite rest_advance by exact Hlo; rewrite Hr; reflexivity).
    rewrite read_regexp_spec' by (assumption || apply matcher_ok_char).
    rewrite re_char_spec, Hr1.
    destruct (char_body_len t) as [m|] eqn:Em; cbn [bind snd fst].
    2:{ apply (refines_err LChar pos _ 1). reflexivity. }
    apply char_body_len_le in Em.
    assert (D2 : in_dom r (pos + 1 + m)).
    { apply in_dom_advance; [exact D1|]. rewrite Hr1. lia. }
    rewrite read_rune_spec by exact D2. rewrite rune_at_byte by lia.
    rewrite rest_advance by lia. rewrite Hr1.
    destruct (starts_with_byte 39 (drop m t)); cbn [bind snd fst negb].
    2:{ replace (pos + 1 + m) with (pos + (1 + m)) by lia. apply refines_err. reflexivity. }
    rewrite len_take by lia.
    replace (pos + 1 + m + 1) with (pos + (m + 2)) by lia.
    destruct (unquote_char (take m t) 39) as [[v n]|].
    - destruct (n =? m).
      + apply (refines_node LChar).
      + apply refines_err. reflexivity.
    - apply refines_err. reflexivity.
  Qed.

  (* the closing quote behind a body of m bytes with value v *)
  Lemma string_tail r pos q t quote m v msg : in_dom r pos -> rest r pos = q :: t -> m <= len_N t -> quote < 128 ->
    refines (LString true) pos
      (bind (read_rune r (pos + 1 + m) quote) (fun x5 =>
         if negb (snd x5) then ret_err (fst x5) (EOther msg)
         else ret_node (str_bytes "STRING") pos (fst x5) (VStr v)))
      (if starts_with_byte quote (drop m t) then SNode (m + 2) (VStr v) else SErr (1 + m) false).
  Proof.
    intros D Hr Hm Hq. pose proof D as (_ & Hlo & _).
    assert (D2 : in_dom r (pos + 1 + m)).
    { replace (pos + 1 + m) with (pos + (1 + m)) by lia. apply in_dom_advance; [exact D|]. rewrite Hr, len_N_cons. lia. }
    rewrite read_rune_spec by exact D2. rewrite rune_at_byte by exact Hq.
    replace (pos + 1 + m) with (pos + (1 + m)) by lia.
    rewrite rest_advance by exact Hlo. rewrite Hr, drop_succ.
    destruct (starts_with_byte quote (drop m t)); cbn [bind snd fst negb].
    - replace (pos + (1 + m) + 1) with (pos + (m + 2)) by lia. apply (refines_node (LString true)).
    - apply refines_err. reflexivity.
  Qed.

  Lemma refines_string_bq b pos o sr : refines (LString true) pos o sr -> refines (LString b) pos o sr.
  Proof. intros H. exact H. Qed.

  Theorem string_refines bq r pos : in_dom r pos ->
    refines (LString bq) pos (p_string bq r pos) (spec_string bq (rest r pos)).
  Proof.
    intros D. pose proof D as (_ & Hlo & _). apply refines_string_bq. unfold p_string, spec_string.
    rewrite !read_rune_spec by exact D. rewrite !rune_at_byte by lia.
    destruct (rest r pos) as [|q t] eqn:Hr; cbn [starts_with_byte bind snd fst negb].
    { destruct bq; cbn [andb bind snd fst negb]; apply refines_err0; reflexivity. }
    assert (D1 : in_dom r (pos + 1)).
    { apply in_dom_advance; [exact D|]. rewrite Hr, len_N_cons. lia. }
    assert (Hr1 : rest r (pos + 1) = t) by (rewrite rest_advance by exact Hlo; rewrite Hr; reflexivity).
    destruct (q =? 34) eqn:E34; cbn [bind snd fst negb andb].
    - (* double-quoted *)
      rewrite read_rune_spec by exact D1. rewrite rune_at_byte by lia. rewrite Hr1.
      unfold spec_quoted.
      destruct (starts_with_byte 34 t) eqn:Es; cbn [bind snd fst].
      { replace (pos + 1 + 1) with (pos + 2) by lia. apply (refines_node (LString true)). }
      cbn [N.eqb Pos.eqb].
      assert (Hq : match t with c :: _ => (c =? 34) = false | [] => True end).
      { destruct t; [exact I|exact Es]. }
      rewrite readf_spec_at; [|exact D1|].
      2:{ rewrite Hr1. intros Hne. apply unquote_string_contract; assumption. }
      rewrite Hr1.
      pose proof (str_items_bounds (length t) t) as [Hb1 Hb2]. fold (str_body t) in Hb1, Hb2.
      assert (Hx4 : (match t with
                     | [] => (pos + 1, None)
                     | _ :: _ => if snd (unquote_string t) =? 0 then (pos + 1, None)
                                 else (pos + 1 + snd (unquote_string t), fst (unquote_string t))
                     end) = (pos + 1 + snd (str_body t),
                             if snd (str_body t) =? 0 then None else Some (fst (str_body t)))).
      { destruct t as [|c t'] eqn:Ht.
        - cbn. f_equal. lia.
        - rewrite unquote_string_eq by (discriminate || exact Hq). unfold uq_result.
          destruct (snd (str_body (c :: t')) =? 0) eqn:E0; cbn [fst snd N.eqb]; rewrite ?E0; [|reflexivity].
          apply N.eqb_eq in E0. rewrite E0. f_equal. lia. }
      rewrite Hx4. cbn [bind fst snd].
      destruct (str_body t) as [v m] eqn:Esb. cbn [fst snd] in *.
      assert (Hv : bytes_of_opt (if m =? 0 then None else Some v) = v).
      { destruct (m =? 0) eqn:E0; [|reflexivity]. apply N.eqb_eq in E0. subst m.
        destruct v; [reflexivity|rewrite len_N_cons in Hb1; lia]. }
      rewrite Hv. eapply string_tail; try eassumption. lia.
    - destruct bq; cbn [andb bind snd fst negb].
      2:{ apply refines_err0. reflexivity. }
      destruct (q =? 96) eqn:E96; cbn [bind snd fst negb].
      2:{ apply refines_err0. reflexivity. }
      (* back-quoted *)
      rewrite read_rune_spec by exact D1. rewrite rune_at_byte by lia. rewrite Hr1.
      unfold spec_quoted.
      destruct (starts_with_byte 96 t) eqn:Es; cbn [bind snd fst].
      { replace (pos + 1 + 1) with (pos + 2) by lia. apply (refines_node (LString true)). }
      cbn [N.eqb Pos.eqb].
      rewrite read_regexp_spec' by (assumption || apply matcher_ok_backquote).
      rewrite re_backquote_spec, Hr1. unfold bq_lexeme, bq_body. fold (not_byte 96).
      pose proof (span_le (not_byte 96) t) as Hm. set (m := span (not_byte 96) t) in *.
      assert (Hx4 : (if m =? 0 then None else Some m) = (if m =? 0 then None else Some m)) by reflexivity.
      destruct (m =? 0) eqn:E0; cbn [bind fst snd bytes_of_opt].
      + apply N.eqb_eq in E0. rewrite E0 in *. cbn [take firstn N.to_nat].
        pose proof (string_tail r pos q t 96 0 [] (str_bytes "was expecting '" ++ [96] ++ [39]) D Hr ltac:(lia) ltac:(lia)) as H.
        rewrite N.add_0_r in H. exact H.
      + eapply string_tail; try eassumption; lia.
  Qed.
End ParserProofs2.

Lemma ascii_nonempty_spec w : ascii_nonempty w = true -> w <> [] /\ Forall (fun b => b < 128) w.
Proof.
  unfold ascii_nonempty. intros H. apply andb_true_iff in H. destruct H as [H1 H2]. split.
  - intros ->. cbn in H1. discriminate.
  - apply Forall_forall. intros x Hx. rewrite forallb_forall in H2. specialize (H2 x Hx). apply N.ltb_lt in H2. exact H2.
Qed.

Section ParserProofs3.
  Theorem bool_refines t f r pos : in_dom r pos -> ascii_nonempty t = true -> ascii_nonempty f = true ->
    refines (LBool t f) pos (p_bool t f r pos) (spec_bool t f (rest r pos)).
  Proof.
    intros D Ht Hf. apply ascii_nonempty_spec in Ht, Hf. destruct Ht as [Ht1 Ht2]. destruct Hf as [Hf1 Hf2].
    unfold p_bool, spec_bool.
    destruct t as [|t0 t']; [congruence|]. destruct f as [|f0 f']; [congruence|].
    rewrite match_word_spec by assumption.
    destruct (word_at (t0 :: t') (rest r pos)); cbn [bind snd fst].
    { apply (refines_node (LBool (t0 :: t') (f0 :: f'))). }
    rewrite match_word_spec by assumption.
    destruct (word_at (f0 :: f') (rest r pos)); cbn [bind snd fst].
    - apply (refines_node (LBool (t0 :: t') (f0 :: f'))).
    - apply refines_err0. reflexivity.
  Qed.

  Theorem nil_refines w r pos : in_dom r pos -> ascii_nonempty w = true ->
    refines (LNil w) pos (p_nil w r pos) (spec_nil w (rest r pos)).
  Proof.
    intros D Hw. apply ascii_nonempty_spec in Hw. destruct Hw as [Hw1 Hw2].
    unfold p_nil, spec_nil. destruct w as [|w0 w']; [congruence|].
    rewrite match_word_spec by assumption.
    destruct (word_at (w0 :: w') (rest r pos)); cbn [bind snd fst].
    - apply (refines_node (LNil (w0 :: w'))).
    - apply refines_err0. reflexivity.
  Qed.

  Theorem word_refines w r pos : in_dom r pos -> ascii_nonempty w = true ->
    refines (LWord w) pos (p_word w r pos) (spec_word w (rest r pos)).
  Proof.
    intros D Hw. apply ascii_nonempty_spec in Hw. destruct Hw as [Hw1 Hw2].
    unfold p_word, spec_word. destruct w as [|w0 w']; [congruence|].
    rewrite match_word_spec by assumption.
    destruct (word_at (w0 :: w') (rest r pos)); cbn [bind snd fst].
    - apply (refines_node (LWord (w0 :: w'))).
    - apply refines_err0. reflexivity.
  Qed.

  Theorem op_refines o r pos : in_dom r pos -> o <> [] ->
    refines (LOp o) pos (p_op o r pos) (spec_op o (rest r pos)).
  Proof.
    intros D Ho. unfold p_op, spec_op. destruct o as [|o0 o']; [congruence|].
    rewrite match_string_spec by (assumption || discriminate).
    destruct (has_prefix (rest r pos) (o0 :: o')); cbn [bind snd fst].
    - apply (refines_node (LOp (o0 :: o'))).
    - apply refines_err0. reflexivity.
  Qed.

  (* for a valid rune other than U+FFFD the next decoded rune is ch exactly when the bytes
     start with ch's encoding (ReaderProofs.decode_is_prefix) *)
  Lemma rune_at_spec ch s : valid_rune ch = true ->
    rune_at s ch =
    if ch =? rune_error then
      match s with
      | [] => None
      | _ => if fst (decode_rune s) =? rune_error then Some (snd (decode_rune s)) else None
      end
    else if has_prefix s (encode_rune ch) then Some (len_N (encode_rune ch)) else None.
  Proof.
    intros Hv. destruct (ch =? rune_error) eqn:Ee.
    - apply N.eqb_eq in Ee. subst ch. destruct s as [|b t]; reflexivity.
    - apply N.eqb_neq in Ee. unfold rune_at.
      destruct s as [|b t].
      { destruct (encode_rune ch) eqn:En; [|reflexivity].
        exfalso. destruct (encode_len ch) as (H & _). rewrite En in H. cbn in H. lia. }
      destruct (ch <? 128) eqn:E128.
      + apply N.ltb_lt in E128.
        assert (He : encode_rune ch = [ch]).
        { unfold encode_rune. replace (ch <? 128) with true by (symmetry; apply N.ltb_lt; exact E128). reflexivity. }
        rewrite He. cbn [has_prefix]. rewrite (N.eqb_sym ch b).
        destruct (b =? ch); [|reflexivity]. destruct t; reflexivity.
      + pose proof (ReaderProofs.decode_is_prefix (b :: t) ch Hv Ee) as Hiff.
        destruct (has_prefix (b :: t) (encode_rune ch)) eqn:Hp.
        * rewrite (ReaderProofs.decode_prefix_width _ _ Hv Hp). cbn [fst snd]. rewrite N.eqb_refl. reflexivity.
        * destruct (fst (decode_rune (b :: t)) =? ch) eqn:Ef; [|reflexivity].
          apply N.eqb_eq in Ef. apply Hiff in Ef. congruence.
  Qed.

  Theorem rune_refines ch r pos : in_dom r pos -> valid_rune ch = true ->
    refines (LRune ch) pos (p_rune ch r pos) (spec_rune ch (rest r pos)).
  Proof.
    intros D Hv. unfold p_rune, spec_rune.
    rewrite read_rune_spec by exact D. rewrite rune_at_spec by exact Hv.
    destruct (ch =? rune_error).
    - destruct (rest r pos) as [|b t]; cbn [bind snd fst].
      { apply refines_err0. reflexivity. }
      destruct (fst (decode_rune (b :: t)) =? rune_error); cbn [bind snd fst].
      + apply (refines_node (LRune ch)).
      + apply refines_err0. reflexivity.
    - destruct (has_prefix (rest r pos) (encode_rune ch)); cbn [bind snd fst].
      + apply (refines_node (LRune ch)).
      + apply refines_err0. reflexivity.
  Qed.
End ParserProofs3.


(* ================================================================== *)
(* G. Submatches: the search with capture registers takes the same path as the plain search *)

Section Erasure.
  Context {A B : Type}.
  Variable P : A -> B -> Prop.
  Definition orel (x : option A) (y : option B) : Prop :=
    match x, y with
    | None, None => True
    | Some a, Some b => P a b
    | _, _ => False
    end.

  Lemma orel_orelse x x' y y' : orel x y -> orel x' y' ->
    orel (match x with Some a => Some a | None => x' end) (match y with Some b => Some b | None => y' end).
  Proof. destruct x, y; cbn; tauto. Qed.

  Definition ksim (s : list N) (p : N) (kc : @ccont A) (k : @cont B) : Prop :=
    forall t q c', sfx t s -> q = p + (len_N s - len_N t) -> orel (kc t q c') (k t).

  Definition step_sim (stepc : list N -> N -> caps -> @ccont A -> option A) (step : @stepper B) : Prop :=
    forall s p c kc k, ksim s p kc k -> orel (stepc s p c kc) (step s k).

  Lemma ksim_shift s p kc k t q : sfx t s -> q = p + (len_N s - len_N t) -> ksim s p kc k -> ksim t q kc k.
  Proof.
    intros Ht Hq H t' q' c' Ht' Hq'. apply H; [eapply sfx_trans; eassumption|].
    apply sfx_len in Ht. apply sfx_len in Ht'. lia.
  Qed.

  Lemma cstar_sim stepc step : step_sim stepc step -> forall fuel, step_sim (cstar_loop stepc fuel) (star_loop step fuel).
  Proof.
    intros Hs fuel. induction fuel as [|f IH]; intros s p c kc k Hk; cbn [cstar_loop star_loop].
    - apply Hk; [apply sfx_refl|lia].
    - apply orel_orelse.
      + apply Hs. intros t q c' Ht Hq.
        destruct (Nat.ltb (length t) (length s)); [|exact I].
        apply IH. eapply ksim_shift; eassumption.
      + apply Hk; [apply sfx_refl|lia].
  Qed.

  Lemma crep_sim stepc step : step_sim stepc step -> forall n, step_sim (crep_loop stepc n) (rep_loop step n).
  Proof.
    intros Hs n. induction n as [|n IH]; intros s p c kc k Hk; cbn [crep_loop rep_loop].
    - apply Hk; [apply sfx_refl|lia].
    - apply Hs. intros t q c' Ht Hq. apply IH. eapply ksim_shift; eassumption.
  Qed.

  Lemma caps_sim r : forall g, step_sim (rmatch_caps r g) (rmatch r).
  Proof.
    induction r as [|neg rs|a IHa b IHb|a IHa b IHb|a IHa|a IHa|a IHa|n a IHa|a IHa]; intros g s p c kc k Hk;
      cbn [rmatch_caps rmatch].
    - apply Hk; [apply sfx_refl|lia].
    - destruct (next_rune s) as [[ch t]|] eqn:E; [|exact I].
      destruct (class_match neg rs ch); [|exact I].
      apply next_rune_sfx in E. apply Hk; [tauto|reflexivity].
    - apply IHa. intros t q c' Ht Hq. apply IHb. eapply ksim_shift; eassumption.
    - apply orel_orelse; [apply IHa; exact Hk|apply IHb; exact Hk].
    - apply (cstar_sim _ _ (IHa g)). exact Hk.
    - apply IHa. intros t q c' Ht Hq. apply (cstar_sim _ _ (IHa g)). eapply ksim_shift; eassumption.
    - apply orel_orelse; [apply IHa; exact Hk|]. apply Hk; [apply sfx_refl|lia].
    - apply (crep_sim _ _ (IHa g)). exact Hk.
    - apply IHa. intros t q c' Ht Hq. apply Hk; assumption.
  Qed.
End Erasure.

(* FindSubmatch's whole match is FindIndex's match; there is one entry per group *)
Theorem re_find_submatch_spec re s :
  match re_find re s with
  | None => re_find_submatch re s = None
  | Some n => exists gs, re_find_submatch re s = Some (Some (take n s) :: gs) /\ len_N gs = count_groups re
  end.
Proof.
  pose proof (caps_sim (fun (x : N * caps) (t : list N) => fst x = len_N s - len_N t) re 1 s 0 []
                (fun _ q c => Some (q, c)) (fun t => Some t)) as H.
  assert (Hk : ksim (fun (x : N * caps) (t : list N) => fst x = len_N s - len_N t) s 0
                    (fun _ q c => Some (q, c)) (fun t => Some t)).
  { intros t q c' Ht Hq. cbn. lia. }
  specialize (H Hk). unfold re_find, re_find_submatch.
  destruct (rmatch re s (fun t => Some t)) as [t|]; destruct (rmatch_caps re 1 s 0 [] _) as [[q c]|]; cbn in H; try contradiction.
  - subst q. eexists. split; [reflexivity|]. unfold len_N. rewrite map_length, seq_length. lia.
  - reflexivity.
Qed.

Lemma smatcher_ok_re re : nullable re = false -> smatcher_ok (re_find_submatch re).
Proof.
  intros Hn. destruct (re_find_matcher_ok re Hn) as [M0 M1]. split.
  - pose proof (re_find_submatch_spec re []) as H. rewrite M0 in H. exact H.
  - intros s gs H. pose proof (re_find_submatch_spec re s) as Hs.
    destruct (re_find re s) as [n|] eqn:E; [|congruence].
    destruct Hs as (gs' & Hs & _). rewrite Hs in H. apply some_inj in H. subst gs.
    exists (take n s), gs'. split; [reflexivity|]. specialize (M1 _ _ E). rewrite len_take by exact M1. exact M1.
Qed.

Lemma read_regexp_submatch_spec' sm r pos : in_dom r pos -> smatcher_ok sm ->
  read_regexp_submatch sm r pos =
  Ok (match sm (rest r pos) with
      | Some (m0 :: gs) => (pos + len_opt m0, Some (m0 :: gs))
      | _ => (pos, None)
      end).
Proof.
  intros D [M0 M1]. pose proof D as (Hb & Hlo & Hhi). unfold read_regexp_submatch.
  rewrite rest_nil_iff by exact Hlo.
  destruct (rest r pos) as [|b t] eqn:Hr; [rewrite M0; reflexivity|].
  rewrite M0. rewrite slice_from_rest by exact D. cbn [bind]. rewrite Hr.
  destruct (sm (b :: t)) as [gs|] eqn:Hm; [|reflexivity].
  destruct (M1 _ _ Hm) as (m & rs & -> & _). unfold reader_pos. do 2 f_equal. lia.
Qed.

Lemma nth_N_cons_pos {A} (x : A) l g : 1 <= g -> nth_N (x :: l) g = nth_error l (N.to_nat g - 1).
Proof.
  intros H. unfold nth_N. destruct (N.to_nat g) as [|k] eqn:E; [lia|]. cbn. rewrite Nat.sub_0_r. reflexivity.
Qed.

Theorem regexp_group_refines re g r pos : in_dom r pos -> nullable re = false -> 1 <= g <= count_groups re ->
  refines (LRegexp re g) pos (p_regexp re g r pos) (spec_regexp re g (rest r pos)).
Proof.
  intros D Hn Hg. unfold p_regexp, spec_regexp.
  replace (g =? 0) with false by (symmetry; apply N.eqb_neq; lia).
  rewrite read_regexp_submatch_spec' by (assumption || apply smatcher_ok_re; exact Hn).
  pose proof (re_find_submatch_spec re (rest r pos)) as Hs.
  destruct (rest r pos) as [|b t] eqn:Hr.
  { destruct (re_find_matcher_ok re Hn) as [M0 _]. rewrite M0 in Hs. rewrite Hs. cbn [bind snd]. apply refines_err0. reflexivity. }
  destruct (re_find re (b :: t)) as [n|] eqn:E.
  - destruct Hs as (gs & Hs & Hl). rewrite Hs. cbn [bind snd fst].
    rewrite nth_N_cons_pos by lia.
    assert (Hlt : (N.to_nat g - 1 < length gs)%nat) by (unfold len_N in Hl; lia).
    destruct (nth_error gs (N.to_nat g - 1)) as [x|] eqn:En.
    + rewrite (nth_error_nth _ _ None En). apply (refines_node (LRegexp re g)).
    + apply nth_error_None in En. lia.
  - rewrite Hs. cbn [bind snd]. apply refines_err0. reflexivity.
Qed.

(* an expression that is not nullable consumes at least one byte *)
Lemma rmatch_sfx_strict {A} r : nullable r = false -> forall s (k : @cont A) x,
  rmatch r s k = Some x -> exists t, sfx t s /\ len_N t < len_N s /\ k t = Some x.
Proof.
  induction r as [|neg rs|a IHa b IHb|a IHa b IHb|a IHa|a IHa|a IHa|n a IHa|a IHa]; intros Hn s k x H;
    cbn [nullable] in Hn; try discriminate; cbn [rmatch] in H.
  - destruct (next_rune s) as [[c t]|] eqn:E; [|discriminate].
    destruct (class_match neg rs c); [|discriminate].
    apply next_rune_sfx in E. exists t. tauto.
  - destruct (nullable a) eqn:Na.
    + cbn [andb] in Hn. apply rmatch_sfx in H. destruct H as (t & Ht & Hk).
      apply (IHb Hn) in Hk. destruct Hk as (t' & Ht' & Hlt & Hk').
      exists t'. split; [eapply sfx_trans; eassumption|]. split; [|exact Hk'].
      apply sfx_len in Ht. lia.
    + apply (IHa eq_refl) in H. destruct H as (t & Ht & Hlt & Hk).
      apply rmatch_sfx in Hk. destruct Hk as (t' & Ht' & Hk').
      exists t'. split; [eapply sfx_trans; eassumption|]. split; [|exact Hk'].
      apply sfx_len in Ht'. lia.
  - apply orb_false_iff in Hn. destruct Hn as [Na Nb].
    destruct (rmatch a s k) as [y|] eqn:E.
    + apply some_inj in H. subst y. apply (IHa Na) in E. exact E.
    + apply (IHb Nb) in H. exact H.
  - apply (IHa Hn) in H. destruct H as (t & Ht & Hlt & Hk).
    apply (star_loop_sfx _ (rmatch_sfx a)) in Hk. destruct Hk as (t' & Ht' & Hk').
    exists t'. split; [eapply sfx_trans; eassumption|]. split; [|exact Hk'].
    apply sfx_len in Ht'. lia.
  - destruct n as [|n]; [discriminate|]. cbn [rep_loop] in H.
    apply (IHa Hn) in H. destruct H as (t & Ht & Hlt & Hk).
    apply (rep_loop_sfx _ (rmatch_sfx a)) in Hk. destruct Hk as (t' & Ht' & Hk').
    exists t'. split; [eapply sfx_trans; eassumption|]. split; [|exact Hk'].
    apply sfx_len in Ht'. lia.
  - apply (IHa Hn) in H. exact H.
Qed.

(* ---- F.2 the master theorem and what the specification's answers look like ---- *)
Section Master.
  Variable conv_float : list N -> option N.
  Variable conv_dur : list N -> option Z.
  Notation lit_parse := (lit_parse conv_float conv_dur).
  Notation lit_spec := (lit_spec conv_float conv_dur).

  Theorem lit_refines l r pos : in_dom r pos -> lit_domain l = true ->
    refines l pos (lit_parse l r pos) (lit_spec l (rest r pos)).
  Proof.
    intros D Hd. destruct l; cbn [Literals.lit_parse Literals.lit_spec lit_domain] in *.
    - apply integer_refines; assumption.
    - apply float_refines; assumption.
    - apply string_refines; assumption.
    - apply char_refines; assumption.
    - apply andb_true_iff in Hd. destruct Hd. apply bool_refines; assumption.
    - apply nil_refines; assumption.
    - apply word_refines; assumption.
    - apply andb_true_iff in Hd. destruct Hd as [Hd _]. apply op_refines; [assumption|].
      intros ->. cbn in Hd. discriminate.
    - apply rune_refines; assumption.
    - apply duration_refines; assumption.
    - apply andb_true_iff in Hd. destruct Hd as [Hd Hg]. apply andb_true_iff in Hd. destruct Hd as [Hd _].
      apply negb_true_iff in Hd. apply N.leb_le in Hg.
      destruct (N.eq_dec group 0) as [->|Hne].
      + apply regexp0_refines; assumption.
      + apply regexp_group_refines; [assumption|assumption|lia].
  Qed.

  Lemma starts_with_byte_len q s : starts_with_byte q s = true -> 1 <= len_N s.
  Proof. destruct s; [discriminate|]. rewrite len_N_cons. lia. Qed.

  Lemma word_at_len w s : word_at w s = true -> len_N w <= len_N s.
  Proof. unfold word_at. intros H. apply andb_true_iff in H. destruct H as [H _]. apply has_prefix_len. exact H. Qed.

  (* a literal is never empty and lies inside the input; an error lies inside the input *)
  Definition spec_in_bounds (s : list N) (sr : spec_res) : Prop :=
    match sr with
    | SNode n _ => 1 <= n <= len_N s
    | SErr a _ => a <= len_N s
    end.

  Lemma spec_quoted_bounds q body t : (forall u, snd (body u) <= len_N u) ->
    match spec_quoted q body t with
    | SNode n _ => 1 <= n <= 1 + len_N t
    | SErr a _ => a <= 1 + len_N t
    end.
  Proof.
    intros Hb. unfold spec_quoted.
    destruct (starts_with_byte q t) eqn:E1.
    { apply starts_with_byte_len in E1. lia. }
    specialize (Hb t). destruct (body t) as [v m]. cbn [snd] in Hb.
    destruct (starts_with_byte q (drop m t)) eqn:E2; [|lia].
    apply starts_with_byte_len in E2. rewrite len_drop in E2. lia.
  Qed.

  Lemma sib_node s n v : 1 <= n <= len_N s -> spec_in_bounds s (SNode n v).
  Proof. intros H. exact H. Qed.
  Lemma sib_err s a nf : a <= len_N s -> spec_in_bounds s (SErr a nf).
  Proof. intros H. exact H. Qed.
  Lemma sib_quoted q body x t : (forall u, snd (body u) <= len_N u) ->
    spec_in_bounds (x :: t) (spec_quoted q body t).
  Proof.
    intros Hb. pose proof (spec_quoted_bounds q body t Hb) as H.
    destruct (spec_quoted q body t); [apply sib_node|apply sib_err]; rewrite len_N_cons; exact H.
  Qed.

  Theorem lit_spec_bounds l s : lit_domain l = true -> spec_in_bounds s (lit_spec l s).
  Proof.
    intros Hd. destruct l; cbn [Literals.lit_spec lit_domain] in *.
    - unfold spec_integer. destruct (int_lexeme s) as [n|] eqn:E; [|apply sib_err; lia].
      apply int_lexeme_le in E.
      destruct (starts_with_byte 46 (drop n s)); [apply sib_err; lia|].
      destruct (parse_int_base0 (take n s)); [apply sib_node|apply sib_err]; lia.
    - unfold spec_float. destruct (float_lexeme s) as [n|] eqn:E; [|apply sib_err; lia].
      apply float_lexeme_le in E. destruct (conv_float (take n s)); [apply sib_node|apply sib_err]; lia.
    - unfold spec_string. destruct s as [|q t]; [apply sib_err; lia|].
      destruct (q =? 34).
      { apply sib_quoted. intros u. apply (str_items_bounds (length u) u). }
      destruct (backquote && (q =? 96)); [|apply sib_err; lia].
      apply sib_quoted. intros u. unfold bq_body. cbn [snd]. apply span_le.
    - unfold spec_char. destruct s as [|q t]; [apply sib_err; lia|].
      destruct (q =? 39); [|apply sib_err; lia].
      destruct (char_body_len t) as [m|] eqn:E; [|apply sib_err; rewrite len_N_cons; lia].
      apply char_body_len_le in E.
      destruct (starts_with_byte 39 (drop m t)) eqn:E2; [|apply sib_err; rewrite len_N_cons; lia].
      apply starts_with_byte_len in E2. rewrite len_drop in E2.
      destruct (unquote_char (take m t) 39) as [[v n]|]; [destruct (n =? m)|];
        [apply sib_node|apply sib_err|apply sib_err]; rewrite len_N_cons; lia.
    - unfold spec_bool. apply andb_true_iff in Hd. destruct Hd as [H1 H2].
      apply ascii_nonempty_spec in H1, H2.
      destruct (word_at t s) eqn:E1.
      { apply word_at_len in E1. apply sib_node. destruct t; [tauto|]. rewrite len_N_cons in *. lia. }
      destruct (word_at f s) eqn:E2; [|apply sib_err; lia].
      apply word_at_len in E2. apply sib_node. destruct f; [tauto|]. rewrite len_N_cons in *. lia.
    - unfold spec_nil. apply ascii_nonempty_spec in Hd.
      destruct (word_at s0 s) eqn:E1; [|apply sib_err; lia].
      apply word_at_len in E1. apply sib_node. destruct s0; [tauto|]. rewrite len_N_cons in *. lia.
    - unfold spec_word. apply ascii_nonempty_spec in Hd.
      destruct (word_at w s) eqn:E1; [|apply sib_err; lia].
      apply word_at_len in E1. apply sib_node. destruct w; [tauto|]. rewrite len_N_cons in *. lia.
    - unfold spec_op. apply andb_true_iff in Hd. destruct Hd as [H1 _].
      destruct (has_prefix s s0) eqn:E1; [|apply sib_err; lia].
      apply has_prefix_len in E1. apply sib_node. destruct s0; [cbn in H1; discriminate|]. rewrite len_N_cons in *. lia.
    - unfold spec_rune. destruct (ch =? rune_error).
      + destruct s as [|b t]; [apply sib_err; lia|].
        destruct (fst (decode_rune (b :: t)) =? rune_error); [|apply sib_err; lia].
        apply sib_node. apply decode_width1.
      + destruct (has_prefix s (encode_rune ch)) eqn:E1; [|apply sib_err; lia].
        apply has_prefix_len in E1. apply sib_node. destruct (encode_len ch) as (H & _). lia.
    - unfold spec_duration. destruct (dur_lexeme s) as [n|] eqn:E; [|apply sib_err; lia].
      apply dur_lexeme_le in E. destruct (conv_dur (take n s)); [apply sib_node|apply sib_err]; lia.
    - unfold spec_regexp. destruct s as [|b t]; [apply sib_err; lia|].
      apply andb_true_iff in Hd. destruct Hd as [Hd _]. apply andb_true_iff in Hd. destruct Hd as [Hd _].
      apply negb_true_iff in Hd.
      assert (Hne : forall n, re_find re (b :: t) = Some n -> 1 <= n <= len_N (b :: t)).
      { intros n E. pose proof E as E'. apply re_find_spec in E'. destruct E' as [Hn Hm]. split; [|exact Hn].
        destruct (N.eq_dec n 0) as [->|Hne]; [|lia]. exfalso. rewrite drop_0 in Hm.
        (* a match that leaves the whole input is impossible for an expression that is not nullable *)
        apply (rmatch_sfx_strict re Hd) in Hm. destruct Hm as (t' & _ & Hlt & Hk).
        apply some_inj in Hk. subst t'. lia. }
      destruct (group =? 0).
      + destruct (re_find re (b :: t)) as [n|] eqn:E; [|apply sib_err; lia].
        apply sib_node. apply Hne. reflexivity.
      + pose proof (re_find_submatch_spec re (b :: t)) as Hsub.
        destruct (re_find re (b :: t)) as [n|] eqn:E.
        * destruct Hsub as (gs & -> & _). apply sib_node. specialize (Hne n eq_refl).
          cbn [len_opt]. rewrite len_take by lia. exact Hne.
        * rewrite Hsub. apply sib_err. lia.
  Qed.
End Master.

(* ---- F.3 corollaries, for every parser at once ---- *)
Section Corollaries.
  Variable conv_float : list N -> option N.
  Variable conv_dur : list N -> option Z.
  Notation lit_parse := (lit_parse conv_float conv_dur).
  Notation lit_spec := (lit_spec conv_float conv_dur).
  Variable l : literal.
  Variable r : reader.
  Variable pos : N.
  Hypothesis D : in_dom r pos.
  Hypothesis Hd : lit_domain l = true.

  (* never Panic (nor OutOfFuel) *)
  Theorem lit_total : exists res, lit_parse l r pos = Ok res.
  Proof. destruct (lit_refines conv_float conv_dur l r pos D Hd) as (res & H & _). exists res. exact H. Qed.

  Lemma lit_cases n e : lit_parse l r pos = Ok (n, e) ->
    match lit_spec l (rest r pos) with
    | SNode k v => k <= len_N (rest r pos) /\ 1 <= k /\ e = None /\
                   n = Some {| ln_token := lit_token l; ln_pos := pos; ln_rpos := pos + k; ln_value := v |}
    | SErr a nf => a <= len_N (rest r pos) /\ n = None /\
                   exists e0, e = Some e0 /\ le_pos e0 = pos + a /\ is_nf (le_kind e0) = nf
    end.
  Proof.
    intros H. destruct (lit_refines conv_float conv_dur l r pos D Hd) as (res & Hres & Hag).
    rewrite H in Hres. apply (f_equal (fun o => match o with Ok x => x | _ => (None, None) end)) in Hres. subst res.
    pose proof (lit_spec_bounds conv_float conv_dur l (rest r pos) Hd) as Hb.
    destruct (lit_spec l (rest r pos)) as [k v|a nf]; cbn [agrees spec_in_bounds] in *.
    - inversion Hag; subst. repeat split; try reflexivity; lia.
    - destruct Hag as (e0 & He & Hp & Hk). inversion He; subst. split; [exact Hb|]. split; [reflexivity|].
      exists e0. repeat split; assumption.
  Qed.

  (* exactly one of node / error *)
  Theorem lit_xor n e : lit_parse l r pos = Ok (n, e) -> (n = None /\ e <> None) \/ (n <> None /\ e = None).
  Proof.
    intros H. apply lit_cases in H. destruct (lit_spec l (rest r pos)).
    - destruct H as (_ & _ & -> & ->). right. split; [discriminate|reflexivity].
    - destruct H as (_ & -> & e0 & -> & _). left. split; [reflexivity|discriminate].
  Qed.

  (* an error is positioned between the offset and the end of the input *)
  Theorem lit_error_pos n e0 : lit_parse l r pos = Ok (n, Some e0) ->
    n = None /\ pos <= le_pos e0 <= r_offset r + r_len r.
  Proof.
    intros H. apply lit_cases in H. destruct D as (_ & Hlo & Hhi).
    pose proof (len_rest r pos Hlo) as L. destruct (lit_spec l (rest r pos)).
    - destruct H as (_ & _ & H & _). discriminate.
    - destruct H as (Ha & -> & e1 & He & Hp & _). inversion He; subst. split; [reflexivity|]. lia.
  Qed.

  (* a node starts at the position, has the parser's token, is not empty and ends inside the input *)
  Theorem lit_span nd e : lit_parse l r pos = Ok (Some nd, e) ->
    e = None /\ ln_token nd = lit_token l /\ ln_pos nd = pos /\ pos < ln_rpos nd <= r_offset r + r_len r.
  Proof.
    intros H. apply lit_cases in H. destruct D as (_ & Hlo & Hhi).
    pose proof (len_rest r pos Hlo) as L. destruct (lit_spec l (rest r pos)).
    - destruct H as (Hk & Hk1 & -> & Hn). inversion Hn; subst. cbn. repeat split; try reflexivity; lia.
    - destruct H as (_ & H & _). discriminate.
  Qed.

  (* the node ends right after the specification's literal and carries the specification's value *)
  Theorem lit_node_spec nd e : lit_parse l r pos = Ok (Some nd, e) ->
    lit_spec l (rest r pos) = SNode (ln_rpos nd - pos) (ln_value nd).
  Proof.
    intros H. apply lit_cases in H. destruct (lit_spec l (rest r pos)).
    - destruct H as (_ & _ & _ & Hn). inversion Hn; subst. cbn. f_equal. lia.
    - destruct H as (_ & H & _). discriminate.
  Qed.

  (* an error means that the specification has no literal there *)
  Theorem lit_error_spec e0 n : lit_parse l r pos = Ok (n, Some e0) ->
    lit_spec l (rest r pos) = SErr (le_pos e0 - pos) (is_nf (le_kind e0)).
  Proof.
    intros H. apply lit_cases in H. destruct (lit_spec l (rest r pos)).
    - destruct H as (_ & _ & H & _). discriminate.
    - destruct H as (_ & _ & e1 & He & Hp & Hk). inversion He; subst. f_equal. lia.
  Qed.

  (* conversely, whenever the specification has a literal the parser returns its node *)
  Theorem lit_complete k v : lit_spec l (rest r pos) = SNode k v ->
    lit_parse l r pos = Ok (Some {| ln_token := lit_token l; ln_pos := pos; ln_rpos := pos + k; ln_value := v |}, None).
  Proof.
    intros H. destruct (lit_refines conv_float conv_dur l r pos D Hd) as (res & Hres & Hag).
    rewrite H in Hag. cbn [agrees] in Hag. subst res. exact Hres.
  Qed.
End Corollaries.

(* ---- F.4 the same, parser by parser, with the specification unfolded ---- *)
Lemma snode_inj a b c d : SNode a b = SNode c d -> a = c /\ b = d.
Proof. intros H. split; congruence. Qed.

Section PerParser.
  Variable conv_float : list N -> option N.
  Variable conv_dur : list N -> option Z.
  Variable r : reader.
  Variable pos : N.
  Hypothesis D : in_dom r pos.
  Notation s := (rest r pos).
  Notation len nd := (ln_rpos nd - pos).

  (* Integer: the longest integer literal, not followed by '.', decoded as ParseInt(_, 0, 64) *)
  Theorem integer_longest nd e : p_integer r pos = Ok (Some nd, e) ->
    int_lexeme s = Some (len nd) /\ starts_with_byte 46 (drop (len nd) s) = false.
  Proof.
    intros H. pose proof (lit_node_spec conv_float conv_dur LInteger r pos D eq_refl nd e H) as Hs.
    cbn [lit_spec] in Hs. unfold spec_integer in Hs.
    destruct (int_lexeme s) as [n|]; [|discriminate].
    destruct (starts_with_byte 46 (drop n s)) eqn:E; [discriminate|].
    destruct (parse_int_base0 (take n s)); [|discriminate].
    apply snode_inj in Hs. destruct Hs as [<- _]. split; [reflexivity|exact E].
  Qed.
  Theorem integer_value nd e : p_integer r pos = Ok (Some nd, e) ->
    exists z, parse_int_base0 (take (len nd) s) = Some z /\ ln_value nd = VInt z.
  Proof.
    intros H. pose proof (lit_node_spec conv_float conv_dur LInteger r pos D eq_refl nd e H) as Hs.
    cbn [lit_spec] in Hs. unfold spec_integer in Hs.
    destruct (int_lexeme s) as [n|]; [|discriminate].
    destruct (starts_with_byte 46 (drop n s)); [discriminate|].
    destruct (parse_int_base0 (take n s)) as [z|] eqn:E; [|discriminate].
    apply snode_inj in Hs. destruct Hs as [<- <-]. exists z. split; [exact E|reflexivity].
  Qed.
  (* an integer literal outside int64, or the prefix of a float, is an error at the position *)
  Theorem integer_error e0 n : p_integer r pos = Ok (n, Some e0) -> le_pos e0 = pos.
  Proof.
    intros H. pose proof (lit_error_spec conv_float conv_dur LInteger r pos D eq_refl e0 n H) as Hs.
    pose proof (lit_error_pos conv_float conv_dur LInteger r pos D eq_refl n e0 H) as [_ Hp].
    cbn [lit_spec] in Hs. unfold spec_integer in Hs.
    assert (Hz : le_pos e0 - pos = 0).
    { destruct (int_lexeme s) as [k|]; [|congruence].
      destruct (starts_with_byte 46 (drop k s)); [congruence|].
      destruct (parse_int_base0 (take k s)); [discriminate|congruence]. }
    lia.
  Qed.

  (* Float / TimeDuration: the longest literal; the value is the converter's *)
  Theorem float_longest nd e : p_float conv_float r pos = Ok (Some nd, e) -> float_lexeme s = Some (len nd).
  Proof.
    intros H. pose proof (lit_node_spec conv_float conv_dur LFloat r pos D eq_refl nd e H) as Hs.
    cbn [lit_spec] in Hs. unfold spec_float in Hs.
    destruct (float_lexeme s) as [n|]; [|discriminate].
    destruct (conv_float (take n s)); [|discriminate].
    apply snode_inj in Hs. destruct Hs as [<- _]. reflexivity.
  Qed.
  Theorem float_value nd e : p_float conv_float r pos = Ok (Some nd, e) ->
    exists b, conv_float (take (len nd) s) = Some b /\ ln_value nd = VFloat b.
  Proof.
    intros H. pose proof (lit_node_spec conv_float conv_dur LFloat r pos D eq_refl nd e H) as Hs.
    cbn [lit_spec] in Hs. unfold spec_float in Hs.
    destruct (float_lexeme s) as [n|]; [|discriminate].
    destruct (conv_float (take n s)) as [b|] eqn:E; [|discriminate].
    apply snode_inj in Hs. destruct Hs as [<- <-]. exists b. split; [exact E|reflexivity].
  Qed.
  Theorem duration_longest nd e : p_duration conv_dur r pos = Ok (Some nd, e) -> dur_lexeme s = Some (len nd).
  Proof.
    intros H. pose proof (lit_node_spec conv_float conv_dur LDuration r pos D eq_refl nd e H) as Hs.
    cbn [lit_spec] in Hs. unfold spec_duration in Hs.
    destruct (dur_lexeme s) as [n|]; [|discriminate].
    destruct (conv_dur (take n s)); [|discriminate].
    apply snode_inj in Hs. destruct Hs as [<- _]. reflexivity.
  Qed.
  Theorem duration_value nd e : p_duration conv_dur r pos = Ok (Some nd, e) ->
    exists d, conv_dur (take (len nd) s) = Some d /\ ln_value nd = VDur d.
  Proof.
    intros H. pose proof (lit_node_spec conv_float conv_dur LDuration r pos D eq_refl nd e H) as Hs.
    cbn [lit_spec] in Hs. unfold spec_duration in Hs.
    destruct (dur_lexeme s) as [n|]; [|discriminate].
    destruct (conv_dur (take n s)) as [b|] eqn:E; [|discriminate].
    apply snode_inj in Hs. destruct Hs as [<- <-]. exists b. split; [exact E|reflexivity].
  Qed.

  (* Char: quote, one escape or character, quote; the value is UnquoteChar of the body, all of it *)
  Theorem char_longest nd e : p_char r pos = Ok (Some nd, e) ->
    exists t m, s = 39 :: t /\ char_body_len t = Some m /\ starts_with_byte 39 (drop m t) = true /\ len nd = m + 2.
  Proof.
    intros H. pose proof (lit_node_spec conv_float conv_dur LChar r pos D eq_refl nd e H) as Hs.
    cbn [lit_spec] in Hs. unfold spec_char in Hs.
    destruct s as [|q t]; [discriminate|].
    destruct (q =? 39) eqn:Eq; [|discriminate]. apply N.eqb_eq in Eq. subst q.
    destruct (char_body_len t) as [m|] eqn:Em; [|discriminate].
    destruct (starts_with_byte 39 (drop m t)) eqn:E2; [|discriminate].
    destruct (unquote_char (take m t) 39) as [[v n]|]; [|discriminate].
    destruct (n =? m); [|discriminate].
    apply snode_inj in Hs. destruct Hs as [<- _]. exists t, m. repeat split; assumption || reflexivity.
  Qed.
  Theorem char_value nd e : p_char r pos = Ok (Some nd, e) ->
    exists t m v, s = 39 :: t /\ char_body_len t = Some m /\
                  unquote_char (take m t) 39 = Some (v, m) /\ ln_value nd = VChar v.
  Proof.
    intros H. pose proof (lit_node_spec conv_float conv_dur LChar r pos D eq_refl nd e H) as Hs.
    cbn [lit_spec] in Hs. unfold spec_char in Hs.
    destruct s as [|q t]; [discriminate|].
    destruct (q =? 39) eqn:Eq; [|discriminate]. apply N.eqb_eq in Eq. subst q.
    destruct (char_body_len t) as [m|] eqn:Em; [|discriminate].
    destruct (starts_with_byte 39 (drop m t)) eqn:E2; [|discriminate].
    destruct (unquote_char (take m t) 39) as [[v n]|] eqn:Eu; [|discriminate].
    destruct (n =? m) eqn:En; [|discriminate]. apply N.eqb_eq in En. subst n.
    apply snode_inj in Hs. destruct Hs as [_ <-]. exists t, m, v. repeat split; assumption || reflexivity.
  Qed.

  (* String: quote, body, quote.  Double-quoted: the body is the longest sequence of items of Go's
     escape syntax without a raw CR/LF, the value its code points in UTF-8.  Back-quoted: raw. *)
  Definition string_body (q : N) (t : list N) : list N * N := if q =? 34 then str_body t else bq_body t.
  Theorem string_longest bq nd e : p_string bq r pos = Ok (Some nd, e) ->
    exists q t, s = q :: t /\ (q = 34 \/ (bq = true /\ q = 96)) /\
      if starts_with_byte q t then len nd = 2
      else starts_with_byte q (drop (snd (string_body q t)) t) = true /\ len nd = snd (string_body q t) + 2.
  Proof.
    intros H. pose proof (lit_node_spec conv_float conv_dur (LString bq) r pos D eq_refl nd e H) as Hs.
    cbn [lit_spec] in Hs. unfold spec_string in Hs.
    destruct s as [|q t]; [discriminate|]. exists q, t. split; [reflexivity|]. unfold string_body.
    destruct (q =? 34) eqn:E34.
    - apply N.eqb_eq in E34. subst q. split; [left; reflexivity|]. unfold spec_quoted in Hs.
      destruct (starts_with_byte 34 t).
      + apply snode_inj in Hs. destruct Hs as [<- _]. reflexivity.
      + destruct (str_body t) as [v m]. cbn [snd].
        destruct (starts_with_byte 34 (drop m t)) eqn:E2; [|discriminate].
        apply snode_inj in Hs. destruct Hs as [<- _]. split; reflexivity.
    - destruct bq; cbn [andb] in Hs; [|discriminate].
      destruct (q =? 96) eqn:E96; [|discriminate]. apply N.eqb_eq in E96. subst q.
      split; [right; split; reflexivity|]. unfold spec_quoted in Hs.
      destruct (starts_with_byte 96 t).
      + apply snode_inj in Hs. destruct Hs as [<- _]. reflexivity.
      + destruct (bq_body t) as [v m]. cbn [snd].
        destruct (starts_with_byte 96 (drop m t)) eqn:E2; [|discriminate].
        apply snode_inj in Hs. destruct Hs as [<- _]. split; reflexivity.
  Qed.
  Theorem string_value bq nd e : p_string bq r pos = Ok (Some nd, e) ->
    exists q t, s = q :: t /\
      ln_value nd = VStr (if starts_with_byte q t then [] else fst (string_body q t)).
  Proof.
    intros H. pose proof (lit_node_spec conv_float conv_dur (LString bq) r pos D eq_refl nd e H) as Hs.
    cbn [lit_spec] in Hs. unfold spec_string in Hs.
    destruct s as [|q t]; [discriminate|]. exists q, t. split; [reflexivity|]. unfold string_body.
    destruct (q =? 34) eqn:E34.
    - apply N.eqb_eq in E34. subst q. unfold spec_quoted in Hs.
      destruct (starts_with_byte 34 t).
      + apply snode_inj in Hs. destruct Hs as [_ <-]. reflexivity.
      + destruct (str_body t) as [v m]. cbn [fst].
        destruct (starts_with_byte 34 (drop m t)); [|discriminate].
        apply snode_inj in Hs. destruct Hs as [_ <-]. reflexivity.
    - destruct bq; cbn [andb] in Hs; [|discriminate].
      destruct (q =? 96) eqn:E96; [|discriminate]. apply N.eqb_eq in E96. subst q.
      unfold spec_quoted in Hs.
      destruct (starts_with_byte 96 t).
      + apply snode_inj in Hs. destruct Hs as [_ <-]. reflexivity.
      + destruct (bq_body t) as [v m]. cbn [fst].
        destruct (starts_with_byte 96 (drop m t)); [|discriminate].
        apply snode_inj in Hs. destruct Hs as [_ <-]. reflexivity.
  Qed.

  (* Bool, Nil, Word: the word, not followed by a word character *)
  Theorem bool_longest_value t f nd e : ascii_nonempty t = true -> ascii_nonempty f = true ->
    p_bool t f r pos = Ok (Some nd, e) ->
    (word_at t s = true /\ len nd = len_N t /\ ln_value nd = VBool true) \/
    (word_at t s = false /\ word_at f s = true /\ len nd = len_N f /\ ln_value nd = VBool false).
  Proof.
    intros Ht Hf H.
    assert (Hd : lit_domain (LBool t f) = true) by (cbn; rewrite Ht, Hf; reflexivity).
    pose proof (lit_node_spec conv_float conv_dur (LBool t f) r pos D Hd nd e H) as Hs.
    cbn [lit_spec] in Hs. unfold spec_bool in Hs.
    destruct (word_at t s).
    - apply snode_inj in Hs. destruct Hs as [<- <-]. left. repeat split; reflexivity.
    - destruct (word_at f s); [|discriminate].
      apply snode_inj in Hs. destruct Hs as [<- <-]. right. repeat split; reflexivity.
  Qed.
  Theorem nil_longest_value w nd e : ascii_nonempty w = true -> p_nil w r pos = Ok (Some nd, e) ->
    word_at w s = true /\ len nd = len_N w /\ ln_value nd = VNil.
  Proof.
    intros Hw H.
    pose proof (lit_node_spec conv_float conv_dur (LNil w) r pos D Hw nd e H) as Hs.
    cbn [lit_spec] in Hs. unfold spec_nil in Hs.
    destruct (word_at w s); [|discriminate].
    apply snode_inj in Hs. destruct Hs as [<- <-]. repeat split; reflexivity.
  Qed.
  Theorem word_longest_value w nd e : ascii_nonempty w = true -> p_word w r pos = Ok (Some nd, e) ->
    word_at w s = true /\ len nd = len_N w /\ ln_value nd = VStr w.
  Proof.
    intros Hw H.
    pose proof (lit_node_spec conv_float conv_dur (LWord w) r pos D Hw nd e H) as Hs.
    cbn [lit_spec] in Hs. unfold spec_word in Hs.
    destruct (word_at w s); [|discriminate].
    apply snode_inj in Hs. destruct Hs as [<- <-]. repeat split; reflexivity.
  Qed.
  (* Op: the string itself *)
  Theorem op_longest_value o nd e : o <> [] -> bytes_ok o -> p_op o r pos = Ok (Some nd, e) ->
    has_prefix s o = true /\ len nd = len_N o /\ ln_value nd = VStr o.
  Proof.
    intros Ho Hb H.
    assert (Hd : lit_domain (LOp o) = true).
    { cbn. apply andb_true_iff. split.
      - destruct o; [congruence|]. rewrite len_N_cons. apply negb_true_iff. apply N.eqb_neq. lia.
      - unfold bytes_okb. apply forallb_forall. intros x Hx. unfold bytes_ok in Hb. rewrite Forall_forall in Hb.
        apply N.ltb_lt. apply Hb. exact Hx. }
    pose proof (lit_node_spec conv_float conv_dur (LOp o) r pos D Hd nd e H) as Hs.
    cbn [lit_spec] in Hs. unfold spec_op in Hs.
    destruct (has_prefix s o); [|discriminate].
    apply snode_inj in Hs. destruct Hs as [<- <-]. repeat split; reflexivity.
  Qed.
  (* Rune: the rune's UTF-8 encoding (U+FFFD also stands for any ill-formed byte) *)
  Theorem rune_longest_value ch nd e : valid_rune ch = true -> ch <> rune_error -> p_rune ch r pos = Ok (Some nd, e) ->
    has_prefix s (encode_rune ch) = true /\ len nd = len_N (encode_rune ch) /\ ln_value nd = VChar ch.
  Proof.
    intros Hv Hne H.
    pose proof (lit_node_spec conv_float conv_dur (LRune ch) r pos D Hv nd e H) as Hs.
    cbn [lit_spec] in Hs. unfold spec_rune in Hs.
    replace (ch =? rune_error) with false in Hs by (symmetry; apply N.eqb_neq; exact Hne).
    destruct (has_prefix s (encode_rune ch)); [|discriminate].
    apply snode_inj in Hs. destruct Hs as [<- <-]. repeat split; reflexivity.
  Qed.
  (* Regexp, group 0: the leftmost-first match of the expression; the value is the matched bytes *)
  Theorem regexp_longest_value re nd e : nullable re = false -> star_ok re = true ->
    p_regexp re 0 r pos = Ok (Some nd, e) ->
    re_find re s = Some (len nd) /\ ln_value nd = VStr (take (len nd) s).
  Proof.
    intros Hn Hst H.
    assert (Hd : lit_domain (LRegexp re 0) = true).
    { cbn [lit_domain]. rewrite Hn, Hst. cbn [negb andb]. apply N.leb_le. lia. }
    pose proof (lit_node_spec conv_float conv_dur (LRegexp re 0) r pos D Hd nd e H) as Hs.
    cbn [lit_spec] in Hs. unfold spec_regexp in Hs. cbn [N.eqb] in Hs.
    destruct s as [|b t]; [discriminate|].
    destruct (re_find re (b :: t)) as [n|]; [|discriminate].
    apply snode_inj in Hs. destruct Hs as [<- <-]. split; reflexivity.
  Qed.
  (* Regexp, group index g >= 1: the same match; the value is the bytes of the g-th group (empty if the
     group did not participate) *)
  Theorem regexp_group_longest_value re g nd e : lit_domain (LRegexp re g) = true -> 1 <= g ->
    p_regexp re g r pos = Ok (Some nd, e) ->
    exists gs, re_find re s = Some (len nd) /\
               re_find_submatch re s = Some (Some (take (len nd) s) :: gs) /\
               ln_value nd = VStr (bytes_of_opt (nth (N.to_nat g - 1) gs None)).
  Proof.
    intros Hd Hg H.
    pose proof (lit_node_spec conv_float conv_dur (LRegexp re g) r pos D Hd nd e H) as Hs.
    cbn [lit_spec] in Hs. unfold spec_regexp in Hs.
    replace (g =? 0) with false in Hs by (symmetry; apply N.eqb_neq; lia).
    pose proof (re_find_submatch_spec re s) as Hsub.
    destruct s as [|b t]; [discriminate|].
    destruct (re_find re (b :: t)) as [n|] eqn:E.
    - destruct Hsub as (gs & Hsub & _). rewrite Hsub in Hs.
      apply snode_inj in Hs. destruct Hs as [Hn <-]. exists gs.
      assert (Hle : n <= len_N (b :: t)) by (apply re_find_spec in E; tauto).
      cbn [len_opt] in Hn. rewrite len_take in Hn by exact Hle. rewrite <- Hn.
      split; [reflexivity|]. split; [exact Hsub|reflexivity].
    - rewrite Hsub in Hs. discriminate.
  Qed.
End PerParser.


(* ---- F.5 the four generic corollaries instantiated parser by parser (names *_total, *_xor,
   *_error_pos, *_span); [cf], [cd] are the two converters ---- *)
Section PerParserInstances.
  Variable cf : list N -> option N.
  Variable cd : list N -> option Z.
  Variable r : reader.
  Variable pos : N.
  Hypothesis D : in_dom r pos.

  Theorem integer_total  : exists res, p_integer r pos = Ok res.
  Proof. exact (lit_total cf cd LInteger r pos D eq_refl). Qed.
  Theorem integer_xor  n e : p_integer r pos = Ok (n, e) -> (n = None /\ e <> None) \/ (n <> None /\ e = None).
  Proof. exact (lit_xor cf cd LInteger r pos D eq_refl n e). Qed.
  Theorem integer_error_pos  n e0 : p_integer r pos = Ok (n, Some e0) -> n = None /\ pos <= le_pos e0 <= r_offset r + r_len r.
  Proof. exact (lit_error_pos cf cd LInteger r pos D eq_refl n e0). Qed.
  Theorem integer_span  nd e : p_integer r pos = Ok (Some nd, e) ->
    e = None /\ ln_token nd = lit_token LInteger /\ ln_pos nd = pos /\ pos < ln_rpos nd <= r_offset r + r_len r.
  Proof. exact (lit_span cf cd LInteger r pos D eq_refl nd e). Qed.
  Theorem float_total  : exists res, p_float cf r pos = Ok res.
  Proof. exact (lit_total cf cd LFloat r pos D eq_refl). Qed.
  Theorem float_xor  n e : p_float cf r pos = Ok (n, e) -> (n = None /\ e <> None) \/ (n <> None /\ e = None).
  Proof. exact (lit_xor cf cd LFloat r pos D eq_refl n e). Qed.
  Theorem float_error_pos  n e0 : p_float cf r pos = Ok (n, Some e0) -> n = None /\ pos <= le_pos e0 <= r_offset r + r_len r.
  Proof. exact (lit_error_pos cf cd LFloat r pos D eq_refl n e0). Qed.
  Theorem float_span  nd e : p_float cf r pos = Ok (Some nd, e) ->
    e = None /\ ln_token nd = lit_token LFloat /\ ln_pos nd = pos /\ pos < ln_rpos nd <= r_offset r + r_len r.
  Proof. exact (lit_span cf cd LFloat r pos D eq_refl nd e). Qed.
  Theorem string_total (bq : bool) : exists res, p_string bq r pos = Ok res.
  Proof. exact (lit_total cf cd (LString bq) r pos D eq_refl). Qed.
  Theorem string_xor (bq : bool) n e : p_string bq r pos = Ok (n, e) -> (n = None /\ e <> None) \/ (n <> None /\ e = None).
  Proof. exact (lit_xor cf cd (LString bq) r pos D eq_refl n e). Qed.
  Theorem string_error_pos (bq : bool) n e0 : p_string bq r pos = Ok (n, Some e0) -> n = None /\ pos <= le_pos e0 <= r_offset r + r_len r.
  Proof. exact (lit_error_pos cf cd (LString bq) r pos D eq_refl n e0). Qed.
  Theorem string_span (bq : bool) nd e : p_string bq r pos = Ok (Some nd, e) ->
    e = None /\ ln_token nd = lit_token (LString bq) /\ ln_pos nd = pos /\ pos < ln_rpos nd <= r_offset r + r_len r.
  Proof. exact (lit_span cf cd (LString bq) r pos D eq_refl nd e). Qed.
  Theorem char_total  : exists res, p_char r pos = Ok res.
  Proof. exact (lit_total cf cd LChar r pos D eq_refl). Qed.
  Theorem char_xor  n e : p_char r pos = Ok (n, e) -> (n = None /\ e <> None) \/ (n <> None /\ e = None).
  Proof. exact (lit_xor cf cd LChar r pos D eq_refl n e). Qed.
  Theorem char_error_pos  n e0 : p_char r pos = Ok (n, Some e0) -> n = None /\ pos <= le_pos e0 <= r_offset r + r_len r.
  Proof. exact (lit_error_pos cf cd LChar r pos D eq_refl n e0). Qed.
  Theorem char_span  nd e : p_char r pos = Ok (Some nd, e) ->
    e = None /\ ln_token nd = lit_token LChar /\ ln_pos nd = pos /\ pos < ln_rpos nd <= r_offset r + r_len r.
  Proof. exact (lit_span cf cd LChar r pos D eq_refl nd e). Qed.
  Theorem bool_total (t f : list N) (Hd : lit_domain (LBool t f) = true) : exists res, p_bool t f r pos = Ok res.
  Proof. exact (lit_total cf cd (LBool t f) r pos D Hd). Qed.
  Theorem bool_xor (t f : list N) (Hd : lit_domain (LBool t f) = true) n e : p_bool t f r pos = Ok (n, e) -> (n = None /\ e <> None) \/ (n <> None /\ e = None).
  Proof. exact (lit_xor cf cd (LBool t f) r pos D Hd n e). Qed.
  Theorem bool_error_pos (t f : list N) (Hd : lit_domain (LBool t f) = true) n e0 : p_bool t f r pos = Ok (n, Some e0) -> n = None /\ pos <= le_pos e0 <= r_offset r + r_len r.
  Proof. exact (lit_error_pos cf cd (LBool t f) r pos D Hd n e0). Qed.
  Theorem bool_span (t f : list N) (Hd : lit_domain (LBool t f) = true) nd e : p_bool t f r pos = Ok (Some nd, e) ->
    e = None /\ ln_token nd = lit_token (LBool t f) /\ ln_pos nd = pos /\ pos < ln_rpos nd <= r_offset r + r_len r.
  Proof. exact (lit_span cf cd (LBool t f) r pos D Hd nd e). Qed.
  Theorem nil_total (w : list N) (Hd : lit_domain (LNil w) = true) : exists res, p_nil w r pos = Ok res.
  Proof. exact (lit_total cf cd (LNil w) r pos D Hd). Qed.
  Theorem nil_xor (w : list N) (Hd : lit_domain (LNil w) = true) n e : p_nil w r pos = Ok (n, e) -> (n = None /\ e <> None) \/ (n <> None /\ e = None).
  Proof. exact (lit_xor cf cd (LNil w) r pos D Hd n e). Qed.
  Theorem nil_error_pos (w : list N) (Hd : lit_domain (LNil w) = true) n e0 : p_nil w r pos = Ok (n, Some e0) -> n = None /\ pos <= le_pos e0 <= r_offset r + r_len r.
  Proof. exact (lit_error_pos cf cd (LNil w) r pos D Hd n e0). Qed.
  Theorem nil_span (w : list N) (Hd : lit_domain (LNil w) = true) nd e : p_nil w r pos = Ok (Some nd, e) ->
    e = None /\ ln_token nd = lit_token (LNil w) /\ ln_pos nd = pos /\ pos < ln_rpos nd <= r_offset r + r_len r.
  Proof. exact (lit_span cf cd (LNil w) r pos D Hd nd e). Qed.
  Theorem word_total (w : list N) (Hd : lit_domain (LWord w) = true) : exists res, p_word w r pos = Ok res.
  Proof. exact (lit_total cf cd (LWord w) r pos D Hd). Qed.
  Theorem word_xor (w : list N) (Hd : lit_domain (LWord w) = true) n e : p_word w r pos = Ok (n, e) -> (n = None /\ e <> None) \/ (n <> None /\ e = None).
  Proof. exact (lit_xor cf cd (LWord w) r pos D Hd n e). Qed.
  Theorem word_error_pos (w : list N) (Hd : lit_domain (LWord w) = true) n e0 : p_word w r pos = Ok (n, Some e0) -> n = None /\ pos <= le_pos e0 <= r_offset r + r_len r.
  Proof. exact (lit_error_pos cf cd (LWord w) r pos D Hd n e0). Qed.
  Theorem word_span (w : list N) (Hd : lit_domain (LWord w) = true) nd e : p_word w r pos = Ok (Some nd, e) ->
    e = None /\ ln_token nd = lit_token (LWord w) /\ ln_pos nd = pos /\ pos < ln_rpos nd <= r_offset r + r_len r.
  Proof. exact (lit_span cf cd (LWord w) r pos D Hd nd e). Qed.
  Theorem op_total (o : list N) (Hd : lit_domain (LOp o) = true) : exists res, p_op o r pos = Ok res.
  Proof. exact (lit_total cf cd (LOp o) r pos D Hd). Qed.
  Theorem op_xor (o : list N) (Hd : lit_domain (LOp o) = true) n e : p_op o r pos = Ok (n, e) -> (n = None /\ e <> None) \/ (n <> None /\ e = None).
  Proof. exact (lit_xor cf cd (LOp o) r pos D Hd n e). Qed.
  Theorem op_error_pos (o : list N) (Hd : lit_domain (LOp o) = true) n e0 : p_op o r pos = Ok (n, Some e0) -> n = None /\ pos <= le_pos e0 <= r_offset r + r_len r.
  Proof. exact (lit_error_pos cf cd (LOp o) r pos D Hd n e0). Qed.
  Theorem op_span (o : list N) (Hd : lit_domain (LOp o) = true) nd e : p_op o r pos = Ok (Some nd, e) ->
    e = None /\ ln_token nd = lit_token (LOp o) /\ ln_pos nd = pos /\ pos < ln_rpos nd <= r_offset r + r_len r.
  Proof. exact (lit_span cf cd (LOp o) r pos D Hd nd e). Qed.
  Theorem rune_total (ch : N) (Hd : lit_domain (LRune ch) = true) : exists res, p_rune ch r pos = Ok res.
  Proof. exact (lit_total cf cd (LRune ch) r pos D Hd). Qed.
  Theorem rune_xor (ch : N) (Hd : lit_domain (LRune ch) = true) n e : p_rune ch r pos = Ok (n, e) -> (n = None /\ e <> None) \/ (n <> None /\ e = None).
  Proof. exact (lit_xor cf cd (LRune ch) r pos D Hd n e). Qed.
  Theorem rune_error_pos (ch : N) (Hd : lit_domain (LRune ch) = true) n e0 : p_rune ch r pos = Ok (n, Some e0) -> n = None /\ pos <= le_pos e0 <= r_offset r + r_len r.
  Proof. exact (lit_error_pos cf cd (LRune ch) r pos D Hd n e0). Qed.
  Theorem rune_span (ch : N) (Hd : lit_domain (LRune ch) = true) nd e : p_rune ch r pos = Ok (Some nd, e) ->
    e = None /\ ln_token nd = lit_token (LRune ch) /\ ln_pos nd = pos /\ pos < ln_rpos nd <= r_offset r + r_len r.
  Proof. exact (lit_span cf cd (LRune ch) r pos D Hd nd e). Qed.
  Theorem regexp_total (re : regex) (Hd : lit_domain (LRegexp re 0) = true) : exists res, p_regexp re 0 r pos = Ok res.
  Proof. exact (lit_total cf cd (LRegexp re 0) r pos D Hd). Qed.
  Theorem regexp_xor (re : regex) (Hd : lit_domain (LRegexp re 0) = true) n e : p_regexp re 0 r pos = Ok (n, e) -> (n = None /\ e <> None) \/ (n <> None /\ e = None).
  Proof. exact (lit_xor cf cd (LRegexp re 0) r pos D Hd n e). Qed.
  Theorem regexp_error_pos (re : regex) (Hd : lit_domain (LRegexp re 0) = true) n e0 : p_regexp re 0 r pos = Ok (n, Some e0) -> n = None /\ pos <= le_pos e0 <= r_offset r + r_len r.
  Proof. exact (lit_error_pos cf cd (LRegexp re 0) r pos D Hd n e0). Qed.
  Theorem regexp_span (re : regex) (Hd : lit_domain (LRegexp re 0) = true) nd e : p_regexp re 0 r pos = Ok (Some nd, e) ->
    e = None /\ ln_token nd = lit_token (LRegexp re 0) /\ ln_pos nd = pos /\ pos < ln_rpos nd <= r_offset r + r_len r.
  Proof. exact (lit_span cf cd (LRegexp re 0) r pos D Hd nd e). Qed.
  Theorem duration_total  : exists res, p_duration cd r pos = Ok res.
  Proof. exact (lit_total cf cd LDuration r pos D eq_refl). Qed.
  Theorem duration_xor  n e : p_duration cd r pos = Ok (n, e) -> (n = None /\ e <> None) \/ (n <> None /\ e = None).
  Proof. exact (lit_xor cf cd LDuration r pos D eq_refl n e). Qed.
  Theorem duration_error_pos  n e0 : p_duration cd r pos = Ok (n, Some e0) -> n = None /\ pos <= le_pos e0 <= r_offset r + r_len r.
  Proof. exact (lit_error_pos cf cd LDuration r pos D eq_refl n e0). Qed.
  Theorem duration_span  nd e : p_duration cd r pos = Ok (Some nd, e) ->
    e = None /\ ln_token nd = lit_token LDuration /\ ln_pos nd = pos /\ pos < ln_rpos nd <= r_offset r + r_len r.
  Proof. exact (lit_span cf cd LDuration r pos D eq_refl nd e). Qed.
End PerParserInstances.

(* ---- non-vacuity: the hypotheses are satisfiable and both outcomes occur ---- *)
Definition ex_reader : reader := new_reader (str_bytes "x 0x1F ""a\n"" 1.5 'q' 9223372036854775808") 17.
Example ex_in_dom : in_dom ex_reader 19.
Proof.
  split; [|split; [vm_compute; discriminate|vm_compute; discriminate]].
  unfold bytes_ok. apply Forall_forall. intros b Hb. apply N.ltb_lt.
  assert (H : forallb (fun b => b <? 256) (r_data ex_reader) = true) by (vm_compute; reflexivity).
  rewrite forallb_forall in H. apply H. exact Hb.
Qed.
Example ex_integer_node :
  p_integer ex_reader 19 = Ok (Some {| ln_token := str_bytes "INTEGER"; ln_pos := 19; ln_rpos := 23; ln_value := VInt 31 |}, None).
Proof. vm_compute. reflexivity. Qed.
Example ex_integer_range : exists e, p_integer ex_reader 38 = Ok (None, Some e) /\ le_pos e = 38 /\ is_nf (le_kind e) = false.
Proof. eexists. split; [vm_compute; reflexivity|]. split; reflexivity. Qed.
Example ex_integer_float_prefix : exists e, p_integer ex_reader 30 = Ok (None, Some e) /\ is_nf (le_kind e) = true.
Proof. eexists. split; [vm_compute; reflexivity|]. reflexivity. Qed.
Example ex_string_node :
  p_string false ex_reader 24 = Ok (Some {| ln_token := str_bytes "STRING"; ln_pos := 24; ln_rpos := 29; ln_value := VStr [97; 10] |}, None).
Proof. vm_compute. reflexivity. Qed.
Example ex_char_node :
  p_char ex_reader 34 = Ok (Some {| ln_token := str_bytes "CHAR"; ln_pos := 34; ln_rpos := 37; ln_value := VChar 113 |}, None).
Proof. vm_compute. reflexivity. Qed.
Example ex_unquote_string_bad_escape : unquote_string (str_bytes "\q""") = (None, 0).
Proof. vm_compute. reflexivity. Qed.
Example ex_unquote_string_raw_byte : unquote_string [97; 255; 34] = (Some [97; 255], 2).
Proof. vm_compute. reflexivity. Qed.

(* ================================================================== *)
(* H. The Integer recogniser against a declarative grammar: int_lexeme is the LONGEST prefix *)

Definition all_b (p : N -> bool) (l : list N) : Prop := forallb p l = true.
(* nonzero-digit digit*  |  0 (x|X) hexdigit+  |  0 octaldigit* *)
Definition is_uint_lit (l : list N) : Prop :=
  (exists d ds, l = d :: ds /\ is_nzdigit d = true /\ all_b is_digit ds) \/
  (exists x hs, l = 48 :: x :: hs /\ is_xX x = true /\ hs <> [] /\ all_b is_hex hs) \/
  (exists os, l = 48 :: os /\ all_b is_octal os).
(* sign? unsigned *)
Definition is_int_lit (l : list N) : Prop :=
  is_uint_lit l \/ exists sg u, l = sg :: u /\ is_sign sg = true /\ is_uint_lit u.

Definition longest_prefix (L : list N -> Prop) (s : list N) (o : option N) : Prop :=
  match o with
  | Some n => n <= len_N s /\ L (take n s) /\ forall m, m <= len_N s -> L (take m s) -> m <= n
  | None => forall m, m <= len_N s -> ~ L (take m s)
  end.

Lemma span_all p s : all_b p (take (span p s) s).
Proof.
  unfold all_b. induction s as [|b t IH]; cbn [span]; [reflexivity|].
  destruct (p b) eqn:E; [|reflexivity]. rewrite take_succ. cbn [forallb]. rewrite E, IH. reflexivity.
Qed.
Lemma span_max p s m : m <= len_N s -> all_b p (take m s) -> m <= span p s.
Proof.
  unfold all_b. revert m. induction s as [|b t IH]; intros m Hm H.
  - rewrite len_N_nil in Hm. cbn. lia.
  - destruct (N.eq_dec m 0) as [->|Hne]; [lia|].
    replace m with (1 + (m - 1)) in H by lia. rewrite take_succ in H. cbn [forallb] in H.
    apply andb_true_iff in H. destruct H as [Hb Ht]. cbn [span]. rewrite Hb.
    rewrite len_N_cons in Hm. specialize (IH (m - 1) ltac:(lia) Ht). lia.
Qed.
Lemma take_nonempty m s : 1 <= m -> s <> [] -> take m s <> [].
Proof.
  intros Hm Hs. destruct s as [|b t]; [congruence|].
  replace m with (1 + (m - 1)) by lia. rewrite take_succ. discriminate.
Qed.

Lemma uint_lexeme_longest s : longest_prefix is_uint_lit s (uint_lexeme s).
Proof.
  destruct s as [|b t]; cbn [uint_lexeme longest_prefix].
  { intros m _ H. rewrite (take_all m []) in H by (rewrite len_N_nil; lia).
    destruct H as [(d & ds & H & _)|[(x & hs & H & _)|(os & H & _)]]; discriminate. }
  assert (Hcons : forall m, 1 <= m -> take m (b :: t) = b :: take (m - 1) t).
  { intros m Hm. replace m with (1 + (m - 1)) at 1 by lia. apply take_succ. }
  destruct (is_nzdigit b) eqn:Enz.
  { cbn [longest_prefix]. pose proof (span_le is_digit t) as Hle. rewrite len_N_cons. split; [lia|]. split.
    - rewrite take_succ. left. exists b, (take (span is_digit t) t). split; [reflexivity|]. split; [exact Enz|apply span_all].
    - intros m Hm H. destruct (N.eq_dec m 0) as [->|Hne]; [lia|]. rewrite Hcons in H by lia.
      destruct H as [(d & ds & H & _ & Hall)|[(x & hs & H & _)|(os & H & _)]].
      + inversion H; subst. apply span_max in Hall; lia.
      + inversion H; subst. revert Enz. bool_lia.
      + inversion H; subst. revert Enz. bool_lia. }
  destruct (b =? 48) eqn:E48.
  2:{ cbn [longest_prefix]. intros m Hm H. destruct (N.eq_dec m 0) as [->|Hne].
      - cbn in H. destruct H as [(d & ds & H & _)|[(x & hs & H & _)|(os & H & _)]]; discriminate.
      - rewrite Hcons in H by lia.
        destruct H as [(d & ds & H & Hd & _)|[(x & hs & H & _)|(os & H & _)]]; inversion H; subst.
        + congruence.
        + cbn in E48. discriminate.
        + cbn in E48. discriminate. }
  apply N.eqb_eq in E48. subst b.
  destruct t as [|x u].
  { cbn [longest_prefix]. rewrite len_N_cons, len_N_nil. split; [lia|]. split.
    - right. right. exists []. split; reflexivity.
    - intros m Hm _. lia. }
  assert (Hcons2 : forall m, 1 <= m -> take m (x :: u) = x :: take (m - 1) u).
  { intros m Hm. replace m with (1 + (m - 1)) at 1 by lia. apply take_succ. }
  destruct (is_xX x && negb (span is_hex u =? 0)) eqn:Ehex; cbn [longest_prefix].
  - apply andb_true_iff in Ehex. destruct Ehex as [Ex Esp]. apply negb_true_iff in Esp. apply N.eqb_neq in Esp.
    pose proof (span_le is_hex u) as Hle. rewrite !len_N_cons. split; [lia|]. split.
    + replace (2 + span is_hex u) with (1 + (1 + span is_hex u)) by lia. rewrite !take_succ.
      right. left. exists x, (take (span is_hex u) u). split; [reflexivity|]. split; [exact Ex|]. split; [|apply span_all].
      apply take_nonempty; [lia|]. intros ->. cbn in Esp. congruence.
    + intros m Hm H. destruct (N.eq_dec m 0) as [->|Hne]; [lia|]. rewrite Hcons in H by lia.
      destruct (N.eq_dec m 1) as [->|Hne1]; [lia|]. rewrite Hcons2 in H by lia.
      destruct H as [(d & ds & H & Hd & _)|[(x' & hs & H & _ & _ & Hall)|(os & H & Hall)]]; inversion H; subst.
      * cbn in Hd. discriminate.
      * apply span_max in Hall; lia.
      * unfold all_b in Hall. cbn [forallb] in Hall. apply andb_true_iff in Hall. destruct Hall as [Hx _].
        revert Ex Hx. bool_lia.
  - pose proof (span_le is_octal (x :: u)) as Hle. rewrite len_N_cons. split; [lia|]. split.
    + rewrite take_succ. right. right. exists (take (span is_octal (x :: u)) (x :: u)). split; [reflexivity|apply span_all].
    + intros m Hm H. destruct (N.eq_dec m 0) as [->|Hne]; [lia|]. rewrite Hcons in H by lia.
      destruct H as [(d & ds & H & Hd & _)|[(x' & hs & H & Hx & Hne' & Hall)|(os & H & Hall)]]; inversion H as [H1]; subst.
      * cbn in Hd. discriminate.
      * (* 0 x hex+ is a prefix: then the hexadecimal branch of the recogniser was taken *)
        exfalso. destruct (N.eq_dec (m - 1) 0) as [E0|E0]; [rewrite E0 in H1; cbn in H1; discriminate|].
        rewrite Hcons2 in H1 by lia. inversion H1; subst.
        rewrite Hx in Ehex. cbn [andb] in Ehex. apply negb_false_iff in Ehex. apply N.eqb_eq in Ehex.
        apply span_zero_iff in Ehex. destruct u as [|h w].
        -- rewrite (take_all _ []) in Hne' by (rewrite len_N_nil; lia). congruence.
        -- destruct (N.eq_dec (m - 1 - 1) 0) as [E1|E1]; [rewrite E1 in Hne'; cbn in Hne'; congruence|].
           replace (m - 1 - 1) with (1 + (m - 1 - 1 - 1)) in Hall by lia. rewrite take_succ in Hall.
           unfold all_b in Hall. cbn [forallb] in Hall. apply andb_true_iff in Hall. destruct Hall as [Hh _]. congruence.
      * apply span_max in Hall; lia.
Qed.

Theorem int_lexeme_longest s : longest_prefix is_int_lit s (int_lexeme s).
Proof.
  unfold int_lexeme, sign_len. destruct s as [|b t].
  { pose proof (uint_lexeme_longest []) as H. cbn [uint_lexeme drop skipn N.to_nat longest_prefix] in *.
    intros m Hm [Hu|(sg & u & Hl & _)]; [exact (H m Hm Hu)|].
    rewrite (take_all m []) in Hl by (rewrite len_N_nil; lia). discriminate. }
  assert (Hcons : forall m, 1 <= m -> take m (b :: t) = b :: take (m - 1) t).
  { intros m Hm. replace m with (1 + (m - 1)) at 1 by lia. apply take_succ. }
  destruct (is_sign b) eqn:Es.
  - rewrite drop_1. pose proof (uint_lexeme_longest t) as H.
    assert (Hnu : forall m, ~ is_uint_lit (take m (b :: t))).
    { intros m Hu. destruct (N.eq_dec m 0) as [->|Hne].
      - destruct Hu as [(d & ds & Hl & _)|[(x & hs & Hl & _)|(os & Hl & _)]]; discriminate.
      - rewrite Hcons in Hu by lia.
        destruct Hu as [(d & ds & Hl & Hd & _)|[(x & hs & Hl & _)|(os & Hl & _)]]; inversion Hl; subst; revert Es; try revert Hd; bool_lia. }
    destruct (uint_lexeme t) as [n|]; cbn [longest_prefix] in *.
    + destruct H as (Hn & Hl & Hmax). rewrite len_N_cons. split; [lia|]. split.
      * rewrite take_succ. right. exists b, (take n t). split; [reflexivity|]. split; assumption.
      * intros m Hm [Hu|(sg & u & Hl' & _ & Hu)]; [exfalso; exact (Hnu m Hu)|].
        destruct (N.eq_dec m 0) as [->|Hne]; [lia|]. rewrite Hcons in Hl' by lia. inversion Hl'; subst.
        specialize (Hmax (m - 1) ltac:(lia) Hu). lia.
    + intros m Hm [Hu|(sg & u & Hl' & _ & Hu)]; [exact (Hnu m Hu)|].
      destruct (N.eq_dec m 0) as [->|Hne]; [discriminate|]. rewrite Hcons in Hl' by lia. inversion Hl'; subst.
      rewrite len_N_cons in Hm. exact (H (m - 1) ltac:(lia) Hu).
  - rewrite drop_0. pose proof (uint_lexeme_longest (b :: t)) as H.
    assert (Hns : forall m, (exists sg u, take m (b :: t) = sg :: u /\ is_sign sg = true /\ is_uint_lit u) -> False).
    { intros m (sg & u & Hl & Hsg & _). destruct (N.eq_dec m 0) as [->|Hne]; [discriminate|].
      rewrite Hcons in Hl by lia. inversion Hl; subst. congruence. }
    destruct (uint_lexeme (b :: t)) as [n|]; cbn [longest_prefix] in *.
    + destruct H as (Hn & Hl & Hmax). rewrite N.add_0_l. split; [exact Hn|]. split; [left; exact Hl|].
      intros m Hm [Hu|Hsg]; [exact (Hmax m Hm Hu)|exfalso; exact (Hns m Hsg)].
    + intros m Hm [Hu|Hsg]; [exact (H m Hm Hu)|exact (Hns m Hsg)].
Qed.
