(* HeapLogProofs.v — a linear log of list operations is stable under replay, for every growth function.

   Contents
   1. arrays: [upd_arr], [cells], extension [ext] (old arrays only ever grow at their end)
   2. [append1]/[append_many] from a header that is at the frontier of its array or full
   3. the invariant [Inv] relating the heap to the abstract state of the linearity check; one step; whole logs
   3b. [replay_reads_value]: after a linear log every handle reads the list the log says it denotes ([val_of])
   4. [replay_stable]
   5. sensitivity: a hand-written instance of the D1 history is rejected by the linearity check and unstable
      (the engine-produced one is in EngineHProofs.v) *)
From Coq Require Import String List NArith Bool Arith Lia.
From Parsley Require Import Obs Base HeapLog.
Import ListNotations.
Open Scope N_scope.

Section Proofs.
  Context {A : Type}.
  Notation lop := (lop A).
  Notation lheap := (lheap A).

  (* ---------------- 1. arrays ---------------- *)
  Lemma hfind_cons {B} h k (v : B) l : hfind h ((k, v) :: l) = if h =? k then Some v else hfind h l.
  Proof. reflexivity. Qed.

  Lemma upd_arr_length (arrs : list (list A)) a x : length (upd_arr arrs a x) = length arrs.
  Proof. revert a; induction arrs as [|y t IH]; intros [|a]; cbn [upd_arr length]; auto. Qed.

  Lemma cells_upd_same (arrs : list (list A)) a x : (a < length arrs)%nat -> cells (upd_arr arrs a x) a = x.
  Proof.
    unfold cells. revert a; induction arrs as [|y t IH]; intros [|a] H; cbn [upd_arr nth length] in *; try lia; auto.
    apply IH. lia.
  Qed.
  Lemma cells_upd_other (arrs : list (list A)) a b x : a <> b -> cells (upd_arr arrs a x) b = cells arrs b.
  Proof.
    unfold cells. revert a b; induction arrs as [|y t IH]; intros [|a] [|b] H; cbn [upd_arr nth]; auto; try congruence.
  Qed.
  Lemma cells_app_old (arrs : list (list A)) x a : (a < length arrs)%nat -> cells (arrs ++ [x]) a = cells arrs a.
  Proof. intros H. unfold cells. apply app_nth1. exact H. Qed.
  Lemma cells_app_new (arrs : list (list A)) x : cells (arrs ++ [x]) (length arrs) = x.
  Proof. unfold cells. rewrite app_nth2 by lia. rewrite Nat.sub_diag. reflexivity. Qed.

  (* every old array is still there and has only been extended at its end *)
  Definition ext (arrs arrs' : list (list A)) : Prop :=
    (length arrs <= length arrs')%nat /\
    forall a, (a < length arrs)%nat -> exists suf, cells arrs' a = cells arrs a ++ suf.
  Lemma ext_refl arrs : ext arrs arrs.
  Proof. split; [lia|]. intros a _. exists []. rewrite app_nil_r. reflexivity. Qed.
  Lemma ext_trans a b c : ext a b -> ext b c -> ext a c.
  Proof.
    intros [L1 E1] [L2 E2]. split; [lia|]. intros x Hx.
    destruct (E1 x Hx) as [s1 H1]. destruct (E2 x ltac:(lia)) as [s2 H2].
    exists (s1 ++ s2). rewrite H2, H1, app_assoc. reflexivity.
  Qed.
  Lemma ext_read arrs arrs' hd :
    ext arrs arrs' -> (hd_arr hd < length arrs)%nat -> (hd_len hd <= length (cells arrs (hd_arr hd)))%nat ->
    read_hdr arrs' hd = read_hdr arrs hd.
  Proof.
    intros [_ E] Ha Hl. unfold read_hdr. destruct (E _ Ha) as [suf H]. rewrite H.
    rewrite firstn_app. replace (hd_len hd - length (cells arrs (hd_arr hd)))%nat with 0%nat by lia.
    cbn [firstn]. rewrite app_nil_r. reflexivity.
  Qed.
  Lemma ext_len arrs arrs' a : ext arrs arrs' -> (a < length arrs)%nat -> (length (cells arrs a) <= length (cells arrs' a))%nat.
  Proof. intros [_ E] Ha. destruct (E a Ha) as [suf H]. rewrite H, app_length. lia. Qed.

  (* ---------------- 2. append ---------------- *)
  Section Growth.
    Variable grow : nat -> nat.

    (* a header from which appending is safe: it fits, and it is at the frontier of its array or full *)
    Definition safe_hdr (arrs : list (list A)) (hd : header) : Prop :=
      (hd_arr hd < length arrs)%nat /\ (hd_len hd <= length (cells arrs (hd_arr hd)))%nat /\
      (hd_len hd = length (cells arrs (hd_arr hd)) \/ (hd_cap hd <= hd_len hd)%nat).
    Definition frontier (arrs : list (list A)) (hd : header) : Prop :=
      (hd_arr hd < length arrs)%nat /\ hd_len hd = length (cells arrs (hd_arr hd)).

    Lemma append1_safe arrs hd x arrs' hd' :
      safe_hdr arrs hd -> append1 grow arrs hd x = (arrs', hd') ->
      ext arrs arrs' /\ frontier arrs' hd' /\
      (hd_arr hd' = hd_arr hd \/ (length arrs <= hd_arr hd')%nat) /\
      (forall a, (a < length arrs)%nat -> a <> hd_arr hd -> cells arrs' a = cells arrs a) /\
      (hd_arr hd' = hd_arr hd -> hd_len hd = length (cells arrs (hd_arr hd)) /\ (hd_len hd < hd_cap hd)%nat).
    Proof.
      intros (Ha & Hl & Hf) H. unfold append1 in H. cbv zeta in H.
      destruct (hd_len hd <? hd_cap hd)%nat eqn:E.
      - apply Nat.ltb_lt in E. destruct Hf as [Hf|Hf]; [|lia].
        apply pair_equal_spec in H. destruct H as [<- <-]. cbn [hd_arr hd_len hd_cap].
        assert (Hc : firstn (hd_len hd) (cells arrs (hd_arr hd)) ++ x :: skipn (S (hd_len hd)) (cells arrs (hd_arr hd))
                     = cells arrs (hd_arr hd) ++ [x]).
        { rewrite Hf. rewrite firstn_all. rewrite skipn_all2 by lia. reflexivity. }
        rewrite Hc. split; [|split; [|split; [|split]]].
        + split; [rewrite upd_arr_length; lia|]. intros a Hlt.
          destruct (Nat.eq_dec a (hd_arr hd)) as [->|Hne].
          * exists [x]. rewrite cells_upd_same by exact Ha. reflexivity.
          * exists []. rewrite cells_upd_other by congruence. rewrite app_nil_r. reflexivity.
        + split; cbn [hd_arr hd_len]; [rewrite upd_arr_length; exact Ha|]. rewrite cells_upd_same by exact Ha.
          rewrite app_length. cbn [length hd_len]. lia.
        + left; reflexivity.
        + intros a _ Hne. apply cells_upd_other. congruence.
        + intros _. split; [exact Hf|exact E].
      - apply Nat.ltb_ge in E.
        apply pair_equal_spec in H. destruct H as [<- <-]. cbn [hd_arr hd_len hd_cap].
        split; [|split; [|split; [|split]]].
        + split; [rewrite app_length; cbn [length]; lia|]. intros a Hlt. exists [].
          rewrite cells_app_old by exact Hlt. rewrite app_nil_r. reflexivity.
        + split; cbn [hd_arr hd_len]; [rewrite app_length; cbn [length]; lia|]. rewrite cells_app_new.
          unfold read_hdr. rewrite app_length, firstn_length. cbn [length]. lia.
        + right. lia.
        + intros a Hlt _. apply cells_app_old. exact Hlt.
        + intros Heq. lia.
    Qed.

    Lemma frontier_safe arrs hd : frontier arrs hd -> safe_hdr arrs hd.
    Proof. intros [Ha Hl]. split; [exact Ha|]. split; [lia|]. left; exact Hl. Qed.

    Lemma append_many_safe xs : forall arrs hd arrs' hd',
      safe_hdr arrs hd -> append_many grow arrs hd xs = (arrs', hd') ->
      ext arrs arrs' /\
      (xs <> [] -> frontier arrs' hd') /\
      (hd_arr hd' = hd_arr hd \/ (length arrs <= hd_arr hd')%nat) /\
      (forall a, (a < length arrs)%nat -> a <> hd_arr hd -> cells arrs' a = cells arrs a) /\
      (xs <> [] -> hd_arr hd' = hd_arr hd -> hd_len hd = length (cells arrs (hd_arr hd)) /\ (hd_len hd < hd_cap hd)%nat) /\
      (xs = [] -> arrs' = arrs /\ hd' = hd).
    Proof.
      induction xs as [|x t IH]; intros arrs hd arrs' hd' Hs H; cbn [append_many] in H.
      - inversion H; subst. split; [apply ext_refl|]. split; [congruence|].
        split; [left; reflexivity|]. split; [reflexivity|]. split; [congruence|]. auto.
      - destruct (append1 grow arrs hd x) as [arrs1 hd1] eqn:E1.
        destruct (append1_safe _ _ _ _ _ Hs E1) as (X1 & F1 & W1 & O1 & B1).
        destruct (IH _ _ _ _ (frontier_safe _ _ F1) H) as (X2 & F2 & W2 & O2 & B2 & N2).
        split; [eapply ext_trans; eassumption|].
        assert (Hfr : frontier arrs' hd').
        { destruct t as [|y t']; [destruct (N2 eq_refl) as [-> ->]; exact F1 | apply F2; discriminate]. }
        split; [intros _; exact Hfr|].
        destruct X1 as [L1 _]. destruct Hs as [Ha _].
        split; [|split; [|split]].
        + destruct W2 as [W2|W2]; [rewrite W2; exact W1 | right; lia].
        + intros a Hlt Hne. rewrite O2; [apply O1; assumption | lia |].
          destruct W1 as [W1|W1]; [rewrite W1; exact Hne | lia].
        + intros _ Heq. apply B1.
          destruct W1 as [W1|W1]; [exact W1|]. exfalso.
          destruct W2 as [W2|W2]; lia.
        + discriminate.
    Qed.

    (* ---------------- 3. the invariant ---------------- *)
    Record Inv (hp : lheap) (s : labs) : Prop := {
      I_dom : forall h, hfind h (hp_env hp) = None <-> hfind h (la_tab s) = None;
      I_fit : forall h hd, hfind h (hp_env hp) = Some hd ->
              (hd_arr hd < length (hp_arrs hp))%nat /\ (hd_len hd <= length (cells (hp_arrs hp) (hd_arr hd)))%nat;
      I_tight : forall h hd r, hfind h (hp_env hp) = Some hd -> hfind h (la_tab s) = Some (r, true) ->
                (hd_cap hd <= hd_len hd)%nat;
      I_front : forall h hd r, hfind h (hp_env hp) = Some hd -> hfind h (la_tab s) = Some (r, false) ->
                hmem r (la_spent s) = false -> hd_len hd = length (cells (hp_arrs hp) (hd_arr hd));
      I_one : forall h1 h2 hd1 hd2 r1 r2,
                hfind h1 (hp_env hp) = Some hd1 -> hfind h2 (hp_env hp) = Some hd2 ->
                hfind h1 (la_tab s) = Some (r1, false) -> hfind h2 (la_tab s) = Some (r2, false) ->
                hmem r1 (la_spent s) = false -> hmem r2 (la_spent s) = false ->
                hd_arr hd1 = hd_arr hd2 -> r1 = r2
    }.

    Lemma Inv0 : Inv heap0 labs0.
    Proof. constructor; cbn; intros; try discriminate; tauto. Qed.

    Lemma la_bound_false s h : la_bound s h = false <-> hfind h (la_tab s) = None.
    Proof. unfold la_bound. destruct (hfind h (la_tab s)); split; congruence. Qed.

    Definition reads_kept (hp hp' : lheap) : Prop := forall h v, read hp h = Some v -> read hp' h = Some v.

    (* binding a fresh handle to a header over extended arrays keeps every reading *)
    Lemma bind_reads hp s arrs' dst hd' :
      Inv hp s -> hfind dst (la_tab s) = None -> ext (hp_arrs hp) arrs' -> reads_kept hp (bind_h hp arrs' dst hd').
    Proof.
      intros I Hd X h v. unfold read, bind_h. cbn [hp_env hp_arrs]. rewrite hfind_cons.
      destruct (h =? dst) eqn:E.
      - apply N.eqb_eq in E. subst h. apply (I_dom _ _ I) in Hd. rewrite Hd. discriminate.
      - destruct (hfind h (hp_env hp)) as [hd|] eqn:F; [|discriminate].
        destruct (I_fit _ _ I _ _ F) as [Ha Hl]. rewrite (ext_read _ _ _ X Ha Hl). auto.
    Qed.

    Lemma hmem_cons h r l : hmem h (r :: l) = (h =? r) || hmem h l.
    Proof. reflexivity. Qed.

    (* re-establishing the invariant after binding a fresh handle [dst] to [hd'] with abstract value [v],
       the arrays extended to [arrs'] and the spent set grown to [sp'] *)
    Lemma inv_bind hp s arrs' dst hd' (v : handle * bool) sp' :
      Inv hp s -> hfind dst (la_tab s) = None -> ext (hp_arrs hp) arrs' ->
      (hd_arr hd' < length arrs')%nat -> (hd_len hd' <= length (cells arrs' (hd_arr hd')))%nat ->
      (snd v = true -> (hd_cap hd' <= hd_len hd')%nat) ->
      (snd v = false -> hmem (fst v) sp' = false -> hd_len hd' = length (cells arrs' (hd_arr hd'))) ->
      (forall r, hmem r sp' = false -> hmem r (la_spent s) = false) ->
      (forall k hd r, hfind k (hp_env hp) = Some hd -> hfind k (la_tab s) = Some (r, false) -> hmem r sp' = false ->
                      hd_len hd = length (cells arrs' (hd_arr hd))) ->
      (forall k hd r, hfind k (hp_env hp) = Some hd -> hfind k (la_tab s) = Some (r, false) -> hmem r sp' = false ->
                      snd v = false -> hmem (fst v) sp' = false -> hd_arr hd = hd_arr hd' -> r = fst v) ->
      Inv (bind_h hp arrs' dst hd') (mklabs ((dst, v) :: la_tab s) sp').
    Proof.
      intros I Hd X Ha' Hl' Ht' Hf' Hsp Hfr Hun.
      constructor; unfold bind_h; cbn [hp_env hp_arrs la_tab la_spent].
      - intros k. rewrite !hfind_cons. destruct (k =? dst); [split; discriminate|apply (I_dom _ _ I)].
      - intros k hd. rewrite hfind_cons. destruct (k =? dst).
        + intros Q; inversion Q; subst hd. auto.
        + intros Q. destruct (I_fit _ _ I _ _ Q) as [Ha0 Hl0]. destruct X as [XL XE].
          split; [lia|]. pose proof (ext_len _ _ _ (conj XL XE) Ha0). lia.
      - intros k hd r. rewrite !hfind_cons. destruct (k =? dst).
        + intros Q1 Q2. inversion Q1; subst hd. inversion Q2; subst v. apply Ht'. reflexivity.
        + apply (I_tight _ _ I).
      - intros k hd r. rewrite !hfind_cons. destruct (k =? dst).
        + intros Q1 Q2 Q3. inversion Q1; subst hd. inversion Q2; subst v. apply Hf'; [reflexivity|exact Q3].
        + intros Q1 Q2 Q3. eapply Hfr; eassumption.
      - intros h1 h2 hd1 hd2 r1 r2. rewrite !hfind_cons.
        destruct (h1 =? dst) eqn:E1; destruct (h2 =? dst) eqn:E2; intros Q1 Q2 Q3 Q4 Q5 Q6 Q7.
        + congruence.
        + inversion Q1; subst hd1. inversion Q3; subst v. symmetry.
          eapply (Hun h2 hd2 r2); try eassumption; try reflexivity. symmetry; exact Q7.
        + inversion Q2; subst hd2. inversion Q4; subst v.
          eapply (Hun h1 hd1 r1); try eassumption; reflexivity.
        + eapply (I_one _ _ I h1 h2); try eassumption; apply Hsp; assumption.
    Qed.

    (* the common case: nothing is spent and no array changes *)
    Lemma inv_bind_same hp s dst hd' (v : handle * bool) :
      Inv hp s -> hfind dst (la_tab s) = None ->
      (hd_arr hd' < length (hp_arrs hp))%nat -> (hd_len hd' <= length (cells (hp_arrs hp) (hd_arr hd')))%nat ->
      (snd v = true -> (hd_cap hd' <= hd_len hd')%nat) ->
      (snd v = false -> hmem (fst v) (la_spent s) = false -> hd_len hd' = length (cells (hp_arrs hp) (hd_arr hd'))) ->
      (forall k hd r, hfind k (hp_env hp) = Some hd -> hfind k (la_tab s) = Some (r, false) -> hmem r (la_spent s) = false ->
                      snd v = false -> hmem (fst v) (la_spent s) = false -> hd_arr hd = hd_arr hd' -> r = fst v) ->
      Inv (bind_h hp (hp_arrs hp) dst hd') (la_bind s dst v).
    Proof.
      intros I Hd Ha Hl Ht Hf Hun. unfold la_bind.
      apply inv_bind; auto; [apply ext_refl|]. intros k hd r Q1 Q2 Q3. eapply (I_front _ _ I); eassumption.
    Qed.

    Lemma step_inv (o : lop) hp s s' :
      Inv hp s -> lin_step s o = Some s' -> Inv (replay_step grow hp o) s' /\ reads_kept hp (replay_step grow hp o).
    Proof.
      intros I H. destruct o as [h elems|src dst elems|src dst|src dst|idx pos ho|idx pos ho|h elems|ho elems|idx pos];
        cbn [lin_step] in H; cbn [replay_step].
      - (* LNew *)
        destruct (la_bound s h) eqn:B; [discriminate|]. inversion H; subst s'; clear H.
        apply la_bound_false in B.
        assert (X : ext (hp_arrs hp) (hp_arrs hp ++ [elems])).
        { split; [rewrite app_length; lia|]. intros a Ha. exists []. rewrite cells_app_old by exact Ha. rewrite app_nil_r; reflexivity. }
        split; [|eapply bind_reads; eassumption].
        unfold la_bind. apply inv_bind; auto; cbn [hd_arr hd_len hd_cap fst snd].
        + rewrite app_length. cbn [length]. lia.
        + rewrite cells_app_new. lia.
        + discriminate.
        + intros k hd r Q1 Q2 Q3. destruct (I_fit _ _ I _ _ Q1) as [Ha _]. rewrite cells_app_old by exact Ha.
          eapply (I_front _ _ I); eassumption.
        + discriminate.
      - (* LAppend *)
        destruct (hfind src (la_tab s)) as [[r tight]|] eqn:Fs; [|discriminate].
        destruct (la_bound s dst) eqn:B; [discriminate|]. apply la_bound_false in B.
        destruct (hfind src (hp_env hp)) as [hd|] eqn:Fe.
        2:{ apply (I_dom _ _ I) in Fe. congruence. }
        destruct (append_many grow (hp_arrs hp) hd elems) as [arrs' hd'] eqn:EA.
        destruct (I_fit _ _ I _ _ Fe) as [Ha Hl].
        destruct elems as [|e1 et].
        + (* nothing appended: an alias *)
          cbn [append_many] in EA. inversion EA; subst arrs' hd'; clear EA.
          inversion H; subst s'; clear H.
          split; [|eapply bind_reads; [eassumption|exact B|apply ext_refl]].
          apply inv_bind_same; auto; cbn [fst snd].
          * intros ->. eapply (I_tight _ _ I); eassumption.
          * intros -> Q. eapply (I_front _ _ I); eassumption.
          * intros k hd0 r0 Q1 Q2 Q3 -> Q5 Q6. eapply (I_one _ _ I k src); eassumption.
        + assert (Hsafe : safe_hdr (hp_arrs hp) hd).
          { split; [exact Ha|]. split; [exact Hl|].
            destruct tight.
            - right. eapply (I_tight _ _ I); eassumption.
            - destruct (hmem r (la_spent s)) eqn:Sp; [discriminate|]. left. eapply (I_front _ _ I); eassumption. }
          destruct (append_many_safe _ _ _ _ _ Hsafe EA) as (X & F' & W & O & Bk & _).
          specialize (F' ltac:(discriminate)). specialize (Bk ltac:(discriminate)).
          destruct F' as [Ha' Hl'].
          split; [|eapply bind_reads; eassumption].
          destruct tight.
          * (* a tight source: the first append reallocates; nothing is spent *)
            inversion H; subst s'; clear H. unfold la_bind.
            assert (Hnew : (length (hp_arrs hp) <= hd_arr hd')%nat).
            { destruct W as [W|W]; [|exact W]. exfalso. destruct (Bk W) as [_ Q].
              pose proof (I_tight _ _ I _ _ _ Fe Fs). lia. }
            apply inv_bind; auto; cbn [fst snd].
            -- lia.
            -- discriminate.
            -- intros k hd0 r0 Q1 Q2 Q3. destruct (I_fit _ _ I _ _ Q1) as [Ha0 _].
               destruct (Nat.eq_dec (hd_arr hd0) (hd_arr hd)) as [Eq|Ne].
               ++ (* same array as the source: untouched, because the source reallocated at once *)
                  assert (cells arrs' (hd_arr hd0) = cells (hp_arrs hp) (hd_arr hd0)) as ->.
                  { clear - EA Eq Ha I Fe Fs. cbn [append_many] in EA. unfold append1 in EA.
                    pose proof (I_tight _ _ I _ _ _ Fe Fs) as T.
                    destruct (hd_len hd <? hd_cap hd)%nat eqn:E; [apply Nat.ltb_lt in E; lia|].
                    match type of EA with append_many _ ?a1 ?h1 _ = _ =>
                      assert (S1 : safe_hdr a1 h1) end.
                    { apply frontier_safe. split; cbn [hd_arr hd_len]; [rewrite app_length; cbn [length]; lia|].
                      rewrite cells_app_new. unfold read_hdr. rewrite app_length, firstn_length. cbn [length].
                      destruct (I_fit _ _ I _ _ Fe). lia. }
                    destruct (append_many_safe _ _ _ _ _ S1 EA) as (_ & _ & _ & O1 & _).
                    cbn [hd_arr] in O1. rewrite O1; [|rewrite app_length; cbn [length]; lia|lia].
                    apply cells_app_old. lia. }
                  eapply (I_front _ _ I); eassumption.
               ++ rewrite O by assumption. eapply (I_front _ _ I); eassumption.
            -- intros k hd0 r0 Q1 Q2 Q3 _ _ Q6. destruct (I_fit _ _ I _ _ Q1) as [Ha0 _]. lia.
          * (* an unspent, in-place-capable source: it is at the frontier of its array and becomes spent *)
            destruct (hmem r (la_spent s)) eqn:Sp; [discriminate|]. inversion H; subst s'; clear H.
            apply inv_bind; auto; cbn [fst snd].
            -- lia.
            -- discriminate.
            -- intros r0. rewrite hmem_cons. intros Q. apply orb_false_iff in Q. apply Q.
            -- intros k hd0 r0 Q1 Q2 Q3. rewrite hmem_cons in Q3. apply orb_false_iff in Q3. destruct Q3 as [Q3 Q4].
               destruct (I_fit _ _ I _ _ Q1) as [Ha0 _].
               destruct (Nat.eq_dec (hd_arr hd0) (hd_arr hd)) as [Eq|Ne].
               ++ exfalso. apply N.eqb_neq in Q3. apply Q3. eapply (I_one _ _ I k src); eassumption.
               ++ rewrite O by assumption. eapply (I_front _ _ I); eassumption.
            -- intros k hd0 r0 Q1 Q2 Q3 _ _ Q6. rewrite hmem_cons in Q3. apply orb_false_iff in Q3. destruct Q3 as [Q3 Q4].
               destruct (I_fit _ _ I _ _ Q1) as [Ha0 _]. exfalso.
               destruct W as [W|W]; [|lia].
               apply N.eqb_neq in Q3. apply Q3. eapply (I_one _ _ I k src); try eassumption. congruence.
      - (* LAlias *)
        destruct (hfind src (la_tab s)) as [[r tight]|] eqn:Fs; [|discriminate].
        destruct (la_bound s dst) eqn:B; [discriminate|]. apply la_bound_false in B.
        inversion H; subst s'; clear H.
        destruct (hfind src (hp_env hp)) as [hd|] eqn:Fe.
        2:{ apply (I_dom _ _ I) in Fe. congruence. }
        destruct (I_fit _ _ I _ _ Fe) as [Ha Hl].
        split; [|eapply bind_reads; [eassumption|exact B|apply ext_refl]].
        apply inv_bind_same; auto; cbn [fst snd].
        + intros ->. eapply (I_tight _ _ I); eassumption.
        + intros -> Q. eapply (I_front _ _ I); eassumption.
        + intros k hd0 r0 Q1 Q2 Q3 -> Q5 Q6. eapply (I_one _ _ I k src); eassumption.
      - (* LClamp *)
        destruct (hfind src (la_tab s)) as [[r tight]|] eqn:Fs; [|discriminate].
        destruct (la_bound s dst) eqn:B; [discriminate|]. apply la_bound_false in B.
        inversion H; subst s'; clear H.
        destruct (hfind src (hp_env hp)) as [hd|] eqn:Fe.
        2:{ apply (I_dom _ _ I) in Fe. congruence. }
        destruct (I_fit _ _ I _ _ Fe) as [Ha Hl].
        split; [|eapply bind_reads; [eassumption|exact B|apply ext_refl]].
        apply inv_bind_same; auto; cbn [fst snd hd_arr hd_len hd_cap]; try discriminate; try lia.
      - (* LStore *) destruct (opt_bound s ho); [|discriminate]. inversion H; subst. split; [exact I|intros h v Q; exact Q].
      - (* LHit *) destruct (opt_bound s ho); [|discriminate]. inversion H; subst. split; [exact I|intros h v Q; exact Q].
      - discriminate.
      - (* LRet *) destruct (opt_bound s ho); [|discriminate]. inversion H; subst. split; [exact I|intros h v Q; exact Q].
      - (* LCurtail *) inversion H; subst. split; [exact I|intros h v Q; exact Q].
    Qed.

    Lemma run_inv log : forall hp s s',
      Inv hp s -> lin_from s log = Some s' -> Inv (replay_from grow hp log) s' /\ reads_kept hp (replay_from grow hp log).
    Proof.
      induction log as [|o t IH]; intros hp s s' I H; cbn [lin_from replay_from fold_left] in *.
      - inversion H; subst. split; [exact I|intros h v Q; exact Q].
      - destruct (lin_step s o) as [s1|] eqn:E; [|discriminate].
        destruct (step_inv _ _ _ _ I E) as [I1 R1].
        destruct (IH _ _ _ I1 H) as [I2 R2]. split; [exact I2|].
        intros h v Q. apply R2, R1, Q.
    Qed.

    Lemma lin_from_app (l1 : list lop) : forall l2 s s', lin_from s (l1 ++ l2) = Some s' ->
      exists s1, lin_from s l1 = Some s1 /\ lin_from s1 l2 = Some s'.
    Proof.
      induction l1 as [|o t IH]; intros l2 s s' H; cbn [app lin_from] in *.
      - exists s. auto.
      - destruct (lin_step s o) as [s1|]; [|discriminate]. apply IH. exact H.
    Qed.

    (* ---------------- 3b. what a header reads is what the log says it denotes ---------------- *)
    Lemma read_hdr_firstn_all (arrs : list (list A)) hd : hd_len hd = length (cells arrs (hd_arr hd)) -> read_hdr arrs hd = cells arrs (hd_arr hd).
    Proof. intros H. unfold read_hdr. rewrite H. apply firstn_all. Qed.

    Lemma append1_read arrs hd x arrs' hd' :
      safe_hdr arrs hd -> append1 grow arrs hd x = (arrs', hd') -> read_hdr arrs' hd' = read_hdr arrs hd ++ [x].
    Proof.
      intros Hs H. pose proof (append1_safe _ _ _ _ _ Hs H) as (_ & [Ha' Hl'] & _).
      destruct Hs as (Ha & Hl & Hf). unfold append1 in H. cbv zeta in H.
      destruct (hd_len hd <? hd_cap hd)%nat eqn:E.
      - apply Nat.ltb_lt in E. destruct Hf as [Hf|Hf]; [|lia].
        apply pair_equal_spec in H. destruct H as [<- <-].
        rewrite (read_hdr_firstn_all _ _ Hl'). cbn [hd_arr]. rewrite cells_upd_same by exact Ha.
        rewrite (read_hdr_firstn_all _ _ Hf). rewrite Hf, firstn_all, skipn_all2 by lia. reflexivity.
      - apply pair_equal_spec in H. destruct H as [<- <-].
        rewrite (read_hdr_firstn_all _ _ Hl'). cbn [hd_arr]. rewrite cells_app_new. reflexivity.
    Qed.

    Lemma append_many_read xs : forall arrs hd arrs' hd',
      safe_hdr arrs hd -> append_many grow arrs hd xs = (arrs', hd') -> read_hdr arrs' hd' = read_hdr arrs hd ++ xs.
    Proof.
      induction xs as [|x t IH]; intros arrs hd arrs' hd' Hs H; cbn [append_many] in H.
      - inversion H; subst. rewrite app_nil_r. reflexivity.
      - destruct (append1 grow arrs hd x) as [arrs1 hd1] eqn:E1.
        destruct (append1_safe _ _ _ _ _ Hs E1) as (_ & F1 & _).
        rewrite (IH _ _ _ _ (frontier_safe _ _ F1) H), (append1_read _ _ _ _ _ Hs E1), <- app_assoc. reflexivity.
    Qed.

    Definition Inv2 (hp : lheap) (vt : list (handle * list A)) : Prop := forall h, read hp h = hfind h vt.

    Lemma read_bind_other hp s arrs' dst hd' k :
      Inv hp s -> ext (hp_arrs hp) arrs' -> (k =? dst) = false -> read (bind_h hp arrs' dst hd') k = read hp k.
    Proof.
      intros I X E. unfold read, bind_h. cbn [hp_env hp_arrs]. rewrite hfind_cons, E.
      destruct (hfind k (hp_env hp)) as [hd|] eqn:F; [|reflexivity].
      destruct (I_fit _ _ I _ _ F) as [Ha Hl]. rewrite (ext_read _ _ _ X Ha Hl). reflexivity.
    Qed.
    Lemma read_bind_same (hp : lheap) arrs' dst hd' : read (bind_h hp arrs' dst hd') dst = Some (read_hdr arrs' hd').
    Proof. unfold read, bind_h. cbn [hp_env hp_arrs]. rewrite hfind_cons, N.eqb_refl. reflexivity. Qed.

    Lemma step_inv2 (o : lop) hp s s' vt :
      Inv hp s -> Inv2 hp vt -> lin_step s o = Some s' -> Inv2 (replay_step grow hp o) (vals_step vt o).
    Proof.
      intros I V H k. destruct o as [h elems|src dst elems|src dst|src dst|idx pos ho|idx pos ho|h elems|ho elems|idx pos];
        cbn [lin_step] in H; cbn [replay_step vals_step]; try apply V; try discriminate.
      - (* LNew *)
        destruct (la_bound s h) eqn:B; [discriminate|].
        assert (X : ext (hp_arrs hp) (hp_arrs hp ++ [elems])).
        { split; [rewrite app_length; lia|]. intros a Ha. exists []. rewrite cells_app_old by exact Ha. rewrite app_nil_r; reflexivity. }
        rewrite hfind_cons. destruct (k =? h) eqn:E.
        + apply N.eqb_eq in E. subst k. rewrite read_bind_same. unfold read_hdr. cbn [hd_arr hd_len].
          rewrite cells_app_new, firstn_all. reflexivity.
        + rewrite (read_bind_other _ _ _ _ _ _ I X E). apply V.
      - (* LAppend *)
        destruct (hfind src (la_tab s)) as [[r tight]|] eqn:Fs; [|discriminate].
        destruct (la_bound s dst) eqn:B; [discriminate|].
        destruct (hfind src (hp_env hp)) as [hd|] eqn:Fe.
        2:{ apply (I_dom _ _ I) in Fe. congruence. }
        assert (Vs : hfind src vt = Some (read_hdr (hp_arrs hp) hd)).
        { rewrite <- V. unfold read. rewrite Fe. reflexivity. }
        rewrite Vs.
        destruct (append_many grow (hp_arrs hp) hd elems) as [arrs' hd'] eqn:EA.
        destruct (I_fit _ _ I _ _ Fe) as [Ha Hl].
        assert (Hsafe : elems = [] \/ safe_hdr (hp_arrs hp) hd).
        { destruct elems as [|e1 et]; [left; reflexivity|right].
          split; [exact Ha|]. split; [exact Hl|].
          destruct tight.
          - right. eapply (I_tight _ _ I); eassumption.
          - destruct (hmem r (la_spent s)) eqn:Sp; [discriminate|]. left. eapply (I_front _ _ I); eassumption. }
        assert (X : ext (hp_arrs hp) arrs' /\ read_hdr arrs' hd' = read_hdr (hp_arrs hp) hd ++ elems).
        { destruct Hsafe as [->|Hsafe].
          - cbn [append_many] in EA. inversion EA; subst. split; [apply ext_refl|rewrite app_nil_r; reflexivity].
          - split; [apply (append_many_safe _ _ _ _ _ Hsafe EA)|apply (append_many_read _ _ _ _ _ Hsafe EA)]. }
        destruct X as [X R]. rewrite hfind_cons. destruct (k =? dst) eqn:E.
        + apply N.eqb_eq in E. subst k. rewrite read_bind_same, R. reflexivity.
        + rewrite (read_bind_other _ _ _ _ _ _ I X E). apply V.
      - (* LAlias *)
        destruct (hfind src (la_tab s)) as [[r tight]|] eqn:Fs; [|discriminate].
        destruct (hfind src (hp_env hp)) as [hd|] eqn:Fe.
        2:{ apply (I_dom _ _ I) in Fe. congruence. }
        assert (Vs : hfind src vt = Some (read_hdr (hp_arrs hp) hd)).
        { rewrite <- V. unfold read. rewrite Fe. reflexivity. }
        rewrite Vs, hfind_cons. destruct (k =? dst) eqn:E.
        + apply N.eqb_eq in E. subst k. rewrite read_bind_same. reflexivity.
        + rewrite (read_bind_other _ _ _ _ _ _ I (ext_refl _) E). apply V.
      - (* LClamp *)
        destruct (hfind src (la_tab s)) as [[r tight]|] eqn:Fs; [|discriminate].
        destruct (hfind src (hp_env hp)) as [hd|] eqn:Fe.
        2:{ apply (I_dom _ _ I) in Fe. congruence. }
        assert (Vs : hfind src vt = Some (read_hdr (hp_arrs hp) hd)).
        { rewrite <- V. unfold read. rewrite Fe. reflexivity. }
        rewrite Vs, hfind_cons. destruct (k =? dst) eqn:E.
        + apply N.eqb_eq in E. subst k. rewrite read_bind_same. reflexivity.
        + rewrite (read_bind_other _ _ _ _ _ _ I (ext_refl _) E). apply V.
    Qed.

    Lemma run_inv2 log : forall hp s s' vt,
      Inv hp s -> Inv2 hp vt -> lin_from s log = Some s' -> Inv2 (replay_from grow hp log) (vals_from vt log).
    Proof.
      induction log as [|o t IH]; intros hp s s' vt I V H; cbn [lin_from replay_from vals_from fold_left] in *; [exact V|].
      destruct (lin_step s o) as [s1|] eqn:E; [|discriminate].
      destruct (step_inv _ _ _ _ I E) as [I1 _].
      eapply IH; [exact I1|eapply step_inv2; eassumption|exact H].
    Qed.

    (* after replaying a linear log every handle reads the list the log says it denotes (unbound handles read nothing) *)
    Theorem replay_reads_value_grow (log : list lop) : linear log -> forall h, read (replay grow log) h = val_of log h.
    Proof.
      intros [s H] h. unfold replay, val_of.
      apply (run_inv2 log heap0 labs0 s [] Inv0); [|exact H]. intros k. reflexivity.
    Qed.

    (* ---------------- 4. the theorem ---------------- *)
    Theorem replay_stable_grow (log : list lop) : linear log -> stable grow log.
    Proof.
      intros [s H] l1 l2 h v -> Hr. unfold lin_run in H.
      destruct (lin_from_app _ _ _ _ H) as (s1 & H1 & H2).
      destruct (run_inv _ _ _ _ Inv0 H1) as [I1 _].
      destruct (run_inv _ _ _ _ I1 H2) as [_ R2].
      unfold replay, replay_from. rewrite fold_left_app. apply R2. exact Hr.
    Qed.
  End Growth.

  Theorem replay_stable : forall (grow : nat -> nat) (log : list lop), linear log -> stable grow log.
  Proof. exact replay_stable_grow. Qed.

  Theorem replay_reads_value : forall (grow : nat -> nat) (log : list lop),
    linear log -> forall h, read (replay grow log) h = val_of log h.
  Proof. exact replay_reads_value_grow. Qed.

  Lemma linear_prefix (l1 l2 : list lop) : linear (l1 ++ l2) -> linear l1.
  Proof. intros [s H]. unfold lin_run in H. destruct (lin_from_app _ _ _ _ H) as (s1 & H1 & _). exists s1. exact H1. Qed.

End Proofs.

(* the D1 history in miniature: a three-element list with spare capacity (Go's doubling growth), handed to two consumers
   that both append one element: the first consumer's result is rewritten.  Not linear; with the clamp (LClamp, both
   consumers append to the clamped header) it is linear and nothing changes. *)
Definition d1_mini (clamp : bool) : list (lop N) :=
  [LNew 0 [10]; LAppend 0 1 [11]; LAppend 1 2 [12]] ++
  (if clamp then [LClamp 2 3] else [LAlias 2 3]) ++
  [LStore 1 1 (Some 3); LHit 1 1 (Some 3); LAppend 3 4 [20]; LRet (Some 4) [10; 11; 12; 20];
   LHit 1 1 (Some 3); LAppend 3 5 [30]].
Definition dbl (c : nat) : nat := (2 * c)%nat.

Example d1_mini_not_linear : linearb (d1_mini false) = false.
Proof. vm_compute. reflexivity. Qed.
Example d1_mini_unstable :
  read (replay dbl (firstn 8 (d1_mini false))) 4 = Some [10; 11; 12; 20] /\
  read (replay dbl (d1_mini false)) 4 = Some [10; 11; 12; 30].
Proof. vm_compute. split; reflexivity. Qed.
Example d1_mini_clamped_linear : linearb (d1_mini true) = true.
Proof. vm_compute. reflexivity. Qed.
Example d1_mini_clamped_stable :
  read (replay dbl (d1_mini true)) 4 = Some [10; 11; 12; 20] /\ read (replay dbl (d1_mini true)) 5 = Some [10; 11; 12; 30] /\
  read (replay dbl (d1_mini true)) 3 = Some [10; 11; 12].
Proof. vm_compute. repeat split; reflexivity. Qed.
