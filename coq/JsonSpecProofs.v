(* JsonSpecProofs.v — C16: the executable specification [spec_parse] of JsonSpec.v is sound and
   complete for the grammar [json_doc] (inductive rules), hence the grammar is unambiguous.
   Structure: A. whitespace; B. the lexical terminals (string, float, integer, words) in both
   directions; C. the SepBy loop; D. soundness (induction on the fuel); E. completeness (mutual
   induction on the derivation); F. corollaries. *)
From Coq Require Import String List NArith ZArith Bool Lia.
From Parsley Require Import Obs Base FileSet Utf8 Reader ReaderProofs Regex Literals LiteralProofs JsonSpec.
Import ListNotations.
Open Scope N_scope.

(* ================================================================== *)
(* A. Whitespace                                                       *)

Definition head_not (p : N -> bool) (s : list N) : Prop :=
  match s with b :: _ => p b = false | [] => True end.

Lemma allb_nil p : allb p [].
Proof. reflexivity. Qed.
Lemma allb_cons p b t : allb p (b :: t) <-> p b = true /\ allb p t.
Proof. unfold allb. cbn [forallb]. rewrite andb_true_iff. tauto. Qed.
Lemma allb_app p a b : allb p (a ++ b) <-> allb p a /\ allb p b.
Proof. unfold allb. rewrite forallb_app, andb_true_iff. tauto. Qed.

Lemma span_app p w s : allb p w -> head_not p s -> span p (w ++ s) = len_N w.
Proof.
  induction w as [|b t IH]; intros Hw Hs.
  - cbn [app]. rewrite len_N_nil. destruct s as [|c u]; [reflexivity|]. cbn [span]. cbn in Hs. rewrite Hs. reflexivity.
  - apply allb_cons in Hw. destruct Hw as [Hb Ht]. cbn [app span]. rewrite Hb, (IH Ht Hs), len_N_cons. reflexivity.
Qed.
Lemma span_allb p s : allb p (take (span p s) s).
Proof.
  unfold allb. induction s as [|b t IH]; cbn [span]; [reflexivity|].
  destruct (p b) eqn:E; [|reflexivity]. rewrite take_succ. cbn [forallb]. rewrite E, IH. reflexivity.
Qed.
Lemma span_head p s : head_not p (drop (span p s) s).
Proof.
  induction s as [|b t IH]; cbn [span]; [exact I|].
  destruct (p b) eqn:E; [rewrite drop_succ; exact IH|rewrite drop_0; exact E].
Qed.

Lemma ws_run_span s : ws_run s = span is_ws s.
Proof. induction s as [|b t IH]; cbn [ws_run span]; [reflexivity|]. rewrite IH. reflexivity. Qed.

Lemma skip_ws_app w s : ws_nl w -> head_not is_ws s -> skip_ws (w ++ s) = s.
Proof.
  intros Hw Hs. unfold skip_ws. rewrite ws_run_span, (span_app _ _ _ Hw Hs). apply drop_app_exact.
Qed.
Lemma skip_ws_all w : ws_nl w -> skip_ws w = [].
Proof. intros Hw. rewrite <- (app_nil_r w) at 1. apply skip_ws_app; [exact Hw|exact I]. Qed.
Lemma skip_ws_split s : exists w, s = w ++ skip_ws s /\ ws_nl w.
Proof.
  exists (take (ws_run s) s). split; [unfold skip_ws; symmetry; apply take_drop|].
  rewrite ws_run_span. apply span_allb.
Qed.
Lemma skip_ws_head s : head_not is_ws (skip_ws s).
Proof. unfold skip_ws. rewrite ws_run_span. apply span_head. Qed.

Lemma is_sp_ws b : is_sp b = true -> is_ws b = true /\ is_nl b = false.
Proof.
  unfold is_sp, is_ws, is_nl. intros H. apply orb_true_iff in H.
  destruct H as [H|H]; apply N.eqb_eq in H; subst b; split; reflexivity.
Qed.
Lemma ws_sp_nl w : ws_sp w -> ws_nl w.
Proof.
  unfold ws_sp, ws_nl. induction w as [|b t IH]; intros H; [reflexivity|].
  apply allb_cons in H. destruct H as [Hb Ht]. apply allb_cons. split; [apply is_sp_ws; exact Hb|exact (IH Ht)].
Qed.
Lemma ws_first_nl_sp w s : ws_sp w -> head_not is_ws s -> ws_first_nl (w ++ s) = None.
Proof.
  induction w as [|b t IH]; intros Hw Hs.
  - cbn [app]. destruct s as [|c u]; [reflexivity|]. cbn [ws_first_nl]. cbn in Hs. rewrite Hs. reflexivity.
  - apply allb_cons in Hw. destruct Hw as [Hb Ht]. apply is_sp_ws in Hb. destruct Hb as [H1 H2].
    cbn [app ws_first_nl]. rewrite H1, H2, (IH Ht Hs). reflexivity.
Qed.
(* a run without a first line break consists of spaces and tabs *)
Lemma ws_first_nl_none s : ws_first_nl s = None -> ws_sp (take (ws_run s) s).
Proof.
  unfold ws_sp, allb. induction s as [|b t IH]; intros H; cbn [ws_run]; [reflexivity|].
  cbn [ws_first_nl] in H. destruct (is_ws b) eqn:Ew; [|reflexivity].
  destruct (is_nl b) eqn:En; [discriminate|].
  destruct (ws_first_nl t) eqn:Et; [discriminate|].
  rewrite take_succ. cbn [forallb]. rewrite (IH eq_refl), andb_true_r.
  unfold is_ws in Ew. unfold is_nl in En. unfold is_sp.
  apply orb_false_iff in En. destruct En as [E1 E2]. rewrite E1, E2 in Ew.
  rewrite !orb_false_r in Ew. exact Ew.
Qed.

Lemma sep_byte_app c w r : ws_sp w -> is_ws c = false -> sep_byte c (w ++ c :: r) = Some r.
Proof.
  intros Hw Hc. unfold sep_byte. rewrite (ws_first_nl_sp w (c :: r) Hw Hc).
  rewrite (skip_ws_app w (c :: r) (ws_sp_nl _ Hw) Hc). rewrite N.eqb_refl. reflexivity.
Qed.
Lemma sep_byte_sound c s r : sep_byte c s = Some r -> exists w, s = w ++ c :: r /\ ws_sp w.
Proof.
  unfold sep_byte. destruct (ws_first_nl s) eqn:En; [discriminate|].
  destruct (skip_ws s) as [|b u] eqn:Es; [discriminate|].
  destruct (b =? c) eqn:Eb; [|discriminate]. apply N.eqb_eq in Eb. subst b.
  intros H. apply some_inj in H. subst u.
  exists (take (ws_run s) s). split; [|apply ws_first_nl_none; exact En].
  unfold skip_ws in Es. rewrite <- Es. symmetry. apply take_drop.
Qed.
Lemma close_byte_app c w r : ws_nl w -> is_ws c = false -> close_byte c (w ++ c :: r) = Some r.
Proof.
  intros Hw Hc. unfold close_byte. rewrite (skip_ws_app w (c :: r) Hw Hc). rewrite N.eqb_refl. reflexivity.
Qed.
Lemma close_byte_sound c s r : close_byte c s = Some r -> exists w, s = w ++ c :: r /\ ws_nl w.
Proof.
  unfold close_byte. destruct (skip_ws s) as [|b u] eqn:Es; [discriminate|].
  destruct (b =? c) eqn:Eb; [|discriminate]. apply N.eqb_eq in Eb. subst b.
  intros H. apply some_inj in H. subst u.
  destruct (skip_ws_split s) as (w & Hs & Hw). exists w. rewrite Es in Hs. split; assumption.
Qed.

(* ================================================================== *)
(* B1. String literals                                                 *)

Ltac split_hyp H := repeat match type of H with
  | context [if ?c then _ else _] => let E := fresh "E" in destruct c eqn:E
  | context [match ?x with [] => _ | _ :: _ => _ end] => destruct x
  end.
Ltac len_hyp H := unfold len_N in H; cbn [length] in H.

(* DecodeRune looks only at the bytes it consumes, or reports an error of width 1 *)
Lemma decode_app_l a b r w : a <> [] -> decode_rune (a ++ b) = (r, w) -> w <= len_N a -> decode_rune a = (r, w).
Proof.
  intros Ha H Hw. destruct a as [|p0 a1]; [congruence|]. cbn [app] in H. unfold decode_rune in *.
  destruct (p0 <? 128); [exact H|]. destruct (utf8_first p0) as [[[sz lo] hi]|]; [|exact H].
  destruct a1 as [|b1 a2].
  { cbn [app] in H. split_hyp H; inversion H; subst; try reflexivity; exfalso; len_hyp Hw; lia. }
  cbn [app] in H. destruct ((b1 <? lo) || (hi <? b1)); [exact H|]. destruct (sz <=? 2); [exact H|].
  destruct a2 as [|b2 a3].
  { cbn [app] in H. split_hyp H; inversion H; subst; try reflexivity; exfalso; len_hyp Hw; lia. }
  cbn [app] in H. destruct (negb (is_cont b2)); [exact H|]. destruct (sz <=? 3); [exact H|].
  destruct a3 as [|b3 a4].
  { cbn [app] in H. split_hyp H; inversion H; subst; try reflexivity; exfalso; len_hyp Hw; lia. }
  cbn [app] in H. exact H.
Qed.
(* ... and a double quote (not a continuation byte) behind the bytes changes nothing *)
Lemma decode_app_quote a rest r w : a <> [] -> decode_rune a = (r, w) -> decode_rune (a ++ 34 :: rest) = (r, w).
Proof.
  intros Ha H. destruct a as [|p0 a1]; [congruence|]. cbn [app]. unfold decode_rune in *.
  destruct (p0 <? 128); [exact H|]. destruct (utf8_first p0) as [[[sz lo] hi]|] eqn:Ef; [|exact H].
  apply utf8_first_cases in Ef. destruct Ef as (_ & Hlo & _).
  assert (Hq : (34 <? lo) || (hi <? 34) = true) by (apply orb_true_iff; left; apply N.ltb_lt; lia).
  destruct a1 as [|b1 a2]; cbn [app]; [rewrite Hq; exact H|].
  destruct ((b1 <? lo) || (hi <? b1)); [exact H|]. destruct (sz <=? 2); [exact H|].
  destruct a2 as [|b2 a3]; cbn [app]; [exact H|].
  destruct (negb (is_cont b2)); [exact H|]. destruct (sz <=? 3); [exact H|].
  destruct a3 as [|b3 a4]; cbn [app]; [exact H|]. exact H.
Qed.

Lemma hex_digits_app_l : forall n a b v x, hex_digits n (a ++ b) v = Some x -> (n <= length a)%nat -> hex_digits n a v = Some x.
Proof.
  induction n as [|n IH]; intros a b v x H Hn; cbn [hex_digits] in *; [exact H|].
  destruct a as [|c t]; [cbn in Hn; lia|]. cbn [app] in H. destruct (unhex c); [|discriminate].
  apply (IH t b); [exact H|cbn in Hn; lia].
Qed.
Lemma hex_digits_app_r : forall n a b v x, hex_digits n a v = Some x -> hex_digits n (a ++ b) v = Some x.
Proof.
  induction n as [|n IH]; intros a b v x H; cbn [hex_digits] in *; [exact H|].
  destruct a as [|c t]; [discriminate|]. cbn [app]. destruct (unhex c); [|discriminate]. apply IH. exact H.
Qed.

(* UnquoteChar looks only at the bytes it consumes *)
Lemma unquote_char_app_l a b q ch n : unquote_char (a ++ b) q = Some (ch, n) -> n <= len_N a ->
  unquote_char a q = Some (ch, n).
Proof.
  intros H Hn. destruct a as [|c t].
  { apply unquote_char_bounds in H. rewrite len_N_nil in Hn. lia. }
  cbn [app] in H. cbn [unquote_char] in *.
  destruct ((c =? q) && ((q =? 39) || (q =? 34))); [discriminate|].
  destruct (rune_self <=? c).
  { apply some_inj in H. f_equal. apply (decode_app_l (c :: t) b); [discriminate|exact H|exact Hn]. }
  destruct (negb (c =? 92)); [exact H|].
  destruct t as [|e u].
  { cbn [app] in H. exfalso. assert (Hb : 2 <= n).
    { destruct b as [|e u]; [discriminate|].
      destruct (simple_escape e); [apply some_inj in H; inversion H; lia|].
      destruct ((e =? 120) || (e =? 117) || (e =? 85)).
      { destruct (hex_digits _ u 0); [|discriminate]. destruct (e =? 120); [cbn in H; apply some_inj in H; inversion H; lia|].
        destruct (valid_rune n0); [|discriminate]. destruct (e =? 117); cbn in H; apply some_inj in H; inversion H; lia. }
      destruct (is_octal_digit e).
      { destruct u as [|d1 [|d2 u']]; try discriminate. destruct (is_octal_digit d1 && is_octal_digit d2); [|discriminate].
        destruct (255 <? _); [discriminate|]. apply some_inj in H; inversion H; lia. }
      destruct (e =? 92); [apply some_inj in H; inversion H; lia|].
      destruct ((e =? 39) || (e =? 34)); [|discriminate]. destruct (e =? q); [|discriminate].
      apply some_inj in H; inversion H; lia. }
    len_hyp Hn. lia. }
  cbn [app] in H. destruct (simple_escape e); [exact H|].
  destruct ((e =? 120) || (e =? 117) || (e =? 85)).
  { set (k := if e =? 120 then 2%nat else if e =? 117 then 4%nat else 8%nat) in *.
    destruct (hex_digits k (u ++ b) 0) as [v|] eqn:Eh; [|discriminate].
    assert (Hk : (k <= length u)%nat).
    { assert (Hn2 : n = 2 + N.of_nat k).
      { destruct (e =? 120); [apply some_inj in H; inversion H; reflexivity|].
        destruct (valid_rune v); [apply some_inj in H; inversion H; reflexivity|discriminate]. }
      rewrite !len_N_cons in Hn. unfold len_N in Hn. lia. }
    rewrite (hex_digits_app_l k u b 0 v Eh Hk). exact H. }
  destruct (is_octal_digit e).
  { destruct u as [|d1 [|d2 u']].
    - cbn [app] in H. exfalso. destruct b as [|d1 [|d2 b']]; try discriminate.
      destruct (is_octal_digit d1 && is_octal_digit d2); [|discriminate]. destruct (255 <? _); [discriminate|].
      apply some_inj in H; inversion H; subst n. len_hyp Hn. lia.
    - cbn [app] in H. exfalso. destruct b as [|d2 b']; try discriminate.
      destruct (is_octal_digit d1 && is_octal_digit d2); [|discriminate]. destruct (255 <? _); [discriminate|].
      apply some_inj in H; inversion H; subst n. len_hyp Hn. lia.
    - cbn [app] in H. exact H. }
  exact H.
Qed.
(* ... so a double quote and anything else behind the bytes changes nothing *)
Lemma unquote_char_app_quote a rest ch n : unquote_char a 34 = Some (ch, n) ->
  unquote_char (a ++ 34 :: rest) 34 = Some (ch, n).
Proof.
  intros H. destruct a as [|c t]; [discriminate|]. cbn [app]. cbn [unquote_char] in *.
  destruct ((c =? 34) && ((34 =? 39) || (34 =? 34))); [discriminate|].
  destruct (rune_self <=? c).
  { apply some_inj in H. f_equal. apply (decode_app_quote (c :: t)); [discriminate|exact H]. }
  destruct (negb (c =? 92)); [exact H|].
  destruct t as [|e u]; [discriminate|]. cbn [app]. destruct (simple_escape e); [exact H|].
  destruct ((e =? 120) || (e =? 117) || (e =? 85)).
  { set (k := if e =? 120 then 2%nat else if e =? 117 then 4%nat else 8%nat) in *.
    destruct (hex_digits k u 0) as [v|] eqn:Eh; [|discriminate].
    rewrite (hex_digits_app_r k u (34 :: rest) 0 v Eh). exact H. }
  destruct (is_octal_digit e).
  { destruct u as [|d1 [|d2 u']]; try discriminate. cbn [app]. exact H. }
  exact H.
Qed.
Lemma unquote_char_quote rest : unquote_char (34 :: rest) 34 = None.
Proof. reflexivity. Qed.

Lemma take_take_drop n m s : drop n (take (n + m) s) = take m (drop n s).
Proof.
  unfold drop, take. rewrite N2Nat.inj_add. generalize (N.to_nat n) (N.to_nat m). clear.
  intros a; revert s. induction a as [|a IH]; intros s b; [reflexivity|].
  destruct s as [|x t]; [cbn; destruct b; reflexivity|]. cbn [Nat.add firstn skipn]. apply IH.
Qed.
Lemma take_app_le n a b : n <= len_N a -> take n (a ++ b) = take n a.
Proof.
  unfold take, len_N. intros H. rewrite firstn_app.
  replace (N.to_nat n - length a)%nat with 0%nat by lia. cbn [firstn]. apply app_nil_r.
Qed.
Lemma drop_app_le n a b : n <= len_N a -> drop n (a ++ b) = drop n a ++ b.
Proof.
  unfold drop, len_N. intros H. rewrite skipn_app.
  replace (N.to_nat n - length a)%nat with 0%nat by lia. reflexivity.
Qed.
Lemma take_decomp n s : n <= len_N s -> s = take n s ++ drop n s /\ len_N (take n s) = n.
Proof. intros H. split; [symmetry; apply take_drop|apply len_take; exact H]. Qed.

(* the item loop of the C08 specification yields a derivation of the body it consumed *)
Lemma str_items_sound : forall fuel s v m, str_items fuel s = (v, m) -> str_lit_body (take m s) v.
Proof.
  induction fuel as [|k IH]; intros s v m H; cbn [str_items] in H.
  { inversion H; subst. rewrite take_0. constructor. }
  destruct s as [|c t]; [inversion H; subst; rewrite take_0; constructor|].
  destruct ((c =? 13) || (c =? 10)) eqn:Ecr; [inversion H; subst; rewrite take_0; constructor|].
  destruct (unquote_char (c :: t) 34) as [[ch n]|] eqn:Eu; [|inversion H; subst; rewrite take_0; constructor].
  destruct (str_items k (drop n (c :: t))) as [v' m'] eqn:Ei. inversion H; subst v m. clear H.
  pose proof (unquote_char_bounds _ _ _ _ Eu) as [[Hn1 Hn2] _].
  pose proof (str_items_bounds k (drop n (c :: t))) as Hb. rewrite Ei in Hb. cbn [fst snd] in Hb.
  rewrite len_drop in Hb. destruct Hb as [_ Hb].
  replace (n + m') with (1 + (n + m' - 1)) by lia. rewrite take_succ.
  fold (str_piece c ch n). apply SB_item; [exact Ecr| |].
  - rewrite <- (take_succ (n + m' - 1) c t). replace (1 + (n + m' - 1)) with (n + m') by lia.
    apply (unquote_char_app_l _ (drop (n + m') (c :: t))); [rewrite take_drop; exact Eu|].
    rewrite len_take; lia.
  - rewrite <- (take_succ (n + m' - 1) c t). replace (1 + (n + m' - 1)) with (n + m') by lia.
    rewrite take_take_drop. apply IH. exact Ei.
Qed.
(* and conversely follows a derivation, whatever stands behind the closing quote *)
Lemma str_items_complete body v : str_lit_body body v -> forall fuel rest,
  le (length (body ++ 34 :: rest)) fuel -> str_items fuel (body ++ 34 :: rest) = (v, len_N body).
Proof.
  induction 1 as [|c t ch n v Hcr Hu Hrest IH]; intros fuel rest Hf.
  - cbn [app] in *. destruct fuel as [|k]; [cbn in Hf; lia|]. reflexivity.
  - destruct fuel as [|k]; [cbn in Hf; lia|]. cbn [app str_items]. rewrite Hcr.
    change (c :: t ++ 34 :: rest) with ((c :: t) ++ 34 :: rest).
    rewrite (unquote_char_app_quote _ rest _ _ Hu).
    pose proof (unquote_char_bounds _ _ _ _ Hu) as [[Hn1 Hn2] _].
    rewrite (drop_app_le n (c :: t) (34 :: rest) Hn2).
    rewrite IH.
    + fold (str_piece c ch n). f_equal. rewrite len_drop. lia.
    + pose proof (len_drop n (c :: t)) as L. rewrite app_length in *. unfold len_N in *. cbn [length] in *. lia.
Qed.

Lemma str_lit_body_nil v : str_lit_body [] v -> v = [].
Proof. intros H. inversion H. reflexivity. Qed.

Lemma tok_string_sound s v r : tok_string false s = Some (v, r) -> exists lex, s = lex ++ r /\ string_lit lex v.
Proof.
  unfold tok_string. destruct (spec_string false s) as [n [| |v0| | | |]|] eqn:E; try discriminate.
  cbn [andb]. intros H. apply some_inj in H. inversion H; subst v0 r. clear H.
  unfold spec_string in E. destruct s as [|q t]; [discriminate|].
  destruct (q =? 34) eqn:Eq; [|cbn [andb] in E; discriminate]. apply N.eqb_eq in Eq. subst q.
  unfold spec_quoted in E. destruct (starts_with_byte 34 t) eqn:Es.
  - inversion E; subst. destruct t as [|b u]; [discriminate|]. cbn in Es. apply N.eqb_eq in Es. subst b.
    exists [34; 34]. split; [reflexivity|]. exists []. split; [reflexivity|constructor].
  - destruct (str_body t) as [v' m] eqn:Eb. destruct (starts_with_byte 34 (drop m t)) eqn:Es2; [|discriminate].
    inversion E; subst n v'. clear E.
    pose proof (str_items_bounds (length t) t) as Hb. unfold str_body in Eb. rewrite Eb in Hb. cbn [fst snd] in Hb.
    destruct (drop m t) as [|b u] eqn:Ed; [discriminate|]. cbn in Es2. apply N.eqb_eq in Es2. subst b.
    exists (34 :: take m t ++ [34]). split.
    + replace (m + 2) with (1 + (1 + m)) by lia. rewrite drop_succ.
      rewrite <- (take_drop m t) at 1. rewrite Ed. cbn [app]. rewrite <- app_assoc. cbn [app]. do 2 f_equal.
      replace (1 + m) with (m + 1) by lia. rewrite <- drop_drop, Ed. rewrite drop_1. reflexivity.
    + exists (take m t). split; [reflexivity|]. apply (str_items_sound _ _ _ _ Eb).
Qed.
Lemma tok_string_complete lex v rest : string_lit lex v -> tok_string false (lex ++ rest) = Some (v, rest).
Proof.
  intros (body & -> & Hb). unfold tok_string, spec_string. cbn [app]. rewrite N.eqb_refl. unfold spec_quoted.
  rewrite <- app_assoc. cbn [app].
  destruct body as [|c t].
  - apply str_lit_body_nil in Hb. subst v. cbn [app starts_with_byte]. rewrite N.eqb_refl. cbn [andb]. reflexivity.
  - assert (Hc : (c =? 34) = false).
    { inversion Hb; subst. destruct (c =? 34) eqn:E; [|reflexivity]. apply N.eqb_eq in E. subst c. discriminate. }
    cbn [app starts_with_byte]. rewrite Hc.
    change (c :: t ++ 34 :: rest) with ((c :: t) ++ 34 :: rest).
    unfold str_body. rewrite (str_items_complete _ _ Hb _ rest (le_n _)).
    rewrite drop_app_exact. cbn [starts_with_byte]. rewrite N.eqb_refl. cbn [andb].
    f_equal. f_equal.
    replace (len_N (c :: t) + 2) with (1 + (len_N (c :: t) + 1)) by lia. rewrite drop_succ.
    replace (len_N (c :: t) + 1) with (len_N ((c :: t) ++ [34])) by (rewrite len_N_app; reflexivity).
    replace ((c :: t) ++ 34 :: rest) with (((c :: t) ++ [34]) ++ rest) by (rewrite <- app_assoc; reflexivity).
    apply drop_app_exact.
Qed.

(* ================================================================== *)
(* B2. What may follow a value, and the Float literal                  *)

(* the bytes that can follow a value inside a document: whitespace, ',', ']', '}' (or the end) *)
Definition is_delim (b : N) : bool := is_ws b || (b =? 44) || (b =? 93) || (b =? 125).
Definition delim (s : list N) : Prop := match s with b :: _ => is_delim b = true | [] => True end.
Lemma is_delim_cases b : is_delim b = true -> b = 32 \/ b = 9 \/ b = 10 \/ b = 12 \/ b = 44 \/ b = 93 \/ b = 125.
Proof.
  unfold is_delim, is_ws. rewrite !orb_true_iff, !N.eqb_eq. tauto.
Qed.
Lemma delim_head_not (p : N -> bool) s :
  p 32 = false -> p 9 = false -> p 10 = false -> p 12 = false -> p 44 = false -> p 93 = false -> p 125 = false ->
  delim s -> head_not p s.
Proof.
  intros H1 H2 H3 H4 H5 H6 H7 Hd. destruct s as [|b t]; [exact I|]. cbn in *.
  apply is_delim_cases in Hd. destruct Hd as [->|[->|[->|[->|[->|[->| ->]]]]]]; assumption.
Qed.
Ltac delim_not := apply delim_head_not; [reflexivity..|assumption].
Lemma delim_ws w s : ws_nl w -> delim s -> delim (w ++ s).
Proof.
  intros Hw Hs. destruct w as [|b t]; [exact Hs|]. apply allb_cons in Hw. destruct Hw as [Hb _].
  cbn. unfold is_delim. rewrite Hb. reflexivity.
Qed.

Lemma take_add a b s : take (a + b) s = take a s ++ take b (drop a s).
Proof.
  unfold take, drop. rewrite N2Nat.inj_add. generalize (N.to_nat a) (N.to_nat b). clear.
  intros a; revert s. induction a as [|a IH]; intros s b; [reflexivity|].
  destruct s as [|x t]; [cbn; destruct b; reflexivity|]. cbn [Nat.add firstn skipn app]. f_equal. apply IH.
Qed.
Lemma len_N_0 {A} (l : list A) : len_N l = 0 -> l = [].
Proof. destruct l; [reflexivity|]. rewrite len_N_cons. lia. Qed.
Lemma take_nonnil n s : 1 <= n -> s <> [] -> take n s <> [].
Proof.
  intros Hn Hs. destruct s as [|b t]; [congruence|]. replace n with (1 + (n - 1)) by lia. rewrite take_succ. discriminate.
Qed.
Lemma span_pos_nonnil p s : span p s <> 0 -> s <> [].
Proof. intros H ->. apply H. reflexivity. Qed.

Lemma sign_len_take s : allb is_sign (take (sign_len s) s) /\
  (take (sign_len s) s = [] \/ exists c, take (sign_len s) s = [c] /\ is_sign c = true).
Proof.
  unfold sign_len. destruct s as [|b t]; [split; [reflexivity|left; reflexivity]|].
  destruct (is_sign b) eqn:E.
  - rewrite <- (N.add_0_r 1), take_succ, take_0. split; [apply allb_cons; split; [exact E|reflexivity]|].
    right. exists b. split; [reflexivity|exact E].
  - rewrite take_0. split; [reflexivity|left; reflexivity].
Qed.

(* the exponent recogniser: what it consumes is an exponent, and it consumes a whole exponent *)
Lemma exp_len_sound e : exp_len e <> 0 -> exp_lit (take (exp_len e) e).
Proof.
  unfold exp_len. destruct e as [|c t]; [congruence|]. destruct (is_eE c) eqn:Ec; [|congruence].
  set (d := span is_digit (drop (sign_len t) t)). destruct (d =? 0) eqn:Ed; [congruence|]. intros _.
  apply N.eqb_neq in Ed. rewrite <- N.add_assoc, take_succ, take_add.
  exists c, (take (sign_len t) t), (take d (drop (sign_len t) t)).
  split; [reflexivity|]. split; [exact Ec|]. split; [apply sign_len_take|]. split.
  - apply take_nonnil; [lia|]. apply (span_pos_nonnil is_digit). exact Ed.
  - apply span_allb.
Qed.
Lemma is_sign_digit c : is_digit c = true -> is_sign c = false.
Proof. unfold is_digit, is_sign. bool_lia. Qed.
Lemma is_eE_digit c : is_eE c = true -> is_digit c = false.
Proof. unfold is_digit, is_eE. bool_lia. Qed.
Lemma sign_len_app sg s : (sg = [] \/ exists c, sg = [c] /\ is_sign c = true) -> head_not is_sign s ->
  sign_len (sg ++ s) = len_N sg.
Proof.
  intros [->|(c & -> & Hc)] Hs.
  - cbn [app]. unfold sign_len. destruct s as [|b t]; [reflexivity|]. unfold head_not in Hs. rewrite Hs. reflexivity.
  - cbn [app]. unfold sign_len. rewrite Hc. reflexivity.
Qed.
Lemma allb_head_not p q l s : l <> [] -> allb p l -> (forall c, p c = true -> q c = false) -> head_not q (l ++ s).
Proof.
  intros Hl Ha Hpq. destruct l as [|b t]; [congruence|]. apply allb_cons in Ha. destruct Ha as [Hb _].
  cbn. apply Hpq. exact Hb.
Qed.
Lemma exp_len_complete ex rest : exp_lit ex -> head_not is_digit rest -> exp_len (ex ++ rest) = len_N ex.
Proof.
  intros (e & sg & ds & -> & He & Hsg & Hds & Hda) Hr. cbn [app]. unfold exp_len. rewrite He.
  rewrite <- app_assoc. rewrite (sign_len_app sg (ds ++ rest) Hsg (allb_head_not _ _ _ _ Hds Hda is_sign_digit)).
  rewrite drop_app_exact. rewrite (span_app _ _ _ Hda Hr).
  destruct (len_N ds =? 0) eqn:E.
  - apply N.eqb_eq in E. apply len_N_0 in E. contradiction.
  - rewrite len_N_cons, len_N_app. lia.
Qed.
Lemma exp_len_none rest : head_not is_eE rest -> exp_len rest = 0.
Proof. unfold exp_len, head_not. destruct rest as [|b t]; [reflexivity|]. intros ->. reflexivity. Qed.

Lemma ufloat_lexeme_sound t m : ufloat_lexeme t = Some m -> m <= len_N t /\ ufloat_lit (take m t).
Proof.
  intros H. pose proof (ufloat_lexeme_le _ _ H) as [_ Hle]. split; [exact Hle|].
  unfold ufloat_lexeme in H. set (i := span is_digit t) in *.
  destruct (drop i t) as [|b t'] eqn:Ed; [discriminate|]. destruct (b =? 46) eqn:Eb; [|discriminate].
  apply N.eqb_eq in Eb. subst b. set (f := span is_digit t') in *. destruct (f =? 0) eqn:Ef; [discriminate|].
  apply N.eqb_neq in Ef. apply some_inj in H. subst m.
  replace (i + 1 + f + exp_len (drop f t')) with (i + (1 + (f + exp_len (drop f t')))) by lia.
  rewrite take_add, Ed, take_succ, take_add.
  exists (take i t), (take f t'), (take (exp_len (drop f t')) (drop f t')).
  split; [reflexivity|]. split; [apply span_allb|]. split.
  { apply take_nonnil; [lia|]. apply (span_pos_nonnil is_digit). exact Ef. }
  split; [apply span_allb|].
  destruct (N.eq_dec (exp_len (drop f t')) 0) as [E0|E0]; [left; rewrite E0; apply take_0|right; apply exp_len_sound; exact E0].
Qed.
Lemma float_lexeme_sound s n : float_lexeme s = Some n -> n <= len_N s /\ float_lit (take n s).
Proof.
  intros H. pose proof (float_lexeme_le _ _ H) as [_ Hle]. split; [exact Hle|].
  unfold float_lexeme in H. destruct (ufloat_lexeme (drop (sign_len s) s)) as [m|] eqn:Eu; [|discriminate].
  apply some_inj in H. subst n. apply ufloat_lexeme_sound in Eu. destruct Eu as [_ Hu].
  rewrite take_add. destruct (sign_len_take s) as [_ [E|(c & E & Hc)]]; rewrite E.
  - left. exact Hu.
  - right. exists c, (take m (drop (sign_len s) s)). split; [reflexivity|]. split; assumption.
Qed.

Lemma ufloat_lexeme_complete u rest : ufloat_lit u -> head_not is_digit rest -> head_not is_eE rest ->
  ufloat_lexeme (u ++ rest) = Some (len_N u).
Proof.
  intros (ip & fp & ex & -> & Hip & Hfp & Hfa & Hex) Hr1 Hr2. unfold ufloat_lexeme.
  rewrite <- app_assoc. cbn [app].
  rewrite (span_app is_digit ip (46 :: (fp ++ ex) ++ rest) Hip eq_refl). rewrite drop_app_exact. cbn [N.eqb Pos.eqb].
  assert (Hh : head_not is_digit (ex ++ rest)).
  { destruct Hex as [->|(e & sg & ds & -> & He & _)]; [exact Hr1|]. cbn [app head_not]. apply is_eE_digit. exact He. }
  rewrite <- app_assoc. rewrite (span_app is_digit fp (ex ++ rest) Hfa Hh). rewrite drop_app_exact.
  destruct (len_N fp =? 0) eqn:E.
  { apply N.eqb_eq in E. apply len_N_0 in E. contradiction. }
  f_equal. rewrite len_N_app, len_N_cons, len_N_app.
  destruct Hex as [->|Hex].
  - cbn [app]. rewrite (exp_len_none rest Hr2). change (@len_N N []) with 0. lia.
  - rewrite (exp_len_complete ex rest Hex Hr1). lia.
Qed.
Lemma ufloat_head u : ufloat_lit u -> exists b t, u = b :: t /\ (is_digit b = true \/ b = 46).
Proof.
  intros (ip & fp & ex & -> & Hip & _). destruct ip as [|b t]; cbn [app].
  - eexists _, _. split; [reflexivity|right; reflexivity].
  - apply allb_cons in Hip. eexists _, _. split; [reflexivity|left; tauto].
Qed.
Lemma float_lexeme_complete lex rest : float_lit lex -> head_not is_digit rest -> head_not is_eE rest ->
  float_lexeme (lex ++ rest) = Some (len_N lex).
Proof.
  intros [Hu|(sg & u & -> & Hsg & Hu)] Hr1 Hr2; unfold float_lexeme.
  - destruct (ufloat_head _ Hu) as (b & t & E & Hb). assert (Hs : sign_len (lex ++ rest) = 0).
    { subst lex. cbn [app]. unfold sign_len. destruct Hb as [Hb| ->]; [rewrite (is_sign_digit _ Hb)|]; reflexivity. }
    rewrite Hs, drop_0, (ufloat_lexeme_complete _ _ Hu Hr1 Hr2). reflexivity.
  - cbn [app]. assert (Hs : sign_len (sg :: u ++ rest) = 1) by (unfold sign_len; rewrite Hsg; reflexivity).
    rewrite Hs, drop_1, (ufloat_lexeme_complete _ _ Hu Hr1 Hr2), len_N_cons. reflexivity.
Qed.

Lemma tok_float_sound s v r : tok_float false s = Some (v, r) ->
  exists lex, s = lex ++ r /\ v = JNum lex /\ float_lit lex /\ float_overflow lex = false.
Proof.
  unfold tok_float, spec_float. destruct (float_lexeme s) as [n|] eqn:El; [|discriminate].
  unfold conv_range. destruct (float_overflow (take n s)) eqn:Eo; [discriminate|].
  cbn [andb]. intros H. apply some_inj in H. inversion H; subst v r.
  apply float_lexeme_sound in El. destruct El as [_ Hl].
  exists (take n s). split; [symmetry; apply take_drop|]. split; [reflexivity|]. split; assumption.
Qed.
Lemma tok_float_complete lex rest : float_lit lex -> float_overflow lex = false -> delim rest ->
  tok_float false (lex ++ rest) = Some (JNum lex, rest).
Proof.
  intros Hl Ho Hd. unfold tok_float, spec_float.
  rewrite (float_lexeme_complete lex rest Hl); [|delim_not|delim_not].
  unfold conv_range. rewrite take_app_exact, Ho. cbn [andb]. rewrite take_app_exact, drop_app_exact. reflexivity.
Qed.

(* ================================================================== *)
(* B3. The Integer literal                                             *)

(* the grammar's Integer rule is the declarative grammar of C08 *)
Lemma int_lit_is_C08 l : int_lit l <-> LiteralProofs.is_int_lit l.
Proof. split; intros H; exact H. Qed.

Definition int_char (c : N) : bool := is_sign c || is_hex c || is_xX c.
Lemma digit_hex c : is_digit c = true -> is_hex c = true.
Proof. bool_lia. Qed.
Lemma nzdigit_digit c : is_nzdigit c = true -> is_digit c = true.
Proof. bool_lia. Qed.
Lemma octal_digit c : is_octal c = true -> is_digit c = true.
Proof. bool_lia. Qed.
Lemma allb_impl (p q : N -> bool) l : (forall c, p c = true -> q c = true) -> allb p l -> allb q l.
Proof.
  intros Hpq. induction l as [|b t IH]; intros H; [reflexivity|].
  apply allb_cons in H. destruct H as [Hb Ht]. apply allb_cons. split; [apply Hpq; exact Hb|exact (IH Ht)].
Qed.
Lemma hex_int_char c : is_hex c = true -> int_char c = true.
Proof. unfold int_char. intros ->. rewrite orb_true_r. reflexivity. Qed.
Lemma uint_lit_chars u : uint_lit u -> allb int_char u.
Proof.
  intros [(d & ds & -> & Hd & Hds)|[(x & hs & -> & Hx & _ & Hhs)|(os & -> & Hos)]].
  - apply allb_cons. split; [apply hex_int_char, digit_hex, nzdigit_digit; exact Hd|].
    apply (allb_impl is_digit); [intros c Hc; apply hex_int_char, digit_hex; exact Hc|exact Hds].
  - apply allb_cons. split; [reflexivity|]. apply allb_cons. split; [unfold int_char; rewrite Hx; apply orb_true_r|].
    apply (allb_impl is_hex); [exact hex_int_char|exact Hhs].
  - apply allb_cons. split; [reflexivity|].
    apply (allb_impl is_octal); [intros c Hc; apply hex_int_char, digit_hex, octal_digit; exact Hc|exact Hos].
Qed.
Lemma int_lit_chars l : int_lit l -> allb int_char l.
Proof.
  intros [Hu|(sg & u & -> & Hsg & Hu)]; [apply uint_lit_chars; exact Hu|].
  apply allb_cons. split; [unfold int_char; rewrite Hsg; reflexivity|apply uint_lit_chars; exact Hu].
Qed.

Lemma take_app_ge n a b : len_N a <= n -> take n (a ++ b) = a ++ take (n - len_N a) b.
Proof.
  intros H. replace n with (len_N a + (n - len_N a)) at 1 by lia.
  rewrite take_add, take_app_exact, drop_app_exact. reflexivity.
Qed.

Lemma int_lexeme_complete lex rest : int_lit lex -> head_not int_char rest -> int_lexeme (lex ++ rest) = Some (len_N lex).
Proof.
  intros Hl Hr. pose proof (int_lexeme_longest (lex ++ rest)) as H.
  assert (Hp : LiteralProofs.is_int_lit (take (len_N lex) (lex ++ rest))) by (rewrite take_app_exact; exact Hl).
  assert (Hle : len_N lex <= len_N (lex ++ rest)) by (rewrite len_N_app; lia).
  destruct (int_lexeme (lex ++ rest)) as [n|]; cbn [longest_prefix] in H.
  2:{ exfalso. exact (H _ Hle Hp). }
  destruct H as (Hn & Hlit & Hmax). specialize (Hmax _ Hle Hp). f_equal.
  destruct (N.eq_dec n (len_N lex)) as [E|E]; [exact E|]. exfalso.
  rewrite (take_app_ge n lex rest ltac:(lia)) in Hlit.
  destruct rest as [|b t].
  { rewrite app_nil_r in Hn. lia. }
  replace (n - len_N lex) with (1 + (n - len_N lex - 1)) in Hlit by lia. rewrite take_succ in Hlit.
  apply int_lit_chars in Hlit. apply allb_app in Hlit. destruct Hlit as [_ Hb]. apply allb_cons in Hb.
  destruct Hb as [Hb _]. unfold head_not in Hr. congruence.
Qed.

Lemma uint_head u : uint_lit u -> exists b t, u = b :: t /\ is_digit b = true.
Proof.
  intros [(d & ds & -> & Hd & _)|[(x & hs & -> & _)|(os & -> & _)]]; eexists _, _; (split; [reflexivity|]);
    [apply nzdigit_digit; exact Hd|reflexivity|reflexivity].
Qed.
Lemma is_xX_digit c : is_xX c = true -> is_digit c = false.
Proof. bool_lia. Qed.
(* an integer literal followed by neither a digit nor '.' is not the beginning of a Float literal *)
Lemma ufloat_lexeme_uint u rest : uint_lit u -> head_not is_digit rest -> head_not (fun b => b =? 46) rest ->
  ufloat_lexeme (u ++ rest) = None.
Proof.
  intros Hu Hr1 Hr2.
  assert (Hall : forall l, allb is_digit l -> ufloat_lexeme (l ++ rest) = None).
  { intros l Hl. unfold ufloat_lexeme. rewrite (span_app is_digit l rest Hl Hr1), drop_app_exact.
    destruct rest as [|b t]; [reflexivity|]. unfold head_not in Hr2. rewrite Hr2. reflexivity. }
  destruct Hu as [(d & ds & -> & Hd & Hds)|[(x & hs & -> & Hx & _ & _)|(os & -> & Hos)]].
  - apply Hall. apply allb_cons. split; [apply nzdigit_digit; exact Hd|exact Hds].
  - unfold ufloat_lexeme. cbn [app span]. change (is_digit 48) with true. cbn iota.
    rewrite (is_xX_digit _ Hx). rewrite N.add_0_r, drop_1.
    assert (E : (x =? 46) = false) by (revert Hx; clear; bool_lia). rewrite E. reflexivity.
  - apply Hall. apply allb_cons. split; [reflexivity|]. apply (allb_impl is_octal); [exact octal_digit|exact Hos].
Qed.
Lemma float_lexeme_int lex rest : int_lit lex -> head_not is_digit rest -> head_not (fun b => b =? 46) rest ->
  float_lexeme (lex ++ rest) = None.
Proof.
  intros [Hu|(sg & u & -> & Hsg & Hu)] Hr1 Hr2; unfold float_lexeme.
  - destruct (uint_head _ Hu) as (b & t & E & Hb). assert (Hs : sign_len (lex ++ rest) = 0).
    { subst lex. cbn [app]. unfold sign_len. rewrite (is_sign_digit _ Hb). reflexivity. }
    rewrite Hs, drop_0, (ufloat_lexeme_uint _ _ Hu Hr1 Hr2). reflexivity.
  - cbn [app]. assert (Hs : sign_len (sg :: u ++ rest) = 1) by (unfold sign_len; rewrite Hsg; reflexivity).
    rewrite Hs, drop_1, (ufloat_lexeme_uint _ _ Hu Hr1 Hr2). reflexivity.
Qed.

Lemma tok_string_head_none b t : (b =? 34) = false -> tok_string false (b :: t) = None.
Proof. intros H. unfold tok_string, spec_string. rewrite H. reflexivity. Qed.
Lemma int_head lex : int_lit lex -> exists b t, lex = b :: t /\ (b =? 34) = false /\ is_ws b = false.
Proof.
  intros [Hu|(sg & u & -> & Hsg & Hu)].
  - destruct (uint_head _ Hu) as (b & t & -> & Hb). exists b, t. split; [reflexivity|]. revert Hb. clear.
    unfold is_ws. split; bool_lia.
  - exists sg, u. split; [reflexivity|]. revert Hsg. clear. unfold is_ws. split; bool_lia.
Qed.

Lemma tok_integer_sound s v r : tok_integer false s = Some (v, r) ->
  exists lex z, s = lex ++ r /\ v = JInt z /\ int_lit lex /\ parse_int_base0 lex = Some z.
Proof.
  unfold tok_integer, spec_integer. pose proof (int_lexeme_longest s) as Hl.
  destruct (int_lexeme s) as [n|]; [|discriminate]. cbn [longest_prefix] in Hl. destruct Hl as (_ & Hlit & _).
  destruct (starts_with_byte 46 (drop n s)); [discriminate|].
  destruct (parse_int_base0 (take n s)) as [z|] eqn:Ez; [|discriminate]. cbn [andb].
  intros H. apply some_inj in H. inversion H; subst v r.
  exists (take n s), z. split; [symmetry; apply take_drop|]. split; [reflexivity|]. split; [exact Hlit|exact Ez].
Qed.
Lemma tok_integer_complete lex z rest : int_lit lex -> parse_int_base0 lex = Some z -> delim rest ->
  tok_integer false (lex ++ rest) = Some (JInt z, rest).
Proof.
  intros Hl Hz Hd. unfold tok_integer, spec_integer.
  rewrite (int_lexeme_complete lex rest Hl); [|delim_not]. rewrite drop_app_exact, take_app_exact, Hz.
  assert (E : starts_with_byte 46 rest = false).
  { assert (H : head_not (fun b => b =? 46) rest) by delim_not. destruct rest; [reflexivity|exact H]. }
  rewrite E. cbn [andb]. rewrite drop_app_exact. reflexivity.
Qed.
Lemma tok_float_int_none lex rest : int_lit lex -> delim rest -> tok_float false (lex ++ rest) = None.
Proof.
  intros Hl Hd. unfold tok_float, spec_float. rewrite (float_lexeme_int lex rest Hl); [reflexivity|delim_not|delim_not].
Qed.

(* ================================================================== *)
(* B4. Words                                                           *)

Lemma has_prefix_split s p : has_prefix s p = true -> s = p ++ drop (len_N p) s.
Proof.
  revert s. induction p as [|x p IH]; intros s H; [rewrite drop_0; reflexivity|].
  destruct s as [|y t]; [discriminate|]. cbn [has_prefix] in H. apply andb_true_iff in H. destruct H as [E H].
  apply N.eqb_eq in E. subst y. rewrite len_N_cons, drop_succ. cbn [app]. f_equal. apply IH. exact H.
Qed.
Lemma word_at_split w s : word_at w s = true -> s = w ++ drop (len_N w) s.
Proof. unfold word_at. intros H. apply andb_true_iff in H. apply has_prefix_split. tauto. Qed.

Lemma tok_bool_sound s v r : tok_bool s = Some (v, r) ->
  (v = JBool true /\ s = w_true ++ r) \/ (v = JBool false /\ s = w_false ++ r).
Proof.
  unfold tok_bool, spec_bool. destruct (word_at w_true s) eqn:Et.
  - intros H. apply some_inj in H. inversion H; subst. left. split; [reflexivity|apply word_at_split; exact Et].
  - destruct (word_at w_false s) eqn:Ef; [|discriminate].
    intros H. apply some_inj in H. inversion H; subst. right. split; [reflexivity|apply word_at_split; exact Ef].
Qed.
Lemma tok_null_sound s v r : tok_null s = Some (v, r) -> v = JNull /\ s = w_null ++ r.
Proof.
  unfold tok_null, spec_nil. destruct (word_at w_null s) eqn:Et; [|discriminate].
  intros H. apply some_inj in H. inversion H; subst. split; [reflexivity|apply word_at_split; exact Et].
Qed.
Lemma word_follow rest : head_not is_word_char rest ->
  match rest with [] => true | d :: _ => negb (is_word_char d) end = true.
Proof. destruct rest as [|d t]; [reflexivity|]. unfold head_not. intros ->. reflexivity. Qed.
Lemma has_prefix_app w rest : has_prefix (w ++ rest) w = true.
Proof. induction w as [|x w IH]; [apply has_prefix_nil|]. cbn [app has_prefix]. rewrite N.eqb_refl, IH. reflexivity. Qed.
Lemma skipn_app_exact {A} (w rest : list A) : skipn (length w) (w ++ rest) = rest.
Proof. induction w as [|x w IH]; [reflexivity|]. cbn [app length skipn]. exact IH. Qed.
Lemma word_at_app w rest : head_not is_word_char rest -> word_at w (w ++ rest) = true.
Proof.
  intros Hw. apply word_follow in Hw. unfold word_at. rewrite has_prefix_app, skipn_app_exact, Hw. reflexivity.
Qed.
Lemma word_at_head a s b p : (b =? a) = false -> word_at (b :: p) (a :: s) = false.
Proof. intros H. unfold word_at. cbn [has_prefix]. rewrite H. reflexivity. Qed.
Lemma tok_true_complete rest : delim rest -> tok_bool (w_true ++ rest) = Some (JBool true, rest).
Proof.
  intros Hd. assert (Hw : head_not is_word_char rest) by delim_not.
  unfold tok_bool, spec_bool. rewrite (word_at_app w_true rest Hw). rewrite drop_app_exact. reflexivity.
Qed.
Lemma tok_false_complete rest : delim rest -> tok_bool (w_false ++ rest) = Some (JBool false, rest).
Proof.
  intros Hd. assert (Hw : head_not is_word_char rest) by delim_not.
  unfold tok_bool, spec_bool. rewrite (word_at_app w_false rest Hw).
  replace (word_at w_true (w_false ++ rest)) with false by (symmetry; apply word_at_head; reflexivity).
  rewrite drop_app_exact. reflexivity.
Qed.
Lemma tok_null_complete rest : delim rest -> tok_null (w_null ++ rest) = Some (JNull, rest).
Proof.
  intros Hd. assert (Hw : head_not is_word_char rest) by delim_not.
  unfold tok_null, spec_nil. rewrite (word_at_app w_null rest Hw). rewrite drop_app_exact. reflexivity.
Qed.

(* ================================================================== *)
(* C. The SepBy loop, soundness                                        *)

Section SepSound.
  Context {A : Type}.
  Variable item : list N -> option (A * list N).
  Variable R : A -> list N -> Prop.
  Hypothesis item_sound : forall s a r, item s = Some (a, r) -> exists lex, s = lex ++ r /\ R a lex.

  Inductive more_rel : list A -> list N -> Prop :=
  | MR_nil : more_rel [] []
  | MR_cons : forall a l w1 w2 lex rest, ws_sp w1 -> ws_nl w2 -> R a lex -> more_rel l rest ->
      more_rel (a :: l) (w1 ++ 44 :: w2 ++ lex ++ rest).
  Inductive list_rel : list A -> list N -> Prop :=
  | LR_nil : list_rel [] []
  | LR_cons : forall a l w lex rest, ws_nl w -> R a lex -> more_rel l rest -> list_rel (a :: l) (w ++ lex ++ rest).

  Lemma sep_more_sound : forall n r l r', sep_more item n r = Some (l, r') ->
    exists body, r = body ++ r' /\ more_rel l body.
  Proof.
    induction n as [|n IH]; intros r l r' H; cbn [sep_more] in H; [discriminate|].
    destruct (sep_byte 44 r) as [r1|] eqn:Es.
    2:{ apply some_inj in H. inversion H; subst. exists []. split; [reflexivity|constructor]. }
    destruct (item (skip_ws r1)) as [[a r2]|] eqn:Ei; [|discriminate].
    destruct (sep_more item n r2) as [[l' r3]|] eqn:Em; [|discriminate].
    apply some_inj in H. inversion H; subst l r'. clear H.
    apply sep_byte_sound in Es. destruct Es as (w1 & -> & Hw1).
    destruct (skip_ws_split r1) as (w2 & Hr1 & Hw2).
    apply item_sound in Ei. destruct Ei as (lex & Ei & HR).
    apply IH in Em. destruct Em as (body & -> & Hb).
    exists (w1 ++ 44 :: w2 ++ lex ++ body). split; [|constructor; assumption].
    rewrite Hr1, Ei. rewrite <- !app_assoc. cbn [app]. rewrite <- !app_assoc. reflexivity.
  Qed.
  Lemma sep_list_sound s l r : sep_list item s = Some (l, r) -> exists body, s = body ++ r /\ list_rel l body.
  Proof.
    unfold sep_list. destruct (item (skip_ws s)) as [[a r1]|] eqn:Ei.
    2:{ intros H. apply some_inj in H. inversion H; subst. exists []. split; [reflexivity|constructor]. }
    destruct (sep_more item (S (length r1)) r1) as [[l' r2]|] eqn:Em; [|discriminate].
    intros H. apply some_inj in H. inversion H; subst l r. clear H.
    destruct (skip_ws_split s) as (w & Hs & Hw).
    apply item_sound in Ei. destruct Ei as (lex & Ei & HR).
    apply sep_more_sound in Em. destruct Em as (body & -> & Hb).
    exists (w ++ lex ++ body). split; [|constructor; assumption].
    rewrite Hs, Ei. rewrite <- !app_assoc. reflexivity.
  Qed.
End SepSound.

Lemma more_rel_jmore l b : more_rel jval l b -> jmore l b.
Proof. induction 1; constructor; assumption. Qed.
Lemma list_rel_jelems l b : list_rel jval l b -> jelems l b.
Proof. destruct 1; constructor; try assumption. apply more_rel_jmore. assumption. Qed.
Lemma more_rel_jmoremembers l b : more_rel jmember l b -> jmoremembers l b.
Proof. induction 1; constructor; assumption. Qed.
Lemma list_rel_jmembers l b : list_rel jmember l b -> jmembers l b.
Proof. destruct 1; constructor; try assumption. apply more_rel_jmoremembers. assumption. Qed.

(* ================================================================== *)
(* D. Soundness: every accepted document is derivable                  *)

Definition val_sound (pv : list N -> option (value * list N)) : Prop :=
  forall s v r, pv s = Some (v, r) -> exists lex, s = lex ++ r /\ jval v lex.

Lemma on_head_sound {B} c s (f : list N -> option B) x : on_head c s f = Some x -> exists t, s = c :: t /\ f t = Some x.
Proof.
  unfold on_head. destruct s as [|b t]; [discriminate|]. destruct (b =? c) eqn:E; [|discriminate].
  apply N.eqb_eq in E. subst b. intros H. exists t. split; [reflexivity|exact H].
Qed.

(* the restricted terminals (standard-JSON lexemes only) accept nothing the full ones do not *)
Lemma tok_string_weaken strict s x : tok_string strict s = Some x -> tok_string false s = Some x.
Proof.
  unfold tok_string. destruct (spec_string false s) as [n [| |v0| | | |]|]; try discriminate.
  destruct (strict && negb (std_string_lex (take n s))); [discriminate|]. cbn [andb]. exact (fun H => H).
Qed.
Lemma tok_float_weaken strict s x : tok_float strict s = Some x -> tok_float false s = Some x.
Proof.
  unfold tok_float. destruct (spec_float conv_range s) as [n v|]; try discriminate.
  destruct (strict && negb (std_number_lex (take n s))); [discriminate|]. cbn [andb]. exact (fun H => H).
Qed.
Lemma tok_integer_weaken strict s x : tok_integer strict s = Some x -> tok_integer false s = Some x.
Proof.
  unfold tok_integer. destruct (spec_integer s) as [n [z| | | | | |]|]; try discriminate.
  destruct (strict && negb (std_int_lex (take n s))); [discriminate|]. cbn [andb]. exact (fun H => H).
Qed.

Lemma p_member_sound strict pv : val_sound pv -> forall s kv r, p_member strict pv s = Some (kv, r) ->
  exists m, s = m ++ r /\ jmember kv m.
Proof.
  intros Hpv s kv r H. unfold p_member in H.
  destruct (tok_string strict s) as [[key r0]|] eqn:Ek; [|discriminate]. apply tok_string_weaken in Ek.
  destruct (sep_byte 58 r0) as [r1|] eqn:Es; [|discriminate].
  destruct (pv (skip_ws r1)) as [[v r2]|] eqn:Ev; [|discriminate].
  apply some_inj in H. inversion H; subst kv r. clear H.
  apply tok_string_sound in Ek. destruct Ek as (klex & -> & Hk).
  apply sep_byte_sound in Es. destruct Es as (w1 & -> & Hw1).
  destruct (skip_ws_split r1) as (w2 & Hr1 & Hw2).
  apply Hpv in Ev. destruct Ev as (lex & Ev & Hv).
  exists (klex ++ w1 ++ 58 :: w2 ++ lex). split; [|constructor; assumption].
  rewrite Hr1, Ev. rewrite <- !app_assoc. cbn [app]. rewrite <- !app_assoc. reflexivity.
Qed.
Lemma p_array_sound pv : val_sound pv -> val_sound (p_array pv).
Proof.
  intros Hpv s v r H. unfold p_array in H. apply on_head_sound in H. destruct H as (t & -> & H).
  destruct (sep_list pv t) as [[vs r1]|] eqn:El; [|discriminate].
  destruct (close_byte 93 r1) as [r'|] eqn:Ec; [|discriminate].
  apply some_inj in H. inversion H; subst v r. clear H.
  apply (sep_list_sound pv jval Hpv) in El. destruct El as (body & -> & Hb).
  apply close_byte_sound in Ec. destruct Ec as (w & -> & Hw).
  exists (91 :: body ++ w ++ [93]). split; [|constructor; [apply list_rel_jelems; exact Hb|exact Hw]].
  cbn [app]. rewrite <- !app_assoc. reflexivity.
Qed.
Lemma p_object_sound strict pv : val_sound pv -> val_sound (p_object strict pv).
Proof.
  intros Hpv s v r H. unfold p_object in H. apply on_head_sound in H. destruct H as (t & -> & H).
  destruct (sep_list (p_member strict pv) t) as [[kvs r1]|] eqn:El; [|discriminate].
  destruct (close_byte 125 r1) as [r'|] eqn:Ec; [|discriminate].
  apply some_inj in H. inversion H; subst v r. clear H.
  apply (sep_list_sound _ jmember (p_member_sound strict pv Hpv)) in El. destruct El as (body & -> & Hb).
  apply close_byte_sound in Ec. destruct Ec as (w & -> & Hw).
  exists (123 :: body ++ w ++ [125]). split; [|constructor; [apply list_rel_jmembers; exact Hb|exact Hw]].
  cbn [app]. rewrite <- !app_assoc. reflexivity.
Qed.

Lemma p_value_sound strict : forall fuel, val_sound (fun s => p_value strict fuel s).
Proof.
  induction fuel as [|k IH]; intros s v r H; cbn [p_value] in H; [discriminate|].
  destruct (tok_string strict s) as [[v0 r0]|] eqn:E1.
  { apply some_inj in H. inversion H; subst v r. apply tok_string_weaken, tok_string_sound in E1. destruct E1 as (lex & -> & Hl).
    exists lex. split; [reflexivity|constructor; exact Hl]. }
  destruct (tok_float strict s) as [x|] eqn:E2.
  { apply some_inj in H. subst x. apply tok_float_weaken, tok_float_sound in E2. destruct E2 as (lex & -> & -> & Hl & Ho).
    exists lex. split; [reflexivity|constructor; assumption]. }
  destruct (tok_integer strict s) as [x|] eqn:E3.
  { apply some_inj in H. subst x. apply tok_integer_weaken, tok_integer_sound in E3. destruct E3 as (lex & z & -> & -> & Hl & Hz).
    exists lex. split; [reflexivity|constructor; assumption]. }
  destruct (p_array (fun x => p_value strict k x) s) as [x|] eqn:E4.
  { apply some_inj in H. subst x. exact (p_array_sound _ IH _ _ _ E4). }
  destruct (p_object strict (fun x => p_value strict k x) s) as [x|] eqn:E5.
  { apply some_inj in H. subst x. exact (p_object_sound strict _ IH _ _ _ E5). }
  destruct (tok_bool s) as [x|] eqn:E6.
  { apply some_inj in H. subst x. apply tok_bool_sound in E6. destruct E6 as [[-> ->]|[-> ->]].
    - exists w_true. split; [reflexivity|constructor].
    - exists w_false. split; [reflexivity|constructor]. }
  apply tok_null_sound in H. destruct H as [-> ->]. exists w_null. split; [reflexivity|constructor].
Qed.

Lemma parse_doc_sound strict raw v : parse_doc strict raw = Some v -> json_doc v raw.
Proof.
  unfold parse_doc. set (s := normalize raw).
  destruct (p_value strict (S (length s)) (skip_ws s)) as [[v0 r]|] eqn:E; [|discriminate].
  destruct (skip_ws r) as [|b t] eqn:Er; [|discriminate].
  intros H. apply some_inj in H. subst v0.
  apply (p_value_sound strict) in E. destruct E as (lex & E & Hv).
  destruct (skip_ws_split s) as (w1 & Hs & Hw1). destruct (skip_ws_split r) as (w2 & Hr & Hw2).
  rewrite Er, app_nil_r in Hr. subst w2.
  exists w1, lex, r. split; [change (normalize raw) with s; rewrite Hs at 1; rewrite E; reflexivity|]. split; [exact Hw1|]. split; assumption.
Qed.
Theorem spec_parse_sound raw v : spec_parse raw = Some v -> json_doc v raw.
Proof. exact (parse_doc_sound false raw v). Qed.

(* ================================================================== *)
(* E. Completeness: every derivable document is accepted, with the derivation's value *)

Scheme jval_min := Minimality for jval Sort Prop
  with jelems_min := Minimality for jelems Sort Prop
  with jmore_min := Minimality for jmore Sort Prop
  with jmember_min := Minimality for jmember Sort Prop
  with jmembers_min := Minimality for jmembers Sort Prop
  with jmoremembers_min := Minimality for jmoremembers Sort Prop.
Combined Scheme json_mutind from jval_min, jelems_min, jmore_min, jmember_min, jmembers_min, jmoremembers_min.

(* what follows a list inside its brackets: whitespace and the closing byte *)
Definition closer (c : N) (rest : list N) : Prop := exists w r, rest = w ++ c :: r /\ ws_nl w.
Lemma closer_delim c rest : closer c rest -> is_delim c = true -> delim rest.
Proof. intros (w & r & -> & Hw) Hc. apply delim_ws; [exact Hw|exact Hc]. Qed.

Lemma tok_float_head_none b t : is_sign b = false -> is_digit b = false -> (b =? 46) = false -> tok_float false (b :: t) = None.
Proof.
  intros H1 H2 H3. unfold tok_float, spec_float, float_lexeme, sign_len. rewrite H1, drop_0.
  unfold ufloat_lexeme. cbn [span]. rewrite H2, drop_0, H3. reflexivity.
Qed.
Lemma tok_integer_head_none b t : is_sign b = false -> is_digit b = false -> tok_integer false (b :: t) = None.
Proof.
  intros H1 H2. unfold tok_integer, spec_integer, int_lexeme, sign_len. rewrite H1, drop_0.
  unfold uint_lexeme. assert (E1 : is_nzdigit b = false).
  { destruct (is_nzdigit b) eqn:E; [|reflexivity]. apply nzdigit_digit in E. congruence. }
  assert (E2 : (b =? 48) = false).
  { destruct (b =? 48) eqn:E; [|reflexivity]. apply N.eqb_eq in E. subst b. discriminate. }
  rewrite E1, E2. reflexivity.
Qed.
Lemma on_head_other {B} c b t (f : list N -> option B) : (b =? c) = false -> on_head c (b :: t) f = None.
Proof. intros H. unfold on_head. rewrite H. reflexivity. Qed.
Lemma on_head_same {B} c t (f : list N -> option B) : on_head c (c :: t) f = f t.
Proof. unfold on_head. rewrite N.eqb_refl. reflexivity. Qed.
Lemma tok_bool_head_none b t : (116 =? b) = false -> (102 =? b) = false -> tok_bool (b :: t) = None.
Proof.
  intros H1 H2. unfold tok_bool, spec_bool, w_true, w_false. rewrite (word_at_head b t 116 _ H1), (word_at_head b t 102 _ H2).
  reflexivity.
Qed.
Lemma tok_null_head_none b t : (110 =? b) = false -> tok_null (b :: t) = None.
Proof. intros H1. unfold tok_null, spec_nil, w_null. rewrite (word_at_head b t 110 _ H1). reflexivity. Qed.

(* a closing bracket is not the beginning of a value, nor of a member *)
Lemma p_value_close_none c k r : c = 93 \/ c = 125 -> p_value false k (c :: r) = None.
Proof.
  intros Hc. destruct k as [|k]; [reflexivity|]. cbn [p_value].
  rewrite tok_string_head_none by (destruct Hc as [->| ->]; reflexivity).
  rewrite tok_float_head_none by (destruct Hc as [->| ->]; reflexivity).
  rewrite tok_integer_head_none by (destruct Hc as [->| ->]; reflexivity).
  unfold p_array, p_object. rewrite !on_head_other by (destruct Hc as [->| ->]; reflexivity).
  rewrite tok_bool_head_none by (destruct Hc as [->| ->]; reflexivity).
  apply tok_null_head_none. destruct Hc as [->| ->]; reflexivity.
Qed.
Lemma p_member_close_none pv c r : c = 93 \/ c = 125 -> p_member false pv (c :: r) = None.
Proof.
  intros Hc. unfold p_member. rewrite tok_string_head_none by (destruct Hc as [->| ->]; reflexivity). reflexivity.
Qed.
Lemma sep_byte_closer c w r : ws_nl w -> is_ws c = false -> (c =? 44) = false -> sep_byte 44 (w ++ c :: r) = None.
Proof.
  intros Hw H1 H2. unfold sep_byte. destruct (ws_first_nl (w ++ c :: r)); [reflexivity|].
  rewrite (skip_ws_app w (c :: r) Hw H1), H2. reflexivity.
Qed.

(* the first byte of a value is not whitespace *)
Lemma string_head lex v : string_lit lex v -> exists t, lex = 34 :: t.
Proof. intros (body & -> & _). eexists. reflexivity. Qed.
Lemma float_head lex : float_lit lex -> exists b t, lex = b :: t /\ (b =? 34) = false /\ is_ws b = false.
Proof.
  intros [Hu|(sg & u & -> & Hsg & Hu)].
  - destruct (ufloat_head _ Hu) as (b & t & -> & Hb). exists b, t. split; [reflexivity|].
    destruct Hb as [Hb| ->]; [|split; reflexivity]. revert Hb. clear. unfold is_ws. split; bool_lia.
  - exists sg, u. split; [reflexivity|]. revert Hsg. clear. unfold is_ws. split; bool_lia.
Qed.
Lemma jval_head v lex : jval v lex -> exists b t, lex = b :: t /\ is_ws b = false.
Proof.
  destruct 1 as [v lex H|lex H _|z lex H _| | | | |].
  - destruct (string_head _ _ H) as (t & ->). eexists _, _. split; reflexivity.
  - destruct (float_head _ H) as (b & t & -> & _ & Hb). eexists _, _. split; [reflexivity|exact Hb].
  - destruct (int_head _ H) as (b & t & -> & _ & Hb). eexists _, _. split; [reflexivity|exact Hb].
  - eexists _, _. split; reflexivity.
  - eexists _, _. split; reflexivity.
  - eexists _, _. split; reflexivity.
  - eexists _, _. split; reflexivity.
  - eexists _, _. split; reflexivity.
Qed.
Lemma jval_head_not v lex s : jval v lex -> head_not is_ws (lex ++ s).
Proof. intros H. destruct (jval_head _ _ H) as (b & t & -> & Hb). exact Hb. Qed.
Lemma jmember_head_not kv m s : jmember kv m -> head_not is_ws (m ++ s).
Proof.
  destruct 1 as [k klex w1 w2 v lex Hk _ _ _]. destruct (string_head _ _ Hk) as (t & ->). reflexivity.
Qed.
Lemma jmore_delim vs more c rest : jmore vs more -> closer c rest -> is_delim c = true -> delim (more ++ rest).
Proof.
  destruct 1 as [|v vs' w1 w2 lex rest' Hw1 _ _ _]; intros Hc Hd; [exact (closer_delim _ _ Hc Hd)|].
  rewrite <- app_assoc. apply delim_ws; [apply ws_sp_nl; exact Hw1|reflexivity].
Qed.
Lemma jmoremembers_delim kvs more c rest : jmoremembers kvs more -> closer c rest -> is_delim c = true -> delim (more ++ rest).
Proof.
  destruct 1 as [|kv kvs' w1 w2 m rest' Hw1 _ _ _]; intros Hc Hd; [exact (closer_delim _ _ Hc Hd)|].
  rewrite <- app_assoc. apply delim_ws; [apply ws_sp_nl; exact Hw1|reflexivity].
Qed.

Definition pvk (k : nat) : list N -> option (value * list N) := fun x => p_value false k x.

Definition Pv (v : value) (lex : list N) : Prop := forall fuel rest, delim rest -> (length lex < fuel)%nat ->
  p_value false fuel (lex ++ rest) = Some (v, rest).
Definition Pe (vs : list value) (body : list N) : Prop := forall k rest, closer 93 rest -> (length body < k)%nat ->
  sep_list (pvk k) (body ++ rest) = Some (vs, rest).
Definition Pm (vs : list value) (more : list N) : Prop := forall k n rest, closer 93 rest ->
  (length more < k)%nat -> (length more < n)%nat -> sep_more (pvk k) n (more ++ rest) = Some (vs, rest).
Definition Pk (kv : list N * value) (m : list N) : Prop := forall k rest, delim rest -> (length m < k)%nat ->
  p_member false (pvk k) (m ++ rest) = Some (kv, rest).
Definition Po (kvs : list (list N * value)) (body : list N) : Prop := forall k rest, closer 125 rest ->
  (length body < k)%nat -> sep_list (p_member false (pvk k)) (body ++ rest) = Some (kvs, rest).
Definition Pn (kvs : list (list N * value)) (more : list N) : Prop := forall k n rest, closer 125 rest ->
  (length more < k)%nat -> (length more < n)%nat ->
  sep_more (p_member false (pvk k)) n (more ++ rest) = Some (kvs, rest).

Ltac len_simpl := cbn [Datatypes.length] in *; repeat match goal with
  | H : context [Datatypes.length (_ ++ _)] |- _ => rewrite app_length in H
  | |- context [Datatypes.length (_ ++ _)] => rewrite app_length
  | _ => progress cbn [Datatypes.length] in *
  end.

Lemma complete_all :
  (forall v lex, jval v lex -> Pv v lex) /\ (forall vs b, jelems vs b -> Pe vs b) /\ (forall vs b, jmore vs b -> Pm vs b) /\
  (forall kv m, jmember kv m -> Pk kv m) /\ (forall kvs b, jmembers kvs b -> Po kvs b) /\
  (forall kvs b, jmoremembers kvs b -> Pn kvs b).
Proof.
  apply json_mutind.
  - (* string *) intros v lex Hl fuel rest Hd Hf. destruct fuel as [|k]; [lia|]. cbn [p_value].
    rewrite (tok_string_complete lex v rest Hl). reflexivity.
  - (* float *) intros lex Hl Ho fuel rest Hd Hf. destruct fuel as [|k]; [lia|]. cbn [p_value].
    destruct (float_head _ Hl) as (b & t & E & Hb & _).
    assert (E1 : tok_string false (lex ++ rest) = None) by (rewrite E; apply tok_string_head_none; exact Hb).
    rewrite E1, (tok_float_complete lex rest Hl Ho Hd). reflexivity.
  - (* integer *) intros z lex Hl Hz fuel rest Hd Hf. destruct fuel as [|k]; [lia|]. cbn [p_value].
    destruct (int_head _ Hl) as (b & t & E & Hb & _).
    assert (E1 : tok_string false (lex ++ rest) = None) by (rewrite E; apply tok_string_head_none; exact Hb).
    rewrite E1, (tok_float_int_none lex rest Hl Hd), (tok_integer_complete lex z rest Hl Hz Hd). reflexivity.
  - (* array *) intros vs body w _ IH Hw fuel rest Hd Hf. destruct fuel as [|k]; [lia|]. cbn [p_value].
    replace ((91 :: body ++ w ++ [93]) ++ rest) with (91 :: body ++ (w ++ 93 :: rest))
      by (cbn [app]; rewrite <- !app_assoc; reflexivity).
    rewrite tok_string_head_none, tok_float_head_none, tok_integer_head_none by reflexivity.
    unfold p_array. rewrite on_head_same. fold (pvk k).
    rewrite (IH k (w ++ 93 :: rest)); [|exists w, rest; split; [reflexivity|exact Hw]|len_simpl; lia].
    rewrite (close_byte_app 93 w rest Hw eq_refl). reflexivity.
  - (* object *) intros kvs body w _ IH Hw fuel rest Hd Hf. destruct fuel as [|k]; [lia|]. cbn [p_value].
    replace ((123 :: body ++ w ++ [125]) ++ rest) with (123 :: body ++ (w ++ 125 :: rest))
      by (cbn [app]; rewrite <- !app_assoc; reflexivity).
    rewrite tok_string_head_none, tok_float_head_none, tok_integer_head_none by reflexivity.
    unfold p_array. rewrite on_head_other by reflexivity.
    unfold p_object. rewrite on_head_same. fold (pvk k).
    rewrite (IH k (w ++ 125 :: rest)); [|exists w, rest; split; [reflexivity|exact Hw]|len_simpl; lia].
    rewrite (close_byte_app 125 w rest Hw eq_refl). reflexivity.
  - (* true *) intros fuel rest Hd Hf. destruct fuel as [|k]; [cbn in Hf; lia|]. cbn [p_value].
    unfold w_true at 1 2 3 4 5. cbn [app].
    rewrite tok_string_head_none, tok_float_head_none, tok_integer_head_none by reflexivity.
    unfold p_array, p_object. rewrite !on_head_other by reflexivity.
    rewrite (tok_true_complete rest Hd). reflexivity.
  - (* false *) intros fuel rest Hd Hf. destruct fuel as [|k]; [cbn in Hf; lia|]. cbn [p_value].
    unfold w_false at 1 2 3 4 5. cbn [app].
    rewrite tok_string_head_none, tok_float_head_none, tok_integer_head_none by reflexivity.
    unfold p_array, p_object. rewrite !on_head_other by reflexivity.
    rewrite (tok_false_complete rest Hd). reflexivity.
  - (* null *) intros fuel rest Hd Hf. destruct fuel as [|k]; [cbn in Hf; lia|]. cbn [p_value].
    unfold w_null at 1 2 3 4 5 6. cbn [app].
    rewrite tok_string_head_none, tok_float_head_none, tok_integer_head_none by reflexivity.
    unfold p_array, p_object. rewrite !on_head_other by reflexivity.
    rewrite tok_bool_head_none by reflexivity.
    exact (tok_null_complete rest Hd).
  - (* no element *) intros k rest (w & r & -> & Hw) Hf. cbn [app]. unfold sep_list.
    rewrite (skip_ws_app w (93 :: r) Hw eq_refl). unfold pvk. rewrite p_value_close_none by (left; reflexivity). reflexivity.
  - (* first element *) intros v vs w lex more Hw Hv IHv Hm IHm k rest Hc Hf. unfold sep_list.
    rewrite <- !app_assoc. rewrite (skip_ws_app w _ Hw (jval_head_not _ _ _ Hv)).
    unfold pvk at 1. rewrite (IHv k (more ++ rest)); [|exact (jmore_delim _ _ _ _ Hm Hc eq_refl)|len_simpl; lia].
    rewrite (IHm k (S (length (more ++ rest))) rest Hc); [reflexivity|len_simpl; lia|len_simpl; lia].
  - (* no more elements *) intros k n rest (w & r & -> & Hw) Hk Hn. destruct n as [|n]; [cbn in Hn; lia|].
    cbn [app sep_more]. rewrite (sep_byte_closer 93 w r Hw eq_refl eq_refl). reflexivity.
  - (* one more element *) intros v vs w1 w2 lex more Hw1 Hw2 Hv IHv Hm IHm k n rest Hc Hk Hn.
    destruct n as [|n]; [lia|]. cbn [sep_more].
    replace ((w1 ++ 44 :: w2 ++ lex ++ more) ++ rest) with (w1 ++ 44 :: (w2 ++ lex ++ more ++ rest))
      by (rewrite <- !app_assoc; cbn [app]; rewrite <- !app_assoc; reflexivity).
    rewrite (sep_byte_app 44 w1 _ Hw1 eq_refl). rewrite (skip_ws_app w2 _ Hw2 (jval_head_not _ _ _ Hv)).
    unfold pvk at 1. rewrite (IHv k (more ++ rest)); [|exact (jmore_delim _ _ _ _ Hm Hc eq_refl)|len_simpl; lia].
    rewrite (IHm k n rest Hc); [reflexivity|len_simpl; lia|len_simpl; lia].
  - (* member *) intros key klex w1 w2 v lex Hk Hw1 Hw2 Hv IHv k rest Hd Hf. unfold p_member.
    rewrite <- app_assoc. rewrite (tok_string_complete klex key _ Hk).
    replace ((w1 ++ 58 :: w2 ++ lex) ++ rest) with (w1 ++ 58 :: (w2 ++ lex ++ rest))
      by (rewrite <- !app_assoc; cbn [app]; rewrite <- !app_assoc; reflexivity).
    rewrite (sep_byte_app 58 w1 _ Hw1 eq_refl). rewrite (skip_ws_app w2 _ Hw2 (jval_head_not _ _ _ Hv)).
    unfold pvk. rewrite (IHv k rest Hd); [reflexivity|len_simpl; lia].
  - (* no member *) intros k rest (w & r & -> & Hw) Hf. cbn [app]. unfold sep_list.
    rewrite (skip_ws_app w (125 :: r) Hw eq_refl). rewrite p_member_close_none by (right; reflexivity). reflexivity.
  - (* first member *) intros kv kvs w m more Hw Hv IHv Hm IHm k rest Hc Hf. unfold sep_list.
    rewrite <- !app_assoc. rewrite (skip_ws_app w _ Hw (jmember_head_not _ _ _ Hv)).
    rewrite (IHv k (more ++ rest)); [|exact (jmoremembers_delim _ _ _ _ Hm Hc eq_refl)|len_simpl; lia].
    rewrite (IHm k (S (length (more ++ rest))) rest Hc); [reflexivity|len_simpl; lia|len_simpl; lia].
  - (* no more members *) intros k n rest (w & r & -> & Hw) Hk Hn. destruct n as [|n]; [cbn in Hn; lia|].
    cbn [app sep_more]. rewrite (sep_byte_closer 125 w r Hw eq_refl eq_refl). reflexivity.
  - (* one more member *) intros kv kvs w1 w2 m more Hw1 Hw2 Hv IHv Hm IHm k n rest Hc Hk Hn.
    destruct n as [|n]; [lia|]. cbn [sep_more].
    replace ((w1 ++ 44 :: w2 ++ m ++ more) ++ rest) with (w1 ++ 44 :: (w2 ++ m ++ more ++ rest))
      by (rewrite <- !app_assoc; cbn [app]; rewrite <- !app_assoc; reflexivity).
    rewrite (sep_byte_app 44 w1 _ Hw1 eq_refl). rewrite (skip_ws_app w2 _ Hw2 (jmember_head_not _ _ _ Hv)).
    rewrite (IHv k (more ++ rest)); [|exact (jmoremembers_delim _ _ _ _ Hm Hc eq_refl)|len_simpl; lia].
    rewrite (IHm k n rest Hc); [reflexivity|len_simpl; lia|len_simpl; lia].
Qed.

Theorem spec_parse_complete raw v : json_doc v raw -> spec_parse raw = Some v.
Proof.
  intros (w1 & lex & w2 & Hs & Hw1 & Hw2 & Hv). unfold spec_parse, parse_doc. rewrite Hs.
  rewrite (skip_ws_app w1 _ Hw1 (jval_head_not _ _ _ Hv)).
  destruct complete_all as (Hc & _). rewrite (Hc v lex Hv (S (length (w1 ++ lex ++ w2))) w2).
  - rewrite (skip_ws_all w2 Hw2). reflexivity.
  - destruct w2 as [|b t]; [exact I|]. apply allb_cons in Hw2. destruct Hw2 as [Hb _]. cbn. unfold is_delim. rewrite Hb. reflexivity.
  - len_simpl. lia.
Qed.

(* ================================================================== *)
(* F. Corollaries                                                      *)

Theorem spec_parse_iff raw v : spec_parse raw = Some v <-> json_doc v raw.
Proof. split; [apply spec_parse_sound|apply spec_parse_complete]. Qed.

(* the grammar is unambiguous: a byte string derives at most one value *)
Theorem json_doc_unambiguous raw v v' : json_doc v raw -> json_doc v' raw -> v = v'.
Proof.
  intros H H'. apply spec_parse_complete in H, H'. rewrite H in H'. apply some_inj in H'. exact H'.
Qed.

(* the specification rejects exactly the byte strings that derive no value *)
Theorem spec_parse_none raw : spec_parse raw = None <-> forall v, ~ json_doc v raw.
Proof.
  split.
  - intros H v Hd. apply spec_parse_complete in Hd. congruence.
  - intros H. destruct (spec_parse raw) as [v|] eqn:E; [|reflexivity]. exfalso. exact (H v (spec_parse_sound _ _ E)).
Qed.

(* [json_subset] is a subset of the grammar's language, with the same value *)
Theorem json_subset_in_spec raw : json_subset raw = true ->
  exists v, parse_doc true raw = Some v /\ spec_parse raw = Some v /\ json_doc v raw.
Proof.
  unfold json_subset. intros H. apply andb_true_iff in H. destruct H as [_ H].
  destruct (parse_doc true raw) as [v|] eqn:E; [|discriminate].
  pose proof (parse_doc_sound true raw v E) as Hd.
  exists v. split; [reflexivity|]. split; [apply spec_parse_complete; exact Hd|exact Hd].
Qed.

(* the specification only looks at the CR LF-normalised bytes *)
Theorem spec_parse_normalized raw raw' : normalize raw = normalize raw' -> spec_parse raw = spec_parse raw'.
Proof. unfold spec_parse, parse_doc. intros ->. reflexivity. Qed.

(* ---- non-vacuity ---- *)
(* [1, 2.5e3 , "a\né", {"k" : null, "k":true}, [], 0x1F] with a line break after '[' *)
Definition ex_doc : list N :=
  [91; 10; 49; 44; 32; 50; 46; 53; 101; 51; 32; 44; 32; 34; 97; 92; 110; 92; 117; 48; 48; 101; 57; 34; 44;
   123; 34; 107; 34; 32; 58; 32; 110; 117; 108; 108; 44; 32; 34; 107; 34; 58; 116; 114; 117; 101; 125; 44; 91; 93; 44;
   48; 120; 49; 70; 93].
Definition ex_value : value :=
  JArr [JInt 1; JNum [50; 46; 53; 101; 51]; JStr [97; 10; 195; 169];
        JObj [([107], JNull); ([107], JBool true)]; JArr []; JInt 31].
Example ex_spec_parse : spec_parse ex_doc = Some ex_value.
Proof. vm_compute. reflexivity. Qed.
Example ex_json_doc : json_doc ex_value ex_doc.
Proof. apply spec_parse_sound. exact ex_spec_parse. Qed.
(* no line break before a comma; no trailing comma; 1e5 is not a number of this grammar; int64 range *)
Example ex_rejects :
  spec_parse [91; 49; 10; 44; 50; 93] = None /\ spec_parse [91; 49; 44; 93] = None /\
  spec_parse [49; 101; 53] = None /\
  spec_parse [57; 50; 50; 51; 51; 55; 50; 48; 51; 54; 56; 53; 52; 55; 55; 53; 56; 48; 56] = None.
Proof. vm_compute. repeat split; reflexivity. Qed.
Example ex_no_derivation : forall v, ~ json_doc v [91; 49; 44; 93].
Proof. apply spec_parse_none. vm_compute. reflexivity. Qed.
Example ex_subset : json_subset [91; 49; 44; 32; 50; 46; 53; 93] = true /\ json_subset [91; 48; 120; 49; 93] = false.
Proof. vm_compute. split; reflexivity. Qed.
