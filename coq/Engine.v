(* Engine.v — the parser engine of parsley as one interpreter over [pexpr]:
   combinator/{seq,memoize,any,choice,optional,many,sep_by,sentence,single,suppress_error}.go,
   parser/{empty,end,return_error}.go, text/trim.go, terminal.Rune and the literal parsers of
   text/terminal (through Literals.v), parsley/parse.go.
   Open-recursion form: [parse_step]/[seq_step] take the recursive calls as parameters
   and the loops are top-level Fixpoints, so that every theorem is proved per combinator
   under a hypothesis on the recursive calls and lifted by one induction on fuel.
   No proofs in this file. *)
From Coq Require Import String List NArith ZArith Bool.
From Parsley Require Import Obs Base Grammar.
Import ListNotations.
Open Scope N_scope.

Record seqst := { s_cp : intset; s_res : list node; s_err : option perr; s_nodes : list node (* reversed prefix *) }.
Record seqinfo := { q_kind : seqkind; q_ip : interp; q_single : bool; q_ps : list pexpr }.
Definition pres : Type := (list node * intset * option perr * ctx)%type.
Definition sres : Type := (bool * seqst * ctx)%type.
Definition stack := list (N * N).          (* ghost: active Memoize bodies (index, position), innermost first *)

Definition mk_err (pos : N) (k : cause) : perr := {| epos := pos; ecause := k |}.
Definition better (old : option perr) (e : perr) : bool :=
  match old with None => true | Some o => epos o <=? epos e end.
Definition keep_max (old new : option perr) : option perr :=
  match new with None => old | Some e => if better old e then new else old end.
(* error selection of Any/Choice: the furthest error, not-found errors at the own position kept aside *)
Definition alt_err (pos : N) (err nf err2 : option perr) : option perr * option perr :=
  match err2 with
  | Some e2 => if better err e2 then
                 if (pos <? epos e2) || negb (is_notfound e2) then (Some e2, nf) else (err, Some e2)
               else (err, nf)
  | None => (err, nf)
  end.
Definition or_nf (err nf : option perr) : option perr := match err with None => nf | _ => err end.
Definition rename_err (name : list N) (pos : N) (e : perr) : perr :=
  if (epos e =? pos) && is_notfound e then mk_err pos (CNotFound name) else e.
Definition count_active (idx pos : N) (stk : stack) : N :=
  len_N (filter (fun k => (fst k =? idx) && (snd k =? pos)) stk).
Definition msg_end : list N :=   (* "was expecting the end of input" *)
  [119;97;115;32;101;120;112;101;99;116;105;110;103;32;116;104;101;32;101;110;100;32;111;102;32;105;110;112;117;116].
Definition name_valid_input : list N := [97;32;118;97;108;105;100;32;105;110;112;117;116].   (* "a valid input" *)

(* ---- the built-in literal parsers (Literals.v, property C08) as engine terminals ---- *)
(* the text.Reader the literal parsers read: the same bytes at the same base offset *)
Definition reader_of (inp : input) : Reader.reader :=
  {| Reader.r_data := i_data inp; Reader.r_offset := i_offset inp |}.
Definition lval_of (v : Literals.lit_value) : lval :=
  match v with
  | Literals.VInt z => VInt z | Literals.VFloat b => VFloat b | Literals.VStr s => VStr s
  | Literals.VChar c => VChar c | Literals.VBool b => VBool b | Literals.VNil => VNil | Literals.VDur d => VDur d
  end.
Definition cause_of (k : Literals.err_kind) : cause :=
  match k with Literals.ENotFound nm => CNotFound nm | Literals.EOther m => COther m end.
(* [Literals.lit_parse] returns an [outcome]: Go panics (the constructors' panics on empty strings,
   MatchWord's panic on non-ASCII words, getPattern's panic on an expression matching the empty input,
   regexp.go's group panic) are explicit there.  LiteralProofs.lit_total (C08_total) shows that inside
   the documented domain ([lit_domain l], bytes < 256, offset <= pos <= offset + len) the outcome is
   always [Ok].  To keep [term_parse] a TOTAL PURE function (so that [parse_step]'s PTerm case has no
   outcome of its own) a Panic/OutOfFuel of the literal parser is mapped to the distinguished error
   below; TermFacts.term_parse_no_panic shows it never occurs for in-domain literals.  OUTSIDE THE
   DOMAIN THE ENGINE MODEL THEREFORE DOES NOT DESCRIBE THE GO CODE (which panics). *)
Definition panic_marker : list N :=   (* "<terminal parser panicked>" *)
  [60;116;101;114;109;105;110;97;108;32;112;97;114;115;101;114;32;112;97;110;105;99;107;101;100;62].
Definition lit_conv (pos : N) (o : outcome Literals.lit_result) : list node * option perr :=
  match o with
  | Ok (Some nd, _) =>        (* the Go parsers return a node with a nil error (LiteralProofs.lit_xor) *)
    ([NTerm (Literals.ln_token nd) (lval_of (Literals.ln_value nd)) (Literals.ln_pos nd) (Literals.ln_rpos nd)], None)
  | Ok (None, Some e) => ([], Some (mk_err (Literals.le_pos e) (cause_of (Literals.le_kind e))))
  | Ok (None, None) => ([], None)                       (* never returned by any parser of Literals.v *)
  | Panic | OutOfFuel => ([], Some (mk_err pos (COther panic_marker)))
  end.

(* the terminal parsers: pure functions of the input and the position (no context, no recursion) *)
Definition term_parse (inp : input) (t : terminal) (pos : N) : list node * option perr :=
  match t with
  | TRune ch =>     (* terminal.Rune of an ASCII rune: Reader.ReadRune *)
    match byte_at inp pos with
    | Some b => if b =? ch then ([NTerm [ch] (VRune ch) pos (pos + 1)], None)
                else ([], Some (mk_err pos (CNotFound (quote_rune ch))))
    | None => ([], Some (mk_err pos (CNotFound (quote_rune ch))))
    end
  | TLit l =>       (* text/terminal/*.go through the model of C08 *)
    lit_conv pos (Literals.lit_parse (i_cf inp) (i_cd inp) l (reader_of inp) pos)
  end.

Section Engine.
  Variable inp : input.
  Variable rules : list pexpr.

  (* ast.SetReaderPos with RightTrim's closure: every node's reader position skips whitespace;
     the whitespace error of the LAST call wins; EndNode ignores the call *)
  Fixpoint trim_nodes (m : wsmode) (ns : list node) (w : option perr) : list node * option perr :=
    match ns with
    | [] => ([], w)
    | NEnd p :: t => let '(t', w') := trim_nodes m t w in (NEnd p :: t', w')
    | n :: t => let '(e, w1) := skip_ws inp (node_rpos n) m in
                let '(t', w') := trim_nodes m t w1 in (set_rpos n e :: t', w')
    end.

  (* seqDefaultResultHandler *)
  Definition handle_result (q : seqinfo) (pos : N) (children : list node) : node :=
    match children with
    | [] => NNonTerm (seq_token (q_kind q)) (q_ip q) [] pos pos
    | [n] => if q_single q then n else NNonTerm (seq_token (q_kind q)) (q_ip q) [n] (node_pos n) (node_rpos n)
    | first :: _ => NNonTerm (seq_token (q_kind q)) (q_ip q) children (node_pos first)
                            (node_rpos (last children first))
    end.

  Section Step.
    Variable recp : pexpr -> ctx -> stack -> intmap -> N -> outcome pres.
    Variable recs : seqinfo -> nat -> ctx -> stack -> intmap -> N -> bool -> seqst -> outcome sres.

    (* combinator.Any *)
    Fixpoint any_loop (stk : stack) (lrc : intmap) (pos : N) (ps : list pexpr) (c : ctx) (cp : intset)
             (res : list node) (err nf : option perr) : outcome pres :=
      match ps with
      | [] => match res with
              | [] => Ok ([], cp, or_nf err nf, c)
              | _ => Ok (res, cp, None, set_error c err)
              end
      | p :: ps' =>
        bind (recp p (reg_call c) stk lrc pos) (fun '(res2, cp2, err2, c') =>
          let '(err', nf') := alt_err pos err nf err2 in
          any_loop stk lrc pos ps' c' (set_union cp cp2) (append_node res res2) err' nf')
      end.

    (* combinator.Choice *)
    Fixpoint choice_loop (stk : stack) (lrc : intmap) (pos : N) (ps : list pexpr) (c : ctx) (cp : intset)
             (err nf : option perr) : outcome pres :=
      match ps with
      | [] => Ok ([], cp, or_nf err nf, c)
      | p :: ps' =>
        bind (recp p (reg_call c) stk lrc pos) (fun '(res2, cp2, err2, c') =>
          let '(err', nf') := alt_err pos err nf err2 in
          match res2 with
          | [] => choice_loop stk lrc pos ps' c' (set_union cp cp2) err' nf'
          | _ => Ok (res2, set_union cp cp2, None, set_error c' err')
          end)
      end.

    Definition parse_step (e : pexpr) (c : ctx) (stk : stack) (lrc : intmap) (pos : N) : outcome pres :=
      match e with
      | PTerm t =>
        let '(res, err) := term_parse inp t pos in
        Ok (res, [], err, match res, err with [], Some e => log_fail c pos (ecause e) | _, _ => c end)
      | PEmpty => Ok ([NEmpty pos], [], None, c)
      | PEnd => if is_eof inp pos then Ok ([NEnd pos], [], None, c)
                else Ok ([], [], Some (mk_err pos (COther msg_end)), log_fail c pos (COther msg_end))
      | PRef k => match nth_N rules k with
                  | Some body => recp body c stk lrc pos
                  | None => Panic
                  end
      | PMemo idx p =>
        match cache_get c idx pos lrc with
        | Some r => Ok (r_nodes r, r_cp r, r_err r, c)
        | None =>
          if remaining inp pos + 1 <? map_get idx lrc then Ok ([], [idx], None, c)
          else
            bind (recp p (log_body c idx pos (1 + count_active idx pos stk)) ((idx, pos) :: stk) (map_inc idx lrc) pos)
                 (fun '(nodes, cp, err, c') =>
                    let r := {| r_lrc := map_filter cp lrc; r_cp := cp; r_err := err; r_nodes := nodes |} in
                    Ok (nodes, cp, err, cache_save c' idx pos r))
        end
      | PAny ps => any_loop stk lrc pos ps c [] [] None None
      | PChoice ps => choice_loop stk lrc pos ps c [] None None
      | POpt p =>
        bind (recp p c stk lrc pos) (fun '(res, cp, err, c') => Ok (append_node res [NEmpty pos], cp, err, c'))
      | PSeq k ip single name ps =>
        let q := {| q_kind := k; q_ip := ip; q_single := single; q_ps := ps |} in
        bind (recs q 0%nat c stk lrc pos true {| s_cp := []; s_res := []; s_err := None; s_nodes := [] |})
             (fun '(_, st, c') =>
                match s_res st with
                | [] => Ok ([], s_cp st,
                            match name, s_err st with
                            | Some nm, Some e => Some (rename_err nm pos e)
                            | _, e => e
                            end, c')
                | _ => Ok (s_res st, s_cp st, None, set_error c' (s_err st))
                end)
      | PName nm p =>
        bind (recp p c stk lrc pos) (fun '(res, cp, err, c') =>
          match err with
          | Some e => Ok ([], cp, Some (rename_err nm pos e), c')
          | None => match res with
                    | [] => Ok ([], cp, Some (mk_err pos (CNotFound nm)), c')
                    | _ => Ok (res, cp, None, c')
                    end
          end)
      | PLeftTrim m p =>
        let '(pos1, wserr) := skip_ws inp pos m in
        bind (recp p c stk lrc pos1) (fun '(res, cp, err, c') =>
          let c'' := match cerr c' with
                     | Some ce => if (epos ce =? pos1) && is_notfound ce
                                  then set_error c' (Some (mk_err pos (ecause ce))) else c'
                     | None => c'
                     end in
          match err with
          | Some e =>
            match wserr with
            | Some w => if pos1 <? epos e then Ok ([], [], Some w, c'')
                        else if is_notfound e then Ok (res, cp, Some (mk_err pos (ecause e)), c'')
                        else Ok (res, cp, Some e, c'')
            | None => Ok (res, cp, Some e, c'')
            end
          | None => match wserr with
                    | Some w => Ok ([], [], Some w, c'')
                    | None => Ok (res, cp, None, c'')
                    end
          end)
      | PRightTrim m p =>
        bind (recp p c stk lrc pos) (fun '(res, cp, err, c') =>
          match err with
          | Some e => let ep := fst (skip_ws inp (epos e) m) in
                      (* a whitespace error already points at the offending whitespace: only other errors are moved over it *)
                      Ok (res, cp, Some (if is_wserr e then e else if epos e <? ep then mk_err ep (ecause e) else e), c')
          | None =>
            let '(res', wserr) := trim_nodes m res None in
            match wserr with
            | Some w => Ok ([], [], Some w, c')
            | None => Ok (res', cp, None, c')
            end
          end)
      | PSuppress p =>
        bind (recp p c stk lrc pos) (fun '(res, cp, _, c') => Ok (res, cp, None, c'))
      | PSingle p =>
        bind (recp p c stk lrc pos) (fun '(res, cp, err, c') =>
          match err with
          | Some e => Ok ([], cp, Some e, c')
          | None => match res with
                    | [NNonTerm _ _ [ch] _ _] => Ok ([ch], cp, None, c')
                    | _ => Ok (res, cp, None, c')
                    end
          end)
      end.

    (* sequence.parse's loop over the alternative results of one element (parseNext) *)
    Fixpoint alts_loop (q : seqinfo) (depth : nat) (stk : stack) (lrc : intmap) (pos : N) (merge : bool)
             (prefix : list node) (ns : list node) (st : seqst) (c : ctx) : outcome sres :=
      match ns with
      | [] => Ok (false, st, c)
      | n :: ns' =>
        let consumed := pos <? node_rpos n in
        let lrc' := if consumed then [] else lrc in
        let merge' := if consumed then false else merge in
        let stn := {| s_cp := s_cp st; s_res := s_res st; s_err := s_err st; s_nodes := n :: prefix |} in
        bind (recs q (S depth) c stk lrc' (node_rpos n) merge' stn) (fun '(stop, st', c') =>
          if stop then Ok (true, st', c') else alts_loop q depth stk lrc pos merge prefix ns' st' c')
      end.

    (* sequence.parse at one depth *)
    Definition seq_step (q : seqinfo) (depth : nat) (c : ctx) (stk : stack) (lrc : intmap) (pos : N) (merge : bool)
               (st : seqst) : outcome sres :=
      let sub := match seq_lookup (q_kind q) (q_ps q) depth with
                 | Some p => recp p (reg_call c) stk lrc pos
                 | None => Ok ([], [], None, c)
                 end in
      bind sub (fun '(res, cp, err, c1) =>
        let st1 := {| s_cp := if merge then set_union (s_cp st) cp else s_cp st;
                      s_res := s_res st;
                      s_err := keep_max (s_err st) err;
                      s_nodes := s_nodes st |} in
        match res with
        | [] =>
          if seq_lencheck (q_kind q) (length (q_ps q)) depth then
            let nd := handle_result q pos (rev (s_nodes st1)) in
            let st2 := {| s_cp := s_cp st1; s_res := append_node (s_res st1) [nd];
                          s_err := s_err st1; s_nodes := s_nodes st1 |} in
            match s_nodes st1 with
            | [] => Ok (false, st2, c1)
            | lastn :: _ => Ok (is_eof_node lastn, st2, c1)
            end
          else Ok (false, st1, c1)
        | _ => alts_loop q depth stk lrc pos merge (s_nodes st1) res st1 c1
        end).
  End Step.

  (* eta-expanded recursion: the un-expanded form costs 2^fuel under call-by-value *)
  Fixpoint parse (fuel : nat) : pexpr -> ctx -> stack -> intmap -> N -> outcome pres :=
    match fuel with
    | O => fun _ _ _ _ _ => OutOfFuel
    | S f => fun e c stk lrc pos =>
        parse_step (fun e c stk lrc pos => parse f e c stk lrc pos)
                   (fun q d c stk lrc pos m st => seqp f q d c stk lrc pos m st) e c stk lrc pos
    end
  with seqp (fuel : nat) : seqinfo -> nat -> ctx -> stack -> intmap -> N -> bool -> seqst -> outcome sres :=
    match fuel with
    | O => fun _ _ _ _ _ _ _ _ => OutOfFuel
    | S f => fun q d c stk lrc pos m st =>
        seq_step (fun e c stk lrc pos => parse f e c stk lrc pos)
                 (fun q d c stk lrc pos m st => seqp f q d c stk lrc pos m st) q d c stk lrc pos m st
    end.

  (* a parser called directly with a fresh context, as the probes do *)
  Definition run (fuel : nat) (root : pexpr) : outcome pres := parse fuel root ctx0 [] [] (i_offset inp).

  (* parsley.Parse (without the optional Transform/StaticCheck passes) *)
  Inductive top := TopNode (ns : list node) (c : ctx) | TopErr (e : perr) (c : ctx).
  Definition parse_top (fuel : nat) (root : pexpr) : outcome top :=
    bind (run fuel root) (fun '(nodes, _, err, c) =>
      let err1 := match nodes, err with
                  | [], None => match cerr c with
                                | Some e => Some e
                                | None => Some (mk_err (i_offset inp) (CNotFound name_valid_input))
                                end
                  | _, _ => err
                  end in
      match err1 with
      | Some e =>
        Ok (TopErr (if is_wserr e then e
                    else match cerr c with
                         | Some ce => if epos e <? epos ce then ce else e
                         | None => e
                         end) c)
      | None => Ok (TopNode nodes c)
      end).
End Engine.
