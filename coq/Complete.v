(* Complete.v — C01, completeness of the engine (monotone fragment): every derivation of the
   grammar that respects the curtailment bound ([compat] with the empty context) is returned
   by [run]; Sentence returns a full parse whenever one exists.  Port of the probe proof
   (scratch/coqprobe/Complete.v) to the real engine, extended with the interpreter/single
   flags of sequences, [PEnd] and the EOF early exit of the sequence search.
   The pumping argument that removes the [compat] hypothesis is in Pump.v. *)
From Coq Require Import String List NArith Bool Arith Lia.
From Parsley Require Import Obs Base Grammar Engine TermFacts TermTok EngineFacts SetMapFacts Spec.
Import ListNotations.
Open Scope N_scope.

(* ---------- the End-free fragment ---------- *)
Fixpoint endfree (e : pexpr) : bool :=
  match e with
  | PEnd => false
  | PTerm t => term_noeof t      (* a literal terminal whose token is "EOF" (e.g. terminal.Word("eof")) is an End for seq.go *)
  | PEmpty | PRef _ => true
  | PMemo _ p | POpt p | PName _ p | PLeftTrim _ p | PRightTrim _ p | PSuppress p | PSingle p => endfree p
  | PAny ps | PChoice ps | PSeq _ _ _ _ ps => forallb endfree ps
  end.
(* what a sequence element / a call may be: End-free, or [PEnd] itself *)
Definition eok (e : pexpr) : Prop := endfree e = true \/ e = PEnd.
Definition elems_ok (ps : list pexpr) : Prop := forall e, In e ps -> eok e.

Definition noeof (ns : list node) : Prop := forall n, In n ns -> is_eof_node n = false.
Definition subset (a b : intset) : Prop := forall m, set_mem m a = true -> set_mem m b = true.

(* ---------- small list facts ---------- *)
Lemma forallb_nth {A} (f : A -> bool) l i x : forallb f l = true -> nth_error l i = Some x -> f x = true.
Proof. intros H E. rewrite forallb_forall in H. apply H. eapply nth_error_In; exact E. Qed.
Lemma forallb_in {A} (f : A -> bool) l x : forallb f l = true -> In x l -> f x = true.
Proof. intros H E. rewrite forallb_forall in H. apply H, E. Qed.

Lemma append_nodes_inv l : forall acc n, In n (append_nodes acc l) -> In n acc \/ In n l.
Proof.
  induction l as [|x l IH]; intros acc n H; cbn [append_nodes] in H; [left; exact H|].
  assert (G : In n (acc ++ [x]) -> In n acc \/ In n (x :: l)).
  { intros G. apply in_app_or in G. destruct G as [G|[G|[]]]; [left; exact G|right; left; exact G]. }
  assert (K : forall acc', (In n acc' -> In n acc \/ In n (x :: l)) -> In n (append_nodes acc' l) -> In n acc \/ In n (x :: l)).
  { intros acc' Ha Hb. apply IH in Hb. destruct Hb as [Hb|Hb]; [apply Ha, Hb|right; right; exact Hb]. }
  destruct x; try (apply (K _ G H)).
  destruct (has_empty pos acc); [apply (K acc (fun z => or_introl z) H) | apply (K _ G H)].
Qed.
Lemma append_node_inv a b n : In n (append_node a b) -> In n a \/ In n b.
Proof. unfold append_node. destruct a; [intros H; right; exact H|]. apply append_nodes_inv. Qed.
Lemma noeof_append a b : noeof a -> noeof b -> noeof (append_node a b).
Proof. intros Ha Hb n H. apply append_node_inv in H. destruct H; [apply Ha|apply Hb]; assumption. Qed.
Lemma noeof_nil : noeof []. Proof. intros n []. Qed.

Lemma handle_result_app_nonempty q a x b p p' :
  handle_result q p (a ++ x :: b) = handle_result q p' (a ++ x :: b).
Proof. destruct a as [|a0 a]; cbn [app]; [destruct b; reflexivity|]. destruct a; reflexivity. Qed.

Lemma is_eof_handle q p ch :
  q_kind q = SeqOf -> noeof ch -> is_eof_node (handle_result q p ch) = false.
Proof.
  intros Hk Hn. unfold handle_result. rewrite Hk.
  destruct ch as [|n [|n2 t]]; try reflexivity.
  destruct (q_single q); [apply Hn; left; reflexivity|reflexivity].
Qed.

Lemma noeof_term inp t p res err : term_noeof t = true -> term_parse inp t p = (res, err) -> noeof res.
Proof.
  intros Ht H n Hin. destruct (term_parse_cases inp t p res err H) as [->|[m [-> ->]]]; [destruct Hin|].
  destruct Hin as [<-|[]]. exact (term_parse_noeof inp t p m None Ht H).
Qed.

(* ---------- the invariant ---------- *)
Section C.
  Variable inp : input.
  Variable rules : list pexpr.
  Variable site : N -> option pexpr.
  Hypothesis rules_wf : wf_rules rules site.
  Hypothesis rules_mono : forall k body, nth_N rules k = Some body -> mono body = true.
  Hypothesis rules_ef : forall k body, nth_N rules k = Some body -> endfree body = true.

  Notation wf := (wf rules site).
  Notation wfs := (wfs rules site).

  Lemma wfs_nth ps i e : wfs ps -> nth_error ps i = Some e -> wf e.
  Proof.
    revert i; induction ps as [|p ps IH]; intros [|i] H E; cbn in *; try discriminate.
    - inversion E; subst; tauto.
    - apply (IH i); tauto.
  Qed.

  Definition complete_for (e : pexpr) (p : N) (ns : list node) (l' : intmap) : Prop :=
    forall d, valid inp rules e p d -> compat inp l' p d -> In (yield d) ns.

  Definition entry_ok (idx pos : N) (r : result) : Prop :=
    (forall kv, In kv (r_lrc r) -> set_mem (fst kv) (r_cp r) = true) /\
    noeof (r_nodes r) /\
    forall body, site idx = Some body ->
      forall l', reusable (r_lrc r) l' = true -> complete_for (PMemo idx body) pos (r_nodes r) l'.
  Definition cache_c (c : ctx) : Prop :=
    forall idx pos r, cache_find (idx, pos) (cache c) = Some r -> entry_ok idx pos r.

  (* the engine invariant.  [eok e] cannot be dropped: see [pcomp_needs_endfree] below *)
  Definition pcomp (rp : ptype) : Prop :=
    forall e c stk l p ns cp err c', wf e -> mono e = true -> eok e -> cache_c c ->
      rp e c stk l p = Ok (ns, cp, err, c') ->
      cache_c c' /\ (endfree e = true -> noeof ns) /\ forall l', ge_on cp l l' -> complete_for e p ns l'.

  (* the sequence search at depth d, position p, flag m: results and curtailing parsers only grow;
     either the search stopped early (then a result ending in an EOF node was emitted), or every
     valid, compatible completion of the current prefix with the right total length is emitted *)
  Definition scomp (rs : stype) : Prop :=
    forall q d c stk l p m st stop st' c',
      q_kind q = SeqOf -> wfs (q_ps q) -> forallb mono (q_ps q) = true -> elems_ok (q_ps q) -> cache_c c ->
      rs q d c stk l p m st = Ok (stop, st', c') ->
      cache_c c' /\ subset (s_cp st) (s_cp st') /\ incl (s_res st) (s_res st') /\
      (stop = true -> exists p0 pre lastn, is_eof_node lastn = true /\
                                           In (handle_result q p0 (pre ++ [lastn])) (s_res st')) /\
      (forallb endfree (q_ps q) = true -> noeof (s_nodes st) -> noeof (s_res st) -> stop = false /\ noeof (s_res st')) /\
      (stop = false ->
       forall l', (if m then ge_on (s_cp st') l l' else l' = l) ->
         forall ds, valid_seq inp rules SeqOf (q_ps q) d p ds -> compat_seq inp l' p ds ->
           seq_lencheck SeqOf (length (q_ps q)) (d + length ds) = true ->
           In (handle_result q p (rev (s_nodes st) ++ map yield ds)) (s_res st')).

  Lemma cache_c_save c idx pos r :
    cache_c c -> entry_ok idx pos r -> cache_c (cache_save c idx pos r).
  Proof.
    intros Hc Hr idx' pos' r' H. unfold cache_save in H; cbn [cache cache_find fst snd] in H.
    destruct ((idx' =? idx) && (pos' =? pos)) eqn:E.
    - apply andb_true_iff in E. destruct E as [E1 E2]. apply N.eqb_eq in E1, E2. subst.
      inversion H; subst; exact Hr.
    - apply (Hc idx' pos' r' H).
  Qed.

  Lemma reusable_trans r l l' :
    (forall kv, In kv (r_lrc r) -> set_mem (fst kv) (r_cp r) = true) ->
    reusable (r_lrc r) l = true -> ge_on (r_cp r) l l' -> reusable (r_lrc r) l' = true.
  Proof.
    intros Hk Hr Hge. unfold reusable in *. rewrite forallb_forall in *. intros kv Hin.
    specialize (Hr kv Hin). apply N.leb_le in Hr. apply N.leb_le.
    specialize (Hge (fst kv) (Hk kv Hin)). lia.
  Qed.

  Lemma subset_union_l a b : subset a (set_union a b).
  Proof. intros m Hm. rewrite set_mem_union, Hm. reflexivity. Qed.
  Lemma subset_union_r a b : subset b (set_union a b).
  Proof. intros m Hm. rewrite set_mem_union, Hm, orb_true_r. reflexivity. Qed.

  Section Step.
    Variable rp : ptype.
    Variable rs : stype.
    Hypothesis Hp : pcomp rp.
    Hypothesis Hs : scomp rs.

    Lemma any_loop_comp stk l p : forall ps done c cp res err nf ns cp' err' c',
      wfs ps -> forallb mono ps = true -> forallb endfree ps = true -> cache_c c -> noeof res ->
      (forall l', ge_on cp l l' -> forall e d, In e done ->
            valid inp rules e p d -> compat inp l' p d -> In (yield d) res) ->
      any_loop rp stk l p ps c cp res err nf = Ok (ns, cp', err', c') ->
      cache_c c' /\ subset cp cp' /\ noeof ns /\
      forall l', ge_on cp' l l' -> forall e d, In e (done ++ ps) ->
            valid inp rules e p d -> compat inp l' p d -> In (yield d) ns.
    Proof.
      induction ps as [|q ps IH]; intros done c cp res err nf ns cp' err' c' Hwf Hm He Hc Hne Hres H;
        cbn [any_loop] in H.
      - rewrite app_nil_r.
        destruct res; inversion H; subst;
          (split; [exact Hc|split; [intros m Hx; exact Hx|split; [exact Hne|exact Hres]]]).
      - apply bind_ok in H. destruct H as [[[[res2 cp2] err2] c2] [H1 H2]].
        destruct Hwf as [Hwq Hwps].
        cbn [forallb] in Hm, He. apply andb_true_iff in Hm, He. destruct Hm as [Hmq Hmps]. destruct He as [Heq Heps].
        destruct (Hp q (reg_call c) stk l p _ _ _ _ Hwq Hmq (or_introl Heq) Hc H1) as [Hc2 [Hn2 Hq]].
        destruct (alt_err p err nf err2) as [err'' nf''].
        assert (Hnext : forall l', ge_on (set_union cp cp2) l l' -> forall e d, In e (done ++ [q]) ->
                  valid inp rules e p d -> compat inp l' p d -> In (yield d) (append_node res res2)).
        { intros l' Hge e d Hin Hv Hcm. apply in_app_or in Hin. destruct Hin as [Hin|[Hin|[]]].
          - apply append_node_in_l. apply (Hres l') with (e := e); [|exact Hin|exact Hv|exact Hcm].
            eapply ge_on_sub; [apply subset_union_l|exact Hge].
          - subst e. apply append_node_in_r. apply (Hq l'); [|exact Hv|exact Hcm].
            eapply ge_on_sub; [apply subset_union_r|exact Hge]. }
        destruct (IH (done ++ [q]) _ _ _ _ _ _ _ _ _ Hwps Hmps Heps Hc2 (noeof_append _ _ Hne (Hn2 Heq)) Hnext H2)
          as [A [B [C D]]].
        split; [exact A|]. split; [intros m Hx; apply B, subset_union_l, Hx|]. split; [exact C|].
        intros l' Hge e d Hin. apply (D l' Hge e d). rewrite <- app_assoc. exact Hin.
    Qed.

    Lemma parse_step_comp : pcomp (parse_step inp rules rp rs).
    Proof.
      intros e c stk l p ns cp err c' Hwf Hm Heok Hc H.
      destruct e; cbn [mono] in Hm; try discriminate Hm; cbn [parse_step] in H.
      - (* PTerm *)
        destruct (term_parse inp t p) as [res0 err0] eqn:Et. inversion H; subst.
        split; [destruct ns as [|? ?]; [destruct err|]; exact Hc|].
        split; [intros Hef; eapply noeof_term; [exact Hef|exact Et]|].
        intros l' _ d Hv _. inversion Hv; subst.
        match goal with Hx : term_parse _ _ _ = ([_], None) |- _ => rewrite Et in Hx; inversion Hx; subst end.
        left; reflexivity.
      - (* PEmpty *)
        inversion H; subst. split; [exact Hc|]. split.
        + intros _ n [Hn|[]]. subst n. reflexivity.
        + intros l' _ d Hv _. inversion Hv; subst. left; reflexivity.
      - (* PEnd *)
        split; [destruct (is_eof inp p); inversion H; subst; exact Hc|].
        split; [intros Hx; discriminate Hx|].
        intros l' _ d Hv _. inversion Hv; subst.
        match goal with Hx : is_eof _ _ = true |- _ => rewrite Hx in H end.
        inversion H; subst. left; reflexivity.
      - (* PRef *)
        destruct (nth_N rules k) as [body|] eqn:Ek; [|discriminate H].
        destruct (Hp _ _ _ _ _ _ _ _ _ (rules_wf _ _ Ek) (rules_mono _ _ Ek) (or_introl (rules_ef _ _ Ek)) Hc H)
          as [A [Bn B]].
        split; [exact A|]. split; [intros _; apply Bn; apply (rules_ef _ _ Ek)|].
        intros l' Hge d Hv Hcm. inversion Hv; subst.
        match goal with Hx : nth_N rules k = Some _ |- _ => rewrite Ek in Hx; inversion Hx; subst end.
        match goal with Hx : valid _ _ _ p ?dd |- _ => apply (B l' Hge dd Hx Hcm) end.
      - (* PMemo *)
        assert (Hef : endfree e = true) by (destruct Heok as [Hx|Hx]; [exact Hx|discriminate Hx]).
        destruct Hwf as [Hsite Hwe].
        destruct (cache_get c idx p l) as [r|] eqn:Eg.
        + inversion H; subst. split; [exact Hc|].
          unfold cache_get in Eg. destruct (cache_find (idx, p) (cache c')) as [r0|] eqn:Ef; [|discriminate].
          destruct (reusable (r_lrc r0) l) eqn:Er; [|discriminate]. inversion Eg; subst r0.
          destruct (Hc _ _ _ Ef) as [Hk [Hne Hcomp]].
          split; [intros _; exact Hne|].
          intros l' Hge. apply (Hcomp e Hsite). eapply reusable_trans; eauto.
        + destruct (remaining inp p + 1 <? map_get idx l) eqn:Ecut.
          * inversion H; subst. split; [exact Hc|]. split; [intros _; apply noeof_nil|].
            intros l' Hge d Hv Hcm. inversion Hv; subst. cbn [compat] in Hcm. destruct Hcm as [Hle _].
            apply N.ltb_lt in Ecut. specialize (Hge idx). cbn [set_mem] in Hge. rewrite N.eqb_refl in Hge.
            specialize (Hge eq_refl). lia.
          * apply bind_ok in H. destruct H as [[[[n cp0] err0] c0] [H1 H2]]. inversion H2; subst.
            destruct (Hp e (log_body c idx p (1 + count_active idx p stk)) ((idx, p) :: stk) (map_inc idx l) p _ _ _ _
                         Hwe Hm (or_introl Hef) Hc H1) as [Hc0 [Hn0 Hbody]].
            assert (Hmemo : forall l', ge_on cp l l' -> complete_for (PMemo idx e) p ns l').
            { intros l' Hge d Hv Hcm. inversion Hv; subst. cbn [compat] in Hcm. destruct Hcm as [_ Hcm].
              match goal with Hx : valid _ _ e p ?dd |- _ =>
                apply (Hbody (map_inc idx l') (ge_on_inc _ _ _ _ Hge) dd Hx Hcm) end. }
            split; [|split; [intros _; apply Hn0, Hef|exact Hmemo]].
            apply cache_c_save; [exact Hc0|]. split; [|split]; cbn [r_lrc r_cp r_nodes].
            -- intros kv Hin. unfold map_filter in Hin. apply filter_In in Hin. tauto.
            -- apply Hn0, Hef.
            -- intros body Hb l' Hr. rewrite Hsite in Hb. inversion Hb; subst body.
               apply Hmemo. apply reusable_filter; exact Hr.
      - (* PAny *)
        assert (Hef : forallb endfree ps = true) by (destruct Heok as [Hx|Hx]; [exact Hx|discriminate Hx]).
        destruct (any_loop_comp stk l p ps [] c [] [] None None ns cp err c' Hwf Hm Hef Hc noeof_nil) as [A [_ [Bn B]]].
        + intros l' _ e d [].
        + exact H.
        + split; [exact A|]. split; [intros _; exact Bn|].
          intros l' Hge d Hv Hcm. inversion Hv; subst. cbn [compat] in Hcm.
          match goal with Hx : valid _ _ ?ee p ?dd, Hn : nth_error ps ?ii = Some ?ee |- _ =>
            apply (B l' Hge ee dd (nth_error_In _ _ Hn) Hx Hcm) end.
      - (* POpt *)
        assert (Hef : endfree e = true) by (destruct Heok as [Hx|Hx]; [exact Hx|discriminate Hx]).
        apply bind_ok in H. destruct H as [[[[n cp0] err0] c0] [H1 H2]]. inversion H2; subst.
        destruct (Hp e c stk l p _ _ _ _ Hwf Hm (or_introl Hef) Hc H1) as [A [Bn B]]. split; [exact A|]. split.
        + intros _. apply noeof_append; [apply Bn, Hef|]. intros x [Hx|[]]. subst x. reflexivity.
        + intros l' Hge d Hv Hcm. inversion Hv; subst.
          * apply append_node_in_l. match goal with Hx : valid _ _ _ p ?dd |- _ => apply (B l' Hge dd Hx Hcm) end.
          * apply append_node_in_r. left; reflexivity.
      - (* PSeq *)
        destruct k; try discriminate Hm. destruct name; try discriminate Hm.
        assert (Hef : forallb endfree ps = true) by (destruct Heok as [Hx|Hx]; [exact Hx|discriminate Hx]).
        apply bind_ok in H. destruct H as [[[stop st] c0] [H1 H2]].
        set (q := {| q_kind := SeqOf; q_ip := ip; q_single := single; q_ps := ps |}) in *.
        assert (Hel : elems_ok (q_ps q)).
        { intros x Hx. left. apply (forallb_in _ _ _ Hef Hx). }
        destruct (Hs q 0%nat c stk l p true _ stop st c0 eq_refl Hwf Hm Hel Hc H1) as [A [_ [_ [_ [Bn B]]]]].
        destruct (Bn Hef noeof_nil noeof_nil) as [Es Hne]. subst stop. specialize (B eq_refl).
        assert (Hcomp : forall l', ge_on (s_cp st) l l' -> complete_for (PSeq SeqOf ip single None ps) p (s_res st) l').
        { intros l' Hge d Hv Hcm. inversion Hv; subst. rewrite compat_DSeq in Hcm.
          match goal with Hx : valid_seq _ _ _ ps 0%nat p ?dss, Hl : seq_lencheck _ _ _ = true |- _ =>
            specialize (B l' Hge dss Hx Hcm Hl) end.
          cbn [s_nodes rev app] in B. cbn [yield]. exact B. }
        destruct (s_res st) eqn:E; inversion H2; subst;
          (split; [exact A|split; [intros _; exact Hne|exact Hcomp]]).
    Qed.

    Lemma alts_loop_comp q d stk l p m prefix :
      q_kind q = SeqOf -> wfs (q_ps q) -> forallb mono (q_ps q) = true -> elems_ok (q_ps q) ->
      forall ns st c stop st' c', cache_c c ->
      alts_loop rs q d stk l p m prefix ns st c = Ok (stop, st', c') ->
      cache_c c' /\ subset (s_cp st) (s_cp st') /\ incl (s_res st) (s_res st') /\
      (stop = true -> exists p0 pre lastn, is_eof_node lastn = true /\
                                           In (handle_result q p0 (pre ++ [lastn])) (s_res st')) /\
      (forallb endfree (q_ps q) = true -> noeof prefix -> noeof ns -> noeof (s_res st) ->
       stop = false /\ noeof (s_res st')) /\
      (stop = false ->
       forall l', (if m then ge_on (s_cp st') l l' else l' = l) ->
         forall n ds, In n ns -> valid_seq inp rules SeqOf (q_ps q) (S d) (node_rpos n) ds ->
           compat_seq inp (if p <? node_rpos n then [] else l') (node_rpos n) ds ->
           seq_lencheck SeqOf (length (q_ps q)) (S d + length ds) = true ->
           In (handle_result q (node_rpos n) (rev (n :: prefix) ++ map yield ds)) (s_res st')).
    Proof.
      intros Hk Hwf Hmo Hel. induction ns as [|n0 ns IH]; intros st c stop st' c' Hc H; cbn [alts_loop] in H.
      - inversion H; subst. split; [exact Hc|]. split; [intros x Hx; exact Hx|].
        split; [intros x Hx; exact Hx|]. split; [intros Hx; discriminate Hx|].
        split; [intros _ _ _ Hx; split; [reflexivity|exact Hx]|]. intros _ l' _ n ds [].
      - apply bind_ok in H. destruct H as [[[stop1 st1] c1] [H1 H2]].
        destruct (Hs _ _ _ _ _ _ _ _ _ _ _ Hk Hwf Hmo Hel Hc H1) as [Hc1 [Sub1 [Inc1 [Stop1 [NoE1 Comp1]]]]].
        cbn [s_cp s_res s_nodes] in Sub1, Inc1, NoE1, Comp1.
        destruct stop1.
        + inversion H2; subst. split; [exact Hc1|]. split; [exact Sub1|]. split; [exact Inc1|].
          split; [intros _; apply Stop1; reflexivity|].
          split; [|intros Hx; discriminate Hx].
          intros Hef Hpre Hns Hres. destruct (NoE1 Hef) as [Hx _]; [|exact Hres|discriminate Hx].
          intros x [Hx|Hx]; [subst x; apply Hns; left; reflexivity|apply Hpre, Hx].
        + destruct (IH _ _ _ _ _ Hc1 H2) as [Hc' [Sub2 [Inc2 [Stop2 [NoE2 Comp2]]]]].
          split; [exact Hc'|].
          split; [intros x Hx; apply Sub2, Sub1, Hx|]. split; [intros x Hx; apply Inc2, Inc1, Hx|].
          split; [exact Stop2|]. split.
          * intros Hef Hpre Hns Hres. destruct (NoE1 Hef) as [_ Hx]; [|exact Hres|].
            -- intros x [Hx|Hx]; [subst x; apply Hns; left; reflexivity|apply Hpre, Hx].
            -- apply (NoE2 Hef Hpre); [|exact Hx]. intros x Hin. apply Hns. right; exact Hin.
          * intros Es l' Hcond n ds [En|Hin] Hv Hcm Hlen.
            -- subst n0. apply Inc2.
               apply (Comp1 eq_refl (if p <? node_rpos n then [] else l')); [|exact Hv|exact Hcm|exact Hlen].
               destruct (p <? node_rpos n); [reflexivity|].
               destruct m; [|exact Hcond]. eapply ge_on_sub; [exact Sub2|exact Hcond].
            -- apply (Comp2 Es l' Hcond n ds Hin Hv Hcm Hlen).
    Qed.

    Lemma seq_step_comp : scomp (seq_step rp rs).
    Proof.
      intros q d c stk l p m st stop st' c' Hk Hwf Hmo Hel Hc H. unfold seq_step in H.
      apply bind_ok in H. destruct H as [[[[res cp] err] c1] [H1 H2]].
      rewrite Hk in H1, H2. cbn [seq_lookup seq_lencheck] in H1, H2.
      set (st1 := {| s_cp := if m then set_union (s_cp st) cp else s_cp st; s_res := s_res st;
                     s_err := keep_max (s_err st) err; s_nodes := s_nodes st |}) in *.
      assert (Hsub1 : subset (s_cp st) (s_cp st1)).
      { intros x Hx. cbn [st1 s_cp]. destruct m; [rewrite set_mem_union, Hx; reflexivity | exact Hx]. }
      assert (Hcpsub : m = true -> subset cp (s_cp st1)).
      { intros -> x Hx. cbn [st1 s_cp]. rewrite set_mem_union, Hx, orb_true_r. reflexivity. }
      (* what the sub-call gives *)
      assert (Hsubcall : cache_c c1 /\
                (forall e, nth_error (q_ps q) d = Some e -> forall l', ge_on cp l l' -> complete_for e p res l') /\
                (forallb endfree (q_ps q) = true -> noeof res) /\
                (nth_error (q_ps q) d = None -> res = [])).
      { destruct (nth_error (q_ps q) d) as [e|] eqn:Eq.
        - destruct (Hp e (reg_call c) stk l p _ _ _ _ (wfs_nth _ _ _ Hwf Eq) (forallb_nth _ _ _ _ Hmo Eq)
                       (Hel e (nth_error_In _ _ Eq)) Hc H1) as [A [Bn B]].
          split; [exact A|]. split; [intros e' Eq'; inversion Eq'; subst; exact B|].
          split; [intros Hef; apply Bn; apply (forallb_nth _ _ _ _ Hef Eq)|discriminate].
        - inversion H1; subst. split; [exact Hc|]. split; [discriminate|]. split; [intros _; apply noeof_nil|reflexivity]. }
      destruct Hsubcall as [Hc1 [Hcomp [Hnres Hnone]]].
      assert (Hge_cp : forall X l', subset (s_cp st1) X -> (if m then ge_on X l l' else l' = l) -> ge_on cp l l').
      { intros X l' HX Hcond. destruct m; [|subst; apply ge_on_refl].
        eapply ge_on_sub; [|exact Hcond]. intros x Hx. apply HX, Hcpsub; [reflexivity|exact Hx]. }
      destruct res as [|n ns].
      - destruct (Nat.eqb d (length (q_ps q))) eqn:Ed.
        + apply Nat.eqb_eq in Ed.
          assert (Hds : forall ds : list dtree, seq_lencheck SeqOf (length (q_ps q)) (d + length ds) = true -> ds = []).
          { intros ds Hl. cbn [seq_lencheck] in Hl. apply Nat.eqb_eq in Hl. destruct ds; [reflexivity|cbn [length] in Hl; lia]. }
          cbn [s_nodes st1 s_res s_cp s_err] in H2.
          assert (Hemit : forall stopx, Ok (stopx, {| s_cp := s_cp st1; s_res := append_node (s_res st) [handle_result q p (rev (s_nodes st))];
                                        s_err := keep_max (s_err st) err; s_nodes := s_nodes st |}, c1) = Ok (stop, st', c') ->
                    (stop = true -> exists p0 pre lastn, is_eof_node lastn = true /\
                                           In (handle_result q p0 (pre ++ [lastn])) (s_res st')) ->
                    (noeof (s_nodes st) -> stop = false) ->
                    cache_c c' /\ subset (s_cp st) (s_cp st') /\ incl (s_res st) (s_res st') /\
                    (stop = true -> exists p0 pre lastn, is_eof_node lastn = true /\
                                           In (handle_result q p0 (pre ++ [lastn])) (s_res st')) /\
                    (forallb endfree (q_ps q) = true -> noeof (s_nodes st) -> noeof (s_res st) -> stop = false /\ noeof (s_res st')) /\
                    (stop = false ->
                     forall l', (if m then ge_on (s_cp st') l l' else l' = l) ->
                       forall ds, valid_seq inp rules SeqOf (q_ps q) d p ds -> compat_seq inp l' p ds ->
                         seq_lencheck SeqOf (length (q_ps q)) (d + length ds) = true ->
                         In (handle_result q p (rev (s_nodes st) ++ map yield ds)) (s_res st'))).
          { intros stopx Hx Hstop Hnostop. inversion Hx; subst stopx st' c'. cbn [s_cp s_res].
            split; [exact Hc1|]. split; [exact Hsub1|].
            split; [intros x Hin; apply append_node_in_l; exact Hin|].
            split; [exact Hstop|]. split.
            - intros _ Hnn Hnr. split; [apply Hnostop, Hnn|]. apply noeof_append; [exact Hnr|].
              intros x [Hin|[]]. subst x. apply is_eof_handle; [exact Hk|].
              intros y Hy. apply Hnn. apply in_rev. exact Hy.
            - intros _ l' _ ds _ _ Hl. rewrite (Hds ds Hl). cbn [map]. rewrite app_nil_r.
              apply append_node_in_r. left; reflexivity. }
          destruct (s_nodes st) as [|lastn pre] eqn:En.
          * apply (Hemit false H2); [intros Hx; inversion H2; subst; discriminate|intros _; inversion H2; reflexivity].
          * apply (Hemit (is_eof_node lastn) H2).
            -- intros Hx. inversion H2; subst st' c'. exists p, (rev pre), lastn. split; [congruence|].
               cbn [s_res]. apply append_node_in_r. left. reflexivity.
            -- intros Hnn. inversion H2; subst. apply Hnn. left; reflexivity.
        + inversion H2; subst. split; [exact Hc1|]. split; [exact Hsub1|].
          split; [intros x Hx; exact Hx|]. split; [intros Hx; discriminate Hx|].
          split; [intros _ _ Hx; split; [reflexivity|exact Hx]|].
          intros _ l' Hcond ds Hv Hcm Hl. exfalso.
          cbn [seq_lencheck] in Hl. apply Nat.eqb_eq in Hl. apply Nat.eqb_neq in Ed.
          destruct ds as [|d0 ds]; [cbn [length] in Hl; lia|].
          inversion Hv; subst. cbn [compat_seq] in Hcm. destruct Hcm as [Hcm0 _].
          match goal with Hx : seq_lookup SeqOf _ _ = Some ?e |- _ => cbn [seq_lookup] in Hx;
            eapply (Hcomp e Hx l'); [|eassumption|exact Hcm0] end.
          apply (Hge_cp (s_cp st1)); [intros x Hx; exact Hx|exact Hcond].
      - destruct (nth_error (q_ps q) d) as [e|] eqn:Eq; [|specialize (Hnone eq_refl); discriminate].
        destruct (alts_loop_comp q d stk l p m (s_nodes st1) Hk Hwf Hmo Hel _ _ _ _ _ _ Hc1 H2)
          as [Hc' [Sub2 [Inc2 [Stop2 [NoE2 Comp2]]]]].
        split; [exact Hc'|].
        split; [intros x Hx; apply Sub2, Hsub1, Hx|]. split; [exact Inc2|]. split; [exact Stop2|]. split.
        + intros Hef Hnn Hnr. apply (NoE2 Hef Hnn (Hnres Hef) Hnr).
        + intros Es l' Hcond ds Hv Hcm Hl. subst stop.
          destruct ds as [|d0 ds'].
          { exfalso. cbn [seq_lencheck length] in Hl. apply Nat.eqb_eq in Hl.
            assert (d < length (q_ps q))%nat by (apply nth_error_Some; congruence). lia. }
          inversion Hv; subst. cbn [compat_seq] in Hcm. destruct Hcm as [Hcm0 Hcm1].
          match goal with Hx : seq_lookup SeqOf _ _ = Some ?e' |- _ => cbn [seq_lookup] in Hx; rewrite Eq in Hx;
            inversion Hx; subst e' end.
          match goal with Hx : valid _ _ e p d0, Hy : valid_seq _ _ _ _ _ (dend d0) ds' |- _ =>
            assert (Hin : In (yield d0) (n :: ns)) by
              (apply (Hcomp e eq_refl l' (Hge_cp _ l' Sub2 Hcond) d0 Hx Hcm0));
            specialize (Comp2 eq_refl l' Hcond (yield d0) ds' Hin Hy Hcm1)
          end.
          cbn [length] in Hl. rewrite Nat.add_succ_r in Hl. specialize (Comp2 Hl).
          cbn [rev map] in *. rewrite <- app_assoc in Comp2. cbn [app] in Comp2.
          cbn [st1 s_nodes] in Comp2.
          erewrite handle_result_app_nonempty. exact Comp2.
    Qed.
  End Step.

  Theorem complete_inv : forall f, pcomp (parse inp rules f) /\ scomp (seqp inp rules f).
  Proof.
    induction f as [|f [IHp IHs]].
    - split; intros until c'; intros; discriminate.
    - split.
      + intros e c stk l p. rewrite parse_S. apply parse_step_comp; assumption.
      + intros q d c stk l p m st. rewrite seqp_S. apply seq_step_comp; assumption.
  Qed.

  Lemma cache_c0 : cache_c ctx0.
  Proof. intros idx pos r Hf. discriminate Hf. Qed.

  (* (a) every derivation of an End-free root that respects the curtailment bound is returned *)
  Theorem complete_top fuel root ns cp err c' :
    wf root -> mono root = true -> endfree root = true ->
    run inp rules fuel root = Ok (ns, cp, err, c') ->
    forall d, valid inp rules root (i_offset inp) d -> compat inp [] (i_offset inp) d -> In (yield d) ns.
  Proof.
    intros Hwf Hm He H d Hv Hcm. destruct (complete_inv fuel) as [Hp _].
    destruct (Hp root ctx0 [] [] (i_offset inp) ns cp err c' Hwf Hm (or_introl He) cache_c0 H) as [_ [_ B]].
    apply (B [] (ge_on_refl _ _) d Hv Hcm).
  Qed.

  (* a root sequence whose elements are End-free or [PEnd] itself (End anywhere in the root
     sequence): the honest form of completeness under the EOF early exit — either a result
     ending with an EOF node was emitted (and the search stopped there), or every derivation
     within the bound is returned *)
  Theorem complete_top_seq fuel ip single ps ns cp err c' :
    wfs ps -> forallb mono ps = true -> elems_ok ps ->
    run inp rules fuel (PSeq SeqOf ip single None ps) = Ok (ns, cp, err, c') ->
    (exists p0 pre lastn, is_eof_node lastn = true /\
        In (handle_result {| q_kind := SeqOf; q_ip := ip; q_single := single; q_ps := ps |} p0 (pre ++ [lastn])) ns) \/
    (forall d, valid inp rules (PSeq SeqOf ip single None ps) (i_offset inp) d ->
               compat inp [] (i_offset inp) d -> In (yield d) ns).
  Proof.
    intros Hwf Hm Hel H. unfold run in H. destruct fuel as [|f]; [discriminate H|].
    rewrite parse_S in H. cbn [parse_step] in H.
    apply bind_ok in H. destruct H as [[[stop st] c0] [H1 H2]].
    set (q := {| q_kind := SeqOf; q_ip := ip; q_single := single; q_ps := ps |}) in *.
    destruct (complete_inv f) as [_ Hs].
    destruct (Hs q 0%nat ctx0 [] [] (i_offset inp) true _ stop st c0 eq_refl Hwf Hm Hel cache_c0 H1)
      as [_ [_ [_ [St [_ Comp]]]]].
    assert (Ens : ns = s_res st) by (destruct (s_res st); inversion H2; reflexivity).
    destruct stop.
    - left. rewrite Ens. apply St. reflexivity.
    - right. intros d Hv Hcm. inversion Hv; subst. rewrite compat_DSeq in Hcm.
      match goal with Hx : valid_seq _ _ _ ps 0%nat _ ?dss, Hl : seq_lencheck _ _ _ = true |- _ =>
        specialize (Comp eq_refl [] (ge_on_refl _ _) dss Hx Hcm Hl) end.
      cbn [s_nodes rev app] in Comp. cbn [yield]. exact Comp.
  Qed.

  (* ---------- (b) Sentence: the EOF early exit returns the FIRST full parse ---------- *)
  Section Sentence.
    Variable root : pexpr.
    Hypothesis root_wf : wf root.
    Hypothesis root_mono : mono root = true.
    Hypothesis root_ef : endfree root = true.

    Definition sq : seqinfo := {| q_kind := SeqOf; q_ip := ISelect 0; q_single := false; q_ps := [root; PEnd] |}.

    Definition pend (rp : ptype) : Prop :=
      forall c stk l p ns cp err c', rp PEnd c stk l p = Ok (ns, cp, err, c') ->
        ns = if is_eof inp p then [NEnd p] else [].
    Definition sent2 (rs : stype) : Prop :=
      forall c stk l p m st stop st' c' lastn pre,
        s_nodes st = lastn :: pre -> rs sq 2%nat c stk l p m st = Ok (stop, st', c') ->
        stop = is_eof_node lastn /\ s_res st' = append_node (s_res st) [handle_result sq p (rev (s_nodes st))].
    Definition sent1 (rs : stype) : Prop :=
      forall c stk l p m st stop st' c',
        rs sq 1%nat c stk l p m st = Ok (stop, st', c') ->
        if is_eof inp p
        then stop = true /\ s_res st' = append_node (s_res st) [handle_result sq p (rev (NEnd p :: s_nodes st))]
        else stop = false /\ s_res st' = s_res st.

    Section SStep.
      Variable rp : ptype.
      Variable rs : stype.
      Hypothesis Hpe : pend rp.
      Hypothesis Hs2 : sent2 rs.

      Lemma parse_step_pend : pend (parse_step inp rules rp rs).
      Proof.
        intros c stk l p ns cp err c' H. cbn [parse_step] in H.
        destruct (is_eof inp p); inversion H; reflexivity.
      Qed.
      Lemma seq_step_sent2 : sent2 (seq_step rp rs).
      Proof.
        intros c stk l p m st stop st' c' lastn pre En H. unfold seq_step in H.
        cbn [sq q_kind q_ps seq_lookup nth_error bind seq_lencheck length Nat.eqb s_nodes s_res s_cp s_err] in H.
        rewrite En in H. inversion H; subst. cbn [s_res]. rewrite En. split; reflexivity.
      Qed.
      Lemma seq_step_sent1 : sent1 (seq_step rp rs).
      Proof.
        intros c stk l p m st stop st' c' H. unfold seq_step in H.
        cbn [sq q_kind q_ps seq_lookup nth_error] in H. fold sq in H.
        apply bind_ok in H. destruct H as [[[[res cp] err] c1] [H1 H2]].
        rewrite (Hpe _ _ _ _ _ _ _ _ H1) in H2.
        destruct (is_eof inp p).
        - cbn [alts_loop node_rpos] in H2. apply bind_ok in H2. destruct H2 as [[[stop1 st1] c2] [H3 H4]].
          cbn [s_cp s_res s_err s_nodes] in H3.
          pose proof (fun E => Hs2 _ _ _ _ _ _ _ _ _ (NEnd p) (s_nodes st) E H3) as X.
          destruct (X eq_refl) as [Es Er]. cbn [s_res s_nodes] in Er.
          rewrite Es in H4. change (is_eof_node (NEnd p)) with true in H4. inversion H4; subst.
          split; [reflexivity|exact Er].
        - cbn [sq q_kind q_ps seq_lencheck length Nat.eqb] in H2. inversion H2; subst. split; reflexivity.
      Qed.

      Hypothesis Hs1 : sent1 rs.
      Lemma alts_loop_sent stk l p m : forall ns st c stop st' c',
        s_res st = [] ->
        alts_loop rs sq 0%nat stk l p m [] ns st c = Ok (stop, st', c') ->
        (exists n0, In n0 ns /\ is_eof inp (node_rpos n0) = true /\
                    s_res st' = [handle_result sq p [n0; NEnd (node_rpos n0)]]) \/
        (s_res st' = [] /\ forall n0, In n0 ns -> is_eof inp (node_rpos n0) = false).
      Proof.
        induction ns as [|n ns IH]; intros st c stop st' c' Hr H; cbn [alts_loop] in H.
        - inversion H; subst. right. split; [exact Hr|intros n0 []].
        - apply bind_ok in H. destruct H as [[[stop1 st1] c1] [H1 H2]].
          apply Hs1 in H1. cbn [s_res s_nodes] in H1. rewrite Hr in H1.
          destruct (is_eof inp (node_rpos n)) eqn:E.
          + destruct H1 as [-> Er]. inversion H2; subst. left. exists n. split; [left; reflexivity|].
            split; [exact E|]. rewrite Er. reflexivity.
          + destruct H1 as [-> Er]. destruct (IH _ _ _ _ _ Er H2) as [[n0 [A [B C]]]|[A B]].
            * left. exists n0. split; [right; exact A|]. split; [exact B|exact C].
            * right. split; [exact A|]. intros n0 [Hn|Hn]; [subst n0; exact E|apply B, Hn].
      Qed.
    End SStep.

    Lemma sent_inv : forall f, pend (parse inp rules f) /\ sent2 (seqp inp rules f) /\ sent1 (seqp inp rules f).
    Proof.
      induction f as [|f [IHp [IH2 IH1]]].
      - split; [|split]; intros until c'; intros; discriminate.
      - split; [|split].
        + intros c stk l p. rewrite parse_S. apply parse_step_pend.
        + intros c stk l p m st. rewrite seqp_S. apply seq_step_sent2.
        + intros c stk l p m st. rewrite seqp_S. apply seq_step_sent1; assumption.
    Qed.

    (* Sentence(root) on an input that root derives entirely (by a derivation within the
       curtailment bound — see Pump.v for why one exists whenever any derivation does)
       returns exactly one node: SEQ[n0; EOF] where n0 is the first result of root that
       reaches the end of the input. *)
    Theorem sentence_complete fuel t d :
      parse_top inp rules fuel (sentence root) = Ok t ->
      valid inp rules root (i_offset inp) d -> compat inp [] (i_offset inp) d ->
      dend d = i_offset inp + i_len inp ->
      exists n0 c, is_eof inp (node_rpos n0) = true /\
        t = TopNode [handle_result sq (i_offset inp) [n0; NEnd (node_rpos n0)]] c.
    Proof.
      intros H Hv Hcm Hend. unfold parse_top in H. apply bind_ok in H.
      destruct H as [[[[nodes cp] err] c] [H1 H2]].
      unfold run in H1. destruct fuel as [|f1]; [discriminate H1|].
      rewrite parse_S in H1. cbn [sentence parse_step] in H1. fold sq in H1.
      apply bind_ok in H1. destruct H1 as [[[stop st] c0] [H3 H4]].
      destruct f1 as [|f2]; [discriminate H3|].
      rewrite seqp_S in H3. unfold seq_step in H3.
      cbn [sq q_kind q_ps seq_lookup nth_error] in H3. fold sq in H3.
      apply bind_ok in H3. destruct H3 as [[[[res cp1] err1] c1] [H5 H6]].
      destruct (complete_inv f2) as [Hp _].
      destruct (Hp root (reg_call ctx0) [] [] (i_offset inp) _ _ _ _ root_wf root_mono (or_introl root_ef) cache_c0 H5)
        as [_ [_ B]].
      pose proof (B [] (ge_on_refl _ _) d Hv Hcm) as Hin.
      destruct res as [|n ns]; [destruct Hin|].
      destruct (sent_inv f2) as [_ [_ Hs1]].
      apply (alts_loop_sent _ Hs1) in H6; [|reflexivity].
      destruct H6 as [[n0 [A [E C]]]|[_ Bad]].
      - rewrite C in H4. inversion H4; subst. inversion H2; subst.
        exists n0. eexists. split; [exact E|]. reflexivity.
      - specialize (Bad _ Hin). fold (dend d) in Bad. rewrite Hend in Bad.
        unfold is_eof in Bad. apply N.leb_gt in Bad. lia.
    Qed.
  End Sentence.
End C.

(* ---------- [eok] cannot be dropped from the invariant: the EOF early exit loses derivations ---------- *)
(* SeqOf [Any [End; Empty]] on the empty input: both SEQ[EOF] and SEQ[EMPTY] are derivations within
   the bound, but the sequence search stops after emitting the one that ends with the EOF node. *)
Definition ee_inp : input := (mk_input [] 1).
Definition ee_root : pexpr := PSeq SeqOf INone false None [PAny [PEnd; PEmpty]].
Definition ee_q : seqinfo := {| q_kind := SeqOf; q_ip := INone; q_single := false; q_ps := [PAny [PEnd; PEmpty]] |}.
Definition ee_d : dtree := DSeq ee_q 1 [DAlt 1 (DEmpty 1)].
Example pcomp_needs_endfree :
  valid ee_inp [] ee_root 1 ee_d /\ compat ee_inp [] 1 ee_d /\ mono ee_root = true /\
  exists ns cp err c, run ee_inp [] 20 ee_root = Ok (ns, cp, err, c) /\ ~ In (yield ee_d) ns.
Proof.
  split; [|split; [|split]].
  - apply VSeq; [|reflexivity]. eapply VScons; [reflexivity| |apply VSnil].
    eapply VAny; [reflexivity|]. apply VEmpty.
  - cbn. tauto.
  - reflexivity.
  - eexists _, _, _, _. split; [vm_compute; reflexivity|].
    intros [H|[]]. discriminate H.
Qed.

Print Assumptions complete_top.
Print Assumptions sentence_complete.
Print Assumptions complete_top_seq.

(* ---------- non-vacuity: direct and hidden left recursion ---------- *)
Lemma nth_N_single {A} (x b : A) k : nth_N [x] k = Some b -> b = x.
Proof.
  unfold nth_N. destruct (N.to_nat k) as [|n]; cbn [nth_error]; [intros H; inversion H; reflexivity|].
  destruct n; discriminate.
Qed.

Ltac valid_tac :=
  repeat first
    [ apply VSnil
    | eapply VScons; [reflexivity| |]
    | eapply VRef; [reflexivity|]
    | apply VMemo
    | eapply VAny; [reflexivity|]
    | apply VTerm; reflexivity
    | apply VSeq; [|reflexivity]
    | apply VOptN
    | apply VOptS
    | apply VEmpty ].
Ltac compat_tac := cbn [compat]; repeat match goal with |- _ /\ _ => split end; try exact I; try (vm_compute; discriminate).

Definition tb (p : N) : dtree := DTerm (NTerm [98] (VRune 98) p (p + 1)).
Definition ta (p : N) : dtree := DTerm (NTerm [97] (VRune 97) p (p + 1)).
Definition lr_inp : input := (mk_input [97; 98; 98] 1).

(* P -> P b | a   on "abb" *)
Definition lr_alt : list pexpr := [PRef 0; PTerm (TRune 98)].
Definition lr_body : pexpr := PAny [PSeq SeqOf INone false None lr_alt; PTerm (TRune 97)].
Definition lr_rules : list pexpr := [PMemo 1 lr_body].
Definition lr_site (idx : N) : option pexpr := if idx =? 1 then Some lr_body else None.
Definition lr_q : seqinfo := {| q_kind := SeqOf; q_ip := INone; q_single := false; q_ps := lr_alt |}.
Definition lr_d0 : dtree := DRef 0 (DMemo 1 (DAlt 1 (ta 1))).
Definition lr_d1 : dtree := DRef 0 (DMemo 1 (DAlt 0 (DSeq lr_q 1 [lr_d0; tb 2]))).
Definition lr_d2 : dtree := DRef 0 (DMemo 1 (DAlt 0 (DSeq lr_q 1 [lr_d1; tb 3]))).

Lemma lr_wf : wf_rules lr_rules lr_site.
Proof. intros k body H. apply nth_N_single in H. subst body. cbn. repeat split; reflexivity. Qed.
Lemma lr_mono : forall k body, nth_N lr_rules k = Some body -> mono body = true.
Proof. intros k body H. apply nth_N_single in H. subst body. reflexivity. Qed.
Lemma lr_ef : forall k body, nth_N lr_rules k = Some body -> endfree body = true.
Proof. intros k body H. apply nth_N_single in H. subst body. reflexivity. Qed.

Example complete_top_direct_lr :
  valid lr_inp lr_rules (PRef 0) 1 lr_d2 /\ compat lr_inp [] 1 lr_d2 /\ dend lr_d2 = 4 /\
  exists ns cp err c, run lr_inp lr_rules 100 (PRef 0) = Ok (ns, cp, err, c) /\ In (yield lr_d2) ns.
Proof.
  assert (Hv : valid lr_inp lr_rules (PRef 0) 1 lr_d2) by (unfold lr_d2, lr_d1, lr_d0; valid_tac).
  assert (Hc : compat lr_inp [] 1 lr_d2) by (unfold lr_d2, lr_d1, lr_d0; compat_tac).
  split; [exact Hv|]. split; [exact Hc|]. split; [reflexivity|].
  destruct (run lr_inp lr_rules 100 (PRef 0)) as [[[[ns cp] err] c]| |] eqn:E;
    [|vm_compute in E; discriminate E|vm_compute in E; discriminate E].
  exists ns, cp, err, c. split; [reflexivity|].
  apply (complete_top lr_inp lr_rules lr_site lr_wf lr_mono lr_ef 100 (PRef 0) ns cp err c);
    [vm_compute; reflexivity|reflexivity|reflexivity|exact E|exact Hv|exact Hc].
Qed.

(* the same through Sentence: the whole input is derived, so parse_top returns exactly one node *)
Example sentence_complete_direct_lr :
  exists n0 c, parse_top lr_inp lr_rules 100 (sentence (PRef 0)) =
               Ok (TopNode [handle_result (sq (PRef 0)) 1 [n0; NEnd 4]] c) /\ node_rpos n0 = 4.
Proof.
  destruct (parse_top lr_inp lr_rules 100 (sentence (PRef 0))) as [t| |] eqn:E;
    [|vm_compute in E; discriminate E|vm_compute in E; discriminate E].
  destruct (sentence_complete lr_inp lr_rules lr_site lr_wf lr_mono lr_ef (PRef 0) (ltac:(vm_compute; reflexivity))
              eq_refl eq_refl 100 t lr_d2 E) as [n0 [c [He Ht]]].
  - unfold lr_d2, lr_d1, lr_d0; valid_tac.
  - unfold lr_d2, lr_d1, lr_d0; compat_tac.
  - reflexivity.
  - subst t. vm_compute in E. inversion E; subst. eexists _, _. split; reflexivity.
Qed.

(* hidden left recursion:  P -> x? P b | a   on "abb" (the optional prefix matches empty) *)
Definition hl_alt : list pexpr := [POpt (PTerm (TRune 120)); PRef 0; PTerm (TRune 98)].
Definition hl_body : pexpr := PAny [PSeq SeqOf INone false None hl_alt; PTerm (TRune 97)].
Definition hl_rules : list pexpr := [PMemo 1 hl_body].
Definition hl_site (idx : N) : option pexpr := if idx =? 1 then Some hl_body else None.
Definition hl_q : seqinfo := {| q_kind := SeqOf; q_ip := INone; q_single := false; q_ps := hl_alt |}.
Definition hl_d0 : dtree := DRef 0 (DMemo 1 (DAlt 1 (ta 1))).
Definition hl_d1 : dtree := DRef 0 (DMemo 1 (DAlt 0 (DSeq hl_q 1 [DOptN 1; hl_d0; tb 2]))).
Definition hl_d2 : dtree := DRef 0 (DMemo 1 (DAlt 0 (DSeq hl_q 1 [DOptN 1; hl_d1; tb 3]))).

Lemma hl_wf : wf_rules hl_rules hl_site.
Proof. intros k body H. apply nth_N_single in H. subst body. cbn. repeat split; reflexivity. Qed.
Lemma hl_mono : forall k body, nth_N hl_rules k = Some body -> mono body = true.
Proof. intros k body H. apply nth_N_single in H. subst body. reflexivity. Qed.
Lemma hl_ef : forall k body, nth_N hl_rules k = Some body -> endfree body = true.
Proof. intros k body H. apply nth_N_single in H. subst body. reflexivity. Qed.

Example complete_top_hidden_lr :
  valid lr_inp hl_rules (PRef 0) 1 hl_d2 /\ compat lr_inp [] 1 hl_d2 /\ dend hl_d2 = 4 /\
  exists ns cp err c, run lr_inp hl_rules 100 (PRef 0) = Ok (ns, cp, err, c) /\ In (yield hl_d2) ns.
Proof.
  assert (Hv : valid lr_inp hl_rules (PRef 0) 1 hl_d2) by (unfold hl_d2, hl_d1, hl_d0; valid_tac).
  assert (Hc : compat lr_inp [] 1 hl_d2) by (unfold hl_d2, hl_d1, hl_d0; compat_tac).
  split; [exact Hv|]. split; [exact Hc|]. split; [reflexivity|].
  destruct (run lr_inp hl_rules 100 (PRef 0)) as [[[[ns cp] err] c]| |] eqn:E;
    [|vm_compute in E; discriminate E|vm_compute in E; discriminate E].
  exists ns, cp, err, c. split; [reflexivity|].
  apply (complete_top lr_inp hl_rules hl_site hl_wf hl_mono hl_ef 100 (PRef 0) ns cp err c);
    [vm_compute; reflexivity|reflexivity|reflexivity|exact E|exact Hv|exact Hc].
Qed.

(* ---------- literal terminals ---------- *)
(* the hypotheses [mono] / [endfree] of the completeness theorems hold for grammars over literal terminals
   (here the left-recursive sum S -> S "+" INTEGER | INTEGER), except for a literal whose node carries the
   token "EOF": combinator/seq.go recognises the end-of-input node by its token, so the node of
   terminal.Word(s, "eof", v) (token = strings.ToUpper(word)) or terminal.Op("EOF") counts as [PEnd] *)
Example lit_mono_endfree :
  let sum := PAny [PSeq SeqOf INone false None [PRef 0; PTerm (TLit (LOp [43])); PTerm (TLit LInteger)]; PTerm (TLit LInteger)] in
  mono sum = true /\ endfree sum = true /\
  endfree (PTerm (TLit (LWord [101; 111; 102]))) = false /\ endfree (PTerm (TLit (LOp [69; 79; 70]))) = false /\
  endfree (PTerm (TLit (LWord [101; 111]))) = true.
Proof. repeat split; reflexivity. Qed.
