(* ArithSpec.v — C05: the SPECIFICATION side of "left-recursive arithmetic evaluates like a
   reference evaluator".  Tokens, the lexer of exactly the token syntax the workload grammar
   accepts, the reference evaluator (iterative: expr = term {(+|-) term}, term = factor
   {(*|/) factor}, factor = INT | ( expr )) with int64 arithmetic, the rendering of its answer
   as the text parsley.Evaluate must return, and the harness of the check.  NO PROOFS here
   (ArithSpecProofs.v).

   The workload grammar (defined once, in harness/c05.go with the real combinators):
     expr   = Memoize(Any(SeqOf(&expr, addop, &term).Bind(binop), &term))
     term   = Memoize(Any(SeqOf(&term, mulop, &factor).Bind(binop), &factor))
     factor = Any(tok(Integer), SeqOf(tok('('), &expr, tok(')')).Bind(Select(1)))
     addop  = Any(tok('+'), tok('-'))   mulop = Any(tok('*'), tok('/'))
     tok(p) = text.LeftTrim(p, text.WsSpacesNl)
     root   = Sentence(text.RightTrim(&expr, text.WsSpacesNl))

   THE LANGUAGE, precisely (this is what [lex] + [arith_ref_toks] decide):
   * over tokens:  E -> E (+|-) T | T ;  T -> T ( * | / ) F | F ;  F -> INT | '(' E ')'.
   * INT is terminal.Integer: the lexeme [-+]?(?:[1-9][0-9]*|0[xX][0-9a-fA-F]+|0[0-7]*) taken by
     leftmost-first/greedy matching (= the longest prefix of that syntax, LiteralProofs.
     int_lexeme_longest), which must NOT be followed by '.', and whose value (ParseInt base 0:
     decimal, 0x hex, 0 octal) must lie in the int64 range.  The sign belongs to the literal and
     must touch the digits.
   * The grammar is scannerless, so whether a '+' or '-' is an operator or a sign is decided by
     what the grammar expects at that point, NOT by maximal munch: after an operand (an INT or
     a ')') the grammar only tries addop/mulop/')'/end, so there '+'/'-' is ALWAYS the operator;
     where an operand is expected (start, after an operator, after '(') it tries only Integer
     and '(' , so there '+'/'-' must be the sign of a literal.  Hence
        1 -2 = 1 - 2 = -1     1--2 = 1 - (-2) = 3     1 - -2 = 3     2*-3 = -6    +1 = 1
        - 1, -(1), --1, 1 - - 2, 1 -- 2, 1 +-+ 2   are ill-formed
        08, 0x, 1.5, 1., 1 2, (1)2, 9223372036854775808   are ill-formed ; -9223372036854775808 is fine.
   * White space = space, tab, LF, FF (text.WsSpacesNl), free before every token and at the end
     of the input, never inside a literal.  CR is legal only as part of CRLF, which text.NewFile
     turns into LF before anything else sees it (the case data is normalised the same way).
   * Values are Go int64: + - * wrap around, / truncates toward zero, MinInt64 / -1 wraps to
     MinInt64; division by zero is an interpreter error carrying the position of that '/'.
     Operands are evaluated left before right, and an error of the left operand wins. *)
From Coq Require Import String List NArith ZArith Bool.
From Parsley Require Import Obs Base FileSet Reader Literals Grammar Engine EngineHarness.
Import ListNotations.
Open Scope N_scope.

(* ------------------------------------------------------------------ *)
(* Tokens and values                                                   *)

Inductive token := TInt (z : Z) | TOp (c : N) | TLP | TRP.      (* c: the operator's byte *)
Definition toks := list (token * N).                             (* token, global position of its first byte *)

Inductive aval := AV (z : Z) | ADiv0 (pos : N).                  (* a value, or division by zero at that '/' *)

Definition is_addop (c : N) : bool := (c =? 43) || (c =? 45).    (* + - *)
Definition is_mulop (c : N) : bool := (c =? 42) || (c =? 47).    (* * / *)

Definition two64 : Z := 18446744073709551616.
Definition wrap64 (z : Z) : Z := ((z + 9223372036854775808) mod two64 - 9223372036854775808)%Z.

(* the interpreter of a binary node: left operand, right operand, then the operation *)
Definition binop (c p : N) (a b : aval) : aval :=
  match a with
  | ADiv0 _ => a
  | AV x =>
    match b with
    | ADiv0 _ => b
    | AV y =>
      if c =? 43 then AV (wrap64 (x + y))
      else if c =? 45 then AV (wrap64 (x - y))
      else if c =? 42 then AV (wrap64 (x * y))
      else if (y =? 0)%Z then ADiv0 p
      else AV (wrap64 (Z.quot x y))
    end
  end.

(* ------------------------------------------------------------------ *)
(* The lexer.  Structural on the bytes: [skip] counts the remaining bytes of the literal just
   read; [after_operand] says whether the previous token was an INT or a ')'. *)

Definition tcons (t : token * N) (o : option toks) : option toks :=
  match o with Some l => Some (t :: l) | None => None end.

Fixpoint lex_at (s : list N) (pos skip : N) (after_operand : bool) : option toks :=
  match s with
  | [] => Some []
  | b :: t =>
    if 0 <? skip then lex_at t (pos + 1) (skip - 1) after_operand
    else if Reader.is_ws b then lex_at t (pos + 1) 0 after_operand
    else if b =? 40 then tcons (TLP, pos) (lex_at t (pos + 1) 0 false)
    else if b =? 41 then tcons (TRP, pos) (lex_at t (pos + 1) 0 true)
    else if is_mulop b || (after_operand && is_addop b)
         then tcons (TOp b, pos) (lex_at t (pos + 1) 0 false)
    else match int_lexeme s with
         | Some n =>
           if starts_with_byte 46 (drop n s) then None                 (* the prefix of a float *)
           else match parse_int_base0 (take n s) with
                | Some z => tcons (TInt z, pos) (lex_at t (pos + 1) (n - 1) true)
                | None => None                                         (* outside int64 *)
                end
         | None => None
         end
  end.
(* data: the normalised content; off: the global position of its first byte *)
Definition lex (data : list N) (off : N) : option toks := lex_at data off 0 false.

(* ------------------------------------------------------------------ *)
(* The reference evaluator on token lists.
     chain operand isop n acc ts  =  { op operand }   folding to the left, at most n operators
     term  = factor { mulop factor }      expr = term { addop term }
     factor = INT | '(' expr ')'          (fuel: parenthesis nesting)
   Both bounds are the length of the token list, which always suffices
   (ArithSpecProofs.ref_complete: every expression of the left-recursive token grammar is
   accepted with its value; ref_sound: nothing else is). *)

Definition presult := option (aval * toks).

Fixpoint chain (operand : toks -> presult) (isop : N -> bool) (n : nat) (acc : aval) (ts : toks) : presult :=
  match n with
  | O => None
  | S n' =>
    match ts with
    | (TOp c, p) :: r =>
      if isop c then
        match operand r with
        | Some (v, r') => chain operand isop n' (binop c p acc v) r'
        | None => None
        end
      else Some (acc, ts)
    | _ => Some (acc, ts)
    end
  end.

Definition term_with (factor : toks -> presult) (n : nat) (ts : toks) : presult :=
  match factor ts with Some (v, r) => chain factor is_mulop n v r | None => None end.
Definition expr_with (factor : toks -> presult) (n : nat) (ts : toks) : presult :=
  match term_with factor n ts with
  | Some (v, r) => chain (term_with factor n) is_addop n v r
  | None => None
  end.

Fixpoint factor (fuel n : nat) (ts : toks) : presult :=
  match fuel with
  | O => None
  | S k =>
    match ts with
    | (TInt z, _) :: r => Some (AV z, r)
    | (TLP, _) :: r =>
      match expr_with (fun x => factor k n x) n r with
      | Some (v, (TRP, _) :: r') => Some (v, r')
      | _ => None
      end
    | _ => None
    end
  end.

(* None = ill-formed (rejected) *)
Definition arith_ref_toks (ts : toks) : option aval :=
  let n := S (length ts) in
  match expr_with (fun x => factor n n x) n ts with
  | Some (v, []) => Some v
  | _ => None
  end.

Definition arith_ref (data : list N) (off : N) : option aval :=
  match lex data off with
  | Some ts => arith_ref_toks ts
  | None => None
  end.

(* ------------------------------------------------------------------ *)
(* What parsley.Evaluate must return: the value; for division by zero the text
   "division by zero at <file>:<line>:<col>" of the offending operator (line/column by the
   SPECIFICATION of C11, FileSet.spec_position); for ill-formed input an error whose text
   starts with "failed to parse the input: " (the rest is C06's business). *)

Definition div0_msg : list N := str_bytes "division by zero".
Definition parse_prefix : list N := str_bytes "failed to parse the input: ".

Definition spec_error_text (files : list file) (msg : list N) (pos : N) : list N :=
  match spec_position files pos with
  | Some p => msg ++ str_bytes " at " ++ position_string p
  | None => msg
  end.

Fixpoint has_prefix (p s : list N) : bool :=
  match p, s with
  | [], _ => true
  | x :: p', y :: s' => (x =? y) && has_prefix p' s'
  | _, [] => false
  end.

(* ------------------------------------------------------------------ *)
(* Harness.  Case: the raw bytes of file "f" and its base offset (a filler file "x" in front
   when the offset is above 1, exactly as harness/eng.go lays files out: [eng_files]).
   Observation: OT "C05" [what parsley.Evaluate returned; what the driver's own Go reference
   evaluator says].
     first  = OT "Val" [OZ v] | OT "Err" [OS text] | OT "Panic" []
     second = OT "Val" [OZ v] | OT "Div0" [ON global position of the '/'] | OT "Reject" [] *)

Inductive c05_case := C05 (data : list N) (offset : N).

Definition c05_ref (c : c05_case) : option aval :=
  match c with C05 data offset => arith_ref (normalize data) (if offset <=? 1 then 1 else offset) end.

(* the reference's prediction of Evaluate's answer; an ill-formed input is predicted as the
   bare prefix (the projection below cuts a parse error's text down to it) *)
Definition c05_predict (c : c05_case) : obs :=
  match c with
  | C05 data offset =>
    match c05_ref c with
    | Some (AV z) => OT "Val" [OZ z]
    | Some (ADiv0 p) => OT "Err" [OS (spec_error_text (eng_files data offset) div0_msg p)]
    | None => OT "Err" [OS parse_prefix]
    end
  end.
Definition c05_ref_obs (c : c05_case) : obs :=
  match c05_ref c with
  | Some (AV z) => OT "Val" [OZ z]
  | Some (ADiv0 p) => OT "Div0" [ON p]
  | None => OT "Reject" []
  end.

(* projection: a parse error keeps only its fixed prefix *)
Definition c05_project (o : obs) : obs :=
  match o with
  | OT "Err" [OS t] => if has_prefix parse_prefix t then OT "Err" [OS parse_prefix] else o
  | _ => o
  end.

Definition c05_expected (c : c05_case) : obs := OT "C05" [c05_predict c; c05_ref_obs c].

Definition c05_agree (e o : obs) : bool :=
  match e, o with
  | OT "C05" [e1; e2], OT "C05" [o1; o2] => obs_eqb e1 (c05_project o1) && obs_eqb e2 o2
  | _, _ => false
  end.

(* THE PROPERTY on the implementation's observation: a well-formed expression gives the
   reference's value; division by zero gives exactly "division by zero at f:<line>:<col>" of the
   operator; an ill-formed input gives an error "failed to parse the input: ...", never a
   value, never a panic. *)
Definition c05_oracle (c : c05_case) (o : obs) : bool :=
  match o with
  | OT "C05" (o1 :: _) => obs_eqb (c05_predict c) (c05_project o1)
  | _ => false
  end.

Definition c05_harness : harness :=
  {| H_case := c05_case; H_expected := c05_expected; H_agree := c05_agree; H_oracle := c05_oracle |}.
