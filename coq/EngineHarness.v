(* EngineHarness.v — rendering of engine runs as observations, and the harness records of
   the engine properties.  One Go subcommand ("eng") produces the observation; each
   property projects what it constrains. *)
From Coq Require Import String List NArith ZArith Bool.
From Parsley Require Import Obs Base FileSet Grammar Engine.
From Parsley Require Top.        (* parsley.Evaluate on engine nodes (C04, flags bit 2); not imported: qualified names only *)
Import ListNotations.
Open Scope N_scope.

Definition bytes (s : string) : list N :=
  map (fun a => N.of_nat (Ascii.nat_of_ascii a)) (list_ascii_of_string s).

(* flags: bit 0 = also run the grammar with every Memoize wrapper removed;
   bit 1 = every Any/Choice is named (C06); bit 2 = also parsley.Evaluate (C04, one more part "Ev", last) *)
Inductive eng_case := Eng (rules : list pexpr) (root : pexpr) (data : list N) (offset : N) (flags : N).

Definition FUEL : nat := N.to_nat 3000.
(* recursion depth allowed for one case: 3000 plus 40 per input byte (Many over n items nests a few levels per item) *)
Definition fuel_of (inp : input) : nat := N.to_nat (3000 + 40 * i_len inp).

(* ---- rendering ---- *)
(* the bytes of the file from [p] to [r]: the lexeme of a literal node (whitespace trimmed by a
   RightTrim included, since RightTrim moves the node's reader position) *)
Definition lexeme (inp : input) (p r : N) : list N :=
  firstn (N.to_nat (r - p)) (skipn (N.to_nat (p - i_offset inp)) (i_data inp)).
(* values: a float64 and a time.Duration are rendered by their lexeme ("lex"), not by value: the
   conversions strconv.ParseFloat / time.ParseDuration are oracles of the model ([i_cf], [i_cd]),
   the harness input uses dummy converters *)
Definition o_val (inp : input) (v : lval) (p r : N) : obs :=
  match v with
  | VRune c | VChar c => OT "r" [ON c] | VInt z => OT "i" [OZ z] | VStr s => OT "s" [OS s]
  | VBool b => OT "b" [OB b] | VNil => OT "n" []
  | VFloat _ | VDur _ => OT "lex" [OS (lexeme inp p r)]
  end.
Definition tok_code (t : list N) : N :=
  if list_N_eqb t (seq_token SeqOf) then 0 else if list_N_eqb t (seq_token (SMany true)) then 1
  else if list_N_eqb t (seq_token (SSepBy true)) then 2 else 99.
(* compact rendering: numbers are packed into OS lists (elaboration cost is per token) *)
Section Render.
Variable inp : input.
(* a node whose value is an ASCII rune equal to its token (terminal.Rune) has the short form "r" *)
Definition o_leaf (t : list N) (c p r : N) (v : lval) : obs :=
  if list_N_eqb t [c] && (c <? 128) then OT "r" [OS [c; p; r]] else OT "T" [OS t; o_val inp v p r; OS [p; r]].
Fixpoint o_node (n : node) : obs :=
  match n with
  | NTerm t (VRune c) p r => o_leaf t c p r (VRune c)
  | NTerm t (VChar c) p r => o_leaf t c p r (VChar c)
  | NTerm t v p r => OT "T" [OS t; o_val inp v p r; OS [p; r]]
  | NEmpty p => OT "E" [ON p]
  | NEnd p => OT "F" [ON p]
  | NNonTerm t _ cs p r => OT "N" [OS [tok_code t; p; r]; OL (map o_node cs)]
  end.
Definition o_cause (k : cause) : obs :=
  match k with
  | CNotFound nm => OT "NF" [OS nm]
  | CWs WsErrNone => OT "WS" [ON 0] | CWs WsErrForceNl => OT "WS" [ON 1] | CWs WsErrSpaces => OT "WS" [ON 2]
  | COther m => if list_N_eqb m msg_end then OT "End" [] else OT "O" [OS m]
  end.
Definition o_err (e : perr) : obs := OL [ON (epos e); o_cause (ecause e)].
Definition o_bodies (c : ctx) : obs :=
  OS (flat_map (fun b => [fst (fst b); snd (fst b); snd b]) (rev (g_bodies c))).
Definition o_fails (c : ctx) : obs := OL (map (fun f => OL [ON (fst f); o_cause (snd f)]) (rev (g_fails c))).
Definition o_ctx (c : ctx) : list obs := [obs_of_option o_err (cerr c); ON (calls c); o_bodies c; o_fails c].
Definition o_ctx_top (c : ctx) : list obs := [obs_of_option o_err (cerr c); ON (calls c); o_fails c].
Definition o_ctx_min (c : ctx) : list obs := [obs_of_option o_err (cerr c); ON (calls c)].
End Render.

Definition cause_msg (k : cause) : list N :=
  match k with
  | CNotFound nm => bytes "was expecting " ++ nm
  | CWs WsErrNone => bytes "whitespaces are not allowed"
  | CWs WsErrForceNl => bytes "was expecting a new line"
  | CWs WsErrSpaces => bytes "new line is not allowed"
  | COther m => m
  end.

(* the file set the driver builds: a filler file in front when the offset is not 1 *)
Definition eng_files (data : list N) (offset : N) : list file :=
  if offset <=? 1 then [new_file [102] data]
  else [new_file [120] (repeat 97 (N.to_nat (offset - 2))); new_file [102] data].
Definition eng_input (data : list N) (offset : N) : input :=
  mk_input (normalize data) (if offset <=? 1 then 1 else offset).

Definition top_text (fs : fileset) (e : perr) : outcome (list N) :=
  bind (error_with_position fs (cause_msg (ecause e)) (epos e)) (fun t =>
    Ok (bytes "failed to parse the input: " ++ t)).

Definition o_raw (inp : input) (o : outcome pres) : obs :=
  obs_outcome (fun '(ns, _, err, c) => OT "Raw" ([OL (map (o_node inp) ns); obs_of_option o_err err] ++ o_ctx c)) o.
Definition o_top (inp : input) (full : bool) (fs : fileset) (o : outcome top) : obs :=
  obs_outcome (fun t =>
    match t with
    | TopNode ns c => OT "Top" ([OT "Node" (map (o_node inp) ns)] ++ (if full then o_ctx_top c else o_ctx_min c))
    | TopErr e c => OT "Top" ([OT "Err" [obs_outcome OS (top_text fs e)]] ++ (if full then o_ctx_top c else o_ctx_min c))
    end) o.

(* remove every Memoize wrapper *)
Fixpoint strip_memo (e : pexpr) : pexpr :=
  match e with
  | PMemo _ p => strip_memo p
  | PAny ps => PAny (map strip_memo ps)
  | PChoice ps => PChoice (map strip_memo ps)
  | POpt p => POpt (strip_memo p)
  | PSeq k ip s nm ps => PSeq k ip s nm (map strip_memo ps)
  | PName nm p => PName nm (strip_memo p)
  | PLeftTrim m p => PLeftTrim m (strip_memo p)
  | PRightTrim m p => PRightTrim m (strip_memo p)
  | PSuppress p => PSuppress (strip_memo p)
  | PSingle p => PSingle (strip_memo p)
  | _ => e
  end.

(* ---- C04, flags bit 2: parsley.Evaluate (Top.evaluate) with the Sentence root and with the bare root.
   Values: literals as node values are rendered (a float64 / time.Duration has no lexeme here: "fl" / "du",
   value not compared), nil = OT "n" [], a slice = OT "L" [...], a map = OT "M" [OL [key; value] ...] sorted by
   key (bytewise, as sort.Strings).  An evaluation error is rendered as the text Evaluate returns
   (FileSet.ErrorWithPosition: "<message> at f:<line>:<col>"): the position is observable only through it. ---- *)
Fixpoint list_N_leb (a b : list N) : bool :=
  match a, b with
  | [], _ => true
  | _ :: _, [] => false
  | x :: a', y :: b' => if x <? y then true else if y <? x then false else list_N_leb a' b'
  end.
Fixpoint kv_insert (kv : list N * obs) (l : list (list N * obs)) : list (list N * obs) :=
  match l with
  | [] => [kv]
  | kv' :: t => if list_N_leb (fst kv) (fst kv') then kv :: l else kv' :: kv_insert kv t
  end.
Definition kv_sort (l : list (list N * obs)) : list (list N * obs) := fold_right kv_insert [] l.
Definition o_evlit (v : lval) : obs :=
  match v with
  | VRune c | VChar c => OT "r" [ON c] | VInt z => OT "i" [OZ z] | VStr s => OT "s" [OS s]
  | VBool b => OT "b" [OB b] | VNil => OT "n" [] | VFloat _ => OT "fl" [] | VDur _ => OT "du" []
  end.
Fixpoint o_value (v : Top.value) : obs :=
  match v with
  | Top.ValLit l => o_evlit l
  | Top.ValNil => OT "n" []
  | Top.ValList l => OT "L" (map o_value l)
  | Top.ValMap m => OT "M" (map (fun kv => OL [OS (fst kv); snd kv])
                               (kv_sort (map (fun kv => (fst kv, o_value (snd kv))) m)))
  end.
Definition o_evaluated (fs : fileset) (o : outcome Top.evaluated) : obs :=
  obs_outcome (fun r =>
    match r with
    | Top.EvValue v => OT "Val" [o_value v]
    | Top.EvParseErr _ => OT "PErr" []          (* the text is compared in parts 1 and 2 *)
    | Top.EvEvalErr e => OT "EErr" [obs_outcome OS (error_with_position fs (cause_msg (ecause e)) (epos e))]
    end) o.
Definition o_eval (inp : input) (fs : fileset) (rules : list pexpr) (root : pexpr) : obs :=
  OT "Ev" [o_evaluated fs (Top.evaluate inp rules (fuel_of inp) (sentence root));
           o_evaluated fs (Top.evaluate inp rules (fuel_of inp) root)].

Definition eng_expected (c : eng_case) : obs :=
  match c with
  | Eng rules root data offset flags =>
    let inp := eng_input data offset in
    let fs := new_fileset (eng_files data offset) in
    let fuel := fuel_of inp in
    OT "Eng" ([o_raw inp (run inp rules fuel root);
               o_top inp true fs (parse_top inp rules fuel (sentence root));
               o_top inp false fs (parse_top inp rules fuel root)] ++
              (if N.testbit flags 0
               then [o_raw inp (run inp (map strip_memo rules) fuel (strip_memo root))]
               else []) ++
              (if N.testbit flags 2 then [o_eval inp fs rules root] else []))
  end.

(* ---- projections of an observation ---- *)
Definition nth_obs (l : list obs) (i : nat) : obs := nth i l (OT "Missing" []).
Definition eng_part (o : obs) (i : nat) : obs := match o with OT _ l => nth_obs l i | _ => OT "Missing" [] end.
Definition raw_nodes (o : obs) : list obs :=
  match eng_part o 0 with OT _ (OL ns :: _) => ns | _ => [] end.
Definition raw_field (o : obs) (i : nat) : obs := eng_part (eng_part o 0) i.
Definition obs_mem (x : obs) (l : list obs) : bool := existsb (obs_eqb x) l.
Definition obs_subset (a b : list obs) : bool := forallb (fun x => obs_mem x b) a.
Definition obs_same_set (a b : list obs) : bool := obs_subset a b && obs_subset b a.
Definition is_raw (o : obs) : bool := match eng_part o 0 with OT "Raw" _ => true | _ => false end.

(* whole-observation agreement (used while developing the model, and by C17 for call counts) *)
Definition eng_harness : harness :=
  {| H_case := eng_case; H_expected := eng_expected; H_agree := obs_eqb; H_oracle := fun _ _ => true |}.
