(* EngineHProofs.v — theorems of property C07 about the instrumented engine.

   1. [erasure]: forgetting handles and log, EngineH computes exactly Engine.parse (for both values of the clamp flag),
      so every theorem about Engine.v transfers.
   2. [engine_log_linear]: on a grammar without RightTrim, every log EngineH emits with the clamp of the repaired Memoize
      is linear (HeapLog.linear) — single consumer per accumulated header; everything that leaves Memoize is clamped.
   2b. the values EngineH returns, accumulates and caches are the lists their handles denote according to the log
      (HeapLog.val_of): [val_fuel].
   3. [C07_immutable]: hence (HeapLogProofs.replay_stable) every header created during such a run still reads, after
      the whole log, the list it read at any earlier point, for every growth function; [C07_returned_lists_read_back]:
      every list any sub-parser returned, the root result and every cached list read back, at the end, exactly the nodes
      that were returned / stored.
   4. sensitivity: without the clamp the engine's own log for the D1 grammar is not linear and replays to a changed
      header ([replay_unstable_example]).
   5. [C07_cache_same_answer] (Engine.v): a second request to a Memoize at the same position with a context passing the
      reuse test returns exactly the stored list, curtailing set and error.
   6. [C07_righttrim_refuted]: a cell model with a mutable reader position in which the K1 scenario changes a node that
      Memoize returned earlier. *)
From Coq Require Import String List NArith ZArith Bool Arith Lia.
From Parsley Require Import Obs Base FileSet Grammar Engine EngineFacts EngineHarness HeapLog HeapLogProofs EngineH.
Import ListNotations.
Open Scope N_scope.

Definition ptypeH := pexpr -> ctx -> hst -> stack -> intmap -> N -> outcome hres.
Definition stypeH := seqinfo -> nat -> ctx -> hst -> stack -> intmap -> N -> bool -> seqst -> option handle -> outcome hsres.

Lemma parseH_S cl inp rules f e c s stk l p :
  parseH cl inp rules (S f) e c s stk l p =
  parse_stepH cl inp rules (fun e c s stk l p => parseH cl inp rules f e c s stk l p)
              (fun q d c s stk l p m st sh => seqpH cl inp rules f q d c s stk l p m st sh) e c s stk l p.
Proof. reflexivity. Qed.
Lemma seqpH_S cl inp rules f q d c s stk l p m st sh :
  seqpH cl inp rules (S f) q d c s stk l p m st sh =
  seq_stepH (fun e c s stk l p => parseH cl inp rules f e c s stk l p)
            (fun q d c s stk l p m st sh => seqpH cl inp rules f q d c s stk l p m st sh) q d c s stk l p m st sh.
Proof. reflexivity. Qed.

(* ================================================================================================
   1. erasure
   ================================================================================================ *)
Section Erasure.
  Variable clampb : bool.
  Variable inp : input.
  Variable rules : list pexpr.

  Definition perase (rH : ptypeH) (r : ptype) : Prop := forall e c s stk l p, erase_p (rH e c s stk l p) = r e c stk l p.
  Definition serase (rH : stypeH) (r : stype) : Prop :=
    forall q d c s stk l p m st sh, erase_s (rH q d c s stk l p m st sh) = r q d c stk l p m st.

  Section Step.
    Variables (rpH : ptypeH) (rp : ptype) (rsH : stypeH) (rs : stype).
    Hypothesis Hp : perase rpH rp.
    Hypothesis Hs : serase rsH rs.

    (* expose the recursive call under the leading bind on both sides *)
    Ltac stepP :=
      match goal with
      | |- context [bind (rpH ?e ?c ?s ?stk ?l ?p) _] =>
        rewrite <- (Hp e c s stk l p);
        destruct (rpH e c s stk l p) as [[[[[[?ho ?ns] ?cp] ?err] ?c'] ?s']| |]; cbn [bind erase_p erase_s]; try reflexivity
      end.
    Ltac stepS :=
      match goal with
      | |- context [bind (rsH ?q ?d ?c ?s ?stk ?l ?p ?m ?st ?sh) _] =>
        rewrite <- (Hs q d c s stk l p m st sh);
        destruct (rsH q d c s stk l p m st sh) as [[[[[?b ?st'] ?sh'] ?c'] ?s']| |]; cbn [bind erase_p erase_s]; try reflexivity
      end.

    Lemma any_loopH_erase stk l p ps : forall c s cp hr res err nf,
      erase_p (any_loopH rpH stk l p ps c s cp hr res err nf) = any_loop rp stk l p ps c cp res err nf.
    Proof.
      induction ps as [|q ps IH]; intros c s cp hr res err nf; cbn [any_loopH any_loop].
      - destruct res; reflexivity.
      - stepP. destruct (alt_err p err nf err0) as [err' nf'].
        destruct (append_h s' hr res ho ns) as [hr' s'']. apply IH.
    Qed.

    Lemma choice_loopH_erase stk l p ps : forall c s cp err nf,
      erase_p (choice_loopH rpH stk l p ps c s cp err nf) = choice_loop rp stk l p ps c cp err nf.
    Proof.
      induction ps as [|q ps IH]; intros c s cp err nf; cbn [choice_loopH choice_loop]; [reflexivity|].
      stepP. destruct (alt_err p err nf err0) as [err' nf'].
      destruct ns; [apply IH|reflexivity].
    Qed.

    Lemma erase_ret (o : outcome hres) : erase_p (bind o (fun r => Ok (ret_log r))) = erase_p o.
    Proof. destruct o as [[[[[[ho ns] cp] err] c] s]| |]; reflexivity. Qed.

    Lemma parse_coreH_erase : perase (parse_coreH clampb inp rules rpH rsH) (parse_step inp rules rp rs).
    Proof.
      intros e c s stk l p. destruct e; cbn [parse_coreH parse_step].
      - (* PTerm *) destruct (term_parse inp t p) as [res err]. reflexivity.
      - reflexivity.
      - destruct (is_eof inp p); reflexivity.
      - (* PRef *) destruct (nth_N rules k); [apply Hp|reflexivity].
      - (* PMemo *) destruct (cache_get c idx p l); [reflexivity|].
        destruct (remaining inp p + 1 <? map_get idx l); [reflexivity|].
        stepP. destruct ho as [h|]; [destruct clampb|]; reflexivity.
      - apply any_loopH_erase.
      - apply choice_loopH_erase.
      - (* POpt *) stepP. destruct (append_h s' ho ns None [NEmpty p]). reflexivity.
      - (* PSeq *) stepS. destruct (s_res st'); reflexivity.
      - (* PName *) stepP. destruct err; [reflexivity|]. destruct ns; reflexivity.
      - (* PLeftTrim *) destruct (skip_ws inp p m) as [pos1 wserr]. stepP.
        destruct err as [e0|]; [destruct wserr as [w|]; [destruct (pos1 <? epos e0); [reflexivity|destruct (is_notfound e0); reflexivity]|reflexivity]|].
        destruct wserr; reflexivity.
      - (* PRightTrim *) stepP. destruct err; [reflexivity|].
        destruct (trim_nodes inp m ns None) as [res' wserr]. destruct wserr; reflexivity.
      - (* PSuppress *) stepP.
      - (* PSingle *) stepP. destruct err; [reflexivity|].
        destruct ns as [|n0 [|n1 ns]]; try reflexivity.
        + destruct n0; try reflexivity. destruct children as [|ch [|ch2 chs]]; reflexivity.
        + destruct n0; try reflexivity. destruct children as [|ch [|ch2 chs]]; reflexivity.
    Qed.

    Lemma parse_stepH_erase : perase (parse_stepH clampb inp rules rpH rsH) (parse_step inp rules rp rs).
    Proof. intros e c s stk l p. unfold parse_stepH. rewrite erase_ret. apply parse_coreH_erase. Qed.

    Lemma alts_loopH_erase q d stk l p m prefix ns : forall st sh c s,
      erase_s (alts_loopH rsH q d stk l p m prefix ns st sh c s) = alts_loop rs q d stk l p m prefix ns st c.
    Proof.
      induction ns as [|n ns IH]; intros st sh c s; cbn [alts_loopH alts_loop]; [reflexivity|].
      stepS. destruct b; [reflexivity|apply IH].
    Qed.

    Lemma seq_stepH_erase : serase (seq_stepH rpH rsH) (seq_step rp rs).
    Proof.
      intros q d c s stk l p m st sh. unfold seq_stepH, seq_step.
      destruct (seq_lookup (q_kind q) (q_ps q) d) as [sub|].
      - stepP. destruct ns.
        + destruct (seq_lencheck (q_kind q) (length (q_ps q)) d); [|reflexivity].
          match goal with |- context [append_h ?x1 ?x2 ?x3 ?x4 ?x5] => destruct (append_h x1 x2 x3 x4 x5) as [sh' s2] end. cbn [s_nodes].
          destruct (s_nodes st); reflexivity.
        + apply alts_loopH_erase.
      - cbn [bind].
        destruct (seq_lencheck (q_kind q) (length (q_ps q)) d); [|reflexivity].
        match goal with |- context [append_h ?x1 ?x2 ?x3 ?x4 ?x5] => destruct (append_h x1 x2 x3 x4 x5) as [sh' s2] end. cbn [s_nodes].
        destruct (s_nodes st); reflexivity.
    Qed.
  End Step.

  Lemma erasure_fuel : forall f,
    perase (parseH clampb inp rules f) (parse inp rules f) /\ serase (seqpH clampb inp rules f) (seqp inp rules f).
  Proof.
    induction f as [|f [IHp IHs]].
    - split; [intros e c s stk l p | intros q d c s stk l p m st sh]; reflexivity.
    - split.
      + intros e c s stk l p. rewrite parseH_S, parse_S. apply parse_stepH_erase; assumption.
      + intros q d c s stk l p m st sh. rewrite seqpH_S, seqp_S. apply seq_stepH_erase; assumption.
  Qed.

  (* forgetting handles and log, the instrumented engine IS the engine *)
  Theorem erasure : forall f e c s stk l p,
    erase_p (parseH clampb inp rules f e c s stk l p) = parse inp rules f e c stk l p.
  Proof. intros f. apply (proj1 (erasure_fuel f)). Qed.

  Corollary erasure_run : forall f root, erase_p (runH clampb inp rules f root) = run inp rules f root.
  Proof. intros f root. apply erasure. Qed.
End Erasure.

(* ================================================================================================
   2. every log of the engine (with the clamp, without RightTrim) is linear
   ================================================================================================ *)
Definition lin_of (s : hst) : option labs := @lin_run node (the_log s).

Lemma lin_from_snoc (l : list nlop) o : forall s,
  lin_from s (l ++ [o]) = match lin_from s l with Some s1 => lin_step s1 o | None => None end.
Proof.
  induction l as [|x t IH]; intros s; cbn [app lin_from].
  - destruct (lin_step s o); reflexivity.
  - destruct (lin_step s x); [apply IH|reflexivity].
Qed.
Lemma lin_of_emit o s : lin_of (emit o s) = match lin_of s with Some a => lin_step a o | None => None end.
Proof. unfold lin_of, the_log, lin_run, emit. cbn [h_log rev]. apply lin_from_snoc. Qed.
Lemma lin_of_bump s : lin_of (bump s) = lin_of s.
Proof. reflexivity. Qed.
Lemma lin_of_save k h s : lin_of (hc_save k h s) = lin_of s.
Proof. reflexivity. Qed.

Record GoodA (a : labs) (s : hst) : Prop := {
  G_lt : forall h v, hfind h (la_tab a) = Some v -> h < h_next s;
  G_rep : forall h r t, hfind h (la_tab a) = Some (r, t) -> r = h;
  G_sp : forall h, hmem h (la_spent a) = true -> h < h_next s;
  G_cache : forall k h, In (k, Some h) (h_cache s) -> hfind h (la_tab a) = Some (h, true)
}.
Definition tightA (a : labs) (h : handle) : Prop := hfind h (la_tab a) = Some (h, true).
Definition freeA (a : labs) (h : handle) : Prop := hfind h (la_tab a) = Some (h, false) /\ hmem h (la_spent a) = false.
(* a result header its holder may append to once: clamped, or created since [n0] and not yet appended to *)
Definition okA (a : labs) (n0 : N) (ho : option handle) : Prop :=
  match ho with None => True | Some h => tightA a h \/ (n0 <= h /\ freeA a h) end.
(* nothing older than [n] was touched *)
Definition Frame (a a' : labs) (n : N) : Prop :=
  forall h, h < n -> hfind h (la_tab a') = hfind h (la_tab a) /\ hmem h (la_spent a') = hmem h (la_spent a).
Definition post (a : labs) (s : hst) (n0 : N) (ho : option handle) (s' : hst) : Prop :=
  exists a', lin_of s' = Some a' /\ GoodA a' s' /\ h_next s <= h_next s' /\ Frame a a' n0 /\ okA a' n0 ho.

Lemma Frame_refl a n : Frame a a n.
Proof. intros h _. split; reflexivity. Qed.
Lemma Frame_trans a b c n : Frame a b n -> Frame b c n -> Frame a c n.
Proof. intros H1 H2 h Hh. destruct (H1 h Hh) as [A1 A2]. destruct (H2 h Hh) as [B1 B2]. split; congruence. Qed.
Lemma Frame_le a b n m : m <= n -> Frame a b n -> Frame a b m.
Proof. intros Hle H h Hh. apply H. lia. Qed.
Lemma okA_le a n m ho : m <= n -> okA a n ho -> okA a m ho.
Proof. intros Hle. destruct ho as [h|]; cbn [okA]; [|auto]. intros [T|[L F]]; [left; exact T|right; split; [lia|exact F]]. Qed.
Lemma okA_bound a n h : okA a n (Some h) -> exists t, hfind h (la_tab a) = Some (h, t).
Proof. intros [T|[_ [F _]]]; eauto. Qed.
Lemma okA_frame a a' s n n0 ho : GoodA a s -> n = h_next s -> Frame a a' n -> okA a n0 ho -> okA a' n0 ho.
Proof.
  intros G -> Fr. destruct ho as [h|]; cbn [okA]; [|auto]. intros H.
  assert (Hlt : h < h_next s).
  { destruct (okA_bound _ _ _ H) as [t Ht]. eapply (G_lt _ _ G); eassumption. }
  destruct (Fr h Hlt) as [F1 F2]. unfold tightA, freeA in *. rewrite F1, F2. exact H.
Qed.
Lemma opt_bound_ok a n ho : okA a n ho -> opt_bound a ho = true.
Proof.
  destruct ho as [h|]; [|reflexivity]. intros H. destruct (okA_bound _ _ _ H) as [t Ht].
  cbn [opt_bound]. unfold la_bound. rewrite Ht. reflexivity.
Qed.

Lemma post_refl a s n0 ho : lin_of s = Some a -> GoodA a s -> okA a n0 ho -> post a s n0 ho s.
Proof. intros L G O. exists a. split; [exact L|]. split; [exact G|]. split; [lia|]. split; [apply Frame_refl|exact O]. Qed.
Lemma post_trans a s n0 h1 s1 ho s2 :
  post a s n0 h1 s1 ->
  (forall a1, lin_of s1 = Some a1 -> GoodA a1 s1 -> Frame a a1 n0 -> okA a1 n0 h1 -> post a1 s1 n0 ho s2) ->
  post a s n0 ho s2.
Proof.
  intros (a1 & L1 & G1 & N1 & F1 & O1) H.
  destruct (H a1 L1 G1 F1 O1) as (a2 & L2 & G2 & N2 & F2 & O2).
  exists a2. split; [exact L2|]. split; [exact G2|]. split; [lia|]. split; [eapply Frame_trans; eassumption|exact O2].
Qed.
Lemma post_le a s n m ho s' : m <= n -> post a s n ho s' -> post a s m ho s'.
Proof.
  intros Hle (a' & L & G & N & F & O). exists a'. split; [exact L|]. split; [exact G|]. split; [exact N|].
  split; [eapply Frame_le; eassumption|eapply okA_le; eassumption].
Qed.
Lemma post_weaken_ho a s n ho s' : post a s n ho s' -> post a s n None s'.
Proof. intros (a' & L & G & N & F & O). exists a'. repeat (split; [assumption|]). exact I. Qed.

Lemma unbound_next a s : GoodA a s -> la_bound a (h_next s) = false.
Proof.
  intros G. unfold la_bound. destruct (hfind (h_next s) (la_tab a)) as [v|] eqn:E; [|reflexivity].
  pose proof (G_lt _ _ G _ _ E). lia.
Qed.
Lemma unspent_next a s : GoodA a s -> hmem (h_next s) (la_spent a) = false.
Proof.
  intros G. destruct (hmem (h_next s) (la_spent a)) eqn:E; [|reflexivity].
  pose proof (G_sp _ _ G _ E). lia.
Qed.

(* binding the next handle *)
Lemma GoodA_bind a s t s1 :
  GoodA a s -> h_next s1 = h_next s + 1 -> h_cache s1 = h_cache s ->
  GoodA (la_bind a (h_next s) (h_next s, t)) s1.
Proof.
  intros G Hn Hc. constructor; unfold la_bind; cbn [la_tab la_spent].
  - intros h v. rewrite hfind_cons. destruct (h =? h_next s) eqn:E.
    + apply N.eqb_eq in E. intros _. lia.
    + intros Q. pose proof (G_lt _ _ G _ _ Q). lia.
  - intros h r t0. rewrite hfind_cons. destruct (h =? h_next s) eqn:E.
    + apply N.eqb_eq in E. intros Q; inversion Q; subst; reflexivity.
    + apply (G_rep _ _ G).
  - intros h Q. pose proof (G_sp _ _ G _ Q). lia.
  - intros k h Q. rewrite Hc in Q. pose proof (G_cache _ _ G _ _ Q) as T. rewrite hfind_cons.
    destruct (h =? h_next s) eqn:E; [|exact T]. apply N.eqb_eq in E. pose proof (G_lt _ _ G _ _ T). lia.
Qed.
Lemma Frame_bind a h v n : n <= h -> Frame a (la_bind a h v) n.
Proof.
  intros Hle k Hk. unfold la_bind; cbn [la_tab la_spent]. rewrite hfind_cons.
  destruct (k =? h) eqn:E; [apply N.eqb_eq in E; lia|]. split; reflexivity.
Qed.

(* NodeList([]Node{n1}) *)
Lemma emit_new_post a s n0 l :
  lin_of s = Some a -> GoodA a s -> n0 <= h_next s ->
  post a s n0 (Some (h_next s)) (emit (LNew (h_next s) l) (bump s)).
Proof.
  intros L G Hn. exists (la_bind a (h_next s) (h_next s, true)).
  split. { rewrite lin_of_emit, lin_of_bump, L. cbn [lin_step]. rewrite (unbound_next _ _ G). reflexivity. }
  split. { apply GoodA_bind; [exact G| |]; reflexivity. }
  split. { cbn. lia. }
  split. { apply Frame_bind. exact Hn. }
  left. unfold tightA, la_bind; cbn [la_tab]. rewrite hfind_cons, N.eqb_refl. reflexivity.
Qed.

(* n.Append(something) from a header its holder may append to *)
Lemma emit_append_post a s n0 hb e el :
  lin_of s = Some a -> GoodA a s -> n0 <= h_next s -> okA a n0 (Some hb) ->
  post a s n0 (Some (h_next s)) (emit (LAppend hb (h_next s) (e :: el)) (bump s)).
Proof.
  intros L G Hn O. destruct O as [T|[Hb [F1 F2]]].
  - (* tight: reallocates, nothing spent *)
    exists (la_bind a (h_next s) (h_next s, false)).
    split. { rewrite lin_of_emit, lin_of_bump, L. cbn [lin_step]. unfold tightA in T. rewrite T, (unbound_next _ _ G). reflexivity. }
    split. { apply GoodA_bind; [exact G| |]; reflexivity. }
    split. { cbn. lia. }
    split. { apply Frame_bind. exact Hn. }
    right. split; [exact Hn|]. split.
    + unfold la_bind; cbn [la_tab]. rewrite hfind_cons, N.eqb_refl. reflexivity.
    + unfold la_bind; cbn [la_spent]. apply (unspent_next _ _ G).
  - (* created since n0 and never appended to: spent now *)
    exists (mklabs ((h_next s, (h_next s, false)) :: la_tab a) (hb :: la_spent a)).
    assert (Hlt : hb < h_next s) by (eapply (G_lt _ _ G); eassumption).
    split. { rewrite lin_of_emit, lin_of_bump, L. cbn [lin_step]. rewrite F1, (unbound_next _ _ G), F2. reflexivity. }
    split.
    { destruct (GoodA_bind a s false (emit (LAppend hb (h_next s) (e :: el)) (bump s)) G eq_refl eq_refl) as [g1 g2 g3 g4].
      constructor; cbn [la_tab la_spent].
      - exact g1.
      - exact g2.
      - intros h. rewrite hmem_cons. intros Q. apply orb_true_iff in Q. destruct Q as [Q|Q].
        + apply N.eqb_eq in Q. subst h. cbn. lia.
        + apply g3. exact Q.
      - exact g4. }
    split. { cbn. lia. }
    split.
    { intros k Hk. cbn [la_tab la_spent]. rewrite hfind_cons, hmem_cons.
      destruct (k =? h_next s) eqn:E1; [apply N.eqb_eq in E1; lia|].
      destruct (k =? hb) eqn:E2; [apply N.eqb_eq in E2; lia|]. split; reflexivity. }
    right. split; [exact Hn|]. split; cbn [la_tab la_spent].
    + rewrite hfind_cons, N.eqb_refl. reflexivity.
    + rewrite hmem_cons. apply orb_false_iff. split; [apply N.eqb_neq; lia|apply (unspent_next _ _ G)].
Qed.

(* ast.AppendNode *)
Lemma append_h_post s a n0 h1 n1 h2 n2 hr s' :
  lin_of s = Some a -> GoodA a s -> n0 <= h_next s -> okA a n0 h1 -> okA a n0 h2 ->
  append_h s h1 n1 h2 n2 = (hr, s') -> post a s n0 hr s'.
Proof.
  intros L G Hn O1 O2 H. unfold append_h in H.
  destruct n1 as [|x1 t1]. { inversion H; subst. apply post_refl; assumption. }
  destruct n2 as [|x2 t2]. { inversion H; subst. apply post_refl; assumption. }
  destruct h1 as [h|].
  - destruct (added (x1 :: t1) (x2 :: t2)) as [|e el].
    + inversion H; subst. apply post_refl; assumption.
    + inversion H; subst. apply emit_append_post; assumption.
  - destruct (added (x1 :: t1) (x2 :: t2)) as [|e el].
    + inversion H; subst. apply emit_new_post; assumption.
    + inversion H; subst. clear H.
      eapply post_trans; [apply (emit_new_post a s n0 (x1 :: t1)); assumption|].
      intros a1 L1 G1 F1 Ok1.
      apply (emit_append_post a1 _ n0 (h_next s) e el L1 G1); [cbn; lia|exact Ok1].
Qed.

Lemma GoodA_emit a s o : GoodA a s -> GoodA a (emit o s).
Proof. intros [g1 g2 g3 g4]. constructor; assumption. Qed.
Lemma GoodA_save a s k ho : GoodA a s -> (forall h, ho = Some h -> tightA a h) -> GoodA a (hc_save k ho s).
Proof.
  intros [g1 g2 g3 g4] T. constructor; try assumption.
  intros k' h. cbn [hc_save h_cache In]. intros [Q|Q]; [|eapply g4; exact Q].
  inversion Q; subst. apply T. reflexivity.
Qed.
(* ghost entries and cache traffic do not change the abstract state *)
Lemma post_noop a s n ho s' o :
  post a s n ho s' -> (forall a', lin_of s' = Some a' -> okA a' n ho -> lin_step a' o = Some a') ->
  post a s n ho (emit o s').
Proof.
  intros (a' & L & G & N & F & O) H. exists a'.
  split. { rewrite lin_of_emit, L. apply H; assumption. }
  split; [apply GoodA_emit; exact G|]. split; [exact N|]. split; assumption.
Qed.
Lemma post_ret a s n ho ns s' : post a s n ho s' -> post a s n ho (emit (LRet ho ns) s').
Proof.
  intros H. apply post_noop; [exact H|]. intros a' _ O. cbn [lin_step]. rewrite (opt_bound_ok _ _ _ O). reflexivity.
Qed.
Lemma post_seq a s n0 ho1 s1 ho s2 :
  n0 <= h_next s -> post a s (h_next s) ho1 s1 ->
  (forall a1, lin_of s1 = Some a1 -> GoodA a1 s1 -> Frame a a1 (h_next s) -> okA a1 (h_next s) ho1 ->
              h_next s <= h_next s1 -> post a1 s1 n0 ho s2) ->
  post a s n0 ho s2.
Proof.
  intros Hn (a1 & L1 & G1 & N1 & F1 & O1) H.
  destruct (H a1 L1 G1 F1 O1 N1) as (a2 & L2 & G2 & N2 & F2 & O2).
  exists a2. split; [exact L2|]. split; [exact G2|]. split; [lia|].
  split; [eapply Frame_trans; [eapply Frame_le; eassumption|exact F2]|exact O2].
Qed.
Lemma hc_find_in k l h : hc_find k l = Some h -> exists k', In (k', Some h) l.
Proof.
  induction l as [|[k' v] t IH]; cbn [hc_find]; [discriminate|].
  destruct ((fst k =? fst k') && (snd k =? snd k')).
  - intros ->. exists k'. left; reflexivity.
  - intros Q. destruct (IH Q) as [k2 H2]. exists k2. right; exact H2.
Qed.

(* Memoize's clamp + store *)
Lemma memo_store_post a s n ho idx pos :
  lin_of s = Some a -> GoodA a s -> n <= h_next s -> okA a n ho ->
  forall ho' s1,
    match ho with
    | Some h => (Some (h_next s), emit (LClamp h (h_next s)) (bump s))
    | None => (None, s)
    end = (ho', s1) ->
  post a s n ho' (hc_save (idx, pos) ho' (emit (LStore idx pos ho') s1)) /\ match ho' with Some d => True | None => True end.
Proof.
  intros L G Hn O ho' s1 H. split; [|destruct ho'; exact I].
  destruct ho as [h|]; inversion H; subst ho' s1; clear H.
  - destruct (okA_bound _ _ _ O) as [t Ht].
    exists (la_bind a (h_next s) (h_next s, true)).
    assert (T : tightA (la_bind a (h_next s) (h_next s, true)) (h_next s)).
    { unfold tightA, la_bind; cbn [la_tab]. rewrite hfind_cons, N.eqb_refl. reflexivity. }
    split.
    { rewrite lin_of_save, lin_of_emit, lin_of_emit, lin_of_bump, L. cbn [lin_step]. rewrite Ht, (unbound_next _ _ G).
      cbn [opt_bound]. unfold la_bound. rewrite T. reflexivity. }
    split.
    { apply GoodA_save; [apply GoodA_emit; apply GoodA_bind; [exact G|reflexivity|reflexivity]|].
      intros d Q; inversion Q; subst d. exact T. }
    split; [cbn; lia|]. split; [apply Frame_bind; exact Hn|]. left; exact T.
  - exists a. split; [rewrite lin_of_save, lin_of_emit, L; reflexivity|].
    split; [apply GoodA_save; [apply GoodA_emit; exact G|discriminate]|].
    split; [cbn; lia|]. split; [apply Frame_refl|exact I].
Qed.

Section Linear.
  Variable inp : input.
  Variable rules : list pexpr.
  Hypothesis Hrules : forallb no_rtrim rules = true.

  Definition plin (rH : ptypeH) : Prop :=
    forall e c s stk l p ho ns cp err c' s' a,
      no_rtrim e = true -> lin_of s = Some a -> GoodA a s ->
      rH e c s stk l p = Ok (ho, ns, cp, err, c', s') -> post a s (h_next s) ho s'.
  Definition slin (rH : stypeH) : Prop :=
    forall q d c s stk l p m st sh b st' sh' c' s' a n0,
      forallb no_rtrim (q_ps q) = true -> lin_of s = Some a -> GoodA a s -> n0 <= h_next s -> okA a n0 sh ->
      rH q d c s stk l p m st sh = Ok (b, st', sh', c', s') -> post a s n0 sh' s'.

  Section Step.
    Variables (rpH : ptypeH) (rsH : stypeH).
    Hypothesis Hp : plin rpH.
    Hypothesis Hs : slin rsH.

    Lemma any_loopH_lin stk l p ps : forall c s cp hr res err nf a n0 ho ns cp' err' c' s',
      forallb no_rtrim ps = true -> lin_of s = Some a -> GoodA a s -> n0 <= h_next s -> okA a n0 hr ->
      any_loopH rpH stk l p ps c s cp hr res err nf = Ok (ho, ns, cp', err', c', s') -> post a s n0 ho s'.
    Proof.
      induction ps as [|q ps IH]; intros c s cp hr res err nf a n0 ho ns cp' err' c' s' Hnr L G Hn O H;
        cbn [any_loopH] in H.
      - destruct res; inversion H; subst; apply post_refl; assumption.
      - cbn [forallb] in Hnr. apply andb_true_iff in Hnr. destruct Hnr as [Hq Hps].
        apply bind_ok in H. destruct H as ([[[[[h2 res2] cp2] err2] c1] s1] & E1 & H).
        destruct (alt_err p err nf err2) as [e' nf'].
        destruct (append_h s1 hr res h2 res2) as [hr' s2] eqn:EA.
        eapply post_seq; [exact Hn|eapply Hp; eassumption|].
        intros a1 L1 G1 F1 O1 N1.
        assert (Ohr : okA a1 n0 hr) by (eapply okA_frame; [exact G|reflexivity|exact F1|exact O]).
        assert (Oh2 : okA a1 n0 h2) by (eapply okA_le; [exact Hn|exact O1]).
        assert (Hn1 : n0 <= h_next s1) by lia.
        pose proof (append_h_post s1 a1 n0 hr res h2 res2 hr' s2 L1 G1 Hn1 Ohr Oh2 EA) as PA.
        eapply post_trans; [exact PA|].
        intros a2 L2 G2 F2 O2.
        eapply IH; try eassumption.
        destruct PA as (a2' & _ & _ & N2 & _). lia.
    Qed.

    Lemma choice_loopH_lin stk l p ps : forall c s cp err nf a n0 ho ns cp' err' c' s',
      forallb no_rtrim ps = true -> lin_of s = Some a -> GoodA a s -> n0 <= h_next s ->
      choice_loopH rpH stk l p ps c s cp err nf = Ok (ho, ns, cp', err', c', s') -> post a s n0 ho s'.
    Proof.
      induction ps as [|q ps IH]; intros c s cp err nf a n0 ho ns cp' err' c' s' Hnr L G Hn H;
        cbn [choice_loopH] in H.
      - inversion H; subst. apply post_refl; [assumption|assumption|exact I].
      - cbn [forallb] in Hnr. apply andb_true_iff in Hnr. destruct Hnr as [Hq Hps].
        apply bind_ok in H. destruct H as ([[[[[h2 res2] cp2] err2] c1] s1] & E1 & H).
        destruct (alt_err p err nf err2) as [e' nf'].
        destruct res2 as [|r0 rt].
        + eapply post_seq; [exact Hn|eapply Hp; eassumption|].
          intros a1 L1 G1 F1 O1 N1. eapply IH; try eassumption. lia.
        + inversion H; subst. eapply post_le; [exact Hn|]. eapply Hp; eassumption.
    Qed.

    Lemma rules_no_rtrim k body : nth_N rules k = Some body -> no_rtrim body = true.
    Proof.
      unfold nth_N. intros H. apply nth_error_In in H. rewrite forallb_forall in Hrules. apply Hrules. exact H.
    Qed.

    Lemma parse_coreH_lin : plin (parse_coreH true inp rules rpH rsH).
    Proof.
      intros e c s stk l p ho ns cp err c' s' a Hnr L G H.
      destruct e; cbn [parse_coreH] in H; cbn [no_rtrim] in Hnr.
      - (* PTerm *) destruct (term_parse inp t p) as [res er]. inversion H; subst. apply post_refl; [assumption|assumption|exact I].
      - inversion H; subst. apply post_refl; [assumption|assumption|exact I].
      - destruct (is_eof inp p); inversion H; subst; (apply post_refl; [assumption|assumption|exact I]).
      - (* PRef *) destruct (nth_N rules k) as [body|] eqn:E; [|discriminate].
        eapply Hp; [eapply rules_no_rtrim; exact E| | |]; eassumption.
      - (* PMemo *)
        destruct (cache_get c idx p l) as [r|].
        + inversion H; subst. apply post_noop.
          * apply post_refl; [assumption|assumption|].
            destruct (hc_find (idx, p) (h_cache s)) as [h|] eqn:E; [|exact I].
            destruct (hc_find_in _ _ _ E) as [k' Hin]. left. eapply (G_cache _ _ G). exact Hin.
          * intros a' _ O. cbn [lin_step]. rewrite (opt_bound_ok _ _ _ O). reflexivity.
        + destruct (remaining inp p + 1 <? map_get idx l).
          * inversion H; subst. apply post_noop; [apply post_refl; [assumption|assumption|exact I]|]. reflexivity.
          * apply bind_ok in H. destruct H as ([[[[[ho1 nodes] cp1] err1] c1] s1] & E1 & H).
            match type of H with context [match ho1 with Some h => _ | None => _ end] => idtac end.
            eapply post_seq; [apply N.le_refl|eapply Hp; eassumption|].
            intros a1 L1 G1 F1 O1 N1.
            destruct (match ho1 with
                      | Some h => (Some (h_next s1), emit (LClamp h (h_next s1)) (bump s1))
                      | None => (None, s1)
                      end) as [ho' s2] eqn:EM.
            inversion H; subst.
            eapply (proj1 (memo_store_post a1 s1 (h_next s) ho1 idx p L1 G1 N1 O1 _ _ EM)).
      - (* PAny *) eapply any_loopH_lin; try eassumption; [apply N.le_refl|exact I].
      - (* PChoice *) eapply choice_loopH_lin; try eassumption. apply N.le_refl.
      - (* POpt *)
        apply bind_ok in H. destruct H as ([[[[[ho1 res] cp1] err1] c1] s1] & E1 & H).
        destruct (append_h s1 ho1 res None [NEmpty p]) as [ho' s2] eqn:EA. inversion H; subst.
        eapply post_seq; [apply N.le_refl|eapply Hp; eassumption|].
        intros a1 L1 G1 F1 O1 N1. exact (append_h_post s1 a1 (h_next s) ho1 res None [NEmpty p] _ _ L1 G1 N1 O1 I EA).
      - (* PSeq *)
        apply bind_ok in H. destruct H as ([[[[b st] sh] c1] s1] & E1 & H).
        assert (P : post a s (h_next s) sh s1).
        { exact (Hs {| q_kind := k; q_ip := ip; q_single := single; q_ps := ps |} _ _ _ _ _ _ _ _ _ _ _ _ _ _ a (h_next s)
                    Hnr L G (N.le_refl _) (I : okA a (h_next s) None) E1). }
        destruct (s_res st); inversion H; subst; exact P.
      - (* PName *)
        apply bind_ok in H. destruct H as ([[[[[ho1 res] cp1] err1] c1] s1] & E1 & H).
        assert (P : post a s (h_next s) ho1 s1) by (eapply Hp; eassumption).
        destruct err1; [inversion H; subst; eapply post_weaken_ho; exact P|].
        destruct res; inversion H; subst; [eapply post_weaken_ho; exact P|exact P].
      - (* PLeftTrim *)
        destruct (skip_ws inp p m) as [pos1 wserr].
        apply bind_ok in H. destruct H as ([[[[[ho1 res] cp1] err1] c1] s1] & E1 & H).
        assert (P : post a s (h_next s) ho1 s1) by (eapply Hp; eassumption).
        destruct err1 as [e0|].
        + destruct wserr as [w|].
          * destruct (pos1 <? epos e0); [inversion H; subst; eapply post_weaken_ho; exact P|].
            destruct (is_notfound e0); inversion H; subst; exact P.
          * inversion H; subst; exact P.
        + destruct wserr; inversion H; subst; [eapply post_weaken_ho; exact P|exact P].
      - discriminate.
      - (* PSuppress *)
        apply bind_ok in H. destruct H as ([[[[[ho1 res] cp1] err1] c1] s1] & E1 & H).
        inversion H; subst. eapply Hp; eassumption.
      - (* PSingle *)
        apply bind_ok in H. destruct H as ([[[[[ho1 res] cp1] err1] c1] s1] & E1 & H).
        assert (P : post a s (h_next s) ho1 s1) by (eapply Hp; eassumption).
        destruct err1; [inversion H; subst; eapply post_weaken_ho; exact P|].
        destruct res as [|n0 [|n1 rt]]; try (inversion H; subst; exact P).
        + destruct n0; try (inversion H; subst; exact P).
          destruct children as [|ch [|ch2 chs]]; inversion H; subst; first [exact P|eapply post_weaken_ho; exact P].
        + destruct n0; try (inversion H; subst; exact P).
          destruct children as [|ch [|ch2 chs]]; inversion H; subst; exact P.
    Qed.

    Lemma parse_stepH_lin : plin (parse_stepH true inp rules rpH rsH).
    Proof.
      intros e c s stk l p ho ns cp err c' s' a Hnr L G H. unfold parse_stepH in H.
      apply bind_ok in H. destruct H as ([[[[[ho1 ns1] cp1] err1] c1] s1] & E1 & H).
      cbn [ret_log] in H. inversion H; subst. apply post_ret. eapply parse_coreH_lin; eassumption.
    Qed.

    Lemma alts_loopH_lin q d stk l p m prefix ns : forall st sh c s a n0 b st' sh' c' s',
      forallb no_rtrim (q_ps q) = true -> lin_of s = Some a -> GoodA a s -> n0 <= h_next s -> okA a n0 sh ->
      alts_loopH rsH q d stk l p m prefix ns st sh c s = Ok (b, st', sh', c', s') -> post a s n0 sh' s'.
    Proof.
      induction ns as [|n ns IH]; intros st sh c s a n0 b st' sh' c' s' Hnr L G Hn O H; cbn [alts_loopH] in H.
      - inversion H; subst. apply post_refl; assumption.
      - apply bind_ok in H. destruct H as ([[[[stop st1] sh1] c1] s1] & E1 & H).
        assert (P : post a s n0 sh1 s1) by (eapply Hs; eassumption).
        destruct stop; [inversion H; subst; exact P|].
        eapply post_trans; [exact P|]. intros a1 L1 G1 F1 O1.
        eapply IH; try eassumption. destruct P as (a2 & _ & _ & N2 & _). lia.
    Qed.

    Lemma seq_lookup_in k ps d p : seq_lookup k ps d = Some p -> In p ps.
    Proof. destruct k; cbn [seq_lookup]; apply nth_error_In. Qed.

    Lemma seq_stepH_lin : slin (seq_stepH rpH rsH).
    Proof.
      intros q d c s stk l p m st sh b st' sh' c' s' a n0 Hnr L G Hn O H. unfold seq_stepH in H.
      apply bind_ok in H. destruct H as ([[[[[ho1 res] cp1] err1] c1] s1] & E1 & H).
      assert (P : post a s (h_next s) ho1 s1).
      { destruct (seq_lookup (q_kind q) (q_ps q) d) as [sub|] eqn:EL.
        - eapply Hp; try eassumption. rewrite forallb_forall in Hnr. apply Hnr. eapply seq_lookup_in; exact EL.
        - inversion E1; subst. apply post_refl; [assumption|assumption|exact I]. }
      eapply post_seq; [exact Hn|exact P|]. intros a1 L1 G1 F1 O1 N1.
      assert (Osh : okA a1 n0 sh) by (eapply okA_frame; [exact G|reflexivity|exact F1|exact O]).
      destruct res as [|r0 rt].
      - destruct (seq_lencheck (q_kind q) (length (q_ps q)) d).
        + match type of H with context [append_h ?x1 ?x2 ?x3 ?x4 ?x5] => destruct (append_h x1 x2 x3 x4 x5) as [sh2 s2] eqn:EA end.
          cbn [s_nodes] in H.
          assert (P2 : post a1 s1 n0 sh2 s2).
          { assert (Hn1 : n0 <= h_next s1) by lia.
            exact (append_h_post s1 a1 n0 sh _ None _ sh2 s2 L1 G1 Hn1 Osh I EA). }
          destruct (s_nodes st); inversion H; subst; exact P2.
        + inversion H; subst. apply post_refl; assumption.
      - eapply alts_loopH_lin; try eassumption. lia.
    Qed.
  End Step.

  Lemma lin_fuel : forall f, plin (parseH true inp rules f) /\ slin (seqpH true inp rules f).
  Proof.
    induction f as [|f [IHp IHs]].
    - split; [intros e c s stk l p ho ns cp err c' s' a _ _ _ H | intros q d c s stk l p m st sh b st' sh' c' s' a n0 _ _ _ _ _ H];
        cbn in H; discriminate.
    - split.
      + intros e c s stk l p ho ns cp err c' s' a Hnr L G H. rewrite parseH_S in H.
        eapply parse_stepH_lin; [exact IHp|exact IHs| | | |]; eassumption.
      + intros q d c s stk l p m st sh b st' sh' c' s' a n0 Hnr L G Hn O H. rewrite seqpH_S in H.
        eapply seq_stepH_lin; [exact IHp|exact IHs| | | | | |]; eassumption.
  Qed.

  Lemma GoodA0 : GoodA labs0 hst0.
  Proof. constructor; cbn; intros; try discriminate; tauto. Qed.

  (* every log the engine emits on a grammar without RightTrim (clamp on) is linear; stated from any good starting state
     (in particular the empty one) *)
  Theorem engine_log_linear_from : forall f e c s stk l p ho ns cp err c' s' a,
    no_rtrim e = true -> lin_of s = Some a -> GoodA a s ->
    parseH true inp rules f e c s stk l p = Ok (ho, ns, cp, err, c', s') -> linear (the_log s').
  Proof.
    intros f e c s stk l p ho ns cp err c' s' a Hnr L G H.
    destruct (proj1 (lin_fuel f) _ _ _ _ _ _ _ _ _ _ _ _ _ Hnr L G H) as (a' & L' & _).
    exists a'. exact L'.
  Qed.
End Linear.

Theorem engine_log_linear : forall inp rules f root ho ns cp err c s,
  forallb no_rtrim rules = true -> no_rtrim root = true ->
  runH true inp rules f root = Ok (ho, ns, cp, err, c, s) -> linear (the_log s).
Proof.
  intros inp rules f root ho ns cp err c s Hr Hroot H. unfold runH in H.
  exact (engine_log_linear_from inp rules Hr f root ctx0 hst0 [] [] (i_offset inp) ho ns cp err c s labs0 Hroot eq_refl GoodA0 H).
Qed.

(* ================================================================================================
   2b. the values the engine returns are the lists its handles denote (HeapLog.val_of)
   ================================================================================================ *)
Fixpoint hvals (l : list nlop) : list (handle * list node) :=
  match l with [] => [] | o :: t => vals_step (hvals t) o end.
Lemma vals_from_rev (l : list nlop) : vals_from [] (rev l) = hvals l.
Proof.
  unfold vals_from. rewrite <- fold_left_rev_right. rewrite rev_involutive.
  induction l as [|o t IH]; cbn [fold_right hvals]; [reflexivity|]. rewrite IH. reflexivity.
Qed.
Definition hval (s : hst) (h : handle) : option (list node) := hfind h (hvals (h_log s)).
Lemma val_of_log s h : val_of (the_log s) h = hval s h.
Proof. unfold val_of, the_log, hval. rewrite vals_from_rev. reflexivity. Qed.

Definition VGood (s : hst) : Prop := forall h v, hval s h = Some v -> h < h_next s.
Definition den (s : hst) (ho : option handle) (ns : list node) : Prop :=
  match ho with Some h => hval s h = Some ns | None => True end.
Definition CD (c : ctx) (s : hst) : Prop :=
  forall k r h, cache_find k (cache c) = Some r -> hc_find k (h_cache s) = Some h -> hval s h = Some (r_nodes r).
Definition RetsOK (s : hst) : Prop :=
  forall l1 l2 h ns, h_log s = l2 ++ LRet (Some h) ns :: l1 -> hfind h (hvals l1) = Some ns.
Definition VFrame (s s' : hst) : Prop :=
  h_next s <= h_next s' /\ forall h, h < h_next s -> hval s' h = hval s h.
Definition vpost (c' : ctx) (s s' : hst) (ho : option handle) (ns : list node) : Prop :=
  VGood s' /\ CD c' s' /\ RetsOK s' /\ VFrame s s' /\ den s' ho ns.

Lemma VFrame_refl s : VFrame s s.
Proof. split; [lia|auto]. Qed.
Lemma VFrame_trans a b c : VFrame a b -> VFrame b c -> VFrame a c.
Proof. intros [N1 F1] [N2 F2]. split; [lia|]. intros h Hh. rewrite F2 by lia. apply F1. exact Hh. Qed.
Lemma den_frame s s1 ho ns : VGood s -> VFrame s s1 -> den s ho ns -> den s1 ho ns.
Proof. intros G [_ F]. destruct ho as [h|]; cbn [den]; [|auto]. intros H. rewrite F; [exact H|]. eapply G; exact H. Qed.
Lemma CD_frame c s s1 : VGood s -> CD c s -> VFrame s s1 -> h_cache s1 = h_cache s -> CD c s1.
Proof.
  intros G C [_ F] Hc k r h Q1 Q2. rewrite Hc in Q2. pose proof (C _ _ _ Q1 Q2) as Q. rewrite F; [exact Q|]. eapply G; exact Q.
Qed.
Lemma vpost_refl c s ho ns : VGood s -> CD c s -> RetsOK s -> den s ho ns -> vpost c s s ho ns.
Proof. intros. split; [assumption|]. split; [assumption|]. split; [assumption|]. split; [apply VFrame_refl|assumption]. Qed.
Lemma vpost_trans c1 c2 s s1 s2 h1 v1 h2 v2 : vpost c1 s s1 h1 v1 -> vpost c2 s1 s2 h2 v2 -> vpost c2 s s2 h2 v2.
Proof.
  intros (_ & _ & _ & F1 & _) (G2 & C2 & R2 & F2 & D2).
  split; [exact G2|]. split; [exact C2|]. split; [exact R2|]. split; [eapply VFrame_trans; eassumption|exact D2].
Qed.
Lemma vpost_none c s s' ho ns ns' : vpost c s s' ho ns -> vpost c s s' None ns'.
Proof. intros (G & C & R & F & _). split; [exact G|]. split; [exact C|]. split; [exact R|]. split; [exact F|exact I]. Qed.

(* an operation that is not the return of a list leaves the recorded returns justified *)
Lemma RetsOK_emit s o : RetsOK s -> (forall h ns, o = LRet (Some h) ns -> hval s h = Some ns) -> RetsOK (emit o s).
Proof.
  intros R Ho l1 l2 h ns E. cbn [emit h_log] in E. destruct l2 as [|x l2]; cbn [app] in E.
  - inversion E; subst. apply Ho. reflexivity.
  - inversion E; subst. eapply R. eassumption.
Qed.
Lemma RetsOK_same s s1 : h_log s1 = h_log s -> RetsOK s -> RetsOK s1.
Proof. intros E R l1 l2 h ns Q. rewrite E in Q. eapply R; exact Q. Qed.

(* ghost entries and cache traffic *)
Definition is_noop (o : nlop) : Prop := forall vt, vals_step vt o = vt.
Lemma v_noop c s o ho ns :
  is_noop o -> (forall h v, o = LRet (Some h) v -> hval s h = Some v) ->
  VGood s -> CD c s -> RetsOK s -> den s ho ns -> vpost c s (emit o s) ho ns.
Proof.
  intros No Hr G C R D.
  assert (E : forall h, hval (emit o s) h = hval s h) by (intros h; unfold hval; cbn [emit h_log hvals]; rewrite No; reflexivity).
  split. { intros h v Q. rewrite E in Q. exact (G _ _ Q). }
  split. { intros k r h Q1 Q2. rewrite E. eapply C; eassumption. }
  split. { apply RetsOK_emit; assumption. }
  split. { split; [cbn; lia|]. intros h _. apply E. }
  destruct ho as [h|]; cbn [den]; [rewrite E; exact D|exact I].
Qed.

(* an operation that binds the next handle [h_next s] to the list v *)
Lemma v_bind c s o v :
  vals_step (hvals (h_log s)) o = (h_next s, v) :: hvals (h_log s) -> (forall h w, o <> LRet (Some h) w) ->
  VGood s -> CD c s -> RetsOK s -> vpost c s (emit o (bump s)) (Some (h_next s)) v.
Proof.
  intros Hb Hn G C R.
  assert (E : forall h, hval (emit o (bump s)) h = if h =? h_next s then Some v else hval s h).
  { intros h. unfold hval. cbn [emit bump h_log hvals]. rewrite Hb, hfind_cons. reflexivity. }
  assert (F : VFrame s (emit o (bump s))).
  { split; [cbn; lia|]. intros h Hh. rewrite E. destruct (h =? h_next s) eqn:Q; [apply N.eqb_eq in Q; lia|reflexivity]. }
  split. { intros h w Q. rewrite E in Q. cbn [emit bump h_next]. destruct (h =? h_next s) eqn:Q2; [apply N.eqb_eq in Q2; lia|]. pose proof (G _ _ Q). lia. }
  split. { eapply CD_frame; [exact G|exact C|exact F|reflexivity]. }
  split. { apply RetsOK_emit; [apply (RetsOK_same s); [reflexivity|exact R]|]. intros h w Q. exfalso. eapply Hn; exact Q. }
  split; [exact F|]. cbn [den]. rewrite E, N.eqb_refl. reflexivity.
Qed.

Lemma append_nodes_added l : forall acc, append_nodes acc l = acc ++ added acc l.
Proof.
  induction l as [|x t IH]; intros acc; cbn [append_nodes added]; [rewrite app_nil_r; reflexivity|].
  destruct x; try (rewrite IH, <- app_assoc; reflexivity).
  destruct (has_empty pos acc); [apply IH|rewrite IH, <- app_assoc; reflexivity].
Qed.

(* ast.AppendNode: the resulting representation denotes append_node n1 n2 *)
Lemma append_h_val c s h1 n1 h2 n2 hr s' :
  VGood s -> CD c s -> RetsOK s -> den s h1 n1 -> den s h2 n2 ->
  append_h s h1 n1 h2 n2 = (hr, s') -> vpost c s s' hr (append_node n1 n2).
Proof.
  intros G C R D1 D2 H. unfold append_h in H.
  destruct n1 as [|x1 t1]. { inversion H; subst. apply vpost_refl; assumption. }
  destruct n2 as [|x2 t2]. { inversion H; subst. apply vpost_refl; assumption. }
  unfold append_node. rewrite append_nodes_added.
  destruct h1 as [h|].
  - cbn [den] in D1. destruct (added (x1 :: t1) (x2 :: t2)) as [|e el] eqn:EA.
    + inversion H; subst. rewrite app_nil_r. apply vpost_refl; assumption.
    + inversion H; subst. apply v_bind; try assumption; [|discriminate].
      cbn [vals_step]. unfold hval in D1. rewrite D1. reflexivity.
  - assert (P1 : vpost c s (emit (LNew (h_next s) (x1 :: t1)) (bump s)) (Some (h_next s)) (x1 :: t1)).
    { apply v_bind; try assumption; [reflexivity|discriminate]. }
    destruct (added (x1 :: t1) (x2 :: t2)) as [|e el] eqn:EA.
    + inversion H; subst. rewrite app_nil_r. exact P1.
    + inversion H; subst. eapply vpost_trans; [exact P1|].
      destruct P1 as (G1 & C1 & R1 & F1 & D1').
      set (s1 := emit (LNew (h_next s) (x1 :: t1)) (bump s)) in *.
      change (h_next s + 1) with (h_next s1).
      apply v_bind; try assumption; [|discriminate].
      cbn [vals_step]. cbn [den] in D1'. unfold hval in D1'. rewrite D1'. reflexivity.
Qed.

Lemma cache_get_find c idx pos lrc r : cache_get c idx pos lrc = Some r -> cache_find (idx, pos) (cache c) = Some r.
Proof. unfold cache_get. destruct (cache_find (idx, pos) (cache c)) as [r0|]; [|discriminate]. destruct (reusable (r_lrc r0) lrc); congruence. Qed.

(* Memoize's clamp + store, values *)
Lemma memo_store_val c s ho nodes idx pos r :
  VGood s -> CD c s -> RetsOK s -> den s ho nodes -> r_nodes r = nodes ->
  forall ho' s1,
    match ho with
    | Some h => (Some (h_next s), emit (LClamp h (h_next s)) (bump s))
    | None => (None, s)
    end = (ho', s1) ->
  vpost (cache_save c idx pos r) s (hc_save (idx, pos) ho' (emit (LStore idx pos ho') s1)) ho' nodes.
Proof.
  intros G C R D Hr ho' s1 H.
  assert (P1 : vpost c s s1 ho' nodes).
  { destruct ho as [h|]; inversion H; subst ho' s1; clear H.
    - cbn [den] in D. apply v_bind; try assumption; [|discriminate].
      cbn [vals_step]. unfold hval in D. rewrite D. reflexivity.
    - apply vpost_refl; assumption. }
  destruct P1 as (G1 & C1 & R1 & F1 & D1).
  assert (P2 : vpost c s1 (emit (LStore idx pos ho') s1) ho' nodes).
  { apply v_noop; try assumption; [intros vt; reflexivity|discriminate]. }
  destruct P2 as (G2 & C2 & R2 & F2 & D2).
  set (s2 := emit (LStore idx pos ho') s1) in *.
  split. { exact G2. }
  split.
  { intros k r0 h. cbn [cache_save cache cache_find hc_save h_cache hc_find]. cbn [fst snd].
    destruct ((fst k =? idx) && (snd k =? pos)).
    - intros Q1 Q2. injection Q1 as <-. rewrite Hr. rewrite Q2 in D2. exact D2.
    - intros Q1 Q2. eapply C2; eassumption. }
  split. { apply (RetsOK_same s2); [reflexivity|exact R2]. }
  split. { eapply VFrame_trans; [exact F1|exact F2]. }
  exact D2.
Qed.

Section Values.
  Variable inp : input.
  Variable rules : list pexpr.
  Hypothesis Hrules : forallb no_rtrim rules = true.

  Definition pval (rH : ptypeH) : Prop :=
    forall e c s stk l p ho ns cp err c' s',
      no_rtrim e = true -> VGood s -> CD c s -> RetsOK s ->
      rH e c s stk l p = Ok (ho, ns, cp, err, c', s') -> vpost c' s s' ho ns.
  Definition sval (rH : stypeH) : Prop :=
    forall q d c s stk l p m st sh b st' sh' c' s',
      forallb no_rtrim (q_ps q) = true -> VGood s -> CD c s -> RetsOK s -> den s sh (s_res st) ->
      rH q d c s stk l p m st sh = Ok (b, st', sh', c', s') -> vpost c' s s' sh' (s_res st').

  Section Step.
    Variables (rpH : ptypeH) (rsH : stypeH).
    Hypothesis Hp : pval rpH.
    Hypothesis Hs : sval rsH.

    Lemma any_loopH_val stk l p ps : forall c s cp hr res err nf ho ns cp' err' c' s',
      forallb no_rtrim ps = true -> VGood s -> CD c s -> RetsOK s -> den s hr res ->
      any_loopH rpH stk l p ps c s cp hr res err nf = Ok (ho, ns, cp', err', c', s') -> vpost c' s s' ho ns.
    Proof.
      induction ps as [|q ps IH]; intros c s cp hr res err nf ho ns cp' err' c' s' Hnr G C R D H; cbn [any_loopH] in H.
      - destruct res; inversion H; subst; apply vpost_refl; assumption.
      - cbn [forallb] in Hnr. apply andb_true_iff in Hnr. destruct Hnr as [Hq Hps].
        apply bind_ok in H. destruct H as ([[[[[h2 res2] cp2] err2] c1] s1] & E1 & H).
        destruct (alt_err p err nf err2) as [e' nf'].
        destruct (append_h s1 hr res h2 res2) as [hr' s2] eqn:EA.
        assert (P1 : vpost c1 s s1 h2 res2) by (eapply (Hp q (reg_call c)); eassumption).
        pose proof P1 as (G1 & C1 & R1 & F1 & D1).
        assert (Dhr : den s1 hr res) by (exact (den_frame s s1 hr res G F1 D)).
        pose proof (append_h_val c1 s1 hr res h2 res2 hr' s2 G1 C1 R1 Dhr D1 EA) as P2.
        pose proof P2 as (G2 & C2 & R2 & F2 & D2).
        eapply vpost_trans; [exact P1|]. eapply vpost_trans; [exact P2|].
        eapply IH; eassumption.
    Qed.

    Lemma choice_loopH_val stk l p ps : forall c s cp err nf ho ns cp' err' c' s',
      forallb no_rtrim ps = true -> VGood s -> CD c s -> RetsOK s ->
      choice_loopH rpH stk l p ps c s cp err nf = Ok (ho, ns, cp', err', c', s') -> vpost c' s s' ho ns.
    Proof.
      induction ps as [|q ps IH]; intros c s cp err nf ho ns cp' err' c' s' Hnr G C R H; cbn [choice_loopH] in H.
      - inversion H; subst. apply vpost_refl; try assumption. exact I.
      - cbn [forallb] in Hnr. apply andb_true_iff in Hnr. destruct Hnr as [Hq Hps].
        apply bind_ok in H. destruct H as ([[[[[h2 res2] cp2] err2] c1] s1] & E1 & H).
        destruct (alt_err p err nf err2) as [e' nf'].
        assert (P1 : vpost c1 s s1 h2 res2) by (eapply (Hp q (reg_call c)); eassumption).
        destruct res2 as [|r0 rt].
        + pose proof P1 as (G1 & C1 & R1 & F1 & D1).
          eapply vpost_trans; [exact P1|]. eapply IH; eassumption.
        + inversion H; subst. destruct P1 as (G1 & C1 & R1 & F1 & D1).
          split; [exact G1|]. split; [exact C1|]. split; [exact R1|]. split; [exact F1|exact D1].
    Qed.

    Lemma parse_coreH_val : pval (parse_coreH true inp rules rpH rsH).
    Proof.
      intros e c s stk l p ho ns cp err c' s' Hnr G C R H.
      destruct e; cbn [parse_coreH] in H; cbn [no_rtrim] in Hnr.
      - (* PTerm *) destruct (term_parse inp t p) as [res er]. inversion H; subst.
        apply vpost_refl; try assumption; [|exact I].
        destruct ns; [destruct err|]; exact C.
      - inversion H; subst. apply vpost_refl; try assumption. exact I.
      - destruct (is_eof inp p); inversion H; subst; (apply vpost_refl; try assumption; exact I).
      - (* PRef *) destruct (nth_N rules k) as [body|] eqn:E; [|discriminate].
        eapply Hp; [eapply rules_no_rtrim; [exact Hrules|exact E]| | | |]; eassumption.
      - (* PMemo *)
        destruct (cache_get c idx p l) as [r|] eqn:EG.
        + inversion H; subst. apply v_noop; try assumption; [intros vt; reflexivity|discriminate|].
          destruct (hc_find (idx, p) (h_cache s)) as [h|] eqn:E; [|exact I].
          cbn [den]. eapply C; [eapply cache_get_find; exact EG|exact E].
        + destruct (remaining inp p + 1 <? map_get idx l).
          * inversion H; subst. apply v_noop; try assumption; [intros vt; reflexivity|discriminate|exact I].
          * apply bind_ok in H. destruct H as ([[[[[ho1 nodes] cp1] err1] c1] s1] & E1 & H).
            assert (P1 : vpost c1 s s1 ho1 nodes) by (eapply (Hp e (log_body c idx p (1 + count_active idx p stk))); eassumption).
            pose proof P1 as (G1 & C1 & R1 & F1 & D1).
            destruct (match ho1 with
                      | Some h => (Some (h_next s1), emit (LClamp h (h_next s1)) (bump s1))
                      | None => (None, s1)
                      end) as [ho' s2] eqn:EM.
            inversion H; subst.
            eapply vpost_trans; [exact P1|].
            exact (memo_store_val c1 s1 ho1 ns idx p {| r_lrc := map_filter cp l; r_cp := cp; r_err := err; r_nodes := ns |}
                                  G1 C1 R1 D1 eq_refl _ _ EM).
      - (* PAny *) eapply any_loopH_val; try eassumption. exact I.
      - (* PChoice *) eapply choice_loopH_val; eassumption.
      - (* POpt *)
        apply bind_ok in H. destruct H as ([[[[[ho1 res] cp1] err1] c1] s1] & E1 & H).
        destruct (append_h s1 ho1 res None [NEmpty p]) as [ho' s2] eqn:EA. inversion H; subst.
        assert (P1 : vpost c' s s1 ho1 res) by (eapply Hp; eassumption).
        pose proof P1 as (G1 & C1 & R1 & F1 & D1).
        eapply vpost_trans; [exact P1|].
        exact (append_h_val c' s1 ho1 res None [NEmpty p] ho s' G1 C1 R1 D1 I EA).
      - (* PSeq *)
        apply bind_ok in H. destruct H as ([[[[b st] sh] c1] s1] & E1 & H).
        assert (P : vpost c1 s s1 sh (s_res st)).
        { exact (Hs {| q_kind := k; q_ip := ip; q_single := single; q_ps := ps |} _ _ _ _ _ _ _ _ None _ _ _ _ _ Hnr G C R I E1). }
        destruct (s_res st) eqn:Er; inversion H; subst.
        * destruct P as (G1 & C1 & R1 & F1 & D1). split; [exact G1|]. split; [exact C1|]. split; [exact R1|]. split; [exact F1|exact D1].
        * destruct P as (G1 & C1 & R1 & F1 & D1). split; [exact G1|]. split; [exact C1|]. split; [exact R1|]. split; [exact F1|exact D1].
      - (* PName *)
        apply bind_ok in H. destruct H as ([[[[[ho1 res] cp1] err1] c1] s1] & E1 & H).
        assert (P : vpost c1 s s1 ho1 res) by (eapply Hp; eassumption).
        destruct err1; [inversion H; subst; eapply vpost_none; exact P|].
        destruct res; inversion H; subst; [eapply vpost_none; exact P|exact P].
      - (* PLeftTrim *)
        destruct (skip_ws inp p m) as [pos1 wserr].
        apply bind_ok in H. destruct H as ([[[[[ho1 res] cp1] err1] c1] s1] & E1 & H).
        assert (P0 : vpost c1 s s1 ho1 res) by (eapply Hp; eassumption).
        assert (P : forall c2, cache c2 = cache c1 -> vpost c2 s s1 ho1 res).
        { intros c2 Ec. destruct P0 as (G1 & C1 & R1 & F1 & D1). split; [exact G1|]. split; [|split; [exact R1|split; [exact F1|exact D1]]].
          intros k r h Q1 Q2. rewrite Ec in Q1. eapply C1; eassumption. }
        match type of H with context [match cerr c1 with Some ce => _ | None => c1 end] =>
          set (c2 := match cerr c1 with
                     | Some ce => if (epos ce =? pos1) && is_notfound ce then set_error c1 (Some (mk_err p (ecause ce))) else c1
                     | None => c1 end) in *
        end.
        assert (Ec : cache c2 = cache c1).
        { subst c2. destruct (cerr c1) as [ce|]; [|reflexivity]. destruct ((epos ce =? pos1) && is_notfound ce); reflexivity. }
        destruct err1 as [e0|].
        + destruct wserr as [w|].
          * destruct (pos1 <? epos e0); [inversion H; subst; eapply vpost_none; apply P; exact Ec|].
            destruct (is_notfound e0); inversion H; subst; apply P; exact Ec.
          * inversion H; subst; apply P; exact Ec.
        + destruct wserr; inversion H; subst; [eapply vpost_none; apply P; exact Ec|apply P; exact Ec].
      - discriminate.
      - (* PSuppress *)
        apply bind_ok in H. destruct H as ([[[[[ho1 res] cp1] err1] c1] s1] & E1 & H).
        inversion H; subst. eapply Hp; eassumption.
      - (* PSingle *)
        apply bind_ok in H. destruct H as ([[[[[ho1 res] cp1] err1] c1] s1] & E1 & H).
        assert (P : vpost c1 s s1 ho1 res) by (eapply Hp; eassumption).
        destruct err1; [inversion H; subst; eapply vpost_none; exact P|].
        destruct res as [|n0 [|n1 rt]]; try (inversion H; subst; exact P).
        + destruct n0; try (inversion H; subst; exact P).
          destruct children as [|ch [|ch2 chs]]; inversion H; subst; first [exact P|eapply vpost_none; exact P].
        + destruct n0; try (inversion H; subst; exact P).
          destruct children as [|ch [|ch2 chs]]; inversion H; subst; exact P.
    Qed.

    Lemma parse_stepH_val : pval (parse_stepH true inp rules rpH rsH).
    Proof.
      intros e c s stk l p ho ns cp err c' s' Hnr G C R H. unfold parse_stepH in H.
      apply bind_ok in H. destruct H as ([[[[[ho1 ns1] cp1] err1] c1] s1] & E1 & H).
      cbn [ret_log] in H. inversion H; subst.
      assert (P : vpost c' s s1 ho ns) by (eapply parse_coreH_val; eassumption).
      pose proof P as (G1 & C1 & R1 & F1 & D1).
      eapply vpost_trans; [exact P|]. apply v_noop; try assumption; [intros vt; reflexivity|].
      intros h v Q. inversion Q; subst. exact D1.
    Qed.

    Lemma alts_loopH_val q d stk l p m prefix ns : forall st sh c s b st' sh' c' s',
      forallb no_rtrim (q_ps q) = true -> VGood s -> CD c s -> RetsOK s -> den s sh (s_res st) ->
      alts_loopH rsH q d stk l p m prefix ns st sh c s = Ok (b, st', sh', c', s') -> vpost c' s s' sh' (s_res st').
    Proof.
      induction ns as [|n ns IH]; intros st sh c s b st' sh' c' s' Hnr G C R D H; cbn [alts_loopH] in H.
      - inversion H; subst. apply vpost_refl; assumption.
      - apply bind_ok in H. destruct H as ([[[[stop st1] sh1] c1] s1] & E1 & H).
        assert (P : vpost c1 s s1 sh1 (s_res st1)).
        { exact (Hs q (S d) c s stk _ _ _ {| s_cp := s_cp st; s_res := s_res st; s_err := s_err st; s_nodes := n :: prefix |}
                    sh _ _ _ _ _ Hnr G C R D E1). }
        destruct stop; [inversion H; subst; exact P|].
        pose proof P as (G1 & C1 & R1 & F1 & D1).
        eapply vpost_trans; [exact P|]. eapply IH; eassumption.
    Qed.

    Lemma seq_stepH_val : sval (seq_stepH rpH rsH).
    Proof.
      intros q d c s stk l p m st sh b st' sh' c' s' Hnr G C R D H. unfold seq_stepH in H.
      apply bind_ok in H. destruct H as ([[[[[ho1 res] cp1] err1] c1] s1] & E1 & H).
      assert (P : vpost c1 s s1 ho1 res).
      { destruct (seq_lookup (q_kind q) (q_ps q) d) as [sub|] eqn:EL.
        - eapply (Hp sub (reg_call c)); try eassumption. rewrite forallb_forall in Hnr. apply Hnr. eapply seq_lookup_in; exact EL.
        - inversion E1; subst. apply vpost_refl; try assumption. exact I. }
      pose proof P as (G1 & C1 & R1 & F1 & D1).
      assert (Dsh : den s1 sh (s_res st)) by (exact (den_frame s s1 sh (s_res st) G F1 D)).
      eapply vpost_trans; [exact P|].
      destruct res as [|r0 rt].
      - destruct (seq_lencheck (q_kind q) (length (q_ps q)) d).
        + match type of H with context [append_h ?x1 ?x2 ?x3 ?x4 ?x5] => destruct (append_h x1 x2 x3 x4 x5) as [sh2 s2] eqn:EA end.
          cbn [s_nodes s_res] in H.
          pose proof (append_h_val c1 s1 sh _ None _ sh2 s2 G1 C1 R1 Dsh I EA) as P2. cbn [s_res] in P2.
          destruct (s_nodes st); inversion H; subst; exact P2.
        + inversion H; subst. apply vpost_refl; assumption.
      - revert H. match goal with |- alts_loopH _ _ _ _ _ _ _ ?pf ?ns ?st1 _ _ _ = _ -> _ =>
          intros H; exact (alts_loopH_val q d stk l p m pf ns st1 sh c1 s1 b st' sh' c' s' Hnr G1 C1 R1 Dsh H) end.
    Qed.
  End Step.

  Lemma val_fuel : forall f, pval (parseH true inp rules f) /\ sval (seqpH true inp rules f).
  Proof.
    induction f as [|f [IHp IHs]].
    - split; [intros e c s stk l p ho ns cp err c' s' _ _ _ _ H | intros q d c s stk l p m st sh b st' sh' c' s' _ _ _ _ _ H];
        cbn in H; discriminate.
    - split.
      + intros e c s stk l p ho ns cp err c' s' Hnr G C R H. rewrite parseH_S in H.
        eapply parse_stepH_val; [exact IHp|exact IHs| | | | |]; eassumption.
      + intros q d c s stk l p m st sh b st' sh' c' s' Hnr G C R D H. rewrite seqpH_S in H.
        eapply seq_stepH_val; [exact IHp|exact IHs| | | | | |]; eassumption.
  Qed.
End Values.

(* ================================================================================================
   3. C07_immutable = replay_stable o engine_log_linear
   ================================================================================================ *)
(* Every list header created during a parse (returned by a sub-parser, accumulated by Any / Optional / a sequence, stored in
   or served from the cache) reads at the end of the parse the list it read at any earlier moment — for every growth
   function of Go's append.  [stable] quantifies over every cut of the log. *)
Theorem C07_immutable : forall (grow : nat -> nat) inp rules f root ho ns cp err c s,
  forallb no_rtrim rules = true -> no_rtrim root = true ->
  runH true inp rules f root = Ok (ho, ns, cp, err, c, s) ->
  stable grow (the_log s).
Proof.
  intros grow inp rules f root ho ns cp err c s Hr Hroot H.
  apply replay_stable. eapply engine_log_linear; eassumption.
Qed.

(* The same, in terms of the VALUES: every list a sub-parser returned (every LRet entry of the log), the root result and every
   cached list, read through its header on the heap after the whole parse, is exactly the list of nodes that was returned /
   stored — for every growth function.  (Uses 2b: the engine's values are what its handles denote.) *)
Theorem C07_returned_lists_read_back : forall (grow : nat -> nat) inp rules f root ho ns cp err c s,
  forallb no_rtrim rules = true -> no_rtrim root = true ->
  runH true inp rules f root = Ok (ho, ns, cp, err, c, s) ->
  (forall h v, In (LRet (Some h) v) (the_log s) -> read (replay grow (the_log s)) h = Some v) /\
  (forall h, ho = Some h -> read (replay grow (the_log s)) h = Some ns) /\
  (forall k r h, cache_find k (cache c) = Some r -> hc_find k (h_cache s) = Some h ->
                 read (replay grow (the_log s)) h = Some (r_nodes r)).
Proof.
  intros grow inp rules f root ho ns cp err c s Hr Hroot H.
  pose proof (engine_log_linear _ _ _ _ _ _ _ _ _ _ Hr Hroot H) as Lin.
  assert (P : vpost c hst0 s ho ns).
  { unfold runH in H. eapply (proj1 (val_fuel inp rules Hr f)); [exact Hroot| | | |exact H].
    - intros h v Q. discriminate.
    - intros k r h Q. discriminate.
    - intros l1 l2 h v Q. destruct l2; discriminate. }
  destruct P as (G & C & R & _ & D).
  assert (RV : forall h v, hval s h = Some v -> read (replay grow (the_log s)) h = Some v).
  { intros h v Q. rewrite (replay_reads_value grow _ Lin), val_of_log. exact Q. }
  split; [|split].
  - intros h v Hin. apply in_split in Hin. destruct Hin as (l1 & l2 & E).
    assert (E2 : h_log s = rev l2 ++ LRet (Some h) v :: rev l1).
    { unfold the_log in E. rewrite <- (rev_involutive (h_log s)), E, rev_app_distr. cbn [rev]. rewrite <- app_assoc. reflexivity. }
    pose proof (R _ _ _ _ E2) as Q.
    assert (L1 : linear l1) by (eapply linear_prefix; rewrite <- E; exact Lin).
    assert (R1 : read (replay grow l1) h = Some v).
    { rewrite (replay_reads_value grow _ L1). unfold val_of. rewrite <- (rev_involutive l1) at 1. rewrite vals_from_rev. exact Q. }
    exact (replay_stable grow _ Lin l1 (LRet (Some h) v :: l2) h v E R1).
  - intros h ->. apply RV. exact D.
  - intros k r h Q1 Q2. apply RV. eapply C; eassumption.
Qed.

(* non-vacuity: the D1 grammar P = Memoize(SeqOf(Any(&P, a, Optional(&P)), b)) on "abbb" has no RightTrim, runs to completion,
   and its log contains appends to cached lists (which reallocate because of the clamp) *)
Definition d1_rules : list pexpr :=
  [PMemo 1 (PSeq SeqOf INone false None [PAny [PRef 0; PTerm (TRune 97); POpt (PRef 0)]; PTerm (TRune 98)])].
Definition d1_log (clamp : bool) (w : list N) : list nlop :=
  match runH clamp (eng_input w 1) d1_rules FUEL (PRef 0) with Ok (_, _, _, _, _, s) => the_log s | _ => [] end.
Definition is_clamp (o : nlop) : bool := match o with LClamp _ _ => true | _ => false end.
Definition is_append (o : nlop) : bool := match o with LAppend _ _ _ => true | _ => false end.
Definition is_list_ret (o : nlop) : bool := match o with LRet (Some _) _ => true | _ => false end.
Example C07_immutable_nonvacuous :
  forallb no_rtrim d1_rules = true /\
  (exists r, runH true (eng_input [97; 98; 98; 98] 1) d1_rules FUEL (PRef 0) = Ok r) /\
  linearb (d1_log true [97; 98; 98; 98]) = true /\
  length (filter is_clamp (d1_log true [97; 98; 98; 98])) = 5%nat /\
  length (filter is_append (d1_log true [97; 98; 98; 98])) = 42%nat /\
  length (filter is_list_ret (d1_log true [97; 98; 98; 98])) = 34%nat.
Proof.
  split; [reflexivity|]. split; [eexists; vm_compute; reflexivity|]. vm_compute. repeat split; reflexivity.
Qed.

(* ================================================================================================
   4. sensitivity: the engine's own log of the D1 grammar WITHOUT the clamp
   ================================================================================================ *)
Definition reads_as (hp : lheap node) (h : handle) : obs :=
  match read hp h with Some v => OL (map (o_node (mk_input [] 1)) v) | None => onone end.
Definition log_upto_dst (d : handle) (l : list nlop) : nat :=      (* the ops before the one that binds d *)
  (fix go (l : list nlop) (k : nat) : nat :=
     match l with
     | [] => k
     | LAppend _ d' _ :: t => if d' =? d then k else go t (S k)
     | _ :: t => go t (S k)
     end) l 0%nat.

Lemma some_inj {T} (a b : T) : Some a = Some b -> a = b.
Proof. intros H. inversion H. reflexivity. Qed.

Lemma obs_eqb_refl : forall x, obs_eqb x x = true.
Proof.
  fix IH 1. intros [n|z|b|l|l|t l]; cbn [obs_eqb].
  - apply N.eqb_refl.
  - apply Z.eqb_refl.
  - destruct b; reflexivity.
  - induction l as [|y l IHl]; cbn [list_N_eqb]; [reflexivity|]. rewrite N.eqb_refl. exact IHl.
  - induction l as [|y l IHl]; [reflexivity|]. rewrite IH. exact IHl.
  - rewrite String.eqb_refl. cbn [andb]. induction l as [|y l IHl]; [reflexivity|]. rewrite IH. exact IHl.
Qed.

(* On "bb": the cached list (handle 6) is handed to Any — which appends one node in place (handle 7, returned later inside
   the rule's result) — and to Optional, whose append (handle 8) overwrites that cell: header 7 reads differently afterwards.
   The log, the cut and the two readings are computed once (vm_compute) and named. *)
Definition d1u_log : list nlop := Eval vm_compute in d1_log false [98; 98].
Definition d1u_k : nat := Eval vm_compute in log_upto_dst 8 d1u_log.
Definition d1u_before : list node :=
  Eval vm_compute in match read (replay dbl (firstn d1u_k d1u_log)) 7 with Some v => v | None => [] end.
Definition d1u_after : list node :=
  Eval vm_compute in match read (replay dbl d1u_log) 7 with Some v => v | None => [] end.

Example replay_unstable_example :
  (d1u_log = d1_log false [98; 98]) /\
  (linearb d1u_log = false) /\
  (read (replay dbl (firstn d1u_k d1u_log)) 7 = Some d1u_before) /\
  (read (replay dbl d1u_log) 7 = Some d1u_after) /\
  (obs_eqb (OL (map (o_node (mk_input [] 1)) d1u_before)) (OL (map (o_node (mk_input [] 1)) d1u_after)) = false) /\
  ~ stable dbl d1u_log.
Proof.
  split; [vm_compute; reflexivity|]. split; [vm_compute; reflexivity|].
  assert (E1 : read (replay dbl (firstn d1u_k d1u_log)) 7 = Some d1u_before) by (vm_compute; reflexivity).
  assert (E2 : read (replay dbl d1u_log) 7 = Some d1u_after) by (vm_compute; reflexivity).
  assert (Hne : obs_eqb (OL (map (o_node (mk_input [] 1)) d1u_before)) (OL (map (o_node (mk_input [] 1)) d1u_after)) = false) by (vm_compute; reflexivity).
  split; [exact E1|]. split; [exact E2|]. split; [exact Hne|].
  intros St.
  pose proof (St (firstn d1u_k d1u_log) (skipn d1u_k d1u_log) 7 d1u_before (eq_sym (firstn_skipn d1u_k d1u_log)) E1) as Q.
  pose proof (some_inj d1u_after d1u_before (eq_trans (eq_sym E2) Q)) as Q2.
  rewrite Q2 in Hne. rewrite obs_eqb_refl in Hne. discriminate.
Qed.
(* with the clamp the same grammar and input are linear (and therefore stable by C07_immutable) *)
Example replay_clamped_example : linearb (d1_log true [98; 98]) = true.
Proof. vm_compute. reflexivity. Qed.

(* ================================================================================================
   5. asking a memoised parser again gives the same answer (Engine.v)
   ================================================================================================ *)
Lemma cache_find_save c idx pos r : cache_find (idx, pos) (cache (cache_save c idx pos r)) = Some r.
Proof. cbn [cache_save cache cache_find fst snd]. rewrite !N.eqb_refl. reflexivity. Qed.

(* a request that finds an entry passing the reuse test returns exactly that entry and leaves the context alone *)
Lemma memo_hit inp rules f idx p c stk lrc pos r :
  cache_find (idx, pos) (cache c) = Some r -> reusable (r_lrc r) lrc = true ->
  parse inp rules (S f) (PMemo idx p) c stk lrc pos = Ok (r_nodes r, r_cp r, r_err r, c).
Proof.
  intros F R. rewrite parse_S. cbn [parse_step]. unfold cache_get. rewrite F, R. reflexivity.
Qed.

(* A request to Memoize that was not curtailed returns (nodes, cp, err) and leaves a context in which any later request at the
   same position, from any stack and with any context [lrc'] passing the reuse test of the stored entry, returns the very same
   (nodes, cp, err) and changes nothing. *)
Theorem C07_cache_same_answer : forall inp rules f f' idx p c stk stk' lrc lrc' pos nodes cp err c',
  parse inp rules (S f) (PMemo idx p) c stk lrc pos = Ok (nodes, cp, err, c') ->
  (cache_get c idx pos lrc <> None \/ (remaining inp pos + 1 <? map_get idx lrc) = false) ->
  exists r, cache_find (idx, pos) (cache c') = Some r /\ r_nodes r = nodes /\ r_cp r = cp /\ r_err r = err /\
    (reusable (r_lrc r) lrc' = true ->
     parse inp rules (S f') (PMemo idx p) c' stk' lrc' pos = Ok (nodes, cp, err, c')).
Proof.
  intros inp rules f f' idx p c stk stk' lrc lrc' pos nodes cp err c' H Hnc.
  rewrite parse_S in H. cbn [parse_step] in H.
  destruct (cache_get c idx pos lrc) as [r|] eqn:EG.
  - inversion H; subst. unfold cache_get in EG.
    destruct (cache_find (idx, pos) (cache c')) as [r0|] eqn:EF; [|discriminate].
    destruct (reusable (r_lrc r0) lrc); inversion EG; subst r0.
    exists r. split; [reflexivity|]. repeat (split; [reflexivity|]).
    intros R. apply memo_hit; assumption.
  - destruct Hnc as [Hnc|Hnc]; [congruence|]. rewrite Hnc in H.
    apply bind_ok in H. destruct H as ([[[nodes1 cp1] err1] c1] & E1 & H). inversion H; subst.
    eexists. split; [apply cache_find_save|]. cbn [r_nodes r_cp r_err r_lrc]. repeat (split; [reflexivity|]).
    intros R.
    exact (memo_hit inp rules f' idx p _ stk' lrc' pos {| r_lrc := map_filter cp lrc; r_cp := cp; r_err := err; r_nodes := nodes |}
                    (cache_find_save c1 idx pos _) R).
Qed.

(* non-vacuity: on the D1 grammar the first request stores a three-alternative list; a second request with the empty
   context returns it (the stored context is empty: the outermost call was not curtailed by anything it depends on) *)
Definition d1_first : outcome pres := Eval vm_compute in parse (eng_input [97; 98; 98; 98] 1) d1_rules FUEL (PRef 0) ctx0 [] [] 1.
Example C07_cache_same_answer_example :
  let inp := eng_input [97; 98; 98; 98] 1 in
  (parse inp d1_rules FUEL (PRef 0) ctx0 [] [] 1 = d1_first) /\
  match d1_first with
  | Ok (nodes, cp, err, c') => length nodes = 7%nat /\ parse inp d1_rules FUEL (PRef 0) c' [] [] 1 = d1_first
  | _ => False
  end.
Proof. cbv zeta. split; [vm_compute; reflexivity|]. vm_compute. split; reflexivity. Qed.

(* ================================================================================================
   6. RightTrim: node cells with a mutable reader position (known finding K1)
   ================================================================================================
   Engine.v and EngineH.v treat nodes as values: PRightTrim returns moved COPIES.  The Go code moves the reader position of
   the node object it was given (ast.SetReaderPos -> TerminalNode.SetReaderPos on the pointer, text/trim.go:72-77).  The two agree unless
   the object is also held by someone else — which, nodes being created fresh by every parser call, can only be the result
   cache.  The cell model below has exactly that: node cells in a store, a cache of addresses, returns recorded by address. *)
Record ncell := mkcell { nc_tok : N; nc_pos : N; nc_rpos : N }.
Inductive kop :=
| KRune (ch pos : N)                 (* terminal.Rune matched ch at pos: allocates a cell (pos, pos+1); the result register holds its address *)
| KStore (idx pos : N)               (* Memoize stores the result register *)
| KHit (idx pos : N)                 (* Memoize serves the stored address into the result register *)
| KRet                               (* a parser returns the result register: (address, rendering now) is recorded *)
| KTrimInPlace (m : wsmode)          (* RightTrim as in /repo: SetReaderPos on the object in the result register *)
| KTrimCopy (m : wsmode).            (* RightTrim by value (what a repaired RightTrim would do): a moved copy in a new cell *)
Record kstate := mkk { k_store : list ncell; k_cache : list ((N * N) * nat); k_reg : option nat;
                       k_rets : list (nat * ncell) }.
Definition kstep (inp : input) (st : kstate) (o : kop) : kstate :=
  match o with
  | KRune ch pos => mkk (k_store st ++ [mkcell ch pos (pos + 1)]) (k_cache st) (Some (length (k_store st))) (k_rets st)
  | KStore idx pos => match k_reg st with
                      | Some a => mkk (k_store st) (((idx, pos), a) :: k_cache st) (k_reg st) (k_rets st)
                      | None => st
                      end
  | KHit idx pos => mkk (k_store st) (k_cache st)
                        (match filter (fun e => (fst (fst e) =? idx) && (snd (fst e) =? pos)) (k_cache st) with
                         | e :: _ => Some (snd e) | [] => None end) (k_rets st)
  | KRet => match k_reg st with
            | Some a => match nth_error (k_store st) a with
                        | Some cl => mkk (k_store st) (k_cache st) (k_reg st) (k_rets st ++ [(a, cl)])
                        | None => st
                        end
            | None => st
            end
  | KTrimInPlace m =>
    match k_reg st with
    | Some a => match nth_error (k_store st) a with
                | Some cl => let r := fst (skip_ws inp (nc_rpos cl) m) in
                             mkk (firstn a (k_store st) ++ mkcell (nc_tok cl) (nc_pos cl) r :: skipn (S a) (k_store st))
                                 (k_cache st) (k_reg st) (k_rets st)
                | None => st
                end
    | None => st
    end
  | KTrimCopy m =>
    match k_reg st with
    | Some a => match nth_error (k_store st) a with
                | Some cl => let r := fst (skip_ws inp (nc_rpos cl) m) in
                             mkk (k_store st ++ [mkcell (nc_tok cl) (nc_pos cl) r]) (k_cache st)
                                 (Some (length (k_store st))) (k_rets st)
                | None => st
                end
    | None => st
    end
  end.
Definition krun (inp : input) (ops : list kop) : kstate := fold_left (kstep inp) ops (mkk [] [] None []).
(* the returns whose cell reads differently at the end: (address, at return, at end) *)
Definition kchanged (st : kstate) : list (nat * ncell * ncell) :=
  flat_map (fun r => match nth_error (k_store st) (fst r) with
                     | Some cl => if (nc_tok cl =? nc_tok (snd r)) && (nc_pos cl =? nc_pos (snd r)) && (nc_rpos cl =? nc_rpos (snd r))
                                  then [] else [(fst r, snd r, cl)]
                     | None => []
                     end) (k_rets st).

(* m = Memoize(Rune('a')) with index 50; Any(SeqOf(m, Rune(' '), y), SeqOf(RightTrim(m, WsSpaces), y)) on "a y" (corpus
   k1_righttrim.case): the calls of m and of the RightTrim, in the order the sequence engine makes them *)
Definition k1_history (trim : wsmode -> kop) : list kop :=
  [KRune 97 1; KRet;            (* body of m at 1: Rune returns the node 1..2 *)
   KStore 50 1; KRet;           (* m stores it and returns it to the first alternative, which keeps it as a child of its SEQ *)
   KHit 50 1; KRet;             (* second alternative: m is served from the cache *)
   trim WsSpaces; KRet].        (* RightTrim moves the reader position over the space and returns *)
Definition k1_input : input := mk_input [97; 32; 121] 1.

Theorem C07_righttrim_refuted :
  (* in place (the code as it is): the node returned by Rune, by m to the first alternative and by the cache hit reads 1..3 at the
     end although it read 1..2 when it was returned *)
  kchanged (krun k1_input (k1_history KTrimInPlace)) =
    [(0%nat, mkcell 97 1 2, mkcell 97 1 3); (0%nat, mkcell 97 1 2, mkcell 97 1 3); (0%nat, mkcell 97 1 2, mkcell 97 1 3)] /\
  (* by value (Engine.v's semantics; what a node-cloning RightTrim would do): nothing changes *)
  kchanged (krun k1_input (k1_history KTrimCopy)) = [] /\
  (* and the value model agrees with the by-value cells: its RightTrim returns 1..3 while the cached entry stays 1..2 *)
  (exists c', parse k1_input [PMemo 50 (PTerm (TRune 97))] 10 (PRightTrim WsSpaces (PRef 0)) ctx0 [] [] 1
              = Ok ([NTerm [97] (VRune 97) 1 3], [], None, c') /\
              option_map r_nodes (cache_find (50, 1) (cache c')) = Some [NTerm [97] (VRune 97) 1 2]).
Proof.
  split; [vm_compute; reflexivity|]. split; [vm_compute; reflexivity|].
  eexists. split; vm_compute; reflexivity.
Qed.
