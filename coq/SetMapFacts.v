(* SetMapFacts.v — facts about the pure IntSet/IntMap operations and ast.AppendNode on values,
   shared by the engine proofs. *)
From Coq Require Import String List NArith Bool Arith Lia.
From Parsley Require Import Obs Base Grammar.
Import ListNotations.
Open Scope N_scope.

(* ---------- sets and maps ---------- *)
Lemma set_mem_insert x y s : set_mem x (set_insert y s) = (x =? y) || set_mem x s.
Proof.
  induction s as [|z t IH]; cbn [set_insert set_mem]; [reflexivity|].
  destruct (y <? z) eqn:E1; cbn [set_mem]; [reflexivity|].
  destruct (y =? z) eqn:E2; cbn [set_mem].
  - apply N.eqb_eq in E2. subst. destruct (x =? z); reflexivity.
  - rewrite IH. destruct (x =? z), (x =? y); reflexivity.
Qed.
Lemma set_mem_union x a b : set_mem x (set_union a b) = set_mem x a || set_mem x b.
Proof.
  unfold set_union. revert a. induction b as [|y b IH]; intros a; cbn [fold_left set_mem].
  - rewrite orb_false_r. reflexivity.
  - rewrite IH, set_mem_insert. destruct (x =? y), (set_mem x a), (set_mem x b); reflexivity.
Qed.
Lemma map_get_inc m idx l : map_get m (map_inc idx l) = if m =? idx then map_get idx l + 1 else map_get m l.
Proof.
  induction l as [|[k v] t IH]; cbn [map_inc map_get].
  - destruct (m =? idx); reflexivity.
  - destruct (idx =? k) eqn:E1; cbn [map_get].
    + apply N.eqb_eq in E1. subst. destruct (m =? k); reflexivity.
    + rewrite IH. destruct (m =? k) eqn:E2; [|reflexivity].
      apply N.eqb_eq in E2. subst. rewrite N.eqb_sym, E1. reflexivity.
Qed.
Lemma map_get_in m l : map_get m l <> 0 -> In (m, map_get m l) l.
Proof.
  induction l as [|[k v] t IH]; cbn [map_get]; [congruence|].
  destruct (m =? k) eqn:E; intros H.
  - apply N.eqb_eq in E. subst. left; reflexivity.
  - right; auto.
Qed.

Definition ge_on (cp : intset) (l l' : intmap) : Prop :=
  forall m, set_mem m cp = true -> map_get m l <= map_get m l'.

Lemma reusable_filter cp l l' : reusable (map_filter cp l) l' = true -> ge_on cp l l'.
Proof.
  intros H m Hm. destruct (N.eq_dec (map_get m l) 0) as [E|E]; [lia|].
  unfold reusable in H. rewrite forallb_forall in H.
  specialize (H (m, map_get m l)). cbn [fst snd] in H. apply N.leb_le, H.
  unfold map_filter. apply filter_In. split; [apply map_get_in; exact E | exact Hm].
Qed.
Lemma ge_on_refl cp l : ge_on cp l l. Proof. intros m _; lia. Qed.
Lemma ge_on_sub cp cp' l l' : (forall m, set_mem m cp = true -> set_mem m cp' = true) -> ge_on cp' l l' -> ge_on cp l l'.
Proof. intros Hs H m Hm. apply H, Hs, Hm. Qed.
Lemma ge_on_inc cp idx l l' : ge_on cp l l' -> ge_on cp (map_inc idx l) (map_inc idx l').
Proof.
  intros H m Hm. rewrite !map_get_inc. destruct (m =? idx) eqn:E; [|apply H; exact Hm].
  apply N.eqb_eq in E. subst. specialize (H idx Hm). lia.
Qed.

(* ---------- append_node membership ---------- *)
Lemma has_empty_in p acc : has_empty p acc = true -> In (NEmpty p) acc.
Proof.
  induction acc as [|n t IH]; cbn [has_empty]; [discriminate|].
  destruct n; intros H; try (right; auto; fail).
  apply orb_true_iff in H. destruct H as [H|H]; [apply N.eqb_eq in H; subst; left; reflexivity | right; auto].
Qed.
Lemma append_nodes_in_acc l : forall acc n, In n acc -> In n (append_nodes acc l).
Proof.
  induction l as [|x l IH]; intros acc n H; cbn [append_nodes]; [exact H|].
  destruct x; try (apply IH; apply in_or_app; left; exact H).
  destruct (has_empty pos acc); apply IH; [exact H | apply in_or_app; left; exact H].
Qed.
Lemma append_nodes_in_l l : forall acc n, In n l -> In n (append_nodes acc l).
Proof.
  induction l as [|x l IH]; intros acc n H; [destruct H|]. cbn [append_nodes]. destruct H as [H|H].
  - subst x. destruct n; try (apply append_nodes_in_acc; apply in_or_app; right; left; reflexivity).
    destruct (has_empty pos acc) eqn:E.
    + apply append_nodes_in_acc. apply has_empty_in; exact E.
    + apply append_nodes_in_acc; apply in_or_app; right; left; reflexivity.
  - destruct x; try (apply IH; exact H). destruct (has_empty pos acc); apply IH; exact H.
Qed.
Lemma append_node_in_l a b n : In n a -> In n (append_node a b).
Proof. intros H. unfold append_node. destruct a; [destruct H|]. apply append_nodes_in_acc; exact H. Qed.
Lemma append_node_in_r a b n : In n b -> In n (append_node a b).
Proof. intros H. unfold append_node. destruct a; [exact H|]. apply append_nodes_in_l; exact H. Qed.

